import DryocVerif.Proofs.RawExtra
/-
C03 / C04 helper lemmas: the code-shaped `push` (`pushRaw`, `objPushRaw` of `Model/SecretStreamRaw.lean`)
against the total model `push`, and the window of message lengths in which the ChaCha20 crate refuses the key
stream although the guard of the source lets the message through.  Core only.
-/
namespace DryocVerif.Proofs.SecretStream
open DryocVerif DryocVerif.Model.Utils DryocVerif.Model.SecretStream DryocVerif.Model.Raw DryocVerif.Proofs.Raw
open scoped DryocVerif.Model.Raw

theorem slice_append3 (a b c : Bytes) (i j : Nat) (hi : i = a.length) (hj : j = a.length + b.length) :
    Model.Raw.slice (a ++ b ++ c) i j = .ok b := by
  subst hi hj
  rw [slice_ok (by omega) (by simp only [List.length_append]; omega)]
  simp

theorem writeSlice_append3 (a b c new : Bytes) (i j : Nat) (hi : i = a.length) (hj : j = a.length + b.length) :
    writeSlice (a ++ b ++ c) i j new = a ++ new ++ c := by
  subst hi hj
  unfold writeSlice
  simp [List.drop_append]

theorem sliceFrom_append3 (a b c : Bytes) (j : Nat) (hj : j = a.length + b.length) :
    sliceFrom (a ++ b ++ c) j = .ok c := by
  subst hj
  rw [sliceFrom_ok (by simp only [List.length_append]; omega)]
  simp [List.drop_append]

theorem take_append3 (a b c : Bytes) (j : Nat) (hj : j = a.length + b.length) :
    (a ++ b ++ c).take j = a ++ b := by
  subst hj
  rw [List.append_assoc, List.take_append, List.take_of_length_le (by omega)]
  simp

theorem finalizeInto_ok (out mac : Bytes) (ho : out.length = 16) (hm : mac.length = 16) :
    finalizeInto out mac = .ok mac := by
  unfold finalizeInto
  rw [slice_ok (by omega) (by omega), ok_bind, copyFromSlice_ok (by simp; omega), ok_bind,
    slice_ok (by omega) (by omega), ok_bind, copyFromSlice_ok (by simp; omega), ok_bind, pure_eq]
  have h16 : out.drop 16 = [] := List.drop_eq_nil_of_le (by omega)
  have h8 : (mac.drop 8).take 8 = mac.drop 8 := List.take_of_length_le (by simp; omega)
  rw [h16, h8, List.append_nil, List.take_append_drop]

/-- a buffer of `n + 17` bytes, cut where `push` cuts it -/
theorem buf_split (ct : Bytes) (n : Nat) (h : ct.length = n + 17) :
    ∃ c0 mid tail, ct = c0 :: (mid ++ tail) ∧ mid.length = n ∧ tail.length = 16 := by
  cases ct with
  | nil => simp at h
  | cons c0 rest =>
    refine ⟨c0, rest.take n, rest.drop n, by rw [List.take_append_drop], ?_, ?_⟩
    · simp at h ⊢; omega
    · simp at h ⊢; omega

/-- the body up to the second key-stream request: every checked operation in front of
`cipher.seek(128); cipher.apply_keystream(&mut ciphertext[1..1 + mlen])` succeeds, for every message the
`MESSAGEBYTES_MAX` guard lets through — then the crate decides -/
theorem pushRawBody_near_max (P : Prims) (s : State) (ct msg ad : Bytes) (tag : UInt8)
    (hl : ct.length = msg.length + 17)
    (h1 : STREAM_BODY_MAX < msg.length) (h2 : msg.length ≤ MESSAGEBYTES_MAX_RAW) :
    pushRawBody P s ct msg ad tag = .panic := by
  have hB := STREAM_BODY_MAX_eq
  have hM := MESSAGEBYTES_MAX_RAW_eq
  obtain ⟨c0, mid, tail, rfl, hmid, htail⟩ := buf_split ct msg.length hl
  unfold pushRawBody
  simp only []
  unfold ABYTES
  rw [checkedAdd_ok (by omega), ok_bind, errIf_neg (by omega), ok_bind, errIf_neg (by omega), ok_bind,
    keystream_ok P s (by omega), ok_bind, sliceTo_ok (by rw [zeros_length]; exact pad16_le _), ok_bind,
    keystream_ok P s (by omega), ok_bind, setIndex_ok' _ (by simp), ok_bind, checkedAdd_ok (by omega)]
  simp only [ok_bind, List.set_cons_zero]
  generalize (xorBytes (tag :: zeros 63) (P.chacha s.k s.nonce (64 / 64) 64)).headD 0 = b0
  have e1 : b0 :: (mid ++ tail) = [b0] ++ mid ++ tail := by simp
  rw [e1, slice_append3 [b0] mid tail 1 (1 + msg.length) rfl (by simp [hmid]), ok_bind,
    copyFromSlice_ok hmid, ok_bind,
    writeSlice_append3 [b0] mid tail msg 1 (1 + msg.length) rfl (by simp [hmid]),
    slice_append3 [b0] msg tail 1 (1 + msg.length) rfl (by simp), ok_bind,
    keystream_panic P s (by omega), panic_bind]

theorem pushRawBody_main (P : Prims) (hP : WF P) (s : State) (ct msg ad : Bytes) (tag : UInt8)
    (hl : ct.length = msg.length + 17) (h1 : msg.length ≤ STREAM_BODY_MAX) :
    pushRawBody P s ct msg ad tag = push P s (msg.length + 17) msg ad tag := by
  have hB := STREAM_BODY_MAX_eq
  have hM := MESSAGEBYTES_MAX_RAW_eq
  obtain ⟨c0, mid, tail, rfl, hmid, htail⟩ := buf_split ct msg.length hl
  rw [push_eq]
  unfold pushRawBody
  simp only []
  unfold ABYTES
  rw [checkedAdd_ok (by omega), ok_bind, errIf_neg (by omega), ok_bind, errIf_neg (by omega), ok_bind,
    keystream_ok P s (by omega), ok_bind, sliceTo_ok (by rw [zeros_length]; exact pad16_le _), ok_bind,
    keystream_ok P s (by omega), ok_bind, setIndex_ok' _ (by simp), ok_bind, checkedAdd_ok (by omega)]
  simp only [ok_bind, List.set_cons_zero]
  have e64 : (64 : Nat) / 64 = 1 := rfl
  have e128 : (128 : Nat) / 64 = 2 := rfl
  have e0 : (0 : Nat) / 64 = 0 := rfl
  rw [e64, e0]
  generalize hblock : xorBytes (tag :: zeros 63) (P.chacha s.k s.nonce 1 64) = block
  have hbl : block.length = 64 := by
    rw [← hblock, xorBytes_length, hP.chacha_len]; simp [zeros]
  obtain ⟨b0, brest, rfl⟩ : ∃ b0 brest, block = b0 :: brest := by
    cases block with
    | nil => simp at hbl
    | cons a b => exact ⟨a, b, rfl⟩
  have hhead : (b0 :: brest).headD 0 = b0 := rfl
  have htake : (b0 :: brest).take 1 = [b0] := rfl
  rw [hhead, htake]
  have e1 : b0 :: (mid ++ tail) = [b0] ++ mid ++ tail := by simp
  generalize hc : xorBytes msg (P.chacha s.k s.nonce 2 msg.length) = c
  have hcl : c.length = msg.length := by rw [← hc, xorBytes_length, hP.chacha_len]; omega
  rw [e1, slice_append3 [b0] mid tail 1 (1 + msg.length) rfl (by simp [hmid]), ok_bind,
    copyFromSlice_ok hmid, ok_bind,
    writeSlice_append3 [b0] mid tail msg 1 (1 + msg.length) rfl (by simp [hmid]),
    slice_append3 [b0] msg tail 1 (1 + msg.length) rfl (by simp), ok_bind,
    keystream_ok P s (by omega), ok_bind, e128, hc,
    writeSlice_append3 [b0] msg tail c 1 (1 + msg.length) rfl (by simp),
    checkedAdd_ok (by omega), ok_bind, sizeDataRaw_eq, ok_bind,
    slice_append3 [b0] c tail 1 (1 + msg.length) rfl (by simp [hcl]), ok_bind,
    asI64_small (by omega), checkedAddI64_ok (by omega), ok_bind]
  have hpadle : bufferMacPad msg.length ≤ 16 := by rw [bufferMacPad_eq]; omega
  have hpad : ((16 - 64 + ((msg.length : Nat) : Int)) % 16).toNat = bufferMacPad msg.length := rfl
  rw [hpad, slice_ok (by omega) (by rw [zeros_length]; exact hpadle), ok_bind,
    sliceFrom_append3 [b0] c tail (1 + msg.length) (by simp [hcl]), ok_bind,
    finalizeInto_ok _ _ htail (hP.mac_len _ _), ok_bind,
    take_append3 [b0] c tail (1 + msg.length) (by simp [hcl]),
    sliceFrom_append3 [b0] c _ (1 + msg.length) (by simp [hcl]), ok_bind, pure_eq]
  have hmacin : ad ++ (zeros 16).take (pad16 ad.length) ++ (b0 :: brest) ++ c
        ++ ((zeros 16).drop 0).take (bufferMacPad msg.length - 0) ++ (toLE 8 ad.length ++ toLE 8 (64 + msg.length))
      = macInput ad (b0 :: brest) c := by
    unfold macInput
    rw [zeros_take 16 _ (pad16_le _), List.drop_zero, Nat.sub_zero, zeros_take 16 _ hpadle, hcl]
    simp only [List.append_assoc]
  rw [hmacin]
  rfl

/-- **the code-shaped `push` is the total model** for every message of at most `STREAM_BODY_MAX = 64·(2^32 − 3)`
bytes, every ciphertext buffer (a wrong size is the `Err` of both), AD, tag byte and state.  `WF P`: the
key stream has the requested length and the authenticator 16 bytes (array types in the Rust). -/
theorem pushRaw_eq_push (P : Prims) (hP : WF P) (s : State) (ct msg ad : Bytes) (tag : UInt8)
    (h1 : msg.length ≤ STREAM_BODY_MAX) :
    pushRaw P s ct msg ad tag = push P s ct.length msg ad tag := by
  have hB := STREAM_BODY_MAX_eq
  by_cases hl : ct.length = msg.length + 17
  · rw [hl]; exact pushRawBody_main P hP s ct msg ad tag hl h1
  · unfold pushRaw pushRawBody push
    simp only []
    unfold ABYTES
    rw [checkedAdd_ok (by omega), ok_bind, errIf_pos hl, err_bind, if_pos hl]

/-- a ciphertext buffer of the wrong size is an `Err` (for any message a slice can hold) -/
theorem pushRaw_wrong_len (P : Prims) (s : State) (ct msg ad : Bytes) (tag : UInt8)
    (hm : msg.length + 17 < 2 ^ 64) (hl : ct.length ≠ msg.length + 17) :
    pushRaw P s ct msg ad tag = .err := by
  unfold pushRaw pushRawBody
  simp only []
  unfold ABYTES
  rw [checkedAdd_ok hm, ok_bind, errIf_pos hl, err_bind]

/-- the `MESSAGEBYTES_MAX` guard -/
theorem pushRaw_too_long (P : Prims) (s : State) (ct msg ad : Bytes) (tag : UInt8)
    (hm : msg.length + 17 < 2 ^ 64) (h : MESSAGEBYTES_MAX_RAW < msg.length) :
    pushRaw P s ct msg ad tag = .err := by
  unfold pushRaw pushRawBody
  simp only []
  unfold ABYTES
  rw [checkedAdd_ok hm, ok_bind]
  by_cases hl : ct.length ≠ msg.length + 17
  · rw [errIf_pos hl, err_bind]
  · rw [errIf_neg hl, ok_bind, errIf_pos h, err_bind]

/-- **latent defect**: for the 64 message lengths `64·(2^32 − 3) < len ≤ 64·(2^32 − 2)` the guard of the
source lets the message through and `cipher.apply_keystream(&mut ciphertext[1..1 + mlen])` panics (after
`ciphertext[0]` and the message copy have been written, before the state is touched) -/
theorem pushRaw_panics_near_max (P : Prims) (s : State) (ct msg ad : Bytes) (tag : UInt8)
    (hl : ct.length = msg.length + 17)
    (h1 : STREAM_BODY_MAX < msg.length) (h2 : msg.length ≤ MESSAGEBYTES_MAX_RAW) :
    pushRaw P s ct msg ad tag = .panic :=
  pushRawBody_near_max P s ct msg ad tag hl h1 h2

/-- the classic `push`, as written, on a buffer of the right size: `Ok` exactly up to the crate's limit -/
theorem pushRaw_ok_iff (P : Prims) (hP : WF P) (s : State) (ct msg ad : Bytes) (tag : UInt8)
    (hl : ct.length = msg.length + 17) :
    (∃ c s', pushRaw P s ct msg ad tag = .ok (c, s')) ↔ msg.length ≤ STREAM_BODY_MAX := by
  have hB := STREAM_BODY_MAX_eq
  have hM := MESSAGEBYTES_MAX_RAW_eq
  constructor
  · rintro ⟨c, s', h⟩
    apply Classical.byContradiction
    intro hn
    by_cases h2 : msg.length ≤ MESSAGEBYTES_MAX_RAW
    · rw [pushRaw_panics_near_max P s ct msg ad tag hl (by omega) h2] at h; cases h
    · by_cases hm : msg.length + 17 < 2 ^ 64
      · rw [pushRaw_too_long P s ct msg ad tag hm (by omega)] at h; cases h
      · unfold pushRaw pushRawBody at h
        simp only [] at h
        unfold ABYTES checkedAdd USIZE at h
        rw [if_neg hm, panic_bind] at h; cases h
  · intro h
    rw [pushRaw_eq_push P hP s ct msg ad tag h, hl, push_eq]
    exact ⟨_, _, rfl⟩

theorem pushRaw_never_panics (P : Prims) (hP : WF P) (s : State) (ct msg ad : Bytes) (tag : UInt8)
    (h1 : msg.length ≤ STREAM_BODY_MAX) : pushRaw P s ct msg ad tag ≠ .panic := by
  rw [pushRaw_eq_push P hP s ct msg ad tag h1]
  unfold push
  split <;> simp

/-! ### `DryocStream::push` -/

theorem objPushRaw_eq_objPush (P : Prims) (hP : WF P) (s : State) (msg ad : Bytes) (tag : UInt8)
    (h1 : msg.length ≤ STREAM_BODY_MAX) :
    objPushRaw P s msg ad tag = objPush P s msg ad tag := by
  have hB := STREAM_BODY_MAX_eq
  unfold objPushRaw objPush
  rw [checkedAdd_ok (by unfold ABYTES; omega), ok_bind, pushRaw_eq_push P hP s _ msg ad tag h1, zeros_length]

theorem objPushRaw_panics_near_max (P : Prims) (s : State) (msg ad : Bytes) (tag : UInt8)
    (h1 : STREAM_BODY_MAX < msg.length) (h2 : msg.length ≤ MESSAGEBYTES_MAX_RAW) :
    objPushRaw P s msg ad tag = .panic := by
  have hM := MESSAGEBYTES_MAX_RAW_eq
  unfold objPushRaw
  rw [checkedAdd_ok (by unfold ABYTES; omega), ok_bind]
  exact pushRaw_panics_near_max P s _ msg ad tag (by rw [zeros_length]; rfl) h1 h2

theorem objPushRaw_too_long (P : Prims) (s : State) (msg ad : Bytes) (tag : UInt8)
    (hm : msg.length + 17 < 2 ^ 64) (h : MESSAGEBYTES_MAX_RAW < msg.length) :
    objPushRaw P s msg ad tag = .err := by
  unfold objPushRaw
  rw [checkedAdd_ok (by unfold ABYTES; exact hm), ok_bind]
  exact pushRaw_too_long P s _ msg ad tag hm h

end DryocVerif.Proofs.SecretStream
