import DryocVerif.Proofs.RawExtra
/-
C03 / C04 helper lemmas: the code-shaped `push` (`pushRaw`, `objPushRaw` of `Model/SecretStreamRaw.lean`)
against the total models `push` / `pushChecked` — since fix E16 for every message a slice can hold — and, for
the code before that fix (`pushRawOld16`, `objPushRawOld16`), the window of message lengths in which the
ChaCha20 crate refuses the key stream although the old guard of the source let the message through.  Core only.
-/
namespace DryocVerif.Proofs.SecretStream
open DryocVerif DryocVerif.Model.Utils DryocVerif.Model.SecretStream DryocVerif.Model.Raw DryocVerif.Proofs.Raw
open scoped DryocVerif.Model.Raw

theorem slice_append3 (a b c : Bytes) (i j : Nat) (hi : i = a.length) (hj : j = a.length + b.length) :
    Model.Raw.slice (a ++ b ++ c) i j = .ok b := by
  subst hi hj
  rw [slice_ok (by omega) (by simp only [List.length_append]; omega)]
  simp

theorem writeSlice_append3 (a b c new : Bytes) (i j : Nat) (hi : i = a.length) (hj : j = a.length + b.length) :
    writeSlice (a ++ b ++ c) i j new = a ++ new ++ c := by
  subst hi hj
  unfold writeSlice
  simp [List.drop_append]

theorem sliceFrom_append3 (a b c : Bytes) (j : Nat) (hj : j = a.length + b.length) :
    sliceFrom (a ++ b ++ c) j = .ok c := by
  subst hj
  rw [sliceFrom_ok (by simp only [List.length_append]; omega)]
  simp [List.drop_append]

theorem take_append3 (a b c : Bytes) (j : Nat) (hj : j = a.length + b.length) :
    (a ++ b ++ c).take j = a ++ b := by
  subst hj
  rw [List.append_assoc, List.take_append, List.take_of_length_le (by omega)]
  simp

theorem finalizeInto_ok (out mac : Bytes) (ho : out.length = 16) (hm : mac.length = 16) :
    finalizeInto out mac = .ok mac := by
  unfold finalizeInto
  rw [slice_ok (by omega) (by omega), ok_bind, copyFromSlice_ok (by simp; omega), ok_bind,
    slice_ok (by omega) (by omega), ok_bind, copyFromSlice_ok (by simp; omega), ok_bind, pure_eq]
  have h16 : out.drop 16 = [] := List.drop_eq_nil_of_le (by omega)
  have h8 : (mac.drop 8).take 8 = mac.drop 8 := List.take_of_length_le (by simp; omega)
  rw [h16, h8, List.append_nil, List.take_append_drop]

/-- a buffer of `n + 17` bytes, cut where `push` cuts it -/
theorem buf_split (ct : Bytes) (n : Nat) (h : ct.length = n + 17) :
    ∃ c0 mid tail, ct = c0 :: (mid ++ tail) ∧ mid.length = n ∧ tail.length = 16 := by
  cases ct with
  | nil => simp at h
  | cons c0 rest =>
    refine ⟨c0, rest.take n, rest.drop n, by rw [List.take_append_drop], ?_, ?_⟩
    · simp at h ⊢; omega
    · simp at h ⊢; omega

/-- **pre-fix code (E16)**: the body up to the second key-stream request: every checked operation in front of
`cipher.seek(128); cipher.apply_keystream(&mut ciphertext[1..1 + mlen])` succeeds, for every message the old
`MESSAGEBYTES_MAX` guard let through — then the crate decides -/
theorem pushRawBodyOld16_near_max (P : Prims) (s : State) (ct msg ad : Bytes) (tag : UInt8)
    (hl : ct.length = msg.length + 17)
    (h1 : STREAM_BODY_MAX < msg.length) (h2 : msg.length ≤ MESSAGEBYTES_MAX_RAW) :
    pushRawBodyOld16 P s ct msg ad tag = .panic := by
  have hB := STREAM_BODY_MAX_eq
  have hM := MESSAGEBYTES_MAX_RAW_eq
  obtain ⟨c0, mid, tail, rfl, hmid, htail⟩ := buf_split ct msg.length hl
  have hmg : pushMaxGuard false msg.length = Outcome.ok () := by
    rw [pushMaxGuard_eq, pushMax_false, if_neg (by omega)]
  unfold pushRawBodyOld16 pushRawBodyWith
  simp only []
  rw [hmg]
  unfold ABYTES
  rw [checkedAdd_ok (by omega), ok_bind, errIf_neg (by omega), ok_bind, ok_bind,
    keystream_ok P s (by omega), ok_bind, sliceTo_ok (by rw [zeros_length]; exact pad16_le _), ok_bind,
    keystream_ok P s (by omega), ok_bind, setIndex_ok' _ (by simp), ok_bind, checkedAdd_ok (by omega)]
  simp only [ok_bind, List.set_cons_zero]
  generalize (xorBytes (tag :: zeros 63) (P.chacha s.k s.nonce (64 / 64) 64)).headD 0 = b0
  have e1 : b0 :: (mid ++ tail) = [b0] ++ mid ++ tail := by simp
  rw [e1, slice_append3 [b0] mid tail 1 (1 + msg.length) rfl (by simp [hmid]), ok_bind,
    copyFromSlice_ok hmid, ok_bind,
    writeSlice_append3 [b0] mid tail msg 1 (1 + msg.length) rfl (by simp [hmid]),
    slice_append3 [b0] msg tail 1 (1 + msg.length) rfl (by simp), ok_bind,
    keystream_panic P s (by omega), panic_bind]

/-- the whole body (current source `f = true`, before fix E16 `f = false`) on a buffer of the right size, for
every message up to the crate's key-stream limit: every checked operation succeeds and the result is the one
of the total model -/
theorem pushRawBodyWith_main (f : Bool) (P : Prims) (hP : WF P) (s : State) (ct msg ad : Bytes) (tag : UInt8)
    (hl : ct.length = msg.length + 17) (h1 : msg.length ≤ STREAM_BODY_MAX) :
    pushRawBodyWith f P s ct msg ad tag = push P s (msg.length + 17) msg ad tag := by
  have hB := STREAM_BODY_MAX_eq
  have hM := MESSAGEBYTES_MAX_RAW_eq
  obtain ⟨c0, mid, tail, rfl, hmid, htail⟩ := buf_split ct msg.length hl
  have hmg : pushMaxGuard f msg.length = Outcome.ok () := by
    rw [pushMaxGuard_eq, if_neg]
    cases f
    · rw [pushMax_false]; omega
    · rw [pushMax_true]; omega
  rw [push_eq]
  unfold pushRawBodyWith
  simp only []
  rw [hmg]
  unfold ABYTES
  rw [checkedAdd_ok (by omega), ok_bind, errIf_neg (by omega), ok_bind, ok_bind,
    keystream_ok P s (by omega), ok_bind, sliceTo_ok (by rw [zeros_length]; exact pad16_le _), ok_bind,
    keystream_ok P s (by omega), ok_bind, setIndex_ok' _ (by simp), ok_bind, checkedAdd_ok (by omega)]
  simp only [ok_bind, List.set_cons_zero]
  have e64 : (64 : Nat) / 64 = 1 := rfl
  have e128 : (128 : Nat) / 64 = 2 := rfl
  have e0 : (0 : Nat) / 64 = 0 := rfl
  rw [e64, e0]
  generalize hblock : xorBytes (tag :: zeros 63) (P.chacha s.k s.nonce 1 64) = block
  have hbl : block.length = 64 := by
    rw [← hblock, xorBytes_length, hP.chacha_len]; simp [zeros]
  obtain ⟨b0, brest, rfl⟩ : ∃ b0 brest, block = b0 :: brest := by
    cases block with
    | nil => simp at hbl
    | cons a b => exact ⟨a, b, rfl⟩
  have hhead : (b0 :: brest).headD 0 = b0 := rfl
  have htake : (b0 :: brest).take 1 = [b0] := rfl
  rw [hhead, htake]
  have e1 : b0 :: (mid ++ tail) = [b0] ++ mid ++ tail := by simp
  generalize hc : xorBytes msg (P.chacha s.k s.nonce 2 msg.length) = c
  have hcl : c.length = msg.length := by rw [← hc, xorBytes_length, hP.chacha_len]; omega
  rw [e1, slice_append3 [b0] mid tail 1 (1 + msg.length) rfl (by simp [hmid]), ok_bind,
    copyFromSlice_ok hmid, ok_bind,
    writeSlice_append3 [b0] mid tail msg 1 (1 + msg.length) rfl (by simp [hmid]),
    slice_append3 [b0] msg tail 1 (1 + msg.length) rfl (by simp), ok_bind,
    keystream_ok P s (by omega), ok_bind, e128, hc,
    writeSlice_append3 [b0] msg tail c 1 (1 + msg.length) rfl (by simp),
    checkedAdd_ok (by omega), ok_bind, sizeDataRaw_eq, ok_bind,
    slice_append3 [b0] c tail 1 (1 + msg.length) rfl (by simp [hcl]), ok_bind,
    asI64_small (by omega), checkedAddI64_ok (by omega), ok_bind]
  have hpadle : bufferMacPad msg.length ≤ 16 := by rw [bufferMacPad_eq]; omega
  have hpad : ((16 - 64 + ((msg.length : Nat) : Int)) % 16).toNat = bufferMacPad msg.length := rfl
  rw [hpad, slice_ok (by omega) (by rw [zeros_length]; exact hpadle), ok_bind,
    sliceFrom_append3 [b0] c tail (1 + msg.length) (by simp [hcl]), ok_bind,
    finalizeInto_ok _ _ htail (hP.mac_len _ _), ok_bind,
    take_append3 [b0] c tail (1 + msg.length) (by simp [hcl]),
    sliceFrom_append3 [b0] c _ (1 + msg.length) (by simp [hcl]), ok_bind, pure_eq]
  have hmacin : ad ++ (zeros 16).take (pad16 ad.length) ++ (b0 :: brest) ++ c
        ++ ((zeros 16).drop 0).take (bufferMacPad msg.length - 0) ++ (toLE 8 ad.length ++ toLE 8 (64 + msg.length))
      = macInput ad (b0 :: brest) c := by
    unfold macInput
    rw [zeros_take 16 _ (pad16_le _), List.drop_zero, Nat.sub_zero, zeros_take 16 _ hpadle, hcl]
    simp only [List.append_assoc]
  rw [hmacin]
  rfl

theorem pushRawBody_main (P : Prims) (hP : WF P) (s : State) (ct msg ad : Bytes) (tag : UInt8)
    (hl : ct.length = msg.length + 17) (h1 : msg.length ≤ STREAM_BODY_MAX) :
    pushRawBody P s ct msg ad tag = push P s (msg.length + 17) msg ad tag :=
  pushRawBodyWith_main true P hP s ct msg ad tag hl h1

/-- the two guards of the body (either version), for any message a slice can hold -/
theorem pushRawBodyWith_wrong_len (f : Bool) (P : Prims) (s : State) (ct msg ad : Bytes) (tag : UInt8)
    (hm : msg.length + 17 < 2 ^ 64) (hl : ct.length ≠ msg.length + 17) :
    pushRawBodyWith f P s ct msg ad tag = .err := by
  unfold pushRawBodyWith
  simp only []
  unfold ABYTES
  rw [checkedAdd_ok hm, ok_bind, errIf_pos hl, err_bind]

theorem pushRawBodyWith_too_long (f : Bool) (P : Prims) (s : State) (ct msg ad : Bytes) (tag : UInt8)
    (hm : msg.length + 17 < 2 ^ 64) (h : pushMax f < msg.length) :
    pushRawBodyWith f P s ct msg ad tag = .err := by
  have hmg : pushMaxGuard f msg.length = Outcome.err := by rw [pushMaxGuard_eq, if_pos h]
  unfold pushRawBodyWith
  simp only []
  rw [hmg]
  unfold ABYTES
  rw [checkedAdd_ok hm, ok_bind]
  by_cases hl : ct.length ≠ msg.length + 17
  · rw [errIf_pos hl, err_bind]
  · rw [errIf_neg hl, ok_bind, err_bind]

/-- `message.len() + ABYTES` overflows `usize` (impossible for a Rust slice, whose length is at most
`isize::MAX`; possible for a list): the first statement panics, in either version -/
theorem pushRawBodyWith_overflow (f : Bool) (P : Prims) (s : State) (ct msg ad : Bytes) (tag : UInt8)
    (hm : 2 ^ 64 ≤ msg.length + 17) : pushRawBodyWith f P s ct msg ad tag = .panic := by
  unfold pushRawBodyWith
  simp only []
  unfold ABYTES checkedAdd USIZE
  rw [if_neg (by omega), panic_bind]

/-- **the code-shaped `push` is the guarded total model `pushChecked`, for every message a slice can hold**
(`message.len() + 17 < 2^64`; a Rust slice has at most `isize::MAX = 2^63 − 1` bytes), every ciphertext buffer
(a wrong size is the `Err` of both), AD, tag byte and state.  `WF P`: the key stream has the requested length
and the authenticator 16 bytes (array types in the Rust). -/
theorem pushRaw_eq_pushChecked (P : Prims) (hP : WF P) (s : State) (ct msg ad : Bytes) (tag : UInt8)
    (hm : msg.length + 17 < 2 ^ 64) :
    pushRaw P s ct msg ad tag = pushChecked P s ct.length msg ad tag := by
  have hB := STREAM_BODY_MAX_eq
  have hK := KEYSTREAM_MESSAGEBYTES_MAX_eq
  unfold pushRaw pushRawBody pushChecked
  unfold ABYTES
  by_cases hl : ct.length = msg.length + 17
  · rw [if_neg (by omega)]
    by_cases h1 : msg.length > KEYSTREAM_MESSAGEBYTES_MAX
    · rw [if_pos h1, pushRawBodyWith_too_long true P s ct msg ad tag hm (by rw [pushMax_true]; omega)]
    · rw [if_neg h1, hl]; exact pushRawBodyWith_main true P hP s ct msg ad tag hl (by omega)
  · rw [if_pos hl, pushRawBodyWith_wrong_len true P s ct msg ad tag hm hl]

/-- **the code-shaped `push` is the guard-free total model** for every message of at most
`STREAM_BODY_MAX = 64·(2^32 − 3)` bytes, i.e. every message the length guard lets through.  The hypothesis is
needed only because `push` has no length guard (beyond it `pushRaw` is an `Err`, `pushRaw_err_near_max`, and
`push` computes); with the guard in the model: `pushRaw_eq_pushChecked`. -/
theorem pushRaw_eq_push (P : Prims) (hP : WF P) (s : State) (ct msg ad : Bytes) (tag : UInt8)
    (h1 : msg.length ≤ STREAM_BODY_MAX) :
    pushRaw P s ct msg ad tag = push P s ct.length msg ad tag := by
  have hB := STREAM_BODY_MAX_eq
  rw [pushRaw_eq_pushChecked P hP s ct msg ad tag (by omega),
    pushChecked_eq_push P s _ msg ad tag (by rw [KEYSTREAM_MESSAGEBYTES_MAX_eq]; exact h1)]

/-- a ciphertext buffer of the wrong size is an `Err` (for any message a slice can hold) -/
theorem pushRaw_wrong_len (P : Prims) (s : State) (ct msg ad : Bytes) (tag : UInt8)
    (hm : msg.length + 17 < 2 ^ 64) (hl : ct.length ≠ msg.length + 17) :
    pushRaw P s ct msg ad tag = .err :=
  pushRawBodyWith_wrong_len true P s ct msg ad tag hm hl

/-- **fixed code (E16): the length guard.**  A message of more than `STREAM_BODY_MAX = 64·(2^32 − 3)` bytes —
the 64 lengths on which the code before the fix panicked included — is an `Err`, whatever the buffer
(`msg.len() + 17 < 2^64`: a fact about slices).  Nothing has been written at that point. -/
theorem pushRaw_err_near_max (P : Prims) (s : State) (ct msg ad : Bytes) (tag : UInt8)
    (hm : msg.length + 17 < 2 ^ 64) (h : STREAM_BODY_MAX < msg.length) :
    pushRaw P s ct msg ad tag = .err :=
  pushRawBodyWith_too_long true P s ct msg ad tag hm (by rw [pushMax_true, ← STREAM_BODY_MAX_eq]; exact h)

theorem pushRaw_too_long (P : Prims) (s : State) (ct msg ad : Bytes) (tag : UInt8)
    (hm : msg.length + 17 < 2 ^ 64) (h : STREAM_BODY_MAX < msg.length) :
    pushRaw P s ct msg ad tag = .err :=
  pushRaw_err_near_max P s ct msg ad tag hm h

/-- the classic `push`, as written, on a buffer of the right size: `Ok` exactly up to the crate's limit -/
theorem pushRaw_ok_iff (P : Prims) (hP : WF P) (s : State) (ct msg ad : Bytes) (tag : UInt8)
    (hl : ct.length = msg.length + 17) :
    (∃ c s', pushRaw P s ct msg ad tag = .ok (c, s')) ↔ msg.length ≤ STREAM_BODY_MAX := by
  have hB := STREAM_BODY_MAX_eq
  constructor
  · rintro ⟨c, s', h⟩
    apply Classical.byContradiction
    intro hn
    by_cases hm : msg.length + 17 < 2 ^ 64
    · rw [pushRaw_err_near_max P s ct msg ad tag hm (by omega)] at h; cases h
    · unfold pushRaw pushRawBody at h
      rw [pushRawBodyWith_overflow true P s ct msg ad tag (by omega)] at h; cases h
  · intro h
    rw [pushRaw_eq_push P hP s ct msg ad tag h, hl, push_eq]
    exact ⟨_, _, rfl⟩

/-- **the classic `push`, as written, cannot panic** on any message a slice can hold, whatever the buffer,
AD, tag byte and state — no bound on the length other than `usize` arithmetic -/
theorem pushRaw_never_panics (P : Prims) (hP : WF P) (s : State) (ct msg ad : Bytes) (tag : UInt8)
    (hm : msg.length + 17 < 2 ^ 64) : pushRaw P s ct msg ad tag ≠ .panic := by
  rw [pushRaw_eq_pushChecked P hP s ct msg ad tag hm]
  unfold pushChecked
  split; · simp
  split; · simp
  unfold push
  split <;> simp

/-- … and exactly then: the only panic branch left is the `usize` overflow of `message.len() + ABYTES`, which no
Rust slice reaches -/
theorem pushRaw_panic_iff (P : Prims) (hP : WF P) (s : State) (ct msg ad : Bytes) (tag : UInt8) :
    pushRaw P s ct msg ad tag = .panic ↔ 2 ^ 64 ≤ msg.length + 17 := by
  constructor
  · intro h
    apply Classical.byContradiction
    intro hn
    exact pushRaw_never_panics P hP s ct msg ad tag (by omega) h
  · intro h
    exact pushRawBodyWith_overflow true P s ct msg ad tag h

/-! #### the classic `push` before fix E16 (counter-model `pushRawOld16`) -/

/-- pre-fix code (E16): below the crate's limit the old code is the total model -/
theorem pushRawOld16_eq_push (P : Prims) (hP : WF P) (s : State) (ct msg ad : Bytes) (tag : UInt8)
    (h1 : msg.length ≤ STREAM_BODY_MAX) :
    pushRawOld16 P s ct msg ad tag = push P s ct.length msg ad tag := by
  have hB := STREAM_BODY_MAX_eq
  unfold pushRawOld16 pushRawBodyOld16
  by_cases hl : ct.length = msg.length + 17
  · rw [hl]; exact pushRawBodyWith_main false P hP s ct msg ad tag hl h1
  · rw [pushRawBodyWith_wrong_len false P s ct msg ad tag (by omega) hl]
    unfold push ABYTES
    rw [if_pos hl]

/-- pre-fix code (E16): the old `MESSAGEBYTES_MAX` guard -/
theorem pushRawOld16_too_long (P : Prims) (s : State) (ct msg ad : Bytes) (tag : UInt8)
    (hm : msg.length + 17 < 2 ^ 64) (h : MESSAGEBYTES_MAX_RAW < msg.length) :
    pushRawOld16 P s ct msg ad tag = .err :=
  pushRawBodyWith_too_long false P s ct msg ad tag hm (by rw [pushMax_false, ← MESSAGEBYTES_MAX_RAW_eq]; exact h)

/-- **pre-fix code (E16), the defect**: for the 64 message lengths `64·(2^32 − 3) < len ≤ 64·(2^32 − 2)` the old
guard of the source let the message through and `cipher.apply_keystream(&mut ciphertext[1..1 + mlen])`
panicked (after `ciphertext[0]` and the message copy had been written, before the state was touched).
Demonstrated on the real code (harness op `stream_huge`). -/
theorem pushRawOld16_panics_near_max (P : Prims) (s : State) (ct msg ad : Bytes) (tag : UInt8)
    (hl : ct.length = msg.length + 17)
    (h1 : STREAM_BODY_MAX < msg.length) (h2 : msg.length ≤ MESSAGEBYTES_MAX_RAW) :
    pushRawOld16 P s ct msg ad tag = .panic :=
  pushRawBodyOld16_near_max P s ct msg ad tag hl h1 h2

/-- pre-fix code (E16): alias of `pushRawOld16_panics_near_max` under the name the theorem had when `pushRaw` still
was that code — a statement about the counter-model `pushRawOld16` -/
theorem pushRaw_panics_near_max (P : Prims) (s : State) (ct msg ad : Bytes) (tag : UInt8)
    (hl : ct.length = msg.length + 17)
    (h1 : STREAM_BODY_MAX < msg.length) (h2 : msg.length ≤ MESSAGEBYTES_MAX_RAW) :
    pushRawOld16 P s ct msg ad tag = .panic :=
  pushRawOld16_panics_near_max P s ct msg ad tag hl h1 h2

/-- pre-fix code (E16): on a buffer of the right size, `Ok` exactly up to the crate's limit — the same set of
lengths as the fixed code; what differs is what happens above (panic for 64 lengths instead of `Err`) -/
theorem pushRawOld16_ok_iff (P : Prims) (hP : WF P) (s : State) (ct msg ad : Bytes) (tag : UInt8)
    (hl : ct.length = msg.length + 17) :
    (∃ c s', pushRawOld16 P s ct msg ad tag = .ok (c, s')) ↔ msg.length ≤ STREAM_BODY_MAX := by
  have hB := STREAM_BODY_MAX_eq
  have hM := MESSAGEBYTES_MAX_RAW_eq
  constructor
  · rintro ⟨c, s', h⟩
    apply Classical.byContradiction
    intro hn
    by_cases h2 : msg.length ≤ MESSAGEBYTES_MAX_RAW
    · rw [pushRawOld16_panics_near_max P s ct msg ad tag hl (by omega) h2] at h; cases h
    · by_cases hm : msg.length + 17 < 2 ^ 64
      · rw [pushRawOld16_too_long P s ct msg ad tag hm (by omega)] at h; cases h
      · unfold pushRawOld16 pushRawBodyOld16 at h
        rw [pushRawBodyWith_overflow false P s ct msg ad tag (by omega)] at h; cases h
  · intro h
    rw [pushRawOld16_eq_push P hP s ct msg ad tag h, hl, push_eq]
    exact ⟨_, _, rfl⟩

/-- what fix E16 changed, exactly: outside the 64-length window the code before the fix IS the current code -/
theorem pushRawOld16_eq_pushRaw (P : Prims) (hP : WF P) (s : State) (ct msg ad : Bytes) (tag : UInt8)
    (h : msg.length ≤ STREAM_BODY_MAX ∨ MESSAGEBYTES_MAX_RAW < msg.length) :
    pushRawOld16 P s ct msg ad tag = pushRaw P s ct msg ad tag := by
  have hM := MESSAGEBYTES_MAX_RAW_eq
  have hB := STREAM_BODY_MAX_eq
  rcases h with h | h
  · rw [pushRawOld16_eq_push P hP s ct msg ad tag h, pushRaw_eq_push P hP s ct msg ad tag h]
  · by_cases hm : msg.length + 17 < 2 ^ 64
    · rw [pushRawOld16_too_long P s ct msg ad tag hm h, pushRaw_err_near_max P s ct msg ad tag hm (by omega)]
    · unfold pushRawOld16 pushRawBodyOld16 pushRaw pushRawBody
      rw [pushRawBodyWith_overflow false P s ct msg ad tag (by omega),
        pushRawBodyWith_overflow true P s ct msg ad tag (by omega)]

/-! ### `DryocStream::push` -/

/-- **`DryocStream::push` as written is the guarded total model**, for every message a slice can hold -/
theorem objPushRaw_eq_objPushChecked (P : Prims) (hP : WF P) (s : State) (msg ad : Bytes) (tag : UInt8)
    (hm : msg.length + 17 < 2 ^ 64) :
    objPushRaw P s msg ad tag = objPushChecked P s msg ad tag := by
  unfold objPushRaw objPushChecked
  rw [checkedAdd_ok (by unfold ABYTES; exact hm), ok_bind, pushRaw_eq_pushChecked P hP s _ msg ad tag hm,
    zeros_length]

theorem objPushRaw_eq_objPush (P : Prims) (hP : WF P) (s : State) (msg ad : Bytes) (tag : UInt8)
    (h1 : msg.length ≤ STREAM_BODY_MAX) :
    objPushRaw P s msg ad tag = objPush P s msg ad tag := by
  have hB := STREAM_BODY_MAX_eq
  unfold objPushRaw objPush
  rw [checkedAdd_ok (by unfold ABYTES; omega), ok_bind, pushRaw_eq_push P hP s _ msg ad tag h1, zeros_length]

/-- fixed code (E16): `DryocStream::push` of a message above the limit is an `Err` -/
theorem objPushRaw_err_near_max (P : Prims) (s : State) (msg ad : Bytes) (tag : UInt8)
    (hm : msg.length + 17 < 2 ^ 64) (h : STREAM_BODY_MAX < msg.length) :
    objPushRaw P s msg ad tag = .err := by
  unfold objPushRaw
  rw [checkedAdd_ok (by unfold ABYTES; exact hm), ok_bind]
  exact pushRaw_err_near_max P s _ msg ad tag hm h

theorem objPushRaw_too_long (P : Prims) (s : State) (msg ad : Bytes) (tag : UInt8)
    (hm : msg.length + 17 < 2 ^ 64) (h : STREAM_BODY_MAX < msg.length) :
    objPushRaw P s msg ad tag = .err :=
  objPushRaw_err_near_max P s msg ad tag hm h

/-- **`DryocStream::push` as written cannot panic** on any message a slice can hold -/
theorem objPushRaw_never_panics (P : Prims) (hP : WF P) (s : State) (msg ad : Bytes) (tag : UInt8)
    (hm : msg.length + 17 < 2 ^ 64) : objPushRaw P s msg ad tag ≠ .panic := by
  unfold objPushRaw
  rw [checkedAdd_ok (by unfold ABYTES; exact hm), ok_bind]
  exact pushRaw_never_panics P hP s _ msg ad tag hm

/-- `DryocStream::push` as written returns `Ok` exactly for messages of at most `STREAM_BODY_MAX` bytes (above: `Err`;
for a list no slice can hold: the overflow panic of `len + ABYTES`) -/
theorem objPushRaw_ok_iff (P : Prims) (hP : WF P) (s : State) (msg ad : Bytes) (tag : UInt8) :
    (∃ c s', objPushRaw P s msg ad tag = .ok (c, s')) ↔ msg.length ≤ STREAM_BODY_MAX := by
  have hB := STREAM_BODY_MAX_eq
  constructor
  · rintro ⟨c, s', h⟩
    apply Classical.byContradiction
    intro hn
    by_cases hm : msg.length + 17 < 2 ^ 64
    · rw [objPushRaw_err_near_max P s msg ad tag hm (by omega)] at h; cases h
    · unfold objPushRaw ABYTES checkedAdd USIZE at h
      rw [if_neg hm, panic_bind] at h; cases h
  · intro h
    rw [objPushRaw_eq_objPush P hP s msg ad tag h]
    exact ⟨_, _, push_eq P s msg ad tag⟩

/-- pre-fix code (E16): `DryocStream::push` panicked in the 64-length window -/
theorem objPushRawOld16_panics_near_max (P : Prims) (s : State) (msg ad : Bytes) (tag : UInt8)
    (h1 : STREAM_BODY_MAX < msg.length) (h2 : msg.length ≤ MESSAGEBYTES_MAX_RAW) :
    objPushRawOld16 P s msg ad tag = .panic := by
  have hM := MESSAGEBYTES_MAX_RAW_eq
  unfold objPushRawOld16
  rw [checkedAdd_ok (by unfold ABYTES; omega), ok_bind]
  exact pushRawOld16_panics_near_max P s _ msg ad tag (by rw [zeros_length]; rfl) h1 h2

/-- pre-fix code (E16): alias of `objPushRawOld16_panics_near_max` (old name; about `objPushRawOld16`) -/
theorem objPushRaw_panics_near_max (P : Prims) (s : State) (msg ad : Bytes) (tag : UInt8)
    (h1 : STREAM_BODY_MAX < msg.length) (h2 : msg.length ≤ MESSAGEBYTES_MAX_RAW) :
    objPushRawOld16 P s msg ad tag = .panic :=
  objPushRawOld16_panics_near_max P s msg ad tag h1 h2

/-! ### push and pull have the same limit (since fix E16) -/

/-- **fixed code (E16): `push` and `pull` accept the same message lengths.**  On a buffer of the right size the
classic `push` as written returns `Ok` iff the message has at most `STREAM_BODY_MAX` bytes; and the ciphertext
of an accepted push passes all three LENGTH guards of the classic `pull` as written (into any buffer that can
hold the message) — indeed `pull` returns the message, the tag byte and the state `push` ended in.  Before the
fix `pull` compared `ciphertext.len()` with `MESSAGEBYTES_MAX`, so in the guard-only models 17 message lengths
could be pushed but not pulled (`C03.pushed_but_not_pullable`, now about the `…Old16` models). -/
theorem push_pull_same_limit (P : Prims) (hP : WF P) (s : State) (buf msg ad : Bytes) (tag : UInt8)
    (hb : buf.length = msg.length + 17) :
    ((∃ c s', pushRaw P s buf msg ad tag = .ok (c, s')) ↔ msg.length ≤ STREAM_BODY_MAX) ∧
    (∀ c s', pushRaw P s buf msg ad tag = .ok (c, s') →
      ¬ c.length < 17 ∧ ¬ c.length - 17 > STREAM_BODY_MAX ∧
      ∀ (m : Bytes) (tagv : UInt8), ¬ m.length < c.length - 17 →
        pullRaw P s m tagv c ad = ⟨.ok msg.length, msg ++ m.drop msg.length, tag, s'⟩) := by
  refine ⟨pushRaw_ok_iff P hP s buf msg ad tag hb, ?_⟩
  intro c s' h
  have hlen : msg.length ≤ STREAM_BODY_MAX := (pushRaw_ok_iff P hP s buf msg ad tag hb).mp ⟨c, s', h⟩
  rw [pushRaw_eq_push P hP s buf msg ad tag hlen, hb] at h
  have hcl : c.length = msg.length + 17 := push_ct_length P hP s msg ad tag c s' h
  refine ⟨by omega, by omega, ?_⟩
  intro m tagv hm
  rw [pullRaw_eq_pull P s m tagv c ad (by omega)]
  exact pull_push P hP s msg ad tag c s' h m tagv (by omega)

end DryocVerif.Proofs.SecretStream
