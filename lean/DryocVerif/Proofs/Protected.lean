import DryocVerif.Proofs.ProtectedRec
import DryocVerif.Proofs.ProtectedMach
/-
Helpers for C14 / C15 / C19 on top of the invariant machinery:
page coverage of `mprotect`, unpacking of `Inv` for one region, runs of tokens.
-/
namespace DryocVerif.Proofs.Protected
open DryocVerif DryocVerif.Model.Protected

/-! ### which pages a call touches -/

/-- page `i` is touched by a call on `[addr, addr+len)` -/
def touched (P addr len i : Nat) : Prop := len ≠ 0 ∧ addr / P ≤ i ∧ i < pageEnd P addr len

theorem mprotect_perm_touched (P : Nat) (k : Kernel) (addr len : Nat) (p : Perm) (i : Nat)
    [Decidable (touched P addr len i)] :
    (mprotect P k addr len p).perm i = if touched P addr len i then p else k.perm i := by
  unfold mprotect touched
  by_cases h : len = 0
  · simp [h]
  · simp [h]

theorem pageEnd_eq_last {P : Nat} (hP : 0 < P) (addr len : Nat) (h : 0 < len) :
    pageEnd P addr len = (addr + len - 1) / P + 1 := by
  unfold pageEnd
  have : addr + len + P - 1 = (addr + len - 1) + P := by omega
  rw [this, Nat.add_div_right _ hP]

theorem touched_iff {P : Nat} (hP : 0 < P) (addr len : Nat) (h : 0 < len) (i : Nat) :
    touched P addr len i ↔ addr / P ≤ i ∧ i ≤ (addr + len - 1) / P := by
  unfold touched
  rw [pageEnd_eq_last hP addr len h]
  omega

theorem lenMinus1_pageEnd {P : Nat} (hP : 0 < P) (addr len : Nat) (hal : addr % P = 0)
    (hm : len % P = 1) : pageEnd P addr (len - 1) = (addr + len - 1) / P := by
  obtain ⟨a, rfl⟩ : ∃ a, addr = a * P :=
    ⟨addr / P, by have := Nat.div_add_mod addr P; rw [hal, Nat.mul_comm] at this; omega⟩
  obtain ⟨q, rfl⟩ : ∃ q, len = q * P + 1 :=
    ⟨len / P, by have := Nat.div_add_mod len P; rw [hm, Nat.mul_comm] at this; omega⟩
  have e1 : q * P + 1 - 1 = q * P := by omega
  have e2 : a * P + (q * P + 1) - 1 = (a + q) * P := by rw [Nat.add_mul]; omega
  rw [e1, e2, pageEnd_aligned hP, div_aligned hP]
  unfold pagesOf
  have : q * P + P - 1 = (P - 1) + q * P := by omega
  rw [this, Nat.add_mul_div_right _ _ hP, Nat.div_eq_of_lt (by omega)]; omega

/-! ### initial state and runs -/

theorem good_init (P : Nat) : GoodL P Kernel.init [] where
  start := Nat.le_refl _
  fresh := fun _ _ => ⟨rfl, rfl⟩
  ok := fun _ h => by simp at h
  disj := List.Pairwise.nil
  outside := fun _ _ => rfl
  led := fun _ => rfl
  albase := ⟨List.Pairwise.nil, fun _ h => by simp [Kernel.init] at h⟩

theorem rec_init (oracle : Nat → LockAns) : RecOK (State.init oracle) := by
  intro sl h; simp [State.init] at h

theorem inv_init (c : Cfg) (oracle : Nat → LockAns) : Inv c (State.init oracle) :=
  ⟨good_init c.P, rec_init oracle⟩

theorem tight_init (c : Cfg) (oracle : Nat → LockAns) : Tight c (State.init oracle) :=
  fun _ _ => rfl

/-- the invariant does not look at the release log -/
theorem Inv.resetRel {c : Cfg} {s : State} (h : Inv c s) : Inv c (Model.Protected.resetRel s) := ⟨h.k, h.rcd⟩
theorem Inv.of_resetRel {c : Cfg} {s : State} (h : Inv c (Model.Protected.resetRel s)) : Inv c s := ⟨h.k, h.rcd⟩

/-- every token keeps the records in step with the types (unconditionally) -/
theorem rec_step {c : Cfg} {s : State} (h : RecOK s) (t : Tok) : RecOK (step c s t).2 :=
  rec_stepCore (s := resetRel s) h t

theorem rec_runState {c : Cfg} (toks : List Tok) {s : State} (h : RecOK s) : RecOK (runState c s toks) := by
  induction toks generalizing s with
  | nil => exact h
  | cons t ts ih => exact ih (rec_step h t)

/-- `Inv` is preserved by every token except a `zeroize` of a non-empty `Protected` region that is not `Unlocked`
read-write (`ZeroizesProtected`), which makes pages and TYPE disagree -/
theorem inv_step {c : Cfg} (hP : 0 < c.P) {s : State} (h : Inv c s) (t : Tok)
    (hz : ¬ ZeroizesProtected s t) : Inv c (step c s t).2 :=
  ⟨invK_stepCore hP (s := resetRel s) h.k h.rcd t hz, rec_step h.rcd t⟩

/-- `Tight` is kept by every token of the repaired model.  In the leaky variant (`c.undo = false`) two things can
leave a stray lock flag: a `lock` of a non-empty `NoAccess` region (`LocksNoAccess`), and — on ANY region, by any
token that locks — an oracle answer `failFlagged` (`NoFF` excludes it; every `Bool` oracle satisfies it).
STATEMENT CHANGED (the oracle is `Nat → LockAns` now): the second disjunct got the conjunct `NoFF s.m`. -/
theorem tight_step {c : Cfg} (hP : 0 < c.P) {s : State} (h : Inv c s) (ht : Tight c s) (t : Tok)
    (hno : c.undo = true ∨ (¬ LocksNoAccess s t ∧ NoFF s.m)) : Tight c (step c s t).2 :=
  tight_stepCore hP (s := resetRel s) h.k h.rcd ht t hno

/-- no token of the run is a `zeroize` of a non-empty `Protected` region other than `Unlocked` read-write -/
def NoProtZeroize (c : Cfg) : State → List Tok → Prop
  | _, [] => True
  | s, t :: ts => ¬ ZeroizesProtected s t ∧ NoProtZeroize c (step c s t).2 ts

theorem inv_runState {c : Cfg} (hP : 0 < c.P) (toks : List Tok) {s : State} (h : Inv c s)
    (hz : NoProtZeroize c s toks) : Inv c (runState c s toks) := by
  induction toks generalizing s with
  | nil => exact h
  | cons t ts ih => exact ih (inv_step hP h t hz.1) hz.2

/-- no token of the run locks a non-empty `NoAccess` region (only needed for the leaky variant
`c.undo = false`) -/
def NoNALock (c : Cfg) : State → List Tok → Prop
  | _, [] => True
  | s, t :: ts => ¬ LocksNoAccess s t ∧ NoNALock c (step c s t).2 ts

/-- STATEMENT CHANGED (the oracle is `Nat → LockAns` now): the leaky disjunct got the conjunct `NoFF s.m` (the oracle
never answers `failFlagged`; preserved along the run: `noFF_step`) -/
theorem tight_runState {c : Cfg} (hP : 0 < c.P) (toks : List Tok) {s : State} (h : Inv c s)
    (ht : Tight c s) (hz : NoProtZeroize c s toks) (hno : c.undo = true ∨ (NoNALock c s toks ∧ NoFF s.m)) :
    Tight c (runState c s toks) := by
  induction toks generalizing s with
  | nil => exact ht
  | cons t ts ih =>
    refine ih (inv_step hP h t hz.1) (tight_step hP h ht t ?_) hz.2 ?_
    · exact hno.imp id (fun h => ⟨h.1.1, h.2⟩)
    · exact hno.imp id (fun h => ⟨h.1.2, noFF_step h.2 t⟩)

/-- every state met along a run satisfies the invariant -/
theorem inv_run {c : Cfg} (hP : 0 < c.P) (toks : List Tok) {s : State} (h : Inv c s)
    (hz : NoProtZeroize c s toks) : ∀ r ∈ run c s toks, Inv c r.2 := by
  induction toks generalizing s with
  | nil => intro r hr; simp [run] at hr
  | cons t ts ih =>
    intro r hr
    simp only [run, List.mem_cons] at hr
    rcases hr with rfl | hr
    · exact inv_step hP h t hz.1
    · exact ih (inv_step hP h t hz.1) hz.2 r hr

/-! ### unpacking `Inv` for one live slot -/

theorem blkOf_mem {slots : List Slot} {i : Nat} {sl : Slot} (hi : slots[i]? = some sl)
    (hg : sl.gone = false) : blkOf sl.o ∈ blks slots := by
  unfold blks
  refine List.mem_map.mpr ⟨sl, List.mem_filter.mpr ⟨List.mem_of_getElem? hi, by simp [hg]⟩, rfl⟩

theorem inv_block {c : Cfg} {s : State} (h : Inv c s) {i : Nat} {sl : Slot}
    (hi : s.slots[i]? = some sl) (hg : sl.gone = false) : BlockOK c.P s.m.k (blkOf sl.o) :=
  h.ok _ (blkOf_mem hi hg)

theorem inv_disjoint {c : Cfg} {s : State} (h : Inv c s) {i j : Nat} {a b : Slot}
    (hi : s.slots[i]? = some a) (hj : s.slots[j]? = some b) (hij : i ≠ j)
    (ha : a.gone = false) (hb : b.gone = false) (p : Nat) :
    ¬ (inBlock c.P a.o.v p ∧ inBlock c.P b.o.v p) := by
  obtain ⟨l1, l2, hs, hl⟩ := slot_split hi
  have g := good_head hs ha h.k
  have hd := (List.pairwise_cons.mp g.disj).1
  have hmem : blkOf b.o ∈ blks l1 ++ blks l2 := by
    rw [hs] at hj
    by_cases hlt : j < l1.length
    · rw [List.getElem?_append_left hlt] at hj
      exact List.mem_append_left _ (blkOf_mem hj hb)
    · rw [List.getElem?_append_right (by omega)] at hj
      have : j - l1.length = (j - l1.length - 1) + 1 := by omega
      rw [this, List.getElem?_cons_succ] at hj
      exact List.mem_append_right _ (blkOf_mem hj hb)
  exact hd _ hmem p

/-- two block descriptions valid in two kernels agree on every page of the block -/
theorem BlockOK.determines {P : Nat} {k k' : Kernel} {b : Blk} (h : BlockOK P k b)
    (h' : BlockOK P k' b) {p : Nat} (hi : inBlock P b.v p) :
    k'.perm p = k.perm p ∧ k'.locked p = k.locked p := by
  have hc := hi.1
  by_cases h0 : p = b.v.base
  · subst h0; rw [(h.fore hc).1, (h.fore hc).2, (h'.fore hc).1, (h'.fore hc).2]; simp
  by_cases h1 : p = b.v.base + b.v.cap / P + 2
  · subst h1; rw [(h.aft hc).1, (h.aft hc).2, (h'.aft hc).1, (h'.aft hc).2]; simp
  by_cases h2 : p < b.v.base + 1 + pagesOf P b.v.len
  · have l := hi.2.1
    rw [(h.data p (by omega) h2).1, (h.data p (by omega) h2).2,
      (h'.data p (by omega) h2).1, (h'.data p (by omega) h2).2]; simp
  · have l := hi.2.2
    rw [(h.spare hc p (by omega) (by omega)).1, (h.spare hc p (by omega) (by omega)).2,
      (h'.spare hc p (by omega) (by omega)).1, (h'.spare hc p (by omega) (by omega)).2]; simp

/-- a live slot that a step leaves unchanged keeps all its pages (guards included) untouched -/
theorem others_untouched {c : Cfg} {s s' : State} (h : Inv c s) (h' : Inv c s') {j j' : Nat} {sl : Slot}
    (hj : s.slots[j]? = some sl) (hj' : s'.slots[j']? = some sl) (hg : sl.gone = false)
    {p : Nat} (hp : inBlock c.P sl.o.v p) :
    s'.m.k.perm p = s.m.k.perm p ∧ s'.m.k.locked p = s.m.k.locked p :=
  (inv_block h hj hg).determines (inv_block h' hj' hg) hp

/-! ### address arithmetic of a region -/

theorem ptr_div {c : Cfg} (hP : 0 < c.P) (v : PVec) : ptr c v / c.P = v.base + 1 := by
  rw [ptr_eq, div_aligned hP]

theorem ptr_pred_div {c : Cfg} (hP : 0 < c.P) (v : PVec) : (ptr c v - 1) / c.P = v.base := by
  have : ptr c v - 1 = (c.P - 1) + v.base * c.P := by
    rw [ptr_eq, Nat.add_mul]; omega
  rw [this, Nat.add_mul_div_right _ _ hP, Nat.div_eq_of_lt (by omega)]; omega

theorem ptr_aft_div {c : Cfg} (hP : 0 < c.P) (v : PVec) :
    (ptr c v + pageRound c.P v.cap) / c.P = v.base + v.cap / c.P + 2 := by
  have : ptr c v + pageRound c.P v.cap = (v.base + v.cap / c.P + 2) * c.P := by
    rw [ptr_eq, pageRound_eq hP]; simp only [Nat.add_mul]; omega
  rw [this, div_aligned hP]

theorem ptr_last_div {c : Cfg} (hP : 0 < c.P) (v : PVec) (hl : 0 < v.len) :
    (ptr c v + v.len - 1) / c.P + 1 = v.base + 1 + pagesOf c.P v.len := by
  rw [← pageEnd_eq_last hP _ _ hl, ptr_eq, pageEnd_aligned hP]

/-! ### decidability of the side condition of `drop_restores` (for concrete histories) -/

def locksNoAccessB (s : State) (t : Tok) : Bool :=
  decide (t.op = .lock) &&
    match s.slots[t.idx]? with
    | some sl => !sl.gone && decide (sl.o.st = .prot .unlocked .na) && decide (0 < sl.o.v.len)
    | none => false

theorem locksNoAccessB_iff (s : State) (t : Tok) : locksNoAccessB s t = true ↔ LocksNoAccess s t := by
  unfold locksNoAccessB LocksNoAccess
  cases h : s.slots[t.idx]? with
  | none => simp
  | some sl => simp [and_assoc]

instance (s : State) (t : Tok) : Decidable (LocksNoAccess s t) :=
  decidable_of_iff _ (locksNoAccessB_iff s t)

instance instDecNoNALock (c : Cfg) : (s : State) → (toks : List Tok) → Decidable (NoNALock c s toks)
  | _, [] => isTrue trivial
  | s, t :: ts =>
    have := instDecNoNALock c (step c s t).2 ts
    inferInstanceAs (Decidable (¬ LocksNoAccess s t ∧ NoNALock c (step c s t).2 ts))

def zeroizesProtectedB (s : State) (t : Tok) : Bool :=
  decide (t.op = .zeroize) &&
    match s.slots[t.idx]? with
    | some sl => !sl.gone && decide (0 < sl.o.v.len) && decide (sl.o.st ≠ .plain) &&
        decide (sl.o.st ≠ .prot .unlocked .rw)
    | none => false

theorem zeroizesProtectedB_iff (s : State) (t : Tok) : zeroizesProtectedB s t = true ↔ ZeroizesProtected s t := by
  unfold zeroizesProtectedB ZeroizesProtected
  cases h : s.slots[t.idx]? with
  | none => simp
  | some sl => simp [and_assoc]

instance (s : State) (t : Tok) : Decidable (ZeroizesProtected s t) :=
  decidable_of_iff _ (zeroizesProtectedB_iff s t)

instance instDecNoProtZeroize (c : Cfg) : (s : State) → (toks : List Tok) → Decidable (NoProtZeroize c s toks)
  | _, [] => isTrue trivial
  | s, t :: ts =>
    have := instDecNoProtZeroize c (step c s t).2 ts
    inferInstanceAs (Decidable (¬ ZeroizesProtected s t ∧ NoProtZeroize c (step c s t).2 ts))

/-- histories without a `zeroize` token trivially satisfy the side condition of `inv_runState` -/
theorem noProtZeroize_of_no_zeroize (c : Cfg) (toks : List Tok) (s : State) (h : ∀ t ∈ toks, t.op ≠ .zeroize) :
    NoProtZeroize c s toks := by
  induction toks generalizing s with
  | nil => trivial
  | cons t ts ih =>
    exact ⟨fun hl => h t (by simp) hl.1, ih _ (fun t' ht' => h t' (by simp [ht']))⟩

/-- histories without a `lock` token trivially satisfy the side condition -/
theorem noNALock_of_no_lock (c : Cfg) (toks : List Tok) (s : State) (h : ∀ t ∈ toks, t.op ≠ .lock) :
    NoNALock c s toks := by
  induction toks generalizing s with
  | nil => trivial
  | cons t ts ih =>
    exact ⟨fun hl => h t (by simp) hl.1, ih _ (fun t' ht' => h t' (by simp [ht']))⟩

end DryocVerif.Proofs.Protected
