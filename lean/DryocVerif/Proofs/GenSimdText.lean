import DryocVerif.Gen.SimdText
/-
`tools/rs2lean.py` compares, on every run, the text of every function of `blake2b_simd.rs` other than the compression function
(counter, init, init_param, init0, update, finalize, hash, longhash, the last-block flags) with the software backend's text, up to the
representation of the chaining value (`h[0..8]` ↔ the two 4-lane vectors `a`, `b`) and wipe-only statements.  This is the premise
under which the C18 theorems instantiate ONE buffering model with two compression functions.
-/
namespace DryocVerif.Proofs.GenSimdText

/-- every non-compression function of the SIMD backend is, token for token, the software backend's -/
theorem simd_buffering_text_same_as_software :
    ∀ p ∈ Gen.SimdText.same_as_software, p.2 = true := by decide

/-- … and the list covers the eleven functions and the five items around them (constants, parameter block and its defaults, IV, the
state's fields other than the chaining value) -/
theorem simd_buffering_text_covers :
    Gen.SimdText.same_as_software.map Prod.fst =
      ["increment_counter", "init", "update", "finalize", "hash", "longhash", "set_lastnode", "is_lastblock", "set_lastblock",
       "init_param", "init0", "consts", "struct_Params", "default_Params", "IV", "struct_State"] := by decide

end DryocVerif.Proofs.GenSimdText
