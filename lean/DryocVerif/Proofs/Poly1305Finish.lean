import DryocVerif.Proofs.Poly1305Step
/-
`finish`: full carry, conditional subtraction of p, pad addition, serialisation.
-/
namespace DryocVerif.Proofs.Poly1305
open DryocVerif
open DryocVerif.Model.Poly1305

/-! ### decomposition of `finish` -/

/-- one carry pass `h1 → h2 → h0 → h1` -/
def carryPass (h : Limbs) : Limbs :=
  let h0 := h.l0
  let h1 := h.l1
  let h2 := h.l2
  let c := h1 >>> 44
  let h1 := h1 &&& M44
  let h2 := h2 + c
  let c := h2 >>> 42
  let h2 := h2 &&& M42
  let h0 := h0 + c * 5
  let c := h0 >>> 44
  let h0 := h0 &&& M44
  let h1 := h1 + c
  ⟨h0, h1, h2⟩

/-- `g = h + 5 - 2^130` with wrapping top limb -/
def gOf (h : Limbs) : Limbs :=
  let g0 := (h.l0 + 5) % U64
  let c := g0 >>> 44
  let g0 := g0 &&& M44
  let g1 := (h.l1 + c) % U64
  let c := g1 >>> 44
  let g1 := g1 &&& M44
  let g2 := ((h.l2 + c) % U64 + U64 - 2^42) % U64
  ⟨g0, g1, g2⟩

def maskOf (g2 : Nat) : Nat := ((g2 >>> 63) + U64 - 1) % U64

def sel (mask : Nat) (h g : Limbs) : Limbs :=
  ⟨(h.l0 &&& (U64 - 1 - mask)) ||| (g.l0 &&& mask),
   (h.l1 &&& (U64 - 1 - mask)) ||| (g.l1 &&& mask),
   (h.l2 &&& (U64 - 1 - mask)) ||| (g.l2 &&& mask)⟩

def selectP (h : Limbs) : Limbs := sel (maskOf (gOf h).l2) h (gOf h)

def addPadLimbs (h : Limbs) (t0 t1 : Nat) : Limbs :=
  let h0 := (h.l0 + (t0 &&& M44)) % U64
  let c := h0 >>> 44
  let h0 := h0 &&& M44
  let h1 := (h.l1 + ((((t0 >>> 44) ||| ((t1 <<< 20) % U64)) &&& M44) + c) % U64) % U64
  let c := h1 >>> 44
  let h1 := h1 &&& M44
  let h2 := (h.l2 + (((t1 >>> 24) &&& M42) + c) % U64) % U64
  let h2 := h2 &&& M42
  ⟨h0, h1, h2⟩

def pack (l : Limbs) : Bytes :=
  let h0 := l.l0 ||| ((l.l1 <<< 44) % U64)
  let h1 := (l.l1 >>> 20) ||| ((l.l2 <<< 24) % U64)
  toLE 8 h0 ++ toLE 8 h1

theorem finish_eq (h : Limbs) (pad0 pad1 : Nat) :
    finish h pad0 pad1 = pack (addPadLimbs (selectP (carryPass (carryPass h))) pad0 pad1) := rfl

/-- fully carried limbs -/
def Carried (h : Limbs) : Prop := h.l0 < 2^44 ∧ h.l1 < 2^44 ∧ h.l2 < 2^42

/-! ### carry passes -/

theorem carryPass_spec1 (h : Limbs) (hh : Inv h) :
    (carryPass h).l0 < 2^44 ∧ (carryPass h).l1 ≤ 2^44 ∧ (carryPass h).l2 < 2^42 ∧
    ((carryPass h).l1 = 2^44 → (carryPass h).l0 < 5) ∧
    V (carryPass h) + P * ((h.l2 + h.l1 / 2^44) / 2^42) = V h := by
  obtain ⟨h0, h1, h2⟩ := hh
  simp only [carryPass, V, P, and_M44, and_M42, Nat.shiftRight_eq_div_pow]
  omega

theorem carryPass_spec2 (h : Limbs) (h0 : h.l0 < 2^44) (h1 : h.l1 ≤ 2^44) (h2 : h.l2 < 2^42)
    (_h3 : h.l1 = 2^44 → h.l0 < 5) :
    Carried (carryPass h) ∧
    V (carryPass h) + P * ((h.l2 + h.l1 / 2^44) / 2^42) = V h := by
  simp only [Carried, carryPass, V, P, and_M44, and_M42, Nat.shiftRight_eq_div_pow]
  omega

theorem carry2_spec (h : Limbs) (hh : Inv h) :
    Carried (carryPass (carryPass h)) ∧ V (carryPass (carryPass h)) % P = V h % P := by
  obtain ⟨a0, a1, a2, a3, aV⟩ := carryPass_spec1 h hh
  obtain ⟨b, bV⟩ := carryPass_spec2 _ a0 a1 a2 a3
  refine ⟨b, ?_⟩
  rw [← aV, ← bV, Nat.add_mul_mod_self_left, Nat.add_mul_mod_self_left]

/-! ### conditional subtraction -/

theorem gOf_spec (h : Limbs) (hc : Carried h) :
    (gOf h).l0 < 2^44 ∧ (gOf h).l1 < 2^44 ∧
    (V h < P → 2^63 ≤ (gOf h).l2 ∧ (gOf h).l2 < 2^64) ∧
    (P ≤ V h → (gOf h).l2 < 2^42 ∧ V (gOf h) + P = V h) := by
  obtain ⟨h0, h1, h2⟩ := hc
  simp only [gOf, V, P, and_M44, Nat.shiftRight_eq_div_pow, U64_eq]
  omega

theorem maskOf_lo (g2 : Nat) (h : g2 < 2^63) : maskOf g2 = 18446744073709551615 := by
  simp only [maskOf, Nat.shiftRight_eq_div_pow, U64_eq]; omega

theorem maskOf_hi (g2 : Nat) (h : 2^63 ≤ g2) (h' : g2 < 2^64) : maskOf g2 = 0 := by
  simp only [maskOf, Nat.shiftRight_eq_div_pow, U64_eq]; omega

theorem sel_ones (h g : Limbs) (g0 : g.l0 < 2^64) (g1 : g.l1 < 2^64) (g2 : g.l2 < 2^64) :
    sel 18446744073709551615 h g = g := by
  have e : U64 - 1 - 18446744073709551615 = 0 := by decide
  simp only [sel, e, Nat.and_zero, Nat.zero_or, and_ones64]
  rw [Nat.mod_eq_of_lt g0, Nat.mod_eq_of_lt g1, Nat.mod_eq_of_lt g2]

theorem sel_zero (h g : Limbs) (h0 : h.l0 < 2^64) (h1 : h.l1 < 2^64) (h2 : h.l2 < 2^64) :
    sel 0 h g = h := by
  have e : U64 - 1 - 0 = 18446744073709551615 := by decide
  simp only [sel, e, Nat.and_zero, Nat.or_zero, and_ones64]
  rw [Nat.mod_eq_of_lt h0, Nat.mod_eq_of_lt h1, Nat.mod_eq_of_lt h2]

theorem V_lt_of_carried (h : Limbs) (hc : Carried h) : V h < 2^130 := by
  obtain ⟨h0, h1, h2⟩ := hc
  simp only [V]; omega

theorem selectP_spec (h : Limbs) (hc : Carried h) :
    Carried (selectP h) ∧ V (selectP h) = V h % P := by
  obtain ⟨g0, g1, glo, ghi⟩ := gOf_spec h hc
  have hV := V_lt_of_carried h hc
  obtain ⟨h0, h1, h2⟩ := hc
  unfold selectP
  by_cases hlt : V h < P
  · obtain ⟨a, b⟩ := glo hlt
    rw [maskOf_hi _ a b, sel_zero h _ (by omega) (by omega) (by omega)]
    exact ⟨⟨h0, h1, h2⟩, (Nat.mod_eq_of_lt hlt).symm⟩
  · have hge : P ≤ V h := Nat.le_of_not_lt hlt
    obtain ⟨a, b⟩ := ghi hge
    rw [maskOf_lo _ (by omega), sel_ones h _ (by omega) (by omega) (by omega)]
    refine ⟨⟨g0, g1, a⟩, ?_⟩
    simp only [P] at *
    omega

/-! ### pad addition and serialisation -/

theorem addPadLimbs_spec (h : Limbs) (t0 t1 : Nat) (hc : Carried h)
    (ht0 : t0 < 2^64) (ht1 : t1 < 2^64) :
    Carried (addPadLimbs h t0 t1) ∧
    V (addPadLimbs h t0 t1) = (V h + (t0 + 2^64 * t1)) % 2^130 := by
  obtain ⟨h0, h1, h2⟩ := hc
  simp only [addPadLimbs, Carried, V]
  rw [lo_limb_M44 t0 t1, mid_limb_M44 t0 t1 ht0, hi_limb_M42 t0 t1 ht0 ht1]
  simp only [and_M44, and_M42, Nat.shiftRight_eq_div_pow, U64_eq]
  generalize t0 + 2^64 * t1 = T
  omega

theorem pack_spec (l : Limbs) (hc : Carried l) : pack l = toLE 16 (V l % 2^128) := by
  obtain ⟨h0, h1, h2⟩ := hc
  have e1 : (l.l1 <<< 44) % U64 = (l.l1 % 2^20) * 2^44 := by
    rw [Nat.shiftLeft_eq, U64_eq]; omega
  have e2 : (l.l2 <<< 24) % U64 = (l.l2 % 2^40) * 2^24 := by
    rw [Nat.shiftLeft_eq, U64_eq]; omega
  have e3 : l.l0 ||| ((l.l1 <<< 44) % U64) = l.l0 + (l.l1 % 2^20) * 2^44 := by
    rw [e1]; exact or_mul_two_pow _ _ _ h0
  have e4 : (l.l1 >>> 20) ||| ((l.l2 <<< 24) % U64) = l.l1 / 2^20 + (l.l2 % 2^40) * 2^24 := by
    rw [e2, Nat.shiftRight_eq_div_pow]; exact or_mul_two_pow _ _ _ (by omega)
  have hw : l.l0 + (l.l1 % 2^20) * 2^44 < 2^64 := by omega
  have hv : l.l0 + (l.l1 % 2^20) * 2^44 + 2^64 * (l.l1 / 2^20 + (l.l2 % 2^40) * 2^24)
      = V l % 2^128 := by
    simp only [V]; omega
  show toLE 8 (l.l0 ||| ((l.l1 <<< 44) % U64)) ++ toLE 8 ((l.l1 >>> 20) ||| ((l.l2 <<< 24) % U64))
    = _
  rw [e3, e4, toLE_words _ _ hw, hv]

/-- `finish` in arithmetic form. -/
theorem finish_spec (h : Limbs) (pad0 pad1 : Nat) (hh : Inv h)
    (hp0 : pad0 < 2^64) (hp1 : pad1 < 2^64) :
    finish h pad0 pad1 = toLE 16 ((V h % P + (pad0 + 2^64 * pad1)) % 2^128) := by
  obtain ⟨c1, cV⟩ := carry2_spec h hh
  obtain ⟨c2, sV⟩ := selectP_spec _ c1
  obtain ⟨c3, pV⟩ := addPadLimbs_spec _ pad0 pad1 c2 hp0 hp1
  rw [finish_eq, pack_spec _ c3, pV, sV, cV]
  apply congrArg (toLE 16)
  omega

end DryocVerif.Proofs.Poly1305
