import DryocVerif.Proofs.SecretBoxExtra
import DryocVerif.Proofs.Curve
/-
Helper lemmas for the second strengthening of C02 ("the cryptographic residue"):

* a GENUINE collision of RFC 8439 Poly1305 under every KNOWN one-time key: the two-block messages
  `1 ‖ 0¹⁵ ‖ 0¹⁶` and `0¹⁶ ‖ r` (r the clamped first key half) have the same authenticator —
  `((1 + 2^128)·r + 2^128)·r = (2^128·r + (r + 2^128))·r`;
* hence, with the driver's primitives, two different bodies accepted with one tag under one key and nonce
  (every key, every nonce).

Core only.
-/
namespace DryocVerif.Proofs.ResidueExtra
open DryocVerif DryocVerif.Model.SecretBox DryocVerif.Proofs.SecretBox
open DryocVerif.Model (boxPrims)

/-! ### a Poly1305 collision under a known key -/

theorem chunks16_two (a b : Bytes) (ha : a.length = 16) (hb : b.length = 16) :
    chunks 16 (a ++ b) = [a, b] := by
  have hl : (a ++ b).length = 30 + 1 + 1 := by rw [List.length_append, ha, hb]
  have hne : (a ++ b).isEmpty = false := by
    cases a with
    | nil => simp at ha
    | cons x a => rfl
  have hbne : b.isEmpty = false := by
    cases b with
    | nil => simp at hb
    | cons x b => rfl
  have hd : b.drop 16 = [] := List.drop_of_length_le (by omega)
  have ht : b.take 16 = b := List.take_of_length_le (by omega)
  unfold chunks
  rw [hl, chunksAux, hne, List.take_left' ha, List.drop_left' ha, chunksAux, hbne, ht, hd]
  simp [chunksAux]

theorem acc_two (r : Nat) (a b : Bytes) :
    Spec.Poly1305.acc r [a, b]
      = ((Spec.Poly1305.blockVal a * r) % Spec.Poly1305.p + Spec.Poly1305.blockVal b) * r
          % Spec.Poly1305.p := by
  simp [Spec.Poly1305.acc]

theorem rOf_lt (key : Bytes) : Spec.Poly1305.rOf key < 256 ^ 16 := by
  have h : Spec.Poly1305.rOf key ≤ Spec.Poly1305.clampMask := Nat.and_le_right
  have h2 : Spec.Poly1305.clampMask < 256 ^ 16 := by decide
  omega

theorem mod_add_mul_mod (x y r p : Nat) : (x % p + y) * r % p = (x + y) * r % p := by
  rw [Nat.mul_mod, Nat.add_mod, Nat.mod_mod, ← Nat.add_mod, ← Nat.mul_mod]

/-- first body of the collision: the 32 bytes `01 00…00` -/
def collA : Bytes := toLE 16 1 ++ zeros 16
/-- second body of the collision: 16 zero bytes followed by the clamped `r` of the one-time key -/
def collB (key : Bytes) : Bytes := zeros 16 ++ toLE 16 (Spec.Poly1305.rOf key)

theorem collA_length : collA.length = 32 := by decide
theorem collB_length (key : Bytes) : (collB key).length = 32 := by
  simp [collB, Proofs.Curve.toLE_length, zeros]

theorem collA_ne_collB (key : Bytes) : collA ≠ collB key := by
  intro h
  have := congrArg (fun l => l.head?) h
  simp [collA, collB, toLE, zeros, List.replicate] at this

/-- **Poly1305 collides under every known key**: `mac key (1 ‖ 0³¹) = mac key (0¹⁶ ‖ r)` -/
theorem poly1305_collision (key : Bytes) :
    Spec.Poly1305.mac key collA = Spec.Poly1305.mac key (collB key) := by
  have hr := rOf_lt key
  have e1 : le (toLE 16 1) = 1 := by decide
  have e0 : le (zeros 16) = 0 := by decide
  have er : le (toLE 16 (Spec.Poly1305.rOf key)) = Spec.Poly1305.rOf key := by
    rw [Proofs.Curve.le_toLE, Nat.mod_eq_of_lt hr]
  have l1 : (toLE 16 1).length = 16 := Proofs.Curve.toLE_length _ _
  have l0 : (zeros 16).length = 16 := by decide
  have lr : (toLE 16 (Spec.Poly1305.rOf key)).length = 16 := Proofs.Curve.toLE_length _ _
  unfold Spec.Poly1305.mac collA collB
  rw [chunks16_two _ _ l1 l0, chunks16_two _ _ l0 lr, acc_two, acc_two]
  have b1 : Spec.Poly1305.blockVal (toLE 16 1) = 1 + 2 ^ 128 := by
    unfold Spec.Poly1305.blockVal; rw [e1, l1]
  have b0 : Spec.Poly1305.blockVal (zeros 16) = 2 ^ 128 := by
    unfold Spec.Poly1305.blockVal; rw [e0, l0, Nat.zero_add]
  have br : Spec.Poly1305.blockVal (toLE 16 (Spec.Poly1305.rOf key))
      = Spec.Poly1305.rOf key + 2 ^ 128 := by
    unfold Spec.Poly1305.blockVal; rw [er, lr]
  rw [b1, b0, br, mod_add_mul_mod, mod_add_mul_mod]
  generalize Spec.Poly1305.rOf key = r
  have : (1 + 2 ^ 128) * r + 2 ^ 128 = 2 ^ 128 * r + (r + 2 ^ 128) := by
    rw [Nat.add_mul, Nat.one_mul]; omega
  rw [this]

/-! ### … is a pair of different bodies accepted with one tag -/

/-- with the driver's primitives, for EVERY key and nonce there are two different 32-byte bodies accepted
by `crypto_secretbox_open_detached` with the same tag -/
theorem body_collision_boxPrims (k n : Bytes) :
    ∃ tag c c', c ≠ c' ∧ c'.length = c.length ∧ tag.length = 16 ∧
      (openDetached boxPrims (zeros 32) tag c n k).res = .ok () ∧
      (openDetached boxPrims (zeros 32) tag c' n k).res = .ok () := by
  refine ⟨Spec.Poly1305.mac (Spec.Salsa20.xsalsa20Stream k n 0 32) collA, collA,
    collB (Spec.Salsa20.xsalsa20Stream k n 0 32), collA_ne_collB _, ?_, ?_, ?_, ?_⟩
  · rw [collA_length, collB_length]
  · unfold Spec.Poly1305.mac; exact Proofs.Curve.toLE_length _ _
  · have e := SecretBoxExtra.expectedTag_boxPrims k n collA
    rw [openDetached_eq, e]
    simp [collA_length, zeros]
  · have e := SecretBoxExtra.expectedTag_boxPrims k n (collB (Spec.Salsa20.xsalsa20Stream k n 0 32))
    rw [openDetached_eq, e, ← poly1305_collision]
    simp [collB_length, zeros]

end DryocVerif.Proofs.ResidueExtra
