import DryocVerif.Proofs.ProtectedData
/-
C15, completeness of the release trace: every operation that gives a block back to the system
allocator logs EXACTLY that block (its capacity, zeroed) — nothing is released silently, nothing
is forgotten by the final teardown.
-/
namespace DryocVerif.Proofs.Protected
open DryocVerif DryocVerif.Model.Protected

/-- the release events of a container of capacity `cap` (an empty `Vec` owns no block) -/
def relOf (cap : Nat) : List (Nat × Nat) := if cap = 0 then [] else [(cap, 0)]

theorem relOf_pos {cap : Nat} (h : 0 < cap) : relOf cap = [(cap, 0)] := by
  unfold relOf; rw [if_neg (by omega)]

theorem vecDrop_rel (c : Cfg) (hw : c.wipe = true) (m : Mach) (v : PVec) :
    (vecDrop c m v).rel = m.rel ++ relOf v.cap := by
  unfold vecDrop relOf
  by_cases h : v.cap = 0
  · simp [h]
  · simp only [h, if_false, dealloc_rel, hw, if_true, nonzero_wipe]

theorem plainDrop_rel (c : Cfg) (hw : c.wipe = true) (m : Mach) (v : PVec) :
    (plainDrop c m v).rel = m.rel ++ relOf v.cap := by
  unfold plainDrop; rw [vecDrop_rel c hw]; rfl

theorem protDrop_rel (c : Cfg) (hw : c.wipe = true) (m : Mach) (v : PVec) (lm : LM) (pm : PM) :
    (protDrop c m v lm pm).rel = m.rel ++ relOf v.cap := by
  unfold protDrop
  rw [plainDrop_rel c hw, protZeroize_rel]
  rfl

theorem objDrop_rel (c : Cfg) (hw : c.wipe = true) (m : Mach) (o : Obj) :
    (objDrop c m o).rel = m.rel ++ relOf o.v.cap := by
  unfold objDrop; split
  · exact plainDrop_rel c hw m _
  · exact protDrop_rel c hw m _ _ _

/-- `Vec::resize`: a release happens iff the vector reallocates, and then it is the old block -/
theorem vecResize_rel (c : Cfg) (hw : c.wipe = true) (m : Mach) (v : PVec) (n : Nat) (hl : v.len ≤ v.cap)
    (b : UInt8 := 0) :
    (vecResize c m v n b).1.rel = m.rel ++ (if n ≤ v.cap then [] else relOf v.cap) := by
  unfold vecResize
  split
  · rename_i h1; rw [if_pos (by omega)]; simp
  split
  · simp
  · simp only []
    rw [vecDrop_rel c hw, alloc_rel]

theorem vecResize_empty_rel (c : Cfg) (hw : c.wipe = true) (m : Mach) (n : Nat) (b : UInt8 := 0) :
    (vecResize c m PVec.empty n b).1.rel = m.rel := by
  rw [vecResize_rel c hw m _ n (by simp) b]
  split <;> simp [relOf]

theorem vecResize_empty_cap (c : Cfg) (m : Mach) (n : Nat) (b : UInt8 := 0) :
    (vecResize c m PVec.empty n b).2.cap = if n = 0 then 0 else growCap 0 n := by
  unfold vecResize
  by_cases h : n = 0
  · simp [h]
  · have h1 : ¬ n ≤ PVec.empty.len := by simp; omega
    have h2 : ¬ n ≤ 0 := by omega
    simp only [h1, h2, if_false, h, empty_cap]

theorem vecClone_rel (c : Cfg) (m : Mach) (v : PVec) : (vecClone c m v).1.rel = m.rel := by
  unfold vecClone; split <;> rfl

theorem vecClone_cap (c : Cfg) (m : Mach) (v : PVec) : (vecClone c m v).2.cap = v.len := by
  unfold vecClone; split
  · rename_i h; simp [h]
  · rfl

/-- a lock request releases the consumed region iff it fails -/
theorem lockV_rel (c : Cfg) (hw : c.wipe = true) (m : Mach) (v : PVec) (pm : LM × PM) :
    (lockV c m v pm).1.rel = m.rel ++ (if (lockV c m v pm).2 = true then [] else relOf v.cap) := by
  unfold lockV
  by_cases h : (dryocMlock c m (ptr c v) v.len).2 = true
  · simp [h]
  · simp only [h, if_false, Bool.false_eq_true]
    rw [protDrop_rel c hw, dryocMlock_rel]

/-- resize of a locked region (resize-by-copy): on success exactly the OLD block is released;
on failure (panic) exactly the half-built NEW block -/
theorem lockedResize_rel (c : Cfg) (hw : c.wipe = true) (m : Mach) (v : PVec) (rc : LM × PM) (n : Nat)
    (b : UInt8 := 0) :
    (lockedResize c m v rc n b).1.rel = m.rel ++
      (if (lockedResize c m v rc n b).2.isSome then relOf v.cap
       else relOf (vecResize c m PVec.empty n b).2.cap) := by
  have h1 := lockV_rel c hw (vecResize c m PVec.empty n b).1 (vecResize c m PVec.empty n b).2 recNew
  rw [vecResize_empty_rel c hw m n b] at h1
  unfold lockedResize
  by_cases h : (lockV c (vecResize c m PVec.empty n b).1 (vecResize c m PVec.empty n b).2 recNew).2 = true
  · simp only [h, if_true, Option.isSome_some]
    rw [protDrop_rel c hw, h1]; simp [h]
  · simp only [h, if_false, Option.isSome_none, Bool.false_eq_true]
    rw [h1]; simp [h]

/-! ### final teardown -/

/-- slots whose drop reaches the allocator: live, with a block -/
def owning (slots : List Slot) : List Slot :=
  slots.filter fun sl => !sl.gone && decide (0 < sl.o.v.cap)

theorem dropAllM_rel (c : Cfg) (hw : c.wipe = true) (slots : List Slot) (m : Mach) :
    (dropAllM c m slots).rel = m.rel ++ (owning slots).map fun sl => (sl.o.v.cap, 0) := by
  induction slots generalizing m with
  | nil => simp [dropAllM, owning]
  | cons sl rest ih =>
    unfold dropAllM
    rw [ih]
    by_cases hg : sl.gone = true
    · simp [hg, owning]
    · have hg' : sl.gone = false := by simpa using hg
      simp only [hg, if_false, Bool.false_eq_true]
      rw [objDrop_rel c hw]
      by_cases hc : sl.o.v.cap = 0
      · simp [owning, hg', hc, relOf]
      · have : 0 < sl.o.v.cap := by omega
        simp [owning, hg', this, relOf, hc]

theorem finish_rel (c : Cfg) (hw : c.wipe = true) (s : State) :
    (finish c s).m.rel = (owning s.slots).map fun sl => (sl.o.v.cap, 0) := by
  unfold finish
  rw [dropAllM_rel c hw]; rfl

/-! ### the `drop` token -/

theorem step_drop_rel (c : Cfg) (hw : c.wipe = true) (s : State) {i : Nat} {sl : Slot}
    (hi : s.slots[i]? = some sl) (hg : sl.gone = false) :
    (step c s ⟨.drop, i⟩).2.m.rel = relOf sl.o.v.cap := by
  show (opDrop c (resetRel s) i).2.m.rel = _
  unfold opDrop
  rw [withLive_eq (s := resetRel s) hi hg]
  simp only [setSlot]
  rw [objDrop_rel c hw]; rfl

/-! ### the wipe writes to writable pages -/

/-- the three `mprotect` calls of `deallocate`, in order: data pages, fore guard, aft guard -/
def deallocCalls (c : Cfg) (k : Kernel) (v : PVec) : Kernel :=
  mprotect c.P (mprotect c.P (mprotect c.P k (ptr c v) v.cap .rw) (ptr c v - c.P) c.P .rw)
    (ptr c v - c.P + (c.P + pageRound c.P v.cap)) c.P .rw

/-- `deallocate` = make the data pages `rw`, wipe, make both guards `rw`, log, free (the only other change of the
kernel is the ghost free log) -/
theorem dealloc_kernel (c : Cfg) (m : Mach) (v : PVec) :
    (dealloc c m v).k =
      { deallocCalls c m.k v with fr := (deallocCalls c m.k v).fr ++ [(v.base, v.cap)] } := rfl

/-- after the first call of `deallocate` every byte of `[ptr, ptr+cap)` lies on a `rw` page -/
theorem dealloc_first_rw {c : Cfg} (hP : 0 < c.P) (k : Kernel) (v : PVec) {off : Nat} (hoff : off < v.cap) :
    (mprotect c.P k (ptr c v) v.cap .rw).perm ((ptr c v + off) / c.P) = .rw := by
  rw [ptr_eq, mprotect_perm hP, div_aligned_add hP]
  have := off_div_lt hP hoff
  have := Nat.zero_le (off / c.P)
  rw [if_pos (by omega)]

end DryocVerif.Proofs.Protected
