import DryocVerif.Model.Blake2bSimd
import DryocVerif.Proofs.Blake2bCompress
/-
`Model.Blake2bSimd.compress` (the portable-SIMD backend: four-lane vectors, message vectors
built by swizzles that are read from the generated tables `Blake2bSimdTables`) equals
`Model.Blake2b.compress` (the software backend) on every 8-word chaining value, counter, flag
words and 128-byte block.  Core only.

(i)   `lanewise_g_eq`      : `g1; g2` on vectors = four independent scalar `G`s;
(ii)  `soft_round`         : the soft round (column step, diagonal step) on the 16-word array
                             = lane-wise `G`, `permute`, lane-wise `G`, `unpermute`;
(iii) `schedule_eq_sigma`  : the swizzle tables select the words `SIGMA[r][..]` (`decide`, on
                             word indices) + naturality of swizzles under `map`;
(iv)  `simd_compress_eq`   : twelve rounds, prologue, final xors.
-/
namespace DryocVerif.Proofs.Blake2bSimd
open DryocVerif
open DryocVerif.Model.Utils (loadU64LE rotr64 slice)
open DryocVerif.Model.Blake2bSimd
open DryocVerif.Model.Blake2bSimdTables
open DryocVerif.Model.Blake2b (SIGMA)
open DryocVerif.Proofs.Blake2b (g_eq_G Idx arr8 range8 range16 rep16 feed_eq)

/-- the constants of `blake2b_simd.rs` that the proof relies on, as generated -/
theorem tables_constants :
    IV = Model.Blake2b.IV.toList ∧ rotWidth = 64 ∧
    (g1RotD, g1RotB, g2RotD, g2RotB) = (32, 24, 16, 63) ∧ rounds.length = 12 := by decide

/-! ### (i) lane-wise `g1; g2` = four scalar `G`s -/

/-- the four outputs of a scalar `G` -/
structure Q where
  a : UInt64
  b : UInt64
  c : UInt64
  d : UInt64

/-- the scalar mixing function `G(a, b, c, d, x, y)`, additions associated as in the SIMD code
and in RFC 7693 (`(a + b) + x`; `blake2b_soft.rs` computes `a + (b + x)`, see `g_eq_G`) -/
def Gv (a b c d x y : UInt64) : Q :=
  let a := a + b + x
  let d := rotr64 (d ^^^ a) 32
  let c := c + d
  let b := rotr64 (b ^^^ c) 24
  let a := a + b + y
  let d := rotr64 (d ^^^ a) 16
  let c := c + d
  let b := rotr64 (b ^^^ c) 63
  ⟨a, b, c, d⟩

/-- lane `k` of the result is `G(a_k, b_k, c_k, d_k, x_k, y_k)` -/
def lanewiseG (s : St) (x y : V) : St :=
  ⟨⟨(Gv s.a.l0 s.b.l0 s.c.l0 s.d.l0 x.l0 y.l0).a, (Gv s.a.l1 s.b.l1 s.c.l1 s.d.l1 x.l1 y.l1).a,
    (Gv s.a.l2 s.b.l2 s.c.l2 s.d.l2 x.l2 y.l2).a, (Gv s.a.l3 s.b.l3 s.c.l3 s.d.l3 x.l3 y.l3).a⟩,
   ⟨(Gv s.a.l0 s.b.l0 s.c.l0 s.d.l0 x.l0 y.l0).b, (Gv s.a.l1 s.b.l1 s.c.l1 s.d.l1 x.l1 y.l1).b,
    (Gv s.a.l2 s.b.l2 s.c.l2 s.d.l2 x.l2 y.l2).b, (Gv s.a.l3 s.b.l3 s.c.l3 s.d.l3 x.l3 y.l3).b⟩,
   ⟨(Gv s.a.l0 s.b.l0 s.c.l0 s.d.l0 x.l0 y.l0).c, (Gv s.a.l1 s.b.l1 s.c.l1 s.d.l1 x.l1 y.l1).c,
    (Gv s.a.l2 s.b.l2 s.c.l2 s.d.l2 x.l2 y.l2).c, (Gv s.a.l3 s.b.l3 s.c.l3 s.d.l3 x.l3 y.l3).c⟩,
   ⟨(Gv s.a.l0 s.b.l0 s.c.l0 s.d.l0 x.l0 y.l0).d, (Gv s.a.l1 s.b.l1 s.c.l1 s.d.l1 x.l1 y.l1).d,
    (Gv s.a.l2 s.b.l2 s.c.l2 s.d.l2 x.l2 y.l2).d, (Gv s.a.l3 s.b.l3 s.c.l3 s.d.l3 x.l3 y.l3).d⟩⟩

/-- **(i)** `g1` then `g2` on the vector registers, with the rotation amounts of the generated
tables (32, 24, 16, 63), is `G` on each lane -/
theorem lanewise_g_eq (s : St) (x y : V) : g2 (g1 s x) y = lanewiseG s x y := rfl

/-- `permute` with the generated lane rotations: `a ⋙ 1`, `c ⋘ 1`, `d ⋘ 2` (`b` fixed) -/
theorem permute_eq (s : St) :
    permute s = ⟨⟨s.a.l3, s.a.l0, s.a.l1, s.a.l2⟩, s.b, ⟨s.c.l1, s.c.l2, s.c.l3, s.c.l0⟩,
      ⟨s.d.l2, s.d.l3, s.d.l0, s.d.l1⟩⟩ := rfl

/-- `unpermute` with the generated lane rotations -/
theorem unpermute_eq (s : St) :
    unpermute s = ⟨⟨s.a.l1, s.a.l2, s.a.l3, s.a.l0⟩, s.b, ⟨s.c.l3, s.c.l0, s.c.l1, s.c.l2⟩,
      ⟨s.d.l2, s.d.l3, s.d.l0, s.d.l1⟩⟩ := rfl

theorem unpermute_permute (s : St) : unpermute (permute s) = s := rfl

/-! ### (ii) the soft round on the 16-word work vector -/

/-- the 16-word work vector `tv` of `blake2b_soft.rs` holding the four vector registers:
`a` = `tv[0..4]`, `b` = `tv[4..8]`, `c` = `tv[8..12]`, `d` = `tv[12..16]` -/
def toArr (s : St) : Array UInt64 :=
  #[s.a.l0, s.a.l1, s.a.l2, s.a.l3, s.b.l0, s.b.l1, s.b.l2, s.b.l3,
    s.c.l0, s.c.l1, s.c.l2, s.c.l3, s.d.l0, s.d.l1, s.d.l2, s.d.l3]

theorem toArr_size (s : St) : (toArr s).size = 16 := rfl

theorem G_c0 (s : St) (x y : UInt64) :
    Spec.Blake2b.G (toArr s) 0 4 8 12 x y =
      toArr ⟨⟨(Gv s.a.l0 s.b.l0 s.c.l0 s.d.l0 x y).a, s.a.l1, s.a.l2, s.a.l3⟩,
             ⟨(Gv s.a.l0 s.b.l0 s.c.l0 s.d.l0 x y).b, s.b.l1, s.b.l2, s.b.l3⟩,
             ⟨(Gv s.a.l0 s.b.l0 s.c.l0 s.d.l0 x y).c, s.c.l1, s.c.l2, s.c.l3⟩,
             ⟨(Gv s.a.l0 s.b.l0 s.c.l0 s.d.l0 x y).d, s.d.l1, s.d.l2, s.d.l3⟩⟩ := by
  simp [Spec.Blake2b.G, toArr, Gv, Spec.Blake2b.rotr, rotr64]

theorem G_c1 (s : St) (x y : UInt64) :
    Spec.Blake2b.G (toArr s) 1 5 9 13 x y =
      toArr ⟨⟨s.a.l0, (Gv s.a.l1 s.b.l1 s.c.l1 s.d.l1 x y).a, s.a.l2, s.a.l3⟩,
             ⟨s.b.l0, (Gv s.a.l1 s.b.l1 s.c.l1 s.d.l1 x y).b, s.b.l2, s.b.l3⟩,
             ⟨s.c.l0, (Gv s.a.l1 s.b.l1 s.c.l1 s.d.l1 x y).c, s.c.l2, s.c.l3⟩,
             ⟨s.d.l0, (Gv s.a.l1 s.b.l1 s.c.l1 s.d.l1 x y).d, s.d.l2, s.d.l3⟩⟩ := by
  simp [Spec.Blake2b.G, toArr, Gv, Spec.Blake2b.rotr, rotr64]

theorem G_c2 (s : St) (x y : UInt64) :
    Spec.Blake2b.G (toArr s) 2 6 10 14 x y =
      toArr ⟨⟨s.a.l0, s.a.l1, (Gv s.a.l2 s.b.l2 s.c.l2 s.d.l2 x y).a, s.a.l3⟩,
             ⟨s.b.l0, s.b.l1, (Gv s.a.l2 s.b.l2 s.c.l2 s.d.l2 x y).b, s.b.l3⟩,
             ⟨s.c.l0, s.c.l1, (Gv s.a.l2 s.b.l2 s.c.l2 s.d.l2 x y).c, s.c.l3⟩,
             ⟨s.d.l0, s.d.l1, (Gv s.a.l2 s.b.l2 s.c.l2 s.d.l2 x y).d, s.d.l3⟩⟩ := by
  simp [Spec.Blake2b.G, toArr, Gv, Spec.Blake2b.rotr, rotr64]

theorem G_c3 (s : St) (x y : UInt64) :
    Spec.Blake2b.G (toArr s) 3 7 11 15 x y =
      toArr ⟨⟨s.a.l0, s.a.l1, s.a.l2, (Gv s.a.l3 s.b.l3 s.c.l3 s.d.l3 x y).a⟩,
             ⟨s.b.l0, s.b.l1, s.b.l2, (Gv s.a.l3 s.b.l3 s.c.l3 s.d.l3 x y).b⟩,
             ⟨s.c.l0, s.c.l1, s.c.l2, (Gv s.a.l3 s.b.l3 s.c.l3 s.d.l3 x y).c⟩,
             ⟨s.d.l0, s.d.l1, s.d.l2, (Gv s.a.l3 s.b.l3 s.c.l3 s.d.l3 x y).d⟩⟩ := by
  simp [Spec.Blake2b.G, toArr, Gv, Spec.Blake2b.rotr, rotr64]

theorem G_d0 (s : St) (x y : UInt64) :
    Spec.Blake2b.G (toArr s) 0 5 10 15 x y =
      toArr ⟨⟨(Gv s.a.l0 s.b.l1 s.c.l2 s.d.l3 x y).a, s.a.l1, s.a.l2, s.a.l3⟩,
             ⟨s.b.l0, (Gv s.a.l0 s.b.l1 s.c.l2 s.d.l3 x y).b, s.b.l2, s.b.l3⟩,
             ⟨s.c.l0, s.c.l1, (Gv s.a.l0 s.b.l1 s.c.l2 s.d.l3 x y).c, s.c.l3⟩,
             ⟨s.d.l0, s.d.l1, s.d.l2, (Gv s.a.l0 s.b.l1 s.c.l2 s.d.l3 x y).d⟩⟩ := by
  simp [Spec.Blake2b.G, toArr, Gv, Spec.Blake2b.rotr, rotr64]

theorem G_d1 (s : St) (x y : UInt64) :
    Spec.Blake2b.G (toArr s) 1 6 11 12 x y =
      toArr ⟨⟨s.a.l0, (Gv s.a.l1 s.b.l2 s.c.l3 s.d.l0 x y).a, s.a.l2, s.a.l3⟩,
             ⟨s.b.l0, s.b.l1, (Gv s.a.l1 s.b.l2 s.c.l3 s.d.l0 x y).b, s.b.l3⟩,
             ⟨s.c.l0, s.c.l1, s.c.l2, (Gv s.a.l1 s.b.l2 s.c.l3 s.d.l0 x y).c⟩,
             ⟨(Gv s.a.l1 s.b.l2 s.c.l3 s.d.l0 x y).d, s.d.l1, s.d.l2, s.d.l3⟩⟩ := by
  simp [Spec.Blake2b.G, toArr, Gv, Spec.Blake2b.rotr, rotr64]

theorem G_d2 (s : St) (x y : UInt64) :
    Spec.Blake2b.G (toArr s) 2 7 8 13 x y =
      toArr ⟨⟨s.a.l0, s.a.l1, (Gv s.a.l2 s.b.l3 s.c.l0 s.d.l1 x y).a, s.a.l3⟩,
             ⟨s.b.l0, s.b.l1, s.b.l2, (Gv s.a.l2 s.b.l3 s.c.l0 s.d.l1 x y).b⟩,
             ⟨(Gv s.a.l2 s.b.l3 s.c.l0 s.d.l1 x y).c, s.c.l1, s.c.l2, s.c.l3⟩,
             ⟨s.d.l0, (Gv s.a.l2 s.b.l3 s.c.l0 s.d.l1 x y).d, s.d.l2, s.d.l3⟩⟩ := by
  simp [Spec.Blake2b.G, toArr, Gv, Spec.Blake2b.rotr, rotr64]

theorem G_d3 (s : St) (x y : UInt64) :
    Spec.Blake2b.G (toArr s) 3 4 9 14 x y =
      toArr ⟨⟨s.a.l0, s.a.l1, s.a.l2, (Gv s.a.l3 s.b.l0 s.c.l1 s.d.l2 x y).a⟩,
             ⟨(Gv s.a.l3 s.b.l0 s.c.l1 s.d.l2 x y).b, s.b.l1, s.b.l2, s.b.l3⟩,
             ⟨s.c.l0, (Gv s.a.l3 s.b.l0 s.c.l1 s.d.l2 x y).c, s.c.l2, s.c.l3⟩,
             ⟨s.d.l0, s.d.l1, (Gv s.a.l3 s.b.l0 s.c.l1 s.d.l2 x y).d, s.d.l3⟩⟩ := by
  simp [Spec.Blake2b.G, toArr, Gv, Spec.Blake2b.rotr, rotr64]

theorem idx_c0 : Idx 0 4 8 12 := by constructor <;> decide
theorem idx_c1 : Idx 1 5 9 13 := by constructor <;> decide
theorem idx_c2 : Idx 2 6 10 14 := by constructor <;> decide
theorem idx_c3 : Idx 3 7 11 15 := by constructor <;> decide
theorem idx_d0 : Idx 0 5 10 15 := by constructor <;> decide
theorem idx_d1 : Idx 1 6 11 12 := by constructor <;> decide
theorem idx_d2 : Idx 2 7 8 13 := by constructor <;> decide
theorem idx_d3 : Idx 3 4 9 14 := by constructor <;> decide

/-- message word `k` of round `r` of the soft code: `tm[SIGMA[r][k]]` -/
def mw (tm : Array UInt64) (r k : Nat) : UInt64 := tm[SIGMA[r]![k]!]!

/-- column step of the soft round (`g(r, 0, 0, 4, 8, 12)` … `g(r, 3, 3, 7, 11, 15)`):
lane `k` is `G` on column `k` with words `SIGMA[r][2k]`, `SIGMA[r][2k+1]` -/
theorem soft_columns (tm : Array UInt64) (r : Nat) (s : St) :
    Model.Blake2b.g tm (Model.Blake2b.g tm (Model.Blake2b.g tm (Model.Blake2b.g tm (toArr s)
      r 0 0 4 8 12) r 1 1 5 9 13) r 2 2 6 10 14) r 3 3 7 11 15
    = toArr (lanewiseG s ⟨mw tm r 0, mw tm r 2, mw tm r 4, mw tm r 6⟩
        ⟨mw tm r 1, mw tm r 3, mw tm r 5, mw tm r 7⟩) := by
  rw [g_eq_G tm _ r 0 0 4 8 12 (toArr_size _) idx_c0, G_c0]
  rw [g_eq_G tm _ r 1 1 5 9 13 (toArr_size _) idx_c1, G_c1]
  rw [g_eq_G tm _ r 2 2 6 10 14 (toArr_size _) idx_c2, G_c2]
  rw [g_eq_G tm _ r 3 3 7 11 15 (toArr_size _) idx_c3, G_c3]
  rfl

/-- diagonal step of the soft round (`g(r, 4, 0, 5, 10, 15)` … `g(r, 7, 3, 4, 9, 14)`): after
`permute`, lane 0 holds the diagonal (3, 4, 9, 14), lane 1 (0, 5, 10, 15), lane 2 (1, 6, 11, 12),
lane 3 (2, 7, 8, 13); `unpermute` restores the layout -/
theorem soft_diagonals (tm : Array UInt64) (r : Nat) (s : St) :
    Model.Blake2b.g tm (Model.Blake2b.g tm (Model.Blake2b.g tm (Model.Blake2b.g tm (toArr s)
      r 4 0 5 10 15) r 5 1 6 11 12) r 6 2 7 8 13) r 7 3 4 9 14
    = toArr (unpermute (lanewiseG (permute s) ⟨mw tm r 14, mw tm r 8, mw tm r 10, mw tm r 12⟩
        ⟨mw tm r 15, mw tm r 9, mw tm r 11, mw tm r 13⟩)) := by
  rw [g_eq_G tm _ r 4 0 5 10 15 (toArr_size _) idx_d0, G_d0]
  rw [g_eq_G tm _ r 5 1 6 11 12 (toArr_size _) idx_d1, G_d1]
  rw [g_eq_G tm _ r 6 2 7 8 13 (toArr_size _) idx_d2, G_d2]
  rw [g_eq_G tm _ r 7 3 4 9 14 (toArr_size _) idx_d3, G_d3]
  rfl

/-- **(ii)** one round of `blake2b_soft.rs` on the work vector = `g1; g2; permute; g1; g2;
unpermute` on the vector registers, for the message vectors that hold the words
`SIGMA[r][0,2,4,6]`, `SIGMA[r][1,3,5,7]`, `SIGMA[r][14,8,10,12]`, `SIGMA[r][15,9,11,13]` -/
theorem soft_round (tm : Array UInt64) (r : Nat) (s : St) :
    Model.Blake2b.round tm (toArr s) r =
      toArr (unpermute (g2 (g1 (permute (g2 (g1 s
        ⟨mw tm r 0, mw tm r 2, mw tm r 4, mw tm r 6⟩) ⟨mw tm r 1, mw tm r 3, mw tm r 5, mw tm r 7⟩))
        ⟨mw tm r 14, mw tm r 8, mw tm r 10, mw tm r 12⟩) ⟨mw tm r 15, mw tm r 9, mw tm r 11, mw tm r 13⟩)) := by
  unfold Model.Blake2b.round
  simp only []
  rw [soft_columns, soft_diagonals, lanewise_g_eq, lanewise_g_eq]

/-! ### (iii) the message schedule -/

section naturality
variable {α β : Type}

theorem lane_map (f : α → β) (v : V4 α) (i : Nat) : (V4.map f v).lane i = f (v.lane i) := by
  unfold V4.lane V4.map
  split <;> rfl

theorem lane2_map (f : α → β) (v : V2 α) (i : Nat) :
    (⟨f v.l0, f v.l1⟩ : V2 β).lane i = f (v.lane i) := by
  unfold V2.lane
  split <;> rfl

theorem sel2_map (f : α → β) (u v : V4 α) (i : Nat) :
    sel2 (V4.map f u) (V4.map f v) i = f (sel2 u v i) := by
  unfold sel2
  split <;> exact lane_map f _ _

theorem pick_map (f : α → β) (g : Nat → α) (idx : List Nat) :
    pick (fun i => f (g i)) idx = V4.map f (pick g idx) := rfl

/-- swizzles commute with a lane-wise map -/
theorem swizzle1_map (f : α → β) (u : V4 α) (idx : List Nat) :
    swizzle1 (V4.map f u) idx = V4.map f (swizzle1 u idx) := by
  unfold swizzle1
  rw [← pick_map, funext (lane_map f u)]

theorem swizzle2_map (f : α → β) (u v : V4 α) (idx : List Nat) :
    swizzle2 (V4.map f u) (V4.map f v) idx = V4.map f (swizzle2 u v idx) := by
  unfold swizzle2
  rw [← pick_map, funext (sel2_map f u v)]

theorem swizzle2to4_map (f : α → β) (u : V2 α) (idx : List Nat) :
    swizzle2to4 (⟨f u.l0, f u.l1⟩ : V2 β) idx = V4.map f (swizzle2to4 u idx) := by
  unfold swizzle2to4
  rw [← pick_map, funext (lane2_map f u)]

theorem loadmG_map (f : α → β) (ld : Nat → Nat → α) :
    loadmG (fun s e => f (ld s e)) = (loadmG ld).map (V4.map f) := by
  unfold loadmG
  rw [List.map_map]
  apply List.map_congr_left
  intro p _
  exact swizzle2to4_map f ⟨ld p.1 p.2.1, ld p.2.1 p.2.2⟩ loadmDup

variable [Inhabited α] [Inhabited β]

theorem getM_map (g : V4 α → V4 β) (M : List (V4 α)) (i : Nat) (hi : i < M.length) :
    getM (M.map g) i = g (getM M i) := by
  simp only [getM, List.getD_eq_getElem?_getD, List.getElem?_map, List.getElem?_eq_getElem hi,
    Option.map_some, Option.getD_some]

/-- the message vector indices of a swizzle are below `n` -/
def swOk (n : Nat) : Sw → Bool
  | .two i j _ => decide (i < n) && decide (j < n)
  | .one i _ => decide (i < n)

def mvOk (n : Nat) (mv : MsgVec) : Bool := swOk n mv.t0 && swOk n mv.t1

def roundOk (n : Nat) (R : Round) : Bool := mvOk n R.m1 && mvOk n R.m2 && mvOk n R.m3 && mvOk n R.m4

theorem sw_map (f : α → β) (M : List (V4 α)) (s : Sw) (h : swOk M.length s = true) :
    sw (M.map (V4.map f)) s = V4.map f (sw M s) := by
  cases s with
  | two i j idx =>
    simp only [swOk, Bool.and_eq_true, decide_eq_true_eq] at h
    simp only [sw, getM_map _ M i h.1, getM_map _ M j h.2, swizzle2_map]
  | one i idx =>
    simp only [swOk, decide_eq_true_eq] at h
    simp only [sw, getM_map _ M i h, swizzle1_map]

/-- a message vector built from lane-wise mapped inputs is the lane-wise mapped message vector:
the swizzles only move lanes around -/
theorem msgVec_map (f : α → β) (M : List (V4 α)) (mv : MsgVec) (h : mvOk M.length mv = true) :
    msgVec (M.map (V4.map f)) mv = V4.map f (msgVec M mv) := by
  simp only [mvOk, Bool.and_eq_true] at h
  simp only [msgVec, sw_map f M _ h.1, sw_map f M _ h.2, swizzle2_map]

end naturality

/-- `loadm` on word indices: the lane that `loadm` fills with `load_u64_le(&block[s..e])`
holds `s / 8`, the index of that word among the 16 message words -/
def idxM : List (V4 Nat) := loadmG fun s _ => s / 8

theorem idxM_length : idxM.length = 8 := rfl

theorem rounds_length : rounds.length = 12 := rfl

/-- every `m[i]` in the generated tables has `i < 8` -/
theorem rounds_ok : ∀ r, r < 12 → roundOk 8 (rounds.getD r default) = true := by decide

/-- **(iii) `schedule_eq_sigma`**: for every round `r`, the four message vectors selected by
the generated swizzle tables (evaluated on word indices) hold exactly the indices that the
soft code reads from `SIGMA[r]`: lanes 0..3 of the column-step vectors are `SIGMA[r][2k]` /
`SIGMA[r][2k+1]` for `g` number `k` = 0..3, lanes 0..3 of the diagonal-step vectors are those of
`g` number 7, 4, 5, 6 (the diagonal that `permute` moves into that lane). -/
theorem schedule_eq_sigma : ∀ r, r < 12 →
    msgVec idxM (rounds.getD r default).m1 = ⟨SIGMA[r]![0]!, SIGMA[r]![2]!, SIGMA[r]![4]!, SIGMA[r]![6]!⟩ ∧
    msgVec idxM (rounds.getD r default).m2 = ⟨SIGMA[r]![1]!, SIGMA[r]![3]!, SIGMA[r]![5]!, SIGMA[r]![7]!⟩ ∧
    msgVec idxM (rounds.getD r default).m3 = ⟨SIGMA[r]![14]!, SIGMA[r]![8]!, SIGMA[r]![10]!, SIGMA[r]![12]!⟩ ∧
    msgVec idxM (rounds.getD r default).m4 = ⟨SIGMA[r]![15]!, SIGMA[r]![9]!, SIGMA[r]![11]!, SIGMA[r]![13]!⟩ := by
  decide

/-- the lane of the message vectors that serves `g` number `i` of the soft round -/
def laneOf (i : Nat) : Nat := if i < 4 then i else (i - 4 + 1) % 4

/-- the message vector that feeds the first (`p = 0`) / second (`p = 1`) half of `g` number `i` -/
def vecOf (R : Round) (i p : Nat) : MsgVec :=
  if i < 4 then (if p = 0 then R.m1 else R.m2) else (if p = 0 then R.m3 else R.m4)

/-- the same statement, one `g` at a time: `g(r, i, …)` of the soft code reads
`tm[SIGMA[r][2i]]` and `tm[SIGMA[r][2i+1]]`; the SIMD code feeds that `G` the same two words -/
theorem schedule_eq_sigma' : ∀ r, r < 12 → ∀ i, i < 8 → ∀ p, p < 2 →
    (msgVec idxM (vecOf (rounds.getD r default) i p)).lane (laneOf i) = SIGMA[r]![2 * i + p]! := by
  decide


/-! ### (iv) twelve rounds, prologue, final xors -/

/-- message word `k` of the block: `load_u64_le(&block[k * 8..k * 8 + 8])` -/
def wd (block : Bytes) (k : Nat) : UInt64 := loadU64LE (slice block (k * 8) (k * 8 + 8))

/-- the array `tm` of `blake2b_soft.rs` after its load loop -/
def tmOf (block : Bytes) : Array UInt64 :=
  #[wd block 0, wd block 1, wd block 2, wd block 3, wd block 4, wd block 5, wd block 6, wd block 7,
    wd block 8, wd block 9, wd block 10, wd block 11, wd block 12, wd block 13, wd block 14, wd block 15]

theorem tm_lit (block : Bytes) :
    (List.range 16).foldl (fun tm i => tm.set! i (loadU64LE (slice block (i * 8) (i * 8 + 8))))
      (Array.replicate 16 0) = tmOf block := by
  simp only [range16, List.foldl_cons, List.foldl_nil, rep16]
  simp [tmOf, wd]

/-- `loadm(block)` holds, in each lane, the message word whose index `loadm` on indices
computes: with the generated offsets and the `[0, 1, 0, 1]` duplication, `m[i]` =
`[tm[2i], tm[2i+1], tm[2i], tm[2i+1]]` -/
theorem loadm_eq (block : Bytes) :
    loadm block = idxM.map (V4.map fun k => (tmOf block)[k]!) := by
  unfold idxM
  rw [← loadmG_map]
  rfl

/-- one `// round` paragraph of the SIMD `compress`, for the generated table entry `r`, on the
message vectors of `loadm`, is the `g1; g2; permute; g1; g2; unpermute` of `soft_round` -/
theorem simd_round (block : Bytes) (r : Nat) (hr : r < 12) (s : St) :
    Model.Blake2bSimd.round (loadm block) (rounds.getD r default) s =
      unpermute (g2 (g1 (permute (g2 (g1 s
        ⟨mw (tmOf block) r 0, mw (tmOf block) r 2, mw (tmOf block) r 4, mw (tmOf block) r 6⟩)
        ⟨mw (tmOf block) r 1, mw (tmOf block) r 3, mw (tmOf block) r 5, mw (tmOf block) r 7⟩))
        ⟨mw (tmOf block) r 14, mw (tmOf block) r 8, mw (tmOf block) r 10, mw (tmOf block) r 12⟩)
        ⟨mw (tmOf block) r 15, mw (tmOf block) r 9, mw (tmOf block) r 11, mw (tmOf block) r 13⟩) := by
  have ok := rounds_ok r hr
  simp only [roundOk, Bool.and_eq_true] at ok
  obtain ⟨e1, e2, e3, e4⟩ := schedule_eq_sigma r hr
  unfold Model.Blake2bSimd.round
  simp only [loadm_eq]
  rw [msgVec_map _ idxM _ ok.1.1.1, msgVec_map _ idxM _ ok.1.1.2, msgVec_map _ idxM _ ok.1.2,
    msgVec_map _ idxM _ ok.2, e1, e2, e3, e4]
  rfl

/-- **round `r` of the soft backend = round `r` of the SIMD backend** (as generated from the
Rust source), the work vector being the four vector registers -/
theorem round_eq (block : Bytes) (r : Nat) (hr : r < 12) (s : St) :
    Model.Blake2b.round (tmOf block) (toArr s) r =
      toArr (Model.Blake2bSimd.round (loadm block) (rounds.getD r default) s) := by
  rw [soft_round, simd_round block r hr]

theorem rounds_split : rounds =
    [rounds.getD 0 default, rounds.getD 1 default, rounds.getD 2 default, rounds.getD 3 default,
     rounds.getD 4 default, rounds.getD 5 default, rounds.getD 6 default, rounds.getD 7 default,
     rounds.getD 8 default, rounds.getD 9 default, rounds.getD 10 default, rounds.getD 11 default] := rfl

/-- the twelve `round(r)` calls of the soft code = the fold over the twelve generated rounds -/
theorem rounds_eq (block : Bytes) (s : St) :
    let tm := tmOf block
    Model.Blake2b.round tm (Model.Blake2b.round tm (Model.Blake2b.round tm (Model.Blake2b.round tm
      (Model.Blake2b.round tm (Model.Blake2b.round tm (Model.Blake2b.round tm (Model.Blake2b.round tm
      (Model.Blake2b.round tm (Model.Blake2b.round tm (Model.Blake2b.round tm (Model.Blake2b.round tm
      (toArr s) 0) 1) 2) 3) 4) 5) 6) 7) 8) 9) 10) 11
    = toArr (rounds.foldl (fun s R => Model.Blake2bSimd.round (loadm block) R s) s) := by
  intro tm
  have e : rounds.foldl (fun s R => Model.Blake2bSimd.round (loadm block) R s) s = _ :=
    congrArg (fun l => List.foldl (fun s R => Model.Blake2bSimd.round (loadm block) R s) s l) rounds_split
  rw [e]
  simp only [List.foldl_cons, List.foldl_nil]
  rw [round_eq block 0 (by decide), round_eq block 1 (by decide), round_eq block 2 (by decide),
    round_eq block 3 (by decide), round_eq block 4 (by decide), round_eq block 5 (by decide),
    round_eq block 6 (by decide), round_eq block 7 (by decide), round_eq block 8 (by decide),
    round_eq block 9 (by decide), round_eq block 10 (by decide), round_eq block 11 (by decide)]

/-- the initial work vector of the soft code is the initial register file of the SIMD code
(`IV` of `blake2b_simd.rs` = `IV` of `blake2b_soft.rs`; `flags` = `[st[0], st[1], sf[0], sf[1]]`) -/
theorem init_eq (h0 h1 h2 h3 h4 h5 h6 h7 t0 t1 f0 f1 : UInt64) :
    (let tv : Array UInt64 := Array.replicate 16 0
     let tv := (List.range 8).foldl (fun tv i => tv.set! i #[h0,h1,h2,h3,h4,h5,h6,h7][i]!) tv
     let tv := tv.set! 8 Model.Blake2b.IV[0]!
     let tv := tv.set! 9 Model.Blake2b.IV[1]!
     let tv := tv.set! 10 Model.Blake2b.IV[2]!
     let tv := tv.set! 11 Model.Blake2b.IV[3]!
     let tv := tv.set! 12 (t0 ^^^ Model.Blake2b.IV[4]!)
     let tv := tv.set! 13 (t1 ^^^ Model.Blake2b.IV[5]!)
     let tv := tv.set! 14 (f0 ^^^ Model.Blake2b.IV[6]!)
     let tv := tv.set! 15 (f1 ^^^ Model.Blake2b.IV[7]!)
     tv)
    = toArr ⟨⟨h0, h1, h2, h3⟩, ⟨h4, h5, h6, h7⟩, ivSlice cIv,
        ivSlice dIv ^^^ pick (fun i => flagWord t0 t1 f0 f1 (flags.getD i default)) [0, 1, 2, 3]⟩ := by
  have e : (ivSlice dIv ^^^ pick (fun i => flagWord t0 t1 f0 f1 (flags.getD i default)) [0, 1, 2, 3] : V)
      = ⟨Model.Blake2b.IV[4]! ^^^ t0, Model.Blake2b.IV[5]! ^^^ t1, Model.Blake2b.IV[6]! ^^^ f0,
         Model.Blake2b.IV[7]! ^^^ f1⟩ := rfl
  have e' : ivSlice cIv = ⟨Model.Blake2b.IV[0]!, Model.Blake2b.IV[1]!, Model.Blake2b.IV[2]!,
      Model.Blake2b.IV[3]!⟩ := rfl
  rw [e, e']
  simp only [range8, List.foldl_cons, List.foldl_nil, rep16, toArr]
  simp [UInt64.xor_comm]

/-- the feed-forward: `sh[i] ^ tv[i] ^ tv[i + 8]` of the soft code = `*a ^= c; *b ^= d;
*a ^= iv0; *b ^= iv1;` of the SIMD code -/
theorem final_eq (h0 h1 h2 h3 h4 h5 h6 h7 : UInt64) (s : St) :
    (List.range 8).foldl (fun sh i => sh.set! i (sh[i]! ^^^ (toArr s)[i]! ^^^ (toArr s)[i + 8]!))
      #[h0, h1, h2, h3, h4, h5, h6, h7]
    = (let r := finalXor.foldl xorAssign
        (⟨s.a, s.b, s.c, s.d, ⟨h0, h1, h2, h3⟩, ⟨h4, h5, h6, h7⟩⟩ : Regs)
       #[r.a.l0, r.a.l1, r.a.l2, r.a.l3, r.b.l0, r.b.l1, r.b.l2, r.b.l3]) := by
  have e : finalXor.foldl xorAssign (⟨s.a, s.b, s.c, s.d, ⟨h0, h1, h2, h3⟩, ⟨h4, h5, h6, h7⟩⟩ : Regs)
      = ⟨⟨s.a.l0 ^^^ s.c.l0 ^^^ h0, s.a.l1 ^^^ s.c.l1 ^^^ h1, s.a.l2 ^^^ s.c.l2 ^^^ h2, s.a.l3 ^^^ s.c.l3 ^^^ h3⟩,
         ⟨s.b.l0 ^^^ s.d.l0 ^^^ h4, s.b.l1 ^^^ s.d.l1 ^^^ h5, s.b.l2 ^^^ s.d.l2 ^^^ h6, s.b.l3 ^^^ s.d.l3 ^^^ h7⟩,
         s.c, s.d, ⟨h0, h1, h2, h3⟩, ⟨h4, h5, h6, h7⟩⟩ := rfl
  rw [feed_eq, e]
  simp only [range8, List.map_cons, List.map_nil, toArr]
  simp
  refine ⟨?_, ?_, ?_, ?_, ?_, ?_, ?_, ?_⟩ <;> ac_rfl

/-- the SIMD backend's `compress`, interpreted from the tables generated from
`blake2b_simd.rs`, equals the software backend's `compress` for every 8-word chaining value,
counter, flag words and block (both models read the block through the same
`load_u64_le(&block[a..b])` expressions, so the block length plays no role) -/
theorem simd_compress_eq_of_size (h : Array UInt64) (hh : h.size = 8) (t0 t1 f0 f1 : UInt64)
    (block : Bytes) :
    Model.Blake2bSimd.compress h t0 t1 f0 f1 block = Model.Blake2b.compress h t0 t1 f0 f1 block := by
  obtain ⟨h0, h1, h2, h3, h4, h5, h6, h7, rfl⟩ := arr8 h hh
  unfold Model.Blake2b.compress Model.Blake2bSimd.compress
  simp only []
  have hi := init_eq h0 h1 h2 h3 h4 h5 h6 h7 t0 t1 f0 f1
  simp only [] at hi
  have hr := rounds_eq block
  simp only [] at hr
  rw [tm_lit, hi, hr, final_eq]
  rfl

/-- **C18 (compression function)**: the SIMD backend's `compress` equals the software
backend's `compress` for every 8-word chaining value, counter, flag words and 128-byte block. -/
theorem simd_compress_eq (h : Array UInt64) (hh : h.size = 8) (t0 t1 f0 f1 : UInt64)
    (block : Bytes) (_hb : block.length = 128) :
    Model.Blake2bSimd.compress h t0 t1 f0 f1 block = Model.Blake2b.compress h t0 t1 f0 f1 block :=
  simd_compress_eq_of_size h hh t0 t1 f0 f1 block

theorem simd_compress_size (h : Array UInt64) (t0 t1 f0 f1 : UInt64) (block : Bytes) :
    (Model.Blake2bSimd.compress h t0 t1 f0 f1 block).size = 8 := rfl

section buffering
open DryocVerif.Model.Blake2b

/-! ### the buffering code only ever compresses 8-word chaining values -/

/-- two compression functions that agree on 8-word chaining values (and return 8 words) -/
def AgreeOn8 (C₁ C₂ : Compress) : Prop :=
  ∀ (h : Array UInt64) (t0 t1 f0 f1 : UInt64) (blk : Bytes), h.size = 8 →
    C₁ h t0 t1 f0 f1 blk = C₂ h t0 t1 f0 f1 blk ∧ (C₂ h t0 t1 f0 f1 blk).size = 8

theorem setLastblock_h (st : State) : (setLastblock st).h = st.h := by
  unfold setLastblock setLastnode
  split <;> rfl

theorem foldl_set!_size (f : Array UInt64 → Nat → UInt64) (l : List Nat) :
    ∀ a : Array UInt64, (l.foldl (fun h i => h.set! i (f h i)) a).size = a.size := by
  induction l with
  | nil => intro a; rfl
  | cons x l ih => intro a; rw [List.foldl_cons, ih]; simp

theorem initParam_size (p : Bytes) : (initParam p).h.size = 8 := by
  unfold initParam init0
  simp only []
  rw [foldl_set!_size, foldl_set!_size]
  rfl

section congr
variable {C₁ C₂ : Compress} (H : AgreeOn8 C₁ C₂)
include H

theorem stepC_congr (st : State) (hs : st.h.size = 8) (c : Bytes) :
    stepC C₁ st c = stepC C₂ st c ∧ (stepC C₂ st c).h.size = 8 := by
  simp only [stepC]
  obtain ⟨e, s⟩ := H st.h (incrementCounter st.t0 st.t1 BLOCKBYTES).1
    (incrementCounter st.t0 st.t1 BLOCKBYTES).2 st.f0 st.f1 c hs
  rw [e]
  exact ⟨rfl, s⟩

theorem foldl_stepC_congr (cs : List Bytes) : ∀ (st : State), st.h.size = 8 →
    cs.foldl (stepC C₁) st = cs.foldl (stepC C₂) st ∧ (cs.foldl (stepC C₂) st).h.size = 8 := by
  induction cs with
  | nil => intro st hs; exact ⟨rfl, hs⟩
  | cons c cs ih =>
    intro st hs
    obtain ⟨e, s⟩ := stepC_congr H st hs c
    rw [List.foldl_cons, List.foldl_cons, e]
    exact ih _ s

theorem updateC_congr (st : State) (hs : st.h.size = 8) (input : Bytes) :
    updateC C₁ st input = updateC C₂ st input ∧ (updateC C₂ st input).h.size = 8 := by
  unfold updateC
  by_cases h1 : input.length = 0
  · simp only [if_pos h1]; exact ⟨trivial, hs⟩
  simp only [if_neg h1]
  by_cases h2 : input.length + st.buf.length ≤ BLOCKBYTES
  · simp only [if_pos h2]; exact ⟨trivial, hs⟩
  simp only [if_neg h2]
  generalize chunksExact BLOCKBYTES _ = L1
  generalize chunksExact BLOCKBYTES _ = L2
  obtain ⟨e1, s1⟩ := foldl_stepC_congr H L1 st hs
  obtain ⟨e2, s2⟩ := foldl_stepC_congr H L2 _ s1
  rw [e1, e2]
  exact ⟨rfl, s2⟩

theorem foldl_updateC_congr (cs : List Bytes) : ∀ (st : State), st.h.size = 8 →
    cs.foldl (updateC C₁) st = cs.foldl (updateC C₂) st ∧ (cs.foldl (updateC C₂) st).h.size = 8 := by
  induction cs with
  | nil => intro st hs; exact ⟨rfl, hs⟩
  | cons c cs ih =>
    intro st hs
    obtain ⟨e, s⟩ := updateC_congr H st hs c
    rw [List.foldl_cons, List.foldl_cons, e]
    exact ih _ s

theorem finalizeC_congr (st : State) (hs : st.h.size = 8) (outLen : Nat) :
    finalizeC C₁ st outLen = finalizeC C₂ st outLen := by
  unfold finalizeC
  by_cases h1 : outLen = 0 ∨ outLen > OUTBYTES
  · simp only [if_pos h1]
  simp only [if_neg h1]
  by_cases h2 : isLastblock st = true
  · simp only [if_pos h2]
  simp only [if_neg h2]
  by_cases h3 : st.buf.length > BLOCKBYTES
  · simp only [if_pos h3]
    obtain ⟨e1, s1⟩ := H st.h (incrementCounter st.t0 st.t1 BLOCKBYTES).1
      (incrementCounter st.t0 st.t1 BLOCKBYTES).2 st.f0 st.f1 (Model.Utils.slice st.buf 0 BLOCKBYTES) hs
    simp only [e1, setLastblock_h]
    rw [(H _ _ _ _ _ _ s1).1]
  · simp only [if_neg h3, setLastblock_h]
    rw [(H _ _ _ _ _ _ hs).1]

theorem initC_congr (outlen : Nat) (key salt personal : Option Bytes) :
    initC C₁ outlen key salt personal = initC C₂ outlen key salt personal ∧
    ∀ st, initC C₂ outlen key salt personal = .ok st → st.h.size = 8 := by
  unfold initC
  by_cases h1 : outlen = 0 ∨ outlen > OUTBYTES
  · simp only [if_pos h1]; exact ⟨trivial, fun st h => by cases h⟩
  simp only [if_neg h1]
  cases key with
  | none =>
    simp only [Nat.not_lt_zero, if_false]
    refine ⟨trivial, fun st h => ?_⟩
    injection h with h
    rw [← h]; exact initParam_size _
  | some key =>
    simp only []
    by_cases h2 : key.length % 256 > KEYBYTES
    · simp only [if_pos h2]; exact ⟨trivial, fun st h => by cases h⟩
    simp only [if_neg h2]
    by_cases h3 : key.length > BLOCKBYTES
    · simp only [if_pos h3]; exact ⟨trivial, fun st h => by cases h⟩
    simp only [if_neg h3]
    obtain ⟨e, s⟩ := updateC_congr H _ (initParam_size _) (key ++ zeros (BLOCKBYTES - key.length))
    rw [e]
    refine ⟨rfl, fun st h => ?_⟩
    injection h with h
    rw [← h]; exact s

/-- **the whole hash only depends on the compression function through 8-word chaining values** -/
theorem hashChunksC_congr (outLen : Nat) (key salt personal : Option Bytes) (cs : List Bytes) :
    hashChunksC C₁ outLen key salt personal cs = hashChunksC C₂ outLen key salt personal cs := by
  unfold hashChunksC
  by_cases h1 : outLen > OUTBYTES
  · simp only [if_pos h1]
  simp only [if_neg h1]
  obtain ⟨e, s⟩ := initC_congr H (outLen % 256) key salt personal
  rw [e]
  cases hi : initC C₂ (outLen % 256) key salt personal with
  | err => rfl
  | panic => rfl
  | ok st =>
    simp only []
    obtain ⟨e2, s2⟩ := foldl_updateC_congr H cs st (s st hi)
    rw [e2]
    exact finalizeC_congr H _ s2 outLen

end congr
/-- the two backends agree on everything the buffering code feeds them -/
theorem simd_agree : AgreeOn8 Model.Blake2bSimd.compress Model.Blake2b.compress := by
  intro h t0 t1 f0 f1 blk hh
  have e := simd_compress_eq_of_size h hh t0 t1 f0 f1 blk
  exact ⟨e, by rw [← e]; rfl⟩

/-- **C18 (whole hash)**: `init`, any sequence of `update`s, `finalize` give the same result —
digest, `Err` or panic — with the SIMD `compress` as with the software `compress`, for every
output length, key, salt, personalisation and chunk list -/
theorem simd_hashChunks_eq (outLen : Nat) (key salt personal : Option Bytes) (cs : List Bytes) :
    hashChunksC Model.Blake2bSimd.compress outLen key salt personal cs =
      hashChunksC Model.Blake2b.compress outLen key salt personal cs :=
  hashChunksC_congr simd_agree outLen key salt personal cs

end buffering

end DryocVerif.Proofs.Blake2bSimd
