import DryocVerif.Model.TypeState
import DryocVerif.Proofs.ProtectedProbe
/-
Bridge between the type-state table of C20 (`Model/TypeState.lean`: which operations the safe API
offers in which state) and the kernel model of C14 (`Model/Protected.lean`: what a read / write at a
byte of a region does): the table forbids exactly the accesses that would fault.
-/
namespace DryocVerif.Proofs.TypeStateBridge
open DryocVerif DryocVerif.Model DryocVerif.Model.Protected DryocVerif.Proofs.Protected

/-- protect-mode marker of the table ↦ protect mode of the kernel model -/
def convPM : TypeState.PM → Protected.PM
  | .rw => .rw | .ro => .ro | .na => .na

/-- lock-mode marker of the table ↦ lock mode of the kernel model -/
def convLM : TypeState.LM → Protected.LM
  | .locked => .locked | .unlocked => .unlocked

theorem convPM_bij : (∀ a b, convPM a = convPM b → a = b) ∧ ∀ q, ∃ a, convPM a = q :=
  ⟨by intro a b; cases a <;> cases b <;> simp [convPM],
   by intro q; cases q <;> first | exact ⟨.ro, rfl⟩ | exact ⟨.rw, rfl⟩ | exact ⟨.na, rfl⟩⟩

theorem convLM_bij : (∀ a b, convLM a = convLM b → a = b) ∧ ∀ q, ∃ a, convLM a = q :=
  ⟨by intro a b; cases a <;> cases b <;> simp [convLM],
   by intro q; cases q <;> first | exact ⟨.unlocked, rfl⟩ | exact ⟨.locked, rfl⟩⟩

/-- the kernel-model type state a table state stands for -/
def stOf (pm : TypeState.PM) (lm : TypeState.LM) : St := .prot (convLM lm) (convPM pm)

theorem stPerm_stOf (pm : TypeState.PM) (lm : TypeState.LM) : stPerm (stOf pm lm) = (convPM pm).perm := rfl

theorem allowed_read_iff (pm : TypeState.PM) :
    TypeState.allowed pm .read = true ↔ (convPM pm).perm ≠ .none := by
  cases pm <;> simp [TypeState.allowed, convPM, PM.perm]

theorem allowed_write_iff (pm : TypeState.PM) :
    TypeState.allowed pm .write = true ↔ (convPM pm).perm = .rw := by
  cases pm <;> simp [TypeState.allowed, convPM, PM.perm]

/-- (hypothesis `hz` added with the rows `asRef` … `zeroize`: the `zeroize` row is offered in every
state although it writes — `Proofs/TypeStateTable.lean`, `zeroize_not_sound`) -/
theorem permits_allowed (pm : TypeState.PM) (lm : TypeState.LM) (ct : TypeState.Cont) (op : TypeState.Op)
    (hz : op ≠ .zeroize)
    (h : TypeState.permits pm lm ct op = true) : TypeState.allowed pm (TypeState.access op) = true := by
  cases op <;> cases pm <;> cases lm <;> cases ct <;>
    simp_all [TypeState.permits, TypeState.allowed, TypeState.access]

/-! ### probes on a live region in a table state -/

section probes
variable {c : Cfg} (hP : 0 < c.P) {s : State} (h : Inv c s) {i : Nat} {sl : Slot}
  (hi : s.slots[i]? = some sl) (hg : sl.gone = false) {pm : TypeState.PM} {lm : TypeState.LM}
  (hst : sl.o.st = stOf pm lm) {off : Nat} (hoff : off < sl.o.v.len)
include hP h hi hg hst hoff

/-- a read at any byte of the region succeeds iff the table allows read accesses in that state -/
theorem rprobe_ok_iff : (opRProbe c s i off).1 = .ok ↔ TypeState.allowed pm .read = true := by
  rw [opRProbe_eq hP h hi hg hoff, hst, stPerm_stOf, allowed_read_iff]
  by_cases hp : (convPM pm).perm = .none <;> simp [hp]

theorem rprobe_segv_iff : (opRProbe c s i off).1 = .segv ↔ TypeState.allowed pm .read = false := by
  rw [opRProbe_eq hP h hi hg hoff, hst, stPerm_stOf, ← Bool.not_eq_true, allowed_read_iff]
  by_cases hp : (convPM pm).perm = .none <;> simp [hp]

/-- a write at any byte of the region succeeds iff the table allows write accesses in that state -/
theorem wprobe_ok_iff : (opWProbe c s i off).1 = .ok ↔ TypeState.allowed pm .write = true := by
  rw [opWProbe_eq hP h hi hg hoff, hst, stPerm_stOf, allowed_write_iff]
  by_cases hp : (convPM pm).perm = .rw <;> simp [hp]

theorem wprobe_segv_iff : (opWProbe c s i off).1 = .segv ↔ TypeState.allowed pm .write = false := by
  rw [opWProbe_eq hP h hi hg hoff, hst, stPerm_stOf, ← Bool.not_eq_true, allowed_write_iff]
  by_cases hp : (convPM pm).perm = .rw <;> simp [hp]

end probes

/-! ### programs: one table operation ↦ one harness token on slot `i` -/

/-- the token that stands for a table operation: the five transitions are the harness tokens of the
same name; every other operation is represented by THE ACCESS IT PERFORMS (a read or a write probe
at byte `off` of the region); `useAfter` has no counterpart (it does not compile); `zeroize` has no
counterpart either: the kernel model has no token for `Zeroize::zeroize(&mut self)` on a protected
region (it is NOT a plain write: it first makes the pages writable), so a `zeroize` step of a program
is absent from the token list — see `Properties/C20.lean`, `zeroize_breaks_marker` -/
def tokOf (i off : Nat) : TypeState.Op → Option Tok
  | .readView | .arrayView | .index | .clone | .asRef | .cloneFrom | .serialize => some ⟨.rprobe off, i⟩
  | .mutView | .resize | .asMut | .indexMut | .copyFrom | .mutArrayView => some ⟨.wprobe off, i⟩
  | .lock => some ⟨.lock, i⟩
  | .unlock => some ⟨.unlock, i⟩
  | .ro => some ⟨.ro, i⟩
  | .rw => some ⟨.rw, i⟩
  | .na => some ⟨.na, i⟩
  | .useAfter => none
  | .zeroize => none

/-- slot `i` of `s` is either consumed, or a live region in table state `(pm, lm)` holding more than
`off` bytes; and `s` satisfies the invariant of C14 -/
def SlotIn (c : Cfg) (s : State) (i off : Nat) (pm : TypeState.PM) (lm : TypeState.LM) : Prop :=
  Inv c s ∧ ∃ sl, s.slots[i]? = some sl ∧ (sl.gone = true ∨ (sl.o.st = stOf pm lm ∧ off < sl.o.v.len))

theorem withLive_gone {s : State} {i : Nat} {sl : Slot} (hi : s.slots[i]? = some sl) (hg : sl.gone = true)
    (g : Res) (f : Slot → Res × State) : withLive s i g f = (g, s) := by
  unfold withLive withSlot
  simp [hi, hg]

theorem lt_of_getElem? {s : State} {i : Nat} {sl : Slot} (hi : s.slots[i]? = some sl) : i < s.slots.length := by
  rcases Nat.lt_or_ge i s.slots.length with h1 | h1
  · exact h1
  · rw [List.getElem?_eq_none h1] at hi; simp at hi

theorem setSlot_get {s : State} {i : Nat} {sl : Slot} (hi : s.slots[i]? = some sl) (m : Mach) (sl' : Slot) :
    (setSlot s m i sl').slots[i]? = some sl' := by
  simp [setSlot, lt_of_getElem? hi]

/-- every token of `tokOf` on a consumed slot answers `n/a` and changes nothing -/
theorem tok_gone {c : Cfg} {s : State} {i off : Nat} {sl : Slot} (hi : s.slots[i]? = some sl)
    (hg : sl.gone = true) (op : TypeState.Op) (t : Tok) (ht : tokOf i off op = some t) :
    step c s t = (.na, resetRel s) := by
  have hi' : (resetRel s).slots[i]? = some sl := hi
  cases op <;> simp only [tokOf, Option.some.injEq, reduceCtorEq] at ht <;> subst ht
  all_goals first
    | exact withLive_gone hi' hg _ _

/-- a permitted transition on a live region in table state `(pm, lm)`: the answer is `ok` and the
slot is in the table's successor state with the same container, or (`lock` only) `err` and the
slot is consumed -/
theorem trans_live {c : Cfg} {s : State} {i : Nat} {sl : Slot} (hi : s.slots[i]? = some sl)
    (hg : sl.gone = false) {pm : TypeState.PM} {lm : TypeState.LM} (ct : TypeState.Cont)
    (hst : sl.o.st = stOf pm lm) (op : TypeState.Op) (k : Protected.Op)
    (hk : (op = .lock ∧ k = .lock) ∨ (op = .unlock ∧ k = .unlock) ∨ (op = .ro ∧ k = .ro) ∨
      (op = .rw ∧ k = .rw) ∨ (op = .na ∧ k = .na))
    (hperm : TypeState.permits pm lm ct op = true) :
    ∃ m' rc', step c s ⟨k, i⟩ = (.ok, setSlot (resetRel s) m' i
        { sl with o := ⟨stOf (TypeState.next pm lm op).1 (TypeState.next pm lm op).2, sl.o.v, rc'⟩ }) ∨
      (op = .lock ∧ step c s ⟨k, i⟩ = (.err, setSlot (resetRel s) m' i { sl with gone := true })) := by
  have hi' : (resetRel s).slots[i]? = some sl := hi
  rcases hk with ⟨rfl, rfl⟩ | ⟨rfl, rfl⟩ | ⟨rfl, rfl⟩ | ⟨rfl, rfl⟩ | ⟨rfl, rfl⟩
  · -- lock
    have hl : lm = .unlocked := by cases lm <;> simp_all [TypeState.permits]
    subst hl
    have hstep : step c s ⟨.lock, i⟩ = opLock c (resetRel s) i := rfl
    rw [hstep]
    unfold opLock
    rw [withLive_eq hi' hg, hst]
    simp only [stOf, convLM]
    unfold doLock
    refine ⟨(lockV c (resetRel s).m sl.o.v sl.o.rcd).1, (.locked, sl.o.rcd.2), ?_⟩
    by_cases hr : (lockV c (resetRel s).m sl.o.v sl.o.rcd).2 = true
    · left; simp only [hr, if_true]; rfl
    · right; simp only [hr]; exact ⟨trivial, rfl⟩
  · -- unlock
    have hstep : step c s ⟨.unlock, i⟩ = opUnlock c (resetRel s) i := rfl
    rw [hstep]
    unfold opUnlock
    rw [withLive_eq hi' hg, hst]
    exact ⟨_, _, Or.inl rfl⟩
  · -- ro
    have hstep : step c s ⟨.ro, i⟩ = opProtect c (resetRel s) i .ro := rfl
    rw [hstep]
    unfold opProtect
    rw [withLive_eq hi' hg, hst]
    exact ⟨_, _, Or.inl rfl⟩
  · -- rw
    have hstep : step c s ⟨.rw, i⟩ = opProtect c (resetRel s) i .rw := rfl
    rw [hstep]
    unfold opProtect
    rw [withLive_eq hi' hg, hst]
    exact ⟨_, _, Or.inl rfl⟩
  · -- na
    have hl : lm = .unlocked := by cases lm <;> simp_all [TypeState.permits]
    subst hl
    have hstep : step c s ⟨.na, i⟩ = opNa c (resetRel s) i := rfl
    rw [hstep]
    unfold opNa
    rw [withLive_eq hi' hg, hst]
    exact ⟨_, _, Or.inl rfl⟩

/-- a transition the table does NOT offer answers `n/a` in the model as well (there is no such
method on that type): `lock` and `na` on a locked region -/
theorem trans_forbidden_na {c : Cfg} {s : State} {i : Nat} {sl : Slot} (hi : s.slots[i]? = some sl)
    (hg : sl.gone = false) {pm : TypeState.PM} {lm : TypeState.LM} (ct : TypeState.Cont)
    (hst : sl.o.st = stOf pm lm) (op : TypeState.Op) (k : Protected.Op)
    (hk : (op = .lock ∧ k = .lock) ∨ (op = .unlock ∧ k = .unlock) ∨ (op = .ro ∧ k = .ro) ∨
      (op = .rw ∧ k = .rw) ∨ (op = .na ∧ k = .na))
    (hperm : TypeState.permits pm lm ct op = false) : step c s ⟨k, i⟩ = (.na, resetRel s) := by
  have hi' : (resetRel s).slots[i]? = some sl := hi
  rcases hk with ⟨rfl, rfl⟩ | ⟨rfl, rfl⟩ | ⟨rfl, rfl⟩ | ⟨rfl, rfl⟩ | ⟨rfl, rfl⟩
  · have hl : lm = .locked := by cases lm <;> simp_all [TypeState.permits]
    subst hl
    have hstep : step c s ⟨.lock, i⟩ = opLock c (resetRel s) i := rfl
    rw [hstep]; unfold opLock
    rw [withLive_eq hi' hg, hst]; rfl
  · simp [TypeState.permits] at hperm
  · simp [TypeState.permits] at hperm
  · simp [TypeState.permits] at hperm
  · have hl : lm = .locked := by cases lm <;> simp_all [TypeState.permits]
    subst hl
    have hstep : step c s ⟨.na, i⟩ = opNa c (resetRel s) i := rfl
    rw [hstep]; unfold opNa
    rw [withLive_eq hi' hg, hst]; rfl

theorem rprobe_step {c : Cfg} (hP : 0 < c.P) {s : State} (h : Inv c s) {i : Nat} {sl : Slot}
    (hi : s.slots[i]? = some sl) (hg : sl.gone = false) {pm : TypeState.PM} {lm : TypeState.LM}
    (hst : sl.o.st = stOf pm lm) {off : Nat} (hoff : off < sl.o.v.len)
    (hal : TypeState.allowed pm .read = true) : step c s ⟨.rprobe off, i⟩ = (.ok, resetRel s) := by
  have hp := (allowed_read_iff pm).mp hal
  rw [step_rprobe, opRProbe_eq hP (s := resetRel s) h.resetRel hi hg hoff, hst, stPerm_stOf]
  simp [hp]

theorem wprobe_step {c : Cfg} (hP : 0 < c.P) {s : State} (h : Inv c s) {i : Nat} {sl : Slot}
    (hi : s.slots[i]? = some sl) (hg : sl.gone = false) {pm : TypeState.PM} {lm : TypeState.LM}
    (hst : sl.o.st = stOf pm lm) {off : Nat} (hoff : off < sl.o.v.len)
    (hal : TypeState.allowed pm .write = true) : step c s ⟨.wprobe off, i⟩ = (.ok, resetRel s) := by
  have hp := (allowed_write_iff pm).mp hal
  rw [step_wprobe, opWProbe_eq hP (s := resetRel s) h.resetRel hi hg hoff, hst, stPerm_stOf]
  simp [hp]

/-- **one step of a well-typed program**: if the table offers `op` in state `(pm, lm)`, the token
standing for `op` does not fault, and afterwards slot `i` is in the table's successor state (or
consumed by a failed `lock`), with the invariant re-established -/
theorem step_no_segv {c : Cfg} (hP : 0 < c.P) {s : State} {i off : Nat} {pm : TypeState.PM}
    {lm : TypeState.LM} (ct : TypeState.Cont) (hin : SlotIn c s i off pm lm) (op : TypeState.Op)
    (hperm : TypeState.permits pm lm ct op = true) (t : Tok) (ht : tokOf i off op = some t) :
    (step c s t).1 ≠ .segv ∧
    SlotIn c (step c s t).2 i off (TypeState.next pm lm op).1 (TypeState.next pm lm op).2 := by
  obtain ⟨hinv, sl, hi, hcase⟩ := hin
  have hnz : ¬ ZeroizesProtected s t := by
    intro hh
    have h1 := hh.1
    cases op <;> simp only [tokOf, Option.some.injEq, reduceCtorEq] at ht <;> subst ht <;> simp at h1
  have hinv' := inv_step hP hinv t hnz
  by_cases hg : sl.gone = true
  · rw [tok_gone hi hg op t ht] at hinv' ⊢
    exact ⟨by simp, hinv', sl, hi, Or.inl hg⟩
  have hg' : sl.gone = false := by simpa using hg
  obtain ⟨hst, hoff⟩ := hcase.resolve_left hg
  have hz : op ≠ .zeroize := by rintro rfl; simp [tokOf] at ht
  have hal := permits_allowed pm lm ct op hz hperm
  have hi' : (resetRel s).slots[i]? = some sl := hi
  have rd : TypeState.access op = .read → TypeState.next pm lm op = (pm, lm) → t = ⟨.rprobe off, i⟩ →
      (step c s t).1 ≠ .segv ∧
      SlotIn c (step c s t).2 i off (TypeState.next pm lm op).1 (TypeState.next pm lm op).2 := by
    intro ha hn htt
    rw [ha] at hal
    rw [htt, rprobe_step hP hinv hi hg' hst hoff hal, hn]
    exact ⟨by simp, hinv.resetRel, sl, hi, Or.inr ⟨hst, hoff⟩⟩
  have wr : TypeState.access op = .write → TypeState.next pm lm op = (pm, lm) → t = ⟨.wprobe off, i⟩ →
      (step c s t).1 ≠ .segv ∧
      SlotIn c (step c s t).2 i off (TypeState.next pm lm op).1 (TypeState.next pm lm op).2 := by
    intro ha hn htt
    rw [ha] at hal
    rw [htt, wprobe_step hP hinv hi hg' hst hoff hal, hn]
    exact ⟨by simp, hinv.resetRel, sl, hi, Or.inr ⟨hst, hoff⟩⟩
  have tr : ∀ k : Protected.Op, ((op = .lock ∧ k = .lock) ∨ (op = .unlock ∧ k = .unlock) ∨ (op = .ro ∧ k = .ro) ∨
      (op = .rw ∧ k = .rw) ∨ (op = .na ∧ k = .na)) → t = ⟨k, i⟩ →
      (step c s t).1 ≠ .segv ∧
      SlotIn c (step c s t).2 i off (TypeState.next pm lm op).1 (TypeState.next pm lm op).2 := by
    intro k hk htt
    subst htt
    obtain ⟨m', rc', h1 | ⟨_, h1⟩⟩ := trans_live (c := c) hi hg' ct hst op k hk hperm
    · rw [h1] at hinv' ⊢
      exact ⟨by simp, hinv', _, setSlot_get hi' _ _, Or.inr ⟨rfl, hoff⟩⟩
    · rw [h1] at hinv' ⊢
      exact ⟨by simp, hinv', _, setSlot_get hi' _ _, Or.inl rfl⟩
  cases op <;> simp only [tokOf, Option.some.injEq, reduceCtorEq] at ht
  case readView => exact rd rfl rfl ht.symm
  case arrayView => exact rd rfl rfl ht.symm
  case index => exact rd rfl rfl ht.symm
  case clone => exact rd rfl rfl ht.symm
  case mutView => exact wr rfl rfl ht.symm
  case resize => exact wr rfl rfl ht.symm
  case lock => exact tr .lock (by simp) ht.symm
  case unlock => exact tr .unlock (by simp) ht.symm
  case ro => exact tr .ro (by simp) ht.symm
  case rw => exact tr .rw (by simp) ht.symm
  case na => exact tr .na (by simp) ht.symm
  case asRef => exact rd rfl rfl ht.symm
  case cloneFrom => exact rd rfl rfl ht.symm
  case serialize => exact rd rfl rfl ht.symm
  case asMut => exact wr rfl rfl ht.symm
  case indexMut => exact wr rfl rfl ht.symm
  case copyFrom => exact wr rfl rfl ht.symm
  case mutArrayView => exact wr rfl rfl ht.symm

end DryocVerif.Proofs.TypeStateBridge
