import DryocVerif.Proofs.ProtectedTouch
/-
WHAT THE MODEL CANNOT REPRESENT: a failing `munlock(2)` / `mprotect(2)`.

`dryocMunlock` and `dryocMprotect` return no status, so no history of the model contains such a failure.  The Rust
does have code for it: `dryoc_munlock(..)?` / `dryoc_mprotect_*(..)?` inside the transitions, and
`.map_err(eprintln).ok()` (print and IGNORE) in `Zeroize for Protected` (= `Drop`) and in the allocator.  Instead of
adding oracles for these calls everywhere, the CONSEQUENCES of the three ignored failures are stated here as
conditional counter-models: a variant of the one function concerned, with the failing call skipped, and a theorem
about what then happens.

 (i)   `Protected::zeroize` ignores a failed `mprotect_readwrite` and then writes:
       `protZeroizeMprotectFails`, `zeroize_mprotect_fails_faults` — SIGSEGV inside `Drop`;
 (ii)  `munlock()?` fails: the transition returns `Err` and drops `self` with the record still `Locked`; `Drop`
       retries `munlock`, it fails again, the error is printed and ignored: `opUnlockMunlockFails`,
       `munlock_fails_leaks` — the pages go back to the allocator locked, `lockedPages` stays positive after the
       last drop;
 (iii) a guard-page `mprotect_noaccess` in `allocate` fails and is swallowed: `allocGuardsFail`,
       `alloc_guards_fail_no_guards` — a region without guard pages, behind a handle of the same type.
-/
namespace DryocVerif.Proofs.Protected
open DryocVerif DryocVerif.Model.Protected

/-! ### (i) `mprotect_readwrite` fails inside `Zeroize for Protected` -/

/-- COUNTER-MODEL (not the model): the body of `Zeroize for Protected` when its `dryoc_mprotect_readwrite` FAILS —
the Rust prints the error (`.map_err(eprintln).ok()`) and goes on: the mprotect step is skipped, the wipe and the
`munlock` run as usual -/
def protZeroizeMprotectFails (c : Cfg) (m : Mach) (v : PVec) (lm : LM) : Mach × PVec :=
  let v1 := zeroizeV v
  let m2 := if lm = .locked then dryocMunlock c m (ptr c v1) v1.len else m
  (m2, v1)

/-- its wipe `d.a.zeroize()` runs on the pages AS THEY ARE -/
def protZeroizeMprotectFailsOk (c : Cfg) (m : Mach) (v : PVec) : Bool := writeOk c m v v.len

/-- it is the real body with the mprotect step removed: on a region recorded `ReadWrite` (no mprotect to fail) the
two coincide -/
theorem protZeroizeMprotectFails_rw (c : Cfg) (m : Mach) (v : PVec) (lm : LM) :
    protZeroizeMprotectFails c m v lm = protZeroize c m v lm .rw ∧
    protZeroizeMprotectFailsOk c m v = protZeroizeOk c m v .rw := ⟨rfl, rfl⟩

/-- **(i)** on a live, non-empty read-only / no-access region of a state satisfying `Inv`, the wipe of a `zeroize`
/ `drop` whose `mprotect_readwrite` failed touches a NON-WRITABLE page: SIGSEGV in the real process (the "abort"
C19's text mentions) — whereas the real body never faults (`ok_protZeroize`, `touches_step`) -/
theorem zeroize_mprotect_fails_faults {c : Cfg} (hP : 0 < c.P) {s : State} (h : Inv c s) {i : Nat} {sl : Slot}
    (hi : s.slots[i]? = some sl) (hg : sl.gone = false) {lm : LM} {pm : PM} (hst : sl.o.st = .prot lm pm)
    (hpm : pm ≠ .rw) (hl : 0 < sl.o.v.len) :
    protZeroizeMprotectFailsOk c s.m sl.o.v = false ∧ protZeroizeOk c s.m sl.o.v sl.o.rcd.2 = true := by
  refine ⟨write_nonwritable_faults hP h hi hg hl ?_, ?_⟩
  · rw [hst]; cases pm <;> simp_all [stPerm, PM.perm]
  · obtain ⟨l1, l2, hs, _⟩ := slot_split hi
    have g := good_head hs hg h.k
    simp only [blkOf, hst, stPerm] at g
    refine ok_protZeroize hP g _ ?_
    rw [h.rcd sl (List.mem_of_getElem? hi) hg _ _ hst]
    intro hh; exact absurd hh hpm

/-! ### (ii) `munlock` never succeeds -/

/-- COUNTER-MODEL: `Drop for Protected` when `dryoc_munlock` FAILS (error printed and ignored): the body with the
`munlock` step skipped; `pm` is the recorded protect mode -/
def protDropMunlockFails (c : Cfg) (m : Mach) (v : PVec) (pm : PM) : Mach :=
  plainDrop c (protAtWipe c m v pm) (zeroizeV v)

/-- it is the drop of a region recorded `Unlocked` (which issues no `munlock` at all) -/
theorem protDropMunlockFails_eq (c : Cfg) (m : Mach) (v : PVec) (pm : PM) :
    protDropMunlockFails c m v pm = protDrop c m v .unlocked pm := rfl

/-- COUNTER-MODEL of the token `unlock` when `munlock(2)` never succeeds: `dryoc_munlock(old.a.as_slice())?` returns
`Err` out of `swap_some_or_err` BEFORE `old.lm = Unlocked` and before the swap, so `self` — record still `Locked` — is
dropped at the end of `munlock(self)`; its `Drop` calls `dryoc_munlock` again, which fails again, and only prints.
The caller gets `Err`; the handle is gone. -/
def opUnlockMunlockFails (c : Cfg) (s : State) (i : Nat) : Res × State :=
  withLive s i .na fun sl =>
    match sl.o.st with
    | .plain => (.na, s)
    | .prot _ _ => (.err, setSlot s (protDropMunlockFails c s.m sl.o.v sl.o.rcd.2) i { sl with gone := true })

theorem protDrop_locked_outside {c : Cfg} (hP : 0 < c.P) (m : Mach) (v : PVec) (lm : LM) (pm : PM)
    (hl : v.len ≤ v.cap) {p : Nat} (hp : ¬ inBlock c.P v p) : (protDrop c m v lm pm).k.locked p = m.k.locked p := by
  unfold protDrop
  rw [plainDrop_locked]
  unfold protZeroize
  simp only []
  split
  · unfold dryocMunlock
    split
    · exact congrFun (protAtWipe_locked c m v pm) p
    · show (munlockK c.P _ (ptr c (zeroizeV v)) (zeroizeV v).len).locked p = _
      have e1 : ptr c (zeroizeV v) = (v.base + 1) * c.P := rfl
      have e2 : (zeroizeV v).len = v.len := rfl
      rw [e1, e2, munlockK_locked hP, if_neg (fun hh => hp (data_in_block hP hl hh.1 hh.2))]
      exact congrFun (protAtWipe_locked c m v pm) p
  · exact congrFun (protAtWipe_locked c m v pm) p

theorem objDrop_locked_outside {c : Cfg} (hP : 0 < c.P) (m : Mach) (o : Obj) (hl : o.v.len ≤ o.v.cap) {p : Nat}
    (hp : ¬ inBlock c.P o.v p) : (objDrop c m o).k.locked p = m.k.locked p := by
  unfold objDrop
  split
  · exact congrFun (plainDrop_locked c m _) p
  · exact protDrop_locked_outside hP m _ _ _ hl hp

/-- the teardown leaves the lock flag of every page outside the live blocks alone -/
theorem dropAllM_locked_outside {c : Cfg} (hP : 0 < c.P) (slots : List Slot) {m : Mach}
    (g : GoodL c.P m.k (blks slots)) {p : Nat} (hp : ∀ b ∈ blks slots, ¬ inBlock c.P b.v p) :
    (dropAllM c m slots).k.locked p = m.k.locked p := by
  induction slots generalizing m with
  | nil => rfl
  | cons sl rest ih =>
    unfold dropAllM
    by_cases hg : sl.gone = true
    · simp only [hg, if_true]
      rw [blks_cons_gone hg] at g hp
      exact ih g hp
    · have hg' : sl.gone = false := by simpa using hg
      simp only [hg', Bool.false_eq_true, if_false]
      rw [blks_cons_live hg'] at g hp
      rw [ih (good_objDrop hP (o := sl.o) g) (fun b hb => hp b (by simp [hb]))]
      exact objDrop_locked_outside hP m sl.o (g.ok _ List.mem_cons_self).lenle (hp _ List.mem_cons_self)

theorem lockedPages_pos {k : Kernel} {p : Nat} (hp : p < k.brk) (hl : k.locked p = true) : 0 < lockedPages k := by
  unfold lockedPages
  exact List.countP_pos_iff.mpr ⟨p, List.mem_range.mpr hp, hl⟩

/-- **(ii)** if `munlock(2)` fails in the `munlock` transition of a live, non-empty `Locked` region (state
satisfying `Inv`): the token answers `err`, the region is consumed and its block released, every data page of it
stays LOCKED — also after ALL remaining handles are dropped: `lockedPages` is positive after the last drop (the
pages went back to the allocator locked).  With the real `unlock` / `drop` nothing stays locked
(`C14.drop_restores`). -/
theorem munlock_fails_leaks {c : Cfg} (hP : 0 < c.P) {s : State} (h : Inv c s) {i : Nat} {sl : Slot}
    (hi : s.slots[i]? = some sl) (hg : sl.gone = false) {pm : PM} (hst : sl.o.st = .prot .locked pm)
    (hl : 0 < sl.o.v.len) :
    (opUnlockMunlockFails c s i).1 = .err ∧
    (opUnlockMunlockFails c s i).2.slots[i]? = some { sl with gone := true } ∧
    (∀ p, sl.o.v.base + 1 ≤ p → p < sl.o.v.base + 1 + pagesOf c.P sl.o.v.len →
      (opUnlockMunlockFails c s i).2.m.k.locked p = true ∧
      (finish c (opUnlockMunlockFails c s i).2).m.k.locked p = true) ∧
    0 < lockedPages (finish c (opUnlockMunlockFails c s i).2).m.k := by
  obtain ⟨l1, l2, hs, hlen⟩ := slot_split hi
  have g := good_head hs hg h.k
  have hb := g.ok _ List.mem_cons_self
  have hstep : opUnlockMunlockFails c s i =
      (.err, setSlot s (protDropMunlockFails c s.m sl.o.v sl.o.rcd.2) i { sl with gone := true }) := by
    unfold opUnlockMunlockFails
    rw [withLive_eq hi hg, hst]
  have hk : InvK c (setSlot s (protDropMunlockFails c s.m sl.o.v sl.o.rcd.2) i { sl with gone := true }) :=
    inv_set_gone hs hlen rfl (good_protDrop hP g .unlocked _)
  have hdisj := (List.pairwise_cons.mp g.disj).1
  have hslots : blks (setSlot s (protDropMunlockFails c s.m sl.o.v sl.o.rcd.2) i { sl with gone := true }).slots =
      blks l1 ++ blks l2 := by
    simp only [setSlot, hs, ← hlen, set_split]
    exact blks_mid_gone rfl l1 l2
  have key : ∀ p, sl.o.v.base + 1 ≤ p → p < sl.o.v.base + 1 + pagesOf c.P sl.o.v.len →
      (setSlot s (protDropMunlockFails c s.m sl.o.v sl.o.rcd.2) i { sl with gone := true }).m.k.locked p = true ∧
      (finish c (setSlot s (protDropMunlockFails c s.m sl.o.v sl.o.rcd.2) i { sl with gone := true })).m.k.locked p
        = true := by
    intro p h1 h2
    have hd := hb.data p h1 h2
    simp only [blkOf, hst, stLocked] at hd
    have hin : inBlock c.P sl.o.v p := data_in_block hP hb.lenle h1 h2
    have e1 : (setSlot s (protDropMunlockFails c s.m sl.o.v sl.o.rcd.2) i { sl with gone := true }).m.k.locked p
        = true := by
      simp only [setSlot, protDropMunlockFails_eq]
      rw [protDrop_unlocked_locked]; exact hd.2
    refine ⟨e1, ?_⟩
    unfold finish
    simp only []
    rw [dropAllM_locked_outside hP _ (m := { (setSlot s _ i _).m with rel := [] }) hk]
    · exact e1
    · intro b hbm
      rw [hslots] at hbm
      exact fun hbp => hdisj b hbm p ⟨hin, hbp⟩
  rw [hstep]
  refine ⟨rfl, getElem?_setSlot hi _ _, key, ?_⟩
  -- a locked page below the bump pointer
  have hpos := pagesOf_pos hP hl
  obtain ⟨_, hf⟩ := key (sl.o.v.base + 1) (Nat.le_refl _) (by omega)
  have gfin : GoodL c.P (finish c (setSlot s (protDropMunlockFails c s.m sl.o.v sl.o.rcd.2) i
      { sl with gone := true })).m.k [] := good_dropAll hP _ (m := { (setSlot s _ i _).m with rel := [] }) hk
  refine lockedPages_pos ?_ hf
  rcases Nat.lt_or_ge (sl.o.v.base + 1) (finish c (setSlot s (protDropMunlockFails c s.m sl.o.v sl.o.rcd.2) i
      { sl with gone := true })).m.k.brk with h1 | h1
  · exact h1
  · have := (gfin.fresh _ h1).2
    rw [hf] at this; exact Bool.noConfusion this

/-! ### (iii) a guard-page `mprotect` in `allocate` fails -/

/-- COUNTER-MODEL: `allocate` when both `dryoc_mprotect_noaccess` calls on the guard pages FAIL — the allocator
prints the error and swallows it (`.map_err(eprintln).ok()`), and returns the block all the same -/
def allocGuardsFail (c : Cfg) (m : Mach) (size : Nat) : Mach × Nat :=
  let P := c.P
  let base := m.k.brk
  let a := base * P
  let k0 : Kernel := { m.k with brk := base + (pageRound P size + 2 * P) / P, al := m.k.al ++ [(base, size)] }
  let k3 := mprotect P k0 (a + P) size .rw
  ({ m with k := k3 }, base)

/-- **(iii)** the caller cannot tell: same return value, same bump pointer, same data pages — but the page before
the data and the page after the allocation are plain read-write memory (on fresh memory: `Inv.fresh`), so an
out-of-bounds read or write next to the region does NOT fault; compare `C14.alloc_guards`.  Nothing in the type
`Vec<u8, PageAlignedAllocator>` / `Protected<…>` of the handle records the difference. -/
theorem alloc_guards_fail_no_guards (c : Cfg) (hP : 0 < c.P) (m : Mach) (size : Nat)
    (hfresh : ∀ p, m.k.brk ≤ p → m.k.perm p = .rw) :
    (allocGuardsFail c m size).2 = (alloc c m size).2 ∧
    (allocGuardsFail c m size).1.k.brk = (alloc c m size).1.k.brk ∧
    (allocGuardsFail c m size).1.k.perm m.k.brk = .rw ∧
    (allocGuardsFail c m size).1.k.perm (m.k.brk + size / c.P + 2) = .rw ∧
    (alloc c m size).1.k.perm m.k.brk = .none ∧
    (alloc c m size).1.k.perm (m.k.brk + size / c.P + 2) = .none := by
  have hple := pagesOf_le_div hP size
  refine ⟨rfl, by simp [allocGuardsFail, alloc], ?_, ?_, ?_, ?_⟩
  · simp only [allocGuardsFail]
    rw [addr_succ, mprotect_perm hP, if_neg (by omega)]
    exact hfresh _ (Nat.le_refl _)
  · simp only [allocGuardsFail]
    rw [addr_succ, mprotect_perm hP, if_neg (by omega)]
    exact hfresh _ (by omega)
  · rw [alloc_perm c hP, if_neg (by omega), if_neg (by omega), if_pos rfl]
  · rw [alloc_perm c hP, if_neg (by omega), if_pos rfl]

end DryocVerif.Proofs.Protected
