import DryocVerif.Model.ObjectView
import DryocVerif.Proofs.OnetimeAuth
import DryocVerif.Proofs.Core
import DryocVerif.Proofs.Sign
/-!
Lemmas about `ByteArray<N>::as_array` on variable-length containers (`Model/ArrayView.lean`) and the object-API
entry points that go through it (`Model/ObjectView.lean`): exact panic / accept conditions, and agreement with
the existing (fixed-length) models when the lengths are exact.  Core only.
-/
namespace DryocVerif.Proofs.ObjectViewExtra
open DryocVerif DryocVerif.Model.ArrayView DryocVerif.Model.ObjectView

/-! ### `as_array` -/

theorem asArray_panic_iff (n : Nat) (x : Bytes) : asArray n x = .panic ↔ x.length < n := by
  unfold asArray; split <;> simp_all

theorem asArray_ok_iff (n : Nat) (x a : Bytes) : asArray n x = .ok a ↔ n ≤ x.length ∧ a = x.take n := by
  unfold asArray
  split
  · constructor
    · intro h; cases h
    · intro h; omega
  · constructor
    · intro h; injection h with h; exact ⟨by omega, h.symm⟩
    · intro h; rw [h.2]

theorem asArray_ne_err (n : Nat) (x : Bytes) : asArray n x ≠ .err := by
  unfold asArray; split <;> simp

/-- containers whose type carries the length: the view is the identity -/
theorem asArray_exact (n : Nat) (x : Bytes) (h : x.length = n) : asArray n x = .ok x := by
  unfold asArray
  rw [if_neg (by omega), List.take_of_length_le (by omega)]

theorem asArray_of_le (n : Nat) (x : Bytes) (h : n ≤ x.length) : asArray n x = .ok (x.take n) := by
  unfold asArray; rw [if_neg (by omega)]

theorem asArray_of_lt (n : Nat) (x : Bytes) (h : x.length < n) : asArray n x = .panic := by
  unfold asArray; rw [if_pos h]

/-- the view returns exactly `n` bytes -/
theorem asArray_length (n : Nat) (x a : Bytes) (h : asArray n x = .ok a) : a.length = n := by
  obtain ⟨h1, h2⟩ := (asArray_ok_iff n x a).1 h
  rw [h2, List.length_take]; omega

/-- a longer container is indistinguishable from its prefix -/
theorem asArray_append (n : Nat) (x y : Bytes) (h : x.length = n) : asArray n (x ++ y) = .ok x := by
  rw [asArray_of_le n _ (by rw [List.length_append]; omega), List.take_left' h]

/-- the Poly1305-only view of `Model/OnetimeAuth.lean` is the instance `n = 16` -/
theorem asArray16_eq (x : Bytes) : Model.OnetimeAuth.asArray16 x = asArray 16 x := rfl

theorem view2_eq {α : Type} (n₁ : Nat) (x₁ : Bytes) (n₂ : Nat) (x₂ : Bytes) (f : Bytes → Bytes → Outcome α) :
    view2 n₁ x₁ n₂ x₂ f =
      if x₁.length < n₁ ∨ x₂.length < n₂ then .panic else f (x₁.take n₁) (x₂.take n₂) := by
  unfold view2 asArray
  by_cases h1 : x₁.length < n₁
  · simp [h1]
  · by_cases h2 : x₂.length < n₂
    · simp [h1, h2]
    · simp [h1, h2]

/-- three-way case analysis used below: a function that is `panic` under `c`, else `ok ()` under `d`, else `err` -/
theorem cases3 (c d : Prop) [Decidable c] [Decidable d] :
    ((if c then Outcome.panic else if d then Outcome.ok () else .err) = .panic ↔ c) ∧
    ((if c then Outcome.panic else if d then Outcome.ok () else .err) = .ok () ↔ ¬ c ∧ d) ∧
    ((if c then Outcome.panic else if d then Outcome.ok () else .err) = .err ↔ ¬ c ∧ ¬ d) := by
  by_cases hc : c <;> by_cases hd : d <;> simp [hc, hd]

/-! ### signatures -/

open DryocVerif.Model.Sign in
theorem objVerifyMessage_eq (H : Bytes → Bytes) (sig msg pk : Bytes) :
    objVerifyMessage H sig msg pk =
      if sig.length < 64 ∨ pk.length < 32 then .panic
      else if verifyDetached H (sig.take 64) msg (pk.take 32) false = true then .ok () else .err := by
  unfold objVerifyMessage; rw [view2_eq]

open DryocVerif.Model.Sign in
/-- `SignedMessage::verify` with variable-length containers: panics iff the signature container holds fewer than
64 or the key container fewer than 32 bytes; returns `Ok(())` iff both are long enough and the FIRST 64 / 32 bytes
are an accepted signature / key; `Err` in the remaining case -/
theorem objVerifyMessage_cases (H : Bytes → Bytes) (sig msg pk : Bytes) :
    (objVerifyMessage H sig msg pk = .panic ↔ sig.length < 64 ∨ pk.length < 32) ∧
    (objVerifyMessage H sig msg pk = .ok () ↔
      64 ≤ sig.length ∧ 32 ≤ pk.length ∧ verifyDetached H (sig.take 64) msg (pk.take 32) false = true) ∧
    (objVerifyMessage H sig msg pk = .err ↔
      64 ≤ sig.length ∧ 32 ≤ pk.length ∧ verifyDetached H (sig.take 64) msg (pk.take 32) false = false) := by
  rw [objVerifyMessage_eq]
  have h := cases3 (sig.length < 64 ∨ pk.length < 32)
    (verifyDetached H (sig.take 64) msg (pk.take 32) false = true)
  refine ⟨h.1, h.2.1.trans ?_, h.2.2.trans ?_⟩
  · constructor
    · rintro ⟨h1, h2⟩; exact ⟨by omega, by omega, h2⟩
    · rintro ⟨h1, h2, h3⟩; exact ⟨by omega, h3⟩
  · constructor
    · rintro ⟨h1, h2⟩; exact ⟨by omega, by omega, by simpa using h2⟩
    · rintro ⟨h1, h2, h3⟩; exact ⟨by omega, by simp [h3]⟩

open DryocVerif.Model.Sign in
/-- with exact lengths (what `[u8; 64]`, `StackByteArray<64>`, … guarantee by type) the code-shaped function IS
the existing `verifyMessage` -/
theorem objVerifyMessage_exact (H : Bytes → Bytes) (sig msg pk : Bytes) (hs : sig.length = 64)
    (hp : pk.length = 32) :
    objVerifyMessage H sig msg pk = if verifyMessage H (sig, msg) pk = true then .ok () else .err := by
  rw [objVerifyMessage_eq, if_neg (by omega), List.take_of_length_le (by omega),
    List.take_of_length_le (by omega)]
  rfl

open DryocVerif.Model.Sign in
/-- `verifyMessage` (which answers `false` on wrong lengths) is MORE FORGIVING than the code: whenever it
accepts, the code accepts; when the lengths are wrong it says `false` where the code panics (too short) or looks
at a prefix (too long) -/
theorem verifyMessage_true_imp_obj (H : Bytes → Bytes) (sig msg pk : Bytes)
    (h : verifyMessage H (sig, msg) pk = true) : objVerifyMessage H sig msg pk = .ok () := by
  have h' : verifyDetached H sig msg pk false = true := h
  obtain ⟨hs, hp, -⟩ := (Proofs.Sign.verifyDetached_true_iff H sig msg pk false).1 h'
  rw [objVerifyMessage_exact H sig msg pk hs hp, if_pos h]

open DryocVerif.Model.Sign in
theorem objVerifyIncremental_eq (H : Bytes → Bytes) (cs : List Bytes) (sig pk : Bytes) :
    objVerifyIncremental H cs sig pk =
      if sig.length < 64 ∨ pk.length < 32 then .panic
      else if verifyDetached H (sig.take 64) (H cs.flatten) (pk.take 32) true = true then .ok () else .err := by
  unfold objVerifyIncremental; rw [view2_eq]; rfl

open DryocVerif.Model.Sign in
theorem objVerifyIncremental_cases (H : Bytes → Bytes) (cs : List Bytes) (sig pk : Bytes) :
    (objVerifyIncremental H cs sig pk = .panic ↔ sig.length < 64 ∨ pk.length < 32) ∧
    (objVerifyIncremental H cs sig pk = .ok () ↔
      64 ≤ sig.length ∧ 32 ≤ pk.length ∧
        verifyDetached H (sig.take 64) (H cs.flatten) (pk.take 32) true = true) := by
  rw [objVerifyIncremental_eq]
  have h := cases3 (sig.length < 64 ∨ pk.length < 32)
    (verifyDetached H (sig.take 64) (H cs.flatten) (pk.take 32) true = true)
  refine ⟨h.1, h.2.1.trans ?_⟩
  constructor
  · rintro ⟨h1, h2⟩; exact ⟨by omega, by omega, h2⟩
  · rintro ⟨h1, h2, h3⟩; exact ⟨by omega, h3⟩

/-! ### HMAC -/

open DryocVerif.Model.Core DryocVerif.Proofs.Core in
/-- for a key of at most one block, `init` succeeds and every `update…; final` sequence gives the RFC 2104 value -/
theorem hmacFinal_eq_spec (key : Bytes) (hk : key.length ≤ 128) :
    ∃ st, hmacInit Spec.Sha512.sha512 key = .ok st ∧
      ∀ cs : List Bytes, hmacFinal Spec.Sha512.sha512 (cs.foldl hmacUpdate st)
        = Spec.Hmac.hmacSha512256 key cs.flatten := by
  refine ⟨_, hmacInit_ok Spec.Sha512.sha512 key hk, ?_⟩
  intro cs
  have h := hmac_eq_spec_le key cs.flatten hk
  unfold hmac at h
  rw [hmacInit_ok Spec.Sha512.sha512 key hk] at h
  rw [hmac_updates]
  injection h

theorem take_length_of_le (n : Nat) (x : Bytes) (h : n ≤ x.length) : (x.take n).length = n := by
  rw [List.length_take]; omega

open DryocVerif.Model.Core in
theorem authObjectVerify_eq (key : Bytes) (cs : List Bytes) (tag : Bytes) :
    authObjectVerify Spec.Sha512.sha512 key cs tag =
      if key.length < 32 ∨ tag.length < 32 then .panic
      else if tag.take 32 = Spec.Hmac.hmacSha512256 (key.take 32) cs.flatten then .ok () else .err := by
  unfold authObjectVerify authNew
  by_cases hk : key.length < 32
  · rw [asArray_of_lt _ _ hk]; simp [hk]
  · rw [asArray_of_le _ _ (by omega)]
    obtain ⟨st, hst, hfin⟩ := hmacFinal_eq_spec (key.take 32)
      (by rw [take_length_of_le 32 key (by omega)]; omega)
    simp only [hst]
    unfold authVerifyState
    simp only [hfin]
    by_cases ht : tag.length < 32
    · rw [asArray_of_lt _ _ ht]; simp [ht]
    · rw [asArray_of_le _ _ (by omega)]
      simp only [Proofs.OnetimeAuth.ctEq_one_iff, hk, ht, or_self, if_false]

/-- `Auth::new(key); update…; verify(tag)` with variable-length containers -/
theorem authObjectVerify_cases (key : Bytes) (cs : List Bytes) (tag : Bytes) :
    (authObjectVerify Spec.Sha512.sha512 key cs tag = .panic ↔ key.length < 32 ∨ tag.length < 32) ∧
    (authObjectVerify Spec.Sha512.sha512 key cs tag = .ok () ↔
      32 ≤ key.length ∧ 32 ≤ tag.length ∧
        tag.take 32 = Spec.Hmac.hmacSha512256 (key.take 32) cs.flatten) := by
  rw [authObjectVerify_eq]
  have h := cases3 (key.length < 32 ∨ tag.length < 32)
    (tag.take 32 = Spec.Hmac.hmacSha512256 (key.take 32) cs.flatten)
  refine ⟨h.1, h.2.1.trans ?_⟩
  constructor
  · rintro ⟨h1, h2⟩; exact ⟨by omega, by omega, h2⟩
  · rintro ⟨h1, h2, h3⟩; exact ⟨by omega, h3⟩

open DryocVerif.Model.Core in
theorem authComputeAndVerify_eq (tag key msg : Bytes) :
    authComputeAndVerify Spec.Sha512.sha512 tag key msg =
      if tag.length < 32 ∨ key.length < 32 then .panic
      else if tag.take 32 = Spec.Hmac.hmacSha512256 (key.take 32) msg then .ok () else .err := by
  unfold authComputeAndVerify
  rw [view2_eq]
  by_cases h : tag.length < 32 ∨ key.length < 32
  · rw [if_pos h, if_pos h]
  · rw [if_neg h, if_neg h]
    rw [Proofs.Core.hmacVerify_eq_if]
    rw [Proofs.Core.hmac_eq_spec_le _ _ (by rw [take_length_of_le 32 key (by omega)]; omega)]

theorem authComputeAndVerify_cases (tag key msg : Bytes) :
    (authComputeAndVerify Spec.Sha512.sha512 tag key msg = .panic ↔ tag.length < 32 ∨ key.length < 32) ∧
    (authComputeAndVerify Spec.Sha512.sha512 tag key msg = .ok () ↔
      32 ≤ tag.length ∧ 32 ≤ key.length ∧ tag.take 32 = Spec.Hmac.hmacSha512256 (key.take 32) msg) := by
  rw [authComputeAndVerify_eq]
  have h := cases3 (tag.length < 32 ∨ key.length < 32)
    (tag.take 32 = Spec.Hmac.hmacSha512256 (key.take 32) msg)
  refine ⟨h.1, h.2.1.trans ?_⟩
  constructor
  · rintro ⟨h1, h2⟩; exact ⟨by omega, by omega, h2⟩
  · rintro ⟨h1, h2, h3⟩; exact ⟨by omega, h3⟩

/-! ### Poly1305: the key view -/

theorem onetimeObjectVerify_cases (key : Bytes) (cs : List Bytes) (tag : Bytes) :
    (onetimeObjectVerify key cs tag = .panic ↔ key.length < 32 ∨ tag.length < 16) ∧
    (onetimeObjectVerify key cs tag = .ok () ↔
      32 ≤ key.length ∧ 16 ≤ tag.length ∧ tag.take 16 = Spec.Poly1305.mac (key.take 32) cs.flatten) := by
  unfold onetimeObjectVerify
  by_cases hk : key.length < 32
  · rw [asArray_of_lt _ _ hk]
    exact ⟨⟨fun _ => Or.inl hk, fun _ => rfl⟩, ⟨fun h => (by cases h), fun h => (by omega)⟩⟩
  · rw [asArray_of_le _ _ (by omega)]
    have h := Proofs.OnetimeAuth.objectVerifyChunks_cases (key.take 32)
      (take_length_of_le 32 key (by omega)) cs tag
    refine ⟨h.1.trans ⟨Or.inr, fun h' => h'.resolve_left hk⟩, h.2.trans ?_⟩
    exact ⟨fun h' => ⟨by omega, h'⟩, fun h' => h'.2⟩

theorem onetimeComputeAndVerify_cases (tag key msg : Bytes) :
    (onetimeComputeAndVerify tag key msg = .panic ↔ tag.length < 16 ∨ key.length < 32) ∧
    (onetimeComputeAndVerify tag key msg = .ok () ↔
      16 ≤ tag.length ∧ 32 ≤ key.length ∧ tag.take 16 = Spec.Poly1305.mac (key.take 32) msg) := by
  unfold onetimeComputeAndVerify
  rw [view2_eq]
  by_cases h : tag.length < 16 ∨ key.length < 32
  · rw [if_pos h]
    exact ⟨⟨fun _ => h, fun _ => rfl⟩, ⟨fun h' => (by cases h'), fun h' => (by omega)⟩⟩
  · rw [if_neg h]
    have hk : (key.take 32).length = 32 := take_length_of_le 32 key (by omega)
    refine ⟨⟨fun h' => ?_, fun h' => absurd h' h⟩, ?_⟩
    · rw [Proofs.OnetimeAuth.onetimeauthVerify_eq] at h'
      split at h' <;> cases h'
    · rw [Proofs.OnetimeAuth.onetimeauthVerify_ok_iff _ _ _ hk]
      exact ⟨fun h' => ⟨by omega, by omega, h'⟩, fun h' => h'.2.2⟩

/-- with a 32-byte key the key view is the identity: the new function is the existing `objectVerifyChunks` -/
theorem onetimeObjectVerify_exact (key : Bytes) (hk : key.length = 32) (cs : List Bytes) (tag : Bytes) :
    onetimeObjectVerify key cs tag = Model.OnetimeAuth.objectVerifyChunks key cs tag := by
  unfold onetimeObjectVerify; rw [asArray_exact 32 key hk]

/-! ### boxes -/

open DryocVerif.Model.SecretBox in
theorem objDecrypt_ne_panic (P : Prims) (b : Box) (n k : Bytes) : objDecrypt P b n k ≠ .panic := by
  unfold objDecrypt openDetached openDetachedInplace
  have hz : ¬ (zeros b.data.length).length < b.data.length := by simp [zeros]
  simp only [hz, if_false]
  by_cases hm : b.tag = P.mac ((P.stream k n (32 + b.data.length)).take 32) b.data
  · simp [hm]
  · simp [hm]

open DryocVerif.Model.SecretBox in
theorem objDecryptView_eq (P : Prims) (b : Box) (nonce key : Bytes) :
    objDecryptView P b nonce key =
      if b.tag.length < 16 ∨ nonce.length < 24 ∨ key.length < 32 then .panic
      else objDecrypt P { b with tag := b.tag.take 16 } (nonce.take 24) (key.take 32) := by
  unfold objDecryptView
  by_cases ht : b.tag.length < 16
  · rw [asArray_of_lt _ _ ht]; simp [ht]
  · simp only [asArray_of_le _ _ (Nat.le_of_not_lt ht), view2_eq, ht, false_or]

open DryocVerif.Model.SecretBox in
/-- `DryocSecretBox::decrypt` with variable-length containers: panics iff one of tag / nonce / key is too short
(the object API never panics otherwise); on longer containers it works on their prefixes -/
theorem objDecryptView_cases (P : Prims) (b : Box) (nonce key : Bytes) :
    (objDecryptView P b nonce key = .panic ↔ b.tag.length < 16 ∨ nonce.length < 24 ∨ key.length < 32) ∧
    (¬ (b.tag.length < 16 ∨ nonce.length < 24 ∨ key.length < 32) →
      objDecryptView P b nonce key
        = objDecrypt P { b with tag := b.tag.take 16 } (nonce.take 24) (key.take 32)) := by
  rw [objDecryptView_eq]
  by_cases h : b.tag.length < 16 ∨ nonce.length < 24 ∨ key.length < 32
  · rw [if_pos h]; exact ⟨⟨fun _ => h, fun _ => rfl⟩, fun h' => absurd h h'⟩
  · rw [if_neg h]
    exact ⟨⟨fun h' => absurd h' (objDecrypt_ne_panic _ _ _ _), fun h' => absurd h' h⟩, fun _ => rfl⟩

open DryocVerif.Model.SecretBox in
/-- exact lengths: the existing model -/
theorem objDecryptView_exact (P : Prims) (b : Box) (nonce key : Bytes) (ht : b.tag.length = 16)
    (hn : nonce.length = 24) (hk : key.length = 32) :
    objDecryptView P b nonce key = objDecrypt P b nonce key := by
  rw [objDecryptView_eq, if_neg (by omega), List.take_of_length_le (by omega),
    List.take_of_length_le (by omega), List.take_of_length_le (by omega)]

open DryocVerif.Model.SecretBox in
theorem objBoxDecryptView_eq (P : Prims) (b : Box) (nonce pk sk : Bytes) :
    objBoxDecryptView P b nonce pk sk =
      if b.tag.length < 16 ∨ nonce.length < 24 ∨ pk.length < 32 ∨ sk.length < 32 then .panic
      else objBoxDecrypt P { b with tag := b.tag.take 16 } (nonce.take 24) (pk.take 32) (sk.take 32) := by
  unfold objBoxDecryptView
  by_cases ht : b.tag.length < 16
  · rw [asArray_of_lt _ _ ht]; simp [ht]
  · simp only [asArray_of_le _ _ (Nat.le_of_not_lt ht)]
    by_cases hn : nonce.length < 24
    · rw [asArray_of_lt _ _ hn]; simp [hn]
    · simp only [asArray_of_le _ _ (Nat.le_of_not_lt hn), view2_eq, ht, hn, false_or]

open DryocVerif.Model.SecretBox in
theorem objBoxDecryptView_cases (P : Prims) (b : Box) (nonce pk sk : Bytes) :
    (objBoxDecryptView P b nonce pk sk = .panic ↔
      b.tag.length < 16 ∨ nonce.length < 24 ∨ pk.length < 32 ∨ sk.length < 32) ∧
    (¬ (b.tag.length < 16 ∨ nonce.length < 24 ∨ pk.length < 32 ∨ sk.length < 32) →
      objBoxDecryptView P b nonce pk sk
        = objBoxDecrypt P { b with tag := b.tag.take 16 } (nonce.take 24) (pk.take 32) (sk.take 32)) := by
  rw [objBoxDecryptView_eq]
  by_cases h : b.tag.length < 16 ∨ nonce.length < 24 ∨ pk.length < 32 ∨ sk.length < 32
  · rw [if_pos h]; exact ⟨⟨fun _ => h, fun _ => rfl⟩, fun h' => absurd h h'⟩
  · rw [if_neg h]
    exact ⟨⟨fun h' => absurd h' (objDecrypt_ne_panic _ _ _ _), fun h' => absurd h' h⟩, fun _ => rfl⟩

open DryocVerif.Model.SecretBox in
theorem objUnsealView_cases (P : Prims) (b : Box) (rpk rsk : Bytes) :
    (objUnsealView P b rpk rsk = .panic ↔
      ∃ e, b.epk = some e ∧ (e.length < 32 ∨ rpk.length < 32 ∨ b.tag.length < 16 ∨ rsk.length < 32)) ∧
    (b.epk = none → objUnsealView P b rpk rsk = .err) ∧
    (∀ e, b.epk = some e → ¬ (e.length < 32 ∨ rpk.length < 32 ∨ b.tag.length < 16 ∨ rsk.length < 32) →
      objUnsealView P b rpk rsk
        = objUnseal P { b with epk := some (e.take 32), tag := b.tag.take 16 } (rpk.take 32) (rsk.take 32)) := by
  unfold objUnsealView
  cases he : b.epk with
  | none =>
    refine ⟨⟨fun h => (by cases h), fun ⟨e, h, _⟩ => (by cases h)⟩, fun _ => rfl, fun e h => (by cases h)⟩
  | some e =>
    simp only [view2_eq]
    refine ⟨?_, fun h => (by cases h), ?_⟩
    · constructor
      · intro h
        refine ⟨e, rfl, ?_⟩
        by_cases h1 : e.length < 32 ∨ rpk.length < 32
        · rcases h1 with h1 | h1
          · exact Or.inl h1
          · exact Or.inr (Or.inl h1)
        · rw [if_neg h1] at h
          by_cases h2 : b.tag.length < 16 ∨ rsk.length < 32
          · rcases h2 with h2 | h2
            · exact Or.inr (Or.inr (Or.inl h2))
            · exact Or.inr (Or.inr (Or.inr h2))
          · rw [if_neg h2] at h
            exact absurd h (objDecrypt_ne_panic _ _ _ _)
      · rintro ⟨e', he', h⟩
        cases he'
        by_cases h1 : e.length < 32 ∨ rpk.length < 32
        · rw [if_pos h1]
        · rw [if_neg h1, if_pos (by
            rcases h with h | h | h | h
            · exact absurd (Or.inl h) h1
            · exact absurd (Or.inr h) h1
            · exact Or.inl h
            · exact Or.inr h)]
    · intro e' he' h
      cases he'
      rw [if_neg (by intro h'; apply h; rcases h' with h' | h'; exact Or.inl h'; exact Or.inr (Or.inl h')),
        if_neg (by intro h'; apply h; rcases h' with h' | h';
                   exact Or.inr (Or.inr (Or.inl h')); exact Or.inr (Or.inr (Or.inr h')))]
      rfl

#print axioms objVerifyMessage_cases
#print axioms authObjectVerify_cases
#print axioms onetimeObjectVerify_cases
#print axioms objDecryptView_cases
#print axioms objUnsealView_cases

end DryocVerif.Proofs.ObjectViewExtra
