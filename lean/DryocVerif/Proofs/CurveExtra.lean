import DryocVerif.Proofs.Curve
/-
More lemmas on the RFC 7748 ladder of `Spec/X25519.lean` (for C05):

* the ladder only sees its u-coordinate modulo p (`ladder_mod_p`);
* `decodeUCoordinate` ignores bit 255 (`decodeU_high_bit`);
* the two points of order 4 (u = 1 and u = p − 1) are sent to 0 by every *even* scalar,
  hence by every clamped one (`ladder_one_even`, `ladder_pm1_even`).
Core only.
-/
namespace DryocVerif.Proofs.CurveExtra
open DryocVerif DryocVerif.Model.Curve DryocVerif.Spec.X25519 DryocVerif.Proofs.Curve

/-! ### every field operation reduces its arguments -/

theorem fadd_mod_l (a b : Nat) : fadd (a % p) b = fadd a b := by simp [fadd, Nat.mod_add_mod]
theorem fadd_mod_r (a b : Nat) : fadd a (b % p) = fadd a b := by simp [fadd, Nat.add_mod_mod]
theorem fsub_mod_l (a b : Nat) : fsub (a % p) b = fsub a b := by simp [fsub, Nat.mod_add_mod]
theorem fsub_mod_r (a b : Nat) : fsub a (b % p) = fsub a b := by simp [fsub]
theorem fmul_mod_l (a b : Nat) : fmul (a % p) b = fmul a b := by simp [fmul, Nat.mod_mul_mod]
theorem fmul_mod_r (a b : Nat) : fmul a (b % p) = fmul a b := by simp [fmul, Nat.mul_mod_mod]
theorem fsq_mod (a : Nat) : fsq (a % p) = fsq a := by
  simp only [fsq]; rw [← Nat.mul_mod]

/-- all four coordinates reduced -/
def norm (s : LadderState) : LadderState :=
  { x2 := s.x2 % p, z2 := s.z2 % p, x3 := s.x3 % p, z3 := s.z3 % p, swap := s.swap }

/-- one ladder step only depends on `x1` and on the state coordinates modulo p -/
theorem stepCore_norm (kt x1 : Nat) (s : LadderState) :
    stepCore kt (x1 % p) (norm s) = stepCore kt x1 s := by
  by_cases hc : s.swap ^^^ kt = 1 <;>
    simp [stepCore, cswap, norm, hc, fadd_mod_l, fadd_mod_r, fsub_mod_l, fsub_mod_r, fmul_mod_l]

theorem stepCore_congr (kt x1 x1' : Nat) (s s' : LadderState) (hx : x1 % p = x1' % p)
    (hs : norm s = norm s') : stepCore kt x1 s = stepCore kt x1' s' := by
  rw [← stepCore_norm kt x1 s, ← stepCore_norm kt x1' s', hx, hs]

theorem ladderLoop_congr_x1 (k x1 x1' : Nat) (hx : x1 % p = x1' % p) (n : Nat) (s : LadderState) :
    ladderLoop k x1 n s = ladderLoop k x1' n s := by
  induction n generalizing s with
  | zero => rfl
  | succ n ih =>
    rw [ladderLoop, ladderLoop, ladderStep_eq, ladderStep_eq,
      stepCore_congr _ x1 x1' s s hx rfl, ih]

theorem ladderLoop_succ (k x1 n : Nat) (s : LadderState) :
    ladderLoop k x1 (n + 1) s = ladderLoop k x1 n (ladderStep k x1 s n) := rfl

/-- **the ladder only sees u modulo p** -/
theorem ladder_mod_p (k u : Nat) : ladder k (u % p) = ladder k u := by
  have hx : u % p % p = u % p := Nat.mod_mod _ _
  have e1 : ∀ x1 s, ladderLoop k x1 255 s = ladderLoop k x1 254 (stepCore ((k >>> 254) % 2) x1 s) :=
    fun x1 s => ladderLoop_succ k x1 254 s
  have h1 : ladderLoop k (u % p) 255 { x2 := 1, z2 := 0, x3 := u % p, z3 := 1, swap := 0 } =
      ladderLoop k u 255 { x2 := 1, z2 := 0, x3 := u, z3 := 1, swap := 0 } := by
    rw [e1, e1, stepCore_congr _ (u % p) u { x2 := 1, z2 := 0, x3 := u % p, z3 := 1, swap := 0 }
        { x2 := 1, z2 := 0, x3 := u, z3 := 1, swap := 0 } hx (by simp [norm])]
    exact ladderLoop_congr_x1 k (u % p) u hx 254 _
  unfold ladder
  rw [h1]

theorem ladder_congr (k u u' : Nat) (h : u % p = u' % p) : ladder k u = ladder k u' := by
  rw [← ladder_mod_p k u, h, ladder_mod_p]

theorem ladder_add_p (k u : Nat) : ladder k (u + p) = ladder k u :=
  ladder_congr k _ _ (by simp)

/-! ### bit 255 of the u-coordinate is ignored -/

set_option maxRecDepth 8000 in
theorem nat_or128_and127 : ∀ x, x < 256 → (x ||| 128) &&& 127 = x &&& 127 := by decide

theorem or128_and127 (b : UInt8) : (b ||| 128) &&& 127 = b &&& 127 := by
  apply UInt8.toNat_inj.mp
  simpa [UInt8.toNat_or, UInt8.toNat_and] using nat_or128_and127 _ b.toNat_lt

/-- setting bit 255 of a u-coordinate encoding does not change what is decoded -/
theorem decodeU_high_bit (u : Bytes) :
    decodeUCoordinate (u.modify 31 (· ||| 128)) = decodeUCoordinate u := by
  unfold decodeUCoordinate
  rw [List.take_modify, List.modify_modify_eq]
  congr 2; funext b; exact or128_and127 b

/-! ### the two points of order 4: u = 1 and u = p − 1

Projectively the multiples of such a point `P` are `O` (z = 0), `2P = (0,0)` (x = 0) and
`±P` (x = z, resp. x + z = 0).  Doubling maps `±P ↦ 2P ↦ O ↦ O`, and the differential addition
with difference `P` always yields `±P` when one of its arguments is `±P`.  So both ladder
registers stay in these three classes, one of them always in the class `±P`; after a step
with scalar bit 0 the register `(x2 : z2)` is a doubling, i.e. `O` or `2P`, and
`x2 · z2^(p−2) = 0`. -/

def dblX (x z : Nat) : Nat := fmul (fsq (fadd x z)) (fsq (fsub x z))

def dblZ (x z : Nat) : Nat :=
  fmul (fsub (fsq (fadd x z)) (fsq (fsub x z)))
    (fadd (fsq (fadd x z)) (fmul a24 (fsub (fsq (fadd x z)) (fsq (fsub x z)))))

def addX (x2 z2 x3 z3 : Nat) : Nat :=
  fsq (fadd (fmul (fsub x3 z3) (fadd x2 z2)) (fmul (fadd x3 z3) (fsub x2 z2)))

def addZ (x1 x2 z2 x3 z3 : Nat) : Nat :=
  fmul x1 (fsq (fsub (fmul (fsub x3 z3) (fadd x2 z2)) (fmul (fadd x3 z3) (fsub x2 z2))))

theorem stepCore_noswap (kt x1 : Nat) (s : LadderState) (h : ¬ s.swap ^^^ kt = 1) :
    stepCore kt x1 s =
      { x2 := dblX s.x2 s.z2, z2 := dblZ s.x2 s.z2,
        x3 := addX s.x2 s.z2 s.x3 s.z3, z3 := addZ x1 s.x2 s.z2 s.x3 s.z3, swap := kt } := by
  simp [stepCore, cswap, h, dblX, dblZ, addX, addZ]

theorem stepCore_swap (kt x1 : Nat) (s : LadderState) (h : s.swap ^^^ kt = 1) :
    stepCore kt x1 s =
      { x2 := dblX s.x3 s.z3, z2 := dblZ s.x3 s.z3,
        x3 := addX s.x3 s.z3 s.x2 s.z2, z3 := addZ x1 s.x3 s.z3 s.x2 s.z2, swap := kt } := by
  simp [stepCore, cswap, h, dblX, dblZ, addX, addZ]

theorem fadd_zero_left (x : Nat) : fadd 0 x = x % p := by simp [fadd]

theorem fsq_zero : fsq 0 = 0 := by simp [fsq]

/-- `(−c)² = c²` -/
theorem fsq_fsub_zero_left (c : Nat) : fsq (fsub 0 c) = fsq c := by
  have ha : c % p < p := Nat.mod_lt _ (by decide)
  have key : ∀ a b : Nat, (b * b) % (a + b) = (a * a) % (a + b) := by
    intro a b
    have e : b * b + a * (a + b) = a * a + b * (a + b) := by
      simp only [Nat.mul_add, Nat.mul_comm b a]; omega
    have h1 : (b * b + a * (a + b)) % (a + b) = b * b % (a + b) := Nat.add_mul_mod_self_right _ _ _
    have h2 : (a * a + b * (a + b)) % (a + b) = a * a % (a + b) := Nat.add_mul_mod_self_right _ _ _
    rw [← h1, e, h2]
  have hk := key (c % p) (p - c % p)
  have hp : c % p + (p - c % p) = p := by omega
  rw [hp] at hk
  simp only [fsq, fsub, Nat.zero_add]
  rw [← Nat.mul_mod, hk, ← Nat.mul_mod]

theorem fmul_one_fsq (t : Nat) : fmul 1 (fsq t) = fsq t := by
  simp [fmul, fsq]

/-- what the invariant needs from the class `±P` of the order-4 point with u-coordinate `x1` -/
structure Order4Class (x1 : Nat) (P : Nat → Nat → Prop) : Prop where
  dbl : ∀ x z, P x z → dblX x z = 0
  add : ∀ x2 z2 x3 z3, P x2 z2 ∨ P x3 z3 →
    P (addX x2 z2 x3 z3) (addZ x1 x2 z2 x3 z3)

/-- `O`, `2P` or `±P` -/
def Cls (P : Nat → Nat → Prop) (x z : Nat) : Prop := z = 0 ∨ x = 0 ∨ P x z

def Inv4 (P : Nat → Nat → Prop) (s : LadderState) : Prop :=
  Cls P s.x2 s.z2 ∧ Cls P s.x3 s.z3 ∧ (P s.x2 s.z2 ∨ P s.x3 s.z3)

theorem dblZ_of_z (x : Nat) : dblZ x 0 = 0 := by
  simp [dblZ, fadd_zero_right, fsub_zero_right, fsub_self, fmul_zero_left]

theorem dblZ_of_x (z : Nat) : dblZ 0 z = 0 := by
  simp [dblZ, fadd_zero_left, fsq_fsub_zero_left, fsq_mod, fsub_self, fmul_zero_left]

/-- a doubling of a class member is `O` or `2P` -/
theorem dbl_cls {x1 : Nat} {P : Nat → Nat → Prop} (hP : Order4Class x1 P) (x z : Nat)
    (h : Cls P x z) : dblZ x z = 0 ∨ dblX x z = 0 := by
  rcases h with rfl | rfl | h
  · exact Or.inl (dblZ_of_z x)
  · exact Or.inl (dblZ_of_x z)
  · exact Or.inr (hP.dbl x z h)

theorem stepCore_inv4 {x1 : Nat} {P : Nat → Nat → Prop} (hP : Order4Class x1 P) (kt : Nat)
    (s : LadderState) (h : Inv4 P s) : Inv4 P (stepCore kt x1 s) := by
  obtain ⟨h2, h3, hor⟩ := h
  by_cases hc : s.swap ^^^ kt = 1
  · rw [stepCore_swap _ _ _ hc]
    have ha := hP.add s.x3 s.z3 s.x2 s.z2 hor.symm
    refine ⟨?_, Or.inr (Or.inr ha), Or.inr ha⟩
    rcases dbl_cls hP _ _ h3 with h | h
    · exact Or.inl h
    · exact Or.inr (Or.inl h)
  · rw [stepCore_noswap _ _ _ hc]
    have ha := hP.add s.x2 s.z2 s.x3 s.z3 hor
    refine ⟨?_, Or.inr (Or.inr ha), Or.inr ha⟩
    rcases dbl_cls hP _ _ h2 with h | h
    · exact Or.inl h
    · exact Or.inr (Or.inl h)

/-- the last iteration (bit index 0) singled out -/
theorem ladderLoop_last {x1 : Nat} {P : Nat → Nat → Prop} (hP : Order4Class x1 P) (k : Nat) :
    ∀ (n : Nat) (s : LadderState), Inv4 P s →
      ∃ s', Inv4 P s' ∧ ladderLoop k x1 (n + 1) s = stepCore (k % 2) x1 s' := by
  intro n
  induction n with
  | zero =>
    intro s h
    refine ⟨s, h, ?_⟩
    rw [ladderLoop_succ, ladderStep_eq]; simp [ladderLoop]
  | succ n ih =>
    intro s h
    rw [ladderLoop_succ, ladderStep_eq]
    exact ih _ (stepCore_inv4 hP _ s h)

/-- generic form: an even scalar maps the order-4 point to 0 -/
theorem ladder_order4 {x1 : Nat} {P : Nat → Nat → Prop} (hP : Order4Class x1 P)
    (h0 : Inv4 P { x2 := 1, z2 := 0, x3 := x1, z3 := 1, swap := 0 })
    (k : Nat) (hk : k % 2 = 0) : ladder k x1 = 0 := by
  obtain ⟨s', hs', he⟩ := ladderLoop_last hP k 254 _ h0
  have he' : ladderLoop k x1 255 { x2 := 1, z2 := 0, x3 := x1, z3 := 1, swap := 0 } =
      stepCore 0 x1 s' := by rw [hk] at he; exact he
  unfold ladder
  rw [he']
  obtain ⟨h2, h3, -⟩ := hs'
  by_cases hc : s'.swap ^^^ 0 = 1
  · rw [stepCore_swap _ _ _ hc]
    rcases dbl_cls hP _ _ h3 with h | h <;>
      simp [cswap, h, fpow_zero_inv, fmul_zero_right, fmul_zero_left]
  · rw [stepCore_noswap _ _ _ hc]
    rcases dbl_cls hP _ _ h2 with h | h <;>
      simp [cswap, h, fpow_zero_inv, fmul_zero_right, fmul_zero_left]

/-! #### u = 1 -/

theorem order4_one : Order4Class 1 (fun x z => x = z) where
  dbl := by
    intro x z h; subst h
    simp [dblX, fsub_self, fsq_zero, fmul_zero_right]
  add := by
    intro x2 z2 x3 z3 h
    rcases h with h | h <;> subst h
    · simp [addX, addZ, fsub_self, fmul_zero_right, fadd_zero_right, fsub_zero_right,
        fmul_one_fsq, fsq_mod]
    · simp [addX, addZ, fsub_self, fmul_zero_left, fadd_zero_left, fsq_fsub_zero_left,
        fmul_one_fsq, fsq_mod]

/-- X25519 of the order-4 point u = 1 is 0 for every even scalar -/
theorem ladder_one_even (k : Nat) (hk : k % 2 = 0) : ladder k 1 = 0 :=
  ladder_order4 order4_one ⟨Or.inl rfl, Or.inr (Or.inr rfl), Or.inr rfl⟩ k hk

/-! #### u = p − 1 -/

theorem fadd_fmul_pm1 (y : Nat) : fadd y (fmul (p - 1) y) = 0 := by
  simp only [fadd, fmul, Nat.add_mod_mod]
  have : y + (p - 1) * y = p * y := by
    have hp : p = (p - 1) + 1 := by decide
    conv => rhs; rw [hp, Nat.add_mul, Nat.one_mul]
    omega
  rw [this, Nat.mul_mod_right]

theorem order4_pm1 : Order4Class (p - 1) (fun x z => fadd x z = 0) where
  dbl := by
    intro x z h
    simp only [dblX, h, fsq_zero, fmul_zero_left]
  add := by
    intro x2 z2 x3 z3 h
    rcases h with h | h
    · simp only [addX, addZ, h, fmul_zero_right, fadd_zero_left, fsq_fsub_zero_left, fsq_mod,
        fadd_fmul_pm1]
    · simp only [addX, addZ, h, fmul_zero_left, fadd_zero_right, fsub_zero_right, fsq_mod,
        fadd_fmul_pm1]

/-- X25519 of the order-4 point u = p − 1 is 0 for every even scalar -/
theorem ladder_pm1_even (k : Nat) (hk : k % 2 = 0) : ladder k (p - 1) = 0 :=
  ladder_order4 order4_pm1 ⟨Or.inl rfl, Or.inr (Or.inr (by decide)), Or.inr (by decide)⟩ k hk

/-- all five residues of small order 1, 2, 4 at once: u ≡ 0, 1, −1 (mod p) -/
theorem ladder_low_order_even (k u : Nat) (hk : k % 2 = 0)
    (hu : u % p = 0 ∨ u % p = 1 ∨ u % p = p - 1) : ladder k u = 0 := by
  rw [← ladder_mod_p]
  rcases hu with h | h | h <;> rw [h]
  · exact ladder_zero k
  · exact ladder_one_even k hk
  · exact ladder_pm1_even k hk

end DryocVerif.Proofs.CurveExtra
