import DryocVerif.Proofs.ProtectedInv
/-
C15 helpers: every release event carries `nonzero = 0` when `deallocate` wipes.
-/
namespace DryocVerif.Proofs.Protected
open DryocVerif DryocVerif.Model.Protected

/-- all release events of the current token are clean -/
def RelZ (m : Mach) : Prop := ∀ e ∈ m.rel, e.2 = 0

theorem nonzero_zero_of_all {b : Bytes} (h : ∀ x ∈ b, x = 0) : nonzero b = 0 := by
  unfold nonzero
  rw [List.countP_eq_zero]
  intro x hx
  simp [h x hx]

/-- the first `n` bytes of a block whose first `n` bytes were wiped are all zero -/
theorem nonzero_wipe (n : Nat) (b : Bytes) : nonzero ((wipeN n b).take n) = 0 := by
  apply nonzero_zero_of_all
  intro x hx
  unfold wipeN at hx
  by_cases h : n ≤ b.length
  · rw [Nat.min_eq_left h, List.take_left' (by simp)] at hx
    simp [zeros] at hx
    exact hx.2
  · rw [List.drop_eq_nil_of_le (by omega), List.append_nil] at hx
    have := List.mem_of_mem_take hx
    simp [zeros] at this
    exact this.2

theorem relz_dealloc {c : Cfg} (hw : c.wipe = true) {m : Mach} (h : RelZ m) (v : PVec) :
    RelZ (dealloc c m v) := by
  intro e he
  rw [dealloc_rel] at he
  rcases List.mem_append.mp he with he | he
  · exact h e he
  · simp only [hw, if_true, List.mem_singleton] at he
    rw [he]; exact nonzero_wipe _ _

theorem relz_of_rel_eq {m m' : Mach} (h : RelZ m) (e : m'.rel = m.rel) : RelZ m' := by
  unfold RelZ; rw [e]; exact h

theorem relz_vecDrop {c : Cfg} (hw : c.wipe = true) {m : Mach} (h : RelZ m) (v : PVec) :
    RelZ (vecDrop c m v) := by
  unfold vecDrop; split
  · exact h
  · exact relz_dealloc hw h v

theorem relz_alloc {c : Cfg} {m : Mach} (h : RelZ m) (n : Nat) : RelZ (alloc c m n).1 :=
  relz_of_rel_eq h rfl

theorem relz_vecResize {c : Cfg} (hw : c.wipe = true) {m : Mach} (h : RelZ m) (v : PVec) (n : Nat)
    (b : UInt8 := 0) : RelZ (vecResize c m v n b).1 := by
  unfold vecResize
  split
  · exact h
  split
  · exact h
  · exact relz_vecDrop hw (relz_alloc h _) v

theorem relz_vecClone {c : Cfg} {m : Mach} (h : RelZ m) (v : PVec) : RelZ (vecClone c m v).1 := by
  unfold vecClone; split
  · exact h
  · exact relz_alloc h _

theorem relz_newBytes {c : Cfg} (hw : c.wipe = true) {m : Mach} (h : RelZ m) : RelZ (newBytes c m).1 := by
  unfold newBytes; split
  · exact relz_vecResize hw h _ _
  · exact h

@[simp] theorem dryocMprotect_rel (c : Cfg) (m : Mach) (a l : Nat) (p : Perm) :
    (dryocMprotect c m a l p).rel = m.rel := rfl

@[simp] theorem dryocMunlock_rel (c : Cfg) (m : Mach) (a l : Nat) :
    (dryocMunlock c m a l).rel = m.rel := by
  unfold dryocMunlock; split <;> rfl

@[simp] theorem dryocMlock_rel (c : Cfg) (m : Mach) (a l : Nat) :
    (dryocMlock c m a l).1.rel = m.rel := by
  unfold dryocMlock; split
  · rfl
  · simp only []; split
    · split <;> rfl
    · rfl
    · rfl

theorem relz_plainDrop {c : Cfg} (hw : c.wipe = true) {m : Mach} (h : RelZ m) (v : PVec) :
    RelZ (plainDrop c m v) := relz_vecDrop hw h _

@[simp] theorem protZeroize_rel (c : Cfg) (m : Mach) (v : PVec) (lm : LM) (pm : PM) :
    (protZeroize c m v lm pm).1.rel = m.rel := by
  unfold protZeroize protAtWipe
  by_cases h1 : pm = .rw <;> by_cases h2 : lm = .locked <;> simp [h1, h2]

theorem relz_protDrop {c : Cfg} (hw : c.wipe = true) {m : Mach} (h : RelZ m) (v : PVec) (lm : LM) (pm : PM) :
    RelZ (protDrop c m v lm pm) := by
  unfold protDrop
  apply relz_plainDrop hw
  exact relz_of_rel_eq h (by simp)

theorem relz_objDrop {c : Cfg} (hw : c.wipe = true) {m : Mach} (h : RelZ m) (o : Obj) :
    RelZ (objDrop c m o) := by
  unfold objDrop; split
  · exact relz_plainDrop hw h _
  · exact relz_protDrop hw h _ _ _

theorem relz_lockV {c : Cfg} (hw : c.wipe = true) {m : Mach} (h : RelZ m) (v : PVec) (pm : LM × PM) :
    RelZ (lockV c m v pm).1 := by
  have h1 : RelZ (dryocMlock c m (ptr c v) v.len).1 := relz_of_rel_eq h (by simp)
  unfold lockV
  simp only []
  split
  · exact h1
  · exact relz_protDrop hw h1 _ _ _

theorem relz_lockedResize {c : Cfg} (hw : c.wipe = true) {m : Mach} (h : RelZ m) (v : PVec) (rc : LM × PM)
    (n : Nat) (b : UInt8 := 0) : RelZ (lockedResize c m v rc n b).1 := by
  have h2 := relz_lockV hw (relz_vecResize hw h PVec.empty n b) (vecResize c m PVec.empty n b).2 recNew
  unfold lockedResize
  simp only []
  split
  · exact relz_protDrop hw h2 _ _ _
  · exact h2

/-! ### tokens -/

theorem relz_doLock {c : Cfg} (hw : c.wipe = true) {s : State} (h : RelZ s.m) (i : Nat) (sl : Slot)
    (rc : LM × PM) (pm : PM) : RelZ (doLock c s i sl rc pm).2.m := by
  unfold doLock; simp only []
  split <;> exact relz_lockV hw h _ _

theorem relz_doNewLocked {c : Cfg} (hw : c.wipe = true) {s : State} {m : Mach} (h : RelZ m) (v : PVec)
    (src : Option Bytes) (ro rnd : Bool) : RelZ (doNewLocked c s m v src ro rnd).2.m := by
  have h1 := relz_lockV hw h v recNew
  unfold doNewLocked; simp only []
  split
  · simp only [push]
    split
    · exact relz_of_rel_eq h1 (by simp)
    · exact h1
  · exact h1

theorem relz_doCloneLocked {c : Cfg} (hw : c.wipe = true) {s : State} (h : RelZ s.m) (sl : Slot) (ro : Bool) :
    RelZ (doCloneLocked c s sl ro).2.m := by
  have h1 := relz_lockedResize hw h PVec.empty (.locked, .rw) sl.o.v.len
  unfold doCloneLocked; simp only []
  split
  · exact h1
  · simp only [push]
    split
    · exact relz_of_rel_eq h1 (by simp)
    · exact h1

theorem relz_doFromSlice {c : Cfg} (hw : c.wipe = true) {s : State} (h : RelZ s.m) (n : Nat) (ro : Bool) :
    RelZ (doFromSlice c s n ro).2.m := by
  unfold doFromSlice
  split
  · split
    · exact h
    · exact relz_doNewLocked hw (relz_newBytes hw h) _ _ _ _
  · exact relz_doNewLocked hw (relz_vecResize hw h _ _) _ _ _ _

theorem relz_cloneLockedObj {c : Cfg} (hw : c.wipe = true) {m : Mach} (h : RelZ m) (o : Obj) (ro : Bool) :
    RelZ (cloneLockedObj c m o ro).1 := by
  have h1 := relz_lockedResize hw h PVec.empty (.locked, .rw) o.v.len
  unfold cloneLockedObj; simp only []
  split
  · exact h1
  · simp only []
    split
    · exact relz_of_rel_eq h1 (by simp)
    · exact h1

theorem relz_cloneObj {c : Cfg} (hw : c.wipe = true) {m : Mach} (h : RelZ m) (o : Obj) :
    ∀ r, cloneObj c m o = some r → RelZ r.1 := by
  intro r hr
  unfold cloneObj at hr
  split at hr
  · simp only [Option.some.injEq] at hr; rw [← hr]; exact relz_vecClone h _
  · simp only [Option.some.injEq] at hr; rw [← hr]; exact relz_vecClone h _
  · simp only [Option.some.injEq] at hr; rw [← hr]
    exact relz_of_rel_eq (relz_vecClone (c := c) h o.v) (by simp)
  · split at hr
    · simp at hr
    · simp only [Option.some.injEq] at hr; rw [← hr]; exact relz_cloneLockedObj hw h _ _
  · split at hr
    · simp at hr
    · simp only [Option.some.injEq] at hr; rw [← hr]; exact relz_cloneLockedObj hw h _ _
  · simp at hr

theorem relz_opCloneFrom {c : Cfg} (hw : c.wipe = true) {s : State} (h : RelZ s.m) (i j : Nat) :
    RelZ (opCloneFrom c s i j).2.m := by
  unfold opCloneFrom
  split
  · exact h
  split
  · rename_i d src _ _
    split
    · exact h
    split
    · cases hp : cloneObj c s.m src.o with
      | none => exact h
      | some r1 =>
        have h1 := relz_cloneObj hw h src.o r1 hp
        obtain ⟨m1, ot⟩ := r1
        cases ot with
        | none => exact h1
        | some tmp =>
          simp only []
          cases hq : cloneObj c m1 src.o with
          | none => exact relz_objDrop hw h1 _
          | some r2 =>
            have h2 := relz_cloneObj hw h1 src.o r2 hq
            obtain ⟨m2, oo⟩ := r2
            cases oo with
            | none => exact relz_objDrop hw h2 _
            | some o => exact relz_objDrop hw (relz_objDrop hw h2 _) _
    · cases hp : cloneObj c s.m src.o with
      | none => exact h
      | some r1 =>
        have h1 := relz_cloneObj hw h src.o r1 hp
        obtain ⟨m1, oo⟩ := r1
        cases oo with
        | none => exact h1
        | some o => exact relz_objDrop hw h1 _
  · exact h

theorem relz_seqFill {c : Cfg} (hw : c.wipe = true) (b : UInt8) (k : Nat) : ∀ r : Mach × PVec, RelZ r.1 →
    RelZ (seqFill c b k r).1 := by
  induction k with
  | zero => intro r h; exact h
  | succ k ih => intro r h; simp only [seqFill]; exact ih _ (relz_vecResize hw h _ _)

theorem relz_opSerde {c : Cfg} (hw : c.wipe = true) {s : State} (h : RelZ s.m) (json : Bool) (n : Nat) :
    RelZ (opSerde c s json n).2.m := by
  unfold opSerde
  split
  · split
    · have h1 := relz_lockV hw (relz_newBytes hw (c := c) h) (newBytes c s.m).2 recNew
      unfold doSerdeArrJson; simp only []
      split
      · split
        · exact h1
        · exact relz_protDrop hw h1 _ _ _
      · exact h1
    · exact relz_doNewLocked hw (relz_seqFill hw _ _ (s.m, PVec.empty) h) _ _ _ _
  · exact relz_doFromSlice hw h _ _

theorem relz_stepCore {c : Cfg} (hw : c.wipe = true) {s : State} (h : RelZ s.m) (t : Tok) :
    RelZ (stepCore c s t).2.m := by
  have live : ∀ (i : Nat) (g : Res) (f : Slot → Res × State), (∀ sl, RelZ (f sl).2.m) →
      RelZ (withLive s i g f).2.m := by
    intro i g f hf
    apply withLive_elim (Q := fun r => RelZ r.2.m) _ _ _ _ h h
    intro sl _ _ _ _ _; exact hf sl
  have slot : ∀ (i : Nat) (f : Slot → Res × State), (∀ sl, RelZ (f sl).2.m) →
      RelZ (withSlot s i f).2.m := by
    intro i f hf
    apply withSlot_elim (Q := fun r => RelZ r.2.m) _ _ _ h
    intro sl _ _ _ _; exact hf sl
  unfold stepCore
  cases hop : t.op <;> simp only []
  case new =>
    unfold opNew; simp only []
    have h1 := relz_newBytes hw (c := c) h
    split
    · exact h1
    split
    · exact relz_plainDrop hw h1 _
    · exact relz_vecResize hw h1 _ _
  case fill b =>
    unfold opFill; apply live; intro sl
    split <;> exact h
  case lock =>
    unfold opLock; apply live; intro sl
    split
    · exact relz_doLock hw h _ _ _ _
    · exact relz_doLock hw h _ _ _ _
    · exact h
  case unlock =>
    unfold opUnlock; apply live; intro sl
    split
    · exact h
    · exact relz_of_rel_eq h (by simp [setSlot])
  case ro =>
    unfold opProtect; apply live; intro sl
    split
    · exact h
    · exact relz_of_rel_eq h (by simp [setSlot])
  case rw =>
    unfold opProtect; apply live; intro sl
    split
    · exact h
    · exact relz_of_rel_eq h (by simp [setSlot])
  case na =>
    unfold opNa; apply live; intro sl
    split
    · exact relz_of_rel_eq h (by simp [setSlot])
    · exact h
  case clone =>
    unfold opClone; apply live; intro sl
    split
    · exact relz_vecClone h _
    · exact relz_vecClone h _
    · exact relz_of_rel_eq (relz_vecClone (c := c) h sl.o.v) (by simp [push])
    · split
      · exact h
      · exact relz_doCloneLocked hw h _ _
    · split
      · exact h
      · exact relz_doCloneLocked hw h _ _
    · exact h
  case resize n b =>
    unfold opResize; apply live; intro sl
    split
    · exact h
    split
    · exact relz_vecResize hw h _ _ _
    · exact relz_vecResize hw h _ _ _
    · have h1 := relz_lockedResize hw h sl.o.v sl.o.rcd n b
      simp only []
      split
      · exact h1
      · exact h1
    · exact h
  case drop =>
    unfold opDrop; apply live; intro sl
    exact relz_objDrop hw h _
  case fsl n =>
    unfold doFromSlice
    split
    · split
      · exact h
      · exact relz_doNewLocked hw (relz_newBytes hw h) _ _ _ _
    · exact relz_doNewLocked hw (relz_vecResize hw h _ _) _ _ _ _
  case fsro n =>
    unfold doFromSlice
    split
    · split
      · exact h
      · exact relz_doNewLocked hw (relz_newBytes hw h) _ _ _ _
    · exact relz_doNewLocked hw (relz_vecResize hw h _ _) _ _ _ _
  case newlocked => exact relz_doNewLocked hw (relz_newBytes hw h) _ _ _ _
  case genlocked => exact relz_doNewLocked hw (relz_newBytes hw h) _ _ _ _
  case newrolocked => exact relz_doNewLocked hw (relz_newBytes hw h) _ _ _ _
  case genrolocked => exact relz_doNewLocked hw (relz_newBytes hw h) _ _ _ _
  case failfrom k => exact h
  case wprobe off =>
    unfold opWProbe; apply live; intro sl
    split
    · exact h
    · split <;> exact h
  case rprobe off =>
    unfold opRProbe; apply live; intro sl
    split
    · exact h
    · split <;> exact h
  case gprobe f =>
    unfold opGProbe; apply live; intro sl
    split
    · exact h
    · simp only []; repeat' split
      all_goals exact h
  case wrap => exact h
  case bad => exact h
  case zeroize =>
    unfold opZeroize; apply live; intro sl
    split
    · exact h
    · exact relz_of_rel_eq h (by simp [setSlot])
  case clonefrom j => exact relz_opCloneFrom hw h _ _
  case panicdrop =>
    unfold opDrop; apply live; intro sl
    exact relz_objDrop hw h _
  case stacklock =>
    unfold opStackLock
    split
    · exact relz_doNewLocked hw (relz_newBytes hw h) _ _ _ _
    · exact h
  case serde js n => exact relz_opSerde hw h _ _

theorem relz_step {c : Cfg} (hw : c.wipe = true) (s : State) (t : Tok) : RelZ (step c s t).2.m :=
  relz_stepCore hw (s := resetRel s) (fun _ he => by simp [resetRel] at he) t

theorem relz_dropAll {c : Cfg} (hw : c.wipe = true) (slots : List Slot) {m : Mach} (h : RelZ m) :
    RelZ (dropAllM c m slots) := by
  induction slots generalizing m with
  | nil => exact h
  | cons sl rest ih =>
    unfold dropAllM
    split
    · exact ih h
    · exact ih (relz_objDrop hw h _)

theorem relz_finish {c : Cfg} (hw : c.wipe = true) (s : State) : RelZ (finish c s).m :=
  relz_dropAll hw s.slots (m := { s.m with rel := [] }) (fun _ he => by simp at he)

end DryocVerif.Proofs.Protected
