import DryocVerif.Model.TypeState
/-
Table-level lemmas about the C20 type-state table (`Model/TypeState.lean`): statements about the
three finite tables `permits`, `access`, `allowed` only — no pages, no kernel model.  Re-exported in
`Properties/C20.lean`.
-/
namespace DryocVerif.Proofs.TypeStateTable
open DryocVerif.Model.TypeState

/-- every row EXCEPT `zeroize` performs only accesses that the protect-mode marker allows -/
theorem permits_sound (pm : PM) (lm : LM) (c : Cont) (op : Op) (hz : op ≠ .zeroize)
    (h : permits pm lm c op = true) : allowed pm (access op) = true := by
  cases op <;> cases pm <;> cases lm <;> cases c <;> simp_all [permits, allowed, access]

/-- `zeroize` is offered in every one of the 12 cells … -/
theorem zeroize_everywhere (pm : PM) (lm : LM) (c : Cont) : permits pm lm c .zeroize = true := rfl

/-- … and it writes -/
theorem zeroize_writes : access .zeroize = .write := rfl

/-- the `zeroize` row is NOT sound: there is a cell in which the code offers it although the marker
forbids the write it performs -/
theorem zeroize_not_sound :
    ∃ (pm : PM) (lm : LM) (c : Cont),
      permits pm lm c .zeroize = true ∧ allowed pm (access .zeroize) = false :=
  ⟨.ro, .locked, .bytes, by decide⟩

/-- exactly: it is unsound in the 8 cells with `pm ≠ ReadWrite` and sound in the 4 `ReadWrite` ones -/
theorem zeroize_unsound_iff (pm : PM) (lm : LM) (c : Cont) :
    (permits pm lm c .zeroize = true ∧ allowed pm (access .zeroize) = false) ↔ pm ≠ .rw := by
  cases pm <;> simp [permits, allowed, access]

/-- `zeroize` is the ONLY unsound row of the table (contrapositive of `permits_sound`) -/
theorem unsound_only_zeroize (pm : PM) (lm : LM) (c : Cont) (op : Op)
    (h : permits pm lm c op = true) (hf : allowed pm (access op) = false) : op = .zeroize := by
  cases op <;> cases pm <;> cases lm <;> cases c <;> simp_all [permits, allowed, access]

/-- every offered writing row other than `zeroize` needs `ReadWrite` -/
theorem write_offered_only_rw (pm : PM) (lm : LM) (c : Cont) (op : Op) (hz : op ≠ .zeroize)
    (ha : access op = .write) (h : permits pm lm c op = true) : pm = .rw := by
  have := permits_sound pm lm c op hz h
  rw [ha] at this
  simpa [allowed] using this

/-- every offered reading row needs `ReadOnly` or `ReadWrite` -/
theorem read_offered_not_na (pm : PM) (lm : LM) (c : Cont) (op : Op)
    (ha : access op = .read) (h : permits pm lm c op = true) : pm ≠ .na := by
  have hz : op ≠ .zeroize := by rintro rfl; simp [access] at ha
  have := permits_sound pm lm c op hz h
  rw [ha] at this
  simpa [allowed] using this

/-- completeness of the view rows: whenever the marker allows reading (writing), the container-
independent read (write) views are all offered -/
theorem views_complete (pm : PM) (lm : LM) (c : Cont) :
    (allowed pm .read = true →
      permits pm lm c .readView = true ∧ permits pm lm c .index = true ∧ permits pm lm c .asRef = true) ∧
    (allowed pm .write = true →
      permits pm lm c .mutView = true ∧ permits pm lm c .indexMut = true ∧
      permits pm lm c .asMut = true ∧ permits pm lm c .copyFrom = true) := by
  cases pm <;> simp [permits, allowed]

/-- the exact cells of the new rows -/
theorem as_ref_iff (pm : PM) (lm : LM) (c : Cont) : permits pm lm c .asRef = true ↔ pm ≠ .na := by
  simp [permits]
theorem as_mut_iff (pm : PM) (lm : LM) (c : Cont) : permits pm lm c .asMut = true ↔ pm = .rw := by
  simp [permits]
theorem index_mut_iff (pm : PM) (lm : LM) (c : Cont) : permits pm lm c .indexMut = true ↔ pm = .rw := by
  simp [permits]
theorem copy_from_iff (pm : PM) (lm : LM) (c : Cont) : permits pm lm c .copyFrom = true ↔ pm = .rw := by
  simp [permits]
theorem mut_array_view_iff (pm : PM) (lm : LM) (c : Cont) :
    permits pm lm c .mutArrayView = true ↔ c = .array ∧ pm = .rw := by
  simp [permits]
theorem clone_from_eq_clone (pm : PM) (lm : LM) (c : Cont) :
    permits pm lm c .cloneFrom = permits pm lm c .clone := rfl

/-- `Serialize` exists in exactly three of the twelve cells: `Locked<HeapByteArray<N>>`,
`LockedBytes = Locked<HeapBytes>`, `LockedRO<HeapBytes>` -/
theorem serialize_cells (pm : PM) (lm : LM) (c : Cont) :
    permits pm lm c .serialize = true ↔
      (c, pm, lm) ∈ [(Cont.array, PM.rw, LM.locked), (.bytes, .rw, .locked), (.bytes, .ro, .locked)] := by
  cases pm <;> cases lm <;> cases c <;> simp [permits]

/-- all rows (for exhaustive checks) -/
def allOps : List Op :=
  [.readView, .mutView, .arrayView, .index, .resize, .clone, .lock, .unlock, .ro, .rw, .na, .useAfter,
   .asRef, .asMut, .indexMut, .copyFrom, .mutArrayView, .cloneFrom, .serialize, .zeroize]

theorem allOps_complete (op : Op) : op ∈ allOps := by cases op <;> decide

/-- every row of the table stands for at least one impl listed in `implTable` … -/
theorem table_covers_impls (op : Op) : (implTable.any fun p => p.2 == op) = true := by
  cases op <;> decide

/-- … `implTable` has 36 entries, and they use all 20 rows -/
theorem table_covers_impls_counts :
    implTable.length = 36 ∧ allOps.length = 20 ∧
    allOps.all (fun op => implTable.any fun p => p.2 == op) = true ∧
    implTable.all (fun p => allOps.contains p.2) = true := by decide

/-- the whole table as numbers (exhaustive, by evaluation): how many of the 12 cells offer each row.
`zeroize`: all 12; `serialize`: 3; `mutArrayView`: 2; `asMut`/`indexMut`/`copyFrom`: 4; `asRef`: 8. -/
theorem cell_counts :
    let cells : List (PM × LM × Cont) :=
      [.rw, .ro, .na].flatMap fun pm => [LM.locked, .unlocked].flatMap fun lm => [Cont.bytes, .array].map fun c => (pm, lm, c)
    allOps.map (fun op => (cells.filter fun x => permits x.1 x.2.1 x.2.2 op).length) =
      [8, 4, 4, 8, 2, 6, 6, 12, 12, 12, 6, 0, 8, 4, 4, 4, 2, 6, 3, 12] := by decide

end DryocVerif.Proofs.TypeStateTable
