import DryocVerif.Proofs.Poly1305Finish
/-
`new`, the block fold, and the buffering invariant of `update` / `finalize`.
-/
namespace DryocVerif.Proofs.Poly1305
open DryocVerif
open DryocVerif.Model.Poly1305
open DryocVerif.Spec.Poly1305 (p clampMask rOf sOf blockVal acc)

/-! ### `new` : clamping -/

theorem clamp_limbs (t0 t1 : Nat) (h0 : t0 < 2^64) (_h1 : t1 < 2^64) :
    (t0 &&& 0xffc0fffffff)
      + 2^44 * ((((t0 >>> 44) ||| ((t1 <<< 20) % U64)) &&& 0xfffffc0ffff)
      + 2^44 * ((t1 >>> 24) &&& 0x00ffffffc0f))
    = (t0 + 2^64 * t1) &&& clampMask := by
  have c0 : clampMask % 2^44 = 0xffc0fffffff := by decide
  have c1 : clampMask / 2^44 % 2^44 = 0xfffffc0ffff := by decide
  have c2 : clampMask / 2^44 / 2^44 = 0x00ffffffc0f := by decide
  rw [and_split (t0 + 2^64 * t1) clampMask 44,
      and_split ((t0 + 2^64 * t1) / 2^44) (clampMask / 2^44) 44, c0, c1, c2]
  have a0 : t0 &&& 0xffc0fffffff = ((t0 + 2^64 * t1) % 2^44) &&& 0xffc0fffffff := by
    rw [and_mod_of_lt t0 _ 44 (by decide)]
    congr 1; omega
  have a1 : ((t0 >>> 44) ||| ((t1 <<< 20) % U64)) &&& 0xfffffc0ffff
      = ((t0 + 2^64 * t1) / 2^44 % 2^44) &&& 0xfffffc0ffff := by
    rw [and_mod_of_lt _ _ 44 (by decide), ← and_M44, mid_limb_M44 t0 t1 h0]
  have a2 : t1 >>> 24 = (t0 + 2^64 * t1) / 2^44 / 2^44 := by
    rw [Nat.shiftRight_eq_div_pow]; omega
  rw [a0, a1, a2]

theorem new_r_spec (key : Bytes) (hk : key.length = 32) :
    RInv (new key).r ∧ V (new key).r = rOf key := by
  have ht0 : le (key.take 8) < 2^64 := le_take8_lt key
  have ht1 : le ((key.drop 8).take 8) < 2^64 := le_take8_lt (key.drop 8)
  constructor
  · refine ⟨?_, ?_, ?_⟩
    · exact Nat.lt_of_le_of_lt Nat.and_le_right (by decide)
    · exact Nat.lt_of_le_of_lt Nat.and_le_right (by decide)
    · exact Nat.lt_of_le_of_lt Nat.and_le_right (by decide)
  · have h := clamp_limbs _ _ ht0 ht1
    unfold rOf
    rw [le_take16 key (by omega), ← h]
    simp only [V, new]
    omega

theorem new_pad_spec (key : Bytes) (hk : key.length = 32) :
    (new key).pad0 < 2^64 ∧ (new key).pad1 < 2^64 ∧
    (new key).pad0 + 2^64 * (new key).pad1 = sOf key := by
  refine ⟨le_take8_lt _, le_take8_lt _, ?_⟩
  unfold sOf
  rw [le_take16 (key.drop 16) (by simp; omega), List.drop_drop]
  rfl

/-! ### the block fold -/

/-- one step of the specification's accumulator -/
def specStep (R : Nat) (a : Nat) (b : Bytes) : Nat := ((a + blockVal b) * R) % p

theorem acc_eq (R : Nat) (bs : List Bytes) : acc R bs = bs.foldl (specStep R) 0 := rfl

theorem acc_append (R : Nat) (xs ys : List Bytes) :
    acc R (xs ++ ys) = ys.foldl (specStep R) (acc R xs) := by
  rw [acc_eq, acc_eq, List.foldl_append]

theorem step_mod (v' K v x R : Nat) (e : v' + P * K = (v + x) * R) :
    v' % P = ((v % P + x) * R) % P := by
  rw [Nat.mul_mod, Nat.mod_add_mod, ← Nat.mul_mod, ← e, Nat.add_mul_mod_self_left]

theorem blockStep_full (r h : Limbs) (b : Bytes) (hr : RInv r) (hh : Inv h) (hb : b.length = 16) :
    Inv (blockStep r (2^40) h b) ∧
    V (blockStep r (2^40) h b) % P = specStep (V r) (V h % P) b := by
  obtain ⟨i, K, e⟩ := blockStep_spec r h (2^40) b hr hh hb (Or.inr rfl)
  refine ⟨i, ?_⟩
  unfold specStep blockVal
  rw [p_eq, hb]
  apply step_mod _ K
  rw [e, Nat.add_assoc]
  rfl

theorem blockStep_partial (r h : Limbs) (b : Bytes) (k : Nat) (hr : RInv r) (hh : Inv h)
    (hb : (b ++ [1] ++ zeros k).length = 16) :
    Inv (blockStep r 0 h (b ++ [1] ++ zeros k)) ∧
    V (blockStep r 0 h (b ++ [1] ++ zeros k)) % P = specStep (V r) (V h % P) b := by
  obtain ⟨i, K, e⟩ := blockStep_spec r h 0 _ hr hh hb (Or.inl rfl)
  refine ⟨i, ?_⟩
  unfold specStep blockVal
  rw [p_eq]
  apply step_mod _ K
  rw [e, le_pad, Nat.zero_mul, Nat.add_zero]

theorem fold_full (r : Limbs) (hr : RInv r) :
    ∀ (bs : List Bytes) (h : Limbs), Inv h → (∀ b ∈ bs, b.length = 16) →
      Inv (bs.foldl (blockStep r (2^40)) h) ∧
      V (bs.foldl (blockStep r (2^40)) h) % P = bs.foldl (specStep (V r)) (V h % P) := by
  intro bs
  induction bs with
  | nil => intro h hh _; exact ⟨hh, rfl⟩
  | cons b bs ih =>
    intro h hh hlen
    obtain ⟨i, e⟩ := blockStep_full r h b hr hh (hlen b (List.mem_cons_self ..))
    obtain ⟨i2, e2⟩ := ih _ i (fun x hx => hlen x (List.mem_cons_of_mem _ hx))
    simp only [List.foldl_cons]
    exact ⟨i2, by rw [e2, e]⟩

/-! ### buffering invariant -/

/-- `st` has absorbed the data `D`: a prefix of whole blocks is folded into `h`,
the rest (fewer than 16 bytes) is in the buffer. -/
def StInv (r : Limbs) (p0 p1 : Nat) (st : State) (D : Bytes) : Prop :=
  st.r = r ∧ st.pad0 = p0 ∧ st.pad1 = p1 ∧ st.buffer.length < 16 ∧ Inv st.h ∧
  ∃ Pfx, D = Pfx ++ st.buffer ∧ Pfx.length % 16 = 0 ∧
    V st.h % P = acc (V r) (chunks 16 Pfx)

/-- the common tail of `update`: absorb whole blocks of `m`, buffer the rest -/
def tail (st : State) (m : Bytes) : State :=
  let fe := m.length - m.length % 16
  let st := blocks st (m.take fe) false
  if fe < m.length then { st with buffer := st.buffer ++ m.drop fe } else st

theorem blocks_full_spec (r : Limbs) (p0 p1 : Nat) (hr : RInv r) (st : State) (D X : Bytes)
    (hst : StInv r p0 p1 st D) (hbuf : st.buffer = []) (hX : X.length % 16 = 0) :
    StInv r p0 p1 (blocks st X false) (D ++ X) ∧ (blocks st X false).buffer = [] := by
  obtain ⟨e1, e2, e3, e4, e5, Pfx, hD, hP, hV⟩ := hst
  obtain ⟨i, e⟩ := fold_full r hr (chunks 16 X) st.h e5 (chunks_all_len 16 (by decide) X hX)
  refine ⟨⟨e1, e2, e3, e4, ?_, Pfx ++ X, ?_, ?_, ?_⟩, hbuf⟩
  · show Inv ((chunks 16 X).foldl (blockStep st.r (hibitOf false)) st.h)
    rw [e1]; exact i
  · show D ++ X = Pfx ++ X ++ st.buffer
    rw [hD, hbuf]; simp
  · rw [List.length_append]; omega
  · show V ((chunks 16 X).foldl (blockStep st.r (hibitOf false)) st.h) % P = _
    rw [e1, chunks_append 16 (by decide) _ _ hP, acc_append, ← hV]
    exact e

theorem tail_spec (r : Limbs) (p0 p1 : Nat) (hr : RInv r) (st : State) (D m : Bytes)
    (hst : StInv r p0 p1 st D) (hbuf : st.buffer = []) :
    StInv r p0 p1 (tail st m) (D ++ m) := by
  have hfe : m.length - m.length % 16 ≤ m.length := Nat.sub_le _ _
  have hX : (m.take (m.length - m.length % 16)).length % 16 = 0 := by
    rw [List.length_take]; omega
  obtain ⟨h1, h2⟩ := blocks_full_spec r p0 p1 hr st D _ hst hbuf hX
  unfold tail
  simp only []
  generalize hst' : blocks st (m.take (m.length - m.length % 16)) false = st' at h1 h2
  by_cases hlt : m.length - m.length % 16 < m.length
  · rw [if_pos hlt]
    obtain ⟨e1, e2, e3, _, e5, Pfx, hD, hP, hV⟩ := h1
    refine ⟨e1, e2, e3, ?_, e5, Pfx, ?_, hP, hV⟩
    · show (st'.buffer ++ m.drop _).length < 16
      rw [h2, List.nil_append, List.length_drop]; omega
    · show D ++ m = Pfx ++ (st'.buffer ++ m.drop _)
      rw [h2] at hD ⊢
      rw [List.append_nil] at hD
      rw [List.nil_append, ← hD, List.append_assoc, List.take_append_drop]
  · rw [if_neg hlt]
    have : m.take (m.length - m.length % 16) = m := List.take_of_length_le (by omega)
    rw [this] at h1
    exact h1

theorem update_nil (st : State) (c : Bytes) (h : st.buffer = []) : update st c = tail st c := by
  unfold update
  rw [if_neg (by simp [h])]
  rfl

theorem update_short (st : State) (c : Bytes) (h : st.buffer ≠ [])
    (hs : st.buffer.length + c.length < 16) :
    update st c = { st with buffer := st.buffer ++ c } := by
  have he : min (16 - st.buffer.length) c.length = c.length := by omega
  unfold update
  rw [if_pos (by simp [h])]
  simp only [he, List.take_length]
  rw [if_pos (by rw [List.length_append]; exact hs)]

theorem update_long (st : State) (c : Bytes) (h : st.buffer ≠ [])
    (hb : st.buffer.length < 16) (hs : 16 ≤ st.buffer.length + c.length) :
    update st c =
      tail { blocks { st with buffer := st.buffer ++ c.take (16 - st.buffer.length) }
                (st.buffer ++ c.take (16 - st.buffer.length)) false with buffer := [] }
        (c.drop (16 - st.buffer.length)) := by
  have he : min (16 - st.buffer.length) c.length = 16 - st.buffer.length := by omega
  unfold update
  rw [if_pos (by simp [h])]
  simp only [he]
  rw [if_neg (by rw [List.length_append, List.length_take]; omega)]
  rfl

theorem update_spec (r : Limbs) (p0 p1 : Nat) (hr : RInv r) (st : State) (D c : Bytes)
    (hst : StInv r p0 p1 st D) : StInv r p0 p1 (update st c) (D ++ c) := by
  by_cases hbuf : st.buffer = []
  · rw [update_nil st c hbuf]; exact tail_spec r p0 p1 hr st D c hst hbuf
  · obtain ⟨e1, e2, e3, e4, e5, Pfx, hD, hP, hV⟩ := hst
    by_cases hs : st.buffer.length + c.length < 16
    · rw [update_short st c hbuf hs]
      refine ⟨e1, e2, e3, ?_, e5, Pfx, ?_, hP, hV⟩
      · show (st.buffer ++ c).length < 16
        rw [List.length_append]; exact hs
      · show D ++ c = Pfx ++ (st.buffer ++ c)
        rw [hD, List.append_assoc]
    · rw [update_long st c hbuf e4 (by omega)]
      generalize hB : st.buffer ++ c.take (16 - st.buffer.length) = B
      have hBlen : B.length = 16 := by
        rw [← hB, List.length_append, List.length_take]; omega
      have hsplit : D ++ c = (D ++ c.take (16 - st.buffer.length)) ++ c.drop (16 - st.buffer.length) := by
        rw [List.append_assoc, List.take_append_drop]
      rw [hsplit]
      apply tail_spec r p0 p1 hr _ _ _ _ rfl
      obtain ⟨i, e⟩ := blockStep_full r st.h B hr e5 hBlen
      have hch : chunks 16 B = [B] := chunks_single 16 B (by omega) (by omega)
      refine ⟨e1, e2, e3, (by show (0:Nat) < 16; decide), ?_, Pfx ++ B, ?_, ?_, ?_⟩
      · show Inv ((chunks 16 B).foldl (blockStep st.r (hibitOf false)) st.h)
        rw [hch, e1]; exact i
      · show D ++ c.take (16 - st.buffer.length) = Pfx ++ B ++ []
        rw [hD, ← hB]; simp
      · rw [List.length_append]; omega
      · show V ((chunks 16 B).foldl (blockStep st.r (hibitOf false)) st.h) % P = _
        rw [hch, e1, chunks_append 16 (by decide) _ _ hP, acc_append, hch, ← hV]
        exact e

theorem foldl_update_spec (r : Limbs) (p0 p1 : Nat) (hr : RInv r) :
    ∀ (cs : List Bytes) (st : State) (D : Bytes), StInv r p0 p1 st D →
      StInv r p0 p1 (cs.foldl update st) (D ++ cs.flatten) := by
  intro cs
  induction cs with
  | nil => intro st D h; simpa using h
  | cons c cs ih =>
    intro st D h
    have := ih _ _ (update_spec r p0 p1 hr st D c h)
    simpa [List.append_assoc] using this

theorem new_inv (key : Bytes) :
    StInv (new key).r (new key).pad0 (new key).pad1 (new key) [] := by
  refine ⟨rfl, rfl, rfl, (by show (0:Nat) < 16; decide),
    ⟨(by show (0:Nat) < 2^44; decide), (by show (0:Nat) < 2^45; decide),
     (by show (0:Nat) < 2^42; decide)⟩, [], rfl, rfl, ?_⟩
  rfl

/-! ### `finalize` -/

theorem finalize_nil (st : State) (h : st.buffer = []) :
    finalize st = finish st.h st.pad0 st.pad1 := by
  unfold finalize
  rw [if_neg (by simp [h])]

theorem finalize_cons (st : State) (h : st.buffer ≠ []) (hb : st.buffer.length < 16) :
    finalize st =
      finish (blockStep st.r 0 st.h (st.buffer ++ [1] ++ zeros (15 - st.buffer.length)))
        st.pad0 st.pad1 := by
  have hbuf : (if ((st.buffer ++ [1]).length % 16 != 0) = true
      then st.buffer ++ [1] ++ zeros (16 - (st.buffer ++ [1]).length % 16) else st.buffer ++ [1])
      = st.buffer ++ [1] ++ zeros (15 - st.buffer.length) := by
    have hl : (st.buffer ++ [1]).length = st.buffer.length + 1 := by simp
    by_cases h15 : st.buffer.length = 15
    · have : (st.buffer ++ [1]).length % 16 = 0 := by rw [hl, h15]
      rw [if_neg (by rw [this]; decide), h15]; simp [zeros]
    · have : (st.buffer ++ [1]).length % 16 = st.buffer.length + 1 := by rw [hl]; omega
      rw [if_pos (by rw [this]; simp), this]
      congr 2; omega
  have hlen : (st.buffer ++ [1] ++ zeros (15 - st.buffer.length)).length = 16 := by
    simp [zeros]; omega
  unfold finalize
  rw [if_pos (by simp [h])]
  simp only [hbuf]
  show finish ((chunks 16 _).foldl (blockStep st.r (hibitOf true)) st.h) _ _ = _
  rw [chunks_single 16 _ (by omega) (by omega)]
  rfl

theorem finalize_spec (r : Limbs) (p0 p1 : Nat) (hr : RInv r) (hp0 : p0 < 2^64) (hp1 : p1 < 2^64)
    (st : State) (D : Bytes) (hst : StInv r p0 p1 st D) :
    finalize st = toLE 16 ((acc (V r) (chunks 16 D) + (p0 + 2^64 * p1)) % 2^128) := by
  obtain ⟨e1, e2, e3, e4, e5, Pfx, hD, hP, hV⟩ := hst
  by_cases hbuf : st.buffer = []
  · rw [finalize_nil st hbuf, e2, e3, finish_spec _ _ _ e5 hp0 hp1, hV, hD, hbuf, List.append_nil]
  · have hpos : 0 < st.buffer.length := List.length_pos_iff.mpr hbuf
    have hlen : (st.buffer ++ [1] ++ zeros (15 - st.buffer.length)).length = 16 := by
      simp [zeros]; omega
    obtain ⟨i, e⟩ := blockStep_partial r st.h st.buffer _ hr e5 hlen
    rw [finalize_cons st hbuf e4, e1, e2, e3, finish_spec _ _ _ i hp0 hp1, e, hV, hD,
      chunks_append 16 (by decide) _ _ hP, acc_append,
      chunks_single 16 _ hpos (by omega)]
    rfl

end DryocVerif.Proofs.Poly1305
