import DryocVerif.Gen.Kx
import DryocVerif.Model.Curve
/-
`tools/rs2lean.py` (kernel `Kx`) re-reads `src/classic/crypto_kx.rs` on every run and emits its SHAPE as data: which names are
fed to the hash and in which order, the digest length, how the digest is split into (x1, x2), which operands go into the scalar
multiplication, how the client and the server function route (rx, tx) into the helper, and that the all-zero check (exactly:
constant-time equality with 32 zero bytes → Err) sits between the multiplication and the helper.

Here that data is INTERPRETED — an environment maps every name to its bytes, the digest is computed over the listed names in the
listed order, split at the listed offsets, and handed back under the names the caller passed — and the result is proved to be
the hand model `Model.Curve.kxClient` / `kxServer`.  A change of the update order, of the split, of the operands, or the server
passing (rx, tx) instead of (tx, rx) changes the data and breaks these equalities.
-/
namespace DryocVerif.Proofs.GenKx
open DryocVerif DryocVerif.Model.Curve

/-- the value bound to a name -/
def look (env : List (String × Bytes)) (n : String) : Bytes := (env.lookup n).getD []

/-- the helper `crypto_kx` read off the data: hash the listed names in order, split at the listed offsets -/
def helperFromShape (P : Prims) (env : List (String × Bytes)) : List (String × Bytes) :=
  let digest := P.blake2b Gen.Kx.hash_outlen [] [] [] ((Gen.Kx.hash_updates.map (look env)).flatten)
  Gen.Kx.digest_split.map fun (n, lo, hi) => (n, (digest.take hi).drop lo)

/-- a session-key function read off the data: scalar multiplication of the two listed operands, the zero check (if the data says it is
there and exact), then the helper with the listed routing; returns the bytes the CALLER's `rx` and `tx` receive -/
def sessionFromShape (P : Prims) (smArgs helperArgs : List String) (checks : Bool) (env : List (String × Bytes)) :
    Outcome (Bytes × Bytes) :=
  match smArgs, helperArgs with
  | [skName, pkName], [o1, o2, cpkName, spkName, _] =>
    let q := scalarmult P (look env skName) (look env pkName)
    if checks && Gen.Kx.zero_check_is_exact && q = zeros 32 then .err
    else
      -- parameters of the helper, in its declaration order (x1, x2, client_pk, server_pk, shared_secret)
      let inner := [("client_pk", look env cpkName), ("server_pk", look env spkName), ("shared_secret", q)]
      let outs := helperFromShape P inner
      -- x1 is written through the caller's first output argument, x2 through the second
      let written := [(o1, look outs "x1"), (o2, look outs "x2")]
      .ok (look written "rx", look written "tx")
  | _, _ => .panic

/-- the data itself, spelled out (a guard: this is what the proofs below were made for) -/
theorem kx_shape :
    Gen.Kx.hash_updates = ["shared_secret", "client_pk", "server_pk"] ∧ Gen.Kx.hash_outlen = 64
    ∧ Gen.Kx.digest_split = [("x1", 0, 32), ("x2", 32, 64)]
    ∧ Gen.Kx.client_scalarmult_args = ["client_sk", "server_pk"] ∧ Gen.Kx.server_scalarmult_args = ["server_sk", "client_pk"]
    ∧ Gen.Kx.client_helper_args = ["rx", "tx", "client_pk", "server_pk", "shared_secret"]
    ∧ Gen.Kx.server_helper_args = ["tx", "rx", "client_pk", "server_pk", "shared_secret"]
    ∧ Gen.Kx.client_checks_zero_between = true ∧ Gen.Kx.server_checks_zero_between = true ∧ Gen.Kx.zero_check_is_exact = true := by
  decide

/-- `crypto_kx_client_session_keys` as read off the source = the model, whenever the digest is 64 bytes long (it is: BLAKE2b-512) -/
theorem client_from_shape_eq_model (P : Prims) (cpk csk spk : Bytes)
    (hlen : ∀ m, (P.blake2b 64 [] [] [] m).length = 64) :
    sessionFromShape P Gen.Kx.client_scalarmult_args Gen.Kx.client_helper_args Gen.Kx.client_checks_zero_between
      [("client_pk", cpk), ("client_sk", csk), ("server_pk", spk)] = kxClient P cpk csk spk := by
  have hd := hlen (scalarmult P csk spk ++ cpk ++ spk)
  simp only [sessionFromShape, Gen.Kx.client_scalarmult_args, Gen.Kx.client_helper_args, Gen.Kx.client_checks_zero_between,
    Gen.Kx.zero_check_is_exact, helperFromShape, Gen.Kx.hash_outlen, Gen.Kx.hash_updates, Gen.Kx.digest_split, look, kxClient, kx,
    List.lookup, List.map, List.flatten, Bool.true_and, Option.getD]
  by_cases hz : scalarmult P csk spk = zeros 32
  · simp [hz]
  · simp [hz, List.append_assoc, List.take_of_length_le (Nat.le_of_eq (by simpa [List.append_assoc] using hd))]

/-- `crypto_kx_server_session_keys` as read off the source (it passes `(tx, rx)` to the helper) = the model -/
theorem server_from_shape_eq_model (P : Prims) (spk ssk cpk : Bytes)
    (hlen : ∀ m, (P.blake2b 64 [] [] [] m).length = 64) :
    sessionFromShape P Gen.Kx.server_scalarmult_args Gen.Kx.server_helper_args Gen.Kx.server_checks_zero_between
      [("server_pk", spk), ("server_sk", ssk), ("client_pk", cpk)] = kxServer P spk ssk cpk := by
  have hd := hlen (scalarmult P ssk cpk ++ cpk ++ spk)
  simp only [sessionFromShape, Gen.Kx.server_scalarmult_args, Gen.Kx.server_helper_args, Gen.Kx.server_checks_zero_between,
    Gen.Kx.zero_check_is_exact, helperFromShape, Gen.Kx.hash_outlen, Gen.Kx.hash_updates, Gen.Kx.digest_split, look, kxServer, kx,
    List.lookup, List.map, List.flatten, Bool.true_and, Option.getD]
  by_cases hz : scalarmult P ssk cpk = zeros 32
  · simp [hz]
  · simp [hz, List.append_assoc, List.take_of_length_le (Nat.le_of_eq (by simpa [List.append_assoc] using hd))]

end DryocVerif.Proofs.GenKx
