import DryocVerif.Proofs.Argon2
set_option linter.unusedSimpArgs false
/-
Second stage of the C09 proofs: the pure functions `…N` that `Proofs/Argon2.lean` shows the
model of argon2.rs to compute (without panicking) are the RFC-9106-structured specification
`Spec.Argon2.argon2`.  Core Lean only.
-/
namespace DryocVerif.Proofs.Argon2
open DryocVerif DryocVerif.Model.Argon2

/-! ### `fill_block` is the RFC's compression function `G` -/

theorem fblamka_eq (x y : UInt64) : fblamka x y = Spec.Argon2.blamka x y := by
  unfold fblamka Spec.Argon2.blamka Spec.Argon2.lo32
  rw [UInt64.mul_assoc]

theorem rotr64_eq (x b : UInt64) : rotr64 x b = Spec.Blake2b.rotr x b := rfl

/-- eight sequential writes to four distinct cells collapse to the four last ones -/
theorem set8 (v : Block) {a b c d : Nat} (hab : a ≠ b) (hac : a ≠ c) (had : a ≠ d) (hbc : b ≠ c)
    (hbd : b ≠ d) (hcd : c ≠ d) (x1 x2 x3 x4 x5 x6 x7 x8 : UInt64) :
    (((((((v.set! a x1).set! d x2).set! c x3).set! b x4).set! a x5).set! d x6).set! c x7).set! b x8
      = (((v.set! a x5).set! b x8).set! c x7).set! d x6 := by
  apply Array.ext_getElem?
  intro k
  simp only [Array.set!_eq_setIfInBounds, Array.getElem?_setIfInBounds, Array.size_setIfInBounds]
  by_cases ka : a = k
  · subst ka; simp [hab, hac, had, hab.symm, hac.symm, had.symm]
  · by_cases kb : b = k
    · subst kb; simp [hab, hbc, hbd, hab.symm, hbc.symm, hbd.symm]
    · by_cases kc : c = k
      · subst kc; simp [hac, hbc, hcd, hac.symm, hbc.symm, hcd.symm]
      · by_cases kd : d = k
        · subst kd; simp [had, hbd, hcd, had.symm, hbd.symm, hcd.symm]
        · simp [ka, kb, kc, kd]

theorem g_eq_gbAt (v : Block) {a b c d : Nat} (ha : a < v.size) (hb : b < v.size) (hc : c < v.size)
    (hd : d < v.size) (hab : a ≠ b) (hac : a ≠ c) (had : a ≠ d) (hbc : b ≠ c)
    (hbd : b ≠ d) (hcd : c ≠ d) : g v a b c d = Spec.Argon2.gbAt v a b c d := by
  unfold g Spec.Argon2.gbAt Spec.Argon2.GB
  simp only [getBang_setBang_self, getBang_setBang_ne, size_setBang, ha, hb, hc, hd, hab, hac, had,
    hbc, hbd, hcd, hab.symm, hac.symm, had.symm, hbc.symm, hbd.symm, hcd.symm, ne_eq,
    not_false_eq_true, fblamka_eq, rotr64_eq]
  rw [set8 v hab hac had hbc hbd hcd]

@[simp] theorem gbAt_size (v : Block) (a b c d : Nat) : (Spec.Argon2.gbAt v a b c d).size = v.size := by
  simp [Spec.Argon2.gbAt]

/-- one Argon2 round on sixteen distinct in-range cells is the RFC's permutation `P` -/
theorem blake2RoundNomsg_eq_P (v : Block) (ix : Nat → Nat)
    (hinj : ∀ j k, j < 16 → k < 16 → j ≠ k → ix j ≠ ix k) (hlt : ∀ k, k < 16 → ix k < v.size) :
    blake2RoundNomsg v (ix 0) (ix 1) (ix 2) (ix 3) (ix 4) (ix 5) (ix 6) (ix 7) (ix 8) (ix 9) (ix 10)
      (ix 11) (ix 12) (ix 13) (ix 14) (ix 15) = Spec.Argon2.P v ix := by
  unfold blake2RoundNomsg Spec.Argon2.P
  simp only []
  have ne : ∀ j k, j < 16 → k < 16 → j ≠ k → ix j ≠ ix k := hinj
  rw [g_eq_gbAt v (hlt 0 (by decide)) (hlt 4 (by decide)) (hlt 8 (by decide)) (hlt 12 (by decide))
    (ne 0 4 (by decide) (by decide) (by decide)) (ne 0 8 (by decide) (by decide) (by decide))
    (ne 0 12 (by decide) (by decide) (by decide)) (ne 4 8 (by decide) (by decide) (by decide))
    (ne 4 12 (by decide) (by decide) (by decide)) (ne 8 12 (by decide) (by decide) (by decide))]
  rw [g_eq_gbAt _ (by rw [gbAt_size]; exact hlt 1 (by decide)) (by rw [gbAt_size]; exact hlt 5 (by decide))
    (by rw [gbAt_size]; exact hlt 9 (by decide)) (by rw [gbAt_size]; exact hlt 13 (by decide))
    (ne 1 5 (by decide) (by decide) (by decide)) (ne 1 9 (by decide) (by decide) (by decide))
    (ne 1 13 (by decide) (by decide) (by decide)) (ne 5 9 (by decide) (by decide) (by decide))
    (ne 5 13 (by decide) (by decide) (by decide)) (ne 9 13 (by decide) (by decide) (by decide))]
  rw [g_eq_gbAt _ (by simp only [gbAt_size]; exact hlt 2 (by decide))
    (by simp only [gbAt_size]; exact hlt 6 (by decide))
    (by simp only [gbAt_size]; exact hlt 10 (by decide)) (by simp only [gbAt_size]; exact hlt 14 (by decide))
    (ne 2 6 (by decide) (by decide) (by decide)) (ne 2 10 (by decide) (by decide) (by decide))
    (ne 2 14 (by decide) (by decide) (by decide)) (ne 6 10 (by decide) (by decide) (by decide))
    (ne 6 14 (by decide) (by decide) (by decide)) (ne 10 14 (by decide) (by decide) (by decide))]
  rw [g_eq_gbAt _ (by simp only [gbAt_size]; exact hlt 3 (by decide))
    (by simp only [gbAt_size]; exact hlt 7 (by decide))
    (by simp only [gbAt_size]; exact hlt 11 (by decide)) (by simp only [gbAt_size]; exact hlt 15 (by decide))
    (ne 3 7 (by decide) (by decide) (by decide)) (ne 3 11 (by decide) (by decide) (by decide))
    (ne 3 15 (by decide) (by decide) (by decide)) (ne 7 11 (by decide) (by decide) (by decide))
    (ne 7 15 (by decide) (by decide) (by decide)) (ne 11 15 (by decide) (by decide) (by decide))]
  rw [g_eq_gbAt _ (by simp only [gbAt_size]; exact hlt 0 (by decide))
    (by simp only [gbAt_size]; exact hlt 5 (by decide))
    (by simp only [gbAt_size]; exact hlt 10 (by decide)) (by simp only [gbAt_size]; exact hlt 15 (by decide))
    (ne 0 5 (by decide) (by decide) (by decide)) (ne 0 10 (by decide) (by decide) (by decide))
    (ne 0 15 (by decide) (by decide) (by decide)) (ne 5 10 (by decide) (by decide) (by decide))
    (ne 5 15 (by decide) (by decide) (by decide)) (ne 10 15 (by decide) (by decide) (by decide))]
  rw [g_eq_gbAt _ (by simp only [gbAt_size]; exact hlt 1 (by decide))
    (by simp only [gbAt_size]; exact hlt 6 (by decide))
    (by simp only [gbAt_size]; exact hlt 11 (by decide)) (by simp only [gbAt_size]; exact hlt 12 (by decide))
    (ne 1 6 (by decide) (by decide) (by decide)) (ne 1 11 (by decide) (by decide) (by decide))
    (ne 1 12 (by decide) (by decide) (by decide)) (ne 6 11 (by decide) (by decide) (by decide))
    (ne 6 12 (by decide) (by decide) (by decide)) (ne 11 12 (by decide) (by decide) (by decide))]
  rw [g_eq_gbAt _ (by simp only [gbAt_size]; exact hlt 2 (by decide))
    (by simp only [gbAt_size]; exact hlt 7 (by decide))
    (by simp only [gbAt_size]; exact hlt 8 (by decide)) (by simp only [gbAt_size]; exact hlt 13 (by decide))
    (ne 2 7 (by decide) (by decide) (by decide)) (ne 2 8 (by decide) (by decide) (by decide))
    (ne 2 13 (by decide) (by decide) (by decide)) (ne 7 8 (by decide) (by decide) (by decide))
    (ne 7 13 (by decide) (by decide) (by decide)) (ne 8 13 (by decide) (by decide) (by decide))]
  rw [g_eq_gbAt _ (by simp only [gbAt_size]; exact hlt 3 (by decide))
    (by simp only [gbAt_size]; exact hlt 4 (by decide))
    (by simp only [gbAt_size]; exact hlt 9 (by decide)) (by simp only [gbAt_size]; exact hlt 14 (by decide))
    (ne 3 4 (by decide) (by decide) (by decide)) (ne 3 9 (by decide) (by decide) (by decide))
    (ne 3 14 (by decide) (by decide) (by decide)) (ne 4 9 (by decide) (by decide) (by decide))
    (ne 4 14 (by decide) (by decide) (by decide)) (ne 9 14 (by decide) (by decide) (by decide))]

@[simp] theorem P_size (v : Block) (ix : Nat → Nat) : (Spec.Argon2.P v ix).size = v.size := by
  simp [Spec.Argon2.P]

theorem fold_congr_inv {α : Type} (Inv : α → Prop) (f g : Nat → α → α) (n : Nat) (init : α)
    (h0 : Inv init) (h : ∀ i v, i < n → Inv v → f i v = g i v ∧ Inv (g i v)) :
    Nat.fold n (fun i _ v => f i v) init = Nat.fold n (fun i _ v => g i v) init
      ∧ Inv (Nat.fold n (fun i _ v => g i v) init) := by
  induction n with
  | zero => exact ⟨rfl, h0⟩
  | succ n ih =>
    obtain ⟨e, hi⟩ := ih (fun i v hi hv => h i v (by omega) hv)
    rw [Nat.fold_succ, Nat.fold_succ, e]
    exact h n _ (by omega) hi

theorem xorBlock_eq_spec (x y : Block) : xorBlock x y = Spec.Argon2.xorBlock x y := rfl

theorem xorBlock_get (x y : Block) {i : Nat} (h : i < 128) : (xorBlock x y)[i]! = x[i]! ^^^ y[i]! := by
  unfold xorBlock
  rw [getElem!_pos _ _ (by simpa [ARGON2_QWORDS_IN_BLOCK] using h)]
  simp

theorem xorBlock_comm (x y : Block) : xorBlock x y = xorBlock y x := by
  unfold xorBlock
  congr 1; funext i; exact UInt64.xor_comm _ _

theorem block_ext {a b : Block} (ha : a.size = 128) (hb : b.size = 128)
    (h : ∀ i, i < 128 → a[i]! = b[i]!) : a = b := by
  apply Array.ext (by omega)
  intro i h1 h2
  have := h i (by omega)
  rwa [getElem!_pos a i h1, getElem!_pos b i h2] at this

/-- `(r ⊕ n) ⊕ z = (z ⊕ r) ⊕ n` on blocks of any size -/
theorem xorBlock_rot (r n z : Block) : xorBlock (xorBlock r n) z = xorBlock (xorBlock z r) n := by
  apply block_ext (by simp) (by simp)
  intro i hi
  rw [xorBlock_get _ _ hi, xorBlock_get _ _ hi, xorBlock_get _ _ hi, xorBlock_get _ _ hi,
    UInt64.xor_comm z[i]!, UInt64.xor_assoc, UInt64.xor_assoc, UInt64.xor_comm n[i]!]

theorem xorBlock_zero_right {x : Block} (h : x.size = 128) : xorBlock x zeroBlock = x := by
  apply block_ext (by simp) h
  intro i hi
  rw [xorBlock_get _ _ hi, zeroBlock_get, UInt64.xor_zero]

theorem xorBlock_zero_left {x : Block} (h : x.size = 128) : xorBlock zeroBlock x = x := by
  rw [xorBlock_comm, xorBlock_zero_right h]

/-- **`fill_block` = `G` (+ XOR with the old block when `with_xor`)** -/
theorem fillBlock_eq (prev ref next : Block) (withXor : Bool) :
    fillBlock prev ref next withXor =
      if withXor then Spec.Argon2.xorBlock (Spec.Argon2.G prev ref) next else Spec.Argon2.G prev ref := by
  unfold fillBlock Spec.Argon2.G copyBlock
  simp only [← xorBlock_eq_spec]
  rw [xorBlock_comm ref prev]
  have hrows := fold_congr_inv (fun v : Block => v.size = 128)
    (fun i v => blake2RoundNomsg v (16 * i) (16 * i + 1) (16 * i + 2) (16 * i + 3) (16 * i + 4)
      (16 * i + 5) (16 * i + 6) (16 * i + 7) (16 * i + 8) (16 * i + 9) (16 * i + 10)
      (16 * i + 11) (16 * i + 12) (16 * i + 13) (16 * i + 14) (16 * i + 15))
    (fun i v => Spec.Argon2.P v (Spec.Argon2.rowIx i)) 8 (xorBlock prev ref) (by simp) (by
      intro i v hi hv
      refine ⟨?_, by simp [hv]⟩
      exact blake2RoundNomsg_eq_P v (Spec.Argon2.rowIx i)
        (by intro j k hj hk hjk; simp only [Spec.Argon2.rowIx]; omega)
        (by intro k hk; simp only [Spec.Argon2.rowIx]; omega))
  have hcols := fold_congr_inv (fun v : Block => v.size = 128)
    (fun i v => blake2RoundNomsg v (2 * i) (2 * i + 1) (2 * i + 16) (2 * i + 17) (2 * i + 32)
      (2 * i + 33) (2 * i + 48) (2 * i + 49) (2 * i + 64) (2 * i + 65) (2 * i + 80)
      (2 * i + 81) (2 * i + 96) (2 * i + 97) (2 * i + 112) (2 * i + 113))
    (fun i v => Spec.Argon2.P v (Spec.Argon2.colIx i)) 8 _ hrows.2 (by
      intro i v hi hv
      refine ⟨?_, by simp [hv]⟩
      exact blake2RoundNomsg_eq_P v (Spec.Argon2.colIx i)
        (by intro j k hj hk hjk; simp only [Spec.Argon2.colIx]; omega)
        (by intro k hk; simp only [Spec.Argon2.colIx]; omega))
  rw [hrows.1, hcols.1]
  cases withXor
  · simp only [Bool.false_eq_true, ↓reduceIte]
    exact xorBlock_comm _ _
  · simp only [↓reduceIte]
    exact xorBlock_rot _ _ _

/-! ### BLAKE2b output length, `H0`, the first blocks -/

theorem compress_size (h : Array UInt64) (b : Bytes) (t : Nat) (l : Bool) :
    (Spec.Blake2b.compress h b t l).size = 8 := by
  simp [Spec.Blake2b.compress]

theorem absorb_size (h : Array UInt64) (t : Nat) (bs : List Bytes) (hne : bs ≠ []) :
    (Spec.Blake2b.absorb h t bs).size = 8 := by
  induction bs generalizing h t with
  | nil => exact absurd rfl hne
  | cons b rest ih =>
    cases rest with
    | nil => simp [Spec.Blake2b.absorb, compress_size]
    | cons b' rest' =>
      rw [Spec.Blake2b.absorb]
      exact ih _ _ (by simp)

theorem chunks_ne_nil (n : Nat) (bs : Bytes) (h : bs ≠ []) : chunks n bs ≠ [] := by
  unfold chunks
  cases bs with
  | nil => exact absurd rfl h
  | cons b rest => simp [chunksAux]

theorem blocksOf_ne_nil (key msg : Bytes) : Spec.Blake2b.blocksOf key msg ≠ [] := by
  unfold Spec.Blake2b.blocksOf
  simp only []
  generalize (if key.isEmpty = true then [] else Spec.Blake2b.fit Spec.Blake2b.blockBytes key) ++ msg
    = data
  by_cases h : data.isEmpty = true
  · rw [if_pos h]; simp
  · rw [if_neg h]
    apply chunks_ne_nil
    intro h'
    rw [h'] at h
    exact h rfl

theorem toLE_length (n v : Nat) : (toLE n v).length = n := by
  induction n generalizing v with
  | zero => rfl
  | succ n ih => simp [toLE, ih]

theorem bytesOfWords_length (ws : Array UInt64) : (Spec.Blake2b.bytesOfWords ws).length = 8 * ws.size := by
  unfold Spec.Blake2b.bytesOfWords
  rw [← Array.length_toList]
  induction ws.toList with
  | nil => rfl
  | cons w rest ih => simp [List.flatMap_cons, toLE_length, ih]; omega

/-- a BLAKE2b digest has the requested length -/
theorem hash_length (n : Nat) (key msg : Bytes) (hn : n ≤ 64) :
    (Spec.Blake2b.hash n key msg).length = n := by
  unfold Spec.Blake2b.hash Spec.Blake2b.hashSP
  simp only [List.length_take, bytesOfWords_length, absorb_size _ _ _ (blocksOf_ne_nil _ _)]
  omega

theorem fold_rel {α β : Type} (R : α → β → Prop) (f : Nat → α → α) (g : Nat → β → β) (n : Nat)
    (a : α) (b : β) (h0 : R a b) (h : ∀ i x y, i < n → R x y → R (f i x) (g i y)) :
    R (Nat.fold n (fun i _ x => f i x) a) (Nat.fold n (fun i _ y => g i y) b) := by
  induction n with
  | zero => exact h0
  | succ n ih =>
    rw [Nat.fold_succ, Nat.fold_succ]
    exact h n _ _ (by omega) (ih (fun i x y hi => h i x y (by omega)))

/-- `argon2_initial_hash` is `H0` followed by eight zero bytes -/
theorem initialHash_eq (p outlen m t ty : Nat) (pwd salt : Bytes) (secret ad : Option Bytes) :
    initialHash p outlen m t ty pwd salt secret ad
      = Spec.Argon2.h0 ty pwd salt (secret.getD []) (ad.getD []) t m p outlen ++ zeros 8 := by
  have hin : initialHashInput p outlen m t ty pwd salt secret ad
      = Spec.Argon2.le32 p ++ Spec.Argon2.le32 outlen ++ Spec.Argon2.le32 m ++ Spec.Argon2.le32 t
        ++ Spec.Argon2.le32 Spec.Argon2.version ++ Spec.Argon2.le32 ty
        ++ Spec.Argon2.le32 pwd.length ++ pwd ++ Spec.Argon2.le32 salt.length ++ salt
        ++ Spec.Argon2.le32 (secret.getD []).length ++ secret.getD []
        ++ Spec.Argon2.le32 (ad.getD []).length ++ ad.getD [] := by
    unfold initialHashInput store32 Spec.Argon2.le32
    cases secret <;> cases ad <;>
      simp [List.append_assoc, ARGON2_VERSION_NUMBER, Spec.Argon2.version]
  unfold initialHash Spec.Argon2.h0
  simp only []
  rw [hin]
  have e64 : ARGON2_PREHASH_DIGEST_LENGTH = 64 := rfl
  have e72 : ARGON2_PREHASH_SEED_LENGTH = 72 := rfl
  rw [e64, e72]
  have hz : (zeros 72).drop 64 = zeros 8 := by decide
  rw [hz]
  apply List.take_of_length_le
  rw [List.length_append, hash_length _ _ _ (by decide)]
  simp [zeros]

theorem copyInto_first (H X A : Bytes) (hH : H.length = 64) (hA : A.length = 4) :
    copyInto (H ++ X) 64 A = H ++ A ++ X.drop 4 := by
  unfold copyInto
  rw [hA, List.take_append, List.drop_append, hH, List.take_of_length_le (by omega),
    List.drop_of_length_le (by omega)]
  simp

theorem copyInto_second (H A Y B : Bytes) (hH : H.length = 64) (hA : A.length = 4) (hY : Y.length = 4)
    (hB : B.length = 4) : copyInto (H ++ A ++ Y) 68 B = H ++ A ++ B := by
  unfold copyInto
  rw [hB, List.take_append, List.drop_append, List.length_append, hH, hA,
    List.take_of_length_le (by simp; omega), List.drop_of_length_le (by simp; omega)]
  simp [hY]

theorem loadBlock_eq (bs : Bytes) : loadBlock bs = Spec.Argon2.blockOfBytes bs := rfl
theorem storeBlock_eq (b : Block) : storeBlock b = Spec.Argon2.bytesOfBlock b := rfl

/-- `argon2_fill_first_blocks` computes the RFC's `B[i][0]`, `B[i][1]` -/
theorem fillFirstBlocksN_eq (inst : Instance) (q : Nat) (hq : q = inst.laneLength)
    (H0 X : Bytes) (hH : H0.length = 64) (hX : X.length = 8) (mem : Array Block) :
    fillFirstBlocksN (H0 ++ X) inst mem =
      Nat.fold inst.lanes (fun i _ mem =>
        let mem := mem.set! (i * q) (Spec.Argon2.blockOfBytes
          (Spec.Argon2.hprime 1024 (H0 ++ Spec.Argon2.le32 0 ++ Spec.Argon2.le32 i)))
        mem.set! (i * q + 1) (Spec.Argon2.blockOfBytes
          (Spec.Argon2.hprime 1024 (H0 ++ Spec.Argon2.le32 1 ++ Spec.Argon2.le32 i)))) mem := by
  unfold fillFirstBlocksN
  have key := fold_rel (fun (st : Bytes × Array Block) (m : Array Block) =>
      st.2 = m ∧ ∃ Y, Y.length = 8 ∧ st.1 = H0 ++ Y)
    (firstBlocksStepN inst)
    (fun i mem =>
        let mem := mem.set! (i * q) (Spec.Argon2.blockOfBytes
          (Spec.Argon2.hprime 1024 (H0 ++ Spec.Argon2.le32 0 ++ Spec.Argon2.le32 i)))
        mem.set! (i * q + 1) (Spec.Argon2.blockOfBytes
          (Spec.Argon2.hprime 1024 (H0 ++ Spec.Argon2.le32 1 ++ Spec.Argon2.le32 i))))
    inst.lanes (H0 ++ X, mem) mem ⟨rfl, X, hX, rfl⟩ (by
      rintro i ⟨bh, m1⟩ m2 _ ⟨hm, Y, hY, hbh⟩
      simp only [] at hm hbh
      subst hm hbh hq
      unfold firstBlocksStepN
      simp only []
      have e0 : Spec.Argon2.le32 0 = [0, 0, 0, 0] := by decide
      have e1 : Spec.Argon2.le32 1 = [1, 0, 0, 0] := by decide
      have hl : (store32 i).length = 4 := toLE_length 4 i
      have hs : store32 i = Spec.Argon2.le32 i := rfl
      have hd : (Y.drop 4).length = 4 := by simp [hY]
      rw [copyInto_first H0 Y _ hH rfl, copyInto_second H0 _ _ _ hH rfl hd hl]
      have h3 : copyInto (H0 ++ [0, 0, 0, 0] ++ store32 i) 64 [1, 0, 0, 0]
          = H0 ++ [1, 0, 0, 0] ++ store32 i := by
        rw [List.append_assoc H0, copyInto_first H0 _ _ hH rfl]
        rfl
      rw [h3]
      simp only [e0, e1, hs, loadBlock_eq]
      exact ⟨trivial, [1, 0, 0, 0] ++ Spec.Argon2.le32 i, by simp [Spec.Argon2.le32, toLE_length],
        by rw [List.append_assoc]⟩)
  exact key.1

/-! ### `generate_addresses` computes the RFC's address blocks -/

theorem fold_inv {α : Type} (Inv : Nat → α → Prop) (f : Nat → α → α) (n : Nat) (a : α)
    (h0 : Inv 0 a) (h : ∀ i x, i < n → Inv i x → Inv (i + 1) (f i x)) :
    Inv n (Nat.fold n (fun i _ x => f i x) a) := by
  induction n with
  | zero => exact h0
  | succ n ih =>
    rw [Nat.fold_succ]
    exact h n _ (by omega) (ih (fun i x hi => h i x (by omega)))

theorem setBang_getBang_self {α} [Inhabited α] (a : Array α) (i : Nat) : a.set! i a[i]! = a := by
  apply Array.ext_getElem?
  intro k
  rw [Array.set!_eq_setIfInBounds, Array.getElem?_setIfInBounds]
  by_cases hik : i = k
  · subst hik
    rw [if_pos rfl]
    by_cases hi : i < a.size
    · rw [if_pos hi, getElem!_pos a i hi, Array.getElem?_eq_getElem hi]
    · rw [if_neg hi, Array.getElem?_eq_none (by omega)]
  · rw [if_neg hik]

theorem inputBlock0_get6 (inst : Instance) (pos : Position) : (inputBlock0 inst pos)[6]! = 0 := by
  simp only [inputBlock0]
  rw [getBang_setBang_ne _ (by decide), getBang_setBang_ne _ (by decide),
    getBang_setBang_ne _ (by decide), getBang_setBang_ne _ (by decide),
    getBang_setBang_ne _ (by decide), getBang_setBang_ne _ (by decide), zeroBlock_get]

theorem inputBlock0_size (inst : Instance) (pos : Position) : (inputBlock0 inst pos).size = 128 := by
  simp [inputBlock0]

/-- the address block with counter `ctr`, as `generate_addresses` computes it -/
def addrBlkN (inst : Instance) (pos : Position) (ctr : Nat) : Block :=
  fillBlock zeroBlock
    (fillBlock zeroBlock ((inputBlock0 inst pos).set! 6 (UInt64.ofNat ctr)) zeroBlock true)
    zeroBlock true

theorem setBang_setBang {α} (a : Array α) (i : Nat) (x y : α) : (a.set! i x).set! i y = a.set! i y := by
  simp only [Array.set!_eq_setIfInBounds, Array.setIfInBounds_setIfInBounds]

/-- number of refills before iteration `n` of `generate_addresses` -/
def ctrAt (n : Nat) : Nat := (n + 127) / 128
theorem ctrAt_zero : ctrAt 0 = 0 := by decide
theorem ctrAt_succ_of_mod {n : Nat} (h : n % 128 = 0) : ctrAt (n + 1) = ctrAt n + 1 := by
  unfold ctrAt; omega
theorem ctrAt_succ_of_not_mod {n : Nat} (h : n % 128 ≠ 0) : ctrAt (n + 1) = ctrAt n := by
  unfold ctrAt; omega
theorem ctrAt_succ_eq (n : Nat) : ctrAt (n + 1) = n / 128 + 1 := by unfold ctrAt; omega
theorem ctrAt_le (n : Nat) : ctrAt n ≤ n := by unfold ctrAt; omega

/-- `pseudo_rands[k]` is word `k % 128` of address block number `k / 128 + 1` -/
theorem genAddrN_get (inst : Instance) (pos : Position) (pr : Array UInt64)
    (hsl : inst.segmentLength < 2 ^ 32) (hpr : pr.size = inst.segmentLength)
    {k : Nat} (hk : k < inst.segmentLength) :
    (genAddrN inst pos pr)[k]! = (addrBlkN inst pos (k / 128 + 1))[k % 128]! := by
  unfold genAddrN
  have h00 : inputBlock0 inst pos = (inputBlock0 inst pos).set! 6 (UInt64.ofNat (ctrAt 0)) := by
    have := setBang_getBang_self (inputBlock0 inst pos) 6
    rw [inputBlock0_get6] at this
    rw [ctrAt_zero]
    exact this.symm
  have key := fold_inv
    (fun n (st : Block × Block × Array UInt64) =>
      st.1 = (inputBlock0 inst pos).set! 6 (UInt64.ofNat (ctrAt n))
      ∧ (n % 128 ≠ 0 → st.2.1 = addrBlkN inst pos (ctrAt n))
      ∧ st.2.2.size = inst.segmentLength
      ∧ ∀ j, j < n → st.2.2[j]! = (addrBlkN inst pos (j / 128 + 1))[j % 128]!)
    genStep inst.segmentLength (inputBlock0 inst pos, zeroBlock, pr)
    (by
      refine ⟨?_, ?_, ?_, ?_⟩
      · simp only []
        exact h00
      · intro h; exact absurd (Nat.zero_mod 128) h
      · exact hpr
      · intro j hj; exact absurd hj (Nat.not_lt_zero j))
    (by
      rintro n ⟨ib, ab, p⟩ hn ⟨h1, h2, h3, h4⟩
      simp only [] at h1 h2 h3 h4
      have e64 : UInt64.size = 2 ^ 64 := rfl
      have hc := ctrAt_le n
      unfold genStep
      simp only []
      rw [h1]
      by_cases hm : n % 128 = 0
      · simp only [hm, ↓reduceIte]
        rw [getBang_setBang_self _ (by rw [inputBlock0_size]; decide),
          UInt64.toNat_ofNat_of_lt' (by omega), setBang_setBang, ← ctrAt_succ_of_mod hm]
        refine ⟨rfl, fun _ => rfl, by simp [h3], ?_⟩
        intro j hj
        by_cases hjn : j = n
        · subst hjn
          rw [getBang_setBang_self _ (by omega), ctrAt_succ_eq, hm]
          rfl
        · rw [getBang_setBang_ne _ (by omega)]
          exact h4 j (by omega)
      · simp only [hm, ↓reduceIte]
        rw [ctrAt_succ_of_not_mod hm]
        refine ⟨rfl, fun _ => h2 hm, by simp [h3], ?_⟩
        intro j hj
        by_cases hjn : j = n
        · subst hjn
          rw [getBang_setBang_self _ (by omega), h2 hm, ← ctrAt_succ_of_not_mod hm, ctrAt_succ_eq]
        · rw [getBang_setBang_ne _ (by omega)]
          exact h4 j (by omega))
  exact key.2.2.2 k hk

theorem G_size (x y : Block) : (Spec.Argon2.G x y).size = 128 := by
  unfold Spec.Argon2.G
  exact xorBlock_size _ _

/-- `fill_block(zero, x, zero, true)` is `G(ZERO, x)` -/
theorem fillBlock_zero (x : Block) : fillBlock zeroBlock x zeroBlock true = Spec.Argon2.G zeroBlock x := by
  rw [fillBlock_eq]
  simp only [↓reduceIte, ← xorBlock_eq_spec]
  exact xorBlock_zero_right (G_size _ _)

theorem zeroBlock_eq_spec : zeroBlock = Spec.Argon2.zeroBlock := rfl

theorem getBang_append_left {α} [Inhabited α] {a b : Array α} {i : Nat} (h : i < a.size) :
    (a ++ b)[i]! = a[i]! := by
  rw [getElem!_def, getElem!_def, Array.getElem?_append_left h]

theorem getBang_append_right {α} [Inhabited α] {a b : Array α} {i : Nat} (h : a.size ≤ i) :
    (a ++ b)[i]! = b[i - a.size]! := by
  rw [getElem!_def, getElem!_def, Array.getElem?_append_right h]

theorem getBang_replicate_zero (n i : Nat) : (Array.replicate n (0 : UInt64))[i]! = 0 := by
  rw [getElem!_def, Array.getElem?_replicate]
  by_cases h : i < n
  · rw [if_pos h]
  · rw [if_neg h]; rfl

/-- the input block of `generate_addresses` is the RFC's
`LE64(r) ‖ LE64(l) ‖ LE64(sl) ‖ LE64(m') ‖ LE64(t) ‖ LE64(y) ‖ LE64(ctr) ‖ ZERO(968)` -/
theorem inputBlock_eq (inst : Instance) (pos : Position) (ctr : Nat) :
    (inputBlock0 inst pos).set! 6 (UInt64.ofNat ctr) =
      #[UInt64.ofNat pos.pass, UInt64.ofNat pos.lane, UInt64.ofNat pos.slice,
        UInt64.ofNat inst.memoryBlocks, UInt64.ofNat inst.passes, UInt64.ofNat inst.ty,
        UInt64.ofNat ctr] ++ Array.replicate (Spec.Argon2.blockWords - 7) 0 := by
  apply block_ext (by simp [inputBlock0_size]) (by simp [Spec.Argon2.blockWords])
  intro i hi
  have hsz := inputBlock0_size inst pos
  have hcases : i = 0 ∨ i = 1 ∨ i = 2 ∨ i = 3 ∨ i = 4 ∨ i = 5 ∨ i = 6 ∨ 7 ≤ i := by omega
  rcases hcases with h | h | h | h | h | h | h | h
  · subst h; rw [getBang_append_left (by simp)]
    simp [inputBlock0, getBang_setBang_ne, getBang_setBang_self]
  · subst h; rw [getBang_append_left (by simp)]
    simp [inputBlock0, getBang_setBang_ne, getBang_setBang_self]
  · subst h; rw [getBang_append_left (by simp)]
    simp [inputBlock0, getBang_setBang_ne, getBang_setBang_self]
  · subst h; rw [getBang_append_left (by simp)]
    simp [inputBlock0, getBang_setBang_ne, getBang_setBang_self]
  · subst h; rw [getBang_append_left (by simp)]
    simp [inputBlock0, getBang_setBang_ne, getBang_setBang_self]
  · subst h; rw [getBang_append_left (by simp)]
    simp [inputBlock0, getBang_setBang_ne, getBang_setBang_self]
  · subst h; rw [getBang_append_left (by simp)]
    simp [inputBlock0, getBang_setBang_ne, getBang_setBang_self]
  · rw [getBang_append_right (by simpa using h), getBang_replicate_zero]
    simp only [inputBlock0]
    rw [getBang_setBang_ne _ (by omega), getBang_setBang_ne _ (by omega),
      getBang_setBang_ne _ (by omega), getBang_setBang_ne _ (by omega),
      getBang_setBang_ne _ (by omega), getBang_setBang_ne _ (by omega),
      getBang_setBang_ne _ (by omega), zeroBlock_get]

theorem addrBlkN_eq (inst : Instance) (pos : Position) (c : Spec.Argon2.Params)
    (hm : c.m' = inst.memoryBlocks) (ht : c.t = inst.passes) (hty : c.ty = inst.ty) (ctr : Nat) :
    addrBlkN inst pos ctr = Spec.Argon2.addressBlock c pos.pass pos.lane pos.slice ctr := by
  unfold addrBlkN Spec.Argon2.addressBlock
  rw [fillBlock_zero, fillBlock_zero, inputBlock_eq, hm, ht, hty]
  rfl

theorem appendFold_get (blk : Nat → Array UInt64) (hb : ∀ k, (blk k).size = 128) (n : Nat) :
    (Nat.fold n (fun k _ acc => acc ++ blk (k + 1)) #[]).size = 128 * n
      ∧ ∀ j, j < 128 * n →
        (Nat.fold n (fun k _ acc => acc ++ blk (k + 1)) #[])[j]! = (blk (j / 128 + 1))[j % 128]! := by
  induction n with
  | zero => exact ⟨rfl, fun j hj => absurd hj (by omega)⟩
  | succ n ih =>
    obtain ⟨ih1, ih2⟩ := ih
    rw [Nat.fold_succ]
    refine ⟨by rw [Array.size_append, ih1, hb]; omega, ?_⟩
    intro j hj
    by_cases hjn : j < 128 * n
    · rw [getBang_append_left (by omega)]
      exact ih2 j hjn
    · rw [getBang_append_right (by omega), ih1]
      have e1 : j / 128 = n := by omega
      have e2 : j - 128 * n = j % 128 := by omega
      rw [e1, e2]

/-- the spec's `J1‖J2` word for segment index `idx` -/
theorem segmentAddresses_get (c : Spec.Argon2.Params) (r l s : Nat) {idx : Nat} (h : idx < c.sl) :
    (Spec.Argon2.segmentAddresses c r l s)[idx]!
      = (Spec.Argon2.addressBlock c r l s (idx / 128 + 1))[idx % 128]! := by
  unfold Spec.Argon2.segmentAddresses
  have hb : ∀ k, (Spec.Argon2.addressBlock c r l s k).size = 128 := by
    intro k; unfold Spec.Argon2.addressBlock; exact G_size _ _
  have e : Spec.Argon2.blockWords = 128 := rfl
  rw [e]
  exact (appendFold_get (Spec.Argon2.addressBlock c r l s) hb ((c.sl + 128 - 1) / 128)).2 idx
    (by omega)

/-! ### one iteration of `fill_segment` is the spec's `fillBlock` -/

theorem lo32_toNat (w : UInt64) : (Spec.Argon2.lo32 w).toNat = w.toNat % 2 ^ 32 := by
  unfold Spec.Argon2.lo32
  rw [UInt64.toNat_and]
  exact Nat.and_two_pow_sub_one_eq_mod _ 32

theorem shr32_toNat (w : UInt64) : (w >>> 32).toNat = w.toNat / 2 ^ 32 := by
  rw [UInt64.toNat_shiftRight]
  exact Nat.shiftRight_eq_div_pow _ _

/-- the instance of the model and the parameter record of the specification agree -/
structure ParamsRel (inst : Instance) (c : Spec.Argon2.Params) : Prop where
  ty : c.ty = inst.ty
  t : c.t = inst.passes
  p : c.p = inst.lanes
  m' : c.m' = inst.memoryBlocks
  q : c.q = inst.laneLength
  sl : c.sl = inst.segmentLength

theorem dia_eq_spec (inst : Instance) (pos : Position) (hty : inst.ty = 1 ∨ inst.ty = 2) :
    dataIndependentAddressing inst pos = Spec.Argon2.dataIndependent inst.ty pos.pass pos.slice := by
  unfold dataIndependentAddressing Spec.Argon2.dataIndependent
  rcases hty with h | h <;> rw [h]
  · simp [Argon2id]
  · by_cases hp : pos.pass = 0
    · by_cases hs : pos.slice < 2
      · simp [Argon2id, ARGON2_SYNC_POINTS, hp, hs]
      · simp [Argon2id, ARGON2_SYNC_POINTS, hp, hs]; omega
    · have e1 : (pos.pass != 0) = true := by simp [hp]
      have e2 : (pos.pass == 0) = false := by simp [hp]
      simp [Argon2id, e1, e2]

theorem stepMem_eq_spec {inst : Instance} {c : Spec.Argon2.Params} (hc : ParamsRel inst c)
    (pos : Position) (pr addrs : Array UInt64) (i : Nat) (mem : Array Block)
    (hty : inst.ty = 1 ∨ inst.ty = 2)
    (hpr : dataIndependentAddressing inst pos = true → pr[i]! = addrs[i]!) :
    stepMem inst pos (dataIndependentAddressing inst pos) pr i mem
      = Spec.Argon2.fillBlock c addrs pos.pass pos.lane pos.slice mem i := by
  obtain ⟨h1, h2, h3, h4, h5, h6⟩ := hc
  unfold stepMem Spec.Argon2.fillBlock
  simp only [h1, h3, h5, h6, ← dia_eq_spec inst pos hty]
  -- the previous block
  have hprev : prevAt inst pos i = pos.lane * inst.laneLength +
      (if (pos.slice * inst.segmentLength + i == 0) = true then inst.laneLength - 1
        else pos.slice * inst.segmentLength + i - 1) := by
    unfold prevAt; simp only [beq_iff_eq]
  have hcurr : currAt inst pos i = pos.lane * inst.laneLength + (pos.slice * inst.segmentLength + i) := by
    unfold currAt; rw [Nat.add_assoc]
  rw [← hprev, ← hcurr]
  generalize prevAt inst pos i = prev
  generalize currAt inst pos i = curr
  -- the pseudo-random word
  have hw : pseudoRandAt (dataIndependentAddressing inst pos) pr mem prev i
      = (if dataIndependentAddressing inst pos = true then addrs[i]! else (mem[prev]!)[0]!) := by
    unfold pseudoRandAt
    by_cases hd : dataIndependentAddressing inst pos = true
    · rw [if_pos hd, if_pos hd, hpr hd]
    · rw [if_neg hd, if_neg hd]
  rw [hw]
  generalize (if dataIndependentAddressing inst pos = true then addrs[i]! else (mem[prev]!)[0]!) = w
  have hlane : refLaneN inst pos w
      = (if (pos.pass == 0 && pos.slice == 0) = true then pos.lane else (w >>> 32).toNat % inst.lanes) := by
    unfold refLaneN
    rw [shr32_toNat]
    simp only [Bool.and_eq_true, beq_iff_eq]
  rw [← hlane, lo32_toNat]
  generalize hrl : refLaneN inst pos w = refLane
  have hcol : refIndexN inst { pos with index := i } (w.toNat % 2 ^ 32) (refLane == pos.lane)
      = Spec.Argon2.refColumn c pos.pass pos.slice i (refLane == pos.lane) (w.toNat % 2 ^ 32) :=
    refIndexN_eq_spec inst { pos with index := i } _ _ c h5 h6 (by
      intro hp hs
      rw [← hrl]
      unfold refLaneN
      rw [if_pos ⟨hp, hs⟩]
      exact beq_self_eq_true _)
  rw [← hcol, fillBlock_eq, Nat.mul_comm refLane inst.laneLength]
  by_cases hp0 : pos.pass = 0
  · simp [hp0]
  · simp [hp0]

/-- `fill_segment` is the spec's `fillSegment` -/
theorem fillSegmentN_eq_spec {inst : Instance} {c : Spec.Argon2.Params} (hc : ParamsRel inst c)
    (pos : Position) (st : Array Block × Array UInt64) (hty : inst.ty = 1 ∨ inst.ty = 2)
    (hsl : inst.segmentLength < 2 ^ 32) (hpr : st.2.size = inst.segmentLength) :
    (fillSegmentN inst pos st).1 = Spec.Argon2.fillSegment c pos.pass pos.lane pos.slice st.1
      ∧ (fillSegmentN inst pos st).2.size = inst.segmentLength := by
  have hsz : (if dataIndependentAddressing inst pos = true then genAddrN inst pos st.2 else st.2).size
      = inst.segmentLength := by
    split
    · exact (generateAddresses_ok inst pos st.2 hsl hpr).2
    · exact hpr
  refine ⟨?_, hsz⟩
  unfold fillSegmentN Spec.Argon2.fillSegment
  simp only []
  have hstart : startingIndex pos = (if (pos.pass == 0 && pos.slice == 0) = true then 2 else 0) := by
    unfold startingIndex
    simp only [Bool.and_eq_true, beq_iff_eq]
  rw [← hstart, hc.sl]
  refine (fold_congr_inv (fun _ => True) _ _ _ _ trivial ?_).1
  intro k mem hk _
  refine ⟨?_, trivial⟩
  apply stepMem_eq_spec hc pos _ _ _ mem hty
  intro hd
  rw [if_pos hd, hc.ty, ← dia_eq_spec inst pos hty, if_pos hd,
    genAddrN_get inst pos st.2 hsl hpr (by omega), addrBlkN_eq inst pos c hc.m' hc.t hc.ty,
    segmentAddresses_get c _ _ _ (by rw [hc.sl]; omega)]

/-- one pass: `argon2_fill_memory_blocks` is the spec's `fillPass` -/
theorem fillMemoryBlocksN_eq_spec {inst : Instance} {c : Spec.Argon2.Params} (hc : ParamsRel inst c)
    (r : Nat) (st : Array Block × Array UInt64) (hty : inst.ty = 1 ∨ inst.ty = 2)
    (hsl : inst.segmentLength < 2 ^ 32) (hpr : st.2.size = inst.segmentLength) :
    (fillMemoryBlocksN inst r st).1 = Spec.Argon2.fillPass c r st.1
      ∧ (fillMemoryBlocksN inst r st).2.size = inst.segmentLength := by
  unfold fillMemoryBlocksN Spec.Argon2.fillPass Spec.Argon2.fillSlice
  have e4 : Spec.Argon2.syncPoints = 4 := rfl
  rw [e4, hc.p]
  exact fold_rel (fun (st : Array Block × Array UInt64) (mem : Array Block) =>
      st.1 = mem ∧ st.2.size = inst.segmentLength) _ _ 4 st st.1 ⟨rfl, hpr⟩ (by
    rintro s st mem _ ⟨h1, h2⟩
    subst h1
    exact fold_rel (fun (st : Array Block × Array UInt64) (mem : Array Block) =>
        st.1 = mem ∧ st.2.size = inst.segmentLength) _ _ inst.lanes st st.1 ⟨rfl, h2⟩ (by
      rintro l st mem _ ⟨h1, h2⟩
      subst h1
      exact fillSegmentN_eq_spec hc { pass := r, lane := l, slice := s, index := 0 } st hty hsl h2))

/-! ### every block has 128 words; the final block -/

/-- every block of the memory has 128 words -/
def All128 (mem : Array Block) : Prop := ∀ k, k < mem.size → (mem[k]!).size = 128

theorem all128_replicate (n : Nat) : All128 (Array.replicate n zeroBlock) := by
  intro k hk
  rw [getElem!_pos (Array.replicate n zeroBlock) k hk, Array.getElem_replicate]
  exact zeroBlock_size

theorem all128_set {mem : Array Block} (h : All128 mem) (i : Nat) {b : Block} (hb : b.size = 128) :
    All128 (mem.set! i b) := by
  intro k hk
  rw [size_setBang] at hk
  by_cases hik : i = k
  · subst hik; rw [getBang_setBang_self _ hk]; exact hb
  · rw [getBang_setBang_ne _ hik]; exact h k hk

theorem loadBlock_size (bs : Bytes) : (loadBlock bs).size = 128 := by
  simp [loadBlock, Spec.Blake2b.wordsOfBytes, ARGON2_QWORDS_IN_BLOCK]

theorem stepMem_all128 (inst : Instance) (pos : Position) (dia : Bool) (pr : Array UInt64) (i : Nat)
    {mem : Array Block} (h : All128 mem) : All128 (stepMem inst pos dia pr i mem) := by
  unfold stepMem
  exact all128_set h _ (fillBlock_size _ _ _ _)

theorem fillSegmentN_all128 (inst : Instance) (pos : Position) {st : Array Block × Array UInt64}
    (h : All128 st.1) : All128 (fillSegmentN inst pos st).1 := by
  unfold fillSegmentN
  simp only []
  exact fold_inv (fun _ mem => All128 mem) _ _ _ h (fun i mem _ hm => stepMem_all128 _ _ _ _ _ hm)

theorem fillMemoryBlocksN_all128 (inst : Instance) (r : Nat) {st : Array Block × Array UInt64}
    (h : All128 st.1) : All128 (fillMemoryBlocksN inst r st).1 := by
  unfold fillMemoryBlocksN
  exact fold_inv (fun _ (st : Array Block × Array UInt64) => All128 st.1) _ _ _ h
    (fun s st _ hs => fold_inv (fun _ (st : Array Block × Array UInt64) => All128 st.1) _ _ _ hs
      (fun l st _ hl => fillSegmentN_all128 inst _ hl))

theorem fillFirstBlocksN_all128 (bh : Bytes) (inst : Instance) {mem : Array Block} (h : All128 mem) :
    All128 (fillFirstBlocksN bh inst mem) := by
  unfold fillFirstBlocksN
  exact fold_inv (fun _ (st : Bytes × Array Block) => All128 st.2) _ _ _ h (fun l st _ hs => by
    unfold firstBlocksStepN
    exact all128_set (all128_set hs _ (loadBlock_size _)) _ (loadBlock_size _))

theorem fold_shift {α : Type} (f : Nat → α → α) (n : Nat) (a : α) :
    Nat.fold (n + 1) (fun i _ x => f i x) a = Nat.fold n (fun i _ x => f (i + 1) x) (f 0 a) := by
  induction n with
  | zero => rfl
  | succ n ih => rw [Nat.fold_succ, ih, Nat.fold_succ]

/-- `argon2_finalize`'s XOR of the last blocks is the spec's `finalBlock` -/
theorem finalBlockN_eq_spec {inst : Instance} {c : Spec.Argon2.Params} (hc : ParamsRel inst c)
    (hI : InstInv inst) {mem : Array Block} (hmem : mem.size = inst.memoryBlocks) (h : All128 mem) :
    finalBlockN inst mem = Spec.Argon2.finalBlock c mem := by
  unfold finalBlockN Spec.Argon2.finalBlock
  have hl := hI.lanes_ge; have hsl := hI.sl_ge; have hll := hI.ll_eq
  have h0 := lane_le_mem (l := 0) hI (by omega)
  simp only [Nat.zero_mul, Nat.zero_add] at h0
  rw [hc.p, hc.q]
  have e : inst.lanes = (inst.lanes - 1) + 1 := by omega
  conv => rhs; rw [e, fold_shift]
  rw [Nat.zero_mul, Nat.zero_add, ← xorBlock_eq_spec, ← zeroBlock_eq_spec,
    xorBlock_zero_left (h _ (by omega))]
  refine (fold_congr_inv (fun _ => True) _ _ _ _ trivial ?_).1
  intro k acc _ _
  refine ⟨?_, trivial⟩
  have : (1 + k) * inst.laneLength + (inst.laneLength - 1) = (k + 1) * inst.laneLength + inst.laneLength - 1 := by
    rw [Nat.add_comm 1 k]; omega
  rw [this]
  rfl

/-! ### `argon2_hash` is RFC 9106 -/

theorem fillSegmentN_size (inst : Instance) (pos : Position) (st : Array Block × Array UInt64) :
    (fillSegmentN inst pos st).1.size = st.1.size := by
  unfold fillSegmentN
  simp only []
  exact fold_size_inv (fun k m => stepMem inst pos _ _ (startingIndex pos + k) m)
    (fun k m => stepMem_size _ _ _ _ _ _) _ _

theorem fillMemoryBlocksN_size (inst : Instance) (r : Nat) (st : Array Block × Array UInt64) :
    (fillMemoryBlocksN inst r st).1.size = st.1.size := by
  unfold fillMemoryBlocksN
  exact fold_inv (fun _ (st' : Array Block × Array UInt64) => st'.1.size = st.1.size) _ _ _ rfl
    (fun s st' _ hs => fold_inv (fun _ (st'' : Array Block × Array UInt64) => st''.1.size = st.1.size)
      _ _ _ hs (fun l st'' _ hl => by rw [fillSegmentN_size]; exact hl))

theorem mkInstance_rel {ty t m p : Nat} (hp : 1 ≤ p) (hm8 : 8 * p ≤ m) :
    ParamsRel (mkInstance ty t m p) (Spec.Argon2.mkParams ty t m p) := by
  have hmax : max m (8 * p) = m := by omega
  have hq : 4 * p * (m / (4 * p)) / p = m / (4 * p) * 4 := by
    rw [Nat.mul_comm 4 p, Nat.mul_assoc, Nat.mul_div_cancel_left _ (by omega), Nat.mul_comm]
  refine ⟨rfl, rfl, rfl, ?_, ?_, ?_⟩
  · show 4 * p * (m / (4 * p)) = max m (8 * p) / (4 * p) * (4 * p)
    rw [hmax, Nat.mul_comm]
  · show 4 * p * (m / (4 * p)) / p = max m (8 * p) / (4 * p) * 4
    rw [hmax, hq]
  · show 4 * p * (m / (4 * p)) / p / Spec.Argon2.syncPoints = max m (8 * p) / (4 * p)
    have e4 : Spec.Argon2.syncPoints = 4 := rfl
    rw [hmax, hq, e4, Nat.mul_div_cancel _ (by decide)]

/-- **The pure function computed by the model of `argon2_hash` is RFC 9106 Argon2** (the
RFC-structured executable specification, which passes the RFC's test vectors), for Argon2i and
Argon2id, any number of lanes, `m ≥ 8p`. -/
theorem argon2HashN_eq_spec {ty t m p : Nat} (pwd salt : Bytes) (secret ad : Option Bytes) (outlen : Nat)
    (hty : ty = 1 ∨ ty = 2) (hp : 1 ≤ p) (hp' : p < 2 ^ 29) (hm8 : 8 * p ≤ m) (hm : m < 2 ^ 32) :
    argon2HashN ty t m p pwd salt secret ad outlen
      = Spec.Argon2.argon2 ty pwd salt (secret.getD []) (ad.getD []) t m p outlen := by
  have hI : InstInv (mkInstance ty t m p) := mkInstance_inv hp hm hp'
  have hc : ParamsRel (mkInstance ty t m p) (Spec.Argon2.mkParams ty t m p) := mkInstance_rel hp hm8
  have hsl : (mkInstance ty t m p).segmentLength < 2 ^ 32 := by
    have := hI.ll_eq; have := hI.mb_lt; have := hI.mb_eq; have := hI.lanes_ge
    have : (mkInstance ty t m p).laneLength ≤ (mkInstance ty t m p).lanes * (mkInstance ty t m p).laneLength :=
      Nat.le_mul_of_pos_left _ hI.lanes_ge
    omega
  unfold argon2HashN Spec.Argon2.argon2
  simp only []
  generalize hinst : mkInstance ty t m p = inst at hI hc hsl
  generalize hcdef : Spec.Argon2.mkParams ty t m p = c at hc
  have hity : inst.ty = 1 ∨ inst.ty = 2 := by rw [← hinst]; exact hty
  -- first blocks
  have hfirst : fillFirstBlocksN (initialHash p outlen m t ty pwd salt secret ad) inst
      (Array.replicate inst.memoryBlocks zeroBlock)
      = Spec.Argon2.initMemory c (Spec.Argon2.h0 ty pwd salt (secret.getD []) (ad.getD []) t m p outlen) := by
    rw [initialHash_eq, fillFirstBlocksN_eq inst c.q hc.q _ _
      (by unfold Spec.Argon2.h0; exact hash_length _ _ _ (by decide)) (by simp [zeros])]
    unfold Spec.Argon2.initMemory
    rw [hc.p, hc.m']
    rfl
  have hfirst_sz : (fillFirstBlocksN (initialHash p outlen m t ty pwd salt secret ad) inst
      (Array.replicate inst.memoryBlocks zeroBlock)).size = inst.memoryBlocks :=
    (fillFirstBlocks_ok _ hI (by simp)).2
  have hfirst_128 := fillFirstBlocksN_all128 (initialHash p outlen m t ty pwd salt secret ad) inst
    (all128_replicate inst.memoryBlocks)
  -- the passes
  have hpass := fold_rel (fun (st : Array Block × Array UInt64) (mem : Array Block) =>
      st.1 = mem ∧ st.2.size = inst.segmentLength ∧ All128 st.1 ∧ st.1.size = inst.memoryBlocks)
    (fillMemoryBlocksN inst) (Spec.Argon2.fillPass c) t
    (fillFirstBlocksN (initialHash p outlen m t ty pwd salt secret ad) inst
      (Array.replicate inst.memoryBlocks zeroBlock), Array.replicate inst.segmentLength 0)
    (Spec.Argon2.initMemory c (Spec.Argon2.h0 ty pwd salt (secret.getD []) (ad.getD []) t m p outlen))
    ⟨hfirst, by simp, hfirst_128, hfirst_sz⟩ (by
      rintro r st mem _ ⟨h1, h2, h3, h4⟩
      subst h1
      obtain ⟨e1, e2⟩ := fillMemoryBlocksN_eq_spec hc r st hity hsl h2
      exact ⟨e1, e2, fillMemoryBlocksN_all128 inst r h3, by rw [fillMemoryBlocksN_size]; exact h4⟩)
  obtain ⟨e1, _, e3, e4⟩ := hpass
  rw [finalBlockN_eq_spec hc hI e4 e3, e1, storeBlock_eq]

end DryocVerif.Proofs.Argon2
