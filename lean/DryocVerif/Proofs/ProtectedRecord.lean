import DryocVerif.Proofs.ProtectedData
/-
The runtime record (`Obj.rcd` = `d.lm` / `d.pm`) at work:
* the order of `Drop` / `Zeroize for Protected` (pages writable and still locked while the bytes are wiped);
* what a STALE record does to a drop (counter-models: a transition that forgets to write the record);
* the token `zeroize`: it coincides with `fill:00` on bare containers and `Unlocked` read-write regions, and the
  exact condition under which it preserves the invariant.
-/
namespace DryocVerif.Proofs.Protected
open DryocVerif DryocVerif.Model.Protected

/-! ### pages of a region at the wipe step of `Zeroize for Protected` -/

theorem protAtWipe_perm {c : Cfg} (hP : 0 < c.P) (m : Mach) (v : PVec) (pm : PM) (p : Nat)
    (h1 : v.base + 1 ≤ p) (h2 : p < v.base + 1 + pagesOf c.P v.len) :
    (protAtWipe c m v pm).k.perm p = if pm = .rw then m.k.perm p else .rw := by
  unfold protAtWipe
  by_cases h : pm = .rw
  · simp [h]
  · simp only [h, if_false, dryocMprotect, ptr_eq]
    rw [mprotect_perm hP]; simp [h1, h2]

theorem protAtWipe_locked (c : Cfg) (m : Mach) (v : PVec) (pm : PM) :
    (protAtWipe c m v pm).k.locked = m.k.locked := by
  unfold protAtWipe
  by_cases h : pm = .rw <;> simp [h, dryocMprotect]

/-- the data pages of a live region, in page indices -/
def isDataPage (c : Cfg) (v : PVec) (p : Nat) : Prop := v.base + 1 ≤ p ∧ p < v.base + 1 + pagesOf c.P v.len

/-- **`drop_wipes_writable`**: when a live `Protected` region whose record tracks its type is dropped (or
`zeroize`d), at the moment the bytes are wiped every data page is writable -/
theorem wipe_writable {c : Cfg} (hP : 0 < c.P) {s : State} (h : Inv c s) {i : Nat} {sl : Slot}
    (hi : s.slots[i]? = some sl) (hg : sl.gone = false) {lm : LM} {pm : PM} (hst : sl.o.st = .prot lm pm)
    {p : Nat} (hp : isDataPage c sl.o.v p) :
    (protAtWipe c s.m sl.o.v sl.o.rcd.2).k.perm p = .rw := by
  have hb := inv_block h hi hg
  have hrc := h.rcd sl (List.mem_of_getElem? hi) hg lm pm hst
  have hd := hb.data p hp.1 hp.2
  simp only [blkOf, hst, stPerm] at hd
  rw [protAtWipe_perm hP _ _ _ _ hp.1 hp.2, hrc]
  by_cases hrw : pm = .rw
  · simp only [hrw, if_true]; rw [hd.1, hrw]; rfl
  · simp [hrw]

/-- **`drop_wipes_while_locked`** (page form): for a `Locked` region, at the wipe step every data page is still
locked and writable — `munlock` comes after the wipe (`protZeroize`, `protDrop_order`) -/
theorem wipe_while_locked {c : Cfg} (hP : 0 < c.P) {s : State} (h : Inv c s) {i : Nat} {sl : Slot}
    (hi : s.slots[i]? = some sl) (hg : sl.gone = false) {pm : PM} (hst : sl.o.st = .prot .locked pm)
    {p : Nat} (hp : isDataPage c sl.o.v p) :
    (protAtWipe c s.m sl.o.v sl.o.rcd.2).k.locked p = true ∧
    (protAtWipe c s.m sl.o.v sl.o.rcd.2).k.perm p = .rw := by
  refine ⟨?_, wipe_writable hP h hi hg hst hp⟩
  have hb := inv_block h hi hg
  have hd := hb.data p hp.1 hp.2
  simp only [blkOf, hst, stLocked] at hd
  rw [protAtWipe_locked]; exact hd.2

/-- the order of `Drop for Protected`, spelled out: (1) `mprotect_readwrite` unless the record says `ReadWrite`
(`protAtWipe`), (2) wipe the bytes (`zeroizeV`), (3) `munlock` if the record says `Locked`, (4) drop of the
container (`plainDrop`: `deallocate` wipes the whole capacity, restores the guards, frees) -/
theorem protDrop_order (c : Cfg) (m : Mach) (v : PVec) (lm : LM) (pm : PM) :
    protDrop c m v lm pm =
      plainDrop c (if lm = .locked then dryocMunlock c (protAtWipe c m v pm) (ptr c v) v.len
        else protAtWipe c m v pm) (zeroizeV v) := rfl

/-! ### a stale record -/

theorem plainDrop_locked (c : Cfg) (m : Mach) (v : PVec) : (plainDrop c m v).k.locked = m.k.locked := by
  unfold plainDrop vecDrop
  split <;> simp

/-- dropping a region whose record says `Unlocked` never touches a lock flag (restated for `objDrop`) -/
theorem objDrop_unlocked_locked (c : Cfg) (m : Mach) (o : Obj) (hr : o.rcd.1 = .unlocked) :
    (objDrop c m o).k.locked = m.k.locked := by
  unfold objDrop
  split
  · exact plainDrop_locked c m _
  · rw [hr]; exact protDrop_unlocked_locked c m _ _

/-- **a stale lock record leaks**: if the pages of a region are locked (its type says `Locked`, `Inv`) but its
record says `Unlocked`, dropping it leaves every data page locked — for ever, the handle is gone.  (This is the
shape of "drop of a locked region skips `munlock`".) -/
theorem stale_lock_record_leaks {c : Cfg} {s : State} (h : InvK c s) {i : Nat} {sl : Slot}
    (hi : s.slots[i]? = some sl) (hg : sl.gone = false) {pm : PM} (hst : sl.o.st = .prot .locked pm)
    (hstale : sl.o.rcd.1 = .unlocked) {p : Nat} (hp : isDataPage c sl.o.v p) :
    (objDrop c s.m sl.o).k.locked p = true := by
  have hb : BlockOK c.P s.m.k (blkOf sl.o) := h.ok _ (blkOf_mem hi hg)
  have hd := hb.data p hp.1 hp.2
  simp only [blkOf, hst, stLocked] at hd
  rw [objDrop_unlocked_locked c s.m sl.o hstale]; exact hd.2

/-- **a stale protect record faults**: if the pages of a region are read-only / no-access (its type says so,
`Inv`) but its record says `ReadWrite`, the drop skips `mprotect_readwrite`, and the wipe hits a page that is
not writable -/
theorem stale_protect_record_faults {c : Cfg} (hP : 0 < c.P) {s : State} (h : InvK c s) {i : Nat} {sl : Slot}
    (hi : s.slots[i]? = some sl) (hg : sl.gone = false) {lm : LM} {pm : PM} (hst : sl.o.st = .prot lm pm)
    (hpm : pm ≠ .rw) (hstale : sl.o.rcd.2 = .rw) {p : Nat} (hp : isDataPage c sl.o.v p) :
    (protAtWipe c s.m sl.o.v sl.o.rcd.2).k.perm p = pm.perm ∧ pm.perm ≠ .rw := by
  have hb : BlockOK c.P s.m.k (blkOf sl.o) := h.ok _ (blkOf_mem hi hg)
  have hd := hb.data p hp.1 hp.2
  simp only [blkOf, hst, stPerm] at hd
  rw [protAtWipe_perm hP _ _ _ _ hp.1 hp.2, hstale]
  refine ⟨by simpa using hd.1, ?_⟩
  cases pm <;> simp [PM.perm] at hpm ⊢

/-! ### counter-models: transitions that change pages and type but forget the record -/

/-- COUNTER-MODEL (not the model): `mprotect_readonly` / `mprotect_readwrite` WITHOUT `old.pm = …;` -/
def opProtectForgetsRec (c : Cfg) (s : State) (i : Nat) (pm : PM) : Res × State :=
  withLive s i .na fun sl =>
    match sl.o.st with
    | .plain => (.na, s)
    | .prot lm _ =>
      (.ok, setSlot s (dryocMprotect c s.m (ptr c sl.o.v) sl.o.v.len pm.perm) i
              { sl with o := { sl.o with st := .prot lm pm } })

/-- COUNTER-MODEL (not the model): `mlock()` WITHOUT `old.lm = Locked;` -/
def opLockForgetsRec (c : Cfg) (s : State) (i : Nat) : Res × State :=
  withLive s i .na fun sl =>
    let go (rc : LM × PM) (pm : PM) : Res × State :=
      let r := lockV c s.m sl.o.v rc
      if r.2 then (.ok, setSlot s r.1 i { sl with o := { sl.o with st := .prot .locked pm, rcd := rc } })
      else (.err, setSlot s r.1 i { sl with gone := true })
    match sl.o.st with
    | .plain => go recNew .rw
    | .prot .unlocked pm => go sl.o.rcd pm
    | .prot .locked _ => (.na, s)

theorem getElem?_setSlot {s : State} {i : Nat} {sl : Slot} (hi : s.slots[i]? = some sl) (m : Mach) (sl' : Slot) :
    (setSlot s m i sl').slots[i]? = some sl' := by
  have : i < s.slots.length := by
    rcases Nat.lt_or_ge i s.slots.length with h1 | h1
    · exact h1
    · rw [List.getElem?_eq_none h1] at hi; simp at hi
  simp [setSlot, this]

/-- the forgetful `ro` keeps the page invariant (pages and type agree) but breaks the record invariant: the slot's
record still says `ReadWrite` -/
theorem protectForgetsRec_state {c : Cfg} (hP : 0 < c.P) {s : State} (h : Inv c s) {i : Nat} {sl : Slot}
    (hi : s.slots[i]? = some sl) (hg : sl.gone = false) {lm : LM} (hst : sl.o.st = .prot lm .rw) :
    ∃ sl', (opProtectForgetsRec c s i .ro).2.slots[i]? = some sl' ∧ sl'.gone = false ∧
      sl'.o.st = .prot lm .ro ∧ sl'.o.v = sl.o.v ∧ sl'.o.rcd.2 = .rw ∧
      InvK c (opProtectForgetsRec c s i .ro).2 ∧ ¬ RecOK (opProtectForgetsRec c s i .ro).2 := by
  have hrc := h.rcd sl (List.mem_of_getElem? hi) hg lm .rw hst
  obtain ⟨l1, l2, hs, hl⟩ := slot_split hi
  have g := good_head hs hg h.k
  unfold opProtectForgetsRec
  rw [withLive_eq hi hg, hst]
  simp only []
  refine ⟨_, getElem?_setSlot hi _ _, hg, rfl, rfl, by simp [hrc], ?_, ?_⟩
  · refine inv_set_live hs hl hg ?_
    have := good_mprotect hP g PM.ro.perm
    simpa [blkOf, hst, stPerm, stLocked_prot lm .ro .rw] using this
  · intro hr
    have := hr _ (List.mem_of_getElem? (getElem?_setSlot hi _ _)) hg lm .ro rfl
    simp [hrc] at this

/-- **the forgetful `ro`, then `drop`**: the wipe of the drop hits read-only pages (in the Rust: SIGSEGV inside
`Drop`); with the real transition it does not (`wipe_writable`) -/
theorem forgetful_protect_faults_on_drop {c : Cfg} (hP : 0 < c.P) {s : State} (h : Inv c s) {i : Nat} {sl : Slot}
    (hi : s.slots[i]? = some sl) (hg : sl.gone = false) {lm : LM} (hst : sl.o.st = .prot lm .rw) :
    ∃ sl', (opProtectForgetsRec c s i .ro).2.slots[i]? = some sl' ∧ sl'.gone = false ∧
      ∀ p, isDataPage c sl'.o.v p →
        (protAtWipe c (opProtectForgetsRec c s i .ro).2.m sl'.o.v sl'.o.rcd.2).k.perm p = .r := by
  obtain ⟨sl', h1, h2, h3, _, h5, h6, _⟩ := protectForgetsRec_state hP h hi hg hst
  refine ⟨sl', h1, h2, fun p hp => ?_⟩
  exact (stale_protect_record_faults hP h6 h1 h2 h3 (by simp) h5 hp).1

/-- **the forgetful `lock`, then `drop`**: every data page of the region stays locked after the region is gone -/
theorem forgetful_lock_leaks_on_drop {c : Cfg} (hP : 0 < c.P) {s : State} (h : Inv c s) {i : Nat} {sl : Slot}
    (hi : s.slots[i]? = some sl) (hg : sl.gone = false) (hst : sl.o.st = .plain)
    (hok : (opLockForgetsRec c s i).1 = .ok) :
    ∃ sl', (opLockForgetsRec c s i).2.slots[i]? = some sl' ∧ sl'.gone = false ∧
      sl'.o.st = .prot .locked .rw ∧
      ∀ p, isDataPage c sl'.o.v p → (objDrop c (opLockForgetsRec c s i).2.m sl'.o).k.locked p = true := by
  obtain ⟨l1, l2, hs, hl⟩ := slot_split hi
  have g := good_head hs hg h.k
  have hb : blkOf sl.o = ⟨sl.o.v, .rw, false⟩ := by simp [blkOf, hst, stPerm, stLocked]
  rw [hb] at g
  have gl := good_lockV hP g recNew
  unfold opLockForgetsRec at hok ⊢
  rw [withLive_eq hi hg] at hok ⊢
  simp only [hst] at hok ⊢
  by_cases hr : (lockV c s.m sl.o.v recNew).2 = true
  · simp only [hr, if_true] at hok ⊢
    refine ⟨_, getElem?_setSlot hi _ _, hg, rfl, fun p hp => ?_⟩
    have hk : InvK c (setSlot s (lockV c s.m sl.o.v recNew).1 i
        { sl with o := { sl.o with st := .prot .locked .rw, rcd := recNew } }) :=
      inv_set_live hs hl hg (gl.1 hr)
    exact stale_lock_record_leaks hk (getElem?_setSlot hi _ _) hg rfl rfl hp
  · simp [hr] at hok

/-! ### the token `zeroize` -/

theorem zeroizeV_eq_fill (v : PVec) : zeroizeV v = fillV v 0 := rfl

theorem protZeroize_unlocked_rw (c : Cfg) (m : Mach) (v : PVec) :
    protZeroize c m v .unlocked .rw = (m, zeroizeV v) := by
  simp [protZeroize, protAtWipe]

/-- **on the slots the harness issues it on — bare containers and `Unlocked` read-write regions — `zeroize` is
`fill:00`** (same answer, same state), provided the slot's record tracks its type (`rec_tracks_type`) -/
theorem zeroize_eq_fill_zero (c : Cfg) {s : State} (hrec : RecOK s) {i : Nat} {sl : Slot}
    (hi : s.slots[i]? = some sl) (hg : sl.gone = false)
    (hst : sl.o.st = .plain ∨ sl.o.st = .prot .unlocked .rw) :
    step c s ⟨.zeroize, i⟩ = step c s ⟨.fill 0, i⟩ := by
  have hi' : (resetRel s).slots[i]? = some sl := hi
  show opZeroize c (resetRel s) i = opFill (resetRel s) i 0
  unfold opZeroize opFill
  rw [withLive_eq hi' hg, withLive_eq hi' hg]
  rcases hst with hst | hst
  · simp only [hst]; rfl
  · have hrc := hrec sl (List.mem_of_getElem? hi) hg _ _ hst
    simp only [hst, hrc, protZeroize_unlocked_rw]; rfl

/-- on a slot that is out of range or consumed `zeroize` answers `noslot` / `n/a` and changes nothing -/
theorem zeroize_not_live (c : Cfg) (s : State) (i : Nat)
    (h : s.slots[i]? = none ∨ ∃ sl, s.slots[i]? = some sl ∧ sl.gone = true) :
    (step c s ⟨.zeroize, i⟩).2 = resetRel s := by
  show (opZeroize c (resetRel s) i).2 = _
  unfold opZeroize withLive withSlot
  rcases h with h | ⟨sl, h, hg⟩
  · have : (resetRel s).slots[i]? = none := h
    simp [this]
  · have : (resetRel s).slots[i]? = some sl := h
    simp [this, hg]

/-- **`zeroize_preserves_inv_iff`**: on a live slot, the token `zeroize` preserves the invariant EXACTLY when the
region is empty, a bare container, or an `Unlocked` read-write region.  In every other case (a non-empty
`Locked` and/or read-only / no-access region) the pages become read-write / unlocked while type and record stay,
and `Inv` — "the pages are what the type says" — is lost. -/
theorem zeroize_preserves_inv_iff (c : Cfg) (hP : 0 < c.P) {s : State} (h : Inv c s) {i : Nat} {sl : Slot}
    (hi : s.slots[i]? = some sl) (hg : sl.gone = false) :
    Inv c (step c s ⟨.zeroize, i⟩).2 ↔
      (sl.o.v.len = 0 ∨ sl.o.st = .plain ∨ sl.o.st = .prot .unlocked .rw) := by
  constructor
  · intro hinv
    apply Classical.byContradiction
    intro hne
    simp only [not_or] at hne
    obtain ⟨h0, hnp, hnu⟩ := hne
    have hi' : (resetRel s).slots[i]? = some sl := hi
    cases hst : sl.o.st with
    | plain => exact hnp hst
    | prot lm pm =>
      have hrc := h.rcd sl (List.mem_of_getElem? hi) hg lm pm hst
      have hstep : step c s ⟨.zeroize, i⟩ =
          (.ok, setSlot (resetRel s) (protZeroize c (resetRel s).m sl.o.v lm pm).1 i
            { sl with o := { sl.o with v := zeroizeV sl.o.v }, rnd := false }) := by
        show opZeroize c (resetRel s) i = _
        unfold opZeroize
        rw [withLive_eq hi' hg]
        simp only [hst, hrc]; rfl
      rw [hstep] at hinv
      -- what the invariant of the new state says about the first data page
      have hb' := inv_block hinv (getElem?_setSlot hi' _ _) hg
      have hpos := pagesOf_pos hP (len := sl.o.v.len) (by omega)
      have hd' := hb'.data (sl.o.v.base + 1) (Nat.le_refl _) (by
        show sl.o.v.base + 1 < sl.o.v.base + 1 + pagesOf c.P (zeroizeV sl.o.v).len
        have : (zeroizeV sl.o.v).len = sl.o.v.len := rfl
        rw [this]; omega)
      -- what the kernel really is there
      obtain ⟨l1, l2, hs, hl⟩ := slot_split hi
      have g := good_head (s := resetRel s) hs hg h.resetRel.k
      have gz := good_protZeroize hP g lm pm
      have hdz := (gz.ok _ List.mem_cons_self).data (sl.o.v.base + 1) (Nat.le_refl _) (by
        show sl.o.v.base + 1 < sl.o.v.base + 1 + pagesOf c.P (zeroizeV sl.o.v).len
        have : (zeroizeV sl.o.v).len = sl.o.v.len := rfl
        rw [this]; omega)
      simp only [blkOf, hst, stPerm, stLocked, setSlot, resetRel] at hd' hdz
      have e1 := hd'.1.symm.trans hdz.1
      have e2 := hd'.2.symm.trans hdz.2
      cases lm <;> cases pm <;> simp [wipePerm, wipeLock, PM.perm, stLocked, stPerm] at e1 e2
      exact hnu hst
  · intro hcase
    refine inv_step hP h _ ?_
    intro hz
    obtain ⟨_, sl', hi2, _, hlen, hnp, hnu⟩ := hz
    have : sl' = sl := by
      have := hi2.symm.trans hi
      simpa using this
    subst this
    rcases hcase with h1 | h1 | h1
    · omega
    · exact hnp h1
    · exact hnu h1

end DryocVerif.Proofs.Protected
