import DryocVerif.Model.EncodingStruct
/-!
Helper lemmas for `Properties/C16.lean`: the failure half of the framing functions, the
`from_bytes ∘ to_bytes` / `de ∘ ser` round trips on whole objects, and the PRE-FIX
visitors of defect E13 as counter-models.  Core only.
-/
namespace DryocVerif.Proofs.EncodingExtra
open DryocVerif DryocVerif.Model.Encoding DryocVerif.Model.SecretBox

/-! ### fixed-length visitors -/

theorem visitSeqFixedGo_spec (n : Nat) (es acc : Bytes) :
    visitSeqFixedGo n es acc = if (acc ++ es).length = n then .ok (acc ++ es) else .err := by
  induction es generalizing acc with
  | nil => simp [visitSeqFixedGo]
  | cons e es ih =>
    simp only [visitSeqFixedGo]
    split
    · rename_i h
      have : ¬ (acc ++ e :: es).length = n := by simp; omega
      rw [if_neg this]
    · rw [ih]; simp

theorem deFixed_eq (n : Nat) (enc : Enc) :
    deFixed n enc = if enc.payload.length = n then .ok enc.payload else .err := by
  cases enc with
  | seq es =>
    simp only [deFixed, Enc.payload, visitSeqFixedGo_spec, List.nil_append]
    by_cases h : es.length = n <;> simp [h]
  | bytes bs =>
    simp only [deFixed, Enc.payload]
    by_cases h : bs.length = n <;> simp [h]

theorem deFixed_err_iff (n : Nat) (enc : Enc) : deFixed n enc = .err ↔ enc.payload.length ≠ n := by
  rw [deFixed_eq]; split <;> simp_all

theorem tryFromSlice_err_iff (n : Nat) (bs : Bytes) : tryFromSlice n bs = .err ↔ bs.length ≠ n := by
  unfold tryFromSlice; split <;> simp_all

/-! ### byte framing: failure half and both round-trip directions -/

theorem fromBytes_err_iff (bs : Bytes) : fromBytes bs = .err ↔ bs.length < 16 := by
  unfold fromBytes MACBYTES; split <;> simp_all

theorem fromSealedBytes_err_iff (bs : Bytes) : fromSealedBytes bs = .err ↔ bs.length < 48 := by
  unfold fromSealedBytes SEALBYTES; split <;> simp_all

theorem signedFromBytes_err_iff (bs : Bytes) : Model.Sign.fromBytes bs = .err ↔ bs.length < 64 := by
  unfold Model.Sign.fromBytes; split <;> simp_all

theorem fromBytes_never_panics (bs : Bytes) : fromBytes bs ≠ .panic := by
  unfold fromBytes; split <;> simp

theorem fromSealedBytes_never_panics (bs : Bytes) : fromSealedBytes bs ≠ .panic := by
  unfold fromSealedBytes; split <;> simp

theorem signedFromBytes_never_panics (bs : Bytes) : Model.Sign.fromBytes bs ≠ .panic := by
  unfold Model.Sign.fromBytes; split <;> simp

theorem fromBytes_toBytes (b : Box) (ht : b.tag.length = 16) (he : b.epk = none) :
    fromBytes (toBytes b) = .ok b := by
  obtain ⟨epk, tag, data⟩ := b
  simp only at ht he
  subst he
  simp [fromBytes, toBytes, MACBYTES, ht]

theorem fromSealedBytes_toBytes (b : Box) (ht : b.tag.length = 16) (epk : Bytes)
    (he : b.epk = some epk) (hel : epk.length = 32) : fromSealedBytes (toBytes b) = .ok b := by
  obtain ⟨epk', tag, data⟩ := b
  simp only at ht he
  subst he
  have h48 : List.drop 48 epk = [] := List.drop_eq_nil_of_le (by omega)
  have : ¬ (32 + (16 + data.length) < 48) := by omega
  simp [fromSealedBytes, toBytes, SEALBYTES, MACBYTES, hel, ht, List.drop_append, h48, this]

/-- the other direction: whatever `from_bytes` accepts, `to_bytes` gives back -/
theorem toBytes_fromBytes (bs : Bytes) (b : Box) (h : fromBytes bs = .ok b) : toBytes b = bs := by
  unfold fromBytes at h
  split at h
  · cases h
  · injection h with h; subst h; simp [toBytes]

theorem toBytes_fromSealedBytes (bs : Bytes) (b : Box) (h : fromSealedBytes bs = .ok b) :
    toBytes b = bs := by
  unfold fromSealedBytes at h
  split at h
  · cases h
  · injection h with h; subst h
    simp only [toBytes, SEALBYTES, MACBYTES]
    have : List.drop 48 bs = List.drop 16 (List.drop 32 bs) := by rw [List.drop_drop]
    rw [this, List.append_assoc, List.take_append_drop, List.take_append_drop]

theorem signed_fromBytes_toBytes (sig m : Bytes) (h : sig.length = 64) :
    Model.Sign.fromBytes (Model.Sign.toBytes (sig, m)) = .ok (sig, m) := by
  simp [Model.Sign.fromBytes, Model.Sign.toBytes, h]

theorem signed_toBytes_fromBytes (bs : Bytes) (sm : Bytes × Bytes)
    (h : Model.Sign.fromBytes bs = .ok sm) : Model.Sign.toBytes sm = bs ∧ sm.1.length = 64 := by
  unfold Model.Sign.fromBytes at h
  split at h
  · cases h
  · injection h with h; subst h
    refine ⟨by simp [Model.Sign.toBytes], ?_⟩
    simp only [List.length_take]; omega

/-! ### derived struct encodings -/

theorem deFixed_ser (n : Nat) (bs : Bytes) (h : bs.length = n) : deFixed n (ser bs) = .ok bs := by
  simp [ser, deFixed, h]

theorem deHeap_ser (bs : Bytes) : deHeap (ser bs) = .ok bs := by simp [ser, deHeap]

theorem deBox_serBox (b : Box) (ht : b.tag.length = 16)
    (he : ∀ e, b.epk = some e → e.length = 32) : deBox (serBox b) = .ok b := by
  obtain ⟨epk, tag, data⟩ := b
  simp only at ht he
  cases epk with
  | none => simp [deBox, serBox, Outcome.andThen, deFixed_ser 16 tag ht, deHeap_ser]
  | some e =>
    simp [deBox, serBox, Outcome.andThen, deFixed_ser 16 tag ht, deHeap_ser,
      deFixed_ser 32 e (he e rfl)]

theorem deHeap_eq (enc : Enc) : deHeap enc = .ok enc.payload := by
  have go : ∀ es acc : Bytes, visitSeqHeapGo es acc = acc ++ es := by
    intro es
    induction es with
    | nil => intro acc; simp [visitSeqHeapGo]
    | cons e es ih => intro acc; simp [visitSeqHeapGo, ih]
  cases enc <;> simp [deHeap, Enc.payload, go]

/-- exact behaviour of the derived `Deserialize` of the box structs: it succeeds iff the tag
field holds 16 bytes and the key field (if present) 32, and then yields the payloads -/
theorem deBox_ok_iff (e : EncBox) (b : Box) :
    deBox e = .ok b ↔
      e.tag.payload.length = 16 ∧ (∀ x, e.epk = some x → x.payload.length = 32) ∧
      b = ⟨e.epk.map Enc.payload, e.tag.payload, e.data.payload⟩ := by
  obtain ⟨epk, tag, data⟩ := e
  cases epk with
  | none =>
    simp only [deBox, Outcome.andThen, deFixed_eq, deHeap_eq, Option.map_none]
    by_cases h : tag.payload.length = 16 <;> simp [h] <;> exact eq_comm
  | some x =>
    simp only [deBox, Outcome.andThen, deFixed_eq, deHeap_eq, Option.map_some]
    by_cases hx : x.payload.length = 32 <;> by_cases h : tag.payload.length = 16 <;>
      simp [h, hx] <;> exact eq_comm

theorem deBox_never_panics (e : EncBox) : deBox e ≠ .panic := by
  obtain ⟨epk, tag, data⟩ := e
  cases epk with
  | none =>
    simp only [deBox, Outcome.andThen, deFixed_eq, deHeap_eq]
    by_cases h : tag.payload.length = 16 <;> simp [h]
  | some x =>
    simp only [deBox, Outcome.andThen, deFixed_eq, deHeap_eq]
    by_cases hx : x.payload.length = 32 <;> by_cases h : tag.payload.length = 16 <;>
      simp [h, hx]

theorem deSigned_serSigned (sm : Bytes × Bytes) (h : sm.1.length = 64) :
    deSigned (serSigned sm) = .ok sm := by
  obtain ⟨sig, m⟩ := sm
  simp only at h
  simp [deSigned, serSigned, Outcome.andThen, deFixed_ser 64 sig h, deHeap_ser]

theorem deSigned_ok_iff (e : EncSigned) (sm : Bytes × Bytes) :
    deSigned e = .ok sm ↔
      e.signature.payload.length = 64 ∧ sm = (e.signature.payload, e.message.payload) := by
  obtain ⟨s, m⟩ := e
  simp only [deSigned, Outcome.andThen, deFixed_eq, deHeap_eq]
  by_cases h : s.payload.length = 64 <;> simp [h] <;> exact eq_comm

/-! ### E13: the visitors BEFORE the fix, as counter-models

Transcribed from the pre-fix source (`git show 791ff25^:src/bytes_serde.rs`,
`git show b1445e8^:src/protected.rs` in /repo). -/

/-- old `StackByteArray<N>::visit_seq`:
`let mut arr = new(); let mut idx = 0;
 while let Some(elem) = seq.next_element()? { if idx < LENGTH { arr[idx] = elem; idx += 1 } else { break } }
 Ok(arr)` -/
def visitSeqFixedOldGo (n : Nat) : Bytes → Nat → Bytes → Bytes
  | [], _, arr => arr
  | e :: es, idx, arr => if idx < n then visitSeqFixedOldGo n es (idx + 1) (arr.set idx e) else arr

def deFixedOld (n : Nat) : Enc → Outcome Bytes
  | .seq es => .ok (visitSeqFixedOldGo n es 0 (zeros n))
  | .bytes bs => if bs.length ≠ n then .err else .ok bs

theorem visitSeqFixedOldGo_length (n : Nat) (es : Bytes) (idx : Nat) (arr : Bytes) :
    (visitSeqFixedOldGo n es idx arr).length = arr.length := by
  induction es generalizing idx arr with
  | nil => rfl
  | cons e es ih =>
    simp only [visitSeqFixedOldGo]
    split
    · rw [ih]; simp
    · rfl

/-- the old fixed-length visitor accepted EVERY element sequence and always returned `n`
bytes: short input was zero-padded, long input truncated -/
theorem deFixedOld_seq_accepts (n : Nat) (es : Bytes) :
    ∃ a, deFixedOld n (.seq es) = .ok a ∧ a.length = n :=
  ⟨_, rfl, by rw [visitSeqFixedOldGo_length]; simp [zeros]⟩

/-- so `fixed_len_strict` is FALSE for it whenever the element count is wrong -/
theorem deFixedOld_not_strict (n : Nat) (es : Bytes) (h : es.length ≠ n) :
    ¬ (∀ a, deFixedOld n (.seq es) = .ok a ↔ (Enc.seq es).payload.length = n ∧ a = (Enc.seq es).payload) := by
  intro hall
  obtain ⟨a, ha, -⟩ := deFixedOld_seq_accepts n es
  exact h ((hall a).1 ha).1

/-- old `HeapBytes::visit_seq` (`hint` = the deserializer's `size_hint()`; serde_json gives
`None`):
`let mut arr = default(); let mut idx = 0; arr.resize(hint.unwrap_or(1), 0);
 while let Some(elem) = … { if idx > arr.len() { arr.resize(idx, 0) } arr[idx] = elem; idx += 1 }
 Ok(arr)` — `arr[idx]` panics when `idx ≥ arr.len()` -/
def visitSeqHeapOldGo : Bytes → Nat → Bytes → Outcome Bytes
  | [], _, arr => .ok arr
  | e :: es, idx, arr =>
    let arr := if idx > arr.length then arr ++ zeros (idx - arr.length) else arr
    if idx < arr.length then visitSeqHeapOldGo es (idx + 1) (arr.set idx e) else .panic

/-- old `HeapBytes::from(&[u8])`: `copy_from_slice` into the EMPTY vector — a length
mismatch panic for every non-empty slice -/
def fromSliceOld (bs : Bytes) : Outcome Bytes := if bs.length = 0 then .ok [] else .panic

def deHeapOld (hint : Option Nat) : Enc → Outcome Bytes
  | .seq es => visitSeqHeapOldGo es 0 (zeros (hint.getD 1))
  | .bytes bs => fromSliceOld bs

theorem visitSeqHeapOldGo_panics (es : Bytes) (idx : Nat) (arr : Bytes) (hne : es ≠ [])
    (h : arr.length < idx + es.length) : visitSeqHeapOldGo es idx arr = .panic := by
  induction es generalizing idx arr with
  | nil => exact absurd rfl hne
  | cons e es ih =>
    simp only [visitSeqHeapOldGo]
    by_cases h1 : idx > arr.length
    · simp only [h1, if_true, List.length_append]
      have : ¬ (idx < arr.length + (zeros (idx - arr.length)).length) := by simp [zeros]; omega
      rw [if_neg this]
    · simp only [h1, if_false]
      split
      · rename_i h2
        have hne' : es ≠ [] := by
          intro h0; subst h0; simp at h; omega
        apply ih _ _ hne'
        simp only [List.length_set, List.length_cons] at h ⊢
        omega
      · rfl

/-- **the old heap visitor panicked on every JSON array of two or more elements** (and on
every non-empty byte string) -/
theorem deHeapOld_seq_panics (es : Bytes) (h : 2 ≤ es.length) :
    deHeapOld none (.seq es) = .panic :=
  visitSeqHeapOldGo_panics es 0 _ (by intro h0; subst h0; simp at h) (by simp [zeros]; omega)

theorem deHeapOld_bytes_panics (hint : Option Nat) (bs : Bytes) (h : bs ≠ []) :
    deHeapOld hint (.bytes bs) = .panic := by
  have : bs.length ≠ 0 := by
    intro h0; exact h (List.eq_nil_of_length_eq_zero h0)
  simp [deHeapOld, fromSliceOld, this]

/-- … and turned the empty array into `[0]` -/
theorem deHeapOld_empty : deHeapOld none (.seq []) = .ok [0] := by decide

end DryocVerif.Proofs.EncodingExtra
