import DryocVerif.Proofs.PwhashExtra
/-
Helper lemmas for C09 / C10 (round 4):
* the code-shaped `PwHash::hash_with_salt` / `verify` / `hash` (`…Raw` of `Model/PwhashApi.lean`: `Vec::resize` in
  front of `crypto_pwhash`) versus the typed model;
* the size of the allocation request of `argon2_hash` on the `crypto_pwhash_str_verify` path;
* `crypto_pwhash_str_needs_rehash` on an arbitrary string.
Core Lean only.
-/
namespace DryocVerif.Proofs.PwhashRaw
open DryocVerif DryocVerif.Model.Argon2 DryocVerif.Model.PwhashStr DryocVerif.Proofs.Argon2
open DryocVerif.Proofs.PwhashExtra

/-! ### `Vec::resize` in front of `crypto_pwhash` -/

theorem objHashWithSaltRaw_eq {hashLength : Nat} (salt : Bytes) (opslimit memlimit alg : Nat) (pwd : Bytes)
    (h : hashLength ≤ 2 ^ 63 - 1) :
    objHashWithSaltRaw hashLength salt opslimit memlimit alg pwd
      = objHashWithSalt hashLength salt opslimit memlimit alg pwd := by
  unfold objHashWithSaltRaw
  rw [if_neg (by omega)]

theorem objHashWithSaltRaw_panic_of_big {hashLength : Nat} (salt : Bytes) (opslimit memlimit alg : Nat) (pwd : Bytes)
    (h : 2 ^ 63 - 1 < hashLength) :
    objHashWithSaltRaw hashLength salt opslimit memlimit alg pwd = .panic := by
  unfold objHashWithSaltRaw
  rw [if_pos h]

theorem objVerifyRaw_eq_objVerify (hash salt : Bytes) {hashLength : Nat} (opslimit memlimit alg : Nat) (pwd : Bytes)
    (h : hashLength ≤ 2 ^ 63 - 1) :
    objVerifyRaw hash salt hashLength opslimit memlimit alg pwd
      = objVerify hash salt hashLength opslimit memlimit alg pwd := by
  unfold objVerifyRaw objVerify
  rw [objHashWithSaltRaw_eq salt opslimit memlimit alg pwd h]

theorem objVerifyRaw_panic_iff (hash salt : Bytes) (hashLength opslimit memlimit alg : Nat) (pwd : Bytes) :
    objVerifyRaw hash salt hashLength opslimit memlimit alg pwd = .panic ↔
      2 ^ 63 - 1 < hashLength ∨ cryptoPwhash hashLength pwd salt opslimit memlimit alg = .panic := by
  by_cases h : 2 ^ 63 - 1 < hashLength
  · unfold objVerifyRaw
    rw [objHashWithSaltRaw_panic_of_big salt opslimit memlimit alg pwd h]
    simp [h]
  · rw [objVerifyRaw_eq_objVerify hash salt opslimit memlimit alg pwd (by omega), objVerify_panic_iff]
    simp [h]

/-- the typed model answers `Err` where the code panics: every `hash_length` above `isize::MAX` -/
theorem objVerify_err_of_big (hash salt : Bytes) {hashLength : Nat} (opslimit memlimit : Nat) {alg : Nat} (pwd : Bytes)
    (halg : alg = 1 ∨ alg = 2) (h : 2 ^ 63 - 1 < hashLength) :
    objVerify hash salt hashLength opslimit memlimit alg pwd = .err
      ∧ objVerifyRaw hash salt hashLength opslimit memlimit alg pwd = .panic := by
  refine ⟨?_, (objVerifyRaw_panic_iff ..).2 (.inl h)⟩
  rw [objVerify_err_iff]
  left
  apply cryptoPwhash_err halg
  intro hv
  have := hv.outlen_le
  omega

/-- `objVerifyRaw` in one statement: `Ok` iff `hash_length ≤ isize::MAX` and `crypto_pwhash` reproduces the hash -/
theorem objVerifyRaw_iff (hash salt : Bytes) (hashLength opslimit memlimit alg : Nat) (pwd : Bytes) :
    objVerifyRaw hash salt hashLength opslimit memlimit alg pwd = .ok () ↔
      hashLength ≤ 2 ^ 63 - 1 ∧ cryptoPwhash hashLength pwd salt opslimit memlimit alg = .ok hash := by
  by_cases h : 2 ^ 63 - 1 < hashLength
  · have hp := (objVerifyRaw_panic_iff hash salt hashLength opslimit memlimit alg pwd).2 (.inl h)
    rw [hp]
    constructor
    · intro e; cases e
    · intro ⟨h', _⟩; omega
  · rw [objVerifyRaw_eq_objVerify hash salt opslimit memlimit alg pwd (by omega), objVerify_iff]
    constructor
    · intro e; exact ⟨by omega, e⟩
    · intro e; exact e.2

theorem objHashRaw_eq {hashLength : Nat} {salt : Bytes} (opslimit memlimit alg : Nat) (pwd : Bytes)
    (h : hashLength ≤ 2 ^ 63 - 1) (hs : salt.length ≤ 2 ^ 63 - 1) :
    objHashRaw hashLength salt opslimit memlimit alg pwd =
      match objHashWithSalt hashLength salt opslimit memlimit alg pwd with
      | .ok hash => .ok (hash, salt)
      | .err => .err
      | .panic => .panic := by
  unfold objHashRaw
  rw [if_neg (by omega), if_neg (by omega)]
  cases objHashWithSalt hashLength salt opslimit memlimit alg pwd <;> rfl

theorem objHashRaw_panic_iff (hashLength : Nat) (salt : Bytes) (opslimit memlimit alg : Nat) (pwd : Bytes) :
    objHashRaw hashLength salt opslimit memlimit alg pwd = .panic ↔
      2 ^ 63 - 1 < hashLength ∨ 2 ^ 63 - 1 < salt.length
        ∨ cryptoPwhash hashLength pwd salt opslimit memlimit alg = .panic := by
  unfold objHashRaw objHashWithSalt
  by_cases h : 2 ^ 63 - 1 < hashLength
  · simp [h]
  · by_cases hs : 2 ^ 63 - 1 < salt.length
    · simp [h, hs]
    · rw [if_neg h, if_neg hs]
      cases hc : cryptoPwhash hashLength pwd salt opslimit memlimit alg <;> simp [h, hs]

/-! ### the allocation request of `argon2_hash` -/

/-- one lane: the request is `4·⌊m/4⌋` blocks exactly when `Argon2Context::new` accepts, and nothing is requested
otherwise (any `ty`, any `m < 2^32`) -/
theorem argon2MemoryRequest_one_lane (ty t m pwdlen saltlen outlen : Nat) (hm : m < 2 ^ 32) :
    (Valid outlen pwdlen saltlen none none t m 1 ∧
      argon2MemoryRequest ty t m 1 pwdlen saltlen outlen = some (m / 4 * 4)) ∨
    (¬ Valid outlen pwdlen saltlen none none t m 1 ∧
      argon2MemoryRequest ty t m 1 pwdlen saltlen outlen = none) := by
  unfold argon2MemoryRequest
  rw [memoryGeometry_ok (by decide) (by decide) hm]
  by_cases hv : Valid outlen pwdlen saltlen none none t m 1
  · left
    refine ⟨hv, ?_⟩
    have hm8 := hv.m_ge
    have hmax : max m (8 * 1) = m := by omega
    simp only [(validate_ok_iff ..).2 hv, hmax, Nat.mul_one]
    unfold Instance.new
    have e4 : ARGON2_SYNC_POINTS = 4 := rfl
    rw [mulU32_ok (by rw [e4]; omega)]
    rfl
  · right
    refine ⟨hv, ?_⟩
    simp only [(validate_err_iff ..).2 hv]

/-- whenever the model of `argon2_hash` returns `Ok`, the allocation was requested -/
theorem argon2Hash_ok_requests {ty t m p : Nat} {pwd salt : Bytes} {outlen : Nat} {h : Bytes}
    (e : argon2Hash ty t m p pwd salt none none outlen = .ok h) :
    ∃ n, argon2MemoryRequest ty t m p pwd.length salt.length outlen = some n := by
  unfold argon2MemoryRequest
  unfold argon2Hash at e
  cases hg : memoryGeometry m p with
  | ok g =>
    obtain ⟨mb, sl⟩ := g
    rw [hg] at e
    simp only [ok_bind] at e
    have e' : (validate outlen pwd.length salt.length none none t m p >>= fun _ =>
        Instance.new mb sl ty t p >>= fun inst =>
          (fillFirstBlocks (initialHash p outlen m t ty pwd salt none none) inst
              (Array.replicate inst.memoryBlocks zeroBlock) >>= fun mem =>
            forLoop 0 inst.passes (fillMemoryBlocks inst) (mem, Array.replicate inst.segmentLength 0) >>= fun st =>
              finalize outlen inst st.1)) = .ok h := e
    cases hv : validate outlen pwd.length salt.length none none t m p with
    | ok u =>
      rw [hv, ok_bind] at e'
      cases hi : Instance.new mb sl ty t p with
      | ok inst => cases u; simp only [hi]; exact ⟨_, rfl⟩
      | err => rw [hi] at e'; cases e'
      | panic => rw [hi] at e'; cases e'
    | err => rw [hv] at e'; cases e'
    | panic => rw [hv] at e'; cases e'
  | err => rw [hg] at e; cases e
  | panic => rw [hg] at e; cases e

/-- **the allocation request of `crypto_pwhash_str_verify`.**  On a string the parser accepts — recorded costs `t`,
`m`, salt `salt` — the verify path asks the allocator for `4·⌊m/4⌋` blocks of 1024 bytes (between `m − 3` and `m`
KiB) when `Argon2Context::new` accepts (`t ≥ 1`, `m ≥ 8`, `8 ≤ |salt| < 2^32`, `|pwd| < 2^32`), and for nothing when
it rejects.  `m` is attacker-chosen text: the only bound the code puts on it is `u32` (`parse_ok_range`). -/
theorem strVerify_memory_request {s : Str} {r : Parsed} {t m : Nat} {salt : Bytes} (pwd : Bytes)
    (hp : parse s = .ok r) (ht : r.t = some t) (hm : r.m = some m) (hs : r.salt = some salt) :
    (Valid 32 pwd.length salt.length none none t m 1 ∧ strVerifyMemoryRequest s pwd = some (m / 4 * 4)
        ∧ m / 4 * 4 ≤ m ∧ m ≤ m / 4 * 4 + 3) ∨
    (¬ Valid 32 pwd.length salt.length none none t m 1 ∧ strVerifyMemoryRequest s pwd = none) := by
  obtain ⟨ty, t', m', salt', hash, _, _, hr⟩ := parse_ok_fields hp
  subst hr
  cases ht; cases hm; cases hs
  have hm32 := (parse_ok_range hp).2 m rfl
  unfold strVerifyMemoryRequest
  rw [hp]
  simp only
  rcases argon2MemoryRequest_one_lane ty.num t m pwd.length salt.length 32 hm32 with ⟨hv, e⟩ | ⟨hv, e⟩
  · exact .inl ⟨hv, e, by omega, by omega⟩
  · exact .inr ⟨hv, e⟩

/-- nothing is requested on a rejected string -/
theorem strVerify_memory_request_err {s : Str} (pwd : Bytes) (hp : parse s = .err) :
    strVerifyMemoryRequest s pwd = none := by
  unfold strVerifyMemoryRequest
  rw [hp]

/-! ### `crypto_pwhash_str_needs_rehash` on an arbitrary string -/

theorem needsRehash_false_iff_general (s : Str) (o l : Nat) :
    needsRehash s o l = .ok false ↔
      ∃ r, parse s = .ok r ∧ r.t = some (o % 2 ^ 32) ∧ r.m = some (l / 1024 % 2 ^ 32) := by
  unfold needsRehash
  cases hp : parse s with
  | ok r =>
    simp only [Outcome.ok.injEq, decide_eq_false_iff_not, ne_eq, not_or, Decidable.not_not]
    constructor
    · intro ⟨h1, h2⟩; exact ⟨r, rfl, h1.symm, h2.symm⟩
    · intro ⟨r', e, h1, h2⟩; cases e; exact ⟨h1.symm, h2.symm⟩
  | err => simp
  | panic => simp

theorem needsRehash_true_iff_general (s : Str) (o l : Nat) :
    needsRehash s o l = .ok true ↔
      ∃ r, parse s = .ok r ∧ (r.t ≠ some (o % 2 ^ 32) ∨ r.m ≠ some (l / 1024 % 2 ^ 32)) := by
  unfold needsRehash
  cases hp : parse s with
  | ok r =>
    simp only [Outcome.ok.injEq, decide_eq_true_eq, ne_eq]
    constructor
    · intro h
      refine ⟨r, rfl, ?_⟩
      rcases h with h | h
      · exact .inl (fun e => h e.symm)
      · exact .inr (fun e => h e.symm)
    · intro ⟨r', e, h⟩
      cases e
      rcases h with h | h
      · exact .inl (fun e => h e.symm)
      · exact .inr (fun e => h e.symm)
  | err => simp
  | panic => simp

end DryocVerif.Proofs.PwhashRaw
