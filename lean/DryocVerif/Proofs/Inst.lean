import DryocVerif.Model.Inst
import DryocVerif.Proofs.SecretBox
import DryocVerif.Proofs.SecretStream
/-
Length facts about the executable primitives the driver instantiates the secretbox / secretstream
models with (`Model.boxPrims`, `Model.streamPrims`), and the bridge from them to the `WF`
hypotheses of the property theorems (C01, C02, C03, C17).  Core only.

**The `WF` structures quantify over every key and nonce, and for the executable specs that is
false**: the specs are total on `List UInt8`, and a nonce shorter than the Rust array type gives
short Salsa20 / ChaCha20 blocks (`boxPrims_not_wf`, `streamPrims_not_wf` below: an empty nonce gives a
56-byte XSalsa20 block, an empty key and nonce a 20-byte ChaCha20 block).  What holds is

* `Salsa.xsalsa20Stream_length` : `len` bytes for every key, whenever `24 ≤ nonce.length`;
* `ChaCha.stream_length`        : `len` bytes whenever `32 ≤ key.length` and `12 ≤ nonce.length`;
* `ChaCha.hchacha20_length`     : 32 bytes whenever `32 ≤ key.length` and `16 ≤ input.length`;
* `model_mac_length`, `spec_mac_length` : 16 bytes, unconditionally.

The bridge: `Box.guard P` / `Stream.guard P` replace the key stream by zeros on inputs of the wrong
length; the guarded concrete instances satisfy `WF` (`boxPrims_guard_wf`, `streamPrims_guard_wf`), and every model
function agrees with its guarded version on a 24-byte nonce (`Box.guard_*`) resp. on a well-formed
stream state (`Stream.guard_*`).  So each general theorem transfers to the concrete instance under
exactly the array-length facts the Rust types (`[u8; 24]`, `State { k: [u8; 32], nonce: [u8; 12] }`)
guarantee.
-/
namespace DryocVerif.Proofs.Inst
open DryocVerif

theorem toLE_length (n v : Nat) : (toLE n v).length = n := by
  induction n generalizing v with
  | zero => rfl
  | succ n ih => simp [toLE, ih]

theorem length_flatMap_const {α β : Type} (f : α → List β) (c : Nat) (l : List α)
    (h : ∀ x ∈ l, (f x).length = c) : (l.flatMap f).length = c * l.length := by
  induction l with
  | nil => simp
  | cons a l ih =>
    rw [List.flatMap_cons, List.length_append, h a (by simp), ih (fun x hx => h x (by simp [hx])),
      List.length_cons, Nat.mul_succ, Nat.add_comm]

theorem chunksAux_length4 : ∀ (fuel : Nat) (bs : Bytes), bs.length ≤ fuel →
    (chunksAux 4 fuel bs).length = (bs.length + 3) / 4
  | 0, bs, h => by
    have : bs.length = 0 := by omega
    simp [chunksAux, this]
  | fuel+1, bs, h => by
    unfold chunksAux
    cases bs with
    | nil => simp
    | cons b bs =>
      simp only [List.isEmpty_cons, Bool.false_eq_true, if_false, List.length_cons]
      rw [chunksAux_length4 fuel _ (by simp only [List.length_drop, List.length_cons]; simp at h; omega)]
      simp only [List.length_drop, List.length_cons]
      omega

theorem chunks4_length (bs : Bytes) : (chunks 4 bs).length = (bs.length + 3) / 4 :=
  chunksAux_length4 _ _ (Nat.le_refl _)

theorem foldl_size {α : Type} (f : Array UInt32 → α → Array UInt32)
    (hf : ∀ s a, (f s a).size = s.size) (l : List α) (s : Array UInt32) :
    (l.foldl f s).size = s.size := by
  induction l generalizing s with
  | nil => rfl
  | cons a l ih => rw [List.foldl_cons, ih, hf]

theorem repeat_size (f : Array UInt32 → Array UInt32) (hf : ∀ s, (f s).size = s.size) (n : Nat)
    (s : Array UInt32) : (Nat.repeat f n s).size = s.size := by
  induction n with
  | zero => rfl
  | succ n ih => rw [Nat.repeat, hf, ih]

theorem stream_length_of_block (blk : Nat → Bytes) (hb : ∀ i, (blk i).length = 64) (len : Nat) :
    (((List.range ((len + 63) / 64)).flatMap blk).take len).length = len := by
  rw [List.length_take, length_flatMap_const _ 64 _ (fun i _ => hb i), List.length_range]
  omega

/-! ### Salsa20 -/
namespace Salsa
open DryocVerif.Spec.Salsa20

theorem quarterRound_size (s : State) (a b c d : Nat) : (quarterRound s a b c d).size = s.size := by
  simp [quarterRound]

theorem applyTable_size (tbl : List (Nat × Nat × Nat × Nat)) (s : State) :
    (applyTable tbl s).size = s.size :=
  foldl_size _ (fun s q => by obtain ⟨a, b, c, d⟩ := q; exact quarterRound_size s a b c d) tbl s

theorem rounds20_size (s : State) : (rounds20 s).size = s.size :=
  repeat_size _ (fun s => by simp only [doubleRound, rowRound, columnRound, applyTable_size]) 10 s

theorem wordsOfBytes_size (b : Bytes) : (wordsOfBytes b).size = (b.length + 3) / 4 := by
  simp [wordsOfBytes, chunks4_length]

theorem bytesOfWords_length (s : State) : (bytesOfWords s).length = 4 * s.size := by
  unfold bytesOfWords
  rw [length_flatMap_const _ 4 _ (fun w _ => toLE_length 4 _), Array.length_toList]

theorem core_length (inp : Bytes) : (core inp).length = 4 * ((inp.length + 3) / 4) := by
  simp only [core, bytesOfWords_length, Array.size_zipWith, rounds20_size, wordsOfBytes_size,
    Nat.min_self]

theorem hsalsa20_length (key inp c : Bytes) : (hsalsa20 key inp c).length = 32 := by
  simp only [hsalsa20, bytesOfWords_length]
  rfl

theorem sigma_length : sigma.length = 16 := rfl

theorem expandInput_length (key n16 : Bytes) :
    (expandInput key n16 sigma).length
      = 16 + min 16 key.length + min 16 n16.length + min 16 (key.length - 16) := by
  simp only [expandInput, List.length_append, List.length_take, List.length_drop, sigma_length]
  omega

theorem block_length (key nonce8 : Bytes) (ctr : Nat) (hk : 32 ≤ key.length) (hn : 8 ≤ nonce8.length) :
    (block key nonce8 ctr).length = 64 := by
  simp only [block, expand, core_length, expandInput_length, List.length_append, List.length_take,
    toLE_length]
  omega

theorem stream_length (key nonce8 : Bytes) (ctr len : Nat) (hk : 32 ≤ key.length) (hn : 8 ≤ nonce8.length) :
    (stream key nonce8 ctr len).length = len :=
  stream_length_of_block _ (fun i => block_length key nonce8 (ctr + i) hk hn) len

/-- XSalsa20 key stream: `len` bytes, for **every** key, whenever the nonce has its 24 bytes -/
theorem xsalsa20Stream_length (key nonce24 : Bytes) (ic len : Nat) (hn : 24 ≤ nonce24.length) :
    (xsalsa20Stream key nonce24 ic len).length = len :=
  stream_length _ _ ic len (by rw [hsalsa20_length]; omega)
    (by simp only [List.length_take, List.length_drop]; omega)

end Salsa
/-! ### ChaCha20 -/
namespace ChaCha
open DryocVerif.Spec.ChaCha20

theorem quarterRound_size (s : State) (a b c d : Nat) : (quarterRound s a b c d).size = s.size := by
  simp [quarterRound]

theorem innerBlock_size (s : State) : (innerBlock s).size = s.size :=
  foldl_size _ (fun s q => by obtain ⟨a, b, c, d⟩ := q; exact quarterRound_size s a b c d) _ s

theorem rounds20_size (s : State) : (rounds20 s).size = s.size :=
  repeat_size _ innerBlock_size 10 s

theorem wordsOfBytes_size (b : Bytes) : (wordsOfBytes b).size = (b.length + 3) / 4 := by
  simp [wordsOfBytes, chunks4_length]

theorem bytesOfWords_length (s : State) : (bytesOfWords s).length = 4 * s.size := by
  unfold bytesOfWords
  rw [length_flatMap_const _ 4 _ (fun w _ => toLE_length 4 _), Array.length_toList]

theorem constants_size : constants.size = 4 := rfl

theorem initState_size (key : Bytes) (ctr : Nat) (nonce12 : Bytes) :
    (initState key ctr nonce12).size = 5 + (min 32 key.length + 3) / 4 + (min 12 nonce12.length + 3) / 4 := by
  simp only [initState, Array.size_append, constants_size, wordsOfBytes_size, List.length_take]
  simp
  omega

theorem block_length (key : Bytes) (ctr : Nat) (nonce12 : Bytes) (hk : 32 ≤ key.length)
    (hn : 12 ≤ nonce12.length) : (block key ctr nonce12).length = 64 := by
  simp only [block, bytesOfWords_length, Array.size_zipWith, rounds20_size, initState_size, Nat.min_self]
  omega

/-- ChaCha20 key stream: `len` bytes whenever key and nonce have their 32 / 12 bytes -/
theorem stream_length (key nonce12 : Bytes) (ctr len : Nat) (hk : 32 ≤ key.length)
    (hn : 12 ≤ nonce12.length) : (stream key nonce12 ctr len).length = len :=
  stream_length_of_block _ (fun j => block_length key (ctr + j) nonce12 hk hn) len

theorem hchacha20_length (key inp16 : Bytes) (hk : 32 ≤ key.length) (hi : 16 ≤ inp16.length) :
    (hchacha20 key inp16).length = 32 := by
  simp only [hchacha20, bytesOfWords_length, Array.size_append, Array.size_extract, rounds20_size,
    constants_size, wordsOfBytes_size, List.length_take]
  omega

end ChaCha
/-! ### Poly1305 -/

theorem finish_length (h : Model.Poly1305.Limbs) (pad0 pad1 : Nat) :
    (Model.Poly1305.finish h pad0 pad1).length = 16 := by
  unfold Model.Poly1305.finish
  simp only [List.length_append, toLE_length]

theorem model_mac_length (key msg : Bytes) : (Model.Poly1305.mac key msg).length = 16 :=
  finish_length _ _ _

theorem spec_mac_length (key msg : Bytes) : (Spec.Poly1305.mac key msg).length = 16 :=
  toLE_length _ _

/-! ### secretbox: guard -/
namespace Box
open DryocVerif.Model.SecretBox DryocVerif.Proofs.SecretBox

/-- `P` with the key stream replaced by zeros for nonces shorter than 24 bytes -/
def guard (P : Prims) : Prims :=
  { P with stream := fun k n l => if 24 ≤ n.length then P.stream k n l else zeros l }

theorem guard_stream (P : Prims) (k n : Bytes) (hn : 24 ≤ n.length) :
    (guard P).stream k n = P.stream k n := by
  funext l; exact if_pos hn

theorem guard_wf (P : Prims) (hs : ∀ k n l, 24 ≤ n.length → (P.stream k n l).length = l)
    (hm : ∀ k m, (P.mac k m).length = 16) : WF (guard P) := by
  refine ⟨fun k n l => ?_, hm⟩
  show (if 24 ≤ n.length then P.stream k n l else zeros l).length = l
  split
  · exact hs k n l ‹_›
  · simp [zeros]

variable (P : Prims) (n : Bytes) (hn : 24 ≤ n.length)
include hn

theorem guard_detachedInplace (d k : Bytes) :
    detachedInplace (guard P) d n k = detachedInplace P d n k := by
  simp only [detachedInplace, guard_stream P k n hn]; rfl

theorem guard_openDetachedInplace (d mac k : Bytes) :
    openDetachedInplace (guard P) d mac n k = openDetachedInplace P d mac n k := by
  simp only [openDetachedInplace, guard_stream P k n hn]; rfl

theorem guard_detached (ct m k : Bytes) : detached (guard P) ct m n k = detached P ct m n k := by
  simp only [detached, guard_detachedInplace P n hn]

theorem guard_openDetached (buf mac ct k : Bytes) :
    openDetached (guard P) buf mac ct n k = openDetached P buf mac ct n k := by
  simp only [openDetached, guard_openDetachedInplace P n hn]

theorem guard_easy (ct m k : Bytes) : easy (guard P) ct m n k = easy P ct m n k := by
  simp only [easy, guard_detached P n hn]

theorem guard_openEasy (buf ct k : Bytes) : openEasy (guard P) buf ct n k = openEasy P buf ct n k := by
  simp only [openEasy, guard_openDetached P n hn]

theorem guard_easyInplace (d k : Bytes) : easyInplace (guard P) d n k = easyInplace P d n k := by
  simp only [easyInplace, guard_detachedInplace P n hn]

theorem guard_openEasyInplace (ct k : Bytes) :
    openEasyInplace (guard P) ct n k = openEasyInplace P ct n k := by
  simp only [openEasyInplace, guard_openDetachedInplace P n hn]

theorem guard_objEncrypt (m k : Bytes) : objEncrypt (guard P) m n k = objEncrypt P m n k := by
  simp only [objEncrypt, guard_detached P n hn]

theorem guard_objDecrypt (b : Box) (k : Bytes) : objDecrypt (guard P) b n k = objDecrypt P b n k := by
  simp only [objDecrypt, guard_openDetached P n hn]

omit hn in
theorem guard_beforenm (pk sk : Bytes) : beforenm (guard P) pk sk = beforenm P pk sk := rfl

theorem guard_boxDetached (ct m pk sk : Bytes) :
    boxDetached (guard P) ct m n pk sk = boxDetached P ct m n pk sk := by
  simp only [boxDetached, guard_detached P n hn, guard_beforenm P]

theorem guard_boxDetachedInplace (d pk sk : Bytes) :
    boxDetachedInplace (guard P) d n pk sk = boxDetachedInplace P d n pk sk := by
  simp only [boxDetachedInplace, guard_detachedInplace P n hn, guard_beforenm P]

theorem guard_boxEasy (ct m pk sk : Bytes) : boxEasy (guard P) ct m n pk sk = boxEasy P ct m n pk sk := by
  simp only [boxEasy, guard_boxDetached P n hn]

theorem guard_boxEasyInplace (d pk sk : Bytes) :
    boxEasyInplace (guard P) d n pk sk = boxEasyInplace P d n pk sk := by
  simp only [boxEasyInplace, guard_boxDetachedInplace P n hn]

theorem guard_boxOpenDetached (buf mac ct pk sk : Bytes) :
    boxOpenDetached (guard P) buf mac ct n pk sk = boxOpenDetached P buf mac ct n pk sk := by
  simp only [boxOpenDetached, guard_openDetached P n hn, guard_beforenm P]

theorem guard_boxOpenDetachedInplace (d mac pk sk : Bytes) :
    boxOpenDetachedInplace (guard P) d mac n pk sk = boxOpenDetachedInplace P d mac n pk sk := by
  simp only [boxOpenDetachedInplace, guard_openDetachedInplace P n hn, guard_beforenm P]

theorem guard_boxOpenEasy (buf ct pk sk : Bytes) :
    boxOpenEasy (guard P) buf ct n pk sk = boxOpenEasy P buf ct n pk sk := by
  simp only [boxOpenEasy, guard_boxOpenDetached P n hn]

theorem guard_boxOpenEasyInplace (ct pk sk : Bytes) :
    boxOpenEasyInplace (guard P) ct n pk sk = boxOpenEasyInplace P ct n pk sk := by
  simp only [boxOpenEasyInplace, guard_boxOpenDetachedInplace P n hn]

theorem guard_objBoxEncrypt (m pk sk : Bytes) :
    objBoxEncrypt (guard P) m n pk sk = objBoxEncrypt P m n pk sk := by
  simp only [objBoxEncrypt, guard_objEncrypt P n hn, guard_beforenm P]

theorem guard_objBoxDecrypt (b : Box) (pk sk : Bytes) :
    objBoxDecrypt (guard P) b n pk sk = objBoxDecrypt P b n pk sk := by
  simp only [objBoxDecrypt, guard_objDecrypt P n hn, guard_beforenm P]

end Box

/-! ### secretstream: guard -/
namespace Stream
open DryocVerif.Model.Utils DryocVerif.Model.SecretStream DryocVerif.Proofs.SecretStream

/-- `P` with the key stream replaced by zeros unless key / nonce have their 32 / 12 bytes -/
def guard (P : Prims) : Prims :=
  { P with chacha := fun k n c l => if 32 ≤ k.length ∧ 12 ≤ n.length then P.chacha k n c l else zeros l }

theorem guard_chacha (P : Prims) (s : State) (hs : StateWF s) :
    (guard P).chacha s.k s.nonce = P.chacha s.k s.nonce := by
  funext c l
  exact if_pos ⟨by rw [hs.k_len]; omega, by rw [hs.nonce_len]; omega⟩

theorem guard_mac (P : Prims) : (guard P).mac = P.mac := rfl
theorem guard_hchacha (P : Prims) : (guard P).hchacha = P.hchacha := rfl

theorem guard_wf (P : Prims)
    (hc : ∀ k n c l, 32 ≤ k.length → 12 ≤ n.length → (P.chacha k n c l).length = l)
    (hm : ∀ k m, (P.mac k m).length = 16) : WF (guard P) := by
  refine ⟨fun k n c l => ?_, hm⟩
  show (if 32 ≤ k.length ∧ 12 ≤ n.length then P.chacha k n c l else zeros l).length = l
  split
  · rename_i h; exact hc k n c l h.1 h.2
  · simp [zeros]

theorem guard_initState (P : Prims) (header key : Bytes) :
    initState (guard P) header key = initState P header key := rfl

theorem guard_rekey (P : Prims) (s : State) (hs : StateWF s) : rekey (guard P) s = rekey P s := by
  simp only [rekey, guard_chacha P s hs]

theorem guard_advance (P : Prims) (s : State) (hs : StateWF s) (mac : Bytes) (tag : UInt8) :
    advance (guard P) s mac tag = advance P s mac tag := by
  have h' : StateWF { s with nonce := incrementBytes s.counter ++ xorBuf s.inonce mac } :=
    ⟨hs.k_len, by simp [incrementBytes_length, xorBuf_length, inonce_length s hs, counter_length s hs]⟩
  simp only [advance, guard_rekey P _ h']

theorem guard_push (P : Prims) (s : State) (hs : StateWF s) (ctLen : Nat) (m ad : Bytes) (tag : UInt8) :
    push (guard P) s ctLen m ad tag = push P s ctLen m ad tag := by
  simp only [push, guard_chacha P s hs, guard_mac, guard_advance P s hs]

theorem guard_pull (P : Prims) (s : State) (hs : StateWF s) (buf : Bytes) (tagv : UInt8) (ct ad : Bytes) :
    pull (guard P) s buf tagv ct ad = pull P s buf tagv ct ad := by
  simp only [pull, guard_chacha P s hs, guard_mac, guard_advance P s hs]

theorem guard_objPush (P : Prims) (s : State) (hs : StateWF s) (m ad : Bytes) (tag : UInt8) :
    objPush (guard P) s m ad tag = objPush P s m ad tag := guard_push P s hs _ m ad tag

theorem guard_objPull (P : Prims) (s : State) (hs : StateWF s) (ct ad : Bytes) :
    objPull (guard P) s ct ad = objPull P s ct ad := by
  simp only [objPull, guard_pull P s hs]

end Stream
/-! ### the concrete instances -/
open DryocVerif.Model

theorem boxPrims_stream_length (k n : Bytes) (l : Nat) (hn : 24 ≤ n.length) :
    (boxPrims.stream k n l).length = l := Salsa.xsalsa20Stream_length k n 0 l hn

theorem boxPrims_mac_length (k m : Bytes) : (boxPrims.mac k m).length = 16 := model_mac_length k m

theorem streamPrims_chacha_length (k n : Bytes) (c l : Nat) (hk : 32 ≤ k.length) (hn : 12 ≤ n.length) :
    (streamPrims.chacha k n c l).length = l := ChaCha.stream_length k n c l hk hn

theorem streamPrims_mac_length (k m : Bytes) : (streamPrims.mac k m).length = 16 := model_mac_length k m

theorem streamPrims_hchacha_length (k i : Bytes) (hk : 32 ≤ k.length) (hi : 16 ≤ i.length) :
    (streamPrims.hchacha k i).length = 32 := by
  simp only [streamPrims]
  exact ChaCha.hchacha20_length k i hk hi

/-- the driver's secretbox primitives, guarded on the nonce length, are well-formed -/
theorem boxPrims_guard_wf : Proofs.SecretBox.WF (Box.guard boxPrims) :=
  Box.guard_wf boxPrims boxPrims_stream_length boxPrims_mac_length

/-- the driver's secretstream primitives, guarded on key / nonce length, are well-formed -/
theorem streamPrims_guard_wf : Proofs.SecretStream.WF (Stream.guard streamPrims) :=
  Stream.guard_wf streamPrims streamPrims_chacha_length streamPrims_mac_length

/-- `init_push` / `init_pull` with the driver's primitives give a well-formed state from a 32-byte key
and a 24-byte header -/
theorem streamPrims_initState_wf (header key : Bytes) (hh : 24 ≤ header.length) (hk : 32 ≤ key.length) :
    Proofs.SecretStream.StateWF (SecretStream.initState streamPrims header key) :=
  Proofs.SecretStream.initState_wf streamPrims header key hh
    (streamPrims_hchacha_length key _ hk (by simp only [List.length_take]; omega))

/-- with an empty nonce a Salsa20 block has 56 bytes, so 64 requested key-stream bytes come back as 56 -/
theorem boxPrims_stream_short : (boxPrims.stream [] [] 64).length = 56 := by
  have hb : ∀ i, (Spec.Salsa20.block (Spec.Salsa20.hsalsa20 [] []) [] (0 + i)).length = 56 := by
    intro i
    simp only [Spec.Salsa20.block, Spec.Salsa20.expand, Salsa.core_length, Salsa.expandInput_length,
      Salsa.hsalsa20_length, List.length_append, List.length_take, toLE_length, List.length_nil]
    omega
  show (((List.range ((64 + 63) / 64)).flatMap _).take 64).length = 56
  simp only [List.take_nil, List.drop_nil]
  rw [List.length_take, length_flatMap_const _ 56 _ (fun i _ => hb i), List.length_range]
  omega

/-- the unguarded `WF` is false for the executable spec -/
theorem boxPrims_not_wf : ¬ Proofs.SecretBox.WF boxPrims := by
  intro h
  have h1 := h.hs [] [] 64
  have h2 := boxPrims_stream_short
  omega

/-- likewise for ChaCha20: with an empty key and nonce a block has 20 bytes -/
theorem streamPrims_not_wf : ¬ Proofs.SecretStream.WF streamPrims := by
  intro h
  have h1 := h.chacha_len [] [] 0 64
  have hb : ∀ j, (Spec.ChaCha20.block [] (0 + j) []).length = 20 := by
    intro j
    simp only [Spec.ChaCha20.block, ChaCha.bytesOfWords_length, Array.size_zipWith, ChaCha.rounds20_size,
      ChaCha.initState_size, Nat.min_self, List.length_nil]
    omega
  have h2 : (streamPrims.chacha [] [] 0 64).length = 20 := by
    show (((List.range ((64 + 63) / 64)).flatMap _).take 64).length = 20
    rw [List.length_take, length_flatMap_const _ 20 _ (fun j _ => hb j), List.length_range]
    omega
  omega

end DryocVerif.Proofs.Inst
