import DryocVerif.Proofs.Curve
import DryocVerif.Proofs.CurveExtra
import DryocVerif.Spec.Ed25519
/-
Helper lemmas for C05, second review round: the shared secret of two HONEST key pairs.

* `clamped_not_multiple_of_L`: a clamped scalar is never a multiple of the group order `L`
  (arithmetic only: 8 ∣ k and gcd(8, L) = 1 give 8L ∣ k, but 0 < k < 2^255 < 8L);
* `decodeU_encodeU`: decoding an encoded u-coordinate gives the reduced value back;
* `scalarmult_honest`: the shared secret of `sk` with the public key `scalarmultBase sk'`, as a ladder of a
  ladder on u = 9.

Core only.
-/
namespace DryocVerif.Proofs.CurveHonest
open DryocVerif DryocVerif.Model.Curve DryocVerif.Spec.X25519 DryocVerif.Proofs.Curve

abbrev L : Nat := Spec.Ed25519.L

theorem coprime_8_L : Nat.gcd 8 L = 1 := by decide

/-- 8 ∣ k, L ∣ k, gcd(8, L) = 1 ⇒ 8·L ∣ k -/
theorem eightL_dvd (k : Nat) (h8 : 8 ∣ k) (hL : L ∣ k) : 8 * L ∣ k :=
  Nat.Coprime.mul_dvd_of_dvd_of_dvd coprime_8_L h8 hL

/-- **A clamped scalar is never a multiple of the group order.** -/
theorem clamped_not_multiple_of_L (n : Bytes) (h : n.length = 32) : ¬ L ∣ le (Model.Curve.clamp n) := by
  intro hL
  obtain ⟨h1, h2, h8⟩ := clamp_range n h
  have hd := eightL_dvd _ h8 hL
  have hpos : 0 < le (Model.Curve.clamp n) := by
    have : 0 < 2 ^ 254 := by decide
    omega
  have hle := Nat.le_of_dvd hpos hd
  have hbig : 2 ^ 255 < 8 * L := by decide
  omega

/-- more generally: no clamped scalar is congruent to 0 modulo L — and neither is its negative, so
the point `[k]B` is never the neutral element -/
theorem clamped_mod_L_ne_zero (n : Bytes) (h : n.length = 32) : le (Model.Curve.clamp n) % L ≠ 0 := by
  intro h0
  exact clamped_not_multiple_of_L n h (Nat.dvd_of_mod_eq_zero h0)

/-! ### decode ∘ encode -/

theorem toLE_append (a b v : Nat) : toLE (a + b) v = toLE a v ++ toLE b (v / 256^a) := by
  induction a generalizing v with
  | zero => simp [toLE]
  | succ a ih =>
    rw [Nat.add_right_comm, toLE, toLE, ih, Nat.pow_succ, Nat.div_div_eq_div_mul,
      Nat.mul_comm 256, List.cons_append]

set_option maxRecDepth 8000 in
theorem nat_and127 : ∀ x, x < 128 → x &&& 127 = x := by decide

theorem ofNat_and127 (x : Nat) (hx : x < 128) : (UInt8.ofNat x) &&& 127 = UInt8.ofNat x := by
  apply UInt8.toNat_inj.mp
  have h1 : (UInt8.ofNat x).toNat = x := by
    simp [UInt8.toNat_ofNat']; omega
  rw [UInt8.toNat_and, h1]
  exact nat_and127 x hx

/-- a value below 2^255, encoded on 32 bytes and decoded as a u-coordinate, comes back unchanged -/
theorem decodeU_toLE (v : Nat) (hv : v < 2 ^ 255) : decodeUCoordinate (toLE 32 v) = v := by
  have hs : toLE 32 v = toLE 31 v ++ [UInt8.ofNat (v / 256 ^ 31 % 256)] := by
    have := toLE_append 31 1 v
    simpa [toLE] using this
  have hl : (toLE 31 v).length = 31 := toLE_length _ _
  have hq : v / 256 ^ 31 < 128 := by
    have : (2:Nat) ^ 255 = 256 ^ 31 * 128 := by decide
    rw [this] at hv
    exact (Nat.div_lt_iff_lt_mul (by decide)).2 (by rw [Nat.mul_comm]; exact hv)
  have hm : v / 256 ^ 31 % 256 = v / 256 ^ 31 := Nat.mod_eq_of_lt (by omega)
  unfold decodeUCoordinate
  have ht : (toLE 32 v).take 32 = toLE 32 v := List.take_of_length_le (by rw [toLE_length]; omega)
  rw [ht]
  have hmod : (toLE 32 v).modify 31 (· &&& 127) = toLE 32 v := by
    rw [hs, List.modify_eq_take_drop, List.take_append_of_le_length (by omega),
      List.take_of_length_le (by omega), List.drop_append_of_le_length (by omega),
      List.drop_of_length_le (by omega)]
    simp only [List.nil_append, List.modifyHead_cons, hm]
    rw [ofNat_and127 _ hq]
  rw [hmod, le_toLE]
  exact Nat.mod_eq_of_lt (Nat.lt_trans hv (by decide))

theorem p_lt : p < 2 ^ 255 := by decide

theorem decodeU_encodeU (u : Nat) : decodeUCoordinate (encodeUCoordinate u) = u % p :=
  decodeU_toLE _ (Nat.lt_trans (Nat.mod_lt _ (by decide)) p_lt)

theorem decodeU_basePoint : decodeUCoordinate basePoint = 9 := by decide

/-! ### the honest shared secret as a ladder of a ladder -/

/-- `crypto_scalarmult(sk, crypto_scalarmult_base(sk'))` in the model with the specification primitives:
the ladder (scalar `clamp sk`) of the ladder (scalar `clamp sk'`) on u = 9 -/
theorem scalarmult_honest (sk sk' : Bytes) :
    scalarmult specPrims sk (scalarmultBase specPrims sk')
      = encodeUCoordinate (ladder (le (Model.Curve.clamp sk)) (ladder (le (Model.Curve.clamp sk')) 9)) := by
  simp only [scalarmult, scalarmultBase, specPrims, rawLadder, decodeU_encodeU, decodeU_basePoint,
    Proofs.CurveExtra.ladder_mod_p]

/-- the ladder's output is a reduced field element -/
theorem ladder_lt (k u : Nat) : ladder k u < p := by
  unfold ladder
  dsimp only
  unfold fmul
  exact Nat.mod_lt _ (by decide)

theorem encodeU_eq_zeros_iff (u : Nat) : encodeUCoordinate u = zeros 32 ↔ u % p = 0 := by
  unfold encodeUCoordinate
  constructor
  · intro h
    have := congrArg le h
    rw [le_toLE] at this
    have hz : le (zeros 32) = 0 := by decide
    rw [hz, Nat.mod_eq_of_lt (Nat.lt_trans (Nat.mod_lt _ (by decide)) (by decide))] at this
    exact this
  · intro h
    rw [h]; decide

end DryocVerif.Proofs.CurveHonest
