import DryocVerif.Proofs.Poly1305Main
/-
Whole-run overflow freedom of `poly1305_soft.rs`.

`Model.Poly1305` computes in ℕ where the Rust uses the overflow-checked `+`, `*`, `-` and slice indexing.  This file
writes the SAME control flow once more with every such operation guarded (`…K` = "checked": `none` stands for the
panic), and proves that along any run `new; update c₁; …; update cₙ; finalize` no guard ever fails and the result is
the model's.
-/
namespace DryocVerif.Proofs.Poly1305
open DryocVerif
open DryocVerif.Model.Poly1305

/-- the range conditions of one iteration of the loop in `blocks` — verbatim the conclusion of
`blockStep_no_overflow`: `r1 * (5 << 2)`, `r2 * (5 << 2)` in `u64`; the nine products, six sums and two carry
additions of `d0`, `d1`, `d2` in `u128`; `c * 5`, `h0 += c * 5`, `h1 += c` in `u64` -/
def BlockOk (r : Limbs) (hibit : Nat) (h : Limbs) (m : Bytes) : Prop :=
    let s1 := r.l1 * 20
    let s2 := r.l2 * 20
    let t0 := le (m.take 8)
    let t1 := le ((m.drop 8).take 8)
    let H0 := (h.l0 + (t0 &&& M44)) % U64
    let H1 := (h.l1 + (((t0 >>> 44) ||| ((t1 <<< 20) % U64)) &&& M44)) % U64
    let H2 := (h.l2 + (((t1 >>> 24) &&& M42) ||| hibit)) % U64
    let d0 := H0 * r.l0 + H1 * s2 + H2 * s1
    let d1 := H0 * r.l1 + H1 * r.l0 + H2 * s2
    let d2 := H0 * r.l2 + H1 * r.l1 + H2 * r.l0
    let c0 := (d0 >>> 44) % U64
    let k0 := (d0 % U64) &&& M44
    let d1' := d1 + c0
    let c1 := (d1' >>> 44) % U64
    let k1 := (d1' % U64) &&& M44
    let d2' := d2 + c1
    let c2 := (d2' >>> 42) % U64
    let k0' := k0 + c2 * 5
    let c3 := k0' >>> 44
    s1 < 2^64 ∧ s2 < 2^64 ∧
    H0 * r.l0 < 2^128 ∧ H1 * s2 < 2^128 ∧ H2 * s1 < 2^128 ∧
    H0 * r.l0 + H1 * s2 < 2^128 ∧ d0 < 2^128 ∧
    H0 * r.l1 < 2^128 ∧ H1 * r.l0 < 2^128 ∧ H2 * s2 < 2^128 ∧
    H0 * r.l1 + H1 * r.l0 < 2^128 ∧ d1 < 2^128 ∧
    H0 * r.l2 < 2^128 ∧ H1 * r.l1 < 2^128 ∧ H2 * r.l0 < 2^128 ∧
    H0 * r.l2 + H1 * r.l1 < 2^128 ∧ d2 < 2^128 ∧
    d1' < 2^128 ∧ d2' < 2^128 ∧
    c2 * 5 < 2^64 ∧ k0' < 2^64 ∧ k1 + c3 < 2^64

/-- the range conditions of the two carry passes of `finalize` — verbatim the conclusion of `finish_no_overflow` -/
def FinishOk (h : Limbs) : Prop :=
    let h0 := h.l0
    let h1 := h.l1
    let h2 := h.l2
    let c := h1 >>> 44
    let h1 := h1 &&& M44
    let h2a := h2 + c
    let c := h2a >>> 42
    let h2 := h2a &&& M42
    let m1 := c * 5
    let h0a := h0 + m1
    let c := h0a >>> 44
    let h0 := h0a &&& M44
    let h1a := h1 + c
    let c := h1a >>> 44
    let h1 := h1a &&& M44
    let h2b := h2 + c
    let c := h2b >>> 42
    let h2 := h2b &&& M42
    let m2 := c * 5
    let h0b := h0 + m2
    let c := h0b >>> 44
    let _h0 := h0b &&& M44
    let h1b := h1 + c
    let _h2 := h2
    h2a < 2^64 ∧ m1 < 2^64 ∧ h0a < 2^64 ∧ h1a < 2^64 ∧
    h2b < 2^64 ∧ m2 < 2^64 ∧ h0b < 2^64 ∧ h1b < 2^64

theorem blockOk_of_inv (r h : Limbs) (hibit : Nat) (m : Bytes)
    (hr : RInv r) (hh : Inv h) (hm : m.length = 16) (hhi : hibit = 0 ∨ hibit = 2^40) : BlockOk r hibit h m :=
  blockStep_no_overflow r h hibit m hr hh hm hhi

theorem finishOk_of_inv (h : Limbs) (hh : Inv h) : FinishOk h := finish_no_overflow h hh

open Classical in
/-- loop body of `blocks`, checked: the chunk must have 16 bytes (`m[0..8]`, `m[8..16]`) and every checked
arithmetic operation must be in range -/
noncomputable def blockStepK (r : Limbs) (hibit : Nat) (h : Limbs) (m : Bytes) : Option Limbs :=
  if m.length = 16 ∧ BlockOk r hibit h m then some (blockStep r hibit h m) else none

/-- `blocks(input, partial)`, checked -/
noncomputable def blocksK (st : State) (input : Bytes) (isPartial : Bool) : Option State :=
  ((chunks 16 input).foldlM (blockStepK st.r (hibitOf isPartial)) st.h).map fun h => { st with h := h }

/-- `update`, checked: same control flow as `Model.Poly1305.update`, plus `BLOCK_SIZE - self.buffer.len()`
(a checked `usize` subtraction) -/
noncomputable def updateK (st : State) (input : Bytes) : Option State :=
  if !st.buffer.isEmpty then
    if 16 < st.buffer.length then none          -- `BLOCK_SIZE - self.buffer.len()`
    else
      let e := min (16 - st.buffer.length) input.length
      let st := { st with buffer := st.buffer ++ input.take e }
      if st.buffer.length < 16 then some st
      else
        (blocksK st st.buffer false).bind fun st =>
        let st := { st with buffer := [] }
        let m := input.drop e
        let fe := m.length - m.length % 16
        (blocksK st (m.take fe) false).bind fun st =>
        some (if fe < m.length then { st with buffer := st.buffer ++ m.drop fe } else st)
  else
    let m := input
    let fe := m.length - m.length % 16
    (blocksK st (m.take fe) false).bind fun st =>
    some (if fe < m.length then { st with buffer := st.buffer ++ m.drop fe } else st)

open Classical in
/-- `finalize`, checked -/
noncomputable def finalizeK (st : State) : Option Bytes :=
  (if !st.buffer.isEmpty then
      let buf := st.buffer ++ [1]
      let buf := if buf.length % 16 != 0 then buf ++ zeros (16 - buf.length % 16) else buf
      blocksK { st with buffer := buf } buf true
    else some st).bind fun st =>
  if FinishOk st.h then some (finish st.h st.pad0 st.pad1) else none

/-- `new; update c₁; …; update cₙ; finalize`, checked -/
noncomputable def macChunksK (key : Bytes) (cs : List Bytes) : Option Bytes :=
  (cs.foldlM updateK (new key)).bind finalizeK

/-! ### no guard fails -/

/-- what is needed of a state for the next call to be safe -/
def Safe (st : State) : Prop := RInv st.r ∧ Inv st.h ∧ st.buffer.length < 16

theorem blockStepK_eq (r h : Limbs) (hibit : Nat) (m : Bytes)
    (hr : RInv r) (hh : Inv h) (hm : m.length = 16) (hhi : hibit = 0 ∨ hibit = 2^40) :
    blockStepK r hibit h m = some (blockStep r hibit h m) := by
  unfold blockStepK
  rw [if_pos ⟨hm, blockOk_of_inv r h hibit m hr hh hm hhi⟩]

theorem blockStep_inv (r h : Limbs) (hibit : Nat) (m : Bytes)
    (hr : RInv r) (hh : Inv h) (hm : m.length = 16) (hhi : hibit = 0 ∨ hibit = 2^40) :
    Inv (blockStep r hibit h m) :=
  (blockStep_spec r h hibit m hr hh hm hhi).1

theorem foldlM_blockStepK (r : Limbs) (hibit : Nat) (hr : RInv r) (hhi : hibit = 0 ∨ hibit = 2^40) :
    ∀ (bs : List Bytes) (h : Limbs), Inv h → (∀ b ∈ bs, b.length = 16) →
      bs.foldlM (blockStepK r hibit) h = some (bs.foldl (blockStep r hibit) h) ∧
      Inv (bs.foldl (blockStep r hibit) h) := by
  intro bs
  induction bs with
  | nil => intro h hh _; exact ⟨rfl, hh⟩
  | cons b bs ih =>
    intro h hh hl
    have hb := hl b (List.mem_cons_self ..)
    rw [List.foldlM_cons, blockStepK_eq r h hibit b hr hh hb hhi]
    exact ih _ (blockStep_inv r h hibit b hr hh hb hhi) (fun x hx => hl x (List.mem_cons_of_mem _ hx))

/-- `blocks` on whole 16-byte chunks from a safe accumulator: no guard fails, result = model, accumulator safe -/
theorem blocksK_eq (st : State) (X : Bytes) (isPartial : Bool) (hr : RInv st.r) (hh : Inv st.h)
    (hX : X.length % 16 = 0) :
    blocksK st X isPartial = some (blocks st X isPartial) ∧ Inv (blocks st X isPartial).h := by
  have hhi : hibitOf isPartial = 0 ∨ hibitOf isPartial = 2^40 := by
    unfold hibitOf; cases isPartial <;> simp
  obtain ⟨e, i⟩ := foldlM_blockStepK st.r (hibitOf isPartial) hr hhi (chunks 16 X) st.h hh
    (chunks_all_len 16 (by decide) X hX)
  unfold blocksK
  rw [e]
  exact ⟨rfl, i⟩

/-- the common tail of `update`, checked -/
noncomputable def tailK (st : State) (m : Bytes) : Option State :=
  let fe := m.length - m.length % 16
  (blocksK st (m.take fe) false).bind fun st =>
  some (if fe < m.length then { st with buffer := st.buffer ++ m.drop fe } else st)

theorem tailK_eq (st : State) (m : Bytes) (hr : RInv st.r) (hh : Inv st.h) :
    tailK st m = some (tail st m) := by
  have hX : (m.take (m.length - m.length % 16)).length % 16 = 0 := by
    rw [List.length_take]; omega
  obtain ⟨e, _⟩ := blocksK_eq st (m.take (m.length - m.length % 16)) false hr hh hX
  unfold tailK tail
  simp only [e, Option.bind_some]

theorem updateK_nil (st : State) (c : Bytes) (h : st.buffer = []) : updateK st c = tailK st c := by
  unfold updateK
  rw [if_neg (by simp [h])]
  rfl

theorem updateK_short (st : State) (c : Bytes) (h : st.buffer ≠ [])
    (hs : st.buffer.length + c.length < 16) :
    updateK st c = some { st with buffer := st.buffer ++ c } := by
  have he : min (16 - st.buffer.length) c.length = c.length := by omega
  unfold updateK
  rw [if_pos (by simp [h]), if_neg (by omega)]
  simp only [he, List.take_length]
  rw [if_pos (by rw [List.length_append]; exact hs)]

theorem updateK_long (st : State) (c : Bytes) (h : st.buffer ≠ [])
    (hb : st.buffer.length < 16) (hs : 16 ≤ st.buffer.length + c.length) :
    updateK st c =
      (blocksK { st with buffer := st.buffer ++ c.take (16 - st.buffer.length) }
          (st.buffer ++ c.take (16 - st.buffer.length)) false).bind fun st' =>
        tailK { st' with buffer := [] } (c.drop (16 - st.buffer.length)) := by
  have he : min (16 - st.buffer.length) c.length = 16 - st.buffer.length := by omega
  unfold updateK
  rw [if_pos (by simp [h]), if_neg (by omega)]
  simp only [he]
  rw [if_neg (by rw [List.length_append, List.length_take]; omega)]
  rfl

/-- **one `update` from a safe state**: no guard fails, the result is the model's, and it is safe again -/
theorem updateK_eq (st : State) (c : Bytes) (hs : Safe st) :
    updateK st c = some (update st c) := by
  obtain ⟨hr, hh, hb⟩ := hs
  by_cases hbuf : st.buffer = []
  · rw [updateK_nil st c hbuf, update_nil st c hbuf]; exact tailK_eq st c hr hh
  · by_cases hsh : st.buffer.length + c.length < 16
    · rw [updateK_short st c hbuf hsh, update_short st c hbuf hsh]
    · rw [updateK_long st c hbuf hb (by omega), update_long st c hbuf hb (by omega)]
      have hB : (st.buffer ++ c.take (16 - st.buffer.length)).length % 16 = 0 := by
        rw [List.length_append, List.length_take]; omega
      obtain ⟨e, i⟩ := blocksK_eq { st with buffer := st.buffer ++ c.take (16 - st.buffer.length) }
        (st.buffer ++ c.take (16 - st.buffer.length)) false hr hh hB
      rw [e, Option.bind_some]
      exact tailK_eq _ _ hr i

/-- `Safe` is what `StInv` says about the limbs and the buffer -/
theorem safe_of_stInv (r : Limbs) (p0 p1 : Nat) (hr : RInv r) (st : State) (D : Bytes)
    (h : StInv r p0 p1 st D) : Safe st := by
  obtain ⟨e1, _, _, e4, e5, _⟩ := h
  exact ⟨by rw [e1]; exact hr, e5, e4⟩

theorem new_rinv (key : Bytes) : RInv (new key).r :=
  ⟨Nat.lt_of_le_of_lt Nat.and_le_right (by decide), Nat.lt_of_le_of_lt Nat.and_le_right (by decide),
   Nat.lt_of_le_of_lt Nat.and_le_right (by decide)⟩

/-- every state along `new key; update c₁; …` is safe (any key length) -/
theorem run_safe (key : Bytes) (cs : List Bytes) : Safe (cs.foldl update (new key)) := by
  have h := foldl_update_spec _ _ _ (new_rinv key) cs _ _ (new_inv key)
  exact safe_of_stInv _ _ _ (new_rinv key) _ _ h

theorem foldlM_updateK (cs : List Bytes) : ∀ (st : State), (∀ pre : List Bytes, Safe (pre.foldl update st)) →
    cs.foldlM updateK st = some (cs.foldl update st) := by
  induction cs with
  | nil => intro st _; rfl
  | cons c cs ih =>
    intro st hs
    rw [List.foldlM_cons, updateK_eq st c (hs []), Option.bind_eq_bind, Option.bind_some, List.foldl_cons]
    exact ih _ (fun pre => hs (c :: pre))

/-- the block `finalize` feeds to `blocks(…, true)` -/
def lastBlock (st : State) : Bytes := st.buffer ++ [1] ++ zeros (15 - st.buffer.length)

/-- the accumulator `finalize` hands to the carry passes -/
def finalAcc (st : State) : Limbs :=
  if st.buffer = [] then st.h else blockStep st.r 0 st.h (lastBlock st)

theorem finalize_eq_finish (st : State) (hb : st.buffer.length < 16) :
    finalize st = finish (finalAcc st) st.pad0 st.pad1 := by
  unfold finalAcc
  by_cases h : st.buffer = []
  · rw [if_pos h, finalize_nil st h]
  · rw [if_neg h, finalize_cons st h hb]; rfl

theorem lastBlock_length (st : State) (hb : st.buffer.length < 16) : (lastBlock st).length = 16 := by
  unfold lastBlock; simp [zeros]; omega

theorem finalAcc_inv (st : State) (hs : Safe st) : Inv (finalAcc st) := by
  obtain ⟨hr, hh, hb⟩ := hs
  unfold finalAcc
  by_cases h : st.buffer = []
  · rw [if_pos h]; exact hh
  · rw [if_neg h]
    exact blockStep_inv st.r st.h 0 _ hr hh (lastBlock_length st hb) (Or.inl rfl)

theorem finalizeK_eq (st : State) (hs : Safe st) : finalizeK st = some (finalize st) := by
  have hi := finalAcc_inv st hs
  obtain ⟨hr, hh, hb⟩ := hs
  by_cases h : st.buffer = []
  · unfold finalizeK
    rw [if_neg (by simp [h]), Option.bind_some, if_pos (finishOk_of_inv _ hh), finalize_nil st h]
  · have hbuf : (if ((st.buffer ++ [1]).length % 16 != 0) = true
        then st.buffer ++ [1] ++ zeros (16 - (st.buffer ++ [1]).length % 16) else st.buffer ++ [1])
        = lastBlock st := by
      have hl : (st.buffer ++ [1]).length = st.buffer.length + 1 := by simp
      unfold lastBlock
      by_cases h15 : st.buffer.length = 15
      · have : (st.buffer ++ [1]).length % 16 = 0 := by rw [hl, h15]
        rw [if_neg (by rw [this]; decide), h15]; simp [zeros]
      · have : (st.buffer ++ [1]).length % 16 = st.buffer.length + 1 := by rw [hl]; omega
        rw [if_pos (by rw [this]; simp), this]
        congr 2; omega
    have hlen := lastBlock_length st hb
    obtain ⟨e, i⟩ := blocksK_eq { st with buffer := lastBlock st } (lastBlock st) true hr hh (by rw [hlen])
    have hfa : (blocks { st with buffer := lastBlock st } (lastBlock st) true).h = finalAcc st := by
      unfold finalAcc
      rw [if_neg h]
      show (chunks 16 _).foldl (blockStep st.r (hibitOf true)) st.h = _
      rw [chunks_single 16 _ (by omega) (by omega)]
      rfl
    unfold finalizeK
    rw [if_pos (by simp [h])]
    simp only [hbuf]
    rw [e, Option.bind_some, hfa, if_pos (finishOk_of_inv _ hi), finalize_eq_finish st hb]
    rfl

/-- **Whole-run overflow freedom.**  For every key and every list of chunks, the run
`Poly1305::new(key); update(c₁); …; update(cₙ); finalize()` never fails a guard — no `u64`/`u128` overflow in any
block of any `update` nor in the final partial block nor in the carry passes, no `usize` underflow, no short chunk —
and returns what the (unguarded) model returns. -/
theorem macChunksK_eq (key : Bytes) (cs : List Bytes) :
    macChunksK key cs = some (macChunks key cs) := by
  unfold macChunksK macChunks
  have hpre : ∀ pre : List Bytes, Safe (pre.foldl update (new key)) := fun pre => run_safe key pre
  rw [foldlM_updateK cs (new key) hpre, Option.bind_some]
  exact finalizeK_eq _ (run_safe key cs)

/-- the same in the form of invariants: `r` is clamped; after every `update` (`n` = number of chunks absorbed so far)
the accumulator satisfies `Inv` and fewer than 16 bytes are buffered; the padded final block has 16 bytes, the
accumulator after it (the argument of the carry passes) satisfies `Inv` again, and `finalize` is `finish` of it. -/
theorem run_no_overflow (key : Bytes) (cs : List Bytes) :
    RInv (new key).r ∧
    (∀ n, ((cs.take n).foldl update (new key)).r = (new key).r ∧
          Inv ((cs.take n).foldl update (new key)).h ∧
          ((cs.take n).foldl update (new key)).buffer.length < 16) ∧
    ((cs.foldl update (new key)).buffer ≠ [] → (lastBlock (cs.foldl update (new key))).length = 16) ∧
    Inv (finalAcc (cs.foldl update (new key))) ∧
    macChunks key cs = finish (finalAcc (cs.foldl update (new key))) (new key).pad0 (new key).pad1 := by
  have hall : ∀ pre : List Bytes, StInv (new key).r (new key).pad0 (new key).pad1 (pre.foldl update (new key))
      ([] ++ pre.flatten) := fun pre => foldl_update_spec _ _ _ (new_rinv key) pre _ _ (new_inv key)
  refine ⟨new_rinv key, fun n => ?_, fun _ => ?_, finalAcc_inv _ (run_safe key cs), ?_⟩
  · obtain ⟨e1, _, _, e4, e5, _⟩ := hall (cs.take n)
    exact ⟨e1, e5, e4⟩
  · exact lastBlock_length _ (run_safe key cs).2.2
  · obtain ⟨_, e2, e3, e4, _, _⟩ := hall cs
    unfold macChunks
    rw [finalize_eq_finish _ e4, e2, e3]

end DryocVerif.Proofs.Poly1305

section AxiomCheck
open DryocVerif.Proofs.Poly1305
#print axioms macChunksK_eq
#print axioms run_no_overflow
end AxiomCheck
