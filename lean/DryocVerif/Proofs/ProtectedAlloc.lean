import DryocVerif.Proofs.ProtectedKernel
/-
Page-level specifications of `alloc` / `dealloc`.
-/
namespace DryocVerif.Proofs.Protected
open DryocVerif DryocVerif.Model.Protected

theorem addr_succ (b P : Nat) : b * P + P = (b + 1) * P := by rw [Nat.add_mul]; simp

theorem addr_aft {P : Nat} (hP : 0 < P) (b s : Nat) :
    b * P + (P + pageRound P s) = (b + s / P + 2) * P := by
  rw [pageRound_eq hP]
  simp only [Nat.add_mul]; omega

theorem blockPages {P : Nat} (hP : 0 < P) (s : Nat) : (pageRound P s + 2 * P) / P = s / P + 3 := by
  rw [pageRound_eq hP]
  have : (s / P + 1) * P + 2 * P = (s / P + 3) * P := by simp only [Nat.add_mul]; omega
  rw [this, div_aligned hP]

theorem ptr_eq (c : Cfg) (v : PVec) : ptr c v = (v.base + 1) * c.P := rfl

theorem ptr_sub (c : Cfg) (v : PVec) : ptr c v - c.P = v.base * c.P := by
  rw [ptr_eq, Nat.add_mul]; simp

/-! ### alloc -/

@[simp] theorem alloc_base (c : Cfg) (m : Mach) (size : Nat) : (alloc c m size).2 = m.k.brk := rfl
@[simp] theorem alloc_cnt (c : Cfg) (m : Mach) (size : Nat) : (alloc c m size).1.cnt = m.cnt := rfl
@[simp] theorem alloc_oracle (c : Cfg) (m : Mach) (size : Nat) : (alloc c m size).1.oracle = m.oracle := rfl
@[simp] theorem alloc_rel (c : Cfg) (m : Mach) (size : Nat) : (alloc c m size).1.rel = m.rel := rfl

@[simp] theorem alloc_locked (c : Cfg) (m : Mach) (size : Nat) :
    (alloc c m size).1.k.locked = m.k.locked := by
  simp [alloc]

@[simp] theorem alloc_al (c : Cfg) (m : Mach) (size : Nat) :
    (alloc c m size).1.k.al = m.k.al ++ [(m.k.brk, size)] := by
  simp [alloc]

@[simp] theorem alloc_fr (c : Cfg) (m : Mach) (size : Nat) : (alloc c m size).1.k.fr = m.k.fr := by
  simp [alloc]

theorem alloc_brk (c : Cfg) (hP : 0 < c.P) (m : Mach) (size : Nat) :
    (alloc c m size).1.k.brk = m.k.brk + size / c.P + 3 := by
  simp [alloc, blockPages hP]; omega

theorem alloc_perm (c : Cfg) (hP : 0 < c.P) (m : Mach) (size : Nat) (i : Nat) :
    (alloc c m size).1.k.perm i =
      if m.k.brk + 1 ≤ i ∧ i < m.k.brk + 1 + pagesOf c.P size then .rw
      else if i = m.k.brk + size / c.P + 2 then .none
      else if i = m.k.brk then .none
      else m.k.perm i := by
  simp only [alloc]
  rw [addr_succ, addr_aft hP, mprotect_perm hP, mprotect_perm hP, mprotect_perm hP, pagesOf_self hP]
  grind

/-! ### dealloc -/

@[simp] theorem dealloc_cnt (c : Cfg) (m : Mach) (v : PVec) : (dealloc c m v).cnt = m.cnt := rfl
@[simp] theorem dealloc_oracle (c : Cfg) (m : Mach) (v : PVec) : (dealloc c m v).oracle = m.oracle := rfl

@[simp] theorem dealloc_locked (c : Cfg) (m : Mach) (v : PVec) :
    (dealloc c m v).k.locked = m.k.locked := by
  simp [dealloc]

@[simp] theorem dealloc_brk (c : Cfg) (m : Mach) (v : PVec) :
    (dealloc c m v).k.brk = m.k.brk := by
  simp [dealloc]

@[simp] theorem dealloc_al (c : Cfg) (m : Mach) (v : PVec) : (dealloc c m v).k.al = m.k.al := by
  simp [dealloc]

@[simp] theorem dealloc_fr (c : Cfg) (m : Mach) (v : PVec) :
    (dealloc c m v).k.fr = m.k.fr ++ [(v.base, v.cap)] := by
  simp [dealloc]

theorem dealloc_perm (c : Cfg) (hP : 0 < c.P) (m : Mach) (v : PVec) (i : Nat) :
    (dealloc c m v).k.perm i =
      if (v.base + 1 ≤ i ∧ i < v.base + 1 + pagesOf c.P v.cap) ∨ i = v.base ∨ i = v.base + v.cap / c.P + 2
      then .rw else m.k.perm i := by
  simp only [dealloc]
  rw [ptr_sub, addr_aft hP, ptr_eq, mprotect_perm hP, mprotect_perm hP, mprotect_perm hP, pagesOf_self hP]
  grind

theorem dealloc_rel (c : Cfg) (m : Mach) (v : PVec) :
    (dealloc c m v).rel = m.rel ++ [(v.cap, nonzero ((if c.wipe then wipeN v.cap v.buf else v.buf).take v.cap))] := rfl

end DryocVerif.Proofs.Protected
