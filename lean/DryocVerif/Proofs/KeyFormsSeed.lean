import DryocVerif.Model.KeyFormsSeed
import DryocVerif.Proofs.KeyFormsExtra
import DryocVerif.Proofs.ObjectViewExtra
/-!
`SigningKeyPair::from_seed` on a seed container whose length is not in its type (`Model/KeyFormsSeed.lean`).  Core only.
-/
namespace DryocVerif.Proofs.KeyFormsSeed
open DryocVerif DryocVerif.Model.KeyForms DryocVerif.Model.ArrayView

/-- closed form -/
theorem signFromSeedObj_eq (H : Bytes → Bytes) (seed : Bytes) :
    signFromSeedObj H seed =
      if seed.length < 32 then .panic else .ok (Model.Sign.seedKeypair H (seed.take 32)) := by
  unfold signFromSeedObj asArray
  by_cases h : seed.length < 32 <;> simp [h, Model.EncodingVec.bind]

/-- **`SigningKeyPair::from_seed(&seed)` for a `Vec<u8>` / `&[u8]` seed**: a PANIC iff the container holds fewer than
32 bytes (`seed.as_array()`'s assertion); never an error; for 32 bytes or more the key pair of the FIRST 32 bytes (a
longer seed is silently truncated); at exactly 32 bytes — the only case a typed seed (`[u8; 32]`, `StackByteArray<32>`)
can be in — the typed model `Model.Sign.seedKeypair H seed`. -/
theorem signFromSeedObj_cases (H : Bytes → Bytes) (seed : Bytes) :
    (signFromSeedObj H seed = .panic ↔ seed.length < 32) ∧
    signFromSeedObj H seed ≠ .err ∧
    (32 ≤ seed.length → signFromSeedObj H seed = .ok (Model.Sign.seedKeypair H (seed.take 32))) ∧
    (seed.length = 32 → signFromSeedObj H seed = .ok (Model.Sign.seedKeypair H seed)) := by
  rw [signFromSeedObj_eq]
  refine ⟨?_, ?_, ?_, ?_⟩
  · by_cases h : seed.length < 32 <;> simp [h]
  · by_cases h : seed.length < 32 <;> simp [h]
  · intro h; rw [if_neg (by omega)]
  · intro h; rw [if_neg (by omega), List.take_of_length_le (by omega)]

/-- the pure `seedKeypair` in the statement above IS what the in-place routine leaves in the two freshly made
(`new_byte_array`: zeroed, 32 and 64 bytes) output containers -/
theorem signFromSeedObj_eq_inplace (H : Bytes → Bytes) (seed : Bytes) (h : 32 ≤ seed.length) :
    signFromSeedObj H seed = signSeedKeypairInplace H (zeros 32) (zeros 64) (seed.take 32) := by
  rw [(signFromSeedObj_cases H seed).2.2.1 h,
    Proofs.KeyFormsExtra.signSeedKeypairInplace_eq H (zeros 32) (zeros 64) (seed.take 32)
      (by simp [zeros]) (by simp [zeros]) (by rw [List.length_take]; omega)]

/-- non-vacuity of the hypotheses, and the three kinds of outcome on lengths 31 / 32 / 33 (any `H`) -/
example (H : Bytes → Bytes) :
    signFromSeedObj H (zeros 31) = .panic ∧
    signFromSeedObj H (zeros 32) = .ok (Model.Sign.seedKeypair H (zeros 32)) ∧
    signFromSeedObj H (zeros 32 ++ [9]) = .ok (Model.Sign.seedKeypair H (zeros 32)) :=
  ⟨(signFromSeedObj_cases H _).1.2 (by decide), (signFromSeedObj_cases H _).2.2.2 (by decide),
    ((signFromSeedObj_cases H _).2.2.1 (by decide)).trans (by rfl)⟩

#print axioms signFromSeedObj_cases
#print axioms signFromSeedObj_eq_inplace

end DryocVerif.Proofs.KeyFormsSeed
