import DryocVerif.Gen.SipHash
import DryocVerif.Model.Core
import DryocVerif.Proofs.Core
/-
The machine-generated `Gen.SipHash.siphash24` (from /repo/src/siphash24.rs, `Nat` arithmetic) equals the
hand model `Model.Core.siphash24` (`UInt64` arithmetic).  Core only.
-/
namespace DryocVerif.Proofs.GenSipHash
open DryocVerif DryocVerif.Gen
open DryocVerif.Model.Core
open DryocVerif.Model.Utils (loadU64LE)

/-! ### word operations: `Nat` (generated) versus `UInt64` (model) -/

theorem add64 (a b : UInt64) : (a.toNat + b.toNat) % U64 = (a + b).toNat :=
  (UInt64.toNat_add a b).symm

theorem xor64 (a b : UInt64) : a.toNat ^^^ b.toNat = (a ^^^ b).toNat :=
  (UInt64.toNat_xor a b).symm

theorem xor255 (a : UInt64) : a.toNat ^^^ 255 = (a ^^^ 0xff).toNat :=
  (UInt64.toNat_xor a 0xff).symm

theorem rotl64_gen (x : UInt64) (b : Nat) (h0 : 0 < b) (hb : b < 64) :
    Gen.SipHash.rotl64 x.toNat b = (Model.Core.rotl64 x (UInt64.ofNat b)).toNat := by
  have h1 : (UInt64.ofNat b).toNat % 64 = b := by
    rw [UInt64.toNat_ofNat']; omega
  have h2 : (64 - UInt64.ofNat b).toNat % 64 = 64 - b := by
    rw [UInt64.toNat_sub, UInt64.toNat_ofNat']
    have : (64 : UInt64).toNat = 64 := rfl
    rw [this]; omega
  simp only [Gen.SipHash.rotl64, Model.Core.rotl64, UInt64.toNat_or, UInt64.toNat_shiftLeft,
    UInt64.toNat_shiftRight, h1, h2, U64]

theorem rotl64_13 (x : UInt64) : Gen.SipHash.rotl64 x.toNat 13 = (Model.Core.rotl64 x 13).toNat :=
  rotl64_gen x 13 (by decide) (by decide)
theorem rotl64_16 (x : UInt64) : Gen.SipHash.rotl64 x.toNat 16 = (Model.Core.rotl64 x 16).toNat :=
  rotl64_gen x 16 (by decide) (by decide)
theorem rotl64_17 (x : UInt64) : Gen.SipHash.rotl64 x.toNat 17 = (Model.Core.rotl64 x 17).toNat :=
  rotl64_gen x 17 (by decide) (by decide)
theorem rotl64_21 (x : UInt64) : Gen.SipHash.rotl64 x.toNat 21 = (Model.Core.rotl64 x 21).toNat :=
  rotl64_gen x 21 (by decide) (by decide)
theorem rotl64_32 (x : UInt64) : Gen.SipHash.rotl64 x.toNat 32 = (Model.Core.rotl64 x 32).toNat :=
  rotl64_gen x 32 (by decide) (by decide)


/-! ### the generated function, re-associated into rounds

`Gen.SipHash.siphash24` has the `round` closure inlined eight times.  `roundN`, `chunkN`, `lastN`, `finishN`
restate its pieces on `Nat`; `gen_shape` (by `rfl`, i.e. by unfolding both sides) ties them to the generated
definition, so any semantic change of the generated code breaks `gen_shape`. -/

/-- the generated loop state `(v3, v0, v1, v2)` of a model state -/
def toN (s : V4) : Nat × Nat × Nat × Nat := (s.v3.toNat, s.v0.toNat, s.v1.toNat, s.v2.toNat)

/-- the inlined `round` closure on the tuple `(v3, v0, v1, v2)` -/
def roundN (t : Nat × Nat × Nat × Nat) : Nat × Nat × Nat × Nat :=
  let (v3, v0, v1, v2) := t
  let v0 := ((v0 + v1) % U64)
  let v1 := (Gen.SipHash.rotl64 v1 13)
  let v1 := (v1 ^^^ v0)
  let v0 := (Gen.SipHash.rotl64 v0 32)
  let v2 := ((v2 + v3) % U64)
  let v3 := (Gen.SipHash.rotl64 v3 16)
  let v3 := (v3 ^^^ v2)
  let v0 := ((v0 + v3) % U64)
  let v3 := (Gen.SipHash.rotl64 v3 21)
  let v3 := (v3 ^^^ v0)
  let v2 := ((v2 + v1) % U64)
  let v1 := (Gen.SipHash.rotl64 v1 17)
  let v1 := (v1 ^^^ v2)
  let v2 := (Gen.SipHash.rotl64 v2 32)
  (v3, v0, v1, v2)

def chunkN (t : Nat × Nat × Nat × Nat) (chunk : Bytes) : Nat × Nat × Nat × Nat :=
  let (v3, v0, v1, v2) := t
  let m := Gen.Utils.load_u64_le chunk
  let (v3, v0, v1, v2) := roundN (roundN (v3 ^^^ m, v0, v1, v2))
  (v3, v0 ^^^ m, v1, v2)

def initN (key : Bytes) : Nat × Nat × Nat × Nat :=
  let k0 := Gen.Utils.load_u64_le (key.take 8)
  let k1 := Gen.Utils.load_u64_le (key.drop 8)
  (8387220255154660723 ^^^ k1, 8317987319222330741 ^^^ k0, 7237128888997146477 ^^^ k1,
    7816392313619706465 ^^^ k0)

def lastN (input : Bytes) : Nat :=
  let remainder := input.drop (input.length / 8 * 8)
  ((List.range' 0 (remainder.length - 0)).reverse).foldl
    (fun b i => b ||| (((byteAt remainder i) <<< (i * 8)) % U64)) ((input.length <<< 56) % U64)

def finishN (t : Nat × Nat × Nat × Nat) (b : Nat) : Nat :=
  let (v3, v0, v1, v2) := t
  let (v3, v0, v1, v2) := roundN (roundN (v3 ^^^ b, v0, v1, v2))
  let (v3, v0, v1, v2) := roundN (roundN (roundN (roundN (v3, v0 ^^^ b, v1, v2 ^^^ 255))))
  (((v0 ^^^ v1) ^^^ v2) ^^^ v3)

/-- The generated definition is, by unfolding, the composition of the pieces above.  (The loop result and `b`
are first abstracted to variables: with the stuck `foldl` terms at the leaves the elaborator's `rfl` check does
not terminate in reasonable time, with variables it is immediate.) -/
theorem gen_shape (input key : Bytes) :
    Gen.SipHash.siphash24 input key
      = finishN ((Gen.chunksExact 8 input).foldl chunkN (initN key)) (lastN input) := by
  unfold Gen.SipHash.siphash24
  -- the ten initial `let`s become local definitions, the loop result is abstracted to `t`
  extract_lets +onlyGivenNames c0 c1 c2 c3 k0 k1 i3 i2 i1 i0
  generalize hT : List.foldl _ _ (Gen.chunksExact 8 input) = t
  have e : List.foldl chunkN (initN key) (Gen.chunksExact 8 input) = t := by rw [← hT]; rfl
  rw [e]
  clear hT e
  -- the three `let`s computing `b`
  extract_lets +onlyGivenNames b0 rem b
  have hb : lastN input = b := rfl
  rw [hb]
  clear_value b
  rfl

/-! ### the pieces equal the model -/

theorem load_u64_eq (bs : Bytes) : Gen.Utils.load_u64_le bs = (loadU64LE bs).toNat := by
  simp only [Gen.Utils.load_u64_le, loadU64LE, byteAt, UInt64.toNat_or, UInt64.toNat_shiftLeft,
    UInt8.toNat_toUInt64, U64]
  rfl

theorem roundN_eq (s : V4) : roundN (toN s) = toN (round s) := by
  obtain ⟨v0, v1, v2, v3⟩ := s
  simp only [roundN, toN, add64, xor64, rotl64_13, rotl64_16, rotl64_17, rotl64_21, rotl64_32]
  rfl

theorem chunkN_eq (s : V4) (chunk : Bytes) : chunkN (toN s) chunk = toN (sipChunk s chunk) := by
  have h : (s.v3.toNat ^^^ (loadU64LE chunk).toNat, s.v0.toNat, s.v1.toNat, s.v2.toNat)
      = toN { s with v3 := s.v3 ^^^ loadU64LE chunk } := by simp only [toN, xor64]
  simp only [chunkN, toN, load_u64_eq]
  rw [h, roundN_eq, roundN_eq]
  simp only [toN, xor64]
  rfl

theorem finishN_eq (s : V4) (b : UInt64) :
    finishN (toN s) b.toNat =
      (let s := { s with v3 := s.v3 ^^^ b }
       let s := round s
       let s := round s
       let s := { s with v0 := s.v0 ^^^ b }
       let s := { s with v2 := s.v2 ^^^ 0xff }
       let s := round s
       let s := round s
       let s := round s
       let s := round s
       s.v0 ^^^ s.v1 ^^^ s.v2 ^^^ s.v3).toNat := by
  have h1 : (s.v3.toNat ^^^ b.toNat, s.v0.toNat, s.v1.toNat, s.v2.toNat)
      = toN { s with v3 := s.v3 ^^^ b } := by simp only [toN, xor64]
  simp only [finishN, toN]
  rw [h1, roundN_eq, roundN_eq]
  generalize round (round { s with v3 := s.v3 ^^^ b }) = s1
  have h2 : (s1.v3.toNat, s1.v0.toNat ^^^ b.toNat, s1.v1.toNat, s1.v2.toNat ^^^ 255)
      = toN { { s1 with v0 := s1.v0 ^^^ b } with v2 := s1.v2 ^^^ 0xff } := by
    simp only [toN, xor64, xor255]
  simp only [toN]
  rw [h2, roundN_eq, roundN_eq, roundN_eq, roundN_eq]
  simp only [toN, xor64]


/-! ### the last word `b` -/

theorem lastStep_eq (rem : Bytes) (b : UInt64) (i : Nat) (hi : i < 8) :
    b.toNat ||| (((byteAt rem i) <<< (i * 8)) % U64)
      = (b ||| ((rem.getD i 0).toUInt64 <<< UInt64.ofNat (i * 8))).toNat := by
  have h : (i * 8) % 2 ^ 64 % 64 = i * 8 := by omega
  simp only [byteAt, UInt64.toNat_or, UInt64.toNat_shiftLeft, UInt8.toNat_toUInt64,
    UInt64.toNat_ofNat', h, U64]

theorem lastFold_eq (rem : Bytes) : ∀ (l : List Nat), (∀ i ∈ l, i < 8) → ∀ b : UInt64,
    l.foldl (fun b i => b ||| (((byteAt rem i) <<< (i * 8)) % U64)) b.toNat
      = (l.foldl (fun b i => b ||| ((rem.getD i 0).toUInt64 <<< UInt64.ofNat (i * 8))) b).toNat := by
  intro l
  induction l with
  | nil => intro _ b; rfl
  | cons i l ih =>
    intro h b
    simp only [List.foldl_cons]
    rw [lastStep_eq rem b i (h i (List.mem_cons_self ..))]
    exact ih (fun j hj => h j (List.mem_cons_of_mem _ hj)) _

theorem lenShift_eq (n : Nat) : (n <<< 56) % U64 = (UInt64.ofNat n <<< 56).toNat := by
  have h : (56 : UInt64).toNat % 64 = 56 := rfl
  simp only [UInt64.toNat_shiftLeft, UInt64.toNat_ofNat', h, U64, Nat.shiftLeft_eq]
  omega

theorem lastN_eq (input : Bytes) :
    lastN input = (sipLastWord input.length (chunksExactRemainder 8 input)).toNat := by
  have hlen : (input.drop (input.length / 8 * 8)).length < 8 := by
    rw [List.length_drop]; omega
  simp only [lastN, sipLastWord, chunksExactRemainder, Nat.sub_zero, List.range_eq_range', lenShift_eq]
  apply lastFold_eq
  intro i hi
  rw [List.mem_reverse, List.mem_range'_1] at hi
  omega

/-! ### `chunks_exact(8)`: the generated `filter` form and the model's recursion -/

theorem gen_chunksExact_short (bs : Bytes) (h : bs.length < 8) : Gen.chunksExact 8 bs = [] := by
  unfold Gen.chunksExact
  cases bs with
  | nil => rfl
  | cons b bs =>
    rw [Proofs.Poly1305.chunks_single 8 (b :: bs) (by simp) (by omega)]
    have : ((b :: bs).length == 8) = false := by
      rw [beq_eq_false_iff_ne]; omega
    simp only [List.filter_cons, this, List.filter_nil, Bool.false_eq_true, if_false]

theorem gen_chunksExact_cons (a b : Bytes) (ha : a.length = 8) :
    Gen.chunksExact 8 (a ++ b) = a :: Gen.chunksExact 8 b := by
  unfold Gen.chunksExact
  rw [Proofs.Poly1305.chunks_cons_block 8 (by omega) _ _ ha]
  have : (a.length == 8) = true := by rw [ha]; rfl
  simp only [List.filter_cons, this, if_true]

theorem chunksExact_eq : ∀ (n : Nat) (bs : Bytes), bs.length < 8 * (n + 1) →
    Gen.chunksExact 8 bs = Model.Core.chunksExact 8 bs := by
  intro n
  induction n with
  | zero =>
    intro bs h
    rw [Proofs.Core.chunksExact_short bs (by omega), gen_chunksExact_short bs (by omega)]
  | succ n ih =>
    intro bs h
    by_cases hs : bs.length < 8
    · rw [Proofs.Core.chunksExact_short bs hs, gen_chunksExact_short bs hs]
    · have hsplit : bs = bs.take 8 ++ bs.drop 8 := (List.take_append_drop 8 bs).symm
      have htake : (bs.take 8).length = 8 := by rw [List.length_take]; omega
      have hdrop : (bs.drop 8).length < 8 * (n + 1) := by rw [List.length_drop]; omega
      rw [hsplit, Proofs.Core.chunksExact_cons _ _ htake, gen_chunksExact_cons _ _ htake, ih _ hdrop]

theorem chunksExact_eq' (bs : Bytes) : Gen.chunksExact 8 bs = Model.Core.chunksExact 8 bs :=
  chunksExact_eq bs.length bs (by omega)


/-! ### main theorem -/

theorem foldl_chunkN (cs : List Bytes) : ∀ s : V4,
    cs.foldl chunkN (toN s) = toN (cs.foldl sipChunk s) := by
  induction cs with
  | nil => intro s; rfl
  | cons c cs ih => intro s; rw [List.foldl_cons, List.foldl_cons, chunkN_eq, ih]

theorem initN_eq (key : Bytes) :
    initN key = toN ⟨0x736f6d6570736575 ^^^ loadU64LE (key.take 8), 0x646f72616e646f6d ^^^ loadU64LE (key.drop 8),
      0x6c7967656e657261 ^^^ loadU64LE (key.take 8), 0x7465646279746573 ^^^ loadU64LE (key.drop 8)⟩ := by
  simp only [initN, toN, load_u64_eq, UInt64.toNat_xor]
  rfl

/-- **`siphash24`**: the hand model equals the code generated from `src/siphash24.rs`, for every key and
input (no length hypothesis is needed: both sides read a missing key byte as 0). -/
theorem siphash24_eq_model (key input : Bytes) :
    Model.Core.siphash24 key input = toLE 8 (Gen.SipHash.siphash24 input key) := by
  rw [gen_shape, chunksExact_eq', initN_eq, foldl_chunkN, lastN_eq, finishN_eq]
  rfl

/-- sanity test (not a proof ingredient): the 15-byte vector of the SipHash reference implementation -/
example :
    Gen.SipHash.siphash24 [0, 1, 2, 3, 4, 5, 6, 7, 8, 9, 10, 11, 12, 13, 14]
        [0, 1, 2, 3, 4, 5, 6, 7, 8, 9, 10, 11, 12, 13, 14, 15] = 0xa129ca6149be45e5
      ∧ Model.Core.siphash24 [0, 1, 2, 3, 4, 5, 6, 7, 8, 9, 10, 11, 12, 13, 14, 15]
        [0, 1, 2, 3, 4, 5, 6, 7, 8, 9, 10, 11, 12, 13, 14]
        = toLE 8 (Gen.SipHash.siphash24 [0, 1, 2, 3, 4, 5, 6, 7, 8, 9, 10, 11, 12, 13, 14]
            [0, 1, 2, 3, 4, 5, 6, 7, 8, 9, 10, 11, 12, 13, 14, 15]) := by
  decide +kernel

#print axioms siphash24_eq_model
end DryocVerif.Proofs.GenSipHash
