import Mathlib.Algebra.Group.Basic
import DryocVerif.Proofs.Sign
/-!
The algebraic core of `verify ∘ sign = true`, over an ABSTRACT additive commutative
group (Mathlib's `AddCommGroup`; the only Mathlib module imported is
`Mathlib.Algebra.Group.Basic`).  Nothing here mentions the curve.
-/
namespace DryocVerif.Proofs.SignGroup

variable {G : Type _} [AddCommGroup G]

/-- scalars act modulo the order of the base point -/
theorem mod_nsmul (B : G) (L : ℕ) (hB : L • B = 0) (n : ℕ) : (n % L) • B = n • B := by
  conv => rhs; rw [← Nat.mod_add_div n L]
  rw [add_nsmul, mul_nsmul, hB, nsmul_zero, add_zero]

/-- In any additive commutative group with a point `B` such that `L • B = 0`: for
`A = a • B`, `R = r • B`, `S = (r + k * a) % L` one has `S • B - k • A = R`. -/
theorem verify_sign (B : G) (L : ℕ) (hB : L • B = 0) (a r k : ℕ) :
    ((r + k * a) % L) • B - k • (a • B) = r • B := by
  rw [mod_nsmul B L hB, add_nsmul, mul_nsmul', add_sub_cancel_right]

/-- the same in the order in which dryoc evaluates it: `k • (−A) + S • B = R` -/
theorem verify_sign' (B : G) (L : ℕ) (hB : L • B = 0) (a r k : ℕ) :
    k • (-(a • B)) + ((r + k * a) % L) • B = r • B := by
  rw [neg_nsmul, add_comm, ← sub_eq_add_neg]
  exact verify_sign B L hB a r k

/-! ### from the abstract group to the model's `verifyDetached ∘ signDetached`

The hypothesis that the Edwards arithmetic of `Spec.Ed25519` (standing for
curve25519-dalek's) instantiates an abstract commutative group is collected in
`EdwardsInterp`.  It is a HYPOTHESIS of the theorems below (a structure of
assumptions passed as an argument) — it is NOT proved here, neither for the Lean
functions nor for dalek. -/

open DryocVerif DryocVerif.Spec.Ed25519 DryocVerif.Model.Sign DryocVerif.Proofs.Sign

/-- "the curve operations are a group": `valid` = on the curve with consistent
extended coordinates, `φ` = the abstract group element a representation denotes.
UNPROVED assumption, always used as an explicit hypothesis. -/
structure EdwardsInterp (G : Type _) [AddCommGroup G] (valid : Point → Prop) (φ : Point → G) :
    Prop where
  valid_B : valid B
  valid_add : ∀ {P Q}, valid P → valid Q → valid (add P Q)
  valid_neg : ∀ {P}, valid P → valid (neg P)
  valid_smul : ∀ {P} (n : ℕ), valid P → valid (scalarMul n P)
  map_add : ∀ {P Q}, valid P → valid Q → φ (add P Q) = φ P + φ Q
  map_neg : ∀ {P}, valid P → φ (neg P) = -φ P
  map_smul : ∀ {P} (n : ℕ), valid P → n < 2 ^ 256 → φ (scalarMul n P) = n • φ P
  eq_iff : ∀ {P Q}, valid P → valid Q → (pointEq P Q = true ↔ φ P = φ Q)
  order_B : L • φ B = 0
  /-- lenient decoding inverts encoding up to the representation -/
  decode_encode : ∀ {P}, valid P →
    ∃ P', decodePointLax (encodePoint P) = some P' ∧ valid P' ∧ φ P' = φ P

variable {valid : Point → Prop} {φ : Point → G}

/-- the group equation tested by `verifyDetached` holds for `S = (r + k·a) mod L` -/
theorem group_check (I : EdwardsInterp G valid φ) {A' R' : Point} {a r k : ℕ}
    (hA : valid A') (hAφ : φ A' = a • φ B) (hR : valid R') (hRφ : φ R' = r • φ B)
    (hk : k < 2 ^ 256) :
    pointEq (add (scalarMul k (neg A')) (scalarMul ((r + k * a) % L) B)) R' = true := by
  have hS : (r + k * a) % L < 2 ^ 256 :=
    Nat.lt_trans (Nat.mod_lt _ (by decide)) (by decide)
  have v1 := I.valid_smul k (I.valid_neg hA)
  have v2 := I.valid_smul ((r + k * a) % L) I.valid_B
  rw [I.eq_iff (I.valid_add v1 v2) hR, I.map_add v1 v2, I.map_smul k (I.valid_neg hA) hk,
    I.map_neg hA, I.map_smul _ I.valid_B hS, hAφ, hRφ]
  exact verify_sign' (φ B) L I.order_B a r k

/-- **verify ∘ sign = true** for the model, for a key pair made by `seedKeypair`, in
both modes, UNDER the unproved hypothesis `I` that the curve arithmetic is a group,
and provided neither `R` nor the public key has small order (dryoc rejects those —
this happens for `r ≡ 0 (mod L)`, probability ≈ 2⁻²⁵²). -/
theorem verify_sign_of_interp (I : EdwardsInterp G valid φ) (H : Bytes → Bytes)
    (seed msg : Bytes) (ph : Bool) (hseed : seed.length = 32)
    (hRso : ∀ P, decodePointLax
        ((signDetached H msg (seedKeypair H seed).2 ph).take 32) = some P → isSmallOrder P = false)
    (hAso : ∀ P, decodePointLax (seedKeypair H seed).1 = some P → isSmallOrder P = false) :
    verifyDetached H (signDetached H msg (seedKeypair H seed).2 ph) msg (seedKeypair H seed).1 ph
      = true := by
  have hpk : (seedKeypair H seed).1
      = encodePoint (scalarMul (le (clampHash (H seed)) % L) B) := rfl
  have hsk : (seedKeypair H seed).2 = seed ++ (seedKeypair H seed).1 := rfl
  generalize hpkv : (seedKeypair H seed).1 = pk at *
  generalize hskv : (seedKeypair H seed).2 = sk at *
  have htake : sk.take 32 = seed := by rw [hsk, List.take_left' hseed]
  have hdrop : sk.drop 32 = pk := by rw [hsk, List.drop_left' hseed]
  have hlt : ∀ n : ℕ, n % L < 2 ^ 256 := fun n =>
    Nat.lt_trans (Nat.mod_lt _ (by decide)) (by decide)
  -- decode R and A
  obtain ⟨R', hRdec, hRv, hRφ⟩ := I.decode_encode (I.valid_smul (nonceR H msg sk ph) I.valid_B)
  obtain ⟨A', hAdec, hAv, hAφ⟩ :=
    I.decode_encode (I.valid_smul (le (clampHash (H seed)) % L) I.valid_B)
  rw [← hpk] at hAdec
  rw [I.map_smul _ I.valid_B (by unfold nonceR; exact hlt _)] at hRφ
  rw [I.map_smul _ I.valid_B (hlt _)] at hAφ
  have hRdec' : decodePointLax ((signDetached H msg sk ph).take 32) = some R' := by
    rw [signDetached_take32]; exact hRdec
  rw [verifyDetached_true_iff]
  refine ⟨signDetached_length .., by rw [hpk]; exact encodePoint_length _,
    by rw [signDetached_le_drop32]; exact sigS_lt .., R', A', hRdec', hRso _ hRdec', hAdec,
    hAso _ hAdec, ?_⟩
  rw [signDetached_take32, signDetached_le_drop32]
  have hk : le (H ((if ph then DOM2PREFIX else []) ++ sigR H msg sk ph ++ pk ++ msg)) % L
      = hramK H msg sk ph := by
    unfold hramK domOf; rw [hdrop]; simp only [List.append_assoc]
  have hS : sigS H msg sk ph
      = (nonceR H msg sk ph + hramK H msg sk ph * (le (clampHash (H seed)) % L)) % L := by
    unfold sigS secretA; rw [htake, Nat.mod_add_mod, Nat.add_comm]
  rw [hk, hS]
  exact group_check I hAv hAφ hRv hRφ (hlt _)

/-! ### key pairs: dalek's `[a mod L]B` vs RFC 8032's `[a]B`

`seedKeypair` (dryoc/dalek) multiplies the base point by `a mod L`, RFC 8032 `publicKey`
by the clamped `a` itself (`2^254 ≤ a < 2^255`, so `a ≠ a mod L`).  The two agree as
group elements by `[L]B = 0`; to conclude that the 32-byte ENCODINGS agree one more curve
fact is needed, which `EdwardsInterp` does not contain: the encoding depends only on the
group element, not on the projective representative. -/

/-- `EdwardsInterp` plus "equal group elements encode to equal bytes".  Like
`EdwardsInterp` this is an UNPROVED hypothesis structure; no instance is constructed
anywhere in this development. -/
structure EdwardsInterpEnc (G : Type _) [AddCommGroup G] (valid : Point → Prop) (φ : Point → G) :
    Prop extends EdwardsInterp G valid φ where
  encode_congr : ∀ {P Q}, valid P → valid Q → φ P = φ Q → encodePoint P = encodePoint Q

theorem le_clampHash_lt (h : Bytes) : le (clampHash h) < 2 ^ 256 := by
  have h1 := le_lt (clampHash h)
  have h2 : (clampHash h).length ≤ 32 := by
    rw [clampHash_eq_clamp]; unfold Spec.X25519.clamp
    simp only [List.length_modify, List.length_take]; omega
  calc le (clampHash h) < 256 ^ (clampHash h).length := h1
    _ ≤ 256 ^ 32 := Nat.pow_le_pow_right (by decide) h2
    _ = 2 ^ 256 := by decide

/-- the base-point multiples by `n mod L` and by `n` encode to the same bytes -/
theorem encode_smul_mod (I : EdwardsInterpEnc G valid φ) (n : ℕ) (hn : n < 2 ^ 256) :
    encodePoint (scalarMul (n % L) B) = encodePoint (scalarMul n B) := by
  have I' := I.toEdwardsInterp
  have hlt : n % L < 2 ^ 256 := Nat.lt_trans (Nat.mod_lt _ (by decide)) (by decide)
  apply I.encode_congr (I'.valid_smul _ I'.valid_B) (I'.valid_smul _ I'.valid_B)
  rw [I'.map_smul _ I'.valid_B hlt, I'.map_smul _ I'.valid_B hn]
  exact mod_nsmul (φ B) L I'.order_B n

/-- **for every seed**: the public key dryoc derives is RFC 8032's -/
theorem seedKeypair_pk_eq_publicKey (I : EdwardsInterpEnc G valid φ) (seed : Bytes) :
    (seedKeypair Spec.Sha512.sha512 seed).1 = publicKey seed := by
  show encodePoint (scalarMul (le (clampHash (Spec.Sha512.sha512 seed)) % L) B) = _
  rw [encode_smul_mod I _ (le_clampHash_lt _)]
  simp [publicKey, secretExpand, Spec.X25519.decodeScalar25519, clampHash_eq_clamp, clamp_take]

/-- **for every 32-byte seed and message, both modes**: signing with the key pair made by
`seedKeypair` is RFC 8032 `signCore` on that seed -/
theorem sign_seedKeypair_eq_signCore (I : EdwardsInterpEnc G valid φ) (seed msg : Bytes)
    (ph : Bool) (hseed : seed.length = 32) :
    signDetached Spec.Sha512.sha512 msg (seedKeypair Spec.Sha512.sha512 seed).2 ph
      = signCore (if ph then dom2 1 [] else []) seed msg := by
  have hsk : (seedKeypair Spec.Sha512.sha512 seed).2
      = seed ++ (seedKeypair Spec.Sha512.sha512 seed).1 := rfl
  have htake : ((seedKeypair Spec.Sha512.sha512 seed).2).take 32 = seed := by
    rw [hsk, List.take_left' hseed]
  have hdrop : ((seedKeypair Spec.Sha512.sha512 seed).2).drop 32 = publicKey seed := by
    rw [hsk, List.drop_left' hseed, seedKeypair_pk_eq_publicKey I]
  have := signDetached_eq_signCore msg (seedKeypair Spec.Sha512.sha512 seed).2 ph
    (by rw [hdrop, htake])
  rw [this, htake]

end DryocVerif.Proofs.SignGroup
