import DryocVerif.Model.Protected
/-
Arithmetic of pages (symbolic page size `P > 0`) and page-level specifications of
the kernel calls, the allocator and the deallocator.
-/
namespace DryocVerif.Proofs.Protected
open DryocVerif DryocVerif.Model.Protected

/-! ### page arithmetic -/

theorem pageRound_eq {P : Nat} (hP : 0 < P) (s : Nat) : pageRound P s = (s / P + 1) * P := by
  unfold pageRound
  have h1 := Nat.div_add_mod s P
  have h2 := Nat.mod_lt s hP
  have h3 : (s / P + 1) * P = P * (s / P) + P := by rw [Nat.add_mul, Nat.mul_comm]; simp
  omega

theorem pagesOf_zero {P : Nat} (hP : 0 < P) : pagesOf P 0 = 0 := by
  unfold pagesOf
  apply Nat.div_eq_of_lt; omega

theorem pagesOf_self {P : Nat} (hP : 0 < P) : pagesOf P P = 1 := by
  unfold pagesOf
  have : P + P - 1 = (P - 1) + P := by omega
  rw [this, Nat.add_div_right _ hP, Nat.div_eq_of_lt (by omega)]

theorem pagesOf_pos {P : Nat} (hP : 0 < P) {len : Nat} (h : 0 < len) : 0 < pagesOf P len := by
  unfold pagesOf
  apply Nat.div_pos (by omega) hP

theorem pagesOf_mono {P : Nat} {a b : Nat} (h : a ≤ b) : pagesOf P a ≤ pagesOf P b := by
  unfold pagesOf
  apply Nat.div_le_div_right; omega

theorem pagesOf_le_div {P : Nat} (hP : 0 < P) (cap : Nat) : pagesOf P cap ≤ cap / P + 1 := by
  unfold pagesOf
  calc (cap + P - 1) / P ≤ (cap + P) / P := Nat.div_le_div_right (by omega)
    _ = cap / P + 1 := Nat.add_div_right _ hP

theorem pagesOf_le {P : Nat} (hP : 0 < P) {len cap : Nat} (h : len ≤ cap) :
    pagesOf P len ≤ cap / P + 1 :=
  Nat.le_trans (pagesOf_mono h) (pagesOf_le_div hP cap)

theorem div_aligned {P : Nat} (hP : 0 < P) (a : Nat) : a * P / P = a := Nat.mul_div_cancel a hP

theorem pageEnd_aligned {P : Nat} (hP : 0 < P) (a len : Nat) :
    pageEnd P (a * P) len = a + pagesOf P len := by
  unfold pageEnd pagesOf
  have : a * P + len + P - 1 = (len + P - 1) + a * P := by omega
  rw [this, Nat.add_mul_div_right _ _ hP]; omega

/-- byte offset of a byte inside an aligned region ↦ page -/
theorem div_aligned_add {P : Nat} (hP : 0 < P) (a off : Nat) : (a * P + off) / P = a + off / P := by
  rw [Nat.add_comm, Nat.add_mul_div_right _ _ hP]; omega

/-! ### `setRange` -/

@[simp] theorem setRange_apply {α : Type} (f : Nat → α) (lo hi : Nat) (x : α) (i : Nat) :
    setRange f lo hi x i = if lo ≤ i ∧ i < hi then x else f i := rfl

/-! ### page-level view of the calls on aligned addresses -/

theorem mprotect_perm {P : Nat} (hP : 0 < P) (k : Kernel) (a len : Nat) (p : Perm) (i : Nat) :
    (mprotect P k (a * P) len p).perm i =
      if a ≤ i ∧ i < a + pagesOf P len then p else k.perm i := by
  unfold mprotect
  by_cases h : len = 0
  · subst h; simp [pagesOf_zero hP]; omega
  · simp [h, div_aligned hP, pageEnd_aligned hP]

@[simp] theorem mprotect_locked (P : Nat) (k : Kernel) (a len : Nat) (p : Perm) :
    (mprotect P k a len p).locked = k.locked := by
  unfold mprotect; split <;> rfl

@[simp] theorem mprotect_brk (P : Nat) (k : Kernel) (a len : Nat) (p : Perm) :
    (mprotect P k a len p).brk = k.brk := by
  unfold mprotect; split <;> rfl

@[simp] theorem mprotect_al (P : Nat) (k : Kernel) (a len : Nat) (p : Perm) :
    (mprotect P k a len p).al = k.al := by
  unfold mprotect; split <;> rfl

@[simp] theorem mprotect_fr (P : Nat) (k : Kernel) (a len : Nat) (p : Perm) :
    (mprotect P k a len p).fr = k.fr := by
  unfold mprotect; split <;> rfl

@[simp] theorem munlockK_al (P : Nat) (k : Kernel) (a len : Nat) : (munlockK P k a len).al = k.al := rfl
@[simp] theorem munlockK_fr (P : Nat) (k : Kernel) (a len : Nat) : (munlockK P k a len).fr = k.fr := rfl
@[simp] theorem mlockK_al (P : Nat) (k : Kernel) (a len : Nat) : (mlockK P k a len).1.al = k.al := rfl
@[simp] theorem mlockK_fr (P : Nat) (k : Kernel) (a len : Nat) : (mlockK P k a len).1.fr = k.fr := rfl

@[simp] theorem madviseK_perm (P : Nat) (k : Kernel) (a len : Nat) (b : Bool) : (madviseK P k a len b).perm = k.perm := rfl
@[simp] theorem madviseK_locked (P : Nat) (k : Kernel) (a len : Nat) (b : Bool) :
    (madviseK P k a len b).locked = k.locked := rfl
@[simp] theorem madviseK_brk (P : Nat) (k : Kernel) (a len : Nat) (b : Bool) : (madviseK P k a len b).brk = k.brk := rfl
@[simp] theorem madviseK_al (P : Nat) (k : Kernel) (a len : Nat) (b : Bool) : (madviseK P k a len b).al = k.al := rfl
@[simp] theorem madviseK_fr (P : Nat) (k : Kernel) (a len : Nat) (b : Bool) : (madviseK P k a len b).fr = k.fr := rfl

theorem madviseK_dontdump {P : Nat} (hP : 0 < P) (k : Kernel) (a len : Nat) (b : Bool) (i : Nat) :
    (madviseK P k (a * P) len b).dontdump i =
      if a ≤ i ∧ i < a + pagesOf P len then b else k.dontdump i := by
  simp [madviseK, div_aligned hP, pageEnd_aligned hP]

@[simp] theorem mprotect_dontdump (P : Nat) (k : Kernel) (a len : Nat) (p : Perm) :
    (mprotect P k a len p).dontdump = k.dontdump := by
  unfold mprotect; split <;> rfl
@[simp] theorem munlockK_dontdump (P : Nat) (k : Kernel) (a len : Nat) : (munlockK P k a len).dontdump = k.dontdump := rfl
@[simp] theorem mlockK_dontdump (P : Nat) (k : Kernel) (a len : Nat) : (mlockK P k a len).1.dontdump = k.dontdump := rfl

/-- `mlock` / `munlock` do not look at `VM_DONTDUMP` -/
@[simp] theorem mlockK_madvise_snd (P : Nat) (k : Kernel) (a len a' len' : Nat) (b : Bool) :
    (mlockK P (madviseK P k a' len' b) a len).2 = (mlockK P k a len).2 := rfl

theorem munlockK_locked {P : Nat} (hP : 0 < P) (k : Kernel) (a len : Nat) (i : Nat) :
    (munlockK P k (a * P) len).locked i =
      if a ≤ i ∧ i < a + pagesOf P len then false else k.locked i := by
  simp [munlockK, div_aligned hP, pageEnd_aligned hP]

@[simp] theorem munlockK_perm (P : Nat) (k : Kernel) (a len : Nat) :
    (munlockK P k a len).perm = k.perm := rfl
@[simp] theorem munlockK_brk (P : Nat) (k : Kernel) (a len : Nat) :
    (munlockK P k a len).brk = k.brk := rfl

theorem mlockK_locked {P : Nat} (hP : 0 < P) (k : Kernel) (a len : Nat) (i : Nat) :
    (mlockK P k (a * P) len).1.locked i =
      if a ≤ i ∧ i < a + pagesOf P len then true else k.locked i := by
  simp [mlockK, div_aligned hP, pageEnd_aligned hP]

@[simp] theorem mlockK_perm (P : Nat) (k : Kernel) (a len : Nat) :
    (mlockK P k a len).1.perm = k.perm := rfl
@[simp] theorem mlockK_brk (P : Nat) (k : Kernel) (a len : Nat) :
    (mlockK P k a len).1.brk = k.brk := rfl

@[simp] theorem dryocMprotect_al (c : Cfg) (m : Mach) (a l : Nat) (p : Perm) :
    (dryocMprotect c m a l p).k.al = m.k.al := by simp [dryocMprotect]
@[simp] theorem dryocMprotect_fr (c : Cfg) (m : Mach) (a l : Nat) (p : Perm) :
    (dryocMprotect c m a l p).k.fr = m.k.fr := by simp [dryocMprotect]
@[simp] theorem dryocMunlock_al (c : Cfg) (m : Mach) (a l : Nat) : (dryocMunlock c m a l).k.al = m.k.al := by
  unfold dryocMunlock; split <;> simp
@[simp] theorem dryocMunlock_fr (c : Cfg) (m : Mach) (a l : Nat) : (dryocMunlock c m a l).k.fr = m.k.fr := by
  unfold dryocMunlock; split <;> simp

theorem anyNone_false_iff (k : Kernel) (lo hi : Nat) :
    anyNone k lo hi = false ↔ ∀ i, lo ≤ i → i < hi → k.perm i ≠ .none := by
  unfold anyNone
  rw [List.any_eq_false]
  constructor
  · intro h i h1 h2
    have := h (i - lo) (by simp; omega)
    have e : lo + (i - lo) = i := by omega
    simpa [e] using this
  · intro h d hd
    simp at hd
    simpa using h (lo + d) (by omega) (by omega)

/-- a granted lock request succeeds iff no page of the range is `PROT_NONE` -/
theorem mlockK_ok_iff {P : Nat} (hP : 0 < P) (k : Kernel) (a len : Nat) :
    (mlockK P k (a * P) len).2 = true ↔ ∀ i, a ≤ i → i < a + pagesOf P len → k.perm i ≠ .none := by
  simp only [mlockK, div_aligned hP, pageEnd_aligned hP, Bool.not_eq_true']
  exact anyNone_false_iff _ _ _

end DryocVerif.Proofs.Protected
