import DryocVerif.Gen.Pwhash
import DryocVerif.Model.Argon2
import DryocVerif.Proofs.GenArgon2
/-
The cost conversion, the parameter guards of `crypto_pwhash` / `crypto_pwhash_str` and the memory geometry of `argon2_hash`, as
translated from the source by `tools/rs2lean.py` on every run, are the ones of the hand-written model.  An edit such as casting before
dividing in `convert_costs`, validating the truncated instead of the caller's value, or a changed bound or rounding changes the
generated definitions and these equalities stop checking.
-/
namespace DryocVerif.Proofs.GenPwhash
open DryocVerif DryocVerif.Model.Argon2

/-- `convert_costs` as translated = the model's `convertCosts`, for every 64-bit opslimit and every memlimit -/
theorem convert_costs_eq_model (opslimit memlimit : Nat) :
    Gen.Pwhash.convert_costs opslimit memlimit = convertCosts opslimit memlimit := rfl

/-- the guards of `crypto_pwhash` are exactly the two range checks of the model (on the caller's 64-bit values), evaluated
before the conversion to 32 bits -/
theorem crypto_pwhash_guards_eq_model :
    Gen.Pwhash.crypto_pwhash_guards =
      [(CRYPTO_PWHASH_OPSLIMIT_MIN, CRYPTO_PWHASH_OPSLIMIT_MAX, "opslimit"),
       (CRYPTO_PWHASH_MEMLIMIT_MIN, CRYPTO_PWHASH_MEMLIMIT_MAX, "memlimit")]
    ∧ Gen.Pwhash.crypto_pwhash_validates_before_convert = true := by
  simp [Gen.Pwhash.crypto_pwhash_guards, Gen.Pwhash.crypto_pwhash_validates_before_convert, CRYPTO_PWHASH_OPSLIMIT_MIN,
    CRYPTO_PWHASH_OPSLIMIT_MAX, CRYPTO_PWHASH_MEMLIMIT_MIN, CRYPTO_PWHASH_MEMLIMIT_MAX]

/-- the string producer applies the same guards, also before the conversion -/
theorem crypto_pwhash_str_guards_eq_model :
    Gen.Pwhash.crypto_pwhash_str_guards = Gen.Pwhash.crypto_pwhash_guards
    ∧ Gen.Pwhash.crypto_pwhash_str_validates_before_convert = true := by
  simp [Gen.Pwhash.crypto_pwhash_str_guards, Gen.Pwhash.crypto_pwhash_guards, Gen.Pwhash.crypto_pwhash_str_validates_before_convert]

/-- the memory geometry of `argon2_hash` as translated (plain ℕ arithmetic) is the model's whenever no checked `u32` operation of
the model panics -/
theorem memory_geometry_eq_model (mCost parallelism mb sl : Nat)
    (h : memoryGeometry mCost parallelism = .ok (mb, sl)) :
    Gen.Pwhash.memory_geometry mCost parallelism = (mb, sl) := by
  open DryocVerif.Proofs.GenArgon2 in
  unfold memoryGeometry at h
  have h := mul_bind_inv h
  obtain ⟨m1, e1, h⟩ := bind_ok_inv h
  have h := mul_bind_inv h
  obtain ⟨s1, e2, h⟩ := bind_ok_inv h
  have h := mul_bind_inv h
  obtain ⟨m2, e3, h⟩ := bind_ok_inv h
  have e3 := mulU32_inv e3
  have h : (m2, s1) = (mb, sl) := Outcome.ok.inj h
  have hs : s1 = m1 / (parallelism * ARGON2_SYNC_POINTS) := by
    unfold divU32 at e2; split at e2
    · cases e2
    · exact (Outcome.ok.inj e2).symm
  have hm : m1 = if mCost < 2 * ARGON2_SYNC_POINTS * parallelism then 2 * ARGON2_SYNC_POINTS * parallelism else mCost := by
    split at e1
    · rw [if_pos ‹_›]; exact mulU32_inv e1
    · rw [if_neg ‹_›]; exact (Outcome.ok.inj e1).symm
  simp only [ARGON2_SYNC_POINTS] at hs hm e3
  have key : Gen.Pwhash.memory_geometry mCost parallelism
      = (m1 / (parallelism * 4) * (parallelism * 4), m1 / (parallelism * 4)) := by
    unfold Gen.Pwhash.memory_geometry
    subst hm
    simp only [decide_eq_true_eq]
    first | rfl | (split <;> rfl) | (congr 2 <;> (split <;> simp_all))
  rw [key, ← h, e3, hs]

/-- sanity tests (tests, not theorems): libsodium's minimum memory and an odd size -/
example : Gen.Pwhash.memory_geometry 8 1 = (8, 2) ∧ Gen.Pwhash.memory_geometry 13 1 = (12, 3) := by decide
example : Gen.Pwhash.convert_costs (2 ^ 32 + 3) 8191 = (3, 7) := by decide

/-- the parameter ranges `Argon2Context::new` validates, as translated from `src/argon2.rs` (64-bit target), are the model's
constants, in the order the model's `validate` applies them -/
theorem argon2_validate_guards_eq :
    Gen.Pwhash.argon2_validate_guards =
      [(ARGON2_MIN_OUTLEN, ARGON2_MAX_OUTLEN, "output"), (ARGON2_MIN_PWD_LENGTH, ARGON2_MAX_PWD_LENGTH, "password"),
       (ARGON2_MIN_SALT_LENGTH, ARGON2_MAX_SALT_LENGTH, "salt"), (ARGON2_MIN_SECRET, ARGON2_MAX_SECRET, "secret"),
       (ARGON2_MIN_AD_LENGTH, ARGON2_MAX_AD_LENGTH, "ad"), (ARGON2_MIN_LANES, ARGON2_MAX_LANES, "parallelism"),
       (ARGON2_MIN_MEMORY, ARGON2_MAX_MEMORY, "m_cost"), (ARGON2_MIN_TIME, ARGON2_MAX_TIME, "t_cost")] := by
  simp [Gen.Pwhash.argon2_validate_guards, ARGON2_MIN_OUTLEN, ARGON2_MAX_OUTLEN, ARGON2_MIN_PWD_LENGTH, ARGON2_MAX_PWD_LENGTH,
    ARGON2_MIN_SALT_LENGTH, ARGON2_MAX_SALT_LENGTH, ARGON2_MIN_SECRET, ARGON2_MAX_SECRET, ARGON2_MIN_AD_LENGTH, ARGON2_MAX_AD_LENGTH,
    ARGON2_MIN_LANES, ARGON2_MAX_LANES, ARGON2_MIN_MEMORY, ARGON2_MAX_MEMORY, ARGON2_MIN_TIME, ARGON2_MAX_TIME]

end DryocVerif.Proofs.GenPwhash
