import DryocVerif.Model.SecretBoxStore
import DryocVerif.Proofs.BoxOpenRawExtra
import DryocVerif.Proofs.StreamStoreExtra
/-
The store-passing models of `crypto_secretbox_open_detached` / `…_inplace` (`Model/SecretBoxStore.lean`): closed forms,
"an `Err` returns the caller's buffer untouched" as a theorem about the statement order, equality with
`openDetachedRaw` / `openDetachedInplaceRaw`, and the pre-E7 counter-models that violate it.  Core only.
-/
namespace DryocVerif.Proofs.SecretBox
open DryocVerif DryocVerif.Model.SecretBox DryocVerif.Model.Raw DryocVerif.Proofs.Raw
open scoped DryocVerif.Model.Raw

/-- `check_remaining(..).unwrap()` either succeeds or panics: it never is an `Err` -/
theorem checkRemaining_cases (r p n : Nat) : checkRemaining r p n = .ok () ∨ checkRemaining r p n = .panic := by
  unfold checkRemaining
  by_cases h0 : p = 0
  · rw [if_pos h0]
    by_cases h1 : blocksOf n > r
    · rw [if_pos h1]; exact Or.inr rfl
    · rw [if_neg h1]; exact Or.inl rfl
  · rw [if_neg h0]
    simp only []
    by_cases h1 : n > 64 - p
    · rw [if_pos h1]
      by_cases h2 : blocksOf (n - (64 - p)) > r
      · rw [if_pos h2]; exact Or.inr rfl
      · rw [if_neg h2]; exact Or.inl rfl
    · rw [if_neg h1]; exact Or.inl rfl

theorem checkRemaining_ne_err (r p n : Nat) : checkRemaining r p n ≠ .err := by
  rcases checkRemaining_cases r p n with e | e <;> rw [e] <;> simp

/-- closed form of the store-passing `crypto_secretbox_open_detached` for every ciphertext a slice can hold -/
theorem openDetachedStmts_closed (P : Prims) (mac c nonce key m : Bytes) (hl : c.length < 2 ^ 64) :
    openDetachedStmts P mac c nonce key m =
      if m.length < c.length then (.panic, m)
      else if mac = P.mac ((P.stream key nonce (32 + c.length)).take 32) c
        then (.ok (), xorBytes c ((P.stream key nonce (32 + c.length)).drop 32) ++ m.drop c.length)
        else (.err, m) := by
  unfold openDetachedStmts openDetachedStmtsM
  rw [run_read_bind]
  by_cases hm : m.length < c.length
  · rw [if_pos hm, run_eval_bind_panic (by unfold sliceTo; rw [if_pos hm])]
  rw [if_neg hm, run_eval_bind_ok (sliceTo_ok (by omega))]
  have hv := openVerifyRaw_eq P c mac nonce key
  by_cases h : mac = P.mac ((P.stream key nonce (32 + c.length)).take 32) c
  · rw [if_pos h] at hv ⊢
    have htl : (m.take c.length).length = c.length := by rw [List.length_take]; omega
    rw [run_eval_bind_ok hv, run_read_bind, run_eval_bind_ok (sliceTo_ok (by omega)),
      run_eval_bind_ok (copyFromSlice_ok htl), run_write_bind, run_read_bind]
    have hl2 : c.length ≤ (c ++ m.drop c.length).length := by rw [List.length_append]; omega
    rw [run_eval_bind_ok (sliceTo_ok hl2), List.take_left' rfl, run_eval_bind_ok (checkRemaining_second hl),
      run_write, List.drop_left' rfl]
  · rw [if_neg h] at hv ⊢
    rw [run_eval_bind_err hv]

/-- **a rejected `crypto_secretbox_open_detached` returns the caller's buffer untouched** — every input, NO hypothesis
(not even the slice-length bound): the only `return Err` is the `?` on `crypto_secretbox_open_verify`, and it precedes
`message.copy_from_slice(ciphertext)`.  Not the shape of a definition: `Err` returns the store as it is at that point
(`openDetachedStmtsOld7_violates`: with the pre-E7 order it fails). -/
theorem openDetachedStmts_err_untouched (P : Prims) (mac c nonce key m : Bytes)
    (h : (openDetachedStmts P mac c nonce key m).1 = .err) : (openDetachedStmts P mac c nonce key m).2 = m := by
  unfold openDetachedStmts openDetachedStmtsM at h ⊢
  rw [run_read_bind] at h ⊢
  by_cases hm : m.length < c.length
  · rw [run_eval_bind_panic (by unfold sliceTo; rw [if_pos hm])]
  rw [run_eval_bind_ok (sliceTo_ok (by omega))] at h ⊢
  have hv := openVerifyRaw_eq P c mac nonce key
  by_cases hmac : mac = P.mac ((P.stream key nonce (32 + c.length)).take 32) c
  · exfalso
    rw [if_pos hmac] at hv
    have htl : (m.take c.length).length = c.length := by rw [List.length_take]; omega
    have hl2 : c.length ≤ (c ++ m.drop c.length).length := by rw [List.length_append]; omega
    rw [run_eval_bind_ok hv, run_read_bind, run_eval_bind_ok (sliceTo_ok (by omega)),
      run_eval_bind_ok (copyFromSlice_ok htl), run_write_bind, run_read_bind,
      run_eval_bind_ok (sliceTo_ok hl2)] at h
    rcases checkRemaining_cases (U64_MAX - 1) 32 ((c ++ m.drop c.length).take c.length).length with e | e
    · rw [run_eval_bind_ok e, run_write] at h; cases h
    · rw [run_eval_bind_panic e] at h; cases h
  · rw [if_neg hmac] at hv
    rw [run_eval_bind_err hv]

/-- the store-passing model is the statement-by-statement `openDetachedRaw` (verdict and buffer afterwards) -/
theorem openDetachedStmts_eq_openDetachedRaw (P : Prims) (mac c nonce key m : Bytes) (hl : c.length < 2 ^ 64) :
    openDetachedStmts P mac c nonce key m =
      ((openDetachedRaw P m mac c nonce key).res, (openDetachedRaw P m mac c nonce key).buf) := by
  rw [openDetachedStmts_closed P mac c nonce key m hl, openDetachedRaw_eq P m mac c nonce key hl, openDetached_eq]
  by_cases hm : m.length < c.length
  · rw [if_pos hm, if_pos hm]
  rw [if_neg hm, if_neg hm, expectedTag_def, cryptXor_def]
  by_cases h : mac = P.mac ((P.stream key nonce (32 + c.length)).take 32) c
  · rw [if_pos h, if_pos h]
  · rw [if_neg h, if_neg h]

/-- closed form of the store-passing in-place function -/
theorem openDetachedInplaceStmts_closed (P : Prims) (mac nonce key data : Bytes) (hl : data.length < 2 ^ 64) :
    openDetachedInplaceStmts P mac nonce key data =
      if mac = P.mac ((P.stream key nonce (32 + data.length)).take 32) data
        then (.ok (), xorBytes data ((P.stream key nonce (32 + data.length)).drop 32))
        else (.err, data) := by
  unfold openDetachedInplaceStmts openDetachedInplaceStmtsM
  rw [run_read_bind]
  have hv := openVerifyRaw_eq P data mac nonce key
  by_cases h : mac = P.mac ((P.stream key nonce (32 + data.length)).take 32) data
  · rw [if_pos h] at hv ⊢
    rw [run_eval_bind_ok hv, run_read_bind, run_eval_bind_ok (checkRemaining_second hl), run_write]
  · rw [if_neg h] at hv ⊢
    rw [run_eval_bind_err hv]

/-- **a rejected `crypto_secretbox_open_detached_inplace` leaves the ciphertext in place** — every input, no hypothesis -/
theorem openDetachedInplaceStmts_err_untouched (P : Prims) (mac nonce key data : Bytes)
    (h : (openDetachedInplaceStmts P mac nonce key data).1 = .err) :
    (openDetachedInplaceStmts P mac nonce key data).2 = data := by
  unfold openDetachedInplaceStmts openDetachedInplaceStmtsM at h ⊢
  rw [run_read_bind] at h ⊢
  have hv := openVerifyRaw_eq P data mac nonce key
  by_cases hmac : mac = P.mac ((P.stream key nonce (32 + data.length)).take 32) data
  · exfalso
    rw [if_pos hmac] at hv
    rw [run_eval_bind_ok hv, run_read_bind] at h
    rcases checkRemaining_cases (U64_MAX - 1) 32 data.length with e | e
    · rw [run_eval_bind_ok e, run_write] at h; cases h
    · rw [run_eval_bind_panic e] at h; cases h
  · rw [if_neg hmac] at hv
    rw [run_eval_bind_err hv]

theorem openDetachedInplaceStmts_eq_openDetachedInplaceRaw (P : Prims) (mac nonce key data : Bytes)
    (hl : data.length < 2 ^ 64) :
    openDetachedInplaceStmts P mac nonce key data =
      ((openDetachedInplaceRaw P data mac nonce key).res, (openDetachedInplaceRaw P data mac nonce key).buf) := by
  rw [openDetachedInplaceStmts_closed P mac nonce key data hl, openDetachedInplaceRaw_eq P data mac nonce key hl,
    openDetachedInplace_eq, expectedTag_def, cryptXor_def]
  by_cases h : mac = P.mac ((P.stream key nonce (32 + data.length)).take 32) data
  · rw [if_pos h, if_pos h]
  · rw [if_neg h, if_neg h]

/-! ### the order before fix E7 -/

/-- **the pre-E7 order violates `err_untouched`** (detached form): forged tag, verdict `Err`, the caller's message buffer
holds the decryption of the forgery -/
theorem openDetachedStmtsOld7_violates :
    ¬ ∀ (P : Prims) (mac c nonce key m : Bytes),
        (openDetachedStmtsOld7 P mac c nonce key m).1 = .err → (openDetachedStmtsOld7 P mac c nonce key m).2 = m := by
  intro h
  exact absurd (h toyPrims (zeros 16) [1, 1, 1] toyNonce toyKey [4, 4, 4] (by decide)) (by decide)

/-- … and so does the in-place form -/
theorem openDetachedInplaceStmtsOld7_violates :
    ¬ ∀ (P : Prims) (mac nonce key data : Bytes),
        (openDetachedInplaceStmtsOld7 P mac nonce key data).1 = .err →
          (openDetachedInplaceStmtsOld7 P mac nonce key data).2 = data := by
  intro h
  exact absurd (h toyPrims (zeros 16) toyNonce toyKey [1, 1, 1] (by decide)) (by decide)

/-- what the two orders hand back on the same forged input (toy key stream `5a 5a …`) -/
theorem openDetachedStmts_orders_on_forgery :
    openDetachedStmtsOld7 toyPrims (zeros 16) [1, 1, 1] toyNonce toyKey [4, 4, 4] = (.err, [0x5b, 0x5b, 0x5b]) ∧
    openDetachedStmts toyPrims (zeros 16) [1, 1, 1] toyNonce toyKey [4, 4, 4] = (.err, [4, 4, 4]) := by
  constructor <;> decide

end DryocVerif.Proofs.SecretBox
