import DryocVerif.Gen.Curve
import DryocVerif.Model.Curve
import DryocVerif.Model.Sign
/-
The generated `clamp`, `clamp_hash` and BLAKE2b parameter assembly of `crypto_kdf_derive_from_key`
(DryocVerif/Gen/Curve.lean, machine-translated from the Rust) agree with the hand models
`Model.Curve.clamp`, `Model.Sign.clampHash` and the salt / personal arguments of `Model.Curve.kdfDerive`.
Core only.
-/
namespace DryocVerif.Proofs.GenCurve
open DryocVerif DryocVerif.Gen

/-! ### byte facts: the `Nat` round trip of the translator is the `u8` operation -/

theorem ofNat_and_const (b : UInt8) (k : Nat) (hk : k < 256) :
    UInt8.ofNat (b.toNat &&& k) = b &&& UInt8.ofNat k := by
  apply UInt8.toNat_inj.mp
  have h1 : b.toNat &&& k < 256 := Nat.lt_of_le_of_lt Nat.and_le_right hk
  simp only [UInt8.toNat_ofNat', UInt8.toNat_and]
  rw [Nat.mod_eq_of_lt h1, Nat.mod_eq_of_lt hk]

theorem ofNat_or_const (b : UInt8) (k : Nat) (hk : k < 256) :
    UInt8.ofNat (b.toNat ||| k) = b ||| UInt8.ofNat k := by
  apply UInt8.toNat_inj.mp
  have hb : b.toNat < 2 ^ 8 := b.toNat_lt
  have h1 : b.toNat ||| k < 2 ^ 8 := Nat.or_lt_two_pow hb hk
  simp only [UInt8.toNat_ofNat', UInt8.toNat_or]
  rw [Nat.mod_eq_of_lt h1, Nat.mod_eq_of_lt hk]

/-! ### list facts -/

/-- mapping `f` over everything from index `k` on is a single `set` when there is at most one such element -/
theorem take_append_map_drop {α : Type} (f : α → α) (d : α) :
    ∀ (k : Nat) (s : List α), s.length ≤ k + 1 →
      s.take k ++ (s.drop k).map f = s.set k (f (s.getD k d))
  | 0, [], _ => rfl
  | 0, [a], _ => rfl
  | 0, _ :: _ :: _, h => by simp at h
  | k + 1, [], _ => rfl
  | k + 1, a :: t, h => by
    have ih := take_append_map_drop f d k t (by simpa using h)
    simpa [List.getD] using ih

/-- `s[i] = a; s[i] = g(s[i])` is `s[i] = g(a)` (also when `i` is out of range: nothing happens on either side) -/
theorem set_set_getD {α : Type} (g : α → α) (d a : α) (s : List α) (i : Nat) :
    (s.set i a).set i (g ((s.set i a).getD i d)) = s.set i (g a) := by
  rw [List.set_set]
  by_cases h : i < s.length
  · simp [List.getD, h]
  · rw [List.set_eq_of_length_le (Nat.le_of_not_lt h), List.set_eq_of_length_le (Nat.le_of_not_lt h)]

/-! ### the three-statement clamp on a buffer -/

/-- the Rust statement sequence `s[0] &= 248; s[31] &= 127; s[31] |= 64` -/
def clampSteps (s : Bytes) : Bytes :=
  let s := setByte s 0 ((byteAt s 0) &&& 248)
  let s := setByte s 31 ((byteAt s 31) &&& 127)
  let s := setByte s 31 ((byteAt s 31) ||| 64)
  s

/-- the model's clamp body -/
def clampModel (n : Bytes) : Bytes :=
  match n with
  | [] => []
  | b0 :: rest =>
    let s := (b0 &&& 248) :: rest
    s.take 31 ++ (s.drop 31).map (fun b => (b &&& 127) ||| 64)

theorem setByte_and (s : Bytes) (i k : Nat) (hk : k < 256) :
    setByte s i ((byteAt s i) &&& k) = s.set i (s.getD i 0 &&& UInt8.ofNat k) := by
  simp only [setByte, byteAt, ofNat_and_const _ _ hk]

theorem setByte_or (s : Bytes) (i k : Nat) (hk : k < 256) :
    setByte s i ((byteAt s i) ||| k) = s.set i (s.getD i 0 ||| UInt8.ofNat k) := by
  simp only [setByte, byteAt, ofNat_or_const _ _ hk]

theorem clampSteps_eq (s : Bytes) (hs : s.length ≤ 32) : clampSteps s = clampModel s := by
  unfold clampSteps
  simp only [setByte_and _ _ _ (by decide : 248 < 256), setByte_and _ _ _ (by decide : 127 < 256),
    setByte_or _ _ _ (by decide : 64 < 256)]
  rw [set_set_getD (fun b => b ||| UInt8.ofNat 64) 0]
  cases s with
  | nil => rfl
  | cons b0 rest =>
    show _ = ((b0 &&& 248) :: rest).take 31 ++ (((b0 &&& 248) :: rest).drop 31).map (fun b => (b &&& 127) ||| 64)
    rw [take_append_map_drop (fun b => (b &&& 127) ||| 64) 0 31 _ (by simpa using hs)]
    rfl

/-! ### main theorems -/

/-- `clamp` of scalarmult_curve25519.rs.  The Rust argument is `&[u8; 32]`; the equality in fact holds for every
length `≤ 32` (for shorter buffers neither side touches index 31). -/
theorem clamp_eq_model_of_le (n : Bytes) (hn : n.length ≤ 32) : Gen.Curve.clamp n = Model.Curve.clamp n :=
  clampSteps_eq n hn

theorem clamp_eq_model (n : Bytes) (hn : n.length = 32) : Gen.Curve.clamp n = Model.Curve.clamp n :=
  clamp_eq_model_of_le n (Nat.le_of_eq hn)

/-- sanity test: 32 × 0xff -/
example : Gen.Curve.clamp (List.replicate 32 0xff) = Model.Curve.clamp (List.replicate 32 0xff) ∧
    Gen.Curve.clamp (List.replicate 32 0xff) = 0xf8 :: List.replicate 30 0xff ++ [0x7f] := by decide

/-- the length hypothesis is needed: beyond 32 bytes (unreachable, the Rust type is `[u8; 32]`) the model clamps every
byte from index 31 on, the code only byte 31 -/
example : Gen.Curve.clamp (List.replicate 33 0xff) ≠ Model.Curve.clamp (List.replicate 33 0xff) := by decide

/-- `scalar[..32].copy_from_slice(&hash[..32])` into a fresh 32-byte buffer -/
theorem setSlice_zeros_take (hash : Bytes) (hh : 32 ≤ hash.length) :
    setSlice (List.replicate 32 (0 : UInt8)) 0 (hash.take 32) = hash.take 32 := by
  have hl : (hash.take 32).length = 32 := by rw [List.length_take]; exact Nat.min_eq_left hh
  simp [setSlice, hl]

/-- `clamp_hash` of classic/crypto_sign_ed25519.rs.  The Rust argument is `[u8; 64]`; `32 ≤ length` suffices
(for shorter input the Rust `hash[..32]` panics, the generated code zero-pads and the model truncates). -/
theorem clamp_hash_eq_model (hash : Bytes) (hh : 32 ≤ hash.length) :
    Gen.Curve.clamp_hash hash = Model.Sign.clampHash hash := by
  have hl : (hash.take 32).length ≤ 32 := by rw [List.length_take]; exact Nat.min_le_left _ _
  show clampSteps (setSlice (List.replicate 32 (0 : UInt8)) 0 (hash.take 32)) = clampModel (hash.take 32)
  rw [setSlice_zeros_take hash hh]
  exact clampSteps_eq _ hl

/-- sanity test: 64 bytes 0xff -/
example : Gen.Curve.clamp_hash (List.replicate 64 0xff) = Model.Sign.clampHash (List.replicate 64 0xff) ∧
    Gen.Curve.clamp_hash (List.replicate 64 0xff) = 0xf8 :: List.replicate 30 0xff ++ [0x7f] := by decide

/-- below 32 bytes (unreachable) the two differ -/
example : Gen.Curve.clamp_hash [1, 2, 3] ≠ Model.Sign.clampHash [1, 2, 3] := by decide

/-! ### KDF parameters -/

theorem length_toLE (n v : Nat) : (toLE n v).length = n := by
  induction n generalizing v with
  | zero => rfl
  | succ n ih => simp [toLE, ih]

/-- `b[..v.len()].copy_from_slice(v)` on a 16-byte zero buffer with an 8-byte `v` -/
theorem setSlice_zeros16 (v : Bytes) (hv : v.length = 8) :
    setSlice (List.replicate 16 (0 : UInt8)) 0 v = v ++ zeros 8 := by
  simp [setSlice, hv, zeros]

/-- BLAKE2b parameters of `crypto_kdf_derive_from_key`: (personal, salt).  `subkey_id` is a `u64` but no range
hypothesis is needed (`toLE 8` truncates on both sides); the context is `&[u8; 8]`. -/
theorem kdf_params_eq_model' (id : Nat) (ctx : Bytes) (hc : ctx.length = 8) :
    Gen.Curve.kdf_params id ctx = (ctx ++ zeros 8, toLE 8 id ++ zeros 8) := by
  show (setSlice (List.replicate 16 (0 : UInt8)) 0 ctx, setSlice (List.replicate 16 (0 : UInt8)) 0 (toLE 8 id)) = _
  rw [setSlice_zeros16 ctx hc, setSlice_zeros16 _ (length_toLE 8 id)]

theorem kdf_params_eq_model (id : Nat) (ctx : Bytes) (_hid : id < 2^64) (hc : ctx.length = 8) :
    Gen.Curve.kdf_params id ctx = (ctx ++ zeros 8, toLE 8 id ++ zeros 8) :=
  kdf_params_eq_model' id ctx hc

theorem kdf_bounds : Gen.Curve.KDF_BYTES_MIN = 16 ∧ Gen.Curve.KDF_BYTES_MAX = 64 := ⟨rfl, rfl⟩

/-- `Model.Curve.kdfDerive` restated through the generated bounds and parameters
(`P.blake2b outlen key salt personal msg`; `kdf_params = (ctx_padded = personal, salt)`) -/
theorem kdfDerive_eq_gen (P : Model.Curve.Prims) (len id : Nat) (ctx key : Bytes) (hc : ctx.length = 8) :
    Model.Curve.kdfDerive P len id ctx key =
      if len < Gen.Curve.KDF_BYTES_MIN ∨ Gen.Curve.KDF_BYTES_MAX < len then .err
      else .ok (P.blake2b len key (Gen.Curve.kdf_params id ctx).2 (Gen.Curve.kdf_params id ctx).1 []) := by
  rw [kdf_params_eq_model' id ctx hc]
  rfl

/-- sanity test: id 0x0102030405060708, context "abcdefgh" -/
example : Gen.Curve.kdf_params 0x0102030405060708 [0x61, 0x62, 0x63, 0x64, 0x65, 0x66, 0x67, 0x68] =
    ([0x61, 0x62, 0x63, 0x64, 0x65, 0x66, 0x67, 0x68, 0, 0, 0, 0, 0, 0, 0, 0],
     [8, 7, 6, 5, 4, 3, 2, 1, 0, 0, 0, 0, 0, 0, 0, 0]) := by decide

/-! ### the arguments `crypto_kdf_derive_from_key` hands to BLAKE2b (extracted from the source by the translator) -/

/-- the digest-length argument is `subkey.len() as u8`: for every accepted length (≤ 64) it is the length itself
(a hard-wired constant here was defect E4) -/
theorem kdf_outlen_eq (len : Nat) (h : len ≤ 255) : Gen.Curve.kdf_outlen len = len := by
  unfold Gen.Curve.kdf_outlen
  omega

/-- key, salt and personalisation are passed in this order: the main key as the BLAKE2b key, the subkey id block as the salt,
the padded context as the personalisation -/
theorem kdf_init_args_eq : Gen.Curve.kdf_init_args = ["main_key", "salt", "ctx_padded"] := rfl

end DryocVerif.Proofs.GenCurve
