import DryocVerif.Proofs.Blake2bExtra
/-
Two places where `blake2b_soft.rs` / `generichash_blake2b.rs` leave RFC 7693 / libsodium:

* `crypto_generichash_final(state, output)` does NOT compare `output.len()` with the `outlen` given to
  `crypto_generichash_init`: `State::finalize` only refuses `output.len() == 0` and `> 64`, and copies
  `buffer[..output.len()]`.  The parameter block (hence the whole chaining value) carries the INIT length `n`; the
  result is the first `m = output.len()` bytes of the 64-byte final chaining value of the `n`-parameterised hash.
  For `m ≤ n` that is a truncation of the `n`-byte digest; for `m > n` it EXTENDS it with bytes of the chaining value
  that BLAKE2b never outputs.  In particular `init(_, 64); final(&mut [0; 1])` is `Ok` with a 1-byte result — a digest
  length (`1..15`) that `crypto_generichash` refuses, and NOT the BLAKE2b-8 digest (different parameter block).
* `blake2b::hash(out, msg, Some(&[]))`: `State::init` takes the `Some(key)` branch for the EMPTY key: `key_length = 0`
  in the parameter block (as for `None`), but a 128-byte all-zero "key block" is absorbed first.  RFC 7693 has no key
  block when `kk = 0`.  The result is the UNKEYED hash of `0¹²⁸ ‖ msg`.  NOT reachable through the public API: the
  module `blake2b` is private (`mod blake2b;` in lib.rs), and its callers that pass a key
  (`crypto_generichash_blake2b`, `crypto_generichash_blake2b_init`) first run
  `crypto_generichash_blake2b_validate_key`, which answers `Err` for `Some(key)` with `key.len() < 16` — so
  `crypto_generichash(.., Some(&[]))` is an `Err` (`C07.generichash_err_iff`), it is not mapped to `None`.
-/
namespace DryocVerif.Proofs.Blake2b
open DryocVerif
open DryocVerif.Model.Blake2b
open DryocVerif.Model.Utils (slice)

/-! ### `finalize` with an output length of its own -/

/-- the complete 64-byte serialised final chaining value of BLAKE2b with digest-length PARAMETER `n` (RFC 7693 outputs
its first `n` bytes: `Spec.Blake2b.hashSP n … = (fullState n …).take n`, `hashSP_eq_take`) -/
def fullState (n : Nat) (key salt personal msg : Bytes) : Bytes :=
  Spec.Blake2b.bytesOfWords
    (Spec.Blake2b.absorb (Spec.Blake2b.initState n key.length salt personal) 0 (Spec.Blake2b.blocksOf key msg))

theorem hashSP_eq_take (n : Nat) (key salt personal msg : Bytes) :
    Spec.Blake2b.hashSP n key salt personal msg = (fullState n key salt personal msg).take n := rfl

theorem fullState_length (n : Nat) (key salt personal msg : Bytes) :
    (fullState n key salt personal msg).length = 64 :=
  bytesOfWords_length _ (spec_absorb_size _ _ _ (by simp [Spec.Blake2b.initState]))

/-- `init(n, key, salt, personal)`, any `update`s, `finalize` into an `m`-byte buffer: the first `m` bytes of the full
state of the `n`-parameterised hash -/
theorem finalize_any_len (n m : Nat) (key : Bytes) (salt personal : Option Bytes) (cs : List Bytes)
    (hn : 1 ≤ n ∧ n ≤ 64) (hm : 1 ≤ m ∧ m ≤ 64) (hk : key.length ≤ 64)
    (hs : ∀ s, salt = some s → s.length = 16) (hp : ∀ s, personal = some s → s.length = 16)
    (hlen : cs.flatten.length + 128 < 2^128) :
    ∃ st, initC compress (n % 256) (keyOpt key) salt personal = .ok st ∧
      finalizeC compress (cs.foldl (updateC compress) st) m =
        .ok ((fullState n key (salt.getD []) (personal.getD []) cs.flatten).take m) := by
  have hko : ∀ k, keyOpt key = some k → k.length ≤ 64 := by
    intro k hk'
    unfold keyOpt at hk'
    by_cases he : key.isEmpty
    · simp [he] at hk'
    · simp only [he, Bool.false_eq_true, if_false, Option.some.injEq] at hk'
      rw [← hk']; exact hk
  have hinit := initC_ok compress (n % 256) (keyOpt key) salt personal
    (by rw [Nat.mod_eq_of_lt (by omega : n < 256)]; exact hn) hko
  refine ⟨_, hinit, ?_⟩
  rw [foldl_updateC_stateAfter]
  obtain ⟨_, f0, f1, ln, t0, t1⟩ := initS0_fields (n % 256) (keyOpt key) salt personal
  rw [finalizeC_stateAfter compress (initS0 (n % 256) (keyOpt key) salt personal)
    (keyBlock (keyOpt key) ++ cs.flatten) m f0 f1 ln hm, t0, t1]
  have hh : (initS0 (n % 256) (keyOpt key) salt personal).h.size = 8 := by
    rw [initS0_h n key salt personal hn.2 hk hs hp]; simp [Spec.Blake2b.initState]
  have hkb : (keyBlock (keyOpt key)).length ≤ 128 := by
    unfold keyOpt
    by_cases he : key.isEmpty
    · simp [he, keyBlock]
    · simp [he, keyBlock, zeros]; omega
  rw [absorbSpec_eq _ hh _ (by rw [List.length_append]; omega),
    stateBytes_eq _ (spec_absorb_size _ _ _ hh), blocks_eq_blocksOf key _ hk,
    initS0_h n key salt personal hn.2 hk hs hp]
  rfl

/-- `finalize` on a state reached through `init` and `update`s answers `Err` EXACTLY for an empty or a > 64-byte
output buffer — whatever length was given to `init` — and never panics -/
theorem finalizeC_err_iff (C : Compress) (st : State) (h : Reachable C st) (m : Nat) :
    (finalizeC C st m = .err ↔ m = 0 ∨ 64 < m) ∧ finalizeC C st m ≠ .panic := by
  obtain ⟨f0, -, -⟩ := reachable_flags C st h
  unfold finalizeC
  by_cases hm : m = 0 ∨ m > OUTBYTES
  · rw [if_pos hm]
    simp only [OUTBYTES] at hm
    exact ⟨⟨fun _ => hm, fun _ => rfl⟩, by simp⟩
  · rw [if_neg hm]
    have hl : isLastblock st = false := by simp [isLastblock, f0]
    rw [hl]
    simp only [OUTBYTES] at hm
    simp only [Bool.false_eq_true, if_false]
    exact ⟨⟨fun h => (by cases h), fun h => absurd h hm⟩, by simp⟩

theorem reachable_foldl (C : Compress) (st : State) (h : Reachable C st) (cs : List Bytes) :
    Reachable C (cs.foldl (updateC C) st) := by
  induction cs generalizing st with
  | nil => exact h
  | cons c cs ih => exact ih _ (.update st c h)

/-- **`crypto_generichash_final` with `output.len() = m` ≠ the `outlen = n` given to `crypto_generichash_init`**
(valid `n`, key, salt, personal): for `1 ≤ m ≤ 64` it is `Ok` and writes the first `m` bytes of the 64-byte final
chaining value of the `n`-PARAMETERISED BLAKE2b (`fullState n`); the output length is NOT re-validated against
`16..=64`, nor compared with `n`. -/
theorem generichash_final_any_len (n m : Nat) (key : Bytes) (salt personal : Option Bytes) (cs : List Bytes)
    (ho : 16 ≤ n ∧ n ≤ 64) (hm : 1 ≤ m ∧ m ≤ 64)
    (hk : key = [] ∨ (16 ≤ key.length ∧ key.length ≤ 64))
    (hs : ∀ s, salt = some s → s.length = 16) (hp : ∀ s, personal = some s → s.length = 16)
    (hlen : cs.flatten.length + 128 < 2^128) :
    ∃ st, generichashInit (keyOpt key) n salt personal = .ok st ∧
      generichashFinal (cs.foldl generichashUpdate st) m =
        .ok ((fullState n key (salt.getD []) (personal.getD []) cs.flatten).take m) := by
  have hk64 : key.length ≤ 64 := by
    rcases hk with h | h
    · subst h; simp
    · exact h.2
  have v1 : validateOutlen n = true := by simp [validateOutlen, ho.1, ho.2]
  have v2 : validateKey (keyOpt key) = true := by
    unfold keyOpt
    rcases hk with h | h
    · subst h; rfl
    · have : key.isEmpty = false := by cases key <;> simp_all
      simp only [this, Bool.false_eq_true, if_false, validateKey]
      simp; omega
  obtain ⟨st, hi, hf⟩ := finalize_any_len n m key salt personal cs (by omega) hm hk64 hs hp hlen
  refine ⟨st, ?_, hf⟩
  unfold generichashInit init
  rw [v1, v2]
  exact hi

/-- for `m ≤ n` the result is a TRUNCATION of the `n`-byte digest … -/
theorem generichash_final_shorter (n m : Nat) (key : Bytes) (salt personal : Option Bytes) (cs : List Bytes)
    (ho : 16 ≤ n ∧ n ≤ 64) (hm : 1 ≤ m ∧ m ≤ n)
    (hk : key = [] ∨ (16 ≤ key.length ∧ key.length ≤ 64))
    (hs : ∀ s, salt = some s → s.length = 16) (hp : ∀ s, personal = some s → s.length = 16)
    (hlen : cs.flatten.length + 128 < 2^128) :
    ∃ st, generichashInit (keyOpt key) n salt personal = .ok st ∧
      generichashFinal (cs.foldl generichashUpdate st) m =
        .ok ((Spec.Blake2b.hashSP n key (salt.getD []) (personal.getD []) cs.flatten).take m) := by
  obtain ⟨st, hi, hf⟩ := generichash_final_any_len n m key salt personal cs ho (by omega) hk hs hp hlen
  refine ⟨st, hi, ?_⟩
  rw [hf, hashSP_eq_take, List.take_take, Nat.min_eq_left hm.2]

/-- … and for `m ≥ n` it STARTS with the `n`-byte digest (and goes on with bytes BLAKE2b does not output) -/
theorem generichash_final_longer (n m : Nat) (key : Bytes) (salt personal : Option Bytes) (cs : List Bytes)
    (ho : 16 ≤ n ∧ n ≤ 64) (hm : n ≤ m ∧ m ≤ 64)
    (hk : key = [] ∨ (16 ≤ key.length ∧ key.length ≤ 64))
    (hs : ∀ s, salt = some s → s.length = 16) (hp : ∀ s, personal = some s → s.length = 16)
    (hlen : cs.flatten.length + 128 < 2^128) :
    ∃ st d, generichashInit (keyOpt key) n salt personal = .ok st ∧
      generichashFinal (cs.foldl generichashUpdate st) m = .ok d ∧ d.length = m ∧
      d.take n = Spec.Blake2b.hashSP n key (salt.getD []) (personal.getD []) cs.flatten := by
  obtain ⟨st, hi, hf⟩ := generichash_final_any_len n m key salt personal cs ho (by omega) hk hs hp hlen
  refine ⟨st, _, hi, hf, ?_, ?_⟩
  · rw [List.length_take, fullState_length]; omega
  · rw [hashSP_eq_take, List.take_take, Nat.min_eq_left hm.1]

/-- **`crypto_generichash_final` = `Err` iff `output.len() = 0 ∨ output.len() > 64`** — for every state obtained from a
successful `crypto_generichash_init` (any arguments it accepts) and any `update`s; never a panic.  In particular
`output.len()` in `1..=15` is ACCEPTED here although `crypto_generichash` / `crypto_generichash_init` refuse that
length. -/
theorem generichash_final_err_iff (key : Option Bytes) (n : Nat) (salt personal : Option Bytes) (st : State)
    (hinit : generichashInit key n salt personal = .ok st) (cs : List Bytes) (m : Nat) :
    (generichashFinal (cs.foldl generichashUpdate st) m = .err ↔ m = 0 ∨ 64 < m) ∧
    generichashFinal (cs.foldl generichashUpdate st) m ≠ .panic := by
  have hr : Reachable compress st := by
    unfold generichashInit at hinit
    by_cases v1 : validateOutlen n = true
    · by_cases v2 : validateKey key = true
      · simp only [v1, v2, Bool.not_true, Bool.false_eq_true, if_false] at hinit
        exact .init (n % 256) key salt personal st hinit
      · simp [v1, v2] at hinit
    · simp [v1] at hinit
  exact finalizeC_err_iff compress _ (reachable_foldl compress st hr cs) m

/-! ### `Some(&[])` -/

theorem initS0_some_nil (outlen : Nat) (salt personal : Option Bytes) :
    initS0 outlen (some []) salt personal = initS0 outlen none salt personal := rfl

/-- **`blake2b::hash(out, msg, Some(&[]))` is OFF RFC 7693**: the model (like the code: `if let Some(key) = key` with
`key_length = key.len() as u8 = 0`) absorbs a 128-byte ZERO block before the message while the parameter block says
"unkeyed"; the result is the unkeyed BLAKE2b of `0¹²⁸ ‖ msg`, not of `msg` -/
theorem hash_some_nil (outLen : Nat) (msg : Bytes) (ho : 1 ≤ outLen ∧ outLen ≤ 64)
    (hl : msg.length + 256 < 2^128) :
    hash outLen msg (some []) = .ok (Spec.Blake2b.hash outLen [] (zeros 128 ++ msg)) := by
  have hi1 := initC_ok compress (outLen % 256) (some []) none none
    (by rw [Nat.mod_eq_of_lt (by omega : outLen < 256)]; exact ho)
    (by intro k hk; injection hk with hk; subst hk; simp)
  have h1 := hashChunksC_eq_absorbSpec compress outLen (some []) none none [msg] _ ho hi1
  have hi2 := initC_ok compress (outLen % 256) none none none
    (by rw [Nat.mod_eq_of_lt (by omega : outLen < 256)]; exact ho) (by intro k hk; cases hk)
  have h2 := hashChunksC_eq_absorbSpec compress outLen none none none [zeros 128 ++ msg] _ ho hi2
  have e : keyBlock (some []) ++ [msg].flatten = keyBlock none ++ [zeros 128 ++ msg].flatten := by
    simp [keyBlock]
  rw [initS0_some_nil, e, ← h2] at h1
  rw [hash_eq_hashChunks]
  show hashChunksC compress outLen (some []) none none [msg] = _
  rw [h1]
  have h3 := hashChunks_model_eq_spec outLen [] [zeros 128 ++ msg] ho (by simp)
    (by simp [zeros]; omega)
  simpa [keyOpt, hashChunks] using h3

#print axioms generichash_final_any_len
#print axioms generichash_final_err_iff
#print axioms hash_some_nil

end DryocVerif.Proofs.Blake2b
