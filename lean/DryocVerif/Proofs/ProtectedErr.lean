import DryocVerif.Proofs.Protected
import DryocVerif.Proofs.ProtectedRel
/-
C19 helpers: which tokens can panic, the shape of `err` outcomes, refused lock requests.
-/
namespace DryocVerif.Proofs.Protected
open DryocVerif DryocVerif.Model.Protected

/-- tokens whose Rust entry point returns `Result` -/
def isResultOp : Op → Bool
  | .lock | .unlock | .ro | .rw | .na | .fsl _ | .fsro _
  | .newlocked | .genlocked | .newrolocked | .genrolocked | .stacklock | .serde _ _ => true
  | _ => false

theorem doLock_res (c : Cfg) (s : State) (i : Nat) (sl : Slot) (rc : LM × PM) (pm : PM) :
    (doLock c s i sl rc pm).1 = .ok ∨ (doLock c s i sl rc pm).1 = .err := by
  unfold doLock; simp only []; split <;> simp

theorem doNewLocked_res (c : Cfg) (s : State) (m : Mach) (v : PVec) (src : Option Bytes) (ro rnd : Bool) :
    (doNewLocked c s m v src ro rnd).1 = .ok ∨ (doNewLocked c s m v src ro rnd).1 = .err := by
  unfold doNewLocked; simp only []; split <;> simp

theorem doFromSlice_res (c : Cfg) (s : State) (n : Nat) (ro : Bool) :
    (doFromSlice c s n ro).1 = .ok ∨ (doFromSlice c s n ro).1 = .err := by
  unfold doFromSlice
  split
  · split
    · simp
    · exact doNewLocked_res ..
  · exact doNewLocked_res ..

theorem opStackLock_res (c : Cfg) (s : State) :
    (opStackLock c s).1 = .ok ∨ (opStackLock c s).1 = .err ∨ (opStackLock c s).1 = .na := by
  unfold opStackLock
  split
  · rcases doNewLocked_res c s (newBytes c s.m).1 (writeV (newBytes c s.m).2 (List.replicate c.n 0x5a)) none
      false false with h | h
    · exact Or.inl h
    · exact Or.inr (Or.inl h)
  · simp

theorem opSerde_res (c : Cfg) (s : State) (json : Bool) (n : Nat) :
    (opSerde c s json n).1 = .ok ∨ (opSerde c s json n).1 = .err := by
  unfold opSerde
  split
  · split
    · unfold doSerdeArrJson; simp only []
      split
      · split <;> simp
      · simp
    · exact doNewLocked_res ..
  · exact doFromSlice_res ..

theorem result_never_panics (c : Cfg) (s : State) (t : Tok) (h : isResultOp t.op = true) :
    (stepCore c s t).1 ≠ .panic := by
  have live : ∀ (i : Nat) (g : Res) (f : Slot → Res × State), g ≠ .panic → (∀ sl, (f sl).1 ≠ .panic) →
      (withLive s i g f).1 ≠ .panic := by
    intro i g f hg hf
    apply withLive_elim (Q := fun r => r.1 ≠ .panic)
    · simp
    · exact hg
    · intro sl _ _ _ _ _; exact hf sl
  have ne_of_or : ∀ r : Res, (r = .ok ∨ r = .err) → r ≠ .panic := by
    intro r hr; rcases hr with hr | hr <;> simp [hr]
  unfold stepCore
  cases hop : t.op <;> simp [hop, isResultOp] at h <;> simp only []
  case lock =>
    unfold opLock; apply live _ _ _ (by simp); intro sl
    split
    · exact ne_of_or _ (doLock_res ..)
    · exact ne_of_or _ (doLock_res ..)
    · simp
  case unlock =>
    unfold opUnlock; apply live _ _ _ (by simp); intro sl
    split <;> simp
  case ro =>
    unfold opProtect; apply live _ _ _ (by simp); intro sl
    split <;> simp
  case rw =>
    unfold opProtect; apply live _ _ _ (by simp); intro sl
    split <;> simp
  case na =>
    unfold opNa; apply live _ _ _ (by simp); intro sl
    split <;> simp
  case fsl n => exact ne_of_or _ (doFromSlice_res ..)
  case fsro n => exact ne_of_or _ (doFromSlice_res ..)
  case newlocked => exact ne_of_or _ (doNewLocked_res ..)
  case genlocked => exact ne_of_or _ (doNewLocked_res ..)
  case newrolocked => exact ne_of_or _ (doNewLocked_res ..)
  case genrolocked => exact ne_of_or _ (doNewLocked_res ..)
  case stacklock =>
    rcases opStackLock_res c s with h1 | h1 | h1 <;> simp [h1]
  case serde js n => exact ne_of_or _ (opSerde_res ..)

/-! ### the `lock` token on a given live slot -/

theorem withLive_eq {s : State} {i : Nat} {sl : Slot} (hi : s.slots[i]? = some sl) (hg : sl.gone = false)
    (g : Res) (f : Slot → Res × State) : withLive s i g f = f sl := by
  unfold withLive withSlot
  simp [hi, hg]

/-- `lock` on a live slot in an unlocked state is `doLock` with the protect mode of the region -/
def pmOf : St → PM
  | .plain => .rw
  | .prot _ pm => pm

def isUnlockedSt : St → Bool
  | .plain => true
  | .prot .unlocked _ => true
  | _ => false

/-- the record `mlock()` starts from: `new_with`'s for a bare container, the region's own otherwise -/
def recOfLock (o : Obj) : LM × PM :=
  match o.st with
  | .plain => recNew
  | .prot _ _ => o.rcd

theorem opLock_eq {c : Cfg} {s : State} {i : Nat} {sl : Slot} (hi : s.slots[i]? = some sl)
    (hg : sl.gone = false) (hu : isUnlockedSt sl.o.st = true) :
    opLock c s i = doLock c s i sl (recOfLock sl.o) (pmOf sl.o.st) := by
  unfold opLock
  rw [withLive_eq hi hg]
  split
  · rename_i h; simp [h, pmOf, recOfLock]
  · rename_i pm h; simp [h, pmOf, recOfLock]
  · rename_i pm h; simp [h, isUnlockedSt] at hu

/-- only `lock` ever consumes a slot with `err`; every other `err` leaves the slots as they were -/
theorem err_shape (c : Cfg) (s : State) (t : Tok) (h : (stepCore c s t).1 = .err) :
    (stepCore c s t).2.slots = s.slots ∨
    (t.op = .lock ∧ ∃ sl, s.slots[t.idx]? = some sl ∧ sl.gone = false ∧
      (stepCore c s t).2.slots = s.slots.set t.idx { sl with gone := true }) := by
  have newl : ∀ (m : Mach) (v : PVec) (src : Option Bytes) (ro rnd : Bool),
      (doNewLocked c s m v src ro rnd).1 = .err → (doNewLocked c s m v src ro rnd).2.slots = s.slots := by
    intro m v src ro rnd
    unfold doNewLocked; simp only []; split <;> simp
  have froms : ∀ (n : Nat) (ro : Bool),
      (doFromSlice c s n ro).1 = .err → (doFromSlice c s n ro).2.slots = s.slots := by
    intro n ro
    unfold doFromSlice
    split
    · split
      · simp
      · exact newl _ _ _ _ _
    · exact newl _ _ _ _ _
  have live : ∀ (i : Nat) (g : Res) (f : Slot → Res × State), g ≠ .err → (∀ sl, (f sl).1 ≠ .err) →
      (withLive s i g f).1 ≠ .err := by
    intro i g f hg hf
    apply withLive_elim (Q := fun r => r.1 ≠ .err)
    · simp
    · exact hg
    · intro sl _ _ _ _ _; exact hf sl
  have slot : ∀ (i : Nat) (f : Slot → Res × State), (∀ sl, (f sl).1 ≠ .err) →
      (withSlot s i f).1 ≠ .err := by
    intro i f hf
    apply withSlot_elim (Q := fun r => r.1 ≠ .err)
    · simp
    · intro sl _ _ _ _; exact hf sl
  unfold stepCore at h ⊢
  cases hop : t.op <;> simp only [hop] at h ⊢
  case new =>
    exfalso; revert h; unfold opNew; simp only []; split
    · simp
    · split <;> simp
  case fill b =>
    exfalso; revert h; unfold opFill; apply live _ _ _ (by simp); intro sl; split <;> simp
  case lock =>
    right
    refine ⟨trivial, ?_⟩
    revert h
    unfold opLock
    apply withLive_elim (Q := fun r => r.1 = .err → ∃ sl, s.slots[t.idx]? = some sl ∧ sl.gone = false ∧
      r.2.slots = s.slots.set t.idx { sl with gone := true })
    · simp
    · simp
    · intro sl l1 l2 hs hi hg
      have hget : s.slots[t.idx]? = some sl := by rw [hs, ← hi]; exact getElem?_split _ _ _
      have hd : ∀ rc pm, (doLock c s t.idx sl rc pm).1 = .err → ∃ sl', s.slots[t.idx]? = some sl' ∧
          sl'.gone = false ∧ (doLock c s t.idx sl rc pm).2.slots = s.slots.set t.idx { sl' with gone := true } := by
        intro rc pm
        unfold doLock; simp only []
        by_cases hr : (lockV c s.m sl.o.v rc).2 = true
        · simp [hr]
        · simp only [hr]
          intro _; exact ⟨sl, hget, hg, rfl⟩
      split
      · exact hd _ _
      · exact hd _ _
      · simp
  case unlock =>
    exfalso; revert h; unfold opUnlock; apply live _ _ _ (by simp); intro sl; split <;> simp
  case ro =>
    exfalso; revert h; unfold opProtect; apply live _ _ _ (by simp); intro sl; split <;> simp
  case rw =>
    exfalso; revert h; unfold opProtect; apply live _ _ _ (by simp); intro sl; split <;> simp
  case na =>
    exfalso; revert h; unfold opNa; apply live _ _ _ (by simp); intro sl; split <;> simp
  case clone =>
    exfalso; revert h; unfold opClone; apply live _ _ _ (by simp); intro sl
    have hc : ∀ ro, (doCloneLocked c s sl ro).1 ≠ .err := by
      intro ro; unfold doCloneLocked; simp only []; split <;> simp
    split
    · simp
    · simp
    · simp
    · split
      · simp
      · exact hc _
    · split
      · simp
      · exact hc _
    · simp
  case resize n b =>
    exfalso; revert h; unfold opResize; apply live _ _ _ (by simp); intro sl
    split
    · simp
    split
    · simp
    · simp
    · simp only []; split <;> simp
    · simp
  case drop =>
    exfalso; revert h; unfold opDrop; apply live _ _ _ (by simp); intro sl; simp
  case fsl n => left; exact froms _ _ h
  case fsro n => left; exact froms _ _ h
  case newlocked => left; exact newl _ _ _ _ _ h
  case genlocked => left; exact newl _ _ _ _ _ h
  case newrolocked => left; exact newl _ _ _ _ _ h
  case genrolocked => left; exact newl _ _ _ _ _ h
  case failfrom k => simp at h
  case wprobe off =>
    exfalso; revert h; unfold opWProbe; apply live _ _ _ (by simp); intro sl
    split
    · simp
    · split <;> simp
  case rprobe off =>
    exfalso; revert h; unfold opRProbe; apply live _ _ _ (by simp); intro sl
    split
    · simp
    · split <;> simp
  case gprobe f =>
    exfalso; revert h; unfold opGProbe; apply live _ _ _ (by simp); intro sl
    split
    · simp
    · simp only []; repeat' split
      all_goals simp
  case wrap => simp at h
  case bad => simp at h
  case zeroize =>
    exfalso; revert h; unfold opZeroize; apply live _ _ _ (by simp); intro sl; split <;> simp
  case clonefrom j =>
    exfalso; revert h; unfold opCloneFrom
    split
    · simp
    split
    · split
      · simp
      split
      · split
        · simp
        · simp
        · split <;> simp
      · split <;> simp
    · simp
  case panicdrop =>
    exfalso; revert h; unfold opDrop; apply live _ _ _ (by simp); intro sl; simp
  case stacklock =>
    left
    revert h; unfold opStackLock
    split
    · exact newl _ _ _ _ _
    · simp
  case serde js n =>
    left
    revert h; unfold opSerde
    split
    · split
      · unfold doSerdeArrJson; simp only []
        split
        · split <;> simp
        · simp
      · exact newl _ _ _ _ _
    · exact froms _ _

/-! ### a refused lock request -/

/-- STATEMENT CHANGED (`MADV_DONTDUMP` is modelled now): the `madvise` of `dryoc_mlock` has already run when the
request is refused, so the kernel handed to the failure path is `madviseK … true`, not `m.k` -/
theorem dryocMlock_refused {c : Cfg} {m : Mach} {a l : Nat} (hl : l ≠ 0) (hr : m.oracle (m.cnt + 1) = .refuse) :
    dryocMlock c m a l = (failedLock c m (madviseK c.P m.k a l true) a l, false) := by
  unfold dryocMlock; simp [hl, hr]

theorem lockV_refused {c : Cfg} {m : Mach} {v : PVec} (pm : LM × PM) (hl : v.len ≠ 0)
    (hr : m.oracle (m.cnt + 1) = .refuse) :
    lockV c m v pm =
      (protDrop c (failedLock c m (madviseK c.P m.k (ptr c v) v.len true) (ptr c v) v.len) v pm.1 pm.2, false) := by
  unfold lockV; simp [dryocMlock_refused hl hr]

/-- the drop of an (internally) unlocked region never touches a lock flag -/
theorem protDrop_unlocked_locked (c : Cfg) (m : Mach) (v : PVec) (pm : PM) :
    (protDrop c m v .unlocked pm).k.locked = m.k.locked := by
  have hz : (zeroizeV (zeroizeV v)).cap = v.cap := rfl
  unfold protDrop protZeroize protAtWipe plainDrop vecDrop
  by_cases h1 : pm = .rw <;> by_cases h2 : v.cap = 0 <;> simp [h1, h2, hz, dryocMprotect]

theorem protDrop_unlocked_rel (c : Cfg) (hw : c.wipe = true) (m : Mach) (v : PVec) (pm : PM) :
    (protDrop c m v .unlocked pm).rel = m.rel ++ (if v.cap = 0 then [] else [(v.cap, 0)]) := by
  have hz : (zeroizeV (zeroizeV v)).cap = v.cap := rfl
  unfold protDrop protZeroize protAtWipe plainDrop vecDrop
  by_cases h1 : pm = .rw <;> by_cases h2 : v.cap = 0 <;>
    simp [h1, h2, hz, dealloc_rel, hw, nonzero_wipe]

theorem munlockK_locked_false {P : Nat} {k : Kernel} {a l p : Nat} (h : k.locked p = false) :
    (munlockK P k a l).locked p = false := by
  simp only [munlockK, setRange_apply]; split <;> simp [h]

theorem failedLock_locked_false {c : Cfg} {m : Mach} {k : Kernel} {a l p : Nat} (h : k.locked p = false) :
    (failedLock c m k a l).k.locked p = false := by
  unfold failedLock; simp only []
  split
  · exact munlockK_locked_false h
  · exact h

@[simp] theorem failedLock_rel (c : Cfg) (m : Mach) (k : Kernel) (a l : Nat) :
    (failedLock c m k a l).rel = m.rel := rfl

end DryocVerif.Proofs.Protected
