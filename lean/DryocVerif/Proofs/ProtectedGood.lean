import DryocVerif.Proofs.ProtectedAlloc
/-
The block invariant `GoodL` over a list of blocks "in flight" and its
preservation by the primitive operations.
-/
namespace DryocVerif.Proofs.Protected
open DryocVerif DryocVerif.Model.Protected

/-- a block together with the permission / lock flag its data pages must have -/
structure Blk where
  v : PVec
  dp : Perm
  dl : Bool

/-- page `p` belongs to the allocation of `v` (guard pages included) -/
def inBlock (P : Nat) (v : PVec) (p : Nat) : Prop :=
  0 < v.cap ∧ v.base ≤ p ∧ p < v.base + v.cap / P + 3

structure BlockOK (P : Nat) (k : Kernel) (b : Blk) : Prop where
  lenle : b.v.len ≤ b.v.cap
  buflen : b.v.buf.length = b.v.cap
  lo : 0 < b.v.cap → startPage ≤ b.v.base
  hi : 0 < b.v.cap → b.v.base + b.v.cap / P + 3 ≤ k.brk
  fore : 0 < b.v.cap → k.perm b.v.base = .none ∧ k.locked b.v.base = false
  aft : 0 < b.v.cap → k.perm (b.v.base + b.v.cap / P + 2) = .none ∧
          k.locked (b.v.base + b.v.cap / P + 2) = false
  data : ∀ p, b.v.base + 1 ≤ p → p < b.v.base + 1 + pagesOf P b.v.len →
          k.perm p = b.dp ∧ k.locked p = b.dl
  spare : 0 < b.v.cap → ∀ p, b.v.base + 1 + pagesOf P b.v.len ≤ p → p < b.v.base + b.v.cap / P + 2 →
          k.perm p = .rw ∧ k.locked p = false

def Disj (P : Nat) (a b : Blk) : Prop := ∀ p, ¬ (inBlock P a.v p ∧ inBlock P b.v p)

theorem Disj.symm {P : Nat} {a b : Blk} (h : Disj P a b) : Disj P b a :=
  fun p hp => h p ⟨hp.2, hp.1⟩

/-- the block `(base page, capacity)` a container owns, if any (an empty `Vec` owns none) -/
def blkP (v : PVec) : List (Nat × Nat) := if v.cap = 0 then [] else [(v.base, v.cap)]

/-- the blocks owned by a list of containers -/
def ownedB (bl : List Blk) : List (Nat × Nat) := bl.flatMap fun b => blkP b.v

structure GoodL (P : Nat) (k : Kernel) (bl : List Blk) : Prop where
  start : startPage ≤ k.brk
  fresh : ∀ p, k.brk ≤ p → k.perm p = .rw ∧ k.locked p = false
  ok : ∀ b ∈ bl, BlockOK P k b
  disj : bl.Pairwise (Disj P)
  outside : ∀ p, (∀ b ∈ bl, ¬ inBlock P b.v p) → k.perm p = .rw
  /-- LEDGER (ghost logs `k.al` / `k.fr`): as multisets of `(base, size)`, allocated = freed + owned by the blocks -/
  led : ∀ z, k.al.count z = k.fr.count z + (ownedB bl).count z
  /-- the bases of the allocated blocks are strictly increasing and below the bump pointer -/
  albase : (k.al.map Prod.fst).Pairwise (· < ·) ∧ ∀ b ∈ k.al.map Prod.fst, b < k.brk

theorem ownedB_cons (b : Blk) (R : List Blk) : ownedB (b :: R) = blkP b.v ++ ownedB R := by
  simp [ownedB]

theorem ownedB_perm {l l' : List Blk} (h : l.Perm l') (z : Nat × Nat) :
    (ownedB l).count z = (ownedB l').count z := by
  induction h with
  | nil => rfl
  | cons x _ ih => simp only [ownedB_cons, List.count_append, ih]
  | swap x y l => simp only [ownedB_cons, List.count_append]; omega
  | trans _ _ ih1 ih2 => rw [ih1, ih2]

theorem blkP_congr {v v' : PVec} (hb : v'.base = v.base) (hc : v'.cap = v.cap) : blkP v' = blkP v := by
  unfold blkP; rw [hb, hc]

/-- no page outside the live blocks is locked -/
def TightL (P : Nat) (k : Kernel) (bl : List Blk) : Prop :=
  ∀ p, (∀ b ∈ bl, ¬ inBlock P b.v p) → k.locked p = false

theorem GoodL.perm {P : Nat} {k : Kernel} {l l' : List Blk} (h : l.Perm l') (g : GoodL P k l) :
    GoodL P k l' where
  start := g.start
  fresh := g.fresh
  ok := fun b hb => g.ok b (h.mem_iff.mpr hb)
  disj := (h.pairwise_iff (fun hab => Disj.symm hab)).mp g.disj
  outside := fun p hp => g.outside p (fun b hb => hp b (h.mem_iff.mp hb))
  led := fun z => by rw [g.led z, ownedB_perm h z]
  albase := g.albase

theorem TightL.perm {P : Nat} {k : Kernel} {l l' : List Blk} (h : l.Perm l') (g : TightL P k l) :
    TightL P k l' :=
  fun p hp => g p (fun b hb => hp b (h.mem_iff.mp hb))

theorem inBlock_congr {P : Nat} {v v' : PVec} (hb : v'.base = v.base) (hc : v'.cap = v.cap) (p : Nat) :
    inBlock P v' p ↔ inBlock P v p := by
  unfold inBlock; rw [hb, hc]

theorem data_in_block {P : Nat} (hP : 0 < P) {v : PVec} (hl : v.len ≤ v.cap) {p : Nat}
    (h1 : v.base + 1 ≤ p) (h2 : p < v.base + 1 + pagesOf P v.len) : inBlock P v p := by
  have h3 := pagesOf_le hP hl
  have h4 : 0 < v.cap := by
    rcases Nat.eq_zero_or_pos v.cap with h | h
    · have : v.len = 0 := by omega
      rw [this, pagesOf_zero hP] at h2; omega
    · exact h
  exact ⟨h4, by omega, by omega⟩

/-- `BlockOK` only looks at the pages of the block -/
theorem BlockOK.congr {P : Nat} (hP : 0 < P) {k k' : Kernel} {b : Blk} (h : BlockOK P k b)
    (hbrk : k.brk ≤ k'.brk)
    (hfr : ∀ p, inBlock P b.v p → k'.perm p = k.perm p ∧ k'.locked p = k.locked p) :
    BlockOK P k' b where
  lenle := h.lenle
  buflen := h.buflen
  lo := h.lo
  hi := fun hc => Nat.le_trans (h.hi hc) hbrk
  fore := fun hc => by
    have := hfr b.v.base ⟨hc, by omega, by have := Nat.zero_le (b.v.cap / P); omega⟩
    rw [this.1, this.2]; exact h.fore hc
  aft := fun hc => by
    have := hfr (b.v.base + b.v.cap / P + 2) ⟨hc, by have := Nat.zero_le (b.v.cap / P); omega, by omega⟩
    rw [this.1, this.2]; exact h.aft hc
  data := fun p h1 h2 => by
    have := hfr p (data_in_block hP h.lenle h1 h2)
    rw [this.1, this.2]; exact h.data p h1 h2
  spare := fun hc p h1 h2 => by
    have := hfr p ⟨hc, by omega, by omega⟩
    rw [this.1, this.2]; exact h.spare hc p h1 h2

/-- an operation that only touches pages of the head block -/
theorem good_own {P : Nat} (hP : 0 < P) {k k' : Kernel} {b b' : Blk} {R : List Blk}
    (g : GoodL P k (b :: R)) (hbrk : k'.brk = k.brk)
    (hfr : ∀ p, ¬ inBlock P b.v p → k'.perm p = k.perm p ∧ k'.locked p = k.locked p)
    (hb : b'.v.base = b.v.base) (hc : b'.v.cap = b.v.cap) (hok : BlockOK P k' b')
    (hal : k'.al = k.al := by simp) (hfl : k'.fr = k.fr := by simp) :
    GoodL P k' (b' :: R) := by
  have hd := List.pairwise_cons.mp g.disj
  refine ⟨by rw [hbrk]; exact g.start, ?_, ?_, ?_, ?_, ?_, ?_⟩
  rotate_left 4
  · intro z
    rw [hal, hfl, ownedB_cons, blkP_congr hb hc, ← ownedB_cons]; exact g.led z
  · rw [hal, hbrk]; exact g.albase
  · intro p hp
    have hn : ¬ inBlock P b.v p := by
      intro hi
      have := (g.ok b (by simp)).hi hi.1
      have := hi.2.2; omega
    rw [(hfr p hn).1, (hfr p hn).2]; exact g.fresh p (by omega)
  · intro o ho
    rcases List.mem_cons.mp ho with rfl | ho
    · exact hok
    · refine (g.ok o (by simp [ho])).congr hP (by omega) ?_
      intro p hp
      exact hfr p (fun hi => hd.1 o ho p ⟨hi, hp⟩)
  · refine List.pairwise_cons.mpr ⟨?_, hd.2⟩
    intro o ho p hp
    exact hd.1 o ho p ⟨(inBlock_congr hb hc p).mp hp.1, hp.2⟩
  · intro p hp
    have hn : ¬ inBlock P b.v p := fun hi => hp b' (by simp) ((inBlock_congr hb hc p).mpr hi)
    rw [(hfr p hn).1]
    apply g.outside p
    intro o ho
    rcases List.mem_cons.mp ho with rfl | ho
    · exact hn
    · exact hp o (by simp [ho])

theorem tight_own {P : Nat} {k k' : Kernel} {b b' : Blk} {R : List Blk}
    (t : TightL P k (b :: R))
    (hfr : ∀ p, ¬ inBlock P b.v p → k'.perm p = k.perm p ∧ k'.locked p = k.locked p)
    (hb : b'.v.base = b.v.base) (hc : b'.v.cap = b.v.cap) :
    TightL P k' (b' :: R) := by
  intro p hp
  have hn : ¬ inBlock P b.v p := fun hi => hp b' (by simp) ((inBlock_congr hb hc p).mpr hi)
  rw [(hfr p hn).2]
  apply t p
  intro o ho
  rcases List.mem_cons.mp ho with rfl | ho
  · exact hn
  · exact hp o (by simp [ho])

/-! ### allocation -/

theorem good_alloc {c : Cfg} (hP : 0 < c.P) {m : Mach} {R : List Blk} (g : GoodL c.P m.k R)
    {size : Nat} (hs : 0 < size) (v : PVec) (hb : v.base = m.k.brk) (hc : v.cap = size)
    (hl : v.len ≤ size) (hbuf : v.buf.length = size) :
    GoodL c.P (alloc c m size).1.k (⟨v, .rw, false⟩ :: R) := by
  have hbrk := alloc_brk c hP m size
  have hperm := alloc_perm c hP m size
  have hpl := pagesOf_le hP (Nat.le_refl size)
  have hpl2 := pagesOf_le hP hl
  have hold : ∀ p, p < m.k.brk → (alloc c m size).1.k.perm p = m.k.perm p := by
    intro p hp; rw [hperm]; grind
  have hst := g.start
  refine ⟨by omega, ?_, ?_, ?_, ?_, ?_, ?_⟩
  rotate_left 4
  · intro z
    rw [alloc_al, alloc_fr, ownedB_cons, List.count_append, List.count_append, g.led z]
    have : blkP v = [(m.k.brk, size)] := by
      unfold blkP; rw [if_neg (by omega), hb, hc]
    rw [this]; omega
  · rw [alloc_al, List.map_append, hbrk]
    refine ⟨List.pairwise_append.mpr ⟨g.albase.1, by simp, ?_⟩, ?_⟩
    · intro a ha b hbm
      simp only [List.map_cons, List.map_nil, List.mem_singleton] at hbm
      rw [hbm]; exact g.albase.2 a ha
    · intro b hbm
      rcases List.mem_append.mp hbm with h1 | h1
      · have := g.albase.2 b h1; omega
      · simp only [List.map_cons, List.map_nil, List.mem_singleton] at h1
        omega
  · intro p hp
    rw [hperm, alloc_locked]
    have := g.fresh p (by omega)
    grind
  · intro o ho
    rcases List.mem_cons.mp ho with rfl | ho
    · refine ⟨by simp [hc, hl], by simp [hbuf, hc], fun _ => by simp [hb, hst], ?_, ?_, ?_, ?_, ?_⟩
      · intro _; simp only [hb, hc]; omega
      · intro _; simp only [hb, alloc_locked]; rw [hperm]
        exact ⟨by grind, (g.fresh _ (Nat.le_refl _)).2⟩
      · intro _; simp only [hb, hc, alloc_locked]; rw [hperm]
        exact ⟨by grind, (g.fresh _ (by omega)).2⟩
      · intro p h1 h2
        simp only [hb] at h1 h2
        have hm := pagesOf_mono (P := c.P) hl
        simp only [alloc_locked]; rw [hperm]
        exact ⟨by grind, (g.fresh _ (by omega)).2⟩
      · intro _ p h1 h2
        simp only [hb, hc] at h1 h2
        simp only [alloc_locked]; rw [hperm]
        have := g.fresh p (by omega)
        exact ⟨by grind, this.2⟩
    · refine (g.ok o ho).congr hP (by omega) ?_
      intro p hp
      have := (g.ok o ho).hi hp.1
      have := hp.2.2
      rw [hold p (by omega), alloc_locked]; simp
  · refine List.pairwise_cons.mpr ⟨?_, g.disj⟩
    intro o ho p hp
    have := (g.ok o ho).hi hp.2.1
    have h1 := hp.1.2.1; have h2 := hp.2.2.2
    simp only [hb] at h1; omega
  · intro p hp
    have hn : ¬ inBlock c.P v p := hp ⟨v, .rw, false⟩ (by simp)
    have hn' : ¬ (m.k.brk ≤ p ∧ p < m.k.brk + size / c.P + 3) := by
      intro h; exact hn ⟨by omega, by omega, by rw [hb, hc]; omega⟩
    rw [hperm]
    have := g.outside p (fun o ho => hp o (by simp [ho]))
    by_cases h : p < m.k.brk
    · grind
    · have := (g.fresh p (by omega)).1; grind

theorem tight_alloc {c : Cfg} {m : Mach} {R : List Blk} (t : TightL c.P m.k R)
    {size : Nat} (b : Blk) :
    TightL c.P (alloc c m size).1.k (b :: R) := by
  intro p hp
  rw [alloc_locked]
  exact t p (fun o ho => hp o (by simp [ho]))

/-! ### deallocation -/

theorem good_dealloc {c : Cfg} (hP : 0 < c.P) {m : Mach} {b : Blk} {R : List Blk}
    (g : GoodL c.P m.k (b :: R)) (hc : 0 < b.v.cap) :
    GoodL c.P (dealloc c m b.v).k R := by
  have hperm := dealloc_perm c hP m b.v
  have hd := List.pairwise_cons.mp g.disj
  have hb := g.ok b (by simp)
  have hpl := pagesOf_le_div hP b.v.cap
  have hfr : ∀ p, ¬ inBlock c.P b.v p → (dealloc c m b.v).k.perm p = m.k.perm p := by
    intro p hn; rw [hperm]
    have : ¬ (b.v.base ≤ p ∧ p < b.v.base + b.v.cap / c.P + 3) := fun h => hn ⟨hc, h.1, h.2⟩
    grind
  refine ⟨by rw [dealloc_brk]; exact g.start, ?_, ?_, hd.2, ?_, ?_, ?_⟩
  rotate_left 3
  · intro z
    have := g.led z
    rw [ownedB_cons, List.count_append] at this
    have e : blkP b.v = [(b.v.base, b.v.cap)] := by unfold blkP; rw [if_neg (by omega)]
    rw [e] at this
    rw [dealloc_al, dealloc_fr, List.count_append]; omega
  · rw [dealloc_al, dealloc_brk]; exact g.albase
  · intro p hp
    rw [dealloc_brk] at hp
    have := hb.hi hc
    rw [dealloc_locked, hfr p (fun hi => by have := hi.2.2; omega)]
    exact g.fresh p hp
  · intro o ho
    refine (g.ok o (by simp [ho])).congr hP (by simp) ?_
    intro p hp
    rw [dealloc_locked, hfr p (fun hi => hd.1 o ho p ⟨hi, hp⟩)]; simp
  · intro p hp
    by_cases hi : inBlock c.P b.v p
    · rw [hperm]
      have hpm := pagesOf_mono (P := c.P) hb.lenle
      by_cases h1 : (b.v.base + 1 ≤ p ∧ p < b.v.base + 1 + pagesOf c.P b.v.cap) ∨ p = b.v.base ∨
          p = b.v.base + b.v.cap / c.P + 2
      · simp [h1]
      · simp only [h1, if_false]
        exact (hb.spare hc p (by have := hi.2.1; omega) (by have := hi.2.2; omega)).1
    · rw [hfr p hi]
      apply g.outside p
      intro o ho
      rcases List.mem_cons.mp ho with rfl | ho
      · exact hi
      · exact hp o ho

/-- every page of a block whose data pages are unlocked is unlocked -/
theorem BlockOK.all_unlocked {P : Nat} {k : Kernel} {b : Blk} (h : BlockOK P k b) (hdl : b.dl = false)
    {p : Nat} (hi : inBlock P b.v p) : k.locked p = false := by
  have hc := hi.1
  by_cases h0 : p = b.v.base
  · subst h0; exact (h.fore hc).2
  by_cases h1 : p = b.v.base + b.v.cap / P + 2
  · subst h1; exact (h.aft hc).2
  by_cases h2 : p < b.v.base + 1 + pagesOf P b.v.len
  · rw [(h.data p (by have := hi.2.1; omega) h2).2, hdl]
  · exact (h.spare hc p (by omega) (by have := hi.2.2; omega)).2

theorem tight_dealloc {c : Cfg} {m : Mach} {b : Blk} {R : List Blk}
    (t : TightL c.P m.k (b :: R)) (hb : BlockOK c.P m.k b) (hdl : b.dl = false) :
    TightL c.P (dealloc c m b.v).k R := by
  intro p hp
  rw [dealloc_locked]
  by_cases hi : inBlock c.P b.v p
  · exact hb.all_unlocked hdl hi
  · apply t p
    intro o ho
    rcases List.mem_cons.mp ho with rfl | ho
    · exact hi
    · exact hp o ho

end DryocVerif.Proofs.Protected
