import DryocVerif.Proofs.Blake2bMain
import DryocVerif.Proofs.Curve
import DryocVerif.Model.KeyForms
/-
C12 helpers: the KDF through dryoc's own BLAKE2b model, and injectivity of the BLAKE2b initial
chaining value in the parameter block.
-/
namespace DryocVerif.Proofs.KdfExtra
open DryocVerif DryocVerif.Model.Curve DryocVerif.Model.KeyForms

/-! ### the concrete code path -/

theorem keyOpt_some (key : Bytes) (hk : key.length = 32) : Proofs.Blake2b.keyOpt key = some key := by
  unfold Proofs.Blake2b.keyOpt
  cases key with
  | nil => simp at hk
  | cons b bs => rfl

/-- dryoc's BLAKE2b (`init` with key, salt, personalisation; no `update`; `finalize`) on the
arguments of the KDF = the specification's keyed, salted, personalised BLAKE2b of the empty
message; in particular neither `init` nor `finalize` returns an error. -/
theorem kdf_impl_eq_spec (len id : Nat) (ctx key : Bytes) (h : 16 ≤ len ∧ len ≤ 64)
    (hk : key.length = 32) (hc : ctx.length = 8) :
    Model.Blake2b.hashChunksC Model.Blake2b.compress len (some key)
        (some (toLE 8 id ++ zeros 8)) (some (ctx ++ zeros 8)) [] =
      .ok (Spec.Blake2b.hashSP len key (toLE 8 id ++ zeros 8) (ctx ++ zeros 8) []) := by
  have := Proofs.Blake2b.hashChunksC_model_eq_spec len key (some (toLE 8 id ++ zeros 8))
    (some (ctx ++ zeros 8)) [] ⟨by omega, h.2⟩ (by omega)
    (by intro s hs; cases hs; simp [Proofs.Curve.toLE_length, zeros])
    (by intro s hs; cases hs; simp [hc, zeros])
    (by simp)
  rw [keyOpt_some key hk] at this
  simpa using this

theorem copyIntoRange_zeros16 (v : Bytes) (hv : v.length = 8) :
    copyIntoRange (zeros 16) 0 8 v = .ok (v ++ zeros 8) := by
  unfold copyIntoRange
  rw [if_pos (by simp [zeros, hv])]
  simp [zeros]

/-- the statement-level model of `crypto_kdf_derive_from_key` in terms of `hashChunksC` -/
theorem kdfDeriveImpl_unfold (len id : Nat) (ctx key : Bytes) (hc : ctx.length = 8) :
    kdfDeriveImpl len id ctx key =
      if len < 16 ∨ 64 < len then .err
      else Model.Blake2b.hashChunksC Model.Blake2b.compress len (some key)
        (some (toLE 8 id ++ zeros 8)) (some (ctx ++ zeros 8)) [] := by
  unfold kdfDeriveImpl
  by_cases hl : len < 16 ∨ 64 < len
  · rw [if_pos hl, if_pos hl]
  · rw [if_neg hl, if_neg hl, copyIntoRange_zeros16 ctx hc,
      copyIntoRange_zeros16 _ (Proofs.Curve.toLE_length 8 id)]
    have h64 : ¬ len > Model.Blake2b.OUTBYTES := by simp only [Model.Blake2b.OUTBYTES]; omega
    simp only [Model.Blake2b.hashChunksC, if_neg h64, Model.Blake2b.init, Model.Blake2b.finalize,
      List.foldl_nil]
    cases Model.Blake2b.initC Model.Blake2b.compress (len % 256) (some key)
      (some (toLE 8 id ++ zeros 8)) (some (ctx ++ zeros 8)) <;> rfl

/-- **the code path = the abstract model at the spec instantiation**, for every length
(admissible or not), every id, 8-byte context and 32-byte key -/
theorem kdfDeriveImpl_eq_kdfDerive (len id : Nat) (ctx key : Bytes)
    (hk : key.length = 32) (hc : ctx.length = 8) :
    kdfDeriveImpl len id ctx key = kdfDerive specPrims len id ctx key := by
  rw [kdfDeriveImpl_unfold len id ctx key hc]
  unfold kdfDerive
  by_cases hl : len < 16 ∨ 64 < len
  · rw [if_pos hl, if_pos hl]
  · rw [if_neg hl, if_neg hl, kdf_impl_eq_spec len id ctx key (by omega) hk hc]
    rfl

/-! ### injectivity of the initial chaining value -/

theorem map_range_get {α} [Inhabited α] (f : Nat → α) (n i : Nat) (h : i < n) :
    ((List.range n).map f).toArray[i]! = f i := by
  rw [getElem!_pos _ _ (by simpa using h)]
  simp

theorem le_inj_of_length : ∀ (a b : Bytes), a.length = b.length → le a = le b → a = b
  | [], [], _, _ => rfl
  | [], _ :: _, h, _ => by simp at h
  | _ :: _, [], h, _ => by simp at h
  | x :: a, y :: b, h, e => by
    simp only [le] at e
    have hx := x.toNat_lt
    have hy := y.toNat_lt
    have h1 : x.toNat = y.toNat := by omega
    have h2 : le a = le b := by omega
    rw [UInt8.toNat_inj.mp h1, le_inj_of_length a b (by simpa using h) h2]

/-- two byte strings of length `8 n` with equal 8-byte chunks are equal -/
theorem chunks8_ext : ∀ (n : Nat) (a b : Bytes), a.length = 8 * n → b.length = 8 * n →
    (∀ i, i < n → (a.drop (8 * i)).take 8 = (b.drop (8 * i)).take 8) → a = b := by
  intro n
  induction n with
  | zero =>
    intro a b ha hb _
    have ha' : a = [] := List.eq_nil_of_length_eq_zero (by simpa using ha)
    have hb' : b = [] := List.eq_nil_of_length_eq_zero (by simpa using hb)
    rw [ha', hb']
  | succ n ih =>
    intro a b ha hb h
    have h0 := h 0 (by omega)
    simp only [Nat.mul_zero, List.drop_zero] at h0
    have hr : a.drop 8 = b.drop 8 := by
      apply ih
      · simp; omega
      · simp; omega
      · intro i hi
        have := h (i + 1) (by omega)
        simpa [List.drop_drop, Nat.mul_add, Nat.add_comm] using this
    rw [← List.take_append_drop 8 a, ← List.take_append_drop 8 b, h0, hr]

open Spec.Blake2b in
/-- `wordsOfBytes 8` is injective on 64-byte strings -/
theorem wordsOfBytes8_inj (a b : Bytes) (ha : a.length = 64) (hb : b.length = 64)
    (h : ∀ i, i < 8 → (wordsOfBytes 8 a)[i]! = (wordsOfBytes 8 b)[i]!) : a = b := by
  apply chunks8_ext 8 a b ha hb
  intro i hi
  have hi' := h i hi
  unfold wordsOfBytes at hi'
  rw [map_range_get _ _ _ hi, map_range_get _ _ _ hi] at hi'
  have hla : ((a.drop (8 * i)).take 8).length = 8 := by simp; omega
  have hlb : ((b.drop (8 * i)).take 8).length = 8 := by simp; omega
  apply le_inj_of_length _ _ (by rw [hla, hlb])
  have h1 := Proofs.Curve.le_lt ((a.drop (8 * i)).take 8)
  have h2 := Proofs.Curve.le_lt ((b.drop (8 * i)).take 8)
  rw [hla] at h1; rw [hlb] at h2
  have e := congrArg UInt64.toNat hi'
  simp only [UInt64.toNat_ofNat'] at e
  have e8 : (256 : Nat) ^ 8 = 2 ^ 64 := by decide
  rw [e8] at h1 h2
  rwa [Nat.mod_eq_of_lt h1, Nat.mod_eq_of_lt h2] at e

open Spec.Blake2b in
theorem paramBlock_length (o k : Nat) (s q : Bytes) : (paramBlock o k s q).length = 64 := by
  simp [paramBlock, Proofs.Curve.fit_length, zeros]

open Spec.Blake2b in
/-- equal initial chaining values ⇒ equal parameter blocks (XOR with the IV and the
little-endian word loading are injective on 64-byte blocks) -/
theorem initState_inj (o o' k k' : Nat) (s s' q q' : Bytes)
    (h : initState o k s q = initState o' k' s' q') :
    paramBlock o k s q = paramBlock o' k' s' q' := by
  apply wordsOfBytes8_inj _ _ (paramBlock_length ..) (paramBlock_length ..)
  intro i hi
  have e := congrArg (fun a : Array UInt64 => a[i]!) h
  simp only [initState] at e
  rw [map_range_get _ _ _ hi, map_range_get _ _ _ hi] at e
  exact (UInt64.xor_right_inj _).mp e

/-! ### the KDF output as ONE keyed final compression of the initial chaining value -/

open Spec.Blake2b in
/-- with a 32-byte key and an empty message BLAKE2b absorbs exactly one block: the zero-padded key -/
theorem blocksOf_key32 (key : Bytes) (hk : key.length = 32) : blocksOf key [] = [fit blockBytes key] := by
  have hne : key.isEmpty = false := by
    cases key with
    | nil => simp at hk
    | cons b bs => rfl
  have hl : (fit blockBytes key).length = 127 + 1 := Proofs.Curve.fit_length _ _
  have hne' : (fit blockBytes key).isEmpty = false := by
    cases h : fit blockBytes key with
    | nil => rw [h] at hl; simp at hl
    | cons b bs => rfl
  unfold blocksOf
  simp only [hne, List.append_nil, Bool.false_eq_true, if_false, hne']
  unfold chunks
  rw [hl, chunksAux]
  simp only [hne', Bool.false_eq_true, if_false]
  have ht : (fit blockBytes key).take blockBytes = fit blockBytes key :=
    List.take_of_length_le (by rw [hl]; decide)
  have hd : (fit blockBytes key).drop blockBytes = [] :=
    List.drop_of_length_le (by rw [hl]; decide)
  rw [ht, hd]
  cases (127 : Nat) <;> simp [chunksAux]

open Spec.Blake2b in
/-- **the KDF's BLAKE2b call, unfolded**: the sub-key is the first `len` bytes of ONE final compression
`F(h₀, key ‖ 0⁹⁶, t = 128, last)` of the initial chaining value `h₀ = IV ⊕ paramBlock(len, 32, salt, personal)` —
the only place where length, id and context enter -/
theorem hashSP_key32 (len : Nat) (key salt pers : Bytes) (hk : key.length = 32) :
    hashSP len key salt pers [] =
      (bytesOfWords (compress (initState len 32 salt pers) (fit blockBytes key) blockBytes true)).take len := by
  unfold hashSP
  simp only [blocksOf_key32 key hk, hk, absorb, Proofs.Curve.fit_length, Nat.zero_add]

open Spec.Blake2b in
theorem hashSP_key32_length (len : Nat) (key salt pers : Bytes) (hk : key.length = 32) (hl : len ≤ 64) :
    (hashSP len key salt pers []).length = len := by
  rw [hashSP_key32 len key salt pers hk, List.length_take,
    Proofs.Blake2b.bytesOfWords_length _ (by simp [compress])]
  omega

end DryocVerif.Proofs.KdfExtra
