import DryocVerif.Model.TypeState
import DryocVerif.Model.Protected
import DryocVerif.Proofs.TypeStateBridge
/-
C20 — safe code cannot request an access the current state forbids.

Three layers, kept apart on purpose:
 1. THE TABLE (`Model/TypeState.lean`: `permits pm lm cont op` = "the safe API has this method on
    `Protected<cont, pm, lm>`").  That rustc accepts exactly this table is MEASURED exhaustively on
    every run (one misuse and one control program per cell); it is not a theorem.
 2. TABLE-LEVEL THEOREMS (`permits_sound` … `well_typed_no_fault`): every operation the table offers
    performs only accesses that the protect-mode MARKER of the state allows (`allowed`).  These say
    nothing about pages.
 3. THE BRIDGE to the kernel model of C14 (`permitted_read_no_segv` … `well_typed_no_segv`): in every
    state satisfying the invariant of C14 (hence every reachable one), a region whose type state is
    `(pm, lm)` really has the page rights the marker stands for, so an access FAULTS (`segv` in the
    model = SIGSEGV of the probing child in the harness) IF AND ONLY IF the table's `allowed`
    forbids it.  Hence the table forbids exactly the accesses that would crash, and a well-typed
    program never crashes.
-/
namespace DryocVerif.Properties.C20
open DryocVerif.Model.TypeState

/-! ### table level -/

/-- (table level) every operation the API offers in a state performs only accesses that the
state's protect-mode marker allows.  This is a statement about the two tables `permits` and
`allowed`; that the marker agrees with the real page rights is `marker_is_page_right` below. -/
theorem permits_sound (pm : PM) (lm : LM) (c : Cont) (op : Op) (h : permits pm lm c op = true) :
    allowed pm (access op) = true := by
  cases op <;> cases pm <;> cases lm <;> cases c <;> simp_all [permits, allowed, access]

theorem mut_view_only_rw (pm : PM) (lm : LM) (c : Cont) : permits pm lm c .mutView = true → pm = .rw := by
  cases pm <;> simp [permits]

theorem read_view_not_na (pm : PM) (lm : LM) (c : Cont) : permits pm lm c .readView = true → pm ≠ .na := by
  cases pm <;> simp [permits]

theorem no_access_only_unlocked (pm : PM) (lm : LM) (c : Cont) : permits pm lm c .na = true → lm = .unlocked := by
  cases lm <;> simp [permits]

/-- `useAfter` is a PSEUDO-operation of the table ("use of a handle after a transition consumed
it"); the table has `false` in that row for every state, by definition.  The theorem records that
definition and nothing more: that such a program is in fact rejected (E0382, use of moved value) is
part of the measurement on rustc, not of this theorem. -/
theorem nothing_after_consumed (pm : PM) (lm : LM) (c : Cont) : permits pm lm c .useAfter = false := rfl

theorem stream_push_only_push (m : Mode) : streamPermits m .push = true → m = .push := by cases m <;> simp [streamPermits]
theorem stream_pull_only_pull (m : Mode) : streamPermits m .pull = true → m = .pull := by cases m <;> simp [streamPermits]

/-- a program = a list of operations on one handle; it is well typed if every step is permitted in the
state reached so far -/
def wellTyped (c : Cont) : PM → LM → List Op → Bool
  | _, _, [] => true
  | pm, lm, op :: rest => permits pm lm c op && wellTyped c (next pm lm op).1 (next pm lm op).2 rest

/-- running a program IN THE TABLE WORLD: `true` iff no step performs an access that the protect-mode
marker of the current table state forbids (no pages involved; see `well_typed_no_segv` for pages) -/
def noFault : PM → LM → List Op → Bool
  | _, _, [] => true
  | pm, lm, op :: rest => allowed pm (access op) && noFault (next pm lm op).1 (next pm lm op).2 rest

/-- (table level) a well-typed program of any length never performs an access its current marker
forbids -/
theorem well_typed_no_fault (c : Cont) (pm : PM) (lm : LM) (prog : List Op) :
    wellTyped c pm lm prog = true → noFault pm lm prog = true := by
  induction prog generalizing pm lm with
  | nil => simp [noFault]
  | cons op rest ih =>
    simp only [wellTyped, noFault, Bool.and_eq_true]
    intro ⟨h1, h2⟩
    exact ⟨permits_sound pm lm c op h1, ih _ _ h2⟩

/-- non-vacuity: a non-trivial well-typed program and an ill-typed one -/
example : wellTyped .bytes .rw .locked [.mutView, .ro, .readView, .unlock, .na, .rw, .resize] = true := by decide
example : wellTyped .bytes .rw .locked [.ro, .mutView] = false := by decide

/-- non-vacuity of `noFault`: it is not constantly `true` — reading a no-access region, or writing
after `ro`, is a fault of the table semantics -/
example : noFault .na .unlocked [.readView] = false ∧ noFault .rw .locked [.ro, .mutView] = false ∧
    noFault .rw .locked [.ro, .readView] = true := by decide

/-! ### the bridge to the kernel model of C14 -/

open DryocVerif DryocVerif.Proofs.TypeStateBridge
open DryocVerif.Model.Protected (Cfg State Slot Tok Res St opRProbe opWProbe step run runState resetRel setSlot)
open DryocVerif.Proofs.Protected (Inv inv_runState inv_init)

/-- the translation of the markers is one-to-one and onto (so "`conv⁻¹`" makes sense: every kernel
type state `.prot lm' pm'` is `stOf pm lm` for exactly one table state) -/
theorem conv_bijective :
    ((∀ a b, convPM a = convPM b → a = b) ∧ ∀ q, ∃ a, convPM a = q) ∧
    ((∀ a b, convLM a = convLM b → a = b) ∧ ∀ q, ∃ a, convLM a = q) :=
  ⟨convPM_bij, convLM_bij⟩

/-- **the marker is the page right**: in a state satisfying the invariant of C14, for a live region
whose type state is the table state `(pm, lm)`, a read (a write) at ANY byte succeeds if and only if
the table's `allowed pm .read` (`allowed pm .write`) holds, and faults otherwise. -/
theorem marker_is_page_right (c : Cfg) (hP : 0 < c.P) (s : State) (h : Inv c s) (i : Nat) (sl : Slot)
    (hi : s.slots[i]? = some sl) (hg : sl.gone = false) (pm : PM) (lm : LM)
    (hst : sl.o.st = .prot (convLM lm) (convPM pm)) (off : Nat) (hoff : off < sl.o.v.len) :
    ((opRProbe c s i off).1 = .ok ↔ allowed pm .read = true) ∧
    ((opRProbe c s i off).1 = .segv ↔ allowed pm .read = false) ∧
    ((opWProbe c s i off).1 = .ok ↔ allowed pm .write = true) ∧
    ((opWProbe c s i off).1 = .segv ↔ allowed pm .write = false) :=
  ⟨rprobe_ok_iff hP h hi hg hst hoff, rprobe_segv_iff hP h hi hg hst hoff,
   wprobe_ok_iff hP h hi hg hst hoff, wprobe_segv_iff hP h hi hg hst hoff⟩

/-- if the API offers `as_slice()` (`Bytes`) in the state of a live region, reading any of its bytes
does not fault -/
theorem permitted_read_no_segv (c : Cfg) (hP : 0 < c.P) (s : State) (h : Inv c s) (i : Nat) (sl : Slot)
    (hi : s.slots[i]? = some sl) (hg : sl.gone = false) (pm : PM) (lm : LM) (ct : Cont)
    (hst : sl.o.st = .prot (convLM lm) (convPM pm)) (hperm : permits pm lm ct .readView = true)
    (off : Nat) (hoff : off < sl.o.v.len) : (opRProbe c s i off).1 = .ok :=
  (rprobe_ok_iff hP h hi hg hst hoff).mpr (permits_sound pm lm ct .readView hperm)

/-- if the API offers `as_mut_slice()` (`MutBytes`) in the state of a live region, writing any of its
bytes does not fault -/
theorem permitted_write_no_segv (c : Cfg) (hP : 0 < c.P) (s : State) (h : Inv c s) (i : Nat) (sl : Slot)
    (hi : s.slots[i]? = some sl) (hg : sl.gone = false) (pm : PM) (lm : LM) (ct : Cont)
    (hst : sl.o.st = .prot (convLM lm) (convPM pm)) (hperm : permits pm lm ct .mutView = true)
    (off : Nat) (hoff : off < sl.o.v.len) : (opWProbe c s i off).1 = .ok :=
  (wprobe_ok_iff hP h hi hg hst hoff).mpr (permits_sound pm lm ct .mutView hperm)

/-- the same for EVERY operation of the table, by the access it performs (`index`, `as_array`,
`clone` read; `resize` writes) -/
theorem permitted_access_no_segv (c : Cfg) (hP : 0 < c.P) (s : State) (h : Inv c s) (i : Nat) (sl : Slot)
    (hi : s.slots[i]? = some sl) (hg : sl.gone = false) (pm : PM) (lm : LM) (ct : Cont)
    (hst : sl.o.st = .prot (convLM lm) (convPM pm)) (op : Op) (hperm : permits pm lm ct op = true)
    (off : Nat) (hoff : off < sl.o.v.len) :
    (access op = .read → (opRProbe c s i off).1 = .ok) ∧
    (access op = .write → (opWProbe c s i off).1 = .ok) := by
  have hal := permits_sound pm lm ct op hperm
  refine ⟨fun ha => ?_, fun ha => ?_⟩
  · rw [ha] at hal; exact (rprobe_ok_iff hP h hi hg hst hoff).mpr hal
  · rw [ha] at hal; exact (wprobe_ok_iff hP h hi hg hst hoff).mpr hal

/-- tightness, read side: where the API does NOT offer `as_slice()` — exactly the no-access states —
a read of any byte does fault: the missing impl forbids nothing harmless -/
theorem forbidden_read_segv (c : Cfg) (hP : 0 < c.P) (s : State) (h : Inv c s) (i : Nat) (sl : Slot)
    (hi : s.slots[i]? = some sl) (hg : sl.gone = false) (pm : PM) (lm : LM) (ct : Cont)
    (hst : sl.o.st = .prot (convLM lm) (convPM pm)) (hperm : permits pm lm ct .readView = false)
    (off : Nat) (hoff : off < sl.o.v.len) : pm = .na ∧ (opRProbe c s i off).1 = .segv := by
  have hna : pm = .na := by cases pm <;> simp_all [permits]
  refine ⟨hna, (rprobe_segv_iff hP h hi hg hst hoff).mpr ?_⟩
  rw [hna]; rfl

/-- tightness, write side: where the API does NOT offer `as_mut_slice()` — exactly the states with
`pm ≠ ReadWrite` — a write to any byte does fault -/
theorem forbidden_write_segv (c : Cfg) (hP : 0 < c.P) (s : State) (h : Inv c s) (i : Nat) (sl : Slot)
    (hi : s.slots[i]? = some sl) (hg : sl.gone = false) (pm : PM) (lm : LM) (ct : Cont)
    (hst : sl.o.st = .prot (convLM lm) (convPM pm)) (hperm : permits pm lm ct .mutView = false)
    (off : Nat) (hoff : off < sl.o.v.len) : pm ≠ .rw ∧ (opWProbe c s i off).1 = .segv := by
  have hne : pm ≠ .rw := by cases pm <;> simp_all [permits]
  refine ⟨hne, (wprobe_segv_iff hP h hi hg hst hoff).mpr ?_⟩
  cases pm <;> simp_all [allowed]

/-- **the table forbids exactly the accesses that would fault**: `as_slice()` is offered iff a read
succeeds, `as_mut_slice()` is offered iff a write succeeds -/
theorem views_offered_iff_no_segv (c : Cfg) (hP : 0 < c.P) (s : State) (h : Inv c s) (i : Nat) (sl : Slot)
    (hi : s.slots[i]? = some sl) (hg : sl.gone = false) (pm : PM) (lm : LM) (ct : Cont)
    (hst : sl.o.st = .prot (convLM lm) (convPM pm)) (off : Nat) (hoff : off < sl.o.v.len) :
    (permits pm lm ct .readView = true ↔ (opRProbe c s i off).1 = .ok) ∧
    (permits pm lm ct .mutView = true ↔ (opWProbe c s i off).1 = .ok) := by
  rw [rprobe_ok_iff hP h hi hg hst hoff, wprobe_ok_iff hP h hi hg hst hoff]
  constructor <;> cases pm <;> simp [permits, allowed]

/-- non-vacuity witness for the bridge (hypotheses satisfiable, both outcomes occur): slot 0 is a
`LockedRO` region = table state `(ro, locked)`; reading is offered and succeeds, writing is not
offered and faults -/
example :
    let c : Cfg := { P := 4096, isArr := false, n := 16 }
    let s := runState c (State.init fun _ => true) [⟨.new, 0⟩, ⟨.lock, 0⟩, ⟨.ro, 0⟩]
    (∃ sl, s.slots[0]? = some sl ∧ sl.gone = false ∧ sl.o.st = .prot (convLM .locked) (convPM .ro) ∧
      15 < sl.o.v.len) ∧
    permits .ro .locked .bytes .readView = true ∧ (opRProbe c s 0 15).1 = .ok ∧
    permits .ro .locked .bytes .mutView = false ∧ (opWProbe c s 0 15).1 = .segv := by
  refine ⟨⟨_, rfl, ?_⟩, ?_⟩ <;> decide

/-! the same in every reachable state (`step` resets the release log and runs the probe) -/

theorem permitted_access_no_segv_reachable (c : Cfg) (hP : 0 < c.P) (oracle : Nat → Bool) (toks : List Tok)
    (i : Nat) (sl : Slot) (hi : (runState c (State.init oracle) toks).slots[i]? = some sl)
    (hg : sl.gone = false) (pm : PM) (lm : LM) (ct : Cont)
    (hst : sl.o.st = .prot (convLM lm) (convPM pm)) (op : Op) (hperm : permits pm lm ct op = true)
    (off : Nat) (hoff : off < sl.o.v.len) :
    (access op = .read → (step c (runState c (State.init oracle) toks) ⟨.rprobe off, i⟩).1 = .ok) ∧
    (access op = .write → (step c (runState c (State.init oracle) toks) ⟨.wprobe off, i⟩).1 = .ok) :=
  permitted_access_no_segv c hP (resetRel (runState c (State.init oracle) toks))
    (inv_runState hP toks (inv_init c oracle)) i sl hi hg pm lm ct hst op hperm off hoff

theorem forbidden_access_segv_reachable (c : Cfg) (hP : 0 < c.P) (oracle : Nat → Bool) (toks : List Tok)
    (i : Nat) (sl : Slot) (hi : (runState c (State.init oracle) toks).slots[i]? = some sl)
    (hg : sl.gone = false) (pm : PM) (lm : LM) (ct : Cont)
    (hst : sl.o.st = .prot (convLM lm) (convPM pm)) (off : Nat) (hoff : off < sl.o.v.len) :
    (permits pm lm ct .readView = false →
      (step c (runState c (State.init oracle) toks) ⟨.rprobe off, i⟩).1 = .segv) ∧
    (permits pm lm ct .mutView = false →
      (step c (runState c (State.init oracle) toks) ⟨.wprobe off, i⟩).1 = .segv) :=
  ⟨fun hp => (forbidden_read_segv c hP (resetRel (runState c (State.init oracle) toks))
      (inv_runState hP toks (inv_init c oracle)) i sl hi hg pm lm ct hst hp off hoff).2,
   fun hp => (forbidden_write_segv c hP (resetRel (runState c (State.init oracle) toks))
      (inv_runState hP toks (inv_init c oracle)) i sl hi hg pm lm ct hst hp off hoff).2⟩

/-! ### the transitions of the table are the transitions of the kernel model -/

/-- For the five type-state transitions: if the table offers the transition in state `(pm, lm)`, the
harness token of the same name answers `ok` and the slot is then in the table's successor state
`next pm lm op` with the same container — or, for `lock` only, `err` and the slot is consumed; if
the table does NOT offer it (`lock`, `na` on a locked region) the model answers `n/a` and nothing
changes.  (No invariant needed.) -/
theorem transitions_follow_table (c : Cfg) (s : State) (i : Nat) (sl : Slot)
    (hi : s.slots[i]? = some sl) (hg : sl.gone = false) (pm : PM) (lm : LM) (ct : Cont)
    (hst : sl.o.st = .prot (convLM lm) (convPM pm)) (op : Op) (k : Model.Protected.Op)
    (hk : (op = .lock ∧ k = .lock) ∨ (op = .unlock ∧ k = .unlock) ∨ (op = .ro ∧ k = .ro) ∨
      (op = .rw ∧ k = .rw) ∨ (op = .na ∧ k = .na)) :
    (permits pm lm ct op = true →
      ∃ m', step c s ⟨k, i⟩ = (.ok, setSlot (resetRel s) m' i
          { sl with o := ⟨.prot (convLM (next pm lm op).2) (convPM (next pm lm op).1), sl.o.v⟩ }) ∨
        (op = .lock ∧ step c s ⟨k, i⟩ = (.err, setSlot (resetRel s) m' i { sl with gone := true }))) ∧
    (permits pm lm ct op = false → step c s ⟨k, i⟩ = (.na, resetRel s)) :=
  ⟨trans_live hi hg ct hst op k hk, trans_forbidden_na hi hg ct hst op k hk⟩

/-! ### programs -/

/-- **type state ⇒ no crash, on the kernel model.**  Take any state satisfying the invariant of C14
in which slot `i` is a live region in table state `(pm, lm)` with more than `off` bytes (or is
already consumed).  Run a well-typed program on it, each table operation replaced by its harness
token (`tokOf`: the five transitions by the tokens of the same name — `lock` may be refused or fail,
whatever the oracle says —, every other operation by the access it performs at byte `off`).  Then
NO step answers `segv`. -/
theorem well_typed_no_segv (c : Cfg) (hP : 0 < c.P) (ct : Cont) (i off : Nat) (prog : List Op) :
    ∀ (s : State) (pm : PM) (lm : LM), SlotIn c s i off pm lm → wellTyped ct pm lm prog = true →
      ∀ r ∈ run c s (prog.filterMap (tokOf i off)), r.1 ≠ .segv := by
  induction prog with
  | nil => intro s pm lm _ _ r hr; simp [run] at hr
  | cons op rest ih =>
    intro s pm lm hin hw r hr
    simp only [wellTyped, Bool.and_eq_true] at hw
    cases ht : tokOf i off op with
    | none => cases op <;> simp [tokOf] at ht; simp [permits] at hw
    | some t =>
      have hs := step_no_segv hP ct hin op hw.1 t ht
      simp only [List.filterMap_cons, ht, run, List.mem_cons] at hr
      rcases hr with rfl | hr
      · exact hs.1
      · exact ih _ _ _ hs.2 hw.2 r hr

/-- … in particular from every reachable state (the slot may even be consumed already: then every
token answers `n/a`) -/
theorem well_typed_no_segv_reachable (c : Cfg) (hP : 0 < c.P) (oracle : Nat → Bool) (toks : List Tok)
    (ct : Cont) (i off : Nat) (sl : Slot) (pm : PM) (lm : LM)
    (hi : (runState c (State.init oracle) toks).slots[i]? = some sl)
    (hst : sl.o.st = .prot (convLM lm) (convPM pm)) (hoff : off < sl.o.v.len)
    (prog : List Op) (hw : wellTyped ct pm lm prog = true) :
    ∀ r ∈ run c (runState c (State.init oracle) toks) (prog.filterMap (tokOf i off)), r.1 ≠ .segv :=
  well_typed_no_segv c hP ct i off prog _ pm lm
    ⟨inv_runState hP toks (inv_init c oracle), sl, hi, Or.inr ⟨hst, hoff⟩⟩ hw

/-- non-vacuity witness (`well_typed_no_segv`): the well-typed program above on a `Locked` 16-byte
region runs without a fault (here even without `n/a`: all `ok`), the ill-typed one — which rustc
rejects — DOES fault at its second step; and with a refusing oracle the `lock` in the middle answers
`err`, after which the handle is gone and nothing faults either -/
example :
    let c : Cfg := { P := 4096, isArr := false, n := 16 }
    let s := runState c (State.init fun _ => true) [⟨.new, 0⟩, ⟨.lock, 0⟩]
    let s' := runState c (State.init fun _ => true) [⟨.new, 0⟩, ⟨.lock, 0⟩, ⟨.failfrom 1, 0⟩]
    (run c s ([.mutView, .ro, .readView, .unlock, .na, .rw, .resize].filterMap (tokOf 0 15))).map (·.1) =
      [.ok, .ok, .ok, .ok, .ok, .ok, .ok] ∧
    (run c s ([Op.ro, .mutView].filterMap (tokOf 0 15))).map (·.1) = [.ok, .segv] ∧
    wellTyped .bytes .rw .locked [.unlock, .lock, .readView] = true ∧
    (run c s' ([Op.unlock, .lock, .readView].filterMap (tokOf 0 15))).map (·.1) = [.ok, .err, .na] := by
  decide

/-! ### OUTSIDE the operation list: the safe method `Zeroize::zeroize(&mut self)`

`impl Zeroize for Protected<A, PM, LM>` (/repo/src/protected.rs, right after `Drop`, which calls
it) is a SAFE, public method available in EVERY type state.  On a non-empty region it makes the
pages read-write (if the internal mode is not `ReadWrite`), zeroes the bytes, and unlocks the pages
(if the internal mode is `Locked`) — through `&mut self`, i.e. WITHOUT consuming the handle and
without changing its type: a `Protected<_, ReadOnly, Locked>` is afterwards still typed
`ReadOnly, Locked`, while its pages are writable and unlocked.

`Model/TypeState.lean` has NO row for this method (its `Op` list is: the views, `index`, `resize`,
`clone`, the five transitions, `useAfter`), the kernel model has no token for it (the harness token
`zeroize` is issued on plain / unlocked read-write slots only, where it coincides with `fill:00`),
and so `marker_is_page_right`, `views_offered_iff_no_segv`, `well_typed_no_segv` do NOT cover
programs that call it.  The counter-model below records this, so that nobody reads
`well_typed_no_segv` as "no safe program can make marker and pages disagree".  What goes wrong after
`zeroize` is not a crash — the pages only become MORE permissive — but the guarantee the marker
advertises (read-only, locked in RAM) silently no longer holds.  It is an observation about the
API, outside the property's operation list; it contradicts none of the theorems above. -/

open DryocVerif.Model.Protected (dryocMprotect dryocMunlock zeroizeV ptr lockedPages) in
/-- the effect of `Zeroize::zeroize(&mut self)` on the live `Protected` region in slot `i`, on the
kernel model: pages read-write (unless the mode already is `ReadWrite`), bytes zeroed, pages
unlocked (if the mode is `Locked`); the slot's TYPE STATE IS LEFT AS IT IS.  (Empty regions, bare
containers and consumed slots: nothing happens — for a bare container the derived `Zeroize` only
zeroes bytes, which is `fill:00`.) -/
def zeroizeEffect (c : Cfg) (s : State) (i : Nat) : State :=
  match s.slots[i]? with
  | none => s
  | some sl =>
    if sl.gone then s else
    match sl.o.st with
    | .plain => s
    | .prot lm pm =>
      if sl.o.v.len = 0 then s else
      let m1 := if pm = .rw then s.m else dryocMprotect c s.m (ptr c sl.o.v) sl.o.v.len .rw
      let m2 := if lm = .locked then dryocMunlock c m1 (ptr c sl.o.v) sl.o.v.len else m1
      setSlot s m2 i { sl with o := ⟨sl.o.st, zeroizeV sl.o.v⟩ }

/-- the state `new; lock; ro` (slot 0: a live `LockedRO` region of 16 bytes) … -/
def zc : Cfg := { P := 4096, isArr := false, n := 16 }
def zs : State := runState zc (State.init fun _ => true) [⟨.new, 0⟩, ⟨.lock, 0⟩, ⟨.ro, 0⟩]

open DryocVerif.Model.Protected (lockedPages) in
/-- **`zeroize` makes marker and pages disagree** (concrete counter-model, by evaluation).
Before: slot 0 is `LockedRO`, a write probe faults, one page is locked — as the marker says.
After `zeroizeEffect`: the slot's type state is STILL `LockedRO` = table state `(ro, locked)`, for
which `allowed .ro .write = false`; yet the write probe answers `ok` and no page is locked; the
state no longer satisfies the invariant `Inv` of C14, i.e. the premise of `marker_is_page_right`
fails (if it held, that theorem would force the write probe to fault). -/
theorem zeroize_breaks_marker :
    (zs.slots.map fun sl => (sl.gone, sl.o.st, sl.o.v.len)) =
      [(false, .prot (convLM .locked) (convPM .ro), 16)] ∧
    ((zeroizeEffect zc zs 0).slots.map fun sl => (sl.gone, sl.o.st, sl.o.v.len)) =
      [(false, .prot (convLM .locked) (convPM .ro), 16)] ∧
    allowed .ro .write = false ∧ permits .ro .locked .bytes .mutView = false ∧
    (opWProbe zc zs 0 0).1 = .segv ∧ (opWProbe zc (zeroizeEffect zc zs 0) 0 0).1 = .ok ∧
    lockedPages zs.m.k = 1 ∧ lockedPages (zeroizeEffect zc zs 0).m.k = 0 ∧
    Inv zc zs ∧ ¬ Inv zc (zeroizeEffect zc zs 0) := by
  refine ⟨by decide, by decide, by decide, by decide, by decide, by decide, by decide, by decide,
    inv_runState (by decide) _ (inv_init _ _), ?_⟩
  intro h
  have hsl : ∃ sl, (zeroizeEffect zc zs 0).slots[0]? = some sl ∧ sl.gone = false ∧
      sl.o.st = .prot (convLM .locked) (convPM .ro) ∧ 0 < sl.o.v.len := by
    refine ⟨_, rfl, ?_⟩; decide
  obtain ⟨sl, hi, hg, hst, hoff⟩ := hsl
  have hseg := (marker_is_page_right zc (by decide) _ h 0 sl hi hg .ro .locked hst 0 hoff).2.2.2.2
  have : (opWProbe zc (zeroizeEffect zc zs 0) 0 0).1 = .segv := hseg (by decide)
  exact absurd this (by decide)

/-- on a read-write, unlocked region `zeroize` does what the harness token of the same name does:
only the bytes change (so nothing is lost by modelling that token as `fill:00`) -/
example :
    let s := runState zc (State.init fun _ => true) [⟨.new, 0⟩, ⟨.fill 0xa5, 0⟩, ⟨.lock, 0⟩, ⟨.unlock, 0⟩]
    ((zeroizeEffect zc s 0).slots.map fun sl => (sl.o.st, sl.o.v.data)) =
      ((step zc s ⟨.fill 0, 0⟩).2.slots.map fun sl => (sl.o.st, sl.o.v.data)) ∧
    Model.Protected.lockedPages (zeroizeEffect zc s 0).m.k = Model.Protected.lockedPages s.m.k := by
  decide

end DryocVerif.Properties.C20
