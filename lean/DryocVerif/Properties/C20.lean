import DryocVerif.Model.TypeState
/-
C20 — safe code cannot request an access the current state forbids.
The theorem is about the `permits` table; that rustc accepts exactly this table is measured
exhaustively on every run (one misuse and one control program per cell).
-/
namespace DryocVerif.Properties.C20
open DryocVerif.Model.TypeState

/-- everything the API offers in a state is allowed by the page rights that state guarantees (C14):
a permitted program never touches a page in a way its protection forbids -/
theorem permits_sound (pm : PM) (lm : LM) (c : Cont) (op : Op) (h : permits pm lm c op = true) :
    allowed pm (access op) = true := by
  cases op <;> cases pm <;> cases lm <;> cases c <;> simp_all [permits, allowed, access]

theorem mut_view_only_rw (pm : PM) (lm : LM) (c : Cont) : permits pm lm c .mutView = true → pm = .rw := by
  cases pm <;> simp [permits]

theorem read_view_not_na (pm : PM) (lm : LM) (c : Cont) : permits pm lm c .readView = true → pm ≠ .na := by
  cases pm <;> simp [permits]

theorem no_access_only_unlocked (pm : PM) (lm : LM) (c : Cont) : permits pm lm c .na = true → lm = .unlocked := by
  cases lm <;> simp [permits]

theorem nothing_after_consumed (pm : PM) (lm : LM) (c : Cont) : permits pm lm c .useAfter = false := rfl

theorem stream_push_only_push (m : Mode) : streamPermits m .push = true → m = .push := by cases m <;> simp [streamPermits]
theorem stream_pull_only_pull (m : Mode) : streamPermits m .pull = true → m = .pull := by cases m <;> simp [streamPermits]

/-- a program = a list of operations on one handle; it is well typed if every step is permitted in the
state reached so far -/
def wellTyped (c : Cont) : PM → LM → List Op → Bool
  | _, _, [] => true
  | pm, lm, op :: rest => permits pm lm c op && wellTyped c (next pm lm op).1 (next pm lm op).2 rest

/-- running a program: `true` iff no step performs an access its current page rights forbid -/
def noFault : PM → LM → List Op → Bool
  | _, _, [] => true
  | pm, lm, op :: rest => allowed pm (access op) && noFault (next pm lm op).1 (next pm lm op).2 rest

/-- **type state ⇒ no crash**, for programs of any length -/
theorem well_typed_no_fault (c : Cont) (pm : PM) (lm : LM) (prog : List Op) :
    wellTyped c pm lm prog = true → noFault pm lm prog = true := by
  induction prog generalizing pm lm with
  | nil => simp [noFault]
  | cons op rest ih =>
    simp only [wellTyped, noFault, Bool.and_eq_true]
    intro ⟨h1, h2⟩
    exact ⟨permits_sound pm lm c op h1, ih _ _ h2⟩

/-- non-vacuity: a non-trivial well-typed program and an ill-typed one -/
example : wellTyped .bytes .rw .locked [.mutView, .ro, .readView, .unlock, .na, .rw, .resize] = true := by decide
example : wellTyped .bytes .rw .locked [.ro, .mutView] = false := by decide

end DryocVerif.Properties.C20
