import DryocVerif.Model.TypeState
import DryocVerif.Model.Protected
import DryocVerif.Proofs.TypeStateBridge
import DryocVerif.Proofs.TypeStateTable
import DryocVerif.Proofs.ProtectedErrExtra
import DryocVerif.Model.ProtectedTouch
import DryocVerif.Proofs.ProtectedTouch
/-
C20 — safe code cannot request an access the current state forbids.

Three layers, kept apart on purpose:
 1. THE TABLE (`Model/TypeState.lean`: `permits pm lm cont op` = "the safe API has this method on
    `Protected<cont, pm, lm>`").  That rustc accepts exactly this table is MEASURED exhaustively on
    every run (one misuse and one control program per cell); it is not a theorem.
    The table has one row per trait impl of protected.rs / bytes_serde.rs whose receiver is a
    `Protected` (`implTable`, `table_covers_impls`).
 2. TABLE-LEVEL THEOREMS (`permits_sound` … `well_typed_no_fault`): every operation the table offers
    performs only accesses that the protect-mode MARKER of the state allows (`allowed`) — EXCEPT
    the row `zeroize` (`zeroize_not_sound`), which is why `permits_sound`, `well_typed_no_fault`
    and `permitted_access_no_segv` exclude it by hypothesis.  These say nothing about pages.
 3. THE BRIDGE to the kernel model of C14 (`permitted_read_no_segv` … `well_typed_no_segv`): in every
    state satisfying the invariant of C14 (hence every reachable one), a region whose type state is
    `(pm, lm)` really has the page rights the marker stands for, so an access FAULTS (`segv` in the
    model = SIGSEGV of the probing child in the harness) IF AND ONLY IF the table's `allowed`
    forbids it.  Hence the table forbids exactly the accesses that would crash, and a well-typed
    program never crashes.
-/
namespace DryocVerif.Properties.C20
open DryocVerif.Model.TypeState

/-! ### table level -/

/-- (table level) every operation the API offers in a state — other than `zeroize` — performs only
accesses that the state's protect-mode marker allows.  This is a statement about the two tables
`permits` and `allowed`; that the marker agrees with the real page rights is `marker_is_page_right`
below.
STATEMENT CHANGED with the enlarged table (rows `asRef`, `asMut`, `indexMut`, `copyFrom`,
`mutArrayView`, `cloneFrom`, `serialize`, `zeroize` added): the hypothesis `hz : op ≠ .zeroize` is
new.  Without it the statement is FALSE (`zeroize_not_sound`): `impl Zeroize for Protected<A, PM, LM>`
exists for every `PM`, `LM` and writes.  Over the original twelve rows the statement is the old one. -/
theorem permits_sound (pm : PM) (lm : LM) (c : Cont) (op : Op) (hz : op ≠ .zeroize)
    (h : permits pm lm c op = true) : allowed pm (access op) = true :=
  Proofs.TypeStateTable.permits_sound pm lm c op hz h

/-- the hypotheses of `permits_sound` are satisfiable, for an old and for a new row -/
example : Op.copyFrom ≠ .zeroize ∧ permits .rw .locked .array .copyFrom = true ∧
    Op.readView ≠ .zeroize ∧ permits .ro .unlocked .bytes .readView = true := by decide

/-- **the documented observation, as a table fact**: the row `zeroize` is offered where the marker
forbids the write it performs.  `Zeroize::zeroize(&mut self)` is the body of `Drop for Protected`
(it makes the pages read-write, zeroes them, unlocks them) and is exposed as a public safe method
through the `Zeroize` trait, for EVERY `PM`, `LM`: so on a `ReadOnly` / `NoAccess` handle the code
OFFERS a write.  (What that does to the pages: `zeroize_breaks_marker` below.) -/
theorem zeroize_not_sound :
    ∃ (pm : PM) (lm : LM) (c : Cont),
      permits pm lm c .zeroize = true ∧ ¬ allowed pm (access .zeroize) = true := by
  obtain ⟨pm, lm, c, h1, h2⟩ := Proofs.TypeStateTable.zeroize_not_sound
  exact ⟨pm, lm, c, h1, by simp [h2]⟩

/-- `zeroize` is offered in all 12 cells, and is unsound exactly in the 8 with `pm ≠ ReadWrite` -/
theorem zeroize_unsound_iff (pm : PM) (lm : LM) (c : Cont) :
    (permits pm lm c .zeroize = true ∧ allowed pm (access .zeroize) = false) ↔ pm ≠ .rw :=
  Proofs.TypeStateTable.zeroize_unsound_iff pm lm c

/-- … and it is the ONLY unsound row -/
theorem unsound_only_zeroize (pm : PM) (lm : LM) (c : Cont) (op : Op)
    (h : permits pm lm c op = true) (hf : allowed pm (access op) = false) : op = .zeroize :=
  Proofs.TypeStateTable.unsound_only_zeroize pm lm c op h hf

example : permits .na .unlocked .array .zeroize = true ∧ allowed .na (access .zeroize) = false := by decide

/-- every offered writing row other than `zeroize` needs `ReadWrite`; every offered reading row
needs `ReadOnly` or `ReadWrite` -/
theorem write_offered_only_rw (pm : PM) (lm : LM) (c : Cont) (op : Op) (hz : op ≠ .zeroize)
    (ha : access op = .write) (h : permits pm lm c op = true) : pm = .rw :=
  Proofs.TypeStateTable.write_offered_only_rw pm lm c op hz ha h

theorem read_offered_not_na (pm : PM) (lm : LM) (c : Cont) (op : Op)
    (ha : access op = .read) (h : permits pm lm c op = true) : pm ≠ .na :=
  Proofs.TypeStateTable.read_offered_not_na pm lm c op ha h

example : Op.mutArrayView ≠ .zeroize ∧ access .mutArrayView = .write ∧
    permits .rw .unlocked .array .mutArrayView = true ∧
    access .serialize = .read ∧ permits .ro .locked .bytes .serialize = true := by decide

/-- completeness of the container-independent view rows: they are offered whenever the marker
allows the access -/
theorem views_complete (pm : PM) (lm : LM) (c : Cont) :
    (allowed pm .read = true →
      permits pm lm c .readView = true ∧ permits pm lm c .index = true ∧ permits pm lm c .asRef = true) ∧
    (allowed pm .write = true →
      permits pm lm c .mutView = true ∧ permits pm lm c .indexMut = true ∧
      permits pm lm c .asMut = true ∧ permits pm lm c .copyFrom = true) :=
  Proofs.TypeStateTable.views_complete pm lm c

/-- `Serialize` (bytes_serde.rs) exists in exactly three cells: `Locked<HeapByteArray<N>>`,
`LockedBytes = Locked<HeapBytes>`, `LockedRO<HeapBytes>` -/
theorem serialize_cells (pm : PM) (lm : LM) (c : Cont) :
    permits pm lm c .serialize = true ↔
      (c, pm, lm) ∈ [(Cont.array, PM.rw, LM.locked), (.bytes, .rw, .locked), (.bytes, .ro, .locked)] :=
  Proofs.TypeStateTable.serialize_cells pm lm c

theorem mut_array_view_iff (pm : PM) (lm : LM) (c : Cont) :
    permits pm lm c .mutArrayView = true ↔ c = .array ∧ pm = .rw :=
  Proofs.TypeStateTable.mut_array_view_iff pm lm c

theorem clone_from_eq_clone (pm : PM) (lm : LM) (c : Cont) :
    permits pm lm c .cloneFrom = permits pm lm c .clone := rfl

/-- **documentation by proof**: `implTable` (`Model/TypeState.lean`) lists every trait impl of
protected.rs / bytes_serde.rs whose receiver is a `Protected<A, PM, LM>`, each with its row; every
row of the table occurs in that list.
Bytes-reaching code WITHOUT a row (none of it operates on an existing handle in a type state, or it
does not touch the region's bytes):
 * constructors — `NewLocked::{new_locked, new_readonly_locked, gen_locked, gen_readonly_locked}`,
   `NewLockedFromSlice::{from_slice_into_locked, from_slice_into_readonly_locked}` (both impls),
   `Lockable::mlock` for `HeapBytes` / `HeapByteArray<N>`, `StackByteArray::{mlock,
   mprotect_readonly}`, `Default for Locked<A>`, `NewBytes for Locked<HeapBytes>` /
   `Locked<HeapByteArray<N>>`, `NewByteArray<N> for Locked<HeapByteArray<N>>` (`gen` writes through
   `as_mut_slice`), `Deserialize for LockedBytes` / `Locked<HeapByteArray<N>>` (the latter writes
   `arr[idx] = elem` through `DerefMut` on a fresh `Locked` region = row `indexMut` in cell
   `(array, rw, locked)`): they CREATE a region in state `(rw, locked)` (then possibly `ro`) and
   write it while it is `ReadWrite`;
 * `Bytes::len` / `Bytes::is_empty` on `Protected<A, ReadOnly | ReadWrite, LM>`: read the length
   field of the inner `Vec`, not the region (same cells as `readView`);
 * there is NO `AsRef<[u8; N]>` and NO `Index`/`IndexMut` impl for `Protected` itself (only for the
   bare containers); indexing goes through `Deref` / `DerefMut` = rows `index` / `indexMut`. -/
theorem table_covers_impls :
    (∀ op : Op, (implTable.any fun p => p.2 == op) = true) ∧
    implTable.length = 36 ∧ Proofs.TypeStateTable.allOps.length = 20 ∧
    (∀ op : Op, op ∈ Proofs.TypeStateTable.allOps) :=
  ⟨Proofs.TypeStateTable.table_covers_impls, Proofs.TypeStateTable.table_covers_impls_counts.1,
   Proofs.TypeStateTable.table_covers_impls_counts.2.1, Proofs.TypeStateTable.allOps_complete⟩

/-- the whole table by evaluation: in how many of the 12 cells each of the 20 rows (order of
`allOps`) is offered -/
theorem cell_counts :
    let cells : List (PM × LM × Cont) :=
      [.rw, .ro, .na].flatMap fun pm => [LM.locked, .unlocked].flatMap fun lm => [Cont.bytes, .array].map fun c => (pm, lm, c)
    Proofs.TypeStateTable.allOps.map (fun op => (cells.filter fun x => permits x.1 x.2.1 x.2.2 op).length) =
      [8, 4, 4, 8, 2, 6, 6, 12, 12, 12, 6, 0, 8, 4, 4, 4, 2, 6, 3, 12] :=
  Proofs.TypeStateTable.cell_counts

theorem mut_view_only_rw (pm : PM) (lm : LM) (c : Cont) : permits pm lm c .mutView = true → pm = .rw := by
  cases pm <;> simp [permits]

theorem read_view_not_na (pm : PM) (lm : LM) (c : Cont) : permits pm lm c .readView = true → pm ≠ .na := by
  cases pm <;> simp [permits]

theorem no_access_only_unlocked (pm : PM) (lm : LM) (c : Cont) : permits pm lm c .na = true → lm = .unlocked := by
  cases lm <;> simp [permits]

/-- `useAfter` is a PSEUDO-operation of the table ("use of a handle after a transition consumed
it"); the table has `false` in that row for every state, by definition.  The theorem records that
definition and nothing more: that such a program is in fact rejected (E0382, use of moved value) is
part of the measurement on rustc, not of this theorem. -/
theorem nothing_after_consumed (pm : PM) (lm : LM) (c : Cont) : permits pm lm c .useAfter = false := rfl

theorem stream_push_only_push (m : Mode) : streamPermits m .push = true → m = .push := by cases m <;> simp [streamPermits]
theorem stream_pull_only_pull (m : Mode) : streamPermits m .pull = true → m = .pull := by cases m <;> simp [streamPermits]

/-- a program = a list of operations on one handle; it is well typed if every step is permitted in the
state reached so far -/
def wellTyped (c : Cont) : PM → LM → List Op → Bool
  | _, _, [] => true
  | pm, lm, op :: rest => permits pm lm c op && wellTyped c (next pm lm op).1 (next pm lm op).2 rest

/-- running a program IN THE TABLE WORLD: `true` iff no step performs an access that the protect-mode
marker of the current table state forbids (no pages involved; see `well_typed_no_segv` for pages) -/
def noFault : PM → LM → List Op → Bool
  | _, _, [] => true
  | pm, lm, op :: rest => allowed pm (access op) && noFault (next pm lm op).1 (next pm lm op).2 rest

/-- (table level) a well-typed program of any length that does not call `zeroize` never performs an
access its current marker forbids.
STATEMENT CHANGED with the enlarged table: hypothesis `hz : .zeroize ∉ prog` is new (the row
`zeroize` is offered everywhere and writes; with it the statement is false, see the example below).
Over programs of the original twelve rows the statement is the old one. -/
theorem well_typed_no_fault (c : Cont) (pm : PM) (lm : LM) (prog : List Op) (hz : Op.zeroize ∉ prog) :
    wellTyped c pm lm prog = true → noFault pm lm prog = true := by
  induction prog generalizing pm lm with
  | nil => simp [noFault]
  | cons op rest ih =>
    simp only [wellTyped, noFault, Bool.and_eq_true]
    intro ⟨h1, h2⟩
    simp only [List.mem_cons, not_or] at hz
    exact ⟨permits_sound pm lm c op (fun h => hz.1 h.symm) h1, ih _ _ hz.2 h2⟩

/-- the hypothesis is satisfiable, and necessary: `[zeroize]` is well typed on a read-only handle
and is a fault of the table semantics -/
example : Op.zeroize ∉ [Op.mutView, .ro, .readView, .unlock, .na, .rw, .resize] := by decide
example : wellTyped .bytes .ro .locked [.zeroize] = true ∧ noFault .ro .locked [.zeroize] = false := by decide

/-- non-vacuity: a non-trivial well-typed program and an ill-typed one -/
example : wellTyped .bytes .rw .locked [.mutView, .ro, .readView, .unlock, .na, .rw, .resize] = true := by decide
example : wellTyped .bytes .rw .locked [.ro, .mutView] = false := by decide
example : wellTyped .array .rw .locked
    [.asMut, .indexMut, .copyFrom, .mutArrayView, .serialize, .ro, .asRef, .arrayView, .unlock, .cloneFrom] = true ∧
    wellTyped .array .rw .locked [.ro, .serialize] = false ∧ wellTyped .bytes .rw .locked [.ro, .serialize] = true ∧
    wellTyped .array .rw .locked [.cloneFrom] = false ∧ wellTyped .bytes .rw .unlocked [.mutArrayView] = false := by decide

/-- non-vacuity of `noFault`: it is not constantly `true` — reading a no-access region, or writing
after `ro`, is a fault of the table semantics -/
example : noFault .na .unlocked [.readView] = false ∧ noFault .rw .locked [.ro, .mutView] = false ∧
    noFault .rw .locked [.ro, .readView] = true := by decide

/-! ### the bridge to the kernel model of C14 -/

open DryocVerif DryocVerif.Proofs.TypeStateBridge
open DryocVerif.Model.Protected (Cfg State Slot Tok Res St opRProbe opWProbe step run runState resetRel setSlot)
open DryocVerif.Proofs.Protected (Inv inv_runState inv_init NoProtZeroize)

/-- the translation of the markers is one-to-one and onto (so "`conv⁻¹`" makes sense: every kernel
type state `.prot lm' pm'` is `stOf pm lm` for exactly one table state) -/
theorem conv_bijective :
    ((∀ a b, convPM a = convPM b → a = b) ∧ ∀ q, ∃ a, convPM a = q) ∧
    ((∀ a b, convLM a = convLM b → a = b) ∧ ∀ q, ∃ a, convLM a = q) :=
  ⟨convPM_bij, convLM_bij⟩

/-- **the marker is the page right**: in a state satisfying the invariant of C14, for a live region
whose type state is the table state `(pm, lm)`, a read (a write) at ANY byte succeeds if and only if
the table's `allowed pm .read` (`allowed pm .write`) holds, and faults otherwise. -/
theorem marker_is_page_right (c : Cfg) (hP : 0 < c.P) (s : State) (h : Inv c s) (i : Nat) (sl : Slot)
    (hi : s.slots[i]? = some sl) (hg : sl.gone = false) (pm : PM) (lm : LM)
    (hst : sl.o.st = .prot (convLM lm) (convPM pm)) (off : Nat) (hoff : off < sl.o.v.len) :
    ((opRProbe c s i off).1 = .ok ↔ allowed pm .read = true) ∧
    ((opRProbe c s i off).1 = .segv ↔ allowed pm .read = false) ∧
    ((opWProbe c s i off).1 = .ok ↔ allowed pm .write = true) ∧
    ((opWProbe c s i off).1 = .segv ↔ allowed pm .write = false) :=
  ⟨rprobe_ok_iff hP h hi hg hst hoff, rprobe_segv_iff hP h hi hg hst hoff,
   wprobe_ok_iff hP h hi hg hst hoff, wprobe_segv_iff hP h hi hg hst hoff⟩

/-- if the API offers `as_slice()` (`Bytes`) in the state of a live region, reading any of its bytes
does not fault -/
theorem permitted_read_no_segv (c : Cfg) (hP : 0 < c.P) (s : State) (h : Inv c s) (i : Nat) (sl : Slot)
    (hi : s.slots[i]? = some sl) (hg : sl.gone = false) (pm : PM) (lm : LM) (ct : Cont)
    (hst : sl.o.st = .prot (convLM lm) (convPM pm)) (hperm : permits pm lm ct .readView = true)
    (off : Nat) (hoff : off < sl.o.v.len) : (opRProbe c s i off).1 = .ok :=
  (rprobe_ok_iff hP h hi hg hst hoff).mpr (permits_sound pm lm ct .readView (by decide) hperm)

/-- if the API offers `as_mut_slice()` (`MutBytes`) in the state of a live region, writing any of its
bytes does not fault -/
theorem permitted_write_no_segv (c : Cfg) (hP : 0 < c.P) (s : State) (h : Inv c s) (i : Nat) (sl : Slot)
    (hi : s.slots[i]? = some sl) (hg : sl.gone = false) (pm : PM) (lm : LM) (ct : Cont)
    (hst : sl.o.st = .prot (convLM lm) (convPM pm)) (hperm : permits pm lm ct .mutView = true)
    (off : Nat) (hoff : off < sl.o.v.len) : (opWProbe c s i off).1 = .ok :=
  (wprobe_ok_iff hP h hi hg hst hoff).mpr (permits_sound pm lm ct .mutView (by decide) hperm)

/-- the same for EVERY operation of the table other than `zeroize`, by the access it performs
(`index`, `as_array`, `clone`, `as_ref`, `clone_from`, `serialize` read; `resize`, `as_mut`,
`deref_mut`, `copy_from_slice`, `as_mut_array` write).
STATEMENT CHANGED with the enlarged table: hypothesis `hz : op ≠ .zeroize` is new (for `zeroize` on
a read-only region the conclusion "a plain write probe answers `ok`" is false — the method changes
the page rights first; see `zeroize_breaks_marker`). -/
theorem permitted_access_no_segv (c : Cfg) (hP : 0 < c.P) (s : State) (h : Inv c s) (i : Nat) (sl : Slot)
    (hi : s.slots[i]? = some sl) (hg : sl.gone = false) (pm : PM) (lm : LM) (ct : Cont)
    (hst : sl.o.st = .prot (convLM lm) (convPM pm)) (op : Op) (hz : op ≠ .zeroize)
    (hperm : permits pm lm ct op = true)
    (off : Nat) (hoff : off < sl.o.v.len) :
    (access op = .read → (opRProbe c s i off).1 = .ok) ∧
    (access op = .write → (opWProbe c s i off).1 = .ok) := by
  have hal := permits_sound pm lm ct op hz hperm
  refine ⟨fun ha => ?_, fun ha => ?_⟩
  · rw [ha] at hal; exact (rprobe_ok_iff hP h hi hg hst hoff).mpr hal
  · rw [ha] at hal; exact (wprobe_ok_iff hP h hi hg hst hoff).mpr hal

/-- tightness, read side: where the API does NOT offer `as_slice()` — exactly the no-access states —
a read of any byte does fault: the missing impl forbids nothing harmless -/
theorem forbidden_read_segv (c : Cfg) (hP : 0 < c.P) (s : State) (h : Inv c s) (i : Nat) (sl : Slot)
    (hi : s.slots[i]? = some sl) (hg : sl.gone = false) (pm : PM) (lm : LM) (ct : Cont)
    (hst : sl.o.st = .prot (convLM lm) (convPM pm)) (hperm : permits pm lm ct .readView = false)
    (off : Nat) (hoff : off < sl.o.v.len) : pm = .na ∧ (opRProbe c s i off).1 = .segv := by
  have hna : pm = .na := by cases pm <;> simp_all [permits]
  refine ⟨hna, (rprobe_segv_iff hP h hi hg hst hoff).mpr ?_⟩
  rw [hna]; rfl

/-- tightness, write side: where the API does NOT offer `as_mut_slice()` — exactly the states with
`pm ≠ ReadWrite` — a write to any byte does fault -/
theorem forbidden_write_segv (c : Cfg) (hP : 0 < c.P) (s : State) (h : Inv c s) (i : Nat) (sl : Slot)
    (hi : s.slots[i]? = some sl) (hg : sl.gone = false) (pm : PM) (lm : LM) (ct : Cont)
    (hst : sl.o.st = .prot (convLM lm) (convPM pm)) (hperm : permits pm lm ct .mutView = false)
    (off : Nat) (hoff : off < sl.o.v.len) : pm ≠ .rw ∧ (opWProbe c s i off).1 = .segv := by
  have hne : pm ≠ .rw := by cases pm <;> simp_all [permits]
  refine ⟨hne, (wprobe_segv_iff hP h hi hg hst hoff).mpr ?_⟩
  cases pm <;> simp_all [allowed]

/-- **the table forbids exactly the accesses that would fault**: `as_slice()` is offered iff a read
succeeds, `as_mut_slice()` is offered iff a write succeeds -/
theorem views_offered_iff_no_segv (c : Cfg) (hP : 0 < c.P) (s : State) (h : Inv c s) (i : Nat) (sl : Slot)
    (hi : s.slots[i]? = some sl) (hg : sl.gone = false) (pm : PM) (lm : LM) (ct : Cont)
    (hst : sl.o.st = .prot (convLM lm) (convPM pm)) (off : Nat) (hoff : off < sl.o.v.len) :
    (permits pm lm ct .readView = true ↔ (opRProbe c s i off).1 = .ok) ∧
    (permits pm lm ct .mutView = true ↔ (opWProbe c s i off).1 = .ok) := by
  rw [rprobe_ok_iff hP h hi hg hst hoff, wprobe_ok_iff hP h hi hg hst hoff]
  constructor <;> cases pm <;> simp [permits, allowed]

/-- non-vacuity witness for the bridge (hypotheses satisfiable, both outcomes occur): slot 0 is a
`LockedRO` region = table state `(ro, locked)`; reading is offered and succeeds, writing is not
offered and faults -/
example :
    let c : Cfg := { P := 4096, isArr := false, n := 16 }
    let s := runState c (State.init fun _ => true) [⟨.new, 0⟩, ⟨.lock, 0⟩, ⟨.ro, 0⟩]
    (∃ sl, s.slots[0]? = some sl ∧ sl.gone = false ∧ sl.o.st = .prot (convLM .locked) (convPM .ro) ∧
      15 < sl.o.v.len) ∧
    permits .ro .locked .bytes .readView = true ∧ (opRProbe c s 0 15).1 = .ok ∧
    permits .ro .locked .bytes .mutView = false ∧ (opWProbe c s 0 15).1 = .segv := by
  refine ⟨⟨_, rfl, ?_⟩, ?_⟩ <;> decide

/-! the same in every reachable state (`step` resets the release log and runs the probe).
STATEMENTS CHANGED (`…_reachable`): hypothesis `hz` — the history contains no `zeroize` of a non-empty `Protected`
region other than `Unlocked` read-write (`Zeroize::zeroize(&mut self)` is now a token of the kernel model with its real
effect; it is the one safe call that makes marker and pages disagree, see the end of this file). -/

/-- (hypothesis `hz : op ≠ .zeroize` new, as in `permitted_access_no_segv`) -/
theorem permitted_access_no_segv_reachable (c : Cfg) (hP : 0 < c.P) (oracle : Nat → Model.Protected.LockAns) (toks : List Tok)
    (hz : NoProtZeroize c (State.init oracle) toks) (i : Nat) (sl : Slot) (hi : (runState c (State.init oracle) toks).slots[i]? = some sl)
    (hg : sl.gone = false) (pm : PM) (lm : LM) (ct : Cont)
    (hst : sl.o.st = .prot (convLM lm) (convPM pm)) (op : Op) (hzo : op ≠ .zeroize)
    (hperm : permits pm lm ct op = true)
    (off : Nat) (hoff : off < sl.o.v.len) :
    (access op = .read → (step c (runState c (State.init oracle) toks) ⟨.rprobe off, i⟩).1 = .ok) ∧
    (access op = .write → (step c (runState c (State.init oracle) toks) ⟨.wprobe off, i⟩).1 = .ok) :=
  permitted_access_no_segv c hP (resetRel (runState c (State.init oracle) toks))
    (inv_runState hP toks (inv_init c oracle) hz).resetRel i sl hi hg pm lm ct hst op hzo hperm off hoff

theorem forbidden_access_segv_reachable (c : Cfg) (hP : 0 < c.P) (oracle : Nat → Model.Protected.LockAns) (toks : List Tok)
    (hz : NoProtZeroize c (State.init oracle) toks) (i : Nat) (sl : Slot) (hi : (runState c (State.init oracle) toks).slots[i]? = some sl)
    (hg : sl.gone = false) (pm : PM) (lm : LM) (ct : Cont)
    (hst : sl.o.st = .prot (convLM lm) (convPM pm)) (off : Nat) (hoff : off < sl.o.v.len) :
    (permits pm lm ct .readView = false →
      (step c (runState c (State.init oracle) toks) ⟨.rprobe off, i⟩).1 = .segv) ∧
    (permits pm lm ct .mutView = false →
      (step c (runState c (State.init oracle) toks) ⟨.wprobe off, i⟩).1 = .segv) :=
  ⟨fun hp => (forbidden_read_segv c hP (resetRel (runState c (State.init oracle) toks))
      (inv_runState hP toks (inv_init c oracle) hz).resetRel i sl hi hg pm lm ct hst hp off hoff).2,
   fun hp => (forbidden_write_segv c hP (resetRel (runState c (State.init oracle) toks))
      (inv_runState hP toks (inv_init c oracle) hz).resetRel i sl hi hg pm lm ct hst hp off hoff).2⟩

/-! ### the transitions of the table are the transitions of the kernel model -/

/-- For the five type-state transitions: if the table offers the transition in state `(pm, lm)`, the
harness token of the same name answers `ok` and the slot is then in the table's successor state
`next pm lm op` with the same container (and some runtime record `rc'`; that it is the one of the successor
state is `C14.rec_tracks_type`) — or, for `lock` only, `err` and the slot is consumed; if
the table does NOT offer it (`lock`, `na` on a locked region) the model answers `n/a` and nothing
changes.  (No invariant needed.)  STATEMENT CHANGED: the region now carries a runtime record (`∃ rc'`).
NOTE on `permits … .lock` for `pm = NoAccess`: the table offers the transition (`impl Lock for Protected<A, PM,
Unlocked>` is generic in `PM`) and its successor would be `(NoAccess, Locked)`, but on a NON-EMPTY region the kernel
model never gets there: `mlock(2)` cannot populate `PROT_NONE` pages, so the `err` alternative above is the one that
happens, whatever the oracle answers — `lock_na_errs` below. -/
theorem transitions_follow_table (c : Cfg) (s : State) (i : Nat) (sl : Slot)
    (hi : s.slots[i]? = some sl) (hg : sl.gone = false) (pm : PM) (lm : LM) (ct : Cont)
    (hst : sl.o.st = .prot (convLM lm) (convPM pm)) (op : Op) (k : Model.Protected.Op)
    (hk : (op = .lock ∧ k = .lock) ∨ (op = .unlock ∧ k = .unlock) ∨ (op = .ro ∧ k = .ro) ∨
      (op = .rw ∧ k = .rw) ∨ (op = .na ∧ k = .na)) :
    (permits pm lm ct op = true →
      ∃ m' rc', step c s ⟨k, i⟩ = (.ok, setSlot (resetRel s) m' i
          { sl with o := ⟨.prot (convLM (next pm lm op).2) (convPM (next pm lm op).1), sl.o.v, rc'⟩ }) ∨
        (op = .lock ∧ step c s ⟨k, i⟩ = (.err, setSlot (resetRel s) m' i { sl with gone := true }))) ∧
    (permits pm lm ct op = false → step c s ⟨k, i⟩ = (.na, resetRel s)) :=
  ⟨trans_live hi hg ct hst op k hk, trans_forbidden_na hi hg ct hst op k hk⟩

/-- **`lock` of a non-empty `NoAccess` region always answers `err`** (state satisfying the invariant of C14, ANY
oracle): the state `(NoAccess, Locked)` which the table's `next` names is unreachable in the kernel model for a
non-empty region. -/
theorem lock_na_errs (c : Cfg) (hP : 0 < c.P) (s : State) (h : Inv c s) (i : Nat) (sl : Slot)
    (hi : s.slots[i]? = some sl) (hg : sl.gone = false) (hl : 0 < sl.o.v.len)
    (hst : sl.o.st = .prot .unlocked .na) : (step c s ⟨.lock, i⟩).1 = .err :=
  DryocVerif.Proofs.Protected.lock_na_errs hP h hi hg hl hst

/-- non-vacuity witness (`lock_na_errs`): `new; lock; unlock; na` gives a live non-empty `NoAccess` region; `lock`
answers `err` with a granting oracle -/
example :
    let c : Cfg := { P := 4096, isArr := false, n := 16 }
    let s := runState c (Model.Protected.State.init fun _ => true) [⟨.new, 0⟩, ⟨.lock, 0⟩, ⟨.unlock, 0⟩, ⟨.na, 0⟩]
    (∃ sl, s.slots[0]? = some sl ∧ sl.gone = false ∧ 0 < sl.o.v.len ∧ sl.o.st = .prot .unlocked .na) ∧
    (step c s ⟨.lock, 0⟩).1 = .err := by
  refine ⟨⟨_, rfl, ?_⟩, ?_⟩ <;> decide

/-- **the real operations behind the table's rows do not fault either** (bridge to `C14.step_no_segv`): the
theorems of this file replace `clone`, `resize`, `copyFrom`, … by a probe at one byte; the harness tokens that run
the REAL operation — `clone`, `clonefrom`, `resize`, `fill`, `zeroize`, `drop`, the five transitions, the
constructors — perform only byte accesses that land on pages allowing them, in every state satisfying the
invariant of C14 (`stepTouchesOk`: `Model/ProtectedTouch.lean`).  For `zeroize` this is not a contradiction with
`zeroize_not_sound`: the method first makes the pages writable. -/
theorem real_ops_no_segv (c : Cfg) (hP : 0 < c.P) (s : State) (h : Inv c s) (t : Tok)
    (hnp : Model.Protected.isProbe t.op = false) : Model.Protected.stepTouchesOk c s t = true :=
  DryocVerif.Proofs.Protected.touches_step hP h t hnp

/-! ### programs -/

/-- **type state ⇒ no crash, on the kernel model.**  Take any state satisfying the invariant of C14
in which slot `i` is a live region in table state `(pm, lm)` with more than `off` bytes (or is
already consumed).  Run a well-typed program on it, each table operation replaced by its harness
token (`tokOf`: the five transitions by the tokens of the same name — `lock` may be refused or fail,
whatever the oracle says —, every other operation by the access it performs at byte `off`).  Then
NO step answers `segv`.
Statement unchanged over the enlarged table; what it says about the new rows: `asRef`, `cloneFrom`,
`serialize` are read probes, `asMut`, `indexMut`, `copyFrom`, `mutArrayView` write probes; the row
`zeroize` HAS NO TOKEN (`tokOf … .zeroize = none`, like `useAfter`), so a `zeroize` step is simply
absent from the run and the theorem says NOTHING about what `Zeroize::zeroize` does to the pages —
that is `zeroize_breaks_marker` below. -/
theorem well_typed_no_segv (c : Cfg) (hP : 0 < c.P) (ct : Cont) (i off : Nat) (prog : List Op) :
    ∀ (s : State) (pm : PM) (lm : LM), SlotIn c s i off pm lm → wellTyped ct pm lm prog = true →
      ∀ r ∈ run c s (prog.filterMap (tokOf i off)), r.1 ≠ .segv := by
  induction prog with
  | nil => intro s pm lm _ _ r hr; simp [run] at hr
  | cons op rest ih =>
    intro s pm lm hin hw r hr
    simp only [wellTyped, Bool.and_eq_true] at hw
    cases ht : tokOf i off op with
    | none =>
      cases op <;> simp only [tokOf, reduceCtorEq] at ht
      case useAfter => simp [permits] at hw
      case zeroize =>
        -- no token: the step is absent from the run; the table state does not change
        simp only [List.filterMap_cons, tokOf] at hr
        exact ih s pm lm hin hw.2 r hr
    | some t =>
      have hs := step_no_segv hP ct hin op hw.1 t ht
      simp only [List.filterMap_cons, ht, run, List.mem_cons] at hr
      rcases hr with rfl | hr
      · exact hs.1
      · exact ih _ _ _ hs.2 hw.2 r hr

/-- … in particular from every reachable state (the slot may even be consumed already: then every
token answers `n/a`) -/
theorem well_typed_no_segv_reachable (c : Cfg) (hP : 0 < c.P) (oracle : Nat → Model.Protected.LockAns) (toks : List Tok)
    (hz : NoProtZeroize c (State.init oracle) toks) (ct : Cont) (i off : Nat) (sl : Slot) (pm : PM) (lm : LM)
    (hi : (runState c (State.init oracle) toks).slots[i]? = some sl)
    (hst : sl.o.st = .prot (convLM lm) (convPM pm)) (hoff : off < sl.o.v.len)
    (prog : List Op) (hw : wellTyped ct pm lm prog = true) :
    ∀ r ∈ run c (runState c (State.init oracle) toks) (prog.filterMap (tokOf i off)), r.1 ≠ .segv :=
  well_typed_no_segv c hP ct i off prog _ pm lm
    ⟨inv_runState hP toks (inv_init c oracle) hz, sl, hi, Or.inr ⟨hst, hoff⟩⟩ hw

/-- non-vacuity witness (`well_typed_no_segv`): the well-typed program above on a `Locked` 16-byte
region runs without a fault (here even without `n/a`: all `ok`), the ill-typed one — which rustc
rejects — DOES fault at its second step; and with a refusing oracle the `lock` in the middle answers
`err`, after which the handle is gone and nothing faults either -/
example :
    let c : Cfg := { P := 4096, isArr := false, n := 16 }
    let s := runState c (State.init fun _ => true) [⟨.new, 0⟩, ⟨.lock, 0⟩]
    let s' := runState c (State.init fun _ => true) [⟨.new, 0⟩, ⟨.lock, 0⟩, ⟨.failfrom 1, 0⟩]
    (run c s ([.mutView, .ro, .readView, .unlock, .na, .rw, .resize].filterMap (tokOf 0 15))).map (·.1) =
      [.ok, .ok, .ok, .ok, .ok, .ok, .ok] ∧
    (run c s ([Op.ro, .mutView].filterMap (tokOf 0 15))).map (·.1) = [.ok, .segv] ∧
    wellTyped .bytes .rw .locked [.unlock, .lock, .readView] = true ∧
    (run c s' ([Op.unlock, .lock, .readView].filterMap (tokOf 0 15))).map (·.1) = [.ok, .err, .na] := by
  decide

/-! ### the row `zeroize`: the safe method `Zeroize::zeroize(&mut self)`, on the kernel model

`impl Zeroize for Protected<A, PM, LM>` (/repo/src/protected.rs, right after `Drop`, which calls
it) is a SAFE, public method available in EVERY type state.  On a non-empty region it makes the
pages read-write (if the RECORDED mode is not `ReadWrite`), zeroes the bytes, and unlocks the pages
(if the RECORDED mode is `Locked`) — through `&mut self`, i.e. WITHOUT consuming the handle,
without changing its type and without writing the record: a `Protected<_, ReadOnly, Locked>` is
afterwards still typed (and recorded) `ReadOnly, Locked`, while its pages are writable and unlocked.

At the table level this is the row `zeroize` of `Model/TypeState.lean` (offered in all 12 cells,
access = write), and `zeroize_not_sound` / `zeroize_unsound_iff` above say that it is the one row
the marker does not justify.  The kernel model has it as well: the token `zeroize`
(`Model.Protected.opZeroize`, with the effect just described; the harness issues it on plain / unlocked
read-write slots only, where it coincides with `fill:00`: `C14.zeroize_eq_fill_zero`).  It is the one token that
does not preserve the invariant of C14 (`C14.zeroize_preserves_inv_iff`), which is why every
`…_reachable` theorem of C14 / C19 / C20 carries the hypothesis `NoProtZeroize`, and why `tokOf` maps the table
row to no token: `marker_is_page_right`, `views_offered_iff_no_segv`, `well_typed_no_segv` do NOT cover programs that
call it on a protected region.  The counter-model below records this, so that nobody reads
`well_typed_no_segv` as "no safe program can make marker and pages disagree".  What goes wrong after
`zeroize` is not a crash — the pages only become MORE permissive — but the guarantee the marker
advertises (read-only, locked in RAM) silently no longer holds.  It is an observation about the
API, outside the property's operation list; it contradicts none of the theorems above. -/

/-- the effect of `Zeroize::zeroize(&mut self)` on the region in slot `i`, on the kernel model: the state after the
model's token `zeroize` (`Model.Protected.opZeroize`: pages read-write unless the recorded mode already is
`ReadWrite`, bytes zeroed, pages unlocked if the recorded mode is `Locked`; the slot's TYPE STATE and its record
are LEFT AS THEY ARE).  (DEFINITION CHANGED: this used to be a stand-alone definition in this file, written before
the model had the token; it is now the model's own.) -/
def zeroizeEffect (c : Cfg) (s : State) (i : Nat) : State := (Model.Protected.opZeroize c s i).2

/-- the state `new; lock; ro` (slot 0: a live `LockedRO` region of 16 bytes) … -/
def zc : Cfg := { P := 4096, isArr := false, n := 16 }
def zs : State := runState zc (State.init fun _ => true) [⟨.new, 0⟩, ⟨.lock, 0⟩, ⟨.ro, 0⟩]

open DryocVerif.Model.Protected (lockedPages) in
/-- **`zeroize` makes marker and pages disagree** (concrete counter-model, by evaluation).
Before: slot 0 is `LockedRO`, a write probe faults, one page is locked — as the marker says.
After `zeroizeEffect`: the slot's type state is STILL `LockedRO` = table state `(ro, locked)`, for
which `allowed .ro .write = false`; yet the write probe answers `ok` and no page is locked; the
state no longer satisfies the invariant `Inv` of C14, i.e. the premise of `marker_is_page_right`
fails (if it held, that theorem would force the write probe to fault). -/
theorem zeroize_breaks_marker :
    (zs.slots.map fun sl => (sl.gone, sl.o.st, sl.o.v.len)) =
      [(false, .prot (convLM .locked) (convPM .ro), 16)] ∧
    ((zeroizeEffect zc zs 0).slots.map fun sl => (sl.gone, sl.o.st, sl.o.v.len)) =
      [(false, .prot (convLM .locked) (convPM .ro), 16)] ∧
    allowed .ro .write = false ∧ permits .ro .locked .bytes .mutView = false ∧
    (opWProbe zc zs 0 0).1 = .segv ∧ (opWProbe zc (zeroizeEffect zc zs 0) 0 0).1 = .ok ∧
    lockedPages zs.m.k = 1 ∧ lockedPages (zeroizeEffect zc zs 0).m.k = 0 ∧
    Inv zc zs ∧ ¬ Inv zc (zeroizeEffect zc zs 0) := by
  refine ⟨by decide, by decide, by decide, by decide, by decide, by decide, by decide, by decide,
    inv_runState (by decide) _ (inv_init _ _) (by decide), ?_⟩
  intro h
  have hsl : ∃ sl, (zeroizeEffect zc zs 0).slots[0]? = some sl ∧ sl.gone = false ∧
      sl.o.st = .prot (convLM .locked) (convPM .ro) ∧ 0 < sl.o.v.len := by
    refine ⟨_, rfl, ?_⟩; decide
  obtain ⟨sl, hi, hg, hst, hoff⟩ := hsl
  have hseg := (marker_is_page_right zc (by decide) _ h 0 sl hi hg .ro .locked hst 0 hoff).2.2.2.2
  have : (opWProbe zc (zeroizeEffect zc zs 0) 0 0).1 = .segv := hseg (by decide)
  exact absurd this (by decide)

/-- on a read-write, unlocked region `zeroize` does what `fill:00` does: only the bytes change (the general
statement is `C14.zeroize_eq_fill_zero`) -/
example :
    let s := runState zc (State.init fun _ => true) [⟨.new, 0⟩, ⟨.fill 0xa5, 0⟩, ⟨.lock, 0⟩, ⟨.unlock, 0⟩]
    ((zeroizeEffect zc s 0).slots.map fun sl => (sl.o.st, sl.o.v.data)) =
      ((step zc s ⟨.fill 0, 0⟩).2.slots.map fun sl => (sl.o.st, sl.o.v.data)) ∧
    Model.Protected.lockedPages (zeroizeEffect zc s 0).m.k = Model.Protected.lockedPages s.m.k := by
  decide

end DryocVerif.Properties.C20
