import DryocVerif.Model.Curve
import DryocVerif.Model.CurveInst
import DryocVerif.Spec.X25519
import DryocVerif.Spec.Ed25519
import DryocVerif.Proofs.Curve
import DryocVerif.Proofs.GenCurve
/-
C05 — Curve25519 scalar multiplication and the key exchange built on it.

What is proved about dryoc's own code (`Model.Curve`, mirroring
/repo/src/scalarmult_curve25519.rs and /repo/src/classic/crypto_kx.rs):

* `clamp` is RFC 7748's `decodeScalar25519` byte manipulation, is idempotent, keeps the
  length and produces a scalar in `[2^254, 2^255)` that is a multiple of 8;
* `crypto_scalarmult_curve25519` drives the ladder with the clamped scalar *itself*:
  instantiated with the RFC ladder it **is** RFC 7748's X25519 (`scalarmult_eq_x25519`);
* the repaired defect E1 (scalar reduced modulo the group order `L` before the ladder):
  the reduction changes *every* clamped scalar (`clamped_scalar_ge_L`) and the result
  differs from X25519 outside the prime-order subgroup (concrete witnesses);
* `crypto_kx_*_session_keys` refuse exactly the all-zero shared secret, never panic, and
  the two sides derive mirrored keys whenever the two Diffie–Hellman results agree.
-/
namespace DryocVerif.Properties.C05
open DryocVerif DryocVerif.Model.Curve

/-- order of the prime-order subgroup, 2^252 + 27742317777372353535851937790883648493 -/
abbrev L : Nat := Spec.Ed25519.L

theorem L_eq : L = 2 ^ 252 + 27742317777372353535851937790883648493 := by decide

/-! ### 1, 2: the clamp -/

/-- dryoc's `clamp` is the RFC 7748 clamp on scalars of (at most) 32 bytes -/
theorem clamp_eq_spec_of_le (n : Bytes) (h : n.length ≤ 32) :
    Model.Curve.clamp n = Spec.X25519.clamp n :=
  Proofs.Curve.clamp_eq_spec_of_le n h

theorem clamp_eq_spec : ∀ n : Bytes, n.length = 32 → Model.Curve.clamp n = Spec.X25519.clamp n :=
  fun n h => Proofs.Curve.clamp_eq_spec_of_le n (by omega)

/-- on longer inputs (not expressible in Rust, the argument is `&[u8; 32]`) the two
definitions differ: the spec truncates to 32 bytes, the model keeps the length -/
theorem clamp_ne_spec_of_33 :
    Model.Curve.clamp (zeros 33) ≠ Spec.X25519.clamp (zeros 33) :=
  Proofs.Curve.clamp_ne_spec_33

theorem clamp_idem (n : Bytes) : clamp (clamp n) = clamp n := Proofs.Curve.clamp_idem n

theorem clamp_length (n : Bytes) : (clamp n).length = n.length := Proofs.Curve.clamp_length n

/-- bit 254 set, bit 255 clear, low three bits clear -/
theorem clamp_range (n : Bytes) (h : n.length = 32) :
    2 ^ 254 ≤ le (clamp n) ∧ le (clamp n) < 2 ^ 255 ∧ 8 ∣ le (clamp n) :=
  Proofs.Curve.clamp_range n h

/-- the first and the last byte after clamping -/
theorem clamp_bytes (b0 : UInt8) (mid : Bytes) (b31 : UInt8) (h : mid.length = 30) :
    clamp (b0 :: (mid ++ [b31])) = (b0 &&& 248) :: (mid ++ [(b31 &&& 127) ||| 64]) := by
  rw [Proofs.Curve.clamp_cons]
  have h1 : (mid ++ [b31]).take 30 = mid := by
    rw [List.take_append_of_le_length (by omega), List.take_of_length_le (by omega)]
  have h2 : (mid ++ [b31]).drop 30 = [b31] := by
    rw [List.drop_append_of_le_length (by omega), List.drop_of_length_le (by omega)]; rfl
  rw [h1, h2]; rfl

/-! ### 3: the scalar fed to the ladder -/

theorem scalarmult_unfold (P : Prims) (n p : Bytes) : scalarmult P n p = P.ladder (clamp n) p := rfl

/-- RFC 7748 `decodeScalar25519` is the little-endian value of dryoc's clamped scalar -/
theorem decodeScalar_eq (n : Bytes) (h : n.length = 32) :
    Spec.X25519.decodeScalar25519 n = le (clamp n) := by
  rw [Spec.X25519.decodeScalar25519, clamp_eq_spec n h]

/-- dryoc's `crypto_scalarmult_curve25519` (ladder driven by the clamped scalar itself, no
reduction modulo the group order) is RFC 7748's X25519 -/
theorem scalarmult_eq_x25519 (n p : Bytes) (h : n.length = 32) :
    scalarmult specPrims n p = Spec.X25519.x25519 n p := by
  simp only [scalarmult, specPrims, rawLadder, Spec.X25519.x25519, decodeScalar_eq n h]

theorem scalarmultBase_eq (n : Bytes) (h : n.length = 32) :
    scalarmultBase specPrims n = Spec.X25519.x25519Base n := by
  simp only [scalarmultBase, specPrims, rawLadder, Spec.X25519.x25519Base, Spec.X25519.x25519,
    decodeScalar_eq n h]

/-- the same for scalars shorter than 32 bytes (used by the seed key pairs of C13, where
the scalar is a `take 32`) -/
theorem scalarmult_eq_x25519_of_le (n p : Bytes) (h : n.length ≤ 32) :
    scalarmult specPrims n p = Spec.X25519.x25519 n p := by
  simp only [scalarmult, specPrims, rawLadder, Spec.X25519.x25519,
    Spec.X25519.decodeScalar25519, clamp_eq_spec_of_le n h]

theorem scalarmultBase_eq_of_le (n : Bytes) (h : n.length ≤ 32) :
    scalarmultBase specPrims n = Spec.X25519.x25519Base n :=
  scalarmult_eq_x25519_of_le n Spec.X25519.basePoint h

theorem scalarmultBase_eq_scalarmult (P : Prims) (n : Bytes) :
    scalarmultBase P n = scalarmult P n P.base := rfl

/-- clamping twice is harmless: a scalar that is already clamped goes to the ladder as is -/
theorem scalarmult_clamped (P : Prims) (n p : Bytes) :
    scalarmult P (clamp n) p = scalarmult P n p := by
  simp only [scalarmult, clamp_idem]

/-! ### 4: counter-model for the repaired defect E1 -/

/-- the pre-fix code: `Scalar::from_bytes_mod_order(clamp(n))`, i.e. the clamped scalar
reduced modulo the group order, then multiplied -/
def scalarmultReduced (P : Prims) (n p : Bytes) : Bytes :=
  P.ladder (toLE 32 (le (clamp n) % L)) p

/-- every clamped scalar is at least `2^254 > L` -/
theorem clamped_scalar_ge_L (n : Bytes) (h : n.length = 32) : L < le (clamp n) := by
  have := (clamp_range n h).1
  have hL : L < 2 ^ 254 := by decide
  omega

/-- … so the reduction modulo `L` changes the scalar, for every input -/
theorem reduced_scalar_ne (n : Bytes) (h : n.length = 32) : le (clamp n) % L ≠ le (clamp n) := by
  have h1 := clamped_scalar_ge_L n h
  have h2 : le (clamp n) % L < L := Nat.mod_lt _ (by decide)
  omega

/-- … and the byte string handed to the ladder is a different one, for every input -/
theorem reduced_scalar_bytes_ne (n : Bytes) (h : n.length = 32) :
    toLE 32 (le (clamp n) % L) ≠ clamp n := by
  intro he
  have := congrArg le he
  rw [Proofs.Curve.le_toLE] at this
  have h1 := clamped_scalar_ge_L n h
  have h2 : le (clamp n) % L < L := Nat.mod_lt _ (by decide)
  have h3 := Nat.mod_le (le (clamp n) % L) (256 ^ 32)
  omega

/-- the reduction does not even preserve divisibility by the cofactor: for the all-zero
secret key the reduced scalar is odd -/
theorem reduced_scalar_odd : (le (clamp (zeros 32)) % L) % 2 = 1 := by decide

/-- Witness 1: u = 1 has order 4.  X25519 multiplies by a multiple of 8 and yields the
all-zero output (which `crypto_kx` then refuses); the reduced-scalar variant returns the
low-order point itself. -/
theorem reduced_ne_x25519_low_order :
    Spec.X25519.x25519 (zeros 32) (1 :: zeros 31) = zeros 32 ∧
    scalarmultReduced specPrims (zeros 32) (1 :: zeros 31) = 1 :: zeros 31 := by
  set_option maxRecDepth 100000 in decide

/-- Witness 2: u = 2 (a point with a non-trivial small-order component): both results are
non-zero and they differ. -/
theorem reduced_ne_x25519_mixed :
    scalarmultReduced specPrims (zeros 32) (2 :: zeros 31) ≠
      Spec.X25519.x25519 (zeros 32) (2 :: zeros 31) := by
  set_option maxRecDepth 100000 in decide

/-- hence the reduced-scalar function is not X25519, whereas the model is (`scalarmult_eq_x25519`) -/
theorem scalarmultReduced_ne_x25519 :
    ∃ n p : Bytes, n.length = 32 ∧ p.length = 32 ∧
      scalarmultReduced specPrims n p ≠ Spec.X25519.x25519 n p ∧
      scalarmult specPrims n p = Spec.X25519.x25519 n p :=
  ⟨zeros 32, 2 :: zeros 31, by decide, by decide, reduced_ne_x25519_mixed,
    scalarmult_eq_x25519 _ _ (by decide)⟩

/-- on the base point (prime-order subgroup) the two agree for this key, as they must -/
example : scalarmultReduced specPrims (zeros 32) Spec.X25519.basePoint =
    Spec.X25519.x25519Base (zeros 32) := by
  set_option maxRecDepth 100000 in decide

/-! ### 5: the all-zero refusal of `crypto_kx` -/

theorem kxClient_err_iff (P : Prims) (cpk csk spk : Bytes) :
    kxClient P cpk csk spk = .err ↔ scalarmult P csk spk = zeros 32 := by
  by_cases h : scalarmult P csk spk = zeros 32 <;> simp [kxClient, h]

theorem kxServer_err_iff (P : Prims) (spk ssk cpk : Bytes) :
    kxServer P spk ssk cpk = .err ↔ scalarmult P ssk cpk = zeros 32 := by
  by_cases h : scalarmult P ssk cpk = zeros 32 <;> simp [kxServer, h]

theorem kx_refuses_zero (P : Prims) (cpk csk spk : Bytes)
    (h : scalarmult P csk spk = zeros 32) : kxClient P cpk csk spk = .err :=
  (kxClient_err_iff P cpk csk spk).2 h

theorem kx_refuses_zero_server (P : Prims) (spk ssk cpk : Bytes)
    (h : scalarmult P ssk cpk = zeros 32) : kxServer P spk ssk cpk = .err :=
  (kxServer_err_iff P spk ssk cpk).2 h

/-- otherwise the client gets (rx, tx) = the two halves of BLAKE2b-512(q ‖ cpk ‖ spk) -/
theorem kxClient_ok (P : Prims) (cpk csk spk : Bytes) (h : scalarmult P csk spk ≠ zeros 32) :
    kxClient P cpk csk spk = .ok (kx P cpk spk (scalarmult P csk spk)) := by
  simp [kxClient, h]

/-- … and the server the same two halves, swapped -/
theorem kxServer_ok (P : Prims) (spk ssk cpk : Bytes) (h : scalarmult P ssk cpk ≠ zeros 32) :
    kxServer P spk ssk cpk =
      .ok ((kx P cpk spk (scalarmult P ssk cpk)).2, (kx P cpk spk (scalarmult P ssk cpk)).1) := by
  simp [kxServer, h]

theorem kx_never_panics (P : Prims) (a b c : Bytes) :
    kxClient P a b c ≠ .panic ∧ kxServer P a b c ≠ .panic := by
  constructor
  · by_cases h : scalarmult P b c = zeros 32 <;> simp [kxClient, h]
  · by_cases h : scalarmult P b c = zeros 32 <;> simp [kxServer, h]

/-- with the spec instantiation: a low-order peer key (u = 1, order 4) is refused by both sides -/
theorem kx_refuses_low_order (pk : Bytes) :
    kxClient specPrims pk (zeros 32) (1 :: zeros 31) = .err ∧
    kxServer specPrims pk (zeros 32) (1 :: zeros 31) = .err := by
  have h : scalarmult specPrims (zeros 32) (1 :: zeros 31) = zeros 32 := by
    rw [scalarmult_eq_x25519 _ _ (by decide)]; exact reduced_ne_x25519_low_order.1
  exact ⟨kx_refuses_zero _ _ _ _ h, kx_refuses_zero_server _ _ _ _ h⟩

/-! ### 6: the two sides derive mirrored keys -/

/-- If the two Diffie–Hellman computations agree (commutativity of scalar multiplication —
a property of the group, taken as a hypothesis) and the result is not all-zero, then the
client's rx is the server's tx and the client's tx is the server's rx. -/
theorem kx_mirror (P : Prims) (cpk csk spk ssk : Bytes)
    (hdh : scalarmult P csk spk = scalarmult P ssk cpk)
    (hnz : scalarmult P csk spk ≠ zeros 32) :
    ∃ rx tx, kxClient P cpk csk spk = .ok (rx, tx) ∧ kxServer P spk ssk cpk = .ok (tx, rx) := by
  refine ⟨(kx P cpk spk (scalarmult P csk spk)).1, (kx P cpk spk (scalarmult P csk spk)).2, ?_, ?_⟩
  · rw [kxClient_ok P cpk csk spk hnz]
  · rw [kxServer_ok P spk ssk cpk (hdh ▸ hnz), ← hdh]

/-- the same, in terms of the results -/
theorem kx_mirror' (P : Prims) (cpk csk spk ssk : Bytes)
    (hdh : scalarmult P csk spk = scalarmult P ssk cpk) (c s : Bytes × Bytes)
    (hc : kxClient P cpk csk spk = .ok c) (hs : kxServer P spk ssk cpk = .ok s) :
    c.1 = s.2 ∧ c.2 = s.1 := by
  have hnz : scalarmult P csk spk ≠ zeros 32 := by
    intro h; rw [kx_refuses_zero P cpk csk spk h] at hc; cases hc
  rw [kxClient_ok P cpk csk spk hnz] at hc
  rw [kxServer_ok P spk ssk cpk (hdh ▸ hnz), ← hdh] at hs
  cases hc; cases hs; exact ⟨rfl, rfl⟩

/-- both sides fail together -/
theorem kx_err_together (P : Prims) (cpk csk spk ssk : Bytes)
    (hdh : scalarmult P csk spk = scalarmult P ssk cpk) :
    kxClient P cpk csk spk = .err ↔ kxServer P spk ssk cpk = .err := by
  rw [kxClient_err_iff, kxServer_err_iff, hdh]

/-- the session keys are the two halves of one 64-byte BLAKE2b output over q ‖ cpk ‖ spk -/
theorem kx_spec (cpk spk q : Bytes) :
    kx specPrims cpk spk q =
      ((Spec.Blake2b.hash 64 [] (q ++ cpk ++ spk)).take 32,
       (Spec.Blake2b.hash 64 [] (q ++ cpk ++ spk)).drop 32) := rfl

/-! ### 7: `crypto_box_beforenm` -/

theorem beforenm_unfold (P : Prims) (pk sk : Bytes) :
    beforenm P pk sk = P.hsalsa (P.ladder (clamp sk) pk) (zeros 16) := rfl

/-- NaCl's `crypto_box_beforenm`: HSalsa20 of the X25519 shared secret under a zero nonce -/
theorem beforenm_eq_spec (pk sk : Bytes) (h : sk.length = 32) :
    beforenm specPrims pk sk = Spec.Salsa20.hsalsa20 (Spec.X25519.x25519 sk pk) (zeros 16) := by
  rw [beforenm, scalarmult_eq_x25519 sk pk h]; rfl

/-! ### 7': the order-2 point u = 0 is mapped to zero by *every* scalar -/

/-- RFC 7748 ladder on u = 0: the result is 0 whatever the scalar (proved by the loop
invariant `z2 = z3 = 0`, see `Proofs/Curve.lean`) -/
theorem ladder_zero (k : Nat) : Spec.X25519.ladder k 0 = 0 := Proofs.Curve.ladder_zero k

/-- the same for the non-canonical encoding u = p of the same point -/
theorem ladder_p (k : Nat) : Spec.X25519.ladder k Spec.X25519.p = 0 := Proofs.Curve.ladder_p k

/-- the two 32-byte encodings that decode to 0 mod p -/
def zeroPointEncodings : List Bytes := [zeros 32, 0xed :: (List.replicate 30 0xff ++ [0x7f])]

theorem zeroPoint_decode : ∀ u ∈ zeroPointEncodings,
    Spec.X25519.decodeUCoordinate u = 0 ∨ Spec.X25519.decodeUCoordinate u = Spec.X25519.p := by
  decide

/-- dryoc's scalar multiplication of the point u = 0 (either encoding, and with the ignored
top bit set or not — `decodeUCoordinate` masks it) is all-zero for every secret key -/
theorem scalarmult_zero_point (n u : Bytes)
    (hu : Spec.X25519.decodeUCoordinate u = 0 ∨ Spec.X25519.decodeUCoordinate u = Spec.X25519.p) :
    scalarmult specPrims n u = zeros 32 := by
  have : Spec.X25519.ladder (le (clamp n)) (Spec.X25519.decodeUCoordinate u) = 0 := by
    rcases hu with h | h <;> rw [h]
    · exact ladder_zero _
    · exact ladder_p _
  simp only [scalarmult, specPrims, rawLadder, this]; decide

/-- … hence a peer public key encoding u = 0 is refused by `crypto_kx` for every secret key
(not only for the tested ones) -/
theorem kx_refuses_zero_point (pk sk u : Bytes) (hu : u ∈ zeroPointEncodings) :
    kxClient specPrims pk sk u = .err ∧ kxServer specPrims pk sk u = .err :=
  ⟨kx_refuses_zero _ _ _ _ (scalarmult_zero_point sk u (zeroPoint_decode u hu)),
   kx_refuses_zero_server _ _ _ _ (scalarmult_zero_point sk u (zeroPoint_decode u hu))⟩

/-! ### non-vacuity -/

/-- `clamp_range` on the all-ones scalar -/
example : le (clamp (List.replicate 32 255)) = 2 ^ 255 - 8 := by decide

/-- RFC 7748 §5.2 first test vector, through the model -/
example :
    scalarmult specPrims
      [0xa5, 0x46, 0xe3, 0x6b, 0xf0, 0x52, 0x7c, 0x9d, 0x3b, 0x16, 0x15, 0x4b, 0x82, 0x46, 0x5e, 0xdd,
       0x62, 0x14, 0x4c, 0x0a, 0xc1, 0xfc, 0x5a, 0x18, 0x50, 0x6a, 0x22, 0x44, 0xba, 0x44, 0x9a, 0xc4]
      [0xe6, 0xdb, 0x68, 0x67, 0x58, 0x30, 0x30, 0xdb, 0x35, 0x94, 0xc1, 0xa4, 0x24, 0xb1, 0x5f, 0x7c,
       0x72, 0x66, 0x24, 0xec, 0x26, 0xb3, 0x35, 0x3b, 0x10, 0xa9, 0x03, 0xa6, 0xd0, 0xab, 0x1c, 0x4c]
    = [0xc3, 0xda, 0x55, 0x37, 0x9d, 0xe9, 0xc6, 0x90, 0x8e, 0x94, 0xea, 0x4d, 0xf2, 0x8d, 0x08, 0x4f,
       0x32, 0xec, 0xcf, 0x03, 0x49, 0x1c, 0x71, 0xf7, 0x54, 0xb4, 0x07, 0x55, 0x77, 0xa2, 0x85, 0x52] := by
  set_option maxRecDepth 100000 in decide

/-- the hypotheses of `kx_mirror` are satisfiable with the spec instantiation: the DH
results of the secret keys `zeros 32` and `8 :: zeros 31` agree and are non-zero -/
example :
    let csk := zeros 32
    let ssk := 8 :: zeros 31
    let cpk := scalarmultBase specPrims csk
    let spk := scalarmultBase specPrims ssk
    scalarmult specPrims csk spk = scalarmult specPrims ssk cpk ∧
    scalarmult specPrims csk spk ≠ zeros 32 := by
  set_option maxRecDepth 100000 in decide

/-- tie to the source: `scalarmult_curve25519.rs::clamp` as translated by `tools/rs2lean.py` (regenerated on every run)
= the model's clamp on every 32-byte scalar (indeed on every scalar of at most 32 bytes) -/
theorem translated_clamp (n : Bytes) (hn : n.length = 32) : Gen.Curve.clamp n = Model.Curve.clamp n :=
  Proofs.GenCurve.clamp_eq_model n hn

end DryocVerif.Properties.C05
