import DryocVerif.Proofs.GenKx
import DryocVerif.Model.Curve
import DryocVerif.Model.CurveInst
import DryocVerif.Spec.X25519
import DryocVerif.Spec.Ed25519
import DryocVerif.Proofs.Curve
import DryocVerif.Proofs.CurveExtra
import DryocVerif.Proofs.CurveOrder8
import DryocVerif.Proofs.GenCurve
import DryocVerif.Proofs.CurveHonest
import DryocVerif.Proofs.CurveObject
import DryocVerif.Model.ObjectView
/-
C05 — Curve25519 scalar multiplication and the key exchange built on it.

What is proved about dryoc's own code (`Model.Curve`, mirroring
/repo/src/scalarmult_curve25519.rs and /repo/src/classic/crypto_kx.rs):

* `clamp` is RFC 7748's `decodeScalar25519` byte manipulation, is idempotent, keeps the
  length and produces a scalar in `[2^254, 2^255)` that is a multiple of 8;
* `crypto_scalarmult_curve25519`: since the repair of E1 the Rust is ONE call,
  `MontgomeryPoint(*p).mul_clamped(*n)` of curve25519-dalek — clamping and ladder are dalek's code, not
  dryoc's.  The MODEL's `scalarmult P n p := P.ladder (clamp n) p` is *defined* as "the ladder driven by the
  clamped scalar itself", so `scalarmult_eq_x25519` (model with the RFC ladder = RFC 7748's X25519) is a
  statement about the model's definition: it unfolds definitions and uses only `clamp_eq_spec`.  What ties
  the Rust call to it is the DIFFERENTIAL test (`scalarmult` rows of the driver against the crate, including
  low-order, twist and non-canonical points), not a proof;
* the repaired defect E1 (scalar reduced modulo the group order `L` before the ladder):
  the reduction changes *every* clamped scalar (`clamped_scalar_ge_L`) and the result
  differs from X25519 outside the prime-order subgroup (concrete witnesses);
* `crypto_kx_*_session_keys` refuse exactly the all-zero shared secret, never panic (typed `&[u8; 32]`
  arguments: the model has no panic branch), and
  the two sides derive mirrored keys whenever the two Diffie–Hellman results agree;
* the ladder sees the u-coordinate only modulo p and ignores bit 255 (theorems, for every scalar
  and every encoding: `ladder_mod_p`, `scalarmult_noncanonical`, `scalarmult_high_bit`);
* ALL small-order peer keys — u ≡ 0, 1, −1 and the two u-coordinates of order 8 (mod p), in any of
  their encodings — give the all-zero shared secret for EVERY 32-byte secret key and are refused by
  `crypto_kx` (`scalarmult_small_order`, `kx_refuses_low_order`): nothing of the small-order table
  remains merely enumerated.

* a clamped scalar is never a multiple of the group order (`clamped_not_multiple_of_L`, arithmetic only),
  so under the named curve hypothesis `HonestNonzero` the shared secret of two honest key pairs is never
  all-zero and `kx_mirror`'s hypothesis `hnz` is discharged (`kx_mirror_honest`; with `LadderCommutes`
  also `hdh`: `kx_mirror_honest'`).

* the OBJECT API (kx.rs `Session::new_client` / `new_server` and their `_with_defaults` forms, keypair.rs
  `KeyPair::kx_new_client_session` / `kx_new_server_session` / `precalculate`, precalc.rs
  `PrecalcSecretKey::precalculate`) takes `ByteArray<32>` containers.  With containers whose type carries the
  length it IS the classic function (`sessionNewClient_exact`, …).  With `Vec<u8>` / `&[u8]` / `[u8]`
  (`as_array` asserts `len ≥ 32`, types.rs) a container of fewer than 32 bytes PANICS and a longer one is viewed
  through its first 32 bytes: `sessionNewClient_cases`, `sessionNewServer_cases`, `objPrecalculate_cases`
  (section 5').  "never panic" above (`kx_never_panics`) is about the TYPED model only.

CURVE FACTS THAT REMAIN ASSUMED (named hypotheses, no general proof; each evaluated in the kernel on instances).
(1) `EdwardsLadderOK`: for every `k < 2^255`, dalek's `to_montgomery` of the Edwards multiple `[k mod L]B` is the
X25519 ladder of `k` on u = 9 — i.e. `[L]B = O` and the birational map commuting with scalar multiplication, on
the base point.  It implies `BaseEdwardsOK` (the Rust `crypto_scalarmult_curve25519_base` = the model's ladder
shape; `baseEdwardsOK_of_edwardsLadder`) and `BaseReduceOK` (`baseReduceOK_of_edwardsLadder`), and with the
PROVED facts about the Edwards curve (closure of the curve equation under the addition law, completeness, a
compressed point decompresses: `Proofs/CurveEdwards.lean`) also C13's `MapCommutes` (`C13.mapCommutes_of_base`),
so these three are no longer independent assumptions.  Witnesses: k = 1, L, L + 1 (`EdwardsLadderOK`), the secret
keys 0³², ff³² (`BaseEdwardsOK`), ff³² (`BaseReduceOK`).
(2) `HonestNonzero`: the ladder of the ladder on u = 9 is not 0 for scalars that are not multiples of `L` (order of
the base point; x = 0 only at the point of order 2).  Witness: the key pairs 0³², 8 ‖ 0³¹; `ladder L 9 = 0` shows
the restriction is needed.
(3) `LadderCommutes`: `ladder a (ladder b 9) = ladder b (ladder a 9)`.  Witness: the same two keys.
Nothing else about the curve is assumed in this file; (2) and (3) are used only by `kx_mirror_honest*` /
`honest_shared_secret_nonzero` / `kx_honest_not_refused`, (1) only to transfer the `scalarmultBase` theorems
to the Rust base-point function.

Background for (1): the model's
`scalarmultBase` is the Montgomery ladder on the clamped scalar, whereas the Rust
`crypto_scalarmult_curve25519_base` multiplies the Edwards base-point table by the clamped scalar
reduced mod L and maps the result to Montgomery form.  That the two agree is a fact about the curve
(`[L]B = O` and the birational map being a homomorphism); it is checked differentially and on
instances, not proved.  Every theorem below whose statement mentions `scalarmultBase` is a theorem
about the model's shape and transfers to the Rust function only under `BaseEdwardsOK`.
-/
namespace DryocVerif.Properties.C05
open DryocVerif DryocVerif.Model.Curve

/-- order of the prime-order subgroup, 2^252 + 27742317777372353535851937790883648493 -/
abbrev L : Nat := Spec.Ed25519.L

theorem L_eq : L = 2 ^ 252 + 27742317777372353535851937790883648493 := by decide

/-! ### 1, 2: the clamp -/

/-- dryoc's `clamp` is the RFC 7748 clamp on scalars of (at most) 32 bytes -/
theorem clamp_eq_spec_of_le (n : Bytes) (h : n.length ≤ 32) :
    Model.Curve.clamp n = Spec.X25519.clamp n :=
  Proofs.Curve.clamp_eq_spec_of_le n h

theorem clamp_eq_spec : ∀ n : Bytes, n.length = 32 → Model.Curve.clamp n = Spec.X25519.clamp n :=
  fun n h => Proofs.Curve.clamp_eq_spec_of_le n (by omega)

/-- on longer inputs (not expressible in Rust, the argument is `&[u8; 32]`) the two
definitions differ: the spec truncates to 32 bytes, the model keeps the length -/
theorem clamp_ne_spec_of_33 :
    Model.Curve.clamp (zeros 33) ≠ Spec.X25519.clamp (zeros 33) :=
  Proofs.Curve.clamp_ne_spec_33

theorem clamp_idem (n : Bytes) : clamp (clamp n) = clamp n := Proofs.Curve.clamp_idem n

theorem clamp_length (n : Bytes) : (clamp n).length = n.length := Proofs.Curve.clamp_length n

/-- bit 254 set, bit 255 clear, low three bits clear -/
theorem clamp_range (n : Bytes) (h : n.length = 32) :
    2 ^ 254 ≤ le (clamp n) ∧ le (clamp n) < 2 ^ 255 ∧ 8 ∣ le (clamp n) :=
  Proofs.Curve.clamp_range n h

/-- the first and the last byte after clamping -/
theorem clamp_bytes (b0 : UInt8) (mid : Bytes) (b31 : UInt8) (h : mid.length = 30) :
    clamp (b0 :: (mid ++ [b31])) = (b0 &&& 248) :: (mid ++ [(b31 &&& 127) ||| 64]) := by
  rw [Proofs.Curve.clamp_cons]
  have h1 : (mid ++ [b31]).take 30 = mid := by
    rw [List.take_append_of_le_length (by omega), List.take_of_length_le (by omega)]
  have h2 : (mid ++ [b31]).drop 30 = [b31] := by
    rw [List.drop_append_of_le_length (by omega), List.drop_of_length_le (by omega)]; rfl
  rw [h1, h2]; rfl

/-! ### 3: the scalar fed to the ladder -/

theorem scalarmult_unfold (P : Prims) (n p : Bytes) : scalarmult P n p = P.ladder (clamp n) p := rfl

/-- RFC 7748 `decodeScalar25519` is the little-endian value of dryoc's clamped scalar -/
theorem decodeScalar_eq (n : Bytes) (h : n.length = 32) :
    Spec.X25519.decodeScalar25519 n = le (clamp n) := by
  rw [Spec.X25519.decodeScalar25519, clamp_eq_spec n h]

/-- The MODEL of `crypto_scalarmult_curve25519` — by definition the ladder driven by the clamped scalar
itself, with no reduction modulo the group order — instantiated with the RFC ladder, is RFC 7748's X25519.
This is essentially definitional (unfolding plus `clamp_eq_spec`: dryoc's clamp shape = RFC 7748's).
About the Rust: after the E1 fix the function is the single call `MontgomeryPoint(*p).mul_clamped(*n)`
into curve25519-dalek, so neither the clamp nor the ladder it runs is dryoc's code; that this call computes
X25519 is checked DIFFERENTIALLY (driver vs. crate on the `scalarmult` rows), not proved here.  The
theorem's content for the code is: the shape that the fix restored (no `mod L`) is the RFC's, whereas the
pre-fix shape is not (`scalarmultReduced_ne_x25519`). -/
theorem scalarmult_eq_x25519 (n p : Bytes) (h : n.length = 32) :
    scalarmult specPrims n p = Spec.X25519.x25519 n p := by
  simp only [scalarmult, specPrims, rawLadder, Spec.X25519.x25519, decodeScalar_eq n h]

/-- The MODEL's `scalarmultBase` (ladder on the clamped scalar and u = 9) is RFC 7748's
X25519 on the base point.  NB the Rust `crypto_scalarmult_curve25519_base` does not have this
shape (it is `to_montgomery(ED25519_BASEPOINT_TABLE * (clamp n mod L))`): this theorem speaks
about the Rust function only under the hypothesis `BaseEdwardsOK` below
(`scalarmultBase_code_shape`). -/
theorem scalarmultBase_eq (n : Bytes) (h : n.length = 32) :
    scalarmultBase specPrims n = Spec.X25519.x25519Base n := by
  simp only [scalarmultBase, specPrims, rawLadder, Spec.X25519.x25519Base, Spec.X25519.x25519,
    decodeScalar_eq n h]

/-- the same for scalars shorter than 32 bytes (used by the seed key pairs of C13, where
the scalar is a `take 32`) -/
theorem scalarmult_eq_x25519_of_le (n p : Bytes) (h : n.length ≤ 32) :
    scalarmult specPrims n p = Spec.X25519.x25519 n p := by
  simp only [scalarmult, specPrims, rawLadder, Spec.X25519.x25519,
    Spec.X25519.decodeScalar25519, clamp_eq_spec_of_le n h]

/-- as `scalarmultBase_eq`, for scalars of at most 32 bytes; about the model's shape, transfers to
the Rust function only under `BaseEdwardsOK` -/
theorem scalarmultBase_eq_of_le (n : Bytes) (h : n.length ≤ 32) :
    scalarmultBase specPrims n = Spec.X25519.x25519Base n :=
  scalarmult_eq_x25519_of_le n Spec.X25519.basePoint h

/-- in the MODEL the base-point multiplication is the general one applied to `P.base`.  (In the
Rust the two functions are different code paths — Edwards table vs. `mul_clamped` —; their
agreement on u = 9 is `BaseEdwardsOK`.) -/
theorem scalarmultBase_eq_scalarmult (P : Prims) (n : Bytes) :
    scalarmultBase P n = scalarmult P n P.base := rfl

/-- clamping twice is harmless: a scalar that is already clamped goes to the ladder as is -/
theorem scalarmult_clamped (P : Prims) (n p : Bytes) :
    scalarmult P (clamp n) p = scalarmult P n p := by
  simp only [scalarmult, clamp_idem]

/-! ### 4: counter-model for the repaired defect E1 -/

/-- the pre-fix code: `Scalar::from_bytes_mod_order(clamp(n))`, i.e. the clamped scalar
reduced modulo the group order, then multiplied -/
def scalarmultReduced (P : Prims) (n p : Bytes) : Bytes :=
  P.ladder (toLE 32 (le (clamp n) % L)) p

/-- every clamped scalar is at least `2^254 > L` -/
theorem clamped_scalar_ge_L (n : Bytes) (h : n.length = 32) : L < le (clamp n) := by
  have := (clamp_range n h).1
  have hL : L < 2 ^ 254 := by decide
  omega

/-- … so the reduction modulo `L` changes the scalar, for every input -/
theorem reduced_scalar_ne (n : Bytes) (h : n.length = 32) : le (clamp n) % L ≠ le (clamp n) := by
  have h1 := clamped_scalar_ge_L n h
  have h2 : le (clamp n) % L < L := Nat.mod_lt _ (by decide)
  omega

/-- … and the byte string handed to the ladder is a different one, for every input -/
theorem reduced_scalar_bytes_ne (n : Bytes) (h : n.length = 32) :
    toLE 32 (le (clamp n) % L) ≠ clamp n := by
  intro he
  have := congrArg le he
  rw [Proofs.Curve.le_toLE] at this
  have h1 := clamped_scalar_ge_L n h
  have h2 : le (clamp n) % L < L := Nat.mod_lt _ (by decide)
  have h3 := Nat.mod_le (le (clamp n) % L) (256 ^ 32)
  omega

/-- the reduction does not even preserve divisibility by the cofactor: for the all-zero
secret key the reduced scalar is odd -/
theorem reduced_scalar_odd : (le (clamp (zeros 32)) % L) % 2 = 1 := by decide

/-- Witness 1: u = 1 has order 4.  X25519 multiplies by a multiple of 8 and yields the
all-zero output (which `crypto_kx` then refuses); the reduced-scalar variant returns the
low-order point itself. -/
theorem reduced_ne_x25519_low_order :
    Spec.X25519.x25519 (zeros 32) (1 :: zeros 31) = zeros 32 ∧
    scalarmultReduced specPrims (zeros 32) (1 :: zeros 31) = 1 :: zeros 31 := by
  set_option maxRecDepth 100000 in decide

/-- Witness 2: u = 2 (a point with a non-trivial small-order component): both results are
non-zero and they differ. -/
theorem reduced_ne_x25519_mixed :
    scalarmultReduced specPrims (zeros 32) (2 :: zeros 31) ≠
      Spec.X25519.x25519 (zeros 32) (2 :: zeros 31) := by
  set_option maxRecDepth 100000 in decide

/-- hence the reduced-scalar function is not X25519, whereas the model is (`scalarmult_eq_x25519`) -/
theorem scalarmultReduced_ne_x25519 :
    ∃ n p : Bytes, n.length = 32 ∧ p.length = 32 ∧
      scalarmultReduced specPrims n p ≠ Spec.X25519.x25519 n p ∧
      scalarmult specPrims n p = Spec.X25519.x25519 n p :=
  ⟨zeros 32, 2 :: zeros 31, by decide, by decide, reduced_ne_x25519_mixed,
    scalarmult_eq_x25519 _ _ (by decide)⟩

/-- on the base point (prime-order subgroup) the two agree for this key, as they must -/
example : scalarmultReduced specPrims (zeros 32) Spec.X25519.basePoint =
    Spec.X25519.x25519Base (zeros 32) := by
  set_option maxRecDepth 100000 in decide

/-! ### 5: the all-zero refusal of `crypto_kx` -/

theorem kxClient_err_iff (P : Prims) (cpk csk spk : Bytes) :
    kxClient P cpk csk spk = .err ↔ scalarmult P csk spk = zeros 32 := by
  by_cases h : scalarmult P csk spk = zeros 32 <;> simp [kxClient, h]

theorem kxServer_err_iff (P : Prims) (spk ssk cpk : Bytes) :
    kxServer P spk ssk cpk = .err ↔ scalarmult P ssk cpk = zeros 32 := by
  by_cases h : scalarmult P ssk cpk = zeros 32 <;> simp [kxServer, h]

theorem kx_refuses_zero (P : Prims) (cpk csk spk : Bytes)
    (h : scalarmult P csk spk = zeros 32) : kxClient P cpk csk spk = .err :=
  (kxClient_err_iff P cpk csk spk).2 h

theorem kx_refuses_zero_server (P : Prims) (spk ssk cpk : Bytes)
    (h : scalarmult P ssk cpk = zeros 32) : kxServer P spk ssk cpk = .err :=
  (kxServer_err_iff P spk ssk cpk).2 h

/-- otherwise the client gets (rx, tx) = the two halves of BLAKE2b-512(q ‖ cpk ‖ spk) -/
theorem kxClient_ok (P : Prims) (cpk csk spk : Bytes) (h : scalarmult P csk spk ≠ zeros 32) :
    kxClient P cpk csk spk = .ok (kx P cpk spk (scalarmult P csk spk)) := by
  simp [kxClient, h]

/-- … and the server the same two halves, swapped -/
theorem kxServer_ok (P : Prims) (spk ssk cpk : Bytes) (h : scalarmult P ssk cpk ≠ zeros 32) :
    kxServer P spk ssk cpk =
      .ok ((kx P cpk spk (scalarmult P ssk cpk)).2, (kx P cpk spk (scalarmult P ssk cpk)).1) := by
  simp [kxServer, h]

/-- Corollary of totalisation: the definitions `kxClient` / `kxServer` have no panic branch in reach (they model
`crypto_kx_*_session_keys`, whose arguments are `&[u8; 32]`: the TYPED model).  It says nothing about the object
API on `Vec<u8>` containers; the code-shaped statements that carry content there are `sessionNewClient_cases` /
`sessionNewServer_cases` below (panic iff one of the three containers is shorter than 32 bytes). -/
theorem kx_never_panics (P : Prims) (a b c : Bytes) :
    kxClient P a b c ≠ .panic ∧ kxServer P a b c ≠ .panic := by
  constructor
  · by_cases h : scalarmult P b c = zeros 32 <;> simp [kxClient, h]
  · by_cases h : scalarmult P b c = zeros 32 <;> simp [kxServer, h]

/-! ### 5': the object API on containers whose length is not in their type

`Session::new_client(&client_keypair, &server_public_key)` (kx.rs; also `new_client_with_defaults` and
`KeyPair::kx_new_client_session`, which only forward) calls `crypto_kx_client_session_keys` on
`client_keypair.public_key.as_array()`, `client_keypair.secret_key.as_array()`, `server_public_key.as_array()`.
For `Vec<u8>`, `&[u8]`, `[u8]` (`impl ByteArray<LENGTH>`, types.rs) `as_array` is
`assert!(self.len() >= LENGTH)` followed by a view of the first `LENGTH` bytes. -/

open Model.ObjectView in
/-- `Session::new_client` / `new_client_with_defaults` / `KeyPair::kx_new_client_session`: PANICS iff one of the
three containers holds fewer than 32 bytes (e.g. a 31-byte `Vec` peer key); otherwise it is
`crypto_kx_client_session_keys` on the first 32 bytes of each (a 33-byte `Vec` peer key is truncated) -/
theorem sessionNewClient_cases (P : Prims) (cpk csk spk : Bytes) :
    (sessionNewClient P cpk csk spk = .panic ↔ cpk.length < 32 ∨ csk.length < 32 ∨ spk.length < 32) ∧
    (32 ≤ cpk.length → 32 ≤ csk.length → 32 ≤ spk.length →
      sessionNewClient P cpk csk spk = kxClient P (cpk.take 32) (csk.take 32) (spk.take 32)) :=
  Proofs.CurveObject.sessionNewClient_cases P cpk csk spk

open Model.ObjectView in
/-- exact lengths — what `[u8; 32]`, `StackByteArray<32>`, `HeapByteArray<32>`, `Locked<…>` guarantee by type:
the object function is the typed model -/
theorem sessionNewClient_exact (P : Prims) (cpk csk spk : Bytes)
    (h1 : cpk.length = 32) (h2 : csk.length = 32) (h3 : spk.length = 32) :
    sessionNewClient P cpk csk spk = kxClient P cpk csk spk :=
  Proofs.CurveObject.sessionNewClient_exact P cpk csk spk h1 h2 h3

open Model.ObjectView in
/-- `Err` exactly when all three containers are long enough and the shared secret of the prefixes is all-zero -/
theorem sessionNewClient_err_iff (P : Prims) (cpk csk spk : Bytes) :
    sessionNewClient P cpk csk spk = .err ↔
      32 ≤ cpk.length ∧ 32 ≤ csk.length ∧ 32 ≤ spk.length ∧
        scalarmult P (csk.take 32) (spk.take 32) = zeros 32 :=
  Proofs.CurveObject.sessionNewClient_err_iff P cpk csk spk

open Model.ObjectView in
/-- `Session::new_server` / `new_server_with_defaults` / `KeyPair::kx_new_server_session` -/
theorem sessionNewServer_cases (P : Prims) (spk ssk cpk : Bytes) :
    (sessionNewServer P spk ssk cpk = .panic ↔ spk.length < 32 ∨ ssk.length < 32 ∨ cpk.length < 32) ∧
    (32 ≤ spk.length → 32 ≤ ssk.length → 32 ≤ cpk.length →
      sessionNewServer P spk ssk cpk = kxServer P (spk.take 32) (ssk.take 32) (cpk.take 32)) :=
  Proofs.CurveObject.sessionNewServer_cases P spk ssk cpk

open Model.ObjectView in
theorem sessionNewServer_exact (P : Prims) (spk ssk cpk : Bytes)
    (h1 : spk.length = 32) (h2 : ssk.length = 32) (h3 : cpk.length = 32) :
    sessionNewServer P spk ssk cpk = kxServer P spk ssk cpk :=
  Proofs.CurveObject.sessionNewServer_exact P spk ssk cpk h1 h2 h3

open Model.ObjectView in
theorem sessionNewServer_err_iff (P : Prims) (spk ssk cpk : Bytes) :
    sessionNewServer P spk ssk cpk = .err ↔
      32 ≤ spk.length ∧ 32 ≤ ssk.length ∧ 32 ≤ cpk.length ∧
        scalarmult P (ssk.take 32) (cpk.take 32) = zeros 32 :=
  Proofs.CurveObject.sessionNewServer_err_iff P spk ssk cpk

open Model.ObjectView in
/-- `PrecalcSecretKey::precalculate(third_party_public_key, secret_key)` / `KeyPair::precalculate` (and, up to
their allocation `Result`, `precalculate_locked` / `precalculate_readonly_locked`): PANICS iff one of the two
containers holds fewer than 32 bytes; otherwise `crypto_box_beforenm` of the two 32-byte prefixes; never `Err` -/
theorem objPrecalculate_cases (P : Prims) (pk sk : Bytes) :
    (objPrecalculate P pk sk = .panic ↔ pk.length < 32 ∨ sk.length < 32) ∧
    (32 ≤ pk.length → 32 ≤ sk.length →
      objPrecalculate P pk sk = .ok (beforenm P (pk.take 32) (sk.take 32))) ∧
    objPrecalculate P pk sk ≠ .err :=
  Proofs.CurveObject.objPrecalculate_cases P pk sk

open Model.ObjectView in
theorem objPrecalculate_exact (P : Prims) (pk sk : Bytes) (h1 : pk.length = 32) (h2 : sk.length = 32) :
    objPrecalculate P pk sk = .ok (beforenm P pk sk) :=
  Proofs.CurveObject.objPrecalculate_exact P pk sk h1 h2

open Model.ObjectView in
/-- witnesses (abstract primitives, nothing evaluated but the lengths): a 31-byte `Vec` peer key panics on both
sides and in `precalculate`; a 33-byte one is the same as its 32-byte prefix -/
example (P : Prims) (pk sk : Bytes) (h1 : pk.length = 32) (h2 : sk.length = 32) (b : UInt8) :
    sessionNewClient P pk sk (zeros 31) = .panic ∧
    sessionNewServer P pk sk (zeros 31) = .panic ∧
    objPrecalculate P (zeros 31) sk = .panic ∧
    sessionNewClient P pk sk (zeros 32 ++ [b]) = kxClient P pk sk (zeros 32) ∧
    objPrecalculate P (zeros 32 ++ [b]) sk = .ok (beforenm P (zeros 32) sk) := by
  refine ⟨(sessionNewClient_cases P pk sk _).1.2 (by simp [zeros]),
    (sessionNewServer_cases P pk sk _).1.2 (by simp [zeros]),
    (objPrecalculate_cases P _ sk).1.2 (by simp [zeros]), ?_, ?_⟩
  · rw [(sessionNewClient_cases P pk sk _).2 (by omega) (by omega) (by simp [zeros]),
      List.take_of_length_le (by omega), List.take_of_length_le (by omega)]
    rfl
  · have e : sk.take 32 = sk := List.take_of_length_le (by omega)
    rw [(objPrecalculate_cases P _ sk).2.1 (by simp [zeros]) (by omega), e]
    rfl

/-- EXAMPLE (one secret key, kernel evaluation): the peer key u = 1 (order 4) is refused by both
sides for the secret key 0³².  The statement for ALL secret keys is `kx_refuses_low_order` below. -/
example (pk : Bytes) :
    kxClient specPrims pk (zeros 32) (1 :: zeros 31) = .err ∧
    kxServer specPrims pk (zeros 32) (1 :: zeros 31) = .err := by
  have h : scalarmult specPrims (zeros 32) (1 :: zeros 31) = zeros 32 := by
    rw [scalarmult_eq_x25519 _ _ (by decide)]; exact reduced_ne_x25519_low_order.1
  exact ⟨kx_refuses_zero _ _ _ _ h, kx_refuses_zero_server _ _ _ _ h⟩

/-! ### 6: the two sides derive mirrored keys -/

/-- If the two Diffie–Hellman computations agree (commutativity of scalar multiplication —
a property of the group, taken as a hypothesis) and the result is not all-zero, then the
client's rx is the server's tx and the client's tx is the server's rx.
For HONEST key pairs (public keys computed by `scalarmultBase`) the hypothesis `hnz` is discharged by
`honest_shared_secret_nonzero` under the named curve hypothesis `HonestNonzero`, and `hdh` is the named
hypothesis `LadderCommutes`: see `kx_mirror_honest`, `kx_mirror_honest'` in section 10'. -/
theorem kx_mirror (P : Prims) (cpk csk spk ssk : Bytes)
    (hdh : scalarmult P csk spk = scalarmult P ssk cpk)
    (hnz : scalarmult P csk spk ≠ zeros 32) :
    ∃ rx tx, kxClient P cpk csk spk = .ok (rx, tx) ∧ kxServer P spk ssk cpk = .ok (tx, rx) := by
  refine ⟨(kx P cpk spk (scalarmult P csk spk)).1, (kx P cpk spk (scalarmult P csk spk)).2, ?_, ?_⟩
  · rw [kxClient_ok P cpk csk spk hnz]
  · rw [kxServer_ok P spk ssk cpk (hdh ▸ hnz), ← hdh]

/-- the same, in terms of the results -/
theorem kx_mirror' (P : Prims) (cpk csk spk ssk : Bytes)
    (hdh : scalarmult P csk spk = scalarmult P ssk cpk) (c s : Bytes × Bytes)
    (hc : kxClient P cpk csk spk = .ok c) (hs : kxServer P spk ssk cpk = .ok s) :
    c.1 = s.2 ∧ c.2 = s.1 := by
  have hnz : scalarmult P csk spk ≠ zeros 32 := by
    intro h; rw [kx_refuses_zero P cpk csk spk h] at hc; cases hc
  rw [kxClient_ok P cpk csk spk hnz] at hc
  rw [kxServer_ok P spk ssk cpk (hdh ▸ hnz), ← hdh] at hs
  cases hc; cases hs; exact ⟨rfl, rfl⟩

/-- both sides fail together -/
theorem kx_err_together (P : Prims) (cpk csk spk ssk : Bytes)
    (hdh : scalarmult P csk spk = scalarmult P ssk cpk) :
    kxClient P cpk csk spk = .err ↔ kxServer P spk ssk cpk = .err := by
  rw [kxClient_err_iff, kxServer_err_iff, hdh]

/-- the session keys are the two halves of one 64-byte BLAKE2b output over q ‖ cpk ‖ spk -/
theorem kx_spec (cpk spk q : Bytes) :
    kx specPrims cpk spk q =
      ((Spec.Blake2b.hash 64 [] (q ++ cpk ++ spk)).take 32,
       (Spec.Blake2b.hash 64 [] (q ++ cpk ++ spk)).drop 32) := rfl

/-! ### 7: `crypto_box_beforenm` -/

theorem beforenm_unfold (P : Prims) (pk sk : Bytes) :
    beforenm P pk sk = P.hsalsa (P.ladder (clamp sk) pk) (zeros 16) := rfl

/-- NaCl's `crypto_box_beforenm`: HSalsa20 of the X25519 shared secret under a zero nonce -/
theorem beforenm_eq_spec (pk sk : Bytes) (h : sk.length = 32) :
    beforenm specPrims pk sk = Spec.Salsa20.hsalsa20 (Spec.X25519.x25519 sk pk) (zeros 16) := by
  rw [beforenm, scalarmult_eq_x25519 sk pk h]; rfl

/-! ### 7': the order-2 point u = 0 is mapped to zero by *every* scalar -/

/-- RFC 7748 ladder on u = 0: the result is 0 whatever the scalar (proved by the loop
invariant `z2 = z3 = 0`, see `Proofs/Curve.lean`) -/
theorem ladder_zero (k : Nat) : Spec.X25519.ladder k 0 = 0 := Proofs.Curve.ladder_zero k

/-- the same for the non-canonical encoding u = p of the same point -/
theorem ladder_p (k : Nat) : Spec.X25519.ladder k Spec.X25519.p = 0 := Proofs.Curve.ladder_p k

/-- the two 32-byte encodings that decode to 0 mod p -/
def zeroPointEncodings : List Bytes := [zeros 32, 0xed :: (List.replicate 30 0xff ++ [0x7f])]

theorem zeroPoint_decode : ∀ u ∈ zeroPointEncodings,
    Spec.X25519.decodeUCoordinate u = 0 ∨ Spec.X25519.decodeUCoordinate u = Spec.X25519.p := by
  decide

/-- dryoc's scalar multiplication of the point u = 0 (either encoding, and with the ignored
top bit set or not — `decodeUCoordinate` masks it) is all-zero for every secret key -/
theorem scalarmult_zero_point (n u : Bytes)
    (hu : Spec.X25519.decodeUCoordinate u = 0 ∨ Spec.X25519.decodeUCoordinate u = Spec.X25519.p) :
    scalarmult specPrims n u = zeros 32 := by
  have : Spec.X25519.ladder (le (clamp n)) (Spec.X25519.decodeUCoordinate u) = 0 := by
    rcases hu with h | h <;> rw [h]
    · exact ladder_zero _
    · exact ladder_p _
  simp only [scalarmult, specPrims, rawLadder, this]; decide

/-- … hence a peer public key encoding u = 0 is refused by `crypto_kx` for every secret key
(not only for the tested ones) -/
theorem kx_refuses_zero_point (pk sk u : Bytes) (hu : u ∈ zeroPointEncodings) :
    kxClient specPrims pk sk u = .err ∧ kxServer specPrims pk sk u = .err :=
  ⟨kx_refuses_zero _ _ _ _ (scalarmult_zero_point sk u (zeroPoint_decode u hu)),
   kx_refuses_zero_server _ _ _ _ (scalarmult_zero_point sk u (zeroPoint_decode u hu))⟩

/-- the same with the hypothesis on the decoded value (covers, besides the two encodings of
`zeroPointEncodings`, their variants with the ignored bit 255 set) -/
theorem kx_refuses_zero_point' (pk sk u : Bytes)
    (hu : Spec.X25519.decodeUCoordinate u = 0 ∨ Spec.X25519.decodeUCoordinate u = Spec.X25519.p) :
    kxClient specPrims pk sk u = .err ∧ kxServer specPrims pk sk u = .err :=
  ⟨kx_refuses_zero _ _ _ _ (scalarmult_zero_point sk u hu),
   kx_refuses_zero_server _ _ _ _ (scalarmult_zero_point sk u hu)⟩

/-! ### 8: the ladder sees u only modulo p, and bit 255 of the encoding not at all -/

/-- Every field operation of the RFC 7748 ladder reduces modulo p, so the result only depends on
the u-coordinate modulo p — for every scalar. -/
theorem ladder_mod_p (k u : Nat) :
    Spec.X25519.ladder k (u % Spec.X25519.p) = Spec.X25519.ladder k u :=
  Proofs.CurveExtra.ladder_mod_p k u

/-- `u` and `u + p` (a non-canonical representative) give the same result for every scalar -/
theorem ladder_add_p (k u : Nat) :
    Spec.X25519.ladder k (u + Spec.X25519.p) = Spec.X25519.ladder k u :=
  Proofs.CurveExtra.ladder_add_p k u

/-- Non-canonical public keys: two encodings whose decoded u-coordinates are congruent modulo p
(e.g. `u` and `u + p`, both below 2^255) give the same `crypto_scalarmult` output for EVERY secret
key.  This turns the enumerated "non-canonical u" test rows into a theorem about the model. -/
theorem scalarmult_noncanonical (n u u' : Bytes)
    (h : Spec.X25519.decodeUCoordinate u % Spec.X25519.p =
         Spec.X25519.decodeUCoordinate u' % Spec.X25519.p) :
    scalarmult specPrims n u = scalarmult specPrims n u' := by
  simp only [scalarmult, specPrims, rawLadder, Proofs.CurveExtra.ladder_congr _ _ _ h]

/-- non-vacuity witness for `scalarmult_noncanonical`: u = 2 and its second encoding p + 2 -/
example :
    Spec.X25519.decodeUCoordinate (2 :: zeros 31) % Spec.X25519.p =
      Spec.X25519.decodeUCoordinate (0xef :: (List.replicate 30 0xff ++ [0x7f])) % Spec.X25519.p ∧
    (2 :: zeros 31 : Bytes) ≠ 0xef :: (List.replicate 30 0xff ++ [0x7f]) := by decide

/-- Bit 255 of the public key is ignored (RFC 7748 `decodeUCoordinate` masks it): setting it
changes nothing, for every secret key and every public key (of any length). -/
theorem scalarmult_high_bit (n u : Bytes) :
    scalarmult specPrims n (u.modify 31 (· ||| 128)) = scalarmult specPrims n u := by
  simp only [scalarmult, specPrims, rawLadder, Proofs.CurveExtra.decodeU_high_bit]

/-- the same in the form "bit 255 set" on a 32-byte key written as `init ++ [last]` -/
theorem scalarmult_high_bit' (n init : Bytes) (last : UInt8) (hi : init.length = 31) :
    scalarmult specPrims n (init ++ [last ||| 128]) = scalarmult specPrims n (init ++ [last]) := by
  have : (init ++ [last]).modify 31 (· ||| 128) = init ++ [last ||| 128] := by
    rw [List.modify_eq_take_drop, List.take_append_of_le_length (by omega),
      List.take_of_length_le (by omega), List.drop_append_of_le_length (by omega),
      List.drop_of_length_le (by omega)]
    rfl
  rw [← this, scalarmult_high_bit]

/-- instance: the base point 9 with bit 255 set is still the base point -/
example (n : Bytes) :
    scalarmult specPrims n (9 :: zeros 30 ++ [0x80]) = scalarmult specPrims n (9 :: zeros 31) :=
  scalarmult_high_bit' n (9 :: zeros 30) 0 (by decide)

/-! ### 9: the small-order points — for every secret key

The u-coordinates of small order on Curve25519 and its twist are 0 (order 2), 1 and p − 1
(order 4) and two values `c1`, `c2` of order 8; each has a second encoding `+ p` when that is below
2^255, and each encoding a variant with bit 255 set.  For all of them the all-zero result is proved
for every scalar divisible by 8 — hence for every clamped scalar — by loop invariants of the ladder:
`Proofs/CurveExtra.lean` (orders 1, 2, 4: both projective registers stay in the classes `O` (z = 0),
`2P` (x = 0), `±P` (x = ±z); this needs only an even scalar) and `Proofs/CurveOrder8.lean` (order 8:
the pair of registers stays in one of four pair types; computed in `ZMod p`). -/

/-- X25519 ladder on the order-4 point u = 1: 0 for every even scalar -/
theorem ladder_one (k : Nat) (hk : k % 2 = 0) : Spec.X25519.ladder k 1 = 0 :=
  Proofs.CurveExtra.ladder_one_even k hk

/-- X25519 ladder on the order-4 point u = p − 1: 0 for every even scalar -/
theorem ladder_pm1 (k : Nat) (hk : k % 2 = 0) :
    Spec.X25519.ladder k (Spec.X25519.p - 1) = 0 :=
  Proofs.CurveExtra.ladder_pm1_even k hk

/-- evenness is needed: an odd scalar maps u = 1 to itself -/
example : Spec.X25519.ladder 1 1 = 1 ∧ Spec.X25519.ladder 3 1 = 1 := by
  set_option maxRecDepth 100000 in decide

/-- the two u-coordinates of order 8 -/
abbrev c1 : Nat := Proofs.CurveOrder8.c1
abbrev c2 : Nat := Proofs.CurveOrder8.c2

/-- X25519 ladder on an order-8 point: 0 for every scalar divisible by 8 -/
theorem ladder_order8 (k : Nat) (hk : k % 8 = 0) :
    Spec.X25519.ladder k c1 = 0 ∧ Spec.X25519.ladder k c2 = 0 :=
  ⟨Proofs.CurveOrder8.ladder_c1 k hk, Proofs.CurveOrder8.ladder_c2 k hk⟩

/-- divisibility by 8 is needed: the scalar 4 maps `c1` to the order-2 point… which also encodes
as 0; the scalar 2 maps it to the order-4 point u = 1 -/
example : Spec.X25519.ladder 2 c1 = 1 := by
  set_option maxRecDepth 100000 in decide

/-- a u-coordinate of small order: u ≡ 0, 1, −1, c1 or c2 modulo p -/
def SmallOrder (u : Nat) : Prop :=
  u % Spec.X25519.p = 0 ∨ u % Spec.X25519.p = 1 ∨ u % Spec.X25519.p = Spec.X25519.p - 1 ∨
  u % Spec.X25519.p = c1 ∨ u % Spec.X25519.p = c2

/-- a u-coordinate of order 1, 2 or 4 (for these an even scalar suffices) -/
def LowOrder4 (u : Nat) : Prop :=
  u % Spec.X25519.p = 0 ∨ u % Spec.X25519.p = 1 ∨ u % Spec.X25519.p = Spec.X25519.p - 1

/-- libsodium's X25519 blacklist: the seven 32-byte encodings (bit 255 clear) of small-order
u-coordinates: 0, 1, c1, c2, p − 1, p, p + 1 -/
def smallOrderEncodings : List Bytes :=
  [zeros 32, 1 :: zeros 31,
   [0xe0, 0xeb, 0x7a, 0x7c, 0x3b, 0x41, 0xb8, 0xae, 0x16, 0x56, 0xe3, 0xfa, 0xf1, 0x9f, 0xc4, 0x6a,
    0xda, 0x09, 0x8d, 0xeb, 0x9c, 0x32, 0xb1, 0xfd, 0x86, 0x62, 0x05, 0x16, 0x5f, 0x49, 0xb8, 0x00],
   [0x5f, 0x9c, 0x95, 0xbc, 0xa3, 0x50, 0x8c, 0x24, 0xb1, 0xd0, 0xb1, 0x55, 0x9c, 0x83, 0xef, 0x5b,
    0x04, 0x44, 0x5c, 0xc4, 0x58, 0x1c, 0x8e, 0x86, 0xd8, 0x22, 0x4e, 0xdd, 0xd0, 0x9f, 0x11, 0x57],
   0xec :: (List.replicate 30 0xff ++ [0x7f]),
   0xed :: (List.replicate 30 0xff ++ [0x7f]),
   0xee :: (List.replicate 30 0xff ++ [0x7f])]

theorem smallOrder_decode : ∀ u ∈ smallOrderEncodings, SmallOrder (Spec.X25519.decodeUCoordinate u) := by
  unfold SmallOrder; decide

/-- … and the same seven with bit 255 set -/
theorem smallOrder_decode_high : ∀ u ∈ smallOrderEncodings,
    SmallOrder (Spec.X25519.decodeUCoordinate (u.modify 31 (· ||| 128))) := by
  intro u hu; rw [Proofs.CurveExtra.decodeU_high_bit]; exact smallOrder_decode u hu

/-- the ladder on a small-order u-coordinate is 0 for every scalar divisible by 8 -/
theorem ladder_small_order (k u : Nat) (hk : k % 8 = 0) (hu : SmallOrder u) :
    Spec.X25519.ladder k u = 0 :=
  Proofs.CurveOrder8.ladder_small_order k u hk hu

/-- `crypto_scalarmult` of a small-order point (any encoding) is all-zero for EVERY 32-byte secret
key: the clamped scalar is a multiple of 8. -/
theorem scalarmult_small_order (n u : Bytes) (hn : n.length = 32)
    (hu : SmallOrder (Spec.X25519.decodeUCoordinate u)) :
    scalarmult specPrims n u = zeros 32 := by
  have hk : le (clamp n) % 8 = 0 := by
    have := (clamp_range n hn).2.2; omega
  have : Spec.X25519.ladder (le (clamp n)) (Spec.X25519.decodeUCoordinate u) = 0 :=
    ladder_small_order _ _ hk hu
  simp only [scalarmult, specPrims, rawLadder, this]; decide

/-- the special case of orders 1, 2, 4 -/
theorem scalarmult_low_order (n u : Bytes) (hn : n.length = 32)
    (hu : LowOrder4 (Spec.X25519.decodeUCoordinate u)) :
    scalarmult specPrims n u = zeros 32 :=
  scalarmult_small_order n u hn (by
    rcases hu with h | h | h
    · exact Or.inl h
    · exact Or.inr (Or.inl h)
    · exact Or.inr (Or.inr (Or.inl h)))

/-- … hence `crypto_kx_client_session_keys` / `crypto_kx_server_session_keys` refuse every
small-order peer key (orders 1, 2, 4 and 8), in any encoding, for EVERY 32-byte secret key. -/
theorem kx_refuses_low_order (pk sk u : Bytes) (hsk : sk.length = 32)
    (hu : SmallOrder (Spec.X25519.decodeUCoordinate u)) :
    kxClient specPrims pk sk u = .err ∧ kxServer specPrims pk sk u = .err :=
  ⟨kx_refuses_zero _ _ _ _ (scalarmult_small_order sk u hsk hu),
   kx_refuses_zero_server _ _ _ _ (scalarmult_small_order sk u hsk hu)⟩

/-- in list form: the seven blacklisted encodings and their seven bit-255 variants -/
theorem kx_refuses_blacklist (pk sk u : Bytes) (hsk : sk.length = 32) (hu : u ∈ smallOrderEncodings) :
    (kxClient specPrims pk sk u = .err ∧ kxServer specPrims pk sk u = .err) ∧
    (kxClient specPrims pk sk (u.modify 31 (· ||| 128)) = .err ∧
     kxServer specPrims pk sk (u.modify 31 (· ||| 128)) = .err) :=
  ⟨kx_refuses_low_order pk sk u hsk (smallOrder_decode u hu),
   kx_refuses_low_order pk sk _ hsk (smallOrder_decode_high u hu)⟩

/-- non-vacuity witness: the encoding of p − 1 with bit 255 set -/
example (pk sk : Bytes) (hsk : sk.length = 32) :
    kxClient specPrims pk sk (0xec :: (List.replicate 30 0xff ++ [0xff])) = .err := by
  have e : (0xec :: (List.replicate 30 0xff ++ [0x7f]) : Bytes).modify 31 (· ||| 128) =
      0xec :: (List.replicate 30 0xff ++ [0xff]) := by decide
  have h := smallOrder_decode_high (0xec :: (List.replicate 30 0xff ++ [0x7f])) (by decide)
  rw [e] at h
  exact (kx_refuses_low_order pk sk _ hsk h).1

/-- cross-check of the two order-8 theorems against kernel evaluation for the secret key 0³² -/
example : ∀ u ∈ smallOrderEncodings, scalarmult specPrims (zeros 32) u = zeros 32 := by
  set_option maxRecDepth 100000 in decide

/-! ### 10: the base-point multiplication of the Rust code has a different shape -/

/-- `crypto_scalarmult_curve25519_base` as written in scalarmult_curve25519.rs:
`sk = Scalar::from_bytes_mod_order(clamp(n))`, `(ED25519_BASEPOINT_TABLE * &sk).to_montgomery()`,
i.e. the Edwards base point times the clamped scalar reduced mod L, then dalek's
`to_montgomery`: u = (Z + Y) / (Z − Y).  (Edwards arithmetic from `Spec.Ed25519`, standing for
dalek's.) -/
def scalarmultBaseEdwards (n : Bytes) : Bytes :=
  let P := Spec.Ed25519.scalarMul (le (clamp n) % L) Spec.Ed25519.B
  toLE 32 (Spec.X25519.fmul (Spec.X25519.fadd P.Z P.Y)
    (Spec.X25519.finv (Spec.X25519.fsub P.Z P.Y)))

/-- **Unproved curve fact, Edwards form** (a consequence of `EdwardsLadderOK` below:
`baseEdwardsOK_of_edwardsLadder`; it in turn implies C13's `MapCommutes`: `C13.mapCommutes_of_base`): the Rust
base-point multiplication equals X25519 on
u = 9.  It combines `[L]B = O` with the birational map Edwards → Montgomery commuting with
scalar multiplication.  Not provable without the group law; evaluated on instances below and
compared with the implementation in the differential tests (`box_keypair`, `kx_keypair`, seed
key pairs).  Dependants: every statement that identifies the Rust
`crypto_scalarmult_curve25519_base` with the model's `scalarmultBase` — i.e. the transfer of
`scalarmultBase_eq`, `scalarmultBase_eq_of_le`, `scalarmultBase_eq_scalarmult`, and in C13
`boxSeedKeypair_spec`, `kxSeedKeypair_spec`, `boxSeedKeypair_pk`, `kxSeedKeypair_pk`,
`converted_pair_consistent`, `fromSecretKey_*`, `deriveKeypair_*` to the Rust code;
in C01 every sealed-box theorem for `Model.boxPrims` / `specPrims`, whose ephemeral public key is
`dhBase esk = Spec.X25519.x25519Base esk` while the Rust takes it from `crypto_box_keypair` →
`crypto_scalarmult_curve25519_base`: `model_eq_spec_boxSeal`, `model_eq_spec_boxSeal_boxPrims`,
`model_eq_spec_objSeal_boxPrims`, `seal_roundtrip_concrete`, `seal_obj_roundtrip_concrete`,
`boxSeal_oversized_boxPrims`, and `open_seal_boxSeal`, `open_seal_objSeal`, `forms_agree_boxSeal_boxEasy`,
`forms_agree_objSeal_boxSeal` when instantiated with these primitives (and C02's
`untampered_accepted_sealOpen` / `…objUnseal` likewise);
in this file the theorems and non-vacuity witnesses whose public keys are `scalarmultBase specPrims …`:
`honest_shared_secret_nonzero`, `kx_mirror_honest`, `kx_mirror_honest'`, the witness of `kx_mirror'`,
the witness "the hypotheses of `kx_mirror` are satisfiable" and the witnesses of `HonestNonzero` /
`kx_mirror_honest` (their public keys are the ladder's; the Rust's `crypto_kx_keypair` public keys are the
Edwards table's). -/
def BaseEdwardsOK : Prop :=
  ∀ n : Bytes, n.length = 32 → scalarmultBaseEdwards n = Spec.X25519.x25519Base n

/-- **Unproved curve fact, ladder form** (a consequence of `EdwardsLadderOK` below:
`baseReduceOK_of_edwardsLadder`): on the base point, reducing the clamped scalar mod L
before the ladder (the shape `ladder (le (clamp n) % L) 9` of the code's `from_bytes_mod_order`)
does not change the result, i.e. `[L]·9 = O` on the Montgomery curve.  (Off the prime-order
subgroup it does: `scalarmultReduced_ne_x25519`.) -/
def BaseReduceOK : Prop :=
  ∀ n : Bytes, n.length = 32 →
    scalarmultReduced specPrims n Spec.X25519.basePoint = Spec.X25519.x25519Base n

/-- what `scalarmultReduced` on the base point is, in terms of the ladder -/
theorem scalarmultReduced_base (n : Bytes) :
    scalarmultReduced specPrims n Spec.X25519.basePoint =
      Spec.X25519.encodeUCoordinate (Spec.X25519.ladder (le (clamp n) % L) 9) := by
  have h9 : Spec.X25519.decodeUCoordinate Spec.X25519.basePoint = 9 := by decide
  have hlt : le (clamp n) % L < 256 ^ 32 :=
    Nat.lt_trans (Nat.mod_lt _ (by decide)) (by decide)
  simp only [scalarmultReduced, specPrims, rawLadder, h9, Proofs.Curve.le_toLE,
    Nat.mod_eq_of_lt hlt]

/-- Under `BaseEdwardsOK` the code-shaped function is the model's `scalarmultBase` on every
32-byte secret key — this is the hypothesis under which the `scalarmultBase_*` theorems speak
about the Rust function. -/
theorem scalarmultBase_code_shape (h : BaseEdwardsOK) (n : Bytes) (hn : n.length = 32) :
    scalarmultBaseEdwards n = scalarmultBase specPrims n := by
  rw [h n hn, scalarmultBase_eq n hn]

/-- likewise for the ladder form -/
theorem scalarmultBase_reduced_shape (h : BaseReduceOK) (n : Bytes) (hn : n.length = 32) :
    scalarmultReduced specPrims n Spec.X25519.basePoint = scalarmultBase specPrims n := by
  rw [h n hn, scalarmultBase_eq n hn]

/-- instances of the two hypotheses (kernel evaluation): secret keys 0³² and 0xff³² -/
example : scalarmultBaseEdwards (zeros 32) = Spec.X25519.x25519Base (zeros 32) := by
  set_option maxRecDepth 1000000 in decide

example : scalarmultBaseEdwards (List.replicate 32 0xff) =
    Spec.X25519.x25519Base (List.replicate 32 0xff) := by
  set_option maxRecDepth 1000000 in decide

example : scalarmultReduced specPrims (List.replicate 32 0xff) Spec.X25519.basePoint =
    Spec.X25519.x25519Base (List.replicate 32 0xff) := by
  set_option maxRecDepth 100000 in decide

/-- dalek's `EdwardsPoint::to_montgomery`: u = (Z + Y)/(Z − Y), 32 bytes little-endian (`0` when `Z = Y`, the
neutral element: `finv 0 = 0`) -/
def edwardsToMontgomery (P : Spec.Ed25519.Point) : Bytes :=
  toLE 32 (Spec.X25519.fmul (Spec.X25519.fadd P.Z P.Y) (Spec.X25519.finv (Spec.X25519.fsub P.Z P.Y)))

theorem scalarmultBaseEdwards_unfold (n : Bytes) :
    scalarmultBaseEdwards n =
      edwardsToMontgomery (Spec.Ed25519.scalarMul (le (clamp n) % L) Spec.Ed25519.B) := rfl

/-- **The one unproved base-point fact** from which `BaseEdwardsOK` and `BaseReduceOK` both follow (and, with the
proved `Proofs/CurveEdwards.lean`, C13's `MapCommutes`): for EVERY scalar `k < 2^255` — clamped or not, reduced
or not — the Montgomery image of the Edwards multiple `[k mod L]B` is the X25519 ladder of `k` on u = 9.  It
combines `[L]B = O` with the birational map commuting with scalar multiplication; for `L ∣ k` both sides are the
encoding of 0 (neutral element).  Not provable without the group law; instances below. -/
def EdwardsLadderOK : Prop :=
  ∀ k : Nat, k < 2 ^ 255 →
    edwardsToMontgomery (Spec.Ed25519.scalarMul (k % L) Spec.Ed25519.B) =
      Spec.X25519.encodeUCoordinate (Spec.X25519.ladder k 9)

/-- `BaseEdwardsOK` is the instance `k = le (clamp n)` -/
theorem baseEdwardsOK_of_edwardsLadder (h : EdwardsLadderOK) : BaseEdwardsOK := by
  intro n hn
  have h9 : Spec.X25519.decodeUCoordinate Spec.X25519.basePoint = 9 := by decide
  rw [scalarmultBaseEdwards_unfold, h _ (clamp_range n hn).2.1]
  simp only [Spec.X25519.x25519Base, Spec.X25519.x25519, decodeScalar_eq n hn, h9]

/-- `BaseReduceOK` follows from the instances `k = le (clamp n)` and `k = le (clamp n) % L` (the same Edwards
multiple, since `(k % L) % L = k % L`) -/
theorem baseReduceOK_of_edwardsLadder (h : EdwardsLadderOK) : BaseReduceOK := by
  intro n hn
  have h9 : Spec.X25519.decodeUCoordinate Spec.X25519.basePoint = 9 := by decide
  have hk := (clamp_range n hn).2.1
  have hk' : le (clamp n) % L < 2 ^ 255 := Nat.lt_of_le_of_lt (Nat.mod_le _ _) hk
  have e1 := h _ hk
  have e2 := h _ hk'
  rw [Nat.mod_mod] at e2
  rw [scalarmultReduced_base, ← e2, e1]
  simp only [Spec.X25519.x25519Base, Spec.X25519.x25519, decodeScalar_eq n hn, h9]

/-- instances of `EdwardsLadderOK` (kernel evaluation): k = 1, k = L (both sides encode 0) and k = L + 1 -/
example :
    (∀ k ∈ [1, L, L + 1], k < 2 ^ 255 ∧
      edwardsToMontgomery (Spec.Ed25519.scalarMul (k % L) Spec.Ed25519.B) =
        Spec.X25519.encodeUCoordinate (Spec.X25519.ladder k 9)) := by
  set_option maxRecDepth 1000000 in decide +kernel

/-! ### 10': the shared secret of two honest key pairs is not all-zero

`kx_mirror` needs `hnz : shared secret ≠ 0³²`.  For honest pairs this splits into an arithmetic core, proved
here without any group law, and one curve fact, named and left as a hypothesis next to `BaseReduceOK`. -/

/-- **Arithmetic core.**  A clamped scalar is never a multiple of the group order `L`: it is a multiple of
8, `gcd(8, L) = 1`, so `L ∣ k` would give `8L ∣ k`, but `0 < 2^254 ≤ k < 2^255 < 8L`.  (Hence `[k]B ≠ O` for
a base point of order `L`, and `[k]Q ≠ O` for every `Q` of order `L`.) -/
theorem clamped_not_multiple_of_L (n : Bytes) (h : n.length = 32) : ¬ L ∣ le (clamp n) :=
  Proofs.CurveHonest.clamped_not_multiple_of_L n h

/-- only `gcd(8, L) = 1` is used about `L` (not its primality) -/
theorem coprime_8_L : Nat.gcd 8 L = 1 := Proofs.CurveHonest.coprime_8_L

/-- **Unproved curve fact, honest shared secrets**: "the base point u = 9 has order `L` on the Montgomery
curve, the ladder computes `x([a]Q)` from `x(Q)`, and `x = 0` only at the point of order 2 (the ladder's
output 0 also stands for the neutral element)".  In ladder terms: for scalars below 2^255 that are not
multiples of `L`, the ladder of the ladder on u = 9 is not 0.  Not provable without the group law;
instances are evaluated below and the implementation is compared differentially (`kx` rows). -/
def HonestNonzero : Prop :=
  ∀ a b : Nat, a < 2 ^ 255 → b < 2 ^ 255 → ¬ L ∣ a → ¬ L ∣ b →
    Spec.X25519.ladder a (Spec.X25519.ladder b 9) ≠ 0

/-- **Unproved curve fact, commutativity**: `x([a][b]B) = x([b][a]B)` — scalar multiplication commutes;
in ladder terms, on u = 9.  (The hypothesis `hdh` of `kx_mirror`, named.) -/
def LadderCommutes : Prop :=
  ∀ a b : Nat, a < 2 ^ 255 → b < 2 ^ 255 →
    Spec.X25519.ladder a (Spec.X25519.ladder b 9) = Spec.X25519.ladder b (Spec.X25519.ladder a 9)

/-- the shared secret of `sk` with the honest public key `scalarmultBase sk'` is the (encoded) ladder of the
ladder on u = 9 with the two clamped scalars -/
theorem scalarmult_honest (sk sk' : Bytes) :
    scalarmult specPrims sk (scalarmultBase specPrims sk')
      = Spec.X25519.encodeUCoordinate
          (Spec.X25519.ladder (le (clamp sk)) (Spec.X25519.ladder (le (clamp sk')) 9)) :=
  Proofs.CurveHonest.scalarmult_honest sk sk'

/-- Under `HonestNonzero`, `crypto_scalarmult(sk, pk')` with an honest peer key `pk' = scalarmult_base(sk')`
is never all-zero, for all 32-byte secret keys: the premises "not a multiple of `L`" are
`clamped_not_multiple_of_L`.  (Public keys are the model's `scalarmultBase`: transfer to the Rust under
`BaseEdwardsOK`.) -/
theorem honest_shared_secret_nonzero (h : HonestNonzero) (sk sk' : Bytes)
    (h1 : sk.length = 32) (h2 : sk'.length = 32) :
    scalarmult specPrims sk (scalarmultBase specPrims sk') ≠ zeros 32 := by
  rw [scalarmult_honest, Ne, Proofs.CurveHonest.encodeU_eq_zeros_iff,
    Nat.mod_eq_of_lt (Proofs.CurveHonest.ladder_lt _ _)]
  exact h _ _ (clamp_range sk h1).2.1 (clamp_range sk' h2).2.1
    (clamped_not_multiple_of_L sk h1) (clamped_not_multiple_of_L sk' h2)

/-- **`kx_mirror` for honest pairs**: client `(cpk, csk)` and server `(spk, ssk)` with
`cpk = scalarmult_base(csk)`, `spk = scalarmult_base(ssk)`.  Under `HonestNonzero` the non-zero hypothesis
of `kx_mirror` is discharged; what remains is the Diffie–Hellman agreement `hdh`. -/
theorem kx_mirror_honest (h : HonestNonzero) (csk ssk : Bytes) (hc : csk.length = 32) (hs : ssk.length = 32)
    (hdh : scalarmult specPrims csk (scalarmultBase specPrims ssk)
         = scalarmult specPrims ssk (scalarmultBase specPrims csk)) :
    ∃ rx tx,
      kxClient specPrims (scalarmultBase specPrims csk) csk (scalarmultBase specPrims ssk) = .ok (rx, tx) ∧
      kxServer specPrims (scalarmultBase specPrims ssk) ssk (scalarmultBase specPrims csk) = .ok (tx, rx) :=
  kx_mirror specPrims _ csk _ ssk hdh (honest_shared_secret_nonzero h csk ssk hc hs)

/-- … and under both named curve hypotheses nothing remains: every two honest key pairs derive mirrored
session keys, and neither side errs -/
theorem kx_mirror_honest' (h : HonestNonzero) (hcomm : LadderCommutes) (csk ssk : Bytes)
    (hc : csk.length = 32) (hs : ssk.length = 32) :
    ∃ rx tx,
      kxClient specPrims (scalarmultBase specPrims csk) csk (scalarmultBase specPrims ssk) = .ok (rx, tx) ∧
      kxServer specPrims (scalarmultBase specPrims ssk) ssk (scalarmultBase specPrims csk) = .ok (tx, rx) :=
  kx_mirror_honest h csk ssk hc hs (by
    rw [scalarmult_honest, scalarmult_honest,
      hcomm _ _ (clamp_range csk hc).2.1 (clamp_range ssk hs).2.1])

/-- the honest case never hits the all-zero refusal (under `HonestNonzero`) -/
theorem kx_honest_not_refused (h : HonestNonzero) (cpk csk ssk : Bytes)
    (hc : csk.length = 32) (hs : ssk.length = 32) :
    kxClient specPrims cpk csk (scalarmultBase specPrims ssk) ≠ .err := by
  rw [Ne, kxClient_err_iff]
  exact honest_shared_secret_nonzero h csk ssk hc hs

/-- non-vacuity witness for `clamped_not_multiple_of_L`: the all-zero and the all-ones secret key (kernel
evaluation of the divisibility, independent of the proof) -/
example : ¬ L ∣ le (clamp (zeros 32)) ∧ ¬ L ∣ le (clamp (List.replicate 32 0xff)) := by
  constructor <;> decide

/-- the bound `2^255 < 8L` used in `clamped_not_multiple_of_L` is the right one: `4L < 2^255`, so without
the divisibility by 8 the argument fails — `4L` itself lies in the clamped range `[2^254, 2^255)` -/
example : 2 ^ 254 ≤ 4 * L ∧ 4 * L < 2 ^ 255 ∧ L ∣ 4 * L ∧ ¬ 8 ∣ 4 * L := by decide

/-- instances of `HonestNonzero` and `LadderCommutes` (kernel evaluation of four ladders): the secret keys
0³² and 8 ‖ 0³¹; the premises hold by `clamped_not_multiple_of_L` -/
example :
    let a := le (clamp (zeros 32))
    let b := le (clamp (8 :: zeros 31))
    a < 2 ^ 255 ∧ b < 2 ^ 255 ∧ ¬ L ∣ a ∧ ¬ L ∣ b ∧
    Spec.X25519.ladder a (Spec.X25519.ladder b 9) ≠ 0 ∧
    Spec.X25519.ladder a (Spec.X25519.ladder b 9) = Spec.X25519.ladder b (Spec.X25519.ladder a 9) := by
  refine ⟨by decide, by decide, clamped_not_multiple_of_L _ (by decide),
    clamped_not_multiple_of_L _ (by decide), ?_, ?_⟩
  · set_option maxRecDepth 100000 in decide +kernel
  · set_option maxRecDepth 100000 in decide +kernel

/-- the conclusion of `honest_shared_secret_nonzero` / the hypothesis `hdh` of `kx_mirror_honest` on the
same instance, through the byte-level model (public keys `scalarmultBase specPrims …`: `BaseEdwardsOK`
dependants) -/
example :
    scalarmult specPrims (zeros 32) (scalarmultBase specPrims (8 :: zeros 31)) ≠ zeros 32 ∧
    scalarmult specPrims (zeros 32) (scalarmultBase specPrims (8 :: zeros 31))
      = scalarmult specPrims (8 :: zeros 31) (scalarmultBase specPrims (zeros 32)) := by
  set_option maxRecDepth 100000 in decide +kernel

/-- the restriction "not a multiple of `L`" in `HonestNonzero` is needed: `[L]·9` is the neutral element,
encoded as 0 (this is also the instance `k = L` of the fact behind `BaseReduceOK`) -/
example : Spec.X25519.ladder L 9 = 0 := by
  set_option maxRecDepth 100000 in decide +kernel

/-! ### non-vacuity -/

/-- witness for `kx_mirror'`: with the secret keys 0³² and 8 ‖ 0³¹ and the matching public keys
both sides succeed, and the results are mirrored (hypothesis `hdh` by kernel evaluation of the
four ladders; no hash is evaluated) -/
example :
    let csk := zeros 32
    let ssk := 8 :: zeros 31
    let cpk := scalarmultBase specPrims csk
    let spk := scalarmultBase specPrims ssk
    ∃ c s, kxClient specPrims cpk csk spk = .ok c ∧ kxServer specPrims spk ssk cpk = .ok s ∧
      c.1 = s.2 ∧ c.2 = s.1 := by
  intro csk ssk cpk spk
  have h : scalarmult specPrims csk spk = scalarmult specPrims ssk cpk ∧
      scalarmult specPrims csk spk ≠ zeros 32 := by
    set_option maxRecDepth 100000 in decide
  refine ⟨_, _, kxClient_ok _ _ _ _ h.2, kxServer_ok _ _ _ _ (h.1 ▸ h.2), ?_⟩
  exact kx_mirror' specPrims cpk csk spk ssk h.1 _ _ (kxClient_ok _ _ _ _ h.2)
    (kxServer_ok _ _ _ _ (h.1 ▸ h.2))

/-- witness for `kx_err_together`, failing side: both public keys of low order (u = 1 and u = 0),
arbitrary 32-byte secret keys: `hdh` holds (both Diffie–Hellman results are 0³²) and both fail -/
example (csk ssk : Bytes) (hc : csk.length = 32) :
    scalarmult specPrims csk (1 :: zeros 31) = scalarmult specPrims ssk (zeros 32) ∧
    kxClient specPrims (zeros 32) csk (1 :: zeros 31) = .err ∧
    kxServer specPrims (1 :: zeros 31) ssk (zeros 32) = .err := by
  have h1 : scalarmult specPrims csk (1 :: zeros 31) = zeros 32 :=
    scalarmult_small_order csk _ hc (smallOrder_decode _ (by decide))
  have h2 : scalarmult specPrims ssk (zeros 32) = zeros 32 :=
    scalarmult_zero_point ssk _ (Or.inl (by decide))
  have hdh := h1.trans h2.symm
  have := kx_err_together specPrims (zeros 32) csk (1 :: zeros 31) ssk hdh
  exact ⟨hdh, kx_refuses_zero _ _ _ _ h1, this.1 (kx_refuses_zero _ _ _ _ h1)⟩

/-- witnesses for `scalarmult_zero_point` / `kx_refuses_zero_point'`: the encoding of u = 0 with
bit 255 set, and the encoding of u = p with bit 255 set -/
example (pk sk : Bytes) :
    scalarmult specPrims sk (zeros 31 ++ [0x80]) = zeros 32 ∧
    scalarmult specPrims sk (0xed :: (List.replicate 30 0xff ++ [0xff])) = zeros 32 ∧
    kxClient specPrims pk sk (zeros 31 ++ [0x80]) = .err ∧
    kxServer specPrims pk sk (zeros 31 ++ [0x80]) = .err ∧
    kxClient specPrims pk sk (0xed :: (List.replicate 30 0xff ++ [0xff])) = .err :=
  ⟨scalarmult_zero_point sk _ (Or.inl (by decide)),
   scalarmult_zero_point sk _ (Or.inr (by decide)),
   (kx_refuses_zero_point' pk sk _ (Or.inl (by decide))).1,
   (kx_refuses_zero_point' pk sk _ (Or.inl (by decide))).2,
   (kx_refuses_zero_point' pk sk _ (Or.inr (by decide))).1⟩

/-- witness for `kx_refuses_zero_point` (list form) -/
example (pk sk : Bytes) : kxClient specPrims pk sk (zeros 32) = .err :=
  (kx_refuses_zero_point pk sk _ (by decide)).1

/-- `clamp_range` on the all-ones scalar -/
example : le (clamp (List.replicate 32 255)) = 2 ^ 255 - 8 := by decide

/-- RFC 7748 §5.2 first test vector, through the model -/
example :
    scalarmult specPrims
      [0xa5, 0x46, 0xe3, 0x6b, 0xf0, 0x52, 0x7c, 0x9d, 0x3b, 0x16, 0x15, 0x4b, 0x82, 0x46, 0x5e, 0xdd,
       0x62, 0x14, 0x4c, 0x0a, 0xc1, 0xfc, 0x5a, 0x18, 0x50, 0x6a, 0x22, 0x44, 0xba, 0x44, 0x9a, 0xc4]
      [0xe6, 0xdb, 0x68, 0x67, 0x58, 0x30, 0x30, 0xdb, 0x35, 0x94, 0xc1, 0xa4, 0x24, 0xb1, 0x5f, 0x7c,
       0x72, 0x66, 0x24, 0xec, 0x26, 0xb3, 0x35, 0x3b, 0x10, 0xa9, 0x03, 0xa6, 0xd0, 0xab, 0x1c, 0x4c]
    = [0xc3, 0xda, 0x55, 0x37, 0x9d, 0xe9, 0xc6, 0x90, 0x8e, 0x94, 0xea, 0x4d, 0xf2, 0x8d, 0x08, 0x4f,
       0x32, 0xec, 0xcf, 0x03, 0x49, 0x1c, 0x71, 0xf7, 0x54, 0xb4, 0x07, 0x55, 0x77, 0xa2, 0x85, 0x52] := by
  set_option maxRecDepth 100000 in decide

/-- the hypotheses of `kx_mirror` are satisfiable with the spec instantiation: the DH
results of the secret keys `zeros 32` and `8 :: zeros 31` agree and are non-zero -/
example :
    let csk := zeros 32
    let ssk := 8 :: zeros 31
    let cpk := scalarmultBase specPrims csk
    let spk := scalarmultBase specPrims ssk
    scalarmult specPrims csk spk = scalarmult specPrims ssk cpk ∧
    scalarmult specPrims csk spk ≠ zeros 32 := by
  set_option maxRecDepth 100000 in decide

/-- tie to the source: `scalarmult_curve25519.rs::clamp` as translated by `tools/rs2lean.py`
(regenerated on every run) = the model's clamp on every 32-byte scalar (indeed on every scalar of at
most 32 bytes).  In the Rust this `clamp` is called by `crypto_scalarmult_curve25519_base` ONLY;
`crypto_scalarmult_curve25519` hands the unclamped scalar to curve25519-dalek's
`MontgomeryPoint::mul_clamped`, whose clamping is dalek's code (compared differentially, and equal
to RFC 7748's by `clamp_eq_spec`). -/
theorem translated_clamp (n : Bytes) (hn : n.length = 32) : Gen.Curve.clamp n = Model.Curve.clamp n :=
  Proofs.GenCurve.clamp_eq_model n hn

/-! ## the key-exchange functions as read off the source on every run (translator kernel `Kx`)

`tools/rs2lean.py` emits the SHAPE of `src/classic/crypto_kx.rs` as data — what is hashed and in which order, the digest length and its
split, the operands of the scalar multiplication, how the client and the server route `(rx, tx)` into the common helper (the server
passes `(tx, rx)`), and that the exact all-zero check sits between the two — and `Proofs/GenKx.lean` INTERPRETS that data and proves the
result equal to the hand model.  `kx_spec` and `kx_mirror` are therefore statements about what the source says today. -/

theorem translated_kx_shape :
    Gen.Kx.hash_updates = ["shared_secret", "client_pk", "server_pk"] ∧ Gen.Kx.hash_outlen = 64
    ∧ Gen.Kx.digest_split = [("x1", 0, 32), ("x2", 32, 64)]
    ∧ Gen.Kx.client_scalarmult_args = ["client_sk", "server_pk"] ∧ Gen.Kx.server_scalarmult_args = ["server_sk", "client_pk"]
    ∧ Gen.Kx.client_helper_args = ["rx", "tx", "client_pk", "server_pk", "shared_secret"]
    ∧ Gen.Kx.server_helper_args = ["tx", "rx", "client_pk", "server_pk", "shared_secret"]
    ∧ Gen.Kx.client_checks_zero_between = true ∧ Gen.Kx.server_checks_zero_between = true ∧ Gen.Kx.zero_check_is_exact = true :=
  Proofs.GenKx.kx_shape

theorem translated_kx_client (P : Model.Curve.Prims) (cpk csk spk : Bytes)
    (hlen : ∀ m, (P.blake2b 64 [] [] [] m).length = 64) :
    Proofs.GenKx.sessionFromShape P Gen.Kx.client_scalarmult_args Gen.Kx.client_helper_args Gen.Kx.client_checks_zero_between
      [("client_pk", cpk), ("client_sk", csk), ("server_pk", spk)] = Model.Curve.kxClient P cpk csk spk :=
  Proofs.GenKx.client_from_shape_eq_model P cpk csk spk hlen

theorem translated_kx_server (P : Model.Curve.Prims) (spk ssk cpk : Bytes)
    (hlen : ∀ m, (P.blake2b 64 [] [] [] m).length = 64) :
    Proofs.GenKx.sessionFromShape P Gen.Kx.server_scalarmult_args Gen.Kx.server_helper_args Gen.Kx.server_checks_zero_between
      [("server_pk", spk), ("server_sk", ssk), ("client_pk", cpk)] = Model.Curve.kxServer P spk ssk cpk :=
  Proofs.GenKx.server_from_shape_eq_model P spk ssk cpk hlen

end DryocVerif.Properties.C05
