import DryocVerif.Model.Sign
import DryocVerif.Proofs.Sign
import DryocVerif.Proofs.SignGroup
import DryocVerif.Proofs.SignVectors
import DryocVerif.Proofs.SignExtra
import DryocVerif.Proofs.SignUnique
import DryocVerif.Proofs.SignCanon
import DryocVerif.Proofs.SignStrictDecode
import DryocVerif.Proofs.SignRound
/-!
# C06 — Ed25519 signing glue (`Model/Sign.lean`)

The model mirrors `/repo/src/classic/crypto_sign_ed25519.rs`, `crypto_sign.rs`, `sign.rs`:
dryoc's own sequence of hashing, reduction and encoding around curve25519-dalek's
Edwards arithmetic.  The curve operations are those of `Spec.Ed25519` (RFC 8032 on
`Nat` mod p); SHA-512 is a parameter `H` wherever the statement does not need it to be
SHA-512.

What is proved unconditionally (for the model):
* signing is RFC 8032 §5.1.6 byte for byte, both modes, for EVERY secret key, with `sk[32..]` in the place of the
  public key (`sign_model_eq_signCoreA`; `signCoreA` = `signCore` with the hashed key bytes as a parameter) — and for
  the model's own `seedKeypair` (`sign_seedKeypair_eq_signCoreA`);
* layout/length/error behaviour of the combined API (`sig_layout`, …), also in the code-shaped form with
  `split_at_mut` / `unwrap` / `copy_from_slice` behind the duplicated length test (`signCombinedRaw_eq`,
  `signCombinedNoGuard_panics`); the object-API signer with a `Vec<u8>` key (`objSign_cases`: panic iff < 64 bytes);
* every rejection rule of `verifyDetached` (non-canonical S, lengths, small order,
  undecodable), and the acceptance condition written out (`verifyDetached_true_iff` — an UNFOLDING of the
  definition into one conjunction, not an independent characterisation);
* the message enters verification only through `k = H(dom ‖ R ‖ A ‖ M) mod L` (`verify_msg_only_via_k`);
* the strict RFC 8032 decoder and the lenient one agree after libsodium's own two tests (`decodePoint_eq_lax`);
* domain separation of the two modes at the level of hash INPUTS
  (`ph_vs_pure_inputs_differ`, `accepted_pure_input_ne_ph_input`).

* all 14 encodings of libsodium's small-order table (7 entries × sign bit) are rejected
  as `R` and as public key, for every other input (`blacklist_R_rejected`,
  `blacklist_A_rejected`);

What is proved only UNDER EXPLICIT, UNPROVED HYPOTHESES:
* **signing = RFC 8032 `sign` / `signPh`** (`sign_model_eq_spec`, `signPrehashed_model_eq_spec`,
  `signPh_model_eq_spec`) carries `hpk : sk.drop 32 = publicKey (sk.take 32)`.  For the model's OWN key pairs
  (`seedKeypair`: `[a mod L]B`, RFC 8032: `[a]B`) that hypothesis is the UNPROVED encoding equality
  `(seedKeypair sha512 seed).1 = publicKey seed` — isolated as the single hypothesis of
  `sign_seedKeypair_eq_spec_of_pk`, derived under `EdwardsInterpEnc` in `seedKeypair_pk_eq_spec`, kernel-checked on
  the RFC vectors, not proved for every seed.  (An earlier version of this header listed `sign_model_eq_spec` under
  "proved unconditionally"; that was wrong.)
* `verify_sign` is a theorem about an abstract `AddCommGroup`;
  `verify_sign_model` / `verify_sign_model'` transfer it to the model under the hypothesis structure
  `EdwardsInterp` ("the Edwards arithmetic is a group; decode ∘ encode = id") — that
  hypothesis is NOT proved, neither for the Lean curve functions nor for dalek.
  NO INSTANCE of `EdwardsInterp` is constructed anywhere: it is not even shown that the
  structure is satisfiable.  Everything that takes an `EdwardsInterp*` argument (`verify_sign_model`,
  `verify_sign_model'`, `seedKeypair_pk_eq_spec`, `sign_seedKeypair_eq_spec`, `signPh_seedKeypair_eq_spec`, the round
  trips `signOpen_signCombined`, `verifyPh_signPh`, `objVerifyMessage_objSign`, …) is a statement of the form "IF the
  curve arithmetic is a group with these properties THEN …" and nothing more.  `verify_sign_model'` needs
  `EdwardsInterpOrd` and DERIVES the two small-order side conditions of `verify_sign_model`;
* `verify_model_eq_spec_of_canonical` (dalek-style vs libsodium-style decision, canonical `R` and key) is under the
  named structure `EdwardsInterpFull` = `EdwardsInterpOrd` + `encode_congr`, `encode_decode`, `small_order_table`,
  `order_cases`.  The older `verify_model_vs_spec` takes six PER-INPUT hypotheses, one of which (`hRcanon`) is the
  equivalence to be shown for that very input; it is kept under its name and says so;
* `S_unique` / `S_change_rejected` (§8: an accepted signature's `S` half is the only one accepted with
  that `R`) take `EdwardsInterpOrd` = `EdwardsInterp` + "`B` has order exactly `L`" + "decoded points
  are valid" — again a hypothesis structure without an instance;
* `msg_change_needs_k_collision` (under `EdwardsInterpFull`): the same signature accepted for two messages forces
  equal challenge scalars.

"REJECTS ANY CHANGE TO A BIT OF …": what is and is not a theorem.  Signature, `S` half: `S_change_rejected`
(conditional).  Signature, `R` half, and MESSAGE: the change reaches the decision only through SHA-512
(`verify_msg_only_via_k`, `msg_change_accepted_iff`); rejection is then exactly "no collision of `H mod L` on the two
inputs", which cannot be a theorem.  PUBLIC KEY: a changed key changes both `k` and the point `A`; there is NO
theorem about it here — public-key mutation is covered DIFFERENTIALLY only (bit-flip sweep in the runner), like
`R`-half mutation.

Unconditional, §8: the libsodium-style verifier rejects every NON-CANONICAL encoding of `R` and of the
public key (`noncanonical_R_rejected_spec`, `noncanonical_pk_rejected_spec`).  The MODEL (dalek's lenient
decoding) does not have such a rule: outside the small-order table this family of inputs is where the
two verifiers may differ; it is covered by enumeration in the differential run, not by a theorem.

TOTALISATION NOTE: `verifyDetached` / `verifyCore` take byte LISTS and start with the guard
`sig.length ≠ 64 ∨ pk.length ≠ 32 → false`.  The Rust functions take `&[u8; 64]`, `&[u8; 32]`: a wrong
length is not expressible there.  `wrong_length_rejected` and the length disjuncts of
`both_reject_malformed` are therefore true BY the totalising guard, not a property of the code; what the
object API does with a `Vec<u8>` of another length (panic / prefix view) is `Model.ObjectView` and C04 §"observation".
-/
namespace DryocVerif.Properties.C06
open DryocVerif DryocVerif.Spec.Ed25519 DryocVerif.Model.Sign
open DryocVerif.Proofs.Sign DryocVerif.Proofs.SignVectors

/-! ## 1. signing = RFC 8032 -/

/-- `Model.Sign.DOM2PREFIX` is RFC 8032's `dom2(1, "")` -/
theorem dom2prefix_eq_spec : DOM2PREFIX = dom2 1 [] := dom2prefix_eq

/-- dryoc's clamp (`clamp_hash`) is RFC 7748/8032's, on every input -/
theorem clampHash_eq_spec (h : Bytes) : clampHash h = Spec.X25519.clamp h :=
  clampHash_eq_clamp h

/-- the secret scalar dryoc derives from the seed is `secretExpand`'s, reduced mod L -/
theorem secret_scalar_eq_spec (seed : Bytes) :
    le (clampHash (Spec.Sha512.sha512 seed)) % L = (secretExpand seed).1 % L := by
  simp [secretExpand, Spec.X25519.decodeScalar25519, clampHash_eq_clamp, clamp_take]

/-- `S = (k·(a mod L) mod L + r) mod L` (dryoc/dalek) = `(r + k·a) mod L` (RFC 8032) -/
theorem scalar_eq_spec (k a r : Nat) : (k * (a % L) % L + r) % L = (r + k * a) % L :=
  scalar_arith k a r L

/-- **pure Ed25519**: dryoc's sequence (hash the seed; nonce = H(prefix‖M) mod L;
R = [r]B; k = H(R‖A‖M) mod L; S = (k·(a mod L) + r) mod L) produces exactly the bytes of
RFC 8032 `sign`, WHENEVER the second half of `sk` is RFC 8032's public key of its first half (`hpk`).
(`sk.length = 64` is not even needed.)
CONDITIONAL: for the model's own `seedKeypair` the hypothesis `hpk` is the unproved `[a mod L]B` vs `[a]B` encoding
equality (see the header and `sign_seedKeypair_eq_spec_of_pk`); the unconditional statement is
`sign_model_eq_signCoreA` below. -/
theorem sign_model_eq_spec (msg sk : Bytes) (_hlen : sk.length = 64)
    (hpk : sk.drop 32 = publicKey (sk.take 32)) :
    signDetached Spec.Sha512.sha512 msg sk false = Spec.Ed25519.sign (sk.take 32) msg :=
  signDetached_eq_signCore msg sk false hpk

/-- the pre-hashed mode on an already computed prehash -/
theorem signPrehashed_model_eq_spec (ph sk : Bytes)
    (hpk : sk.drop 32 = publicKey (sk.take 32)) :
    signDetached Spec.Sha512.sha512 ph sk true = signPhPrehashed (sk.take 32) ph :=
  signDetached_eq_signCore ph sk true hpk

/-- `Spec.Ed25519.signCore` with the 32 bytes hashed into the challenge as a PARAMETER `A` (the code hashes
`secret_key[32..]`, it does not recompute the public key); `signCoreA dom seed (publicKey seed) = signCore dom seed`
(`signCoreA_publicKey`) -/
abbrev signCoreA := Proofs.SignRound.signCoreA

theorem signCoreA_publicKey (dom seed m : Bytes) :
    signCoreA dom seed (publicKey seed) m = signCore dom seed m :=
  Proofs.SignRound.signCoreA_publicKey dom seed m

/-- **UNCONDITIONAL — every secret key, both modes**: the model's signer is RFC 8032 §5.1.6 on the seed `sk[0..32]`,
with `sk[32..]` where RFC 8032 hashes the public key -/
theorem sign_model_eq_signCoreA (msg sk : Bytes) (ph : Bool) :
    signDetached Spec.Sha512.sha512 msg sk ph
      = signCoreA (if ph then dom2 1 [] else []) (sk.take 32) (sk.drop 32) msg :=
  Proofs.SignRound.signDetached_eq_signCoreA msg sk ph

/-- **UNCONDITIONAL — every 32-byte seed**: signing with the key pair the model generates = `signCoreA` on that seed
and on the public key the model generated.  The only thing between this and RFC 8032 `sign seed msg` is the equation
`(seedKeypair sha512 seed).1 = publicKey seed`. -/
theorem sign_seedKeypair_eq_signCoreA (seed msg : Bytes) (ph : Bool) (hseed : seed.length = 32) :
    signDetached Spec.Sha512.sha512 msg (seedKeypair Spec.Sha512.sha512 seed).2 ph
      = signCoreA (if ph then dom2 1 [] else []) seed (seedKeypair Spec.Sha512.sha512 seed).1 msg :=
  Proofs.SignRound.sign_seedKeypair_eq_signCoreA seed msg ph hseed

/-- CONDITIONAL on exactly that equation (`hpk`, two 32-byte strings; kernel-checked on the RFC vectors below, derived
under `EdwardsInterpEnc` in `seedKeypair_pk_eq_spec`, NOT proved for every seed) -/
theorem sign_seedKeypair_eq_spec_of_pk (seed msg : Bytes) (ph : Bool) (hseed : seed.length = 32)
    (hpk : (seedKeypair Spec.Sha512.sha512 seed).1 = publicKey seed) :
    signDetached Spec.Sha512.sha512 msg (seedKeypair Spec.Sha512.sha512 seed).2 ph
      = signCore (if ph then dom2 1 [] else []) seed msg :=
  Proofs.SignRound.sign_seedKeypair_eq_signCore_of_pk seed msg ph hseed hpk

/-- non-vacuity: `hseed` and `hpk` hold on the RFC 8032 TEST 1 seed -/
example : tvSeed.length = 32 ∧ (seedKeypair Spec.Sha512.sha512 tvSeed).1 = publicKey tvSeed :=
  ⟨by decide, by rw [tv_keypair, tv_pk]⟩

/-- **Ed25519ph**: the model's pre-hashed signer = RFC 8032 Ed25519ph (empty context) of
the concatenation of the chunks.

CAVEAT: "for any split into chunks" is true BY CONSTRUCTION here.  `Model.Sign.signPh` is
DEFINED as `signDetached H (H chunks.flatten) sk true`: the incremental SHA-512 state of
`init; update…; final_create` lives in the `sha2` dependency and is not modelled, so the
model simply hashes the flattened chunks.  The content of this theorem is the glue after
the prehash (dom2 prefix, nonce, challenge, scalar arithmetic), not chunk-independence of
the hasher; the latter is only tested differentially. -/
theorem signPh_model_eq_spec (cs : List Bytes) (sk : Bytes)
    (hpk : sk.drop 32 = publicKey (sk.take 32)) :
    Model.Sign.signPh Spec.Sha512.sha512 cs sk = Spec.Ed25519.signPh (sk.take 32) cs.flatten :=
  signDetached_eq_signCore _ sk true hpk

/-- chunking is irrelevant FOR THE MODEL — a definitional fact (`signPh` is defined on
`cs.flatten`, see the caveat at `signPh_model_eq_spec`), not a theorem about the Rust
incremental hasher, whose state is dependency code and is not modelled -/
theorem signPh_chunking (H : Bytes → Bytes) (cs cs' : List Bytes) (sk : Bytes)
    (h : cs.flatten = cs'.flatten) : Model.Sign.signPh H cs sk = Model.Sign.signPh H cs' sk := by
  unfold Model.Sign.signPh; rw [h]

/-- a key pair made by `seedKeypair` satisfies the hypothesis of `sign_model_eq_spec`
up to the reduction of the scalar mod L before the base-point multiplication (dalek
multiplies by `a mod L`, RFC 8032 by `a`; equal as group elements only by `[L]B = 0`,
which is curve theory and not proved here — but see `tv_keypair` for a kernel-checked
instance) -/
theorem seedKeypair_shape (H : Bytes → Bytes) (seed : Bytes) (hs : seed.length = 32) :
    let (pk, sk) := seedKeypair H seed
    sk.length = 64 ∧ sk.take 32 = seed ∧ sk.drop 32 = pk ∧ pk.length = 32 := by
  simp only [seedKeypair]
  refine ⟨?_, List.take_left' hs, List.drop_left' hs, encodePoint_length _⟩
  simp [hs, encodePoint_length]

/-! ## 2. layout, lengths, error behaviour -/

theorem toLE_length (n v : Nat) : (toLE n v).length = n := Proofs.Sign.toLE_length n v

theorem encodePoint_length (P : Point) : (encodePoint P).length = 32 :=
  Proofs.Sign.encodePoint_length P

/-- a detached signature is 64 bytes: 32 of R, 32 of S, and S is canonical -/
theorem sig_length (H : Bytes → Bytes) (msg sk : Bytes) (ph : Bool) :
    (signDetached H msg sk ph).length = 64 ∧
    ((signDetached H msg sk ph).take 32).length = 32 ∧
    le ((signDetached H msg sk ph).drop 32) < L :=
  ⟨signDetached_length H msg sk ph, by rw [signDetached_take32]; exact sigR_length ..,
    signDetached_S_canonical H msg sk ph⟩

/-- combined mode: signature first, then the message, exactly when the buffer fits -/
theorem sig_layout (H : Bytes → Bytes) (msg sk : Bytes) :
    signCombined H (msg.length + 64) msg sk = .ok (signDetached H msg sk false ++ msg) := by
  simp [signCombined]

theorem sig_layout_length (H : Bytes → Bytes) (msg sk : Bytes) :
    (signDetached H msg sk false ++ msg).length = 64 + msg.length := by
  rw [List.length_append, signDetached_length]

theorem signCombined_wrong_buffer (H : Bytes → Bytes) (n : Nat) (msg sk : Bytes)
    (h : n ≠ msg.length + 64) : signCombined H n msg sk = .err := by
  simp [signCombined, h]

/-- TRUE BY CONSTRUCTION: `Model.Sign.signCombined` has no `.panic` branch.  The Rust behind the length test does have
panicking statements (`split_at_mut(64)`, `try_from(..).unwrap()`, `copy_from_slice`); they are written out in
`Model.SignView.signCombinedRawWith`, which equals this model as long as at least one of the two copies of the test
is there (`signCombinedRaw_eq`, `signCombinedRawWith_eq`) and panics on every wrong length without them
(`signCombinedNoGuard_panics`). -/
theorem signCombined_never_panics (H : Bytes → Bytes) (n : Nat) (msg sk : Bytes) :
    signCombined H n msg sk ≠ .panic := by
  unfold signCombined; split <;> simp

/-- **`crypto_sign` → `crypto_sign_ed25519` statement by statement** (`Model.SignView.signCombinedRaw`: the length
test TWICE, then `split_at_mut(64)`, `try_from(sig).unwrap()`, `sm.copy_from_slice(message)`, the detached signer)
is `signCombined` -/
theorem signCombinedRaw_eq (H : Bytes → Bytes) (smLen : Nat) (msg sk : Bytes) :
    Model.SignView.signCombinedRaw H smLen msg sk = signCombined H smLen msg sk :=
  Proofs.SignRound.signCombinedRaw_eq H smLen msg sk

/-- one copy of the test suffices (`outer` = the one in `crypto_sign`, `inner` = the one in `crypto_sign_ed25519`) -/
theorem signCombinedRawWith_eq (outer inner : Bool) (h : (outer || inner) = true) (H : Bytes → Bytes)
    (smLen : Nat) (msg sk : Bytes) :
    Model.SignView.signCombinedRawWith outer inner H smLen msg sk = signCombined H smLen msg sk :=
  Proofs.SignRound.signCombinedRawWith_eq outer inner h H smLen msg sk

/-- with both copies removed, EVERY wrong buffer length panics (so the test is what `signCombined_never_panics` is
about) -/
theorem signCombinedNoGuard_panics (H : Bytes → Bytes) (smLen : Nat) (msg sk : Bytes)
    (h : smLen ≠ msg.length + 64) :
    Model.SignView.signCombinedRawWith false false H smLen msg sk = .panic :=
  Proofs.SignRound.signCombinedNoGuard_panics H smLen msg sk h

/-- non-vacuity (toy hash): a 3-byte buffer for a 1-byte message — `Err` in the source, a panic without the tests -/
example :
    let H : Bytes → Bytes := fun x => List.replicate 64 (UInt8.ofNat x.length)
    Model.SignView.signCombinedRaw H 3 [1] (zeros 64) = .err ∧
    Model.SignView.signCombinedRawWith false true H 3 [1] (zeros 64) = .err ∧
    Model.SignView.signCombinedRawWith false false H 3 [1] (zeros 64) = .panic ∧
    Model.SignView.signCombinedRawWith false false H 70 [1] (zeros 64) = .panic := by
  decide +kernel

/-- **`SigningKeyPair::sign` / `sign_with_defaults` with a `Vec<u8>` / `&[u8]` secret key** (/repo/src/sign.rs:
`self.secret_key.as_array()`; `Model.SignView.objSign`): PANICS iff the container holds fewer than 64 bytes, never
`Err`, otherwise signs with the FIRST 64 bytes (which for a longer container is NOT `signDetached` on the whole
container: that would hash all of `sk[32..]` as the public key).  `IncrementalSigner::finalize` likewise
(`objSignIncremental_cases`). -/
theorem objSign_cases (H : Bytes → Bytes) (msg sk : Bytes) :
    (Model.SignView.objSign H msg sk = .panic ↔ sk.length < 64) ∧
    (64 ≤ sk.length → Model.SignView.objSign H msg sk = .ok (signDetached H msg (sk.take 64) false)) ∧
    Model.SignView.objSign H msg sk ≠ .err :=
  Proofs.SignRound.objSign_cases H msg sk

theorem objSignIncremental_cases (H : Bytes → Bytes) (cs : List Bytes) (sk : Bytes) :
    (Model.SignView.objSignIncremental H cs sk = .panic ↔ sk.length < 64) ∧
    (64 ≤ sk.length →
      Model.SignView.objSignIncremental H cs sk = .ok (Model.Sign.signPh H cs (sk.take 64))) ∧
    Model.SignView.objSignIncremental H cs sk ≠ .err :=
  Proofs.SignRound.objSignIncremental_cases H cs sk

/-- `SigningKeyPair::from_secret_key`: `secret_key.as_slice()[..32]` panics below 32 bytes; everything after the seed
is ignored -/
theorem objFromSecretKey_cases (H : Bytes → Bytes) (sk : Bytes) :
    (Model.SignView.objFromSecretKey H sk = .panic ↔ sk.length < 32) ∧
    (32 ≤ sk.length → Model.SignView.objFromSecretKey H sk = .ok (seedKeypair H (sk.take 32))) :=
  Proofs.SignRound.objFromSecretKey_cases H sk

/-- non-vacuity (toy hash): 63 bytes panic; 64 sign; 65 sign with the first 64, which differs from signing with all 65 -/
example :
    let H : Bytes → Bytes := fun x => List.replicate 64 (UInt8.ofNat (x.length + 7))
    Model.SignView.objSign H [1] (zeros 63) = .panic ∧
    Model.SignView.objSign H [1] (zeros 64) = .ok (signDetached H [1] (zeros 64) false) ∧
    Model.SignView.objSign H [1] (zeros 65) = .ok (signDetached H [1] (zeros 64) false) ∧
    signDetached H [1] (zeros 65) false ≠ signDetached H [1] (zeros 64) false := by
  decide +kernel

/-- `SignedMessage::from_bytes` splits at 64 -/
theorem fromBytes_split (sig m : Bytes) (h : sig.length = 64) :
    fromBytes (sig ++ m) = .ok (sig, m) := by
  unfold fromBytes
  rw [List.take_left' h, List.drop_left' h]
  simp [h]

theorem fromBytes_short (bs : Bytes) (h : bs.length < 64) : fromBytes bs = .err := by
  simp [fromBytes, h]

/-- `from_bytes ∘ sign_combined` recovers (signature, message) -/
theorem fromBytes_signCombined (H : Bytes → Bytes) (msg sk : Bytes) :
    fromBytes (signDetached H msg sk false ++ msg) = .ok (signDetached H msg sk false, msg) :=
  fromBytes_split _ _ (signDetached_length H msg sk false)

theorem short_combined_rejected (H : Bytes → Bytes) (n : Nat) (sm pk : Bytes)
    (h : sm.length < 64) : signOpen H n sm pk = .err := by
  simp [signOpen, h]

theorem signOpen_wrong_buffer (H : Bytes → Bytes) (n : Nat) (sm pk : Bytes)
    (h : n ≠ sm.length - 64) : signOpen H n sm pk = .err := by
  unfold signOpen; rw [if_pos h]; split <;> rfl

theorem signOpen_never_panics (H : Bytes → Bytes) (n : Nat) (sm pk : Bytes) :
    signOpen H n sm pk ≠ .panic := by
  unfold signOpen; repeat' split
  all_goals simp

/-- `crypto_sign_open` returns a message iff the buffer lengths fit and
`verifyDetached` accepts the first 64 bytes as a signature of the rest — and then the
message returned is that rest -/
theorem signOpen_ok_iff (H : Bytes → Bytes) (n : Nat) (sm pk m : Bytes) :
    signOpen H n sm pk = .ok m ↔
      64 ≤ sm.length ∧ n = sm.length - 64 ∧ m = sm.drop 64 ∧
      verifyDetached H (sm.take 64) (sm.drop 64) pk false = true := by
  unfold signOpen
  by_cases h1 : sm.length < 64
  · simp [h1]
  · by_cases h2 : n = sm.length - 64
    · by_cases h3 : verifyDetached H (sm.take 64) (sm.drop 64) pk false = true
      · simp [h1, h2, h3, eq_comm]; intro _; omega
      · simp [h1, h2, h3]
    · simp [h1, h2]

/-- open ∘ combined-sign: accepted iff the detached signature verifies -/
theorem signOpen_signed (H : Bytes → Bytes) (sig msg pk : Bytes) (h : sig.length = 64) :
    signOpen H msg.length (sig ++ msg) pk =
      if verifyDetached H sig msg pk false then .ok msg else .err := by
  unfold signOpen
  rw [List.take_left' h, List.drop_left' h]
  simp [h]

/-! ## 3. canonical scalar, lengths -/

/-- a non-canonical `S` (≥ L) is rejected — every signature, message, key, mode, hash -/
theorem noncanonical_S_rejected (H : Bytes → Bytes) (sig msg pk : Bytes) (ph : Bool)
    (h : L ≤ le (sig.drop 32)) : verifyDetached H sig msg pk ph = false := by
  rw [← Bool.not_eq_true, verifyDetached_true_iff]
  rintro ⟨-, -, h3, -⟩; omega

/-- malleability by adding multiples of L: `R ‖ (S + k·L)` is rejected for every
`k ≥ 1` (whenever it fits in 32 bytes; if it does not, `toLE` truncates and the value
is a different one) -/
theorem S_plus_kL_rejected (H : Bytes → Bytes) (Rb msg pk : Bytes) (ph : Bool) (S k : Nat)
    (hR : Rb.length = 32) (hk : 1 ≤ k) (hfit : S + k * L < 2 ^ 256) :
    verifyDetached H (Rb ++ toLE 32 (S + k * L)) msg pk ph = false := by
  apply noncanonical_S_rejected
  rw [List.drop_left' hR, le_toLE_of_lt (by simpa using hfit)]
  calc L = 1 * L := (Nat.one_mul L).symm
    _ ≤ k * L := Nat.mul_le_mul_right L hk
    _ ≤ S + k * L := Nat.le_add_left _ _

/-- TRUE BY THE TOTALISING GUARD of the model (see the header): the Rust verifier takes `&[u8; 64]` and
`&[u8; 32]`, so "wrong length" cannot be passed to it; this theorem only says that the first line of
`Model.Sign.verifyDetached` — added to make the function total on lists — answers `false`.  For
variable-length containers the object API PANICS on a shorter and TRUNCATES a longer argument
(`C04.objVerifyMessage_cases`). -/
theorem wrong_length_rejected (H : Bytes → Bytes) (sig msg pk : Bytes) (ph : Bool)
    (h : sig.length ≠ 64 ∨ pk.length ≠ 32) : verifyDetached H sig msg pk ph = false := by
  rw [← Bool.not_eq_true, verifyDetached_true_iff]
  rintro ⟨h1, h2, -⟩; cases h <;> contradiction

/-! ## 4. small order, undecodable -/

theorem smallorder_R_rejected (H : Bytes → Bytes) (sig msg pk : Bytes) (ph : Bool) (R : Point)
    (hR : decodePointLax (sig.take 32) = some R) (hso : isSmallOrder R = true) :
    verifyDetached H sig msg pk ph = false := by
  rw [← Bool.not_eq_true, verifyDetached_true_iff]
  rintro ⟨-, -, -, R', A, hR', hso', -⟩
  rw [hR] at hR'; cases hR'; rw [hso] at hso'; cases hso'

theorem smallorder_A_rejected (H : Bytes → Bytes) (sig msg pk : Bytes) (ph : Bool) (A : Point)
    (hA : decodePointLax pk = some A) (hso : isSmallOrder A = true) :
    verifyDetached H sig msg pk ph = false := by
  rw [← Bool.not_eq_true, verifyDetached_true_iff]
  rintro ⟨-, -, -, R', A', -, -, hA', hso', -⟩
  rw [hA] at hA'; cases hA'; rw [hso] at hso'; cases hso'

theorem undecodable_rejected (H : Bytes → Bytes) (sig msg pk : Bytes) (ph : Bool)
    (h : decodePointLax (sig.take 32) = none ∨ decodePointLax pk = none) :
    verifyDetached H sig msg pk ph = false := by
  rw [← Bool.not_eq_true, verifyDetached_true_iff]
  rintro ⟨-, -, -, R', A', hR, -, hA, -⟩
  cases h with
  | inl h => rw [h] at hR; cases hR
  | inr h => rw [h] at hA; cases hA

/-- **Small-order sweep, `R` position.**  For every entry `e` of libsodium's 7-entry
small-order table and both values of the sign bit (bit 255 clear: `setSign e false = e`;
set: `setSign e true`) — 14 encodings, pairwise different (`blacklist14_nodup`) — a
signature whose first 32 bytes are that encoding is rejected by `verifyDetached`,
whatever the remaining signature bytes `s`, message, public key, mode and hash function.
(Each of the 14 IS accepted by the lenient decoder and decodes to a point with
`[8]P = identity`: `blacklist_decodes_small`, one kernel evaluation of the finite table.) -/
theorem blacklist_R_rejected (H : Bytes → Bytes) (e : Bytes) (he : e ∈ smallOrderBlacklist)
    (sgn : Bool) (s m pk : Bytes) (ph : Bool) :
    verifyDetached H (Proofs.SignExtra.setSign e sgn ++ s) m pk ph = false :=
  Proofs.SignExtra.blacklist_R_rejected H e he sgn s m pk ph

/-- **Small-order sweep, public-key position**: each of the 14 encodings is rejected as a
public key, for every signature, message, mode and hash function. -/
theorem blacklist_A_rejected (H : Bytes → Bytes) (e : Bytes) (he : e ∈ smallOrderBlacklist)
    (sgn : Bool) (sig m : Bytes) (ph : Bool) :
    verifyDetached H sig m (Proofs.SignExtra.setSign e sgn) ph = false :=
  Proofs.SignExtra.blacklist_A_rejected H e he sgn sig m ph

/-- what the sweep rests on: each of the 14 encodings has 32 bytes, is accepted by the
lenient decoder, and the decoded point has small order -/
theorem blacklist_decodes_small (e : Bytes) (he : e ∈ smallOrderBlacklist) (sgn : Bool) :
    (Proofs.SignExtra.setSign e sgn).length = 32 ∧
    ∃ P, decodePointLax (Proofs.SignExtra.setSign e sgn) = some P ∧ isSmallOrder P = true :=
  Proofs.SignExtra.blacklist_decodes_small e he sgn

/-- the 14 encodings are pairwise different (the sign bit of every table entry is clear) -/
theorem blacklist14_nodup :
    (smallOrderBlacklist.flatMap fun e =>
      [Proofs.SignExtra.setSign e false, Proofs.SignExtra.setSign e true]).Nodup :=
  Proofs.SignExtra.blacklist14_nodup

/-- non-vacuity witness: the table has 7 entries; e.g. the order-4 point `y = 0` with the
sign bit set (`00…00 80`) is one of the 14 and is rejected as `R` and as public key -/
example : smallOrderBlacklist.length = 7 ∧ zeros 32 ∈ smallOrderBlacklist ∧
    Proofs.SignExtra.setSign (zeros 32) true = zeros 31 ++ [0x80] ∧
    verifyDetached Spec.Sha512.sha512 (zeros 31 ++ [0x80] ++ zeros 32) [] tvPk false = false ∧
    verifyDetached Spec.Sha512.sha512 tvSig [] (zeros 31 ++ [0x80]) false = false := by
  have hm : zeros 32 ∈ smallOrderBlacklist := by decide
  have hs : Proofs.SignExtra.setSign (zeros 32) true = zeros 31 ++ [0x80] := by decide
  refine ⟨by decide, hm, hs, ?_, ?_⟩
  · rw [← hs]; exact blacklist_R_rejected _ _ hm true _ _ _ _
  · rw [← hs]; exact blacklist_A_rejected _ _ hm true _ _ _

/-- the acceptance condition as one conjunction.  This is an UNFOLDING of `Model.Sign.verifyDetached` (its nested
`if`s / `match`es read off as a conjunction), not an independent characterisation: it says nothing the definition
does not say. -/
theorem verifyDetached_true_iff (H : Bytes → Bytes) (sig msg pk : Bytes) (ph : Bool) :
    verifyDetached H sig msg pk ph = true ↔
      sig.length = 64 ∧ pk.length = 32 ∧ le (sig.drop 32) < L ∧
      ∃ R A, decodePointLax (sig.take 32) = some R ∧ isSmallOrder R = false ∧
        decodePointLax pk = some A ∧ isSmallOrder A = false ∧
        pointEq (add (scalarMul
            (le (H ((if ph then DOM2PREFIX else []) ++ sig.take 32 ++ pk ++ msg)) % L) (neg A))
          (scalarMul (le (sig.drop 32)) B)) R = true :=
  Proofs.Sign.verifyDetached_true_iff H sig msg pk ph

/-- the pre-hashed front end is `verifyDetached` on the hash of the concatenation (`rfl`: it is the definition).
MODELLING NOTE, here and in `signDetached` / `verifyDetached`: the Rust feeds SHA-512 through SEPARATE calls —
`hasher.update(DOM2PREFIX)` (pre-hashed mode), `hasher.update(&signature[..32])`, `hasher.update(public_key)`,
`hasher.update(message)`, then `finalize()` — while the model applies `H` ONCE to the concatenation
`dom ++ R ++ A ++ msg` (`Model/Sign.lean`).  That `update(a); update(b); update(c)` hashes `a ‖ b ‖ c` is a property
of the `sha2` crate's incremental hasher, which is dependency code and is not modelled; it is exercised
differentially only. -/
theorem verifyPh_eq (H : Bytes → Bytes) (cs : List Bytes) (sig pk : Bytes) :
    verifyPh H cs sig pk = verifyDetached H sig (H cs.flatten) pk true := rfl

/-! ## 5. verify ∘ sign — algebraic core over an abstract group -/

/-- **Algebraic core of `verify ∘ sign = true`.**  In ANY additive commutative group `G`
(Mathlib's `AddCommGroup`) with an element `B` such that `L • B = 0`, for all naturals
`a r k`, with `A = a • B`, `R = r • B`, `S = (r + k·a) mod L`:  `S • B − k • A = R`.

This is a theorem about abstract groups only.  That curve25519-dalek's Edwards
arithmetic (or the `Spec.Ed25519` functions standing for it) instantiates such a group,
with `B` of order `L`, is NOT proved anywhere in this development. -/
theorem verify_sign {G : Type _} [AddCommGroup G] (B : G) (L : ℕ) (hB : L • B = 0) (a r k : ℕ) :
    ((r + k * a) % L) • B - k • (a • B) = r • B :=
  Proofs.SignGroup.verify_sign B L hB a r k

/-- **verify ∘ sign = true for the model**, both modes, any hash `H`, any 32-byte seed,
key pair from `seedKeypair` — CONDITIONAL on
* `I : EdwardsInterp G valid φ`: the UNPROVED hypothesis that the curve functions
  `add`/`neg`/`scalarMul`/`pointEq` act as a commutative group through an interpretation
  `φ` on `valid` points, that `[L]B = 0`, and that lenient decoding inverts encoding.
  BLUNTLY: no instance of `EdwardsInterp` exists in this development, for any `G`,
  `valid`, `φ`; its satisfiability is UNKNOWN as far as Lean is concerned (it is the
  textbook statement that the twisted Edwards curve is a group and that `B` has order
  `L`, which we did not formalise).  Until someone constructs an instance this theorem
  establishes nothing unconditional about the model, let alone about dalek; the only
  unconditional evidence for verify ∘ sign is the kernel-checked RFC 8032 vectors below
  (TEST 1, TEST 2, the Ed25519ph vector) and the differential runs;
* neither the decoded `R` nor the decoded public key has small order (dryoc rejects its
  own signature otherwise, e.g. when `r ≡ 0 mod L`). -/
theorem verify_sign_model {G : Type _} [AddCommGroup G] {valid : Point → Prop} {φ : Point → G}
    (I : Proofs.SignGroup.EdwardsInterp G valid φ) (H : Bytes → Bytes)
    (seed msg : Bytes) (ph : Bool) (hseed : seed.length = 32)
    (hRso : ∀ P, decodePointLax
        ((signDetached H msg (seedKeypair H seed).2 ph).take 32) = some P → isSmallOrder P = false)
    (hAso : ∀ P, decodePointLax (seedKeypair H seed).1 = some P → isSmallOrder P = false) :
    verifyDetached H (signDetached H msg (seedKeypair H seed).2 ph) msg (seedKeypair H seed).1 ph
      = true :=
  Proofs.SignGroup.verify_sign_of_interp I H seed msg ph hseed hRso hAso

/-- **The public key dryoc derives is RFC 8032's, for every seed** — CONDITIONAL on the
named curve facts only: `I : EdwardsInterpEnc` = `EdwardsInterp` plus the field
`encode_congr` ("valid representatives of the same group element encode to the same
32 bytes").  dryoc/dalek compute `[a mod L]B`, RFC 8032 `[a]B`; they agree by `[L]B = 0`.
Same bluntness as for `verify_sign_model`: no instance of `EdwardsInterpEnc` exists here. -/
theorem seedKeypair_pk_eq_spec {G : Type _} [AddCommGroup G] {valid : Point → Prop}
    {φ : Point → G} (I : Proofs.SignGroup.EdwardsInterpEnc G valid φ) (seed : Bytes) :
    (seedKeypair Spec.Sha512.sha512 seed).1 = publicKey seed :=
  Proofs.SignGroup.seedKeypair_pk_eq_publicKey I seed

/-- **Signing with a generated key pair is RFC 8032 `sign`, for every 32-byte seed and every
message** — this removes the hypothesis `hpk` of `sign_model_eq_spec` for key pairs made by
`crypto_sign_seed_keypair`, conditional on the named curve facts `I` only. -/
theorem sign_seedKeypair_eq_spec {G : Type _} [AddCommGroup G] {valid : Point → Prop}
    {φ : Point → G} (I : Proofs.SignGroup.EdwardsInterpEnc G valid φ) (seed msg : Bytes)
    (hseed : seed.length = 32) :
    signDetached Spec.Sha512.sha512 msg (seedKeypair Spec.Sha512.sha512 seed).2 false
      = Spec.Ed25519.sign seed msg :=
  Proofs.SignGroup.sign_seedKeypair_eq_signCore I seed msg false hseed

/-- the same for the pre-hashed mode (see the caveat at `signPh_model_eq_spec` about what
`signPh` models) -/
theorem signPh_seedKeypair_eq_spec {G : Type _} [AddCommGroup G] {valid : Point → Prop}
    {φ : Point → G} (I : Proofs.SignGroup.EdwardsInterpEnc G valid φ) (seed : Bytes)
    (cs : List Bytes) (hseed : seed.length = 32) :
    Model.Sign.signPh Spec.Sha512.sha512 cs (seedKeypair Spec.Sha512.sha512 seed).2
      = Spec.Ed25519.signPh seed cs.flatten :=
  Proofs.SignGroup.sign_seedKeypair_eq_signCore I seed _ true hseed

/-- The CONCLUSIONS of the three conditional theorems above do hold, unconditionally, on the
RFC 8032 vectors (kernel-checked) — evidence that the hypotheses are not contradictory
with the actual arithmetic, though NOT an instance of `EdwardsInterpEnc` -/
example : (seedKeypair Spec.Sha512.sha512 tvSeed).1 = publicKey tvSeed ∧
    signDetached Spec.Sha512.sha512 [] (seedKeypair Spec.Sha512.sha512 tvSeed).2 false
      = Spec.Ed25519.sign tvSeed [] := by
  have hk := tv_keypair
  have h1 : tvSk.take 32 = tvSeed := List.take_left' (by decide)
  have h2 : tvSk.drop 32 = tvPk := List.drop_left' (by decide)
  refine ⟨by rw [hk, tv_pk], ?_⟩
  rw [hk, ← h1]
  exact sign_model_eq_spec [] tvSk tv_sk_length (by rw [h1, h2, tv_pk])

/-! ### 5b. `verify ∘ sign` without the small-order hypotheses; composed round trips -/

/-- **verify ∘ sign = true for the model, small-order side conditions DERIVED.**  Same conclusion as
`verify_sign_model`, under `I : EdwardsInterpOrd` (= `EdwardsInterp` + "`B` has order exactly `L`" + "decoded points are
valid"; still an unproved hypothesis structure without an instance), with `hRso` / `hAso` replaced by
* `hH`  the hash returns at least 32 bytes on the seed (SHA-512 returns 64) — so that the secret scalar is clamped;
  then `A = [a mod L]B` is not of small order because a clamped `a` is not a multiple of `L` (`8L > 2^255`);
* `hr`  the nonce scalar `r = H(dom ‖ prefix ‖ M) mod L` is not `0` (for `r = 0` dryoc does reject its own signature:
  `R` is the neutral element; probability ≈ 2⁻²⁵²). -/
theorem verify_sign_model' {G : Type _} [AddCommGroup G] {valid : Point → Prop} {φ : Point → G}
    (I : Proofs.SignUnique.EdwardsInterpOrd G valid φ) (H : Bytes → Bytes)
    (seed msg : Bytes) (ph : Bool) (hseed : seed.length = 32) (hH : 32 ≤ (H seed).length)
    (hr : nonceR H msg (seedKeypair H seed).2 ph ≠ 0) :
    verifyDetached H (signDetached H msg (seedKeypair H seed).2 ph) msg (seedKeypair H seed).1 ph
      = true :=
  Proofs.SignRound.verify_sign_model' I H seed msg ph hseed hH hr

/-- non-vacuity of the hypotheses other than `I` (RFC 8032 TEST 1 seed, SHA-512, empty message, pure mode) — and the
conclusion holds there by kernel evaluation (`tv_keypair`, `tv_sign`, `tv_verify`) -/
example : tvSeed.length = 32 ∧ 32 ≤ (Spec.Sha512.sha512 tvSeed).length ∧
    nonceR Spec.Sha512.sha512 [] (seedKeypair Spec.Sha512.sha512 tvSeed).2 false ≠ 0 ∧
    verifyDetached Spec.Sha512.sha512
      (signDetached Spec.Sha512.sha512 [] (seedKeypair Spec.Sha512.sha512 tvSeed).2 false) []
      (seedKeypair Spec.Sha512.sha512 tvSeed).1 false = true := by
  refine ⟨by decide, by rw [Proofs.Curve.sha512_length]; decide, ?_, ?_⟩
  · rw [tv_keypair]; decide +kernel
  · rw [tv_keypair]; show verifyDetached _ (signDetached _ [] tvSk false) [] tvPk false = true
    rw [tv_sign]; exact tv_verify

/-- **`crypto_sign_open(crypto_sign(m, sk), pk) = Ok(m)`** (combined mode; key pair from `seedKeypair`), under the
hypotheses of `verify_sign_model'` -/
theorem signOpen_signCombined {G : Type _} [AddCommGroup G] {valid : Point → Prop} {φ : Point → G}
    (I : Proofs.SignUnique.EdwardsInterpOrd G valid φ) (H : Bytes → Bytes) (seed msg : Bytes)
    (hseed : seed.length = 32) (hH : 32 ≤ (H seed).length)
    (hr : nonceR H msg (seedKeypair H seed).2 false ≠ 0) :
    ∃ sm, signCombined H (msg.length + 64) msg (seedKeypair H seed).2 = .ok sm ∧
      signOpen H msg.length sm (seedKeypair H seed).1 = .ok msg :=
  Proofs.SignRound.signOpen_signCombined I H seed msg hseed hH hr

/-- the unconditional half: for ANY keys, open ∘ combined-sign returns the message as soon as the detached signature
verifies -/
theorem signOpen_signCombined_of_verify (H : Bytes → Bytes) (msg sk pk : Bytes)
    (hv : verifyDetached H (signDetached H msg sk false) msg pk false = true) :
    ∃ sm, signCombined H (msg.length + 64) msg sk = .ok sm ∧ signOpen H msg.length sm pk = .ok msg :=
  Proofs.SignRound.signOpen_signCombined_of_verify H msg sk pk hv

/-- non-vacuity of `hv` (RFC 8032 TEST 1) -/
example : verifyDetached Spec.Sha512.sha512 (signDetached Spec.Sha512.sha512 [] tvSk false) [] tvPk false = true := by
  rw [tv_sign]; exact tv_verify

/-- **Ed25519ph round trip** `final_verify ∘ final_create`, also with different chunkings of the same bytes on the
two sides (for the model: see the caveat at `signPh_model_eq_spec`) -/
theorem verifyPh_signPh {G : Type _} [AddCommGroup G] {valid : Point → Prop} {φ : Point → G}
    (I : Proofs.SignUnique.EdwardsInterpOrd G valid φ) (H : Bytes → Bytes) (seed : Bytes)
    (cs cs' : List Bytes) (hcs : cs.flatten = cs'.flatten)
    (hseed : seed.length = 32) (hH : 32 ≤ (H seed).length)
    (hr : nonceR H (H cs.flatten) (seedKeypair H seed).2 true ≠ 0) :
    verifyPh H cs' (Model.Sign.signPh H cs (seedKeypair H seed).2) (seedKeypair H seed).1 = true :=
  Proofs.SignRound.verifyPh_signPh_chunks I H seed cs cs' hcs hseed hH hr

/-- non-vacuity of `hr` in pre-hashed mode (RFC 8032 §7.3 seed, chunks "a"‖"bc" of "abc", SHA-512): the nonce scalar is
not `0` (kernel-evaluated) -/
example : Proofs.SignExtra.phSeed.length = 32 ∧
    nonceR Spec.Sha512.sha512 (Spec.Sha512.sha512 ([[0x61], [0x62, 0x63]] : List Bytes).flatten)
      (seedKeypair Spec.Sha512.sha512 Proofs.SignExtra.phSeed).2 true ≠ 0 := by
  refine ⟨by decide, ?_⟩
  decide +kernel

/-- **object API round trip**: `SignedMessage::verify(pk)` accepts what `SigningKeyPair::sign(m)` produced (code-shaped
functions `Model.SignView.objSign`, `Model.ObjectView.objVerifyMessage`) -/
theorem objVerifyMessage_objSign {G : Type _} [AddCommGroup G] {valid : Point → Prop} {φ : Point → G}
    (I : Proofs.SignUnique.EdwardsInterpOrd G valid φ) (H : Bytes → Bytes) (seed msg : Bytes)
    (hseed : seed.length = 32) (hH : 32 ≤ (H seed).length)
    (hr : nonceR H msg (seedKeypair H seed).2 false ≠ 0) :
    ∃ sig, Model.SignView.objSign H msg (seedKeypair H seed).2 = .ok sig ∧
      Model.ObjectView.objVerifyMessage H sig msg (seedKeypair H seed).1 = .ok () :=
  Proofs.SignRound.objVerifyMessage_objSign I H seed msg hseed hH hr

/-- … and `IncrementalSigner::verify ∘ IncrementalSigner::finalize` -/
theorem objVerifyIncremental_objSignIncremental {G : Type _} [AddCommGroup G] {valid : Point → Prop}
    {φ : Point → G} (I : Proofs.SignUnique.EdwardsInterpOrd G valid φ) (H : Bytes → Bytes)
    (seed : Bytes) (cs : List Bytes) (hseed : seed.length = 32) (hH : 32 ≤ (H seed).length)
    (hr : nonceR H (H cs.flatten) (seedKeypair H seed).2 true ≠ 0) :
    ∃ sig, Model.SignView.objSignIncremental H cs (seedKeypair H seed).2 = .ok sig ∧
      Model.ObjectView.objVerifyIncremental H cs sig (seedKeypair H seed).1 = .ok () :=
  Proofs.SignRound.objVerifyIncremental_objSignIncremental I H seed cs hseed hH hr

/-- the CONCLUSIONS of the round-trip theorems hold unconditionally on the RFC vectors (kernel-checked; pure mode TEST 1
through the combined API and the object API; Ed25519ph §7.3 through the incremental API) -/
example :
    signOpen Spec.Sha512.sha512 0 (signDetached Spec.Sha512.sha512 [] tvSk false ++ []) tvPk = .ok [] ∧
    Model.ObjectView.objVerifyMessage Spec.Sha512.sha512 tvSig [] tvPk = .ok () ∧
    verifyPh Spec.Sha512.sha512 [[0x61, 0x62], [0x63]]
      (Model.Sign.signPh Spec.Sha512.sha512 [[0x61], [0x62, 0x63]]
        (Proofs.SignExtra.phSeed ++ Proofs.SignExtra.phPk)) Proofs.SignExtra.phPk = true := by
  refine ⟨?_, ?_, ?_⟩
  · rw [tv_sign]
    have h := signOpen_signed Spec.Sha512.sha512 tvSig [] tvPk (by decide)
    rw [tv_verify] at h; exact h
  · exact Proofs.ObjectViewExtra.verifyMessage_true_imp_obj _ _ _ _ tv_verify
  · rw [Proofs.SignExtra.ph_sign]; exact Proofs.SignExtra.ph_verify

/-! ## 6. the two modes hash different strings -/

theorem dom2prefix_length : DOM2PREFIX.length = 34 := by decide +kernel

/-- the input of the challenge hash in pre-hashed mode starts with the 32 ASCII bytes
"SigEd25519 no Ed25519 collisions" … -/
theorem ph_input_prefix (Rb A m : Bytes) :
    (DOM2PREFIX ++ Rb ++ A ++ m).take 32 = DOM2PREFIX.take 32 := by
  rw [List.append_assoc, List.append_assoc, List.take_append_of_le_length
    (by rw [dom2prefix_length]; decide)]

/-- … the input in pure mode starts with R -/
theorem pure_input_prefix (Rb A m : Bytes) (hR : Rb.length = 32) :
    (([] : Bytes) ++ Rb ++ A ++ m).take 32 = Rb := by
  rw [List.nil_append, List.append_assoc, List.take_left' hR]

/-- The naive claim "the two inputs always differ" is FALSE — lengths can be shifted: -/
example : ∃ Rb A m Rb' A' m' : Bytes, Rb.length = 32 ∧ A.length = 32 ∧ Rb'.length = 32 ∧
    A'.length = 32 ∧ DOM2PREFIX ++ Rb ++ A ++ m = [] ++ Rb' ++ A' ++ m' :=
  ⟨zeros 32, zeros 32, [], DOM2PREFIX.take 32, [1, 0] ++ zeros 30, zeros 34,
    by decide +kernel⟩

/-- **The true statement**: the inputs differ unless the pure-mode `R` is literally the
ASCII string "SigEd25519 no Ed25519 collisions". -/
theorem ph_vs_pure_inputs_differ (Rb A m Rb' A' m' : Bytes) (hR' : Rb'.length = 32)
    (hne : Rb' ≠ DOM2PREFIX.take 32) :
    DOM2PREFIX ++ Rb ++ A ++ m ≠ [] ++ Rb' ++ A' ++ m' := by
  intro h
  have := congrArg (List.take 32) h
  rw [ph_input_prefix, pure_input_prefix _ _ _ hR'] at this
  exact hne this.symm

/-- … and that string is not the encoding of any point, even for the lenient decoder
(kernel-checked: its y gives a non-square x²) -/
theorem dom2prefix_not_a_point : decodePointLax (DOM2PREFIX.take 32) = none := by
  decide +kernel

/-- **Domain separation.**  If a signature is accepted in PURE mode, then the string
hashed for its challenge `k` differs from the string hashed in PRE-HASHED mode for every
signature, key and prehash.  (So a cross-mode acceptance needs two different SHA-512
inputs that give the same `k`, or a different `k` that satisfies the group equation.) -/
theorem accepted_pure_input_ne_ph_input (H : Bytes → Bytes) (sig msg pk : Bytes)
    (hacc : verifyDetached H sig msg pk false = true) (sig' pk' m' : Bytes) :
    DOM2PREFIX ++ sig'.take 32 ++ pk' ++ m' ≠ [] ++ sig.take 32 ++ pk ++ msg := by
  obtain ⟨h1, -, -, R, A, hR, -⟩ := (Proofs.Sign.verifyDetached_true_iff ..).1 hacc
  apply ph_vs_pure_inputs_differ
  · rw [List.length_take]; omega
  · intro h; rw [h, dom2prefix_not_a_point] at hR; cases hR

/-- the same for everything the signer produces under the group hypothesis is not
needed: already any `R` that decodes separates the inputs -/
theorem decodable_R_separates (sig msg pk : Bytes) (hlen : sig.length = 64)
    (hdec : decodePointLax (sig.take 32) ≠ none) (sig' pk' m' : Bytes) :
    DOM2PREFIX ++ sig'.take 32 ++ pk' ++ m' ≠ [] ++ sig.take 32 ++ pk ++ msg := by
  apply ph_vs_pure_inputs_differ
  · rw [List.length_take]; omega
  · intro h; rw [h] at hdec; exact hdec dom2prefix_not_a_point

/-! ## 7. dalek-style (model) vs libsodium-style (spec) verification -/

/-- the unified addition is symmetric on representations -/
theorem point_add_comm (P Q : Point) : add P Q = add Q P := Proofs.Sign.point_add_comm P Q

/-- **The strict RFC 8032 decoder and the lenient one agree after libsodium's own two tests.**  `verifyCore` decodes the
public key STRICTLY (`decodePoint`: `y ≥ p` refused, `x = 0` with the sign bit set refused) where the code decodes
LENIENTLY (`decodePointLax`) — but only after `ge25519_is_canonical(pk)` and `!ge25519_has_small_order(pk)`, and on
every encoding that passes these two the decoders coincide: `y < p` by canonicity, and `x = 0` forces `y = ±1`, both
of whose encodings are in the small-order table.  UNCONDITIONAL (uses only that `p = 2^255 − 19` is prime,
`Proofs.FieldPrime.p_prime`). -/
theorem decodePoint_eq_lax (pk : Bytes) (hc : isCanonicalPoint pk = true) (hs : hasSmallOrder pk = false) :
    decodePoint pk = decodePointLax pk :=
  Proofs.SignStrictDecode.decodePoint_eq_lax pk hc hs

/-- non-vacuity (RFC 8032 TEST 1 key), and `hs` cannot be dropped: `01 00…00 80` is canonical, accepted by the lenient
decoder, refused by the strict one -/
example : (isCanonicalPoint tvPk = true ∧ hasSmallOrder tvPk = false) ∧
    (let s : Bytes := 1 :: (zeros 30 ++ [0x80])
     isCanonicalPoint s = true ∧ hasSmallOrder s = true ∧ decodePoint s = none ∧
       (decodePointLax s).isSome = true) := by decide +kernel

/-- numeric meaning of a passed `ge25519_is_canonical`: `y < p` (converse of what `noncanonical_*_rejected_spec` use) -/
theorem canonical_y_lt_p (s : Bytes) (h : isCanonicalPoint s = true) : le s % 2 ^ 255 < p :=
  Proofs.SignStrictDecode.canonical_y_lt_p s h

/-- **Model (dalek-style) decision = libsodium-style decision, for every signature / message / key / mode whose `R` half
and public key are CANONICAL encodings** — under the NAMED interpretation `I : EdwardsInterpFull`
(`Proofs/SignRound.lean`: `EdwardsInterpOrd` + `encode_congr`, `encode_decode` "encode ∘ decodeLax = id on canonical,
non-small-order encodings", `small_order_table` "the 7-entry table decides `[8]P = identity`", `order_cases`; an
unproved hypothesis structure without an instance, like its parents) and NO per-input hypothesis about the result.
"Projective comparison ⇔ bytewise comparison" (the `hRcanon` of `verify_model_vs_spec`) is DERIVED here; the agreement
of the two decoders is `decodePoint_eq_lax`.  Outside the canonical encodings libsodium rejects
(`noncanonical_R_rejected_spec`, `noncanonical_pk_rejected_spec`) and the model may accept: enumerated differentially. -/
theorem verify_model_eq_spec_of_canonical {G : Type _} [AddCommGroup G] {valid : Point → Prop} {φ : Point → G}
    (I : Proofs.SignRound.EdwardsInterpFull G valid φ) (sig msg pk : Bytes) (ph : Bool)
    (hR : isCanonicalPoint (sig.take 32) = true) (hA : isCanonicalPoint pk = true) :
    verifyDetached Spec.Sha512.sha512 sig msg pk ph
      = verifyCore (if ph then dom2 1 [] else []) pk msg sig :=
  Proofs.SignRound.verify_model_eq_spec_of_canonical I sig msg pk ph hR hA

/-- non-vacuity of `hR`, `hA` (RFC 8032 TEST 1), and the conclusion holds there without `I` (`tv_model_eq_spec`) -/
example : isCanonicalPoint (tvSig.take 32) = true ∧ isCanonicalPoint tvPk = true ∧
    verifyDetached Spec.Sha512.sha512 tvSig [] tvPk false = verifyCore [] tvPk [] tvSig :=
  ⟨by decide +kernel, tv_A_canon, tv_model_eq_spec⟩

/-- WHAT THIS IS: an older, much weaker form of `verify_model_eq_spec_of_canonical`, kept under its name.  It takes
SIX hypotheses about the very input at hand, and `hRcanon` is — for that input — the equivalence "projective comparison
accepts ⇔ bytewise comparison accepts", i.e. most of the conclusion; `hdec` is redundant given `hcanon` and `hsoA`
(`decodePoint_eq_lax`).  It is a bookkeeping lemma ("the two functions differ in nothing ELSE"), not evidence that the
two verifiers agree.

dryoc's decision (lenient decode, `[8]P = 0` tests, projective comparison) equals
libsodium's strict decision (7-entry blacklist, canonical pk, strict decode, bytewise
comparison of the re-encoded `R'`), with SHA-512, in both modes, under exactly these
hypotheses about the given `sig`, `pk` (none is proved in general):
* `hR`      `R` decodes (leniently) to a point `R`;
* `hRcanon` `sig[0..32]` is THE canonical encoding of `R`: the recomputed point
            `[S]B + [k](−A)` is projectively equal to `R` iff it encodes to those bytes;
* `hdec`    strict and lenient decoding agree on `pk`;
* `hcanon`  `pk` passes libsodium's `ge25519_is_canonical`;
* `hsoR`, `hsoA`  the blacklist decides small order correctly on `R` and on `pk`.
All six are kernel-checked on RFC 8032 TEST 1 (`tv_model_eq_spec`). -/
theorem verify_model_vs_spec (sig msg pk : Bytes) (ph : Bool) (R : Point)
    (hR : decodePointLax (sig.take 32) = some R)
    (hRcanon : ∀ A, decodePointLax pk = some A →
      (pointEq (checkPoint (if ph then dom2 1 [] else []) sig msg pk A) R = true ↔
        encodePoint (checkPoint (if ph then dom2 1 [] else []) sig msg pk A) = sig.take 32))
    (hdec : decodePoint pk = decodePointLax pk)
    (hcanon : isCanonicalPoint pk = true)
    (hsoR : hasSmallOrder (sig.take 32) = isSmallOrder R)
    (hsoA : ∀ A, decodePointLax pk = some A → hasSmallOrder pk = isSmallOrder A) :
    verifyDetached Spec.Sha512.sha512 sig msg pk ph
      = verifyCore (if ph then dom2 1 [] else []) pk msg sig :=
  verify_model_eq_spec' sig msg pk ph R hR hRcanon hdec hcanon hsoR hsoA

/-- both verifiers reject the same malformed inputs outright, with no hypothesis:
wrong lengths and non-canonical S.  The two LENGTH disjuncts are true by the totalising guards that
`verifyDetached` and `verifyCore` both start with (neither the Rust nor the C function can be handed an
array of another length); the content is the third disjunct, `L ≤ S`. -/
theorem both_reject_malformed (sig msg pk : Bytes) (ph : Bool)
    (h : sig.length ≠ 64 ∨ pk.length ≠ 32 ∨ L ≤ le (sig.drop 32)) :
    verifyDetached Spec.Sha512.sha512 sig msg pk ph = false ∧
    verifyCore (if ph then dom2 1 [] else []) pk msg sig = false := by
  constructor
  · rcases h with h | h | h
    · exact wrong_length_rejected _ _ _ _ _ (Or.inl h)
    · exact wrong_length_rejected _ _ _ _ _ (Or.inr h)
    · exact noncanonical_S_rejected _ _ _ _ _ h
  · rw [← Bool.not_eq_true, verifyCore_true_iff]
    rintro ⟨h1, h2, h3, -⟩
    rcases h with h | h | h
    · exact h h1
    · exact h h2
    · omega

/-! ## non-vacuity (RFC 8032 §7.1 TEST 1, every fact checked by the kernel) -/

/-- the hypotheses of `sign_model_eq_spec` hold for the RFC key … -/
example : tvSk.length = 64 ∧ tvSk.drop 32 = publicKey (tvSk.take 32) :=
  ⟨tv_sk_length, by
    have h1 : tvSk.take 32 = tvSeed := List.take_left' (by decide)
    have h2 : tvSk.drop 32 = tvPk := List.drop_left' (by decide)
    rw [h1, h2, tv_pk]⟩

/-- … which is the key pair `seedKeypair` makes, the model signs to the RFC's signature,
and the model accepts it -/
example : seedKeypair Spec.Sha512.sha512 tvSeed = (tvPk, tvSk) ∧
    signDetached Spec.Sha512.sha512 [] tvSk false = tvSig ∧
    verifyDetached Spec.Sha512.sha512 tvSig [] tvPk false = true ∧
    verifyDetached Spec.Sha512.sha512 tvSig [] tvPk true = false :=
  ⟨tv_keypair, tv_sign, tv_verify, tv_verify_ph⟩

/-- through `sign_model_eq_spec`: RFC 8032 `sign` gives the RFC's signature -/
example : Spec.Ed25519.sign tvSeed [] = tvSig := by
  have h1 : tvSk.take 32 = tvSeed := List.take_left' (by decide)
  have h2 : tvSk.drop 32 = tvPk := List.drop_left' (by decide)
  rw [← h1, ← sign_model_eq_spec [] tvSk tv_sk_length (by rw [h1, h2, tv_pk])]
  exact tv_sign

/-- `S + L` on the RFC signature is rejected -/
example : verifyDetached Spec.Sha512.sha512
    (tvSig.take 32 ++ toLE 32 (le (tvSig.drop 32) + 1 * L)) [] tvPk false = false :=
  S_plus_kL_rejected _ _ _ _ _ _ 1 (by decide) (Nat.le_refl 1) (by decide +kernel)

/-- the hypotheses of `verify_model_vs_spec` are jointly satisfiable -/
example : verifyDetached Spec.Sha512.sha512 tvSig [] tvPk false = verifyCore [] tvPk [] tvSig :=
  tv_model_eq_spec

/-- `verify_model_vs_spec` with `ph = true`: all six hypotheses hold on the RFC 8032 §7.3
Ed25519ph vector ("abc"), and both sides are `true` -/
example : verifyDetached Spec.Sha512.sha512 Proofs.SignExtra.phSig Proofs.SignExtra.phHash
      Proofs.SignExtra.phPk true
    = verifyCore (if true = true then dom2 1 [] else []) Proofs.SignExtra.phPk
      Proofs.SignExtra.phHash Proofs.SignExtra.phSig ∧
    verifyDetached Spec.Sha512.sha512 Proofs.SignExtra.phSig Proofs.SignExtra.phHash
      Proofs.SignExtra.phPk true = true :=
  ⟨verify_model_vs_spec _ _ _ true _ Proofs.SignExtra.ph_R_decodes Proofs.SignExtra.ph_hRcanon
      Proofs.SignExtra.ph_dec_eq Proofs.SignExtra.ph_A_canon Proofs.SignExtra.ph_R_so
      Proofs.SignExtra.ph_hsoA,
    Proofs.SignExtra.ph_verify_detached⟩

/-- the pre-hashed front ends on the RFC 8032 §7.3 vector: signing "a"‖"bc" gives the RFC's
signature, verifying "ab"‖"c" accepts it, pure mode rejects it -/
example : Model.Sign.signPh Spec.Sha512.sha512 [[0x61], [0x62, 0x63]]
      (Proofs.SignExtra.phSeed ++ Proofs.SignExtra.phPk) = Proofs.SignExtra.phSig ∧
    verifyPh Spec.Sha512.sha512 [[0x61, 0x62], [0x63]] Proofs.SignExtra.phSig
      Proofs.SignExtra.phPk = true ∧
    verifyDetached Spec.Sha512.sha512 Proofs.SignExtra.phSig Proofs.SignExtra.phHash
      Proofs.SignExtra.phPk false = false :=
  ⟨Proofs.SignExtra.ph_sign, Proofs.SignExtra.ph_verify, Proofs.SignExtra.ph_verify_pure⟩

/-- `signOpen_ok_iff` with an ACCEPTING input (RFC 8032 §7.1 TEST 2, message `72`): the
right-hand side holds, hence `crypto_sign_open` returns the message -/
example : signOpen Spec.Sha512.sha512 1 (Proofs.SignExtra.tv2Sig ++ Proofs.SignExtra.tv2Msg)
    Proofs.SignExtra.tv2Pk = .ok Proofs.SignExtra.tv2Msg := by
  rw [signOpen_ok_iff]
  have hl : Proofs.SignExtra.tv2Sig.length = 64 := by decide
  refine ⟨by decide, by decide, ?_, ?_⟩
  · rw [List.drop_left' hl]
  · rw [List.take_left' hl, List.drop_left' hl]; exact Proofs.SignExtra.tv2_verify

/-- … and a one-bit change of the message makes the same call fail -/
example : signOpen Spec.Sha512.sha512 1 (Proofs.SignExtra.tv2Sig ++ [0x73])
    Proofs.SignExtra.tv2Pk = .err := by decide +kernel

/-- small-order rejection is not vacuous: the identity encodes as `01 00…00`, decodes,
and has small order -/
example : ∃ R, decodePointLax ((1 :: zeros 63 : Bytes).take 32) = some R ∧
    isSmallOrder R = true :=
  ⟨(decodePointLax ((1 :: zeros 63 : Bytes).take 32)).getD identity,
    some_getD (by decide +kernel) _, by decide +kernel⟩

/-! ## 8. uniqueness of `S`; non-canonical point encodings -/

/-- **An accepted signature's `S` half is unique.**  If two 64-byte strings with the same first 32 bytes (`R`) are
both accepted by `crypto_sign_verify_detached` for the same public key, message and mode, they are equal.
This is the provable half of "any change to a bit of the signature is rejected": it covers every change confined
to `sig[32..64]` (for a change in `sig[0..32]` the challenge `k = H(R‖A‖M)` changes, and rejection is a property
of SHA-512 that cannot be a theorem).
CONDITIONAL on `I : EdwardsInterpOrd` = `EdwardsInterp` (curve arithmetic is a group through `φ` on `valid`
points) extended with `order_exact : ∀ n, n • φ B = 0 → L ∣ n` (the base point has order exactly `L`) and
`decode_valid` (the lenient decoder returns valid points).  Same bluntness as for `verify_sign_model`: these are
named, unproved curve facts; no instance of the structure exists in this development. -/
theorem S_unique {G : Type _} [AddCommGroup G] {valid : Point → Prop} {φ : Point → G}
    (I : Proofs.SignUnique.EdwardsInterpOrd G valid φ) (H : Bytes → Bytes) (sig₁ sig₂ msg pk : Bytes)
    (ph : Bool) (hR : sig₁.take 32 = sig₂.take 32)
    (h₁ : verifyDetached H sig₁ msg pk ph = true) (h₂ : verifyDetached H sig₂ msg pk ph = true) :
    sig₁ = sig₂ :=
  Proofs.SignUnique.S_unique I H sig₁ sig₂ msg pk ph hR h₁ h₂

/-- rejection form: next to an accepted signature, every other string with the same `R` is rejected (under the
same hypothesis structure) -/
theorem S_change_rejected {G : Type _} [AddCommGroup G] {valid : Point → Prop} {φ : Point → G}
    (I : Proofs.SignUnique.EdwardsInterpOrd G valid φ) (H : Bytes → Bytes) (sig sig' msg pk : Bytes)
    (ph : Bool) (hacc : verifyDetached H sig msg pk ph = true) (hR : sig'.take 32 = sig.take 32)
    (hne : sig' ≠ sig) : verifyDetached H sig' msg pk ph = false :=
  Proofs.SignUnique.S_change_rejected I H sig sig' msg pk ph hacc hR hne

/-- non-vacuity witness for the hypotheses of `S_unique` / `S_change_rejected` OTHER than `I` (RFC 8032 TEST 1 is
accepted), and a kernel-checked instance of the CONCLUSION of `S_change_rejected` that does not go through `I`:
the same signature with the lowest bit of `S` flipped (same `R`, different string) is rejected -/
example : verifyDetached Spec.Sha512.sha512 tvSig [] tvPk false = true ∧
    (tvSig.modify 32 (· ^^^ 1)).take 32 = tvSig.take 32 ∧ tvSig.modify 32 (· ^^^ 1) ≠ tvSig ∧
    verifyDetached Spec.Sha512.sha512 (tvSig.modify 32 (· ^^^ 1)) [] tvPk false = false :=
  ⟨tv_verify, by decide, by decide, by decide +kernel⟩

/-- **libsodium side: a non-canonical public key is rejected** (`ge25519_is_canonical(pk) == 0`), for every
signature, message and mode.  The MODEL side has no such rule: dalek's lenient decompression reduces `y` mod `p`,
so `Model.Sign.verifyDetached` MAY accept a signature under such a key.  Of the 38 non-canonical encodings
(`y ∈ [p, 2²⁵⁵)`, two sign bits) 4 are in the small-order table (rejected by both, `blacklist_A_rejected`); for
the others the two verifiers can differ, and that family is ENUMERATED in the differential run only — there is no
theorem that the model rejects (or accepts) them. -/
theorem noncanonical_pk_rejected_spec (dom pk m sig : Bytes) (h : isCanonicalPoint pk = false) :
    verifyCore dom pk m sig = false :=
  Proofs.SignCanon.noncanonical_pk_rejected_spec dom pk m sig h

/-- every output of the encoder is canonical (`y < p`) … -/
theorem encodePoint_canonical (P : Point) : isCanonicalPoint (encodePoint P) = true :=
  Proofs.SignCanon.encodePoint_canonical P

/-- … hence, **libsodium side: a signature with a non-canonical `R` is rejected** — not by an explicit test but
because the recomputed point is re-encoded (canonically) and compared bytewise with `sig[0..32]`.  The MODEL side
compares projectively after a lenient decode and may accept (same remark, same enumerated-only family as for the
public key). -/
theorem noncanonical_R_rejected_spec (dom pk m sig : Bytes) (h : isCanonicalPoint (sig.take 32) = false) :
    verifyCore dom pk m sig = false :=
  Proofs.SignCanon.noncanonical_R_rejected_spec dom pk m sig h

/-- non-vacuity witness, and the reason the model side is left open: the encoding `y = p + 3` (`f0 ff … ff 7f`) is
non-canonical, NOT in the small-order table, is refused by the strict RFC 8032 decoder, but IS accepted by the
lenient decoder, to a point that is not of small order — so none of `verifyDetached`'s own rejection rules fires
on it as a public key or as `R` -/
example : let s : Bytes := 0xf0 :: (List.replicate 30 0xff ++ [0x7f])
    isCanonicalPoint s = false ∧ hasSmallOrder s = false ∧ decodePoint s = none ∧
    ∃ P, decodePointLax s = some P ∧ isSmallOrder P = false :=
  ⟨by decide +kernel, by decide +kernel, by decide +kernel,
    (decodePointLax (0xf0 :: (List.replicate 30 0xff ++ [0x7f]))).getD identity,
    some_getD (by decide +kernel) _, by decide +kernel⟩

/-! ## 9. message mutation: only through `k` -/

/-- the challenge scalar `k = H(dom ‖ R ‖ A ‖ M) mod L` -/
abbrev kOf := Proofs.SignRound.kOf

/-- **The message enters `crypto_sign_verify_detached` ONLY through `k = H(dom ‖ R ‖ A ‖ M) mod L`**: two messages
with the same `k` (for this `R`, key, mode) get the same verdict — any hash function, unconditional.  Hence "any change
to a bit of the message is rejected" is EXACTLY "SHA-512 mod `L` does not collide on the two inputs"; that is a
property of SHA-512 and is not (cannot be) a theorem here.  The same holds for a change in `sig[0..32]` as far as `k` is
concerned; for the public key there is no theorem at all (differential only, see the header). -/
theorem verify_msg_only_via_k (H : Bytes → Bytes) (sig msg msg' pk : Bytes) (ph : Bool)
    (hk : kOf H ph (sig.take 32) pk msg = kOf H ph (sig.take 32) pk msg') :
    verifyDetached H sig msg pk ph = verifyDetached H sig msg' pk ph :=
  Proofs.SignRound.verify_msg_only_via_k H sig msg msg' pk ph hk

/-- non-vacuity of `hk` with `msg ≠ msg'` (a toy hash that ignores its input collides on everything) -/
example : ([1] : Bytes) ≠ [2] ∧
    kOf (fun _ => zeros 64) false (tvSig.take 32) tvPk [1] = kOf (fun _ => zeros 64) false (tvSig.take 32) tvPk [2] :=
  ⟨by decide, rfl⟩

/-- **Under the named interpretation: the same `(R, S, A)` accepted for two messages forces `k = k'`** (both `< L`, so
this is `k ≡ k' mod L`).  CONDITIONAL on `I : EdwardsInterpFull` (uses `order_cases`: the public key, not being of small
order, has order divisible by `L`). -/
theorem msg_change_needs_k_collision {G : Type _} [AddCommGroup G] {valid : Point → Prop} {φ : Point → G}
    (I : Proofs.SignRound.EdwardsInterpFull G valid φ) (H : Bytes → Bytes) (sig msg msg' pk : Bytes) (ph : Bool)
    (h₁ : verifyDetached H sig msg pk ph = true) (h₂ : verifyDetached H sig msg' pk ph = true) :
    kOf H ph (sig.take 32) pk msg = kOf H ph (sig.take 32) pk msg' :=
  Proofs.SignRound.msg_change_needs_k_collision I H sig msg msg' pk ph h₁ h₂

/-- both directions: next to an accepted `(sig, msg, pk)`, `sig` is accepted for `msg'` iff the challenge scalars collide -/
theorem msg_change_accepted_iff {G : Type _} [AddCommGroup G] {valid : Point → Prop} {φ : Point → G}
    (I : Proofs.SignRound.EdwardsInterpFull G valid φ) (H : Bytes → Bytes) (sig msg msg' pk : Bytes) (ph : Bool)
    (hacc : verifyDetached H sig msg pk ph = true) :
    verifyDetached H sig msg' pk ph = true ↔ kOf H ph (sig.take 32) pk msg = kOf H ph (sig.take 32) pk msg' :=
  Proofs.SignRound.msg_change_accepted_iff I H sig msg msg' pk ph hacc

/-- non-vacuity of `h₁` (RFC 8032 TEST 1 is accepted) and an instance of the contrapositive that does not go through `I`:
the one-byte message `72` has a different `k` and IS rejected with that signature (kernel-checked) -/
example : verifyDetached Spec.Sha512.sha512 tvSig [] tvPk false = true ∧
    kOf Spec.Sha512.sha512 false (tvSig.take 32) tvPk [] ≠ kOf Spec.Sha512.sha512 false (tvSig.take 32) tvPk [0x72] ∧
    verifyDetached Spec.Sha512.sha512 tvSig [0x72] tvPk false = false :=
  ⟨tv_verify, by decide +kernel, by decide +kernel⟩

end DryocVerif.Properties.C06

section AxiomCheck
open DryocVerif.Properties.C06
#print axioms S_unique
#print axioms S_change_rejected
#print axioms noncanonical_pk_rejected_spec
#print axioms noncanonical_R_rejected_spec
#print axioms encodePoint_canonical
#print axioms sign_model_eq_signCoreA
#print axioms sign_seedKeypair_eq_signCoreA
#print axioms sign_seedKeypair_eq_spec_of_pk
#print axioms decodePoint_eq_lax
#print axioms verify_model_eq_spec_of_canonical
#print axioms verify_sign_model'
#print axioms signOpen_signCombined
#print axioms verifyPh_signPh
#print axioms objVerifyMessage_objSign
#print axioms objSign_cases
#print axioms signCombinedRaw_eq
#print axioms signCombinedNoGuard_panics
#print axioms verify_msg_only_via_k
#print axioms msg_change_needs_k_collision
end AxiomCheck
