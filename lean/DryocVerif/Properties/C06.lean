import DryocVerif.Model.Curve
import DryocVerif.Model.Sign
namespace DryocVerif.Properties.C06
open DryocVerif

/-- key derivation rejects exactly the lengths outside 16..=64 -/
theorem kdf_err_iff (P : Model.Curve.Prims) (len id : Nat) (ctx key : Bytes) :
    Model.Curve.kdfDerive P len id ctx key = .err ↔ len < 16 ∨ 64 < len := by
  unfold Model.Curve.kdfDerive; split <;> simp_all

end DryocVerif.Properties.C06
