import DryocVerif.Model.Sign
import DryocVerif.Proofs.Sign
import DryocVerif.Proofs.SignGroup
import DryocVerif.Proofs.SignVectors
/-!
# C06 — Ed25519 signing glue (`Model/Sign.lean`)

The model mirrors `/repo/src/classic/crypto_sign_ed25519.rs`, `crypto_sign.rs`, `sign.rs`:
dryoc's own sequence of hashing, reduction and encoding around curve25519-dalek's
Edwards arithmetic.  The curve operations are those of `Spec.Ed25519` (RFC 8032 on
`Nat` mod p); SHA-512 is a parameter `H` wherever the statement does not need it to be
SHA-512.

What is proved unconditionally (for the model):
* signing is RFC 8032 `signCore` byte for byte, both modes (`sign_model_eq_spec`,
  `signPh_model_eq_spec`);
* layout/length/error behaviour of the combined API (`sig_layout`, …);
* every rejection rule of `verifyDetached` (non-canonical S, lengths, small order,
  undecodable), and the exact acceptance condition (`verifyDetached_true_iff`);
* domain separation of the two modes at the level of hash INPUTS
  (`ph_vs_pure_inputs_differ`, `accepted_pure_input_ne_ph_input`).

What is proved only UNDER EXPLICIT, UNPROVED HYPOTHESES:
* `verify_sign` is a theorem about an abstract `AddCommGroup`;
  `verify_sign_model` transfers it to the model under the hypothesis structure
  `EdwardsInterp` ("the Edwards arithmetic is a group; decode ∘ encode = id") — that
  hypothesis is NOT proved, neither for the Lean curve functions nor for dalek;
* `verify_model_vs_spec` (dalek-style vs libsodium-style decision) uses per-input
  hypotheses listed in its docstring.
-/
namespace DryocVerif.Properties.C06
open DryocVerif DryocVerif.Spec.Ed25519 DryocVerif.Model.Sign
open DryocVerif.Proofs.Sign DryocVerif.Proofs.SignVectors

/-! ## 1. signing = RFC 8032 -/

/-- `Model.Sign.DOM2PREFIX` is RFC 8032's `dom2(1, "")` -/
theorem dom2prefix_eq_spec : DOM2PREFIX = dom2 1 [] := dom2prefix_eq

/-- dryoc's clamp (`clamp_hash`) is RFC 7748/8032's, on every input -/
theorem clampHash_eq_spec (h : Bytes) : clampHash h = Spec.X25519.clamp h :=
  clampHash_eq_clamp h

/-- the secret scalar dryoc derives from the seed is `secretExpand`'s, reduced mod L -/
theorem secret_scalar_eq_spec (seed : Bytes) :
    le (clampHash (Spec.Sha512.sha512 seed)) % L = (secretExpand seed).1 % L := by
  simp [secretExpand, Spec.X25519.decodeScalar25519, clampHash_eq_clamp, clamp_take]

/-- `S = (k·(a mod L) mod L + r) mod L` (dryoc/dalek) = `(r + k·a) mod L` (RFC 8032) -/
theorem scalar_eq_spec (k a r : Nat) : (k * (a % L) % L + r) % L = (r + k * a) % L :=
  scalar_arith k a r L

/-- **pure Ed25519**: dryoc's sequence (hash the seed; nonce = H(prefix‖M) mod L;
R = [r]B; k = H(R‖A‖M) mod L; S = (k·(a mod L) + r) mod L) produces exactly the bytes of
RFC 8032 `sign`, whenever the second half of `sk` is the public key of its first half.
(`sk.length = 64` is not even needed.) -/
theorem sign_model_eq_spec (msg sk : Bytes) (_hlen : sk.length = 64)
    (hpk : sk.drop 32 = publicKey (sk.take 32)) :
    signDetached Spec.Sha512.sha512 msg sk false = Spec.Ed25519.sign (sk.take 32) msg :=
  signDetached_eq_signCore msg sk false hpk

/-- the pre-hashed mode on an already computed prehash -/
theorem signPrehashed_model_eq_spec (ph sk : Bytes)
    (hpk : sk.drop 32 = publicKey (sk.take 32)) :
    signDetached Spec.Sha512.sha512 ph sk true = signPhPrehashed (sk.take 32) ph :=
  signDetached_eq_signCore ph sk true hpk

/-- **Ed25519ph**, incremental: for ANY split of the message into chunks, dryoc's
`init; update…; final_create` = RFC 8032 Ed25519ph (empty context) of the concatenation -/
theorem signPh_model_eq_spec (cs : List Bytes) (sk : Bytes)
    (hpk : sk.drop 32 = publicKey (sk.take 32)) :
    Model.Sign.signPh Spec.Sha512.sha512 cs sk = Spec.Ed25519.signPh (sk.take 32) cs.flatten :=
  signDetached_eq_signCore _ sk true hpk

/-- chunking is irrelevant -/
theorem signPh_chunking (H : Bytes → Bytes) (cs cs' : List Bytes) (sk : Bytes)
    (h : cs.flatten = cs'.flatten) : Model.Sign.signPh H cs sk = Model.Sign.signPh H cs' sk := by
  unfold Model.Sign.signPh; rw [h]

/-- a key pair made by `seedKeypair` satisfies the hypothesis of `sign_model_eq_spec`
up to the reduction of the scalar mod L before the base-point multiplication (dalek
multiplies by `a mod L`, RFC 8032 by `a`; equal as group elements only by `[L]B = 0`,
which is curve theory and not proved here — but see `tv_keypair` for a kernel-checked
instance) -/
theorem seedKeypair_shape (H : Bytes → Bytes) (seed : Bytes) (hs : seed.length = 32) :
    let (pk, sk) := seedKeypair H seed
    sk.length = 64 ∧ sk.take 32 = seed ∧ sk.drop 32 = pk ∧ pk.length = 32 := by
  simp only [seedKeypair]
  refine ⟨?_, List.take_left' hs, List.drop_left' hs, encodePoint_length _⟩
  simp [hs, encodePoint_length]

/-! ## 2. layout, lengths, error behaviour -/

theorem toLE_length (n v : Nat) : (toLE n v).length = n := Proofs.Sign.toLE_length n v

theorem encodePoint_length (P : Point) : (encodePoint P).length = 32 :=
  Proofs.Sign.encodePoint_length P

/-- a detached signature is 64 bytes: 32 of R, 32 of S, and S is canonical -/
theorem sig_length (H : Bytes → Bytes) (msg sk : Bytes) (ph : Bool) :
    (signDetached H msg sk ph).length = 64 ∧
    ((signDetached H msg sk ph).take 32).length = 32 ∧
    le ((signDetached H msg sk ph).drop 32) < L :=
  ⟨signDetached_length H msg sk ph, by rw [signDetached_take32]; exact sigR_length ..,
    signDetached_S_canonical H msg sk ph⟩

/-- combined mode: signature first, then the message, exactly when the buffer fits -/
theorem sig_layout (H : Bytes → Bytes) (msg sk : Bytes) :
    signCombined H (msg.length + 64) msg sk = .ok (signDetached H msg sk false ++ msg) := by
  simp [signCombined]

theorem sig_layout_length (H : Bytes → Bytes) (msg sk : Bytes) :
    (signDetached H msg sk false ++ msg).length = 64 + msg.length := by
  rw [List.length_append, signDetached_length]

theorem signCombined_wrong_buffer (H : Bytes → Bytes) (n : Nat) (msg sk : Bytes)
    (h : n ≠ msg.length + 64) : signCombined H n msg sk = .err := by
  simp [signCombined, h]

theorem signCombined_never_panics (H : Bytes → Bytes) (n : Nat) (msg sk : Bytes) :
    signCombined H n msg sk ≠ .panic := by
  unfold signCombined; split <;> simp

/-- `SignedMessage::from_bytes` splits at 64 -/
theorem fromBytes_split (sig m : Bytes) (h : sig.length = 64) :
    fromBytes (sig ++ m) = .ok (sig, m) := by
  unfold fromBytes
  rw [List.take_left' h, List.drop_left' h]
  simp [h]

theorem fromBytes_short (bs : Bytes) (h : bs.length < 64) : fromBytes bs = .err := by
  simp [fromBytes, h]

/-- `from_bytes ∘ sign_combined` recovers (signature, message) -/
theorem fromBytes_signCombined (H : Bytes → Bytes) (msg sk : Bytes) :
    fromBytes (signDetached H msg sk false ++ msg) = .ok (signDetached H msg sk false, msg) :=
  fromBytes_split _ _ (signDetached_length H msg sk false)

theorem short_combined_rejected (H : Bytes → Bytes) (n : Nat) (sm pk : Bytes)
    (h : sm.length < 64) : signOpen H n sm pk = .err := by
  simp [signOpen, h]

theorem signOpen_wrong_buffer (H : Bytes → Bytes) (n : Nat) (sm pk : Bytes)
    (h : n ≠ sm.length - 64) : signOpen H n sm pk = .err := by
  unfold signOpen; rw [if_pos h]; split <;> rfl

theorem signOpen_never_panics (H : Bytes → Bytes) (n : Nat) (sm pk : Bytes) :
    signOpen H n sm pk ≠ .panic := by
  unfold signOpen; repeat' split
  all_goals simp

/-- `crypto_sign_open` returns a message iff the buffer lengths fit and
`verifyDetached` accepts the first 64 bytes as a signature of the rest — and then the
message returned is that rest -/
theorem signOpen_ok_iff (H : Bytes → Bytes) (n : Nat) (sm pk m : Bytes) :
    signOpen H n sm pk = .ok m ↔
      64 ≤ sm.length ∧ n = sm.length - 64 ∧ m = sm.drop 64 ∧
      verifyDetached H (sm.take 64) (sm.drop 64) pk false = true := by
  unfold signOpen
  by_cases h1 : sm.length < 64
  · simp [h1]; omega
  · by_cases h2 : n = sm.length - 64
    · by_cases h3 : verifyDetached H (sm.take 64) (sm.drop 64) pk false = true
      · simp [h1, h2, h3, eq_comm]; intro _; omega
      · simp [h1, h2, h3]
    · simp [h1, h2]

/-- open ∘ combined-sign: accepted iff the detached signature verifies -/
theorem signOpen_signed (H : Bytes → Bytes) (sig msg pk : Bytes) (h : sig.length = 64) :
    signOpen H msg.length (sig ++ msg) pk =
      if verifyDetached H sig msg pk false then .ok msg else .err := by
  unfold signOpen
  rw [List.take_left' h, List.drop_left' h]
  simp [h]
  omega

/-! ## 3. canonical scalar, lengths -/

/-- a non-canonical `S` (≥ L) is rejected — every signature, message, key, mode, hash -/
theorem noncanonical_S_rejected (H : Bytes → Bytes) (sig msg pk : Bytes) (ph : Bool)
    (h : L ≤ le (sig.drop 32)) : verifyDetached H sig msg pk ph = false := by
  rw [← Bool.not_eq_true, verifyDetached_true_iff]
  rintro ⟨-, -, h3, -⟩; omega

/-- malleability by adding multiples of L: `R ‖ (S + k·L)` is rejected for every
`k ≥ 1` (whenever it fits in 32 bytes; if it does not, `toLE` truncates and the value
is a different one) -/
theorem S_plus_kL_rejected (H : Bytes → Bytes) (Rb msg pk : Bytes) (ph : Bool) (S k : Nat)
    (hR : Rb.length = 32) (hk : 1 ≤ k) (hfit : S + k * L < 2 ^ 256) :
    verifyDetached H (Rb ++ toLE 32 (S + k * L)) msg pk ph = false := by
  apply noncanonical_S_rejected
  rw [List.drop_left' hR, le_toLE_of_lt (by simpa using hfit)]
  calc L = 1 * L := (Nat.one_mul L).symm
    _ ≤ k * L := Nat.mul_le_mul_right L hk
    _ ≤ S + k * L := Nat.le_add_left _ _

theorem wrong_length_rejected (H : Bytes → Bytes) (sig msg pk : Bytes) (ph : Bool)
    (h : sig.length ≠ 64 ∨ pk.length ≠ 32) : verifyDetached H sig msg pk ph = false := by
  rw [← Bool.not_eq_true, verifyDetached_true_iff]
  rintro ⟨h1, h2, -⟩; cases h <;> contradiction

/-! ## 4. small order, undecodable -/

theorem smallorder_R_rejected (H : Bytes → Bytes) (sig msg pk : Bytes) (ph : Bool) (R : Point)
    (hR : decodePointLax (sig.take 32) = some R) (hso : isSmallOrder R = true) :
    verifyDetached H sig msg pk ph = false := by
  rw [← Bool.not_eq_true, verifyDetached_true_iff]
  rintro ⟨-, -, -, R', A, hR', hso', -⟩
  rw [hR] at hR'; cases hR'; rw [hso] at hso'; cases hso'

theorem smallorder_A_rejected (H : Bytes → Bytes) (sig msg pk : Bytes) (ph : Bool) (A : Point)
    (hA : decodePointLax pk = some A) (hso : isSmallOrder A = true) :
    verifyDetached H sig msg pk ph = false := by
  rw [← Bool.not_eq_true, verifyDetached_true_iff]
  rintro ⟨-, -, -, R', A', -, -, hA', hso', -⟩
  rw [hA] at hA'; cases hA'; rw [hso] at hso'; cases hso'

theorem undecodable_rejected (H : Bytes → Bytes) (sig msg pk : Bytes) (ph : Bool)
    (h : decodePointLax (sig.take 32) = none ∨ decodePointLax pk = none) :
    verifyDetached H sig msg pk ph = false := by
  rw [← Bool.not_eq_true, verifyDetached_true_iff]
  rintro ⟨-, -, -, R', A', hR, -, hA, -⟩
  cases h with
  | inl h => rw [h] at hR; cases hR
  | inr h => rw [h] at hA; cases hA

/-- the complete acceptance condition (re-exported) -/
theorem verifyDetached_true_iff (H : Bytes → Bytes) (sig msg pk : Bytes) (ph : Bool) :
    verifyDetached H sig msg pk ph = true ↔
      sig.length = 64 ∧ pk.length = 32 ∧ le (sig.drop 32) < L ∧
      ∃ R A, decodePointLax (sig.take 32) = some R ∧ isSmallOrder R = false ∧
        decodePointLax pk = some A ∧ isSmallOrder A = false ∧
        pointEq (add (scalarMul
            (le (H ((if ph then DOM2PREFIX else []) ++ sig.take 32 ++ pk ++ msg)) % L) (neg A))
          (scalarMul (le (sig.drop 32)) B)) R = true :=
  Proofs.Sign.verifyDetached_true_iff H sig msg pk ph

/-- the pre-hashed front end is `verifyDetached` on the hash of the concatenation -/
theorem verifyPh_eq (H : Bytes → Bytes) (cs : List Bytes) (sig pk : Bytes) :
    verifyPh H cs sig pk = verifyDetached H sig (H cs.flatten) pk true := rfl

/-! ## 5. verify ∘ sign — algebraic core over an abstract group -/

/-- **Algebraic core of `verify ∘ sign = true`.**  In ANY additive commutative group `G`
(Mathlib's `AddCommGroup`) with an element `B` such that `L • B = 0`, for all naturals
`a r k`, with `A = a • B`, `R = r • B`, `S = (r + k·a) mod L`:  `S • B − k • A = R`.

This is a theorem about abstract groups only.  That curve25519-dalek's Edwards
arithmetic (or the `Spec.Ed25519` functions standing for it) instantiates such a group,
with `B` of order `L`, is NOT proved anywhere in this development. -/
theorem verify_sign {G : Type _} [AddCommGroup G] (B : G) (L : ℕ) (hB : L • B = 0) (a r k : ℕ) :
    ((r + k * a) % L) • B - k • (a • B) = r • B :=
  Proofs.SignGroup.verify_sign B L hB a r k

/-- **verify ∘ sign = true for the model**, both modes, any hash `H`, any 32-byte seed,
key pair from `seedKeypair` — CONDITIONAL on
* `I : EdwardsInterp G valid φ`: the UNPROVED hypothesis that the curve functions
  `add`/`neg`/`scalarMul`/`pointEq` act as a commutative group through an interpretation
  `φ` on `valid` points, that `[L]B = 0`, and that lenient decoding inverts encoding;
* neither the decoded `R` nor the decoded public key has small order (dryoc rejects its
  own signature otherwise, e.g. when `r ≡ 0 mod L`). -/
theorem verify_sign_model {G : Type _} [AddCommGroup G] {valid : Point → Prop} {φ : Point → G}
    (I : Proofs.SignGroup.EdwardsInterp G valid φ) (H : Bytes → Bytes)
    (seed msg : Bytes) (ph : Bool) (hseed : seed.length = 32)
    (hRso : ∀ P, decodePointLax
        ((signDetached H msg (seedKeypair H seed).2 ph).take 32) = some P → isSmallOrder P = false)
    (hAso : ∀ P, decodePointLax (seedKeypair H seed).1 = some P → isSmallOrder P = false) :
    verifyDetached H (signDetached H msg (seedKeypair H seed).2 ph) msg (seedKeypair H seed).1 ph
      = true :=
  Proofs.SignGroup.verify_sign_of_interp I H seed msg ph hseed hRso hAso

/-! ## 6. the two modes hash different strings -/

theorem dom2prefix_length : DOM2PREFIX.length = 34 := by decide +kernel

/-- the input of the challenge hash in pre-hashed mode starts with the 32 ASCII bytes
"SigEd25519 no Ed25519 collisions" … -/
theorem ph_input_prefix (Rb A m : Bytes) :
    (DOM2PREFIX ++ Rb ++ A ++ m).take 32 = DOM2PREFIX.take 32 := by
  rw [List.append_assoc, List.append_assoc, List.take_append_of_le_length
    (by rw [dom2prefix_length]; decide)]

/-- … the input in pure mode starts with R -/
theorem pure_input_prefix (Rb A m : Bytes) (hR : Rb.length = 32) :
    (([] : Bytes) ++ Rb ++ A ++ m).take 32 = Rb := by
  rw [List.nil_append, List.append_assoc, List.take_left' hR]

/-- The naive claim "the two inputs always differ" is FALSE — lengths can be shifted: -/
example : ∃ Rb A m Rb' A' m' : Bytes, Rb.length = 32 ∧ A.length = 32 ∧ Rb'.length = 32 ∧
    A'.length = 32 ∧ DOM2PREFIX ++ Rb ++ A ++ m = [] ++ Rb' ++ A' ++ m' :=
  ⟨zeros 32, zeros 32, [], DOM2PREFIX.take 32, [1, 0] ++ zeros 30, zeros 34,
    by decide +kernel⟩

/-- **The true statement**: the inputs differ unless the pure-mode `R` is literally the
ASCII string "SigEd25519 no Ed25519 collisions". -/
theorem ph_vs_pure_inputs_differ (Rb A m Rb' A' m' : Bytes) (hR' : Rb'.length = 32)
    (hne : Rb' ≠ DOM2PREFIX.take 32) :
    DOM2PREFIX ++ Rb ++ A ++ m ≠ [] ++ Rb' ++ A' ++ m' := by
  intro h
  have := congrArg (List.take 32) h
  rw [ph_input_prefix, pure_input_prefix _ _ _ hR'] at this
  exact hne this.symm

/-- … and that string is not the encoding of any point, even for the lenient decoder
(kernel-checked: its y gives a non-square x²) -/
theorem dom2prefix_not_a_point : decodePointLax (DOM2PREFIX.take 32) = none := by
  decide +kernel

/-- **Domain separation.**  If a signature is accepted in PURE mode, then the string
hashed for its challenge `k` differs from the string hashed in PRE-HASHED mode for every
signature, key and prehash.  (So a cross-mode acceptance needs two different SHA-512
inputs that give the same `k`, or a different `k` that satisfies the group equation.) -/
theorem accepted_pure_input_ne_ph_input (H : Bytes → Bytes) (sig msg pk : Bytes)
    (hacc : verifyDetached H sig msg pk false = true) (sig' pk' m' : Bytes) :
    DOM2PREFIX ++ sig'.take 32 ++ pk' ++ m' ≠ [] ++ sig.take 32 ++ pk ++ msg := by
  obtain ⟨h1, -, -, R, A, hR, -⟩ := (Proofs.Sign.verifyDetached_true_iff ..).1 hacc
  apply ph_vs_pure_inputs_differ
  · rw [List.length_take]; omega
  · intro h; rw [h, dom2prefix_not_a_point] at hR; cases hR

/-- the same for everything the signer produces under the group hypothesis is not
needed: already any `R` that decodes separates the inputs -/
theorem decodable_R_separates (sig msg pk : Bytes) (hlen : sig.length = 64)
    (hdec : decodePointLax (sig.take 32) ≠ none) (sig' pk' m' : Bytes) :
    DOM2PREFIX ++ sig'.take 32 ++ pk' ++ m' ≠ [] ++ sig.take 32 ++ pk ++ msg := by
  apply ph_vs_pure_inputs_differ
  · rw [List.length_take]; omega
  · intro h; rw [h] at hdec; exact hdec dom2prefix_not_a_point

/-! ## 7. dalek-style (model) vs libsodium-style (spec) verification -/

/-- the unified addition is symmetric on representations -/
theorem point_add_comm (P Q : Point) : add P Q = add Q P := Proofs.Sign.point_add_comm P Q

/-- dryoc's decision (lenient decode, `[8]P = 0` tests, projective comparison) equals
libsodium's strict decision (7-entry blacklist, canonical pk, strict decode, bytewise
comparison of the re-encoded `R'`), with SHA-512, in both modes, under exactly these
hypotheses about the given `sig`, `pk` (none is proved in general):
* `hR`      `R` decodes (leniently) to a point `R`;
* `hRcanon` `sig[0..32]` is THE canonical encoding of `R`: the recomputed point
            `[S]B + [k](−A)` is projectively equal to `R` iff it encodes to those bytes;
* `hdec`    strict and lenient decoding agree on `pk`;
* `hcanon`  `pk` passes libsodium's `ge25519_is_canonical`;
* `hsoR`, `hsoA`  the blacklist decides small order correctly on `R` and on `pk`.
All six are kernel-checked on RFC 8032 TEST 1 (`tv_model_eq_spec`). -/
theorem verify_model_vs_spec (sig msg pk : Bytes) (ph : Bool) (R : Point)
    (hR : decodePointLax (sig.take 32) = some R)
    (hRcanon : ∀ A, decodePointLax pk = some A →
      (pointEq (checkPoint (if ph then dom2 1 [] else []) sig msg pk A) R = true ↔
        encodePoint (checkPoint (if ph then dom2 1 [] else []) sig msg pk A) = sig.take 32))
    (hdec : decodePoint pk = decodePointLax pk)
    (hcanon : isCanonicalPoint pk = true)
    (hsoR : hasSmallOrder (sig.take 32) = isSmallOrder R)
    (hsoA : ∀ A, decodePointLax pk = some A → hasSmallOrder pk = isSmallOrder A) :
    verifyDetached Spec.Sha512.sha512 sig msg pk ph
      = verifyCore (if ph then dom2 1 [] else []) pk msg sig :=
  verify_model_eq_spec' sig msg pk ph R hR hRcanon hdec hcanon hsoR hsoA

/-- both verifiers reject the same malformed inputs outright, with no hypothesis:
wrong lengths and non-canonical S -/
theorem both_reject_malformed (sig msg pk : Bytes) (ph : Bool)
    (h : sig.length ≠ 64 ∨ pk.length ≠ 32 ∨ L ≤ le (sig.drop 32)) :
    verifyDetached Spec.Sha512.sha512 sig msg pk ph = false ∧
    verifyCore (if ph then dom2 1 [] else []) pk msg sig = false := by
  constructor
  · rcases h with h | h | h
    · exact wrong_length_rejected _ _ _ _ _ (Or.inl h)
    · exact wrong_length_rejected _ _ _ _ _ (Or.inr h)
    · exact noncanonical_S_rejected _ _ _ _ _ h
  · rw [← Bool.not_eq_true, verifyCore_true_iff]
    rintro ⟨h1, h2, h3, -⟩
    rcases h with h | h | h
    · exact h h1
    · exact h h2
    · omega

/-! ## non-vacuity (RFC 8032 §7.1 TEST 1, every fact checked by the kernel) -/

/-- the hypotheses of `sign_model_eq_spec` hold for the RFC key … -/
example : tvSk.length = 64 ∧ tvSk.drop 32 = publicKey (tvSk.take 32) :=
  ⟨tv_sk_length, by
    have h1 : tvSk.take 32 = tvSeed := List.take_left' (by decide)
    have h2 : tvSk.drop 32 = tvPk := List.drop_left' (by decide)
    rw [h1, h2, tv_pk]⟩

/-- … which is the key pair `seedKeypair` makes, the model signs to the RFC's signature,
and the model accepts it -/
example : seedKeypair Spec.Sha512.sha512 tvSeed = (tvPk, tvSk) ∧
    signDetached Spec.Sha512.sha512 [] tvSk false = tvSig ∧
    verifyDetached Spec.Sha512.sha512 tvSig [] tvPk false = true ∧
    verifyDetached Spec.Sha512.sha512 tvSig [] tvPk true = false :=
  ⟨tv_keypair, tv_sign, tv_verify, tv_verify_ph⟩

/-- through `sign_model_eq_spec`: RFC 8032 `sign` gives the RFC's signature -/
example : Spec.Ed25519.sign tvSeed [] = tvSig := by
  have h1 : tvSk.take 32 = tvSeed := List.take_left' (by decide)
  have h2 : tvSk.drop 32 = tvPk := List.drop_left' (by decide)
  rw [← h1, ← sign_model_eq_spec [] tvSk tv_sk_length (by rw [h1, h2, tv_pk])]
  exact tv_sign

/-- `S + L` on the RFC signature is rejected -/
example : verifyDetached Spec.Sha512.sha512
    (tvSig.take 32 ++ toLE 32 (le (tvSig.drop 32) + 1 * L)) [] tvPk false = false :=
  S_plus_kL_rejected _ _ _ _ _ _ 1 (by decide) (Nat.le_refl 1) (by decide +kernel)

/-- the hypotheses of `verify_model_vs_spec` are jointly satisfiable -/
example : verifyDetached Spec.Sha512.sha512 tvSig [] tvPk false = verifyCore [] tvPk [] tvSig :=
  tv_model_eq_spec

/-- small-order rejection is not vacuous: the identity encodes as `01 00…00`, decodes,
and has small order -/
example : ∃ R, decodePointLax ((1 :: zeros 63 : Bytes).take 32) = some R ∧
    isSmallOrder R = true :=
  ⟨(decodePointLax ((1 :: zeros 63 : Bytes).take 32)).getD identity,
    some_getD (by decide +kernel) _, by decide +kernel⟩

end DryocVerif.Properties.C06
