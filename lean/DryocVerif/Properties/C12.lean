import DryocVerif.Model.Curve
import DryocVerif.Model.CurveInst
import DryocVerif.Spec.Blake2b
import DryocVerif.Proofs.Curve
import DryocVerif.Proofs.GenCurve
import DryocVerif.Proofs.KdfExtra
import DryocVerif.Model.KeyForms
import DryocVerif.Model.ObjectView
import DryocVerif.Proofs.KdfObject
/-
C12 — `crypto_kdf_derive_from_key` (/repo/src/classic/crypto_kdf.rs) and `Kdf::derive_subkey` (/repo/src/kdf.rs).

* the length check: exactly the sub-key lengths outside 16..=64 are refused.  "Every length 16..=64" is the
  CLASSIC function only: the object API (`Kdf::derive_subkey::<Subkey: NewByteArray<32>>`, `derive_subkey_to_vec`)
  always derives a 32-byte sub-key;
* "nothing panics" (`kdf_never_panics`, `kdfDeriveImpl_err_iff`) is about TYPED containers (`&[u8; 8]` context,
  `&[u8; 32]` key; `StackByteArray`, `HeapByteArray`, `Locked<…>`).  The object API reads `self.context.as_array()`
  and `self.main_key.as_array()`; with `Vec<u8>` / `&[u8]` / `[u8]` containers (`as_array` asserts `len ≥ N`,
  types.rs) a context shorter than 8 or a key shorter than 32 bytes PANICS and longer ones are viewed through their
  first 8 / 32 bytes: `kdfObjDerive_cases`; on exact lengths it is the classic function at length 32
  (`kdfObjDerive_exact`);
* the derivation is libsodium's construction: keyed BLAKE2b with
  salt = LE64(subkey_id) ‖ 0⁸ and personalisation = ctx ‖ 0⁸, empty message;
* "different ids, contexts or lengths give different sub-keys": what is PROVED is (a) sub-keys of different
  LENGTHS are trivially different (`kdf_length`), and (b) INJECTIVITY of the input encoding — the BLAKE2b parameter
  block (the only place where the sub-key length, the sub-key id and the context enter the hash) is injective in
  (length, id mod 2^64, context) over the admissible range, and so is the initial chaining value computed from
  it (`kdf_initState_injective`) — together with the explicit REDUCTION `kdf_eq_imp_blake2b_collision`: two
  derivations from the same key with different (length, id mod 2^64, context) and EQUAL sub-keys exhibit two
  DIFFERENT initial chaining values `h₀ ≠ h₀'` whose keyed final compressions
  `F(h₀, key ‖ 0⁹⁶, 128, last)` agree on their first `len` bytes.  Distinctness of the OUTPUTS themselves (domain
  separation proper) is therefore (truncated) collision resistance of the BLAKE2b compression function — a
  cryptographic assumption, not a theorem here; on concrete inputs it is checked per batch by the differential run
  only (the `kdf` rows: distinct ids / contexts / lengths give distinct outputs, equal to the crate's);
* the derivation through dryoc's OWN BLAKE2b (`Model.KeyForms.kdfDeriveImpl`: `State::init(..)?`
  then `finalize`, both with their `Result`) equals the abstract model instantiated with the
  specification's BLAKE2b, for every input with a 32-byte key and an 8-byte context
  (`kdfDeriveImpl_eq_kdfDerive`, `kdf_impl_eq_spec`): `init` and `finalize` never fail there.
-/
namespace DryocVerif.Properties.C12
open DryocVerif DryocVerif.Model.Curve

/-- key derivation rejects exactly the lengths outside 16..=64 -/
theorem kdf_err_iff (P : Model.Curve.Prims) (len id : Nat) (ctx key : Bytes) :
    Model.Curve.kdfDerive P len id ctx key = .err ↔ len < 16 ∨ 64 < len := by
  unfold Model.Curve.kdfDerive; split <;> simp_all

/-- Corollary of totalisation: the definition `kdfDerive` has no panic branch in reach (an `if` between `.err`
and `.ok`); it models the classic function on TYPED arguments (`&[u8; 8]`, `&[u8; 32]`).  The code-shaped
statements that carry content are `kdfDeriveImpl_err_iff` (the statement-level model with its two
`copy_from_slice` and dryoc's BLAKE2b `init` / `finalize`: no panic for an 8-byte context and a 32-byte key) and,
for the object API on `Vec<u8>` containers, `kdfObjDerive_cases` (panic iff context < 8 or key < 32 bytes). -/
theorem kdf_never_panics (P : Prims) (len id : Nat) (ctx key : Bytes) :
    kdfDerive P len id ctx key ≠ .panic := by
  unfold kdfDerive; split <;> simp

/-- for admissible lengths the result is the primitive applied to libsodium's arguments -/
theorem kdf_ok (P : Prims) (len id : Nat) (ctx key : Bytes) (h1 : 16 ≤ len) (h2 : len ≤ 64) :
    kdfDerive P len id ctx key = .ok (P.blake2b len key (toLE 8 id ++ zeros 8) (ctx ++ zeros 8) []) := by
  unfold kdfDerive; rw [if_neg (by omega)]

/-- libsodium's `crypto_kdf_blake2b_derive_from_key`:
BLAKE2b(outlen = len, key, salt = LE64(id) ‖ 0⁸, personal = ctx ‖ 0⁸, message = "") -/
theorem kdf_eq_spec (len id : Nat) (ctx key : Bytes) (h1 : 16 ≤ len) (h2 : len ≤ 64) :
    kdfDerive specPrims len id ctx key =
      .ok (Spec.Blake2b.hashSP len key (toLE 8 id ++ zeros 8) (ctx ++ zeros 8) []) :=
  kdf_ok specPrims len id ctx key h1 h2

/-- the sub-key id only enters modulo 2^64 (it is a `u64` in Rust) -/
theorem kdf_id_mod (P : Prims) (len id : Nat) (ctx key : Bytes) :
    kdfDerive P len (id % 2 ^ 64) ctx key = kdfDerive P len id ctx key := by
  have : toLE 8 (id % 2 ^ 64) = toLE 8 id := Proofs.Curve.toLE_mod 8 id
  unfold kdfDerive; rw [this]

/-- salt and personalisation handed to BLAKE2b are full 16-byte fields, so the parameter
block contains them verbatim -/
theorem kdf_salt_personal_length (id : Nat) (ctx : Bytes) (h : ctx.length = 8) :
    (toLE 8 id ++ zeros 8).length = 16 ∧ (ctx ++ zeros 8).length = 16 := by
  simp [Proofs.Curve.toLE_length, zeros, h]

/-- Domain separation: for admissible sub-key lengths, 64-bit ids and 8-byte contexts the
BLAKE2b parameter block determines (length, id, context). -/
theorem param_block_injective (len len' id id' kl : Nat) (ctx ctx' : Bytes)
    (hl : 16 ≤ len ∧ len ≤ 64) (hl' : 16 ≤ len' ∧ len' ≤ 64)
    (hid : id < 2 ^ 64) (hid' : id' < 2 ^ 64)
    (hc : ctx.length = 8) (hc' : ctx'.length = 8)
    (h : Spec.Blake2b.paramBlock len kl (toLE 8 id ++ zeros 8) (ctx ++ zeros 8) =
         Spec.Blake2b.paramBlock len' kl (toLE 8 id' ++ zeros 8) (ctx' ++ zeros 8)) :
    len = len' ∧ id = id' ∧ ctx = ctx' := by
  obtain ⟨ho, -, hs, hq⟩ := Proofs.Curve.paramBlock_inj _ _ _ _ _ _ _ _ h
  rw [Proofs.Curve.fit_of_length _ _ (kdf_salt_personal_length id ctx hc).1,
      Proofs.Curve.fit_of_length _ _ (kdf_salt_personal_length id' ctx' hc').1] at hs
  rw [Proofs.Curve.fit_of_length _ _ (kdf_salt_personal_length id ctx hc).2,
      Proofs.Curve.fit_of_length _ _ (kdf_salt_personal_length id' ctx' hc').2] at hq
  refine ⟨Proofs.Curve.ofNat_inj_of_lt _ _ (by omega) (by omega) ho, ?_, ?_⟩
  · have := (List.append_inj hs (by simp [Proofs.Curve.toLE_length])).1
    exact Proofs.Curve.toLE_inj 8 id id' (by omega) (by omega) this
  · exact (List.append_inj hq (by omega)).1

/-- the statement of the brief: 32-byte keys, i.e. key length field 32 -/
theorem param_block_injective_32 (len len' id id' : Nat) (ctx ctx' : Bytes)
    (hl : 16 ≤ len ∧ len ≤ 64) (hl' : 16 ≤ len' ∧ len' ≤ 64)
    (hid : id < 2 ^ 64) (hid' : id' < 2 ^ 64)
    (hc : ctx.length = 8) (hc' : ctx'.length = 8)
    (h : Spec.Blake2b.paramBlock len 32 (toLE 8 id ++ zeros 8) (ctx ++ zeros 8) =
         Spec.Blake2b.paramBlock len' 32 (toLE 8 id' ++ zeros 8) (ctx' ++ zeros 8)) :
    len = len' ∧ id = id' ∧ ctx = ctx' :=
  param_block_injective len len' id id' 32 ctx ctx' hl hl' hid hid' hc hc' h

/-- Domain separation at the level of the hash state: for 32-byte keys, equal BLAKE2b initial
chaining values imply equal sub-key length, equal sub-key id (as `u64`, i.e. modulo 2^64) and
equal context.  (XOR with the IV and little-endian word loading are injective on the 64-byte
parameter block.)  So two derivations from the same key with different (length, id, context)
start BLAKE2b from different states. -/
theorem kdf_initState_injective (len len' id id' : Nat) (ctx ctx' : Bytes)
    (hl : 16 ≤ len ∧ len ≤ 64) (hl' : 16 ≤ len' ∧ len' ≤ 64)
    (hc : ctx.length = 8) (hc' : ctx'.length = 8)
    (h : Spec.Blake2b.initState len 32 (toLE 8 id ++ zeros 8) (ctx ++ zeros 8) =
         Spec.Blake2b.initState len' 32 (toLE 8 id' ++ zeros 8) (ctx' ++ zeros 8)) :
    len = len' ∧ id % 2 ^ 64 = id' % 2 ^ 64 ∧ ctx = ctx' := by
  have hp := Proofs.KdfExtra.initState_inj _ _ _ _ _ _ _ _ h
  have e1 : toLE 8 (id % 2 ^ 64) = toLE 8 id := Proofs.Curve.toLE_mod 8 id
  have e2 : toLE 8 (id' % 2 ^ 64) = toLE 8 id' := Proofs.Curve.toLE_mod 8 id'
  rw [← e1, ← e2] at hp
  exact param_block_injective_32 len len' _ _ ctx ctx' hl hl'
    (Nat.mod_lt _ (by decide)) (Nat.mod_lt _ (by decide)) hc hc' hp

/-- the same for the state dryoc's `State::init` actually builds (`init_param` on the packed
`Params` struct, before the key block is absorbed) -/
theorem kdf_model_initState_injective (len len' id id' : Nat) (ctx ctx' key key' : Bytes)
    (hl : 16 ≤ len ∧ len ≤ 64) (hl' : 16 ≤ len' ∧ len' ≤ 64)
    (hk : key.length = 32) (hk' : key'.length = 32)
    (hc : ctx.length = 8) (hc' : ctx'.length = 8)
    (h : (Proofs.Blake2b.initS0 (len % 256) (some key) (some (toLE 8 id ++ zeros 8))
            (some (ctx ++ zeros 8))).h =
         (Proofs.Blake2b.initS0 (len' % 256) (some key') (some (toLE 8 id' ++ zeros 8))
            (some (ctx' ++ zeros 8))).h) :
    len = len' ∧ id % 2 ^ 64 = id' % 2 ^ 64 ∧ ctx = ctx' := by
  have l1 : ∀ i : Nat, (toLE 8 i ++ zeros 8).length = 16 := fun i => by
    simp [Proofs.Curve.toLE_length, zeros]
  have l2 : ∀ c : Bytes, c.length = 8 → (c ++ zeros 8).length = 16 := fun c h => by simp [h, zeros]
  have e := Proofs.Blake2b.initS0_h len key (some (toLE 8 id ++ zeros 8)) (some (ctx ++ zeros 8))
    hl.2 (by omega) (by intro s hs; cases hs; exact l1 id) (by intro s hs; cases hs; exact l2 ctx hc)
  have e' := Proofs.Blake2b.initS0_h len' key' (some (toLE 8 id' ++ zeros 8)) (some (ctx' ++ zeros 8))
    hl'.2 (by omega) (by intro s hs; cases hs; exact l1 id') (by intro s hs; cases hs; exact l2 ctx' hc')
  rw [Proofs.KdfExtra.keyOpt_some key hk] at e
  rw [Proofs.KdfExtra.keyOpt_some key' hk'] at e'
  rw [e, e', hk, hk'] at h
  exact kdf_initState_injective len len' id id' ctx ctx' hl hl' hc hc' h

/-- non-vacuity witness for `kdf_initState_injective`: with ids 0 and 2^64 (the same `u64`) the
two states ARE equal, so the conclusion `id % 2^64 = id' % 2^64` cannot be strengthened -/
example : Spec.Blake2b.initState 32 32 (toLE 8 0 ++ zeros 8) (zeros 8 ++ zeros 8) =
    Spec.Blake2b.initState 32 32 (toLE 8 (2 ^ 64) ++ zeros 8) (zeros 8 ++ zeros 8) := by
  have : toLE 8 (2 ^ 64) = toLE 8 0 := by decide
  rw [this]

/-! ### from injectivity of the encoding to distinct outputs: the reduction, made explicit -/

/-- the derived sub-key has the requested length (abstract model at the spec instantiation; 32-byte key) -/
theorem kdf_length (len id : Nat) (ctx key out : Bytes) (hk : key.length = 32)
    (h : kdfDerive specPrims len id ctx key = .ok out) : out.length = len := by
  unfold kdfDerive at h
  split at h
  · cases h
  · rename_i hl
    cases h
    exact Proofs.KdfExtra.hashSP_key32_length len key _ _ hk (by omega)

/-- the KDF output is the first `len` bytes of ONE keyed final compression of the initial chaining value -/
theorem kdf_eq_compress (len id : Nat) (ctx key : Bytes) (hl : 16 ≤ len ∧ len ≤ 64) (hk : key.length = 32) :
    kdfDerive specPrims len id ctx key =
      .ok ((Spec.Blake2b.bytesOfWords (Spec.Blake2b.compress
        (Spec.Blake2b.initState len 32 (toLE 8 id ++ zeros 8) (ctx ++ zeros 8))
        (Spec.Blake2b.fit Spec.Blake2b.blockBytes key) Spec.Blake2b.blockBytes true)).take len) := by
  rw [kdf_eq_spec len id ctx key hl.1 hl.2, Proofs.KdfExtra.hashSP_key32 len key _ _ hk]

/-- **The reduction behind "different ids, contexts or lengths give different sub-keys".**  Two derivations from
the same 32-byte key whose parameters differ — `(len, id mod 2^64, ctx) ≠ (len', id' mod 2^64, ctx')` — and whose
outputs are EQUAL would give: equal lengths, two DIFFERENT BLAKE2b initial chaining values `h₀ ≠ h₀'`
(`kdf_initState_injective`), and a `len`-byte collision of the keyed final compression
`h ↦ F(h, key ‖ 0⁹⁶, t = 128, last)` on them.  So distinctness of sub-keys is exactly (truncated) collision
resistance of BLAKE2b's compression function in its chaining input — assumed, not proved; injectivity of the
encoding is the part that is a theorem. -/
theorem kdf_eq_imp_blake2b_collision (len len' id id' : Nat) (ctx ctx' key : Bytes)
    (hl : 16 ≤ len ∧ len ≤ 64) (hl' : 16 ≤ len' ∧ len' ≤ 64) (hk : key.length = 32)
    (hc : ctx.length = 8) (hc' : ctx'.length = 8)
    (hne : ¬ (len = len' ∧ id % 2 ^ 64 = id' % 2 ^ 64 ∧ ctx = ctx'))
    (h : kdfDerive specPrims len id ctx key = kdfDerive specPrims len' id' ctx' key) :
    len = len' ∧
    Spec.Blake2b.initState len 32 (toLE 8 id ++ zeros 8) (ctx ++ zeros 8) ≠
      Spec.Blake2b.initState len 32 (toLE 8 id' ++ zeros 8) (ctx' ++ zeros 8) ∧
    (Spec.Blake2b.bytesOfWords (Spec.Blake2b.compress
        (Spec.Blake2b.initState len 32 (toLE 8 id ++ zeros 8) (ctx ++ zeros 8))
        (Spec.Blake2b.fit Spec.Blake2b.blockBytes key) Spec.Blake2b.blockBytes true)).take len =
    (Spec.Blake2b.bytesOfWords (Spec.Blake2b.compress
        (Spec.Blake2b.initState len 32 (toLE 8 id' ++ zeros 8) (ctx' ++ zeros 8))
        (Spec.Blake2b.fit Spec.Blake2b.blockBytes key) Spec.Blake2b.blockBytes true)).take len := by
  have e1 := kdf_eq_compress len id ctx key hl hk
  have e2 := kdf_eq_compress len' id' ctx' key hl' hk
  have hlen : len = len' := by
    have a := kdf_length len id ctx key _ hk e1
    have b := kdf_length len' id' ctx' key _ hk e2
    rw [e1, e2] at h
    rw [Outcome.ok.inj h] at a
    omega
  subst hlen
  refine ⟨rfl, ?_, ?_⟩
  · intro he
    exact hne (kdf_initState_injective len len id id' ctx ctx' hl hl' hc hc' he)
  · rw [e1, e2] at h
    exact Outcome.ok.inj h

/-- sub-keys of different admissible lengths are different (they have different lengths) -/
theorem kdf_ne_of_length_ne (len len' id id' : Nat) (ctx ctx' key : Bytes)
    (hl : 16 ≤ len ∧ len ≤ 64) (hk : key.length = 32) (hne : len ≠ len') :
    kdfDerive specPrims len id ctx key ≠ kdfDerive specPrims len' id' ctx' key := by
  intro h
  obtain ⟨out, ho⟩ : ∃ out, kdfDerive specPrims len id ctx key = .ok out := ⟨_, kdf_eq_spec len id ctx key hl.1 hl.2⟩
  have a := kdf_length len id ctx key out hk ho
  rw [h] at ho
  have b := kdf_length len' id' ctx' key out hk ho
  omega

/-- non-vacuity of `kdf_eq_imp_blake2b_collision`'s hypotheses other than `h` (which is the collision assumed
away): lengths 32 / 32, ids 0 / 1, context 0⁸, key 0³² satisfy them -/
example : (16 ≤ 32 ∧ 32 ≤ 64) ∧ (zeros 32).length = 32 ∧ (zeros 8).length = 8 ∧
    ¬ ((32 : Nat) = 32 ∧ 0 % 2 ^ 64 = 1 % 2 ^ 64 ∧ zeros 8 = zeros 8) := by decide

/-- … and on that instance the outputs DO differ (kernel evaluation of the two derivations: an instance of the
assumed collision resistance, not a proof of it) -/
example : kdfDerive specPrims 32 0 (zeros 8) (zeros 32) ≠ kdfDerive specPrims 32 1 (zeros 8) (zeros 32) := by
  decide +kernel

/-! ### the object API: `Kdf::derive_subkey`, `Kdf::derive_subkey_to_vec` (kdf.rs) -/

open Model.ObjectView in
/-- `Kdf::derive_subkey::<Subkey>(subkey_id)` with variable-length key / context containers (`Vec<u8>`, …):
PANICS iff the context container holds fewer than 8 or the main-key container fewer than 32 bytes
(`self.context.as_array()`, `self.main_key.as_array()`); otherwise `Ok` with the 32-byte sub-key
(`Subkey: NewByteArray<32>` — the object API never derives another length) computed from the FIRST 8 / 32 bytes,
through dryoc's own BLAKE2b (`kdfDeriveImpl`), equal to libsodium's value; never `Err` -/
theorem kdfObjDerive_cases (id : Nat) (ctx key : Bytes) :
    (kdfObjDerive id ctx key = .panic ↔ ctx.length < 8 ∨ key.length < 32) ∧
    (8 ≤ ctx.length → 32 ≤ key.length →
      kdfObjDerive id ctx key =
        .ok (Spec.Blake2b.hashSP 32 (key.take 32) (toLE 8 id ++ zeros 8) (ctx.take 8 ++ zeros 8) [])) ∧
    kdfObjDerive id ctx key ≠ .err :=
  Proofs.KdfObject.kdfObjDerive_cases id ctx key

open Model.ObjectView in
/-- in terms of the code path: the prefix view, then the classic function's statement-level model at length 32 -/
theorem kdfObjDerive_eq (id : Nat) (ctx key : Bytes) :
    kdfObjDerive id ctx key =
      if ctx.length < 8 ∨ key.length < 32 then .panic
      else Model.KeyForms.kdfDeriveImpl 32 id (ctx.take 8) (key.take 32) :=
  Proofs.KdfObject.kdfObjDerive_eq id ctx key

open Model.ObjectView in
/-- exact lengths (the typed containers): the object function is the classic one at sub-key length 32 -/
theorem kdfObjDerive_exact (id : Nat) (ctx key : Bytes) (hc : ctx.length = 8) (hk : key.length = 32) :
    kdfObjDerive id ctx key = kdfDerive specPrims 32 id ctx key :=
  Proofs.KdfObject.kdfObjDerive_exact id ctx key hc hk

open Model.ObjectView in
/-- witnesses: a 7-byte `Vec` context and a 31-byte `Vec` key panic; a 9-byte context is its 8-byte prefix -/
example (id : Nat) (b : UInt8) :
    kdfObjDerive id (zeros 7) (zeros 32) = .panic ∧
    kdfObjDerive id (zeros 8) (zeros 31) = .panic ∧
    kdfObjDerive id (zeros 8 ++ [b]) (zeros 32) = kdfObjDerive id (zeros 8) (zeros 32) := by
  refine ⟨(kdfObjDerive_cases id _ _).1.2 (Or.inl (by decide)),
    (kdfObjDerive_cases id _ _).1.2 (Or.inr (by decide)), ?_⟩
  rw [(kdfObjDerive_cases id _ _).2.1 (by simp [zeros]) (by decide),
    (kdfObjDerive_cases id _ _).2.1 (by decide) (by decide)]
  rfl

/-! ### the derivation through dryoc's own BLAKE2b -/

/-- dryoc's BLAKE2b model (`State::init(len as u8, Some(key), Some(salt), Some(personal))`, no
`update`, `finalize` into `len` bytes) on the KDF's arguments returns `Ok` with the specification's
keyed / salted / personalised BLAKE2b of the empty message: the two `Result`s of the Rust code
path are never `Err` for an admissible length, a 32-byte key and an 8-byte context. -/
theorem kdf_impl_eq_spec (len id : Nat) (ctx key : Bytes) (h : 16 ≤ len ∧ len ≤ 64)
    (hk : key.length = 32) (hc : ctx.length = 8) :
    Model.Blake2b.hashChunksC Model.Blake2b.compress len (some key)
        (some (toLE 8 id ++ zeros 8)) (some (ctx ++ zeros 8)) [] =
      .ok (Spec.Blake2b.hashSP len key (toLE 8 id ++ zeros 8) (ctx ++ zeros 8) []) :=
  Proofs.KdfExtra.kdf_impl_eq_spec len id ctx key h hk hc

/-- The statement-by-statement model of `crypto_kdf_derive_from_key` with dryoc's BLAKE2b
(`Model.KeyForms.kdfDeriveImpl`) is the abstract model `kdfDerive` instantiated with the
specification's BLAKE2b — for every length (admissible or not) and id, 32-byte key, 8-byte
context.  This is what connects `kdf_eq_spec` (over an abstract hash) to the code. -/
theorem kdfDeriveImpl_eq_kdfDerive (len id : Nat) (ctx key : Bytes)
    (hk : key.length = 32) (hc : ctx.length = 8) :
    Model.KeyForms.kdfDeriveImpl len id ctx key = kdfDerive specPrims len id ctx key :=
  Proofs.KdfExtra.kdfDeriveImpl_eq_kdfDerive len id ctx key hk hc

/-- composed: the code path computes libsodium's `crypto_kdf_blake2b_derive_from_key` -/
theorem kdfDeriveImpl_eq_spec (len id : Nat) (ctx key : Bytes) (h : 16 ≤ len ∧ len ≤ 64)
    (hk : key.length = 32) (hc : ctx.length = 8) :
    Model.KeyForms.kdfDeriveImpl len id ctx key =
      .ok (Spec.Blake2b.hashSP len key (toLE 8 id ++ zeros 8) (ctx ++ zeros 8) []) := by
  rw [kdfDeriveImpl_eq_kdfDerive len id ctx key hk hc, kdf_eq_spec len id ctx key h.1 h.2]

/-- the code path fails exactly on the inadmissible lengths and never panics (so neither
`copy_from_slice` nor the key-block slice index inside `State::init` can) -/
theorem kdfDeriveImpl_err_iff (len id : Nat) (ctx key : Bytes)
    (hk : key.length = 32) (hc : ctx.length = 8) :
    (Model.KeyForms.kdfDeriveImpl len id ctx key = .err ↔ len < 16 ∨ 64 < len) ∧
    Model.KeyForms.kdfDeriveImpl len id ctx key ≠ .panic := by
  rw [kdfDeriveImpl_eq_kdfDerive len id ctx key hk hc]
  exact ⟨kdf_err_iff _ _ _ _ _, kdf_never_panics _ _ _ _ _⟩

/-- the derived sub-key has the requested length -/
theorem kdfDeriveImpl_length (len id : Nat) (ctx key out : Bytes)
    (hk : key.length = 32) (hc : ctx.length = 8)
    (h : Model.KeyForms.kdfDeriveImpl len id ctx key = .ok out) : out.length = len := by
  have hl : ¬ (len < 16 ∨ 64 < len) := by
    intro hl
    rw [((kdfDeriveImpl_err_iff len id ctx key hk hc).1).2 hl] at h; cases h
  rw [kdfDeriveImpl_eq_spec len id ctx key (by omega) hk hc] at h
  cases h
  unfold Spec.Blake2b.hashSP
  simp only [List.length_take]
  rw [Proofs.Blake2b.bytesOfWords_length _
    (Proofs.Blake2b.spec_absorb_size _ _ _ (by simp [Spec.Blake2b.initState]))]
  omega

/-- non-vacuity witness: the hypotheses of the four theorems above hold for length 32, id 7,
context 0⁸, key 0³² — and the code path then returns `Ok` -/
example : ∃ out, Model.KeyForms.kdfDeriveImpl 32 7 (zeros 8) (zeros 32) = .ok out ∧ out.length = 32 := by
  have h := kdfDeriveImpl_eq_spec 32 7 (zeros 8) (zeros 32) (by decide) (by decide) (by decide)
  exact ⟨_, h, kdfDeriveImpl_length 32 7 _ _ _ (by decide) (by decide) h⟩

set_option maxRecDepth 100000 in
/-- TEST — a known answer evaluated in the kernel (not a theorem about all inputs): **the first line of libsodium's
`test/default/kdf.exp`** (master key `00 01 … 1f`, context `"KDF test"`, sub-key id 0, 64 bytes), computed by the CODE
PATH `kdfDeriveImpl`, i.e. through the model of dryoc's own BLAKE2b `State::init(64, Some(key), Some(salt),
Some(ctx_padded))` / `finalize` (key block, salt and personalisation words, final compression all exercised).  A model
that mis-placed the id or the context in the parameter block, or used another key length, would fail here
independently of the equivalence theorems above. -/
theorem kdf_libsodium_vector :
    Model.KeyForms.kdfDeriveImpl 64 0 [0x4b,0x44,0x46,0x20,0x74,0x65,0x73,0x74]
      [0,1,2,3,4,5,6,7,8,9,10,11,12,13,14,15,16,17,18,19,20,21,22,23,24,25,26,27,28,29,30,31] = .ok
      [0xa0,0xc7,0x24,0x40,0x47,0x28,0xc8,0xbb,0x95,0xe5,0x43,0x3e,0xb6,0xa9,0x71,0x61,
       0x71,0x14,0x4d,0x61,0xef,0xb2,0x3e,0x74,0xb8,0x73,0xfc,0xbe,0xda,0x51,0xd8,0x07,
       0x1b,0x5d,0x70,0xaa,0xe1,0x20,0x66,0xdf,0xc9,0x4c,0xe9,0x43,0xf1,0x45,0xaa,0x17,
       0x6c,0x05,0x50,0x40,0xc3,0xdd,0x73,0xb0,0xa1,0x5e,0x36,0x25,0x4d,0x45,0x06,0x14] := by
  decide +kernel

/-- … hence (by `kdfDeriveImpl_eq_spec`) the RFC 7693 function `Spec.Blake2b.hashSP` with salt `LE64(id) ‖ 0⁸` and
personalisation `ctx ‖ 0⁸` takes the libsodium value on that input -/
example :
    Spec.Blake2b.hashSP 64
      [0,1,2,3,4,5,6,7,8,9,10,11,12,13,14,15,16,17,18,19,20,21,22,23,24,25,26,27,28,29,30,31]
      (toLE 8 0 ++ zeros 8) ([0x4b,0x44,0x46,0x20,0x74,0x65,0x73,0x74] ++ zeros 8)
      [] =
      [0xa0,0xc7,0x24,0x40,0x47,0x28,0xc8,0xbb,0x95,0xe5,0x43,0x3e,0xb6,0xa9,0x71,0x61,
       0x71,0x14,0x4d,0x61,0xef,0xb2,0x3e,0x74,0xb8,0x73,0xfc,0xbe,0xda,0x51,0xd8,0x07,
       0x1b,0x5d,0x70,0xaa,0xe1,0x20,0x66,0xdf,0xc9,0x4c,0xe9,0x43,0xf1,0x45,0xaa,0x17,
       0x6c,0x05,0x50,0x40,0xc3,0xdd,0x73,0xb0,0xa1,0x5e,0x36,0x25,0x4d,0x45,0x06,0x14] := by
  have h := kdfDeriveImpl_eq_spec 64 0 [0x4b,0x44,0x46,0x20,0x74,0x65,0x73,0x74]
    [0,1,2,3,4,5,6,7,8,9,10,11,12,13,14,15,16,17,18,19,20,21,22,23,24,25,26,27,28,29,30,31]
    (by decide) (by decide) (by decide)
  rw [kdf_libsodium_vector] at h
  exact (Outcome.ok.inj h).symm

/-! ### non-vacuity -/

example : kdfDerive specPrims 15 0 (zeros 8) (zeros 32) = .err := by decide
example : kdfDerive specPrims 65 0 (zeros 8) (zeros 32) = .err := by decide
example : ∃ out, kdfDerive specPrims 16 7 (zeros 8) (zeros 32) = .ok out :=
  ⟨_, kdf_eq_spec 16 7 _ _ (by decide) (by decide)⟩

/-- without the bound on the id the parameter block is *not* injective (ids are `u64`) -/
example : Spec.Blake2b.paramBlock 32 32 (toLE 8 0 ++ zeros 8) (zeros 8 ++ zeros 8) =
    Spec.Blake2b.paramBlock 32 32 (toLE 8 (2 ^ 64) ++ zeros 8) (zeros 8 ++ zeros 8) := by decide

/-- the parameter block of a 32-byte sub-key, id 1, context "Examples" -/
example : Spec.Blake2b.paramBlock 32 32 (toLE 8 1 ++ zeros 8)
      ([0x45, 0x78, 0x61, 0x6d, 0x70, 0x6c, 0x65, 0x73] ++ zeros 8) =
    [32, 32, 1, 1] ++ zeros 28 ++ (1 :: zeros 15) ++
      ([0x45, 0x78, 0x61, 0x6d, 0x70, 0x6c, 0x65, 0x73] ++ zeros 8) := by decide

/-- tie to the source: the BLAKE2b salt / personalisation blocks that `crypto_kdf_derive_from_key` assembles, and its length
bounds, as translated by `tools/rs2lean.py` (regenerated on every run), are the ones of the model -/
theorem translated_kdf_params (P : Model.Curve.Prims) (len id : Nat) (ctx key : Bytes) (hc : ctx.length = 8) :
    Model.Curve.kdfDerive P len id ctx key =
      if len < Gen.Curve.KDF_BYTES_MIN ∨ Gen.Curve.KDF_BYTES_MAX < len then .err
      else .ok (P.blake2b len key (Gen.Curve.kdf_params id ctx).2 (Gen.Curve.kdf_params id ctx).1 []) :=
  Proofs.GenCurve.kdfDerive_eq_gen P len id ctx key hc

theorem translated_kdf_params_value (id : Nat) (ctx : Bytes) (hc : ctx.length = 8) :
    Gen.Curve.kdf_params id ctx = (ctx ++ zeros 8, toLE 8 id ++ zeros 8) :=
  Proofs.GenCurve.kdf_params_eq_model' id ctx hc

/-- tie to the source: the digest length handed to BLAKE2b is the caller's subkey length (not a constant), and key / salt /
personalisation are the main key, the id block and the padded context, in that order -/
theorem translated_kdf_init_args (len : Nat) (h : len ≤ 64) :
    Gen.Curve.kdf_outlen len = len ∧ Gen.Curve.kdf_init_args = ["main_key", "salt", "ctx_padded"] :=
  ⟨Proofs.GenCurve.kdf_outlen_eq len (by omega), Proofs.GenCurve.kdf_init_args_eq⟩

end DryocVerif.Properties.C12
