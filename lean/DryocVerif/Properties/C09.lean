import DryocVerif.Proofs.Argon2Spec
import DryocVerif.Proofs.GenArgon2
import DryocVerif.Proofs.PwhashExtra
import DryocVerif.Proofs.GenPwhash
import DryocVerif.Proofs.Argon2Code
import DryocVerif.Proofs.Argon2Wrap
import DryocVerif.Proofs.PwhashRaw
/-
C09 — Argon2 (`src/argon2.rs`) and `crypto_pwhash` (`src/classic/crypto_pwhash.rs`).
Property theorems only; helper lemmas live in `DryocVerif/Proofs/Argon2.lean` (the model
computes, without panicking, the pure functions `…N`), `DryocVerif/Proofs/Argon2Spec.lean`
(those pure functions are the RFC-structured specification `Spec.Argon2.argon2`) and
`DryocVerif/Proofs/Argon2Code.lean` (the BLAKE2b calls, see below).

WHAT THE MODEL IS.  `DryocVerif/Model/Argon2.lean` is a hand-written transcription of argon2.rs, function by
function: every checked `u32`/`u64`/`usize` operation, every slice index and every `assert!` is an explicit
`Outcome.panic`, every `Err` an `Outcome.err`.  The statements of §1–§9 are theorems about THAT transcription.
What ties it to the Rust text is (i) the machine-translated kernels at the end of this file (`fblamka`, the round,
the `fill_block` index tables, `index_alpha`, `convert_costs`, the range guards, the memory geometry) and (ii) the
differential run of the compiled model against the real crate — not a proof about the Rust source.

THE BLAKE2b CALLS.  In `Model/Argon2.lean` BLAKE2b is a STAND-IN: H0 (`initialHash`) is one
`Spec.Blake2b.hash 64 []` over the concatenated input, and `Model.Argon2.longhash` is an independent
re-implementation of `blake2b::longhash` over `Spec.Blake2b.hash`.  The Rust instead drives dryoc's own BLAKE2b
(`State::init`, a dozen `update`s, `finalize`; `blake2b::longhash`).  §10 closes that gap:
`Model/Argon2Code.lean` re-states `argon2_initial_hash`, `argon2_fill_first_blocks`, `argon2_finalize`,
`argon2_hash`, `crypto_pwhash` with every BLAKE2b call going through `Model.Blake2b` (the statement-by-statement
model of blake2b_soft.rs; all other functions are shared with `Model/Argon2.lean`), and `longhash_code_eq`,
`initialHash_code_eq`, `argon2_code_path_eq_model`, `argon2_code_path_eq_spec` prove that this changes nothing.

ALLOCATION.  `Argon2Instance::initialize` (`self.region.memory.resize(memory_blocks, …)`) is `Array.replicate` in the
model and cannot fail there: memory allocation is assumed to succeed (Vec::resize aborts the process otherwise;
libsodium returns ENOMEM); the property text bounds the cost parameters.  The size of the request is explicit:
`memory_blocks = 4p·⌊max(m, 8p)/4p⌋` blocks of 1 KiB (`memoryGeometry_eq`; for the string verifier
`C10.strVerify_memory_request`).  The same holds for `hash.resize(config.hash_length, 0)` of the object API below
`isize::MAX` (above it `Vec::resize` panics — §9, `objVerifyRaw_panic_iff`).

THE TOP OF THE ACCEPTED MEMORY RANGE (why every `…_eq_spec` / `…_no_panic` / `…_total` theorem carries `h7`).
`crypto_pwhash` accepts `memlimit` up to 4 TiB (`CRYPTO_PWHASH_MEMLIMIT_MAX = 4398046510080`), `Argon2Context::new`
accepts `m_cost` up to 2^32 − 1.  In `index_alpha` the `u32` sum `start_position + relative_position` reaches
`7·segment_length − 3`, which exceeds `u32::MAX` as soon as `7·⌊m/4⌋ ≥ 2^32 + 3`, i.e. for `memlimit` in
(≈ 2.28 TiB, 4 TiB].  There a build with overflow checks (dev profile; what `Model/Argon2.lean` transcribes) PANICS
(`index_alpha_overflow_witness`), and a release build (wrapping arithmetic) computes a reference index different from
RFC 9106's and hence returns a tag different from libsodium's (`index_alpha_wrapping_ne_rfc`, concrete, at
`m_cost = 2^32 − 1`).  These calls are within "every accepted combination" of the property text, but they cannot be
executed on any available machine (they need more than 2.28 TiB of RAM), so the differential run cannot exhibit
them; the theorems state the boundary instead: `h7 : 7 * (memlimit / 1024 / 4) < 2 ^ 32 + 3`.
-/
namespace DryocVerif.Properties.C09
open DryocVerif DryocVerif.Model.Argon2
open DryocVerif.Proofs.Argon2 (Valid PwhashValid InstInv PosInv OffInv currAt prevAt refAreaSizeN
  startPositionN rfcRelative refIndexN stepMem argon2HashN mkInstance bigInst)

/-! ### 1. Parameter validation -/

/-- `Argon2Context::new` returns `Err` exactly on the complement of the accepted ranges
(`Valid`: `16 ≤ outlen ≤ 2^32−1`, `|pwd| ≤ 2^32−1`, `8 ≤ |salt| ≤ 2^32−1`, optional secret / ad
`≤ 2^32−1`, `1 ≤ lanes ≤ 0xFFFFFF`, `8 ≤ m_cost ≤ 2^32−1`, `1 ≤ t_cost ≤ 2^32−1`). -/
theorem validate_iff (outlen pwdlen saltlen : Nat) (secretlen adlen : Option Nat) (t m p : Nat) :
    validate outlen pwdlen saltlen secretlen adlen t m p = .err ↔
      ¬ Valid outlen pwdlen saltlen secretlen adlen t m p :=
  Proofs.Argon2.validate_err_iff ..

theorem validate_ok_iff (outlen pwdlen saltlen : Nat) (secretlen adlen : Option Nat) (t m p : Nat) :
    validate outlen pwdlen saltlen secretlen adlen t m p = .ok () ↔
      Valid outlen pwdlen saltlen secretlen adlen t m p :=
  Proofs.Argon2.validate_ok_iff ..

theorem validate_never_panics (outlen pwdlen saltlen : Nat) (secretlen adlen : Option Nat) (t m p : Nat) :
    validate outlen pwdlen saltlen secretlen adlen t m p ≠ .panic :=
  Proofs.Argon2.validate_ne_panic outlen pwdlen saltlen secretlen adlen t m p

/-- `Valid` says nothing about `m_cost` relative to `lanes`: `m = 8, p = 4` is accepted although
RFC 9106 (and the reference implementation: `ARGON2_MEMORY_TOO_LITTLE`) require `m ≥ 8p`. -/
example : Valid 32 0 8 none none 1 8 4 := by constructor <;> simp

/-- `argon2_hash` rejects exactly the invalid parameter sets — *when it gets as far as the
validation*: `memory_blocks` / `segment_length` are computed first. -/
theorem argon2Hash_err_iff {ty t m p : Nat} {pwd salt : Bytes} {secret ad : Option Bytes} {outlen : Nat}
    (hp : 1 ≤ p) (hp' : p < 2 ^ 29) (hm : m < 2 ^ 32) (hout : outlen < 0xFFFFFFFF)
    (h7 : 7 * (max m (8 * p) / (4 * p)) < 2 ^ 32 + 3) :
    argon2Hash ty t m p pwd salt secret ad outlen = .err ↔
      ¬ Valid outlen pwd.length salt.length (secret.map List.length) (ad.map List.length) t m p := by
  constructor
  · intro h hv
    rw [Proofs.Argon2.argon2Hash_ok hv hout h7] at h
    cases h
  · exact Proofs.Argon2.argon2Hash_err hp hp' hm

/-- **Finding (latent, crate-private).** `parallelism = 0` (and `parallelism ≥ 2^29`) make
`argon2_hash` panic — division by zero in `memory_blocks / (parallelism * 4)` (resp. `u32`
overflow of `8 * parallelism`) — *before* `Argon2Context::new` can return `Err`.  Unreachable
through the public API, which always passes `parallelism = 1`. -/
theorem argon2Hash_panics_before_validation {ty t m p : Nat} {pwd salt : Bytes}
    {secret ad : Option Bytes} {outlen : Nat} (hm : m < 2 ^ 32) (hp : p = 0 ∨ 2 ^ 29 ≤ p) :
    argon2Hash ty t m p pwd salt secret ad outlen = .panic :=
  Proofs.Argon2.argon2Hash_panic hm hp

/-- `crypto_pwhash`: for in-range limits the costs are `(t, m) = (opslimit, memlimit / 1024)` with
no truncation, `parallelism = 1`, no secret, no associated data. -/
theorem cryptoPwhash_unfold (outlen : Nat) (pwd salt : Bytes) (opslimit memlimit alg : Nat)
    (halg : alg = 1 ∨ alg = 2) :
    cryptoPwhash outlen pwd salt opslimit memlimit alg =
      if (1 ≤ opslimit ∧ opslimit ≤ 4294967295) then
        if (8192 ≤ memlimit ∧ memlimit ≤ 4398046510080) then
          argon2Hash alg opslimit (memlimit / 1024) 1 pwd salt none none outlen
        else .err
      else .err :=
  Proofs.Argon2.cryptoPwhash_eq outlen pwd salt opslimit memlimit alg halg

/-- `crypto_pwhash` returns `Err` exactly outside `PwhashValid` (`1 ≤ opslimit ≤ 2^32−1`,
`8192 ≤ memlimit ≤ 4398046510080`, `16 ≤ outlen ≤ 2^32−1`, `|pwd| ≤ 2^32−1`,
`8 ≤ |salt| ≤ 2^32−1`) — under the two side conditions of `argon2Hash_no_panic`.
Difference from libsodium (not a theorem, read off its source and exercised by the differential run): Argon2i
(`alg = 1`) with `opslimit` 1 or 2 is accepted by dryoc — `PwhashValid` has no per-algorithm minimum — and rejected
by libsodium (`crypto_pwhash_argon2i` requires `opslimit ≥ 3`, `EINVAL`). -/
theorem cryptoPwhash_validate_iff {outlen : Nat} {pwd salt : Bytes} {opslimit memlimit alg : Nat}
    (halg : alg = 1 ∨ alg = 2) (hout : outlen < 0xFFFFFFFF)
    (h7 : 7 * (memlimit / 1024 / 4) < 2 ^ 32 + 3) :
    cryptoPwhash outlen pwd salt opslimit memlimit alg = .err ↔
      ¬ PwhashValid outlen pwd.length salt.length opslimit memlimit := by
  constructor
  · intro h hv
    rw [Proofs.Argon2.cryptoPwhash_ok halg hv hout h7] at h
    cases h
  · exact Proofs.Argon2.cryptoPwhash_err halg

/-- invalid limits are always rejected with `Err`, whatever else holds -/
theorem cryptoPwhash_rejects {outlen : Nat} {pwd salt : Bytes} {opslimit memlimit alg : Nat}
    (halg : alg = 1 ∨ alg = 2) (hv : ¬ PwhashValid outlen pwd.length salt.length opslimit memlimit) :
    cryptoPwhash outlen pwd salt opslimit memlimit alg = .err :=
  Proofs.Argon2.cryptoPwhash_err halg hv

/-! ### 2. Instance arithmetic -/

/-- For `1 ≤ p < 2^29` and `m < 2^32` (in particular for every accepted parameter set:
`p ≤ 0xFFFFFF`) the `u32` computations of `argon2_hash` do not overflow, and
`segment_length = max(m, 8p) / 4p`, `memory_blocks = 4p·⌊max(m, 8p) / 4p⌋` — the RFC's `m'`. -/
theorem memoryGeometry_eq {m p : Nat} (hp : 1 ≤ p) (hp' : p < 2 ^ 29) (hm : m < 2 ^ 32) :
    memoryGeometry m p = .ok (max m (8 * p) / (4 * p) * (4 * p), max m (8 * p) / (4 * p)) :=
  Proofs.Argon2.memoryGeometry_ok hp hp' hm

/-- the geometry computation panics exactly for `p = 0` (division by zero) and `p ≥ 2^29`
(`8 * p` overflows `u32`); there is no overflow witness among accepted parameters -/
theorem memoryGeometry_panic_iff {m p : Nat} (hm : m < 2 ^ 32) :
    memoryGeometry m p = .panic ↔ p = 0 ∨ 2 ^ 29 ≤ p :=
  Proofs.Argon2.memoryGeometry_panic_iff hm

/-- the instance built from accepted parameters: `segment_length ≥ 2`,
`lane_length = 4·segment_length`, `memory_blocks = lanes·lane_length < 2^32`, and
`Argon2Instance::new`'s `segment_length * 4` does not overflow -/
theorem instance_invariants {ty t m p : Nat} (hp : 1 ≤ p) (hp' : p < 2 ^ 29) (hm : m < 2 ^ 32) :
    let inst := mkInstance ty t m p
    2 ≤ inst.segmentLength ∧ inst.laneLength = 4 * inst.segmentLength
      ∧ inst.memoryBlocks = inst.lanes * inst.laneLength ∧ inst.memoryBlocks < 2 ^ 32
      ∧ inst.memoryBlocks ≤ max m (8 * p)
      ∧ Instance.new (max m (8 * p) / (4 * p) * (4 * p)) (max m (8 * p) / (4 * p)) ty t p = .ok inst := by
  intro inst
  have hI := Proofs.Argon2.mkInstance_inv (ty := ty) (t := t) hp hm hp'
  refine ⟨hI.sl_ge, hI.ll_eq, hI.mb_eq, hI.mb_lt, Proofs.Argon2.memoryBlocks_le, ?_⟩
  unfold Instance.new
  have h4 : max m (8 * p) / (4 * p) * ARGON2_SYNC_POINTS < 2 ^ 32 := by
    have h1 := hI.mb_lt; have h2 := hI.mb_eq; have h3 := hI.ll_eq; have h5 := hI.lanes_ge
    have e : (mkInstance ty t m p).laneLength = max m (8 * p) / (4 * p) * ARGON2_SYNC_POINTS := rfl
    have : (mkInstance ty t m p).laneLength ≤ (mkInstance ty t m p).lanes * (mkInstance ty t m p).laneLength :=
      Nat.le_mul_of_pos_left _ h5
    omega
  rw [Proofs.Argon2.mulU32_ok h4]
  rfl

/-- satisfiable: `m = 13`, `p = 1` gives `segment_length = 3`, `lane_length = memory_blocks = 12` -/
example : memoryGeometry 13 1 = .ok (12, 3) := by decide
example : memoryGeometry 8 4 = .ok (32, 2) := by decide     -- `m < 8p` is bumped to `8p`
example : InstInv (mkInstance 2 3 13 1) := Proofs.Argon2.mkInstance_inv (by decide) (by decide) (by decide)

/-! ### 3. `index_alpha` -/

/-- **No panic in `index_alpha`.**  Under the instance invariants and at every position
`fill_segment` visits (`slice < 4`, `index < segment_length`, `index ≥ 2` in slice 0 of pass 0),
for every `pseudo_rand < 2^32` and both values of `same_lane`: `reference_area_size ≥ 1`, no
`u32` subtraction underflows, no `u32` addition or multiplication overflows, the result is
`< lane_length` — **provided `7·segment_length − 3 < 2^32`** (the sum
`start_position + relative_position` reaches `7·segment_length − 3`). -/
theorem index_alpha_no_panic {inst : Instance} {pos : Position} {j1 : Nat} (sameLane : Bool)
    (hsl : 2 ≤ inst.segmentLength) (hll : inst.laneLength = 4 * inst.segmentLength)
    (h7 : 7 * inst.segmentLength < 2 ^ 32 + 3) (hp : PosInv inst pos) (hj : j1 < 2 ^ 32) :
    ∃ r, indexAlpha inst pos j1 sameLane = .ok r ∧ r < inst.laneLength
      ∧ referenceAreaSize inst pos sameLane = .ok (refAreaSizeN inst pos sameLane)
      ∧ 1 ≤ refAreaSizeN inst pos sameLane := by
  obtain ⟨h1, h2⟩ := Proofs.Argon2.indexAlpha_ok sameLane hsl hll h7 hp hj
  obtain ⟨h3, h4, _⟩ := Proofs.Argon2.referenceAreaSize_ok sameLane hsl hll (by omega) hp
  exact ⟨_, h1, h2, h3, h4⟩

/-- **`index_alpha` is the RFC 9106 §3.4.2 mapping**:
`(start + (|W| − 1 − (|W|·(J1² / 2^32)) / 2^32)) mod lane_length` with `|W| = reference_area_size`. -/
theorem index_alpha_eq_rfc {inst : Instance} {pos : Position} {j1 : Nat} (sameLane : Bool)
    (hsl : 2 ≤ inst.segmentLength) (hll : inst.laneLength = 4 * inst.segmentLength)
    (h7 : 7 * inst.segmentLength < 2 ^ 32 + 3) (hp : PosInv inst pos) (hj : j1 < 2 ^ 32) :
    indexAlpha inst pos j1 sameLane =
      .ok ((startPositionN inst pos
            + (refAreaSizeN inst pos sameLane - 1
               - (refAreaSizeN inst pos sameLane * (j1 * j1 / 2 ^ 32)) / 2 ^ 32))
           % inst.laneLength) :=
  (Proofs.Argon2.indexAlpha_ok sameLane hsl hll h7 hp hj).1

/-- … and that is `Spec.Argon2.refColumn` (the reference column of the RFC-structured
specification).  The hypothesis `hsame` holds at every call site: in slice 0 of pass 0
`fill_segment` forces `ref_lane = position.lane` (`same_lane_first_slice`), so the
`same_lane = false` branch — where the Rust still returns `index − 1` while the RFC's `W` would
be empty — is unreachable. -/
theorem index_alpha_eq_spec {inst : Instance} {pos : Position} {j1 : Nat} (sameLane : Bool)
    (c : Spec.Argon2.Params) (hq : c.q = inst.laneLength) (hs : c.sl = inst.segmentLength)
    (hsl : 2 ≤ inst.segmentLength) (hll : inst.laneLength = 4 * inst.segmentLength)
    (h7 : 7 * inst.segmentLength < 2 ^ 32 + 3) (hp : PosInv inst pos) (hj : j1 < 2 ^ 32)
    (hsame : pos.pass = 0 → pos.slice = 0 → sameLane = true) :
    indexAlpha inst pos j1 sameLane =
      .ok (Spec.Argon2.refColumn c pos.pass pos.slice pos.index sameLane j1) := by
  rw [(Proofs.Argon2.indexAlpha_ok sameLane hsl hll h7 hp hj).1,
    Proofs.Argon2.refIndexN_eq_spec inst pos j1 sameLane c hq hs hsame]

/-- in slice 0 of pass 0 the reference lane is the current lane -/
theorem same_lane_first_slice (inst : Instance) (pos : Position) (w : UInt64)
    (h0 : pos.pass = 0) (hs : pos.slice = 0) :
    (Proofs.Argon2.refLaneN inst pos w == pos.lane) = true := by
  unfold Proofs.Argon2.refLaneN
  rw [if_pos ⟨h0, hs⟩]
  exact beq_self_eq_true _

/-- **Finding (theoretical).**  The side condition `7·segment_length − 3 < 2^32` is necessary:
for the *accepted* parameters `m_cost = 2^32 − 1`, `parallelism = 1` (reachable through
`crypto_pwhash` with `memlimit = CRYPTO_PWHASH_MEMLIMIT_MAX`; needs 4 TiB of memory) the
instance has `segment_length = 2^30 − 1`, and at pass 1, slice 2, index `segment_length − 1`,
`pseudo_rand = 0` the `u32` sum `start_position + relative_position = 7·(2^30−1) − 3`
overflows: a panic with overflow checks, a wrong (non-RFC) reference index without. -/
theorem index_alpha_overflow_witness :
    memoryGeometry (2 ^ 32 - 1) 1 = .ok (bigInst.memoryBlocks, bigInst.segmentLength)
      ∧ InstInv bigInst
      ∧ PosInv bigInst { pass := 1, lane := 0, slice := 2, index := 2 ^ 30 - 2 }
      ∧ indexAlpha bigInst { pass := 1, lane := 0, slice := 2, index := 2 ^ 30 - 2 } 0 true = .panic :=
  ⟨Proofs.Argon2.bigInst_geometry, by constructor <;> decide, by constructor <;> decide,
    Proofs.Argon2.indexAlpha_overflow_witness⟩

/-- **… and without overflow checks the result is not RFC 9106's** (concrete, evaluated by the kernel).
`indexAlphaW` (`Model/Argon2Wrap.lean`) is `index_alpha` with wrapping `u32` arithmetic, i.e. the release profile.
For the largest accepted memory (`m_cost = 2^32 − 1`: `segment_length = 2^30 − 1`, `lane_length = 2^32 − 4`), at
pass 1, slice 2, index `segment_length − 1`, `pseudo_rand = 0`, same lane, the wrapped position is `3221225462`
while the 64-bit / RFC 9106 position (`refIndexN`) is `3221225466`; the checked build panics. -/
theorem index_alpha_wrapping_ne_rfc :
    indexAlphaW bigInst { pass := 1, lane := 0, slice := 2, index := 2 ^ 30 - 2 } 0 true = .ok 3221225462
      ∧ Proofs.Argon2.refIndexN bigInst { pass := 1, lane := 0, slice := 2, index := 2 ^ 30 - 2 } 0 true = 3221225466
      ∧ indexAlpha bigInst { pass := 1, lane := 0, slice := 2, index := 2 ^ 30 - 2 } 0 true = .panic :=
  Proofs.Argon2Wrap.index_alpha_wrapping_ne_rfc

/-- the wrapping `index_alpha` is not a second opinion on the ordinary range: wherever the checked model returns
`.ok` (in particular under `h7`, `index_alpha_no_panic`) the wrapping one returns the same value — so below
≈ 2.28 TiB the two build profiles compute the same function -/
theorem index_alpha_wrapping_eq_checked {inst : Instance} {pos : Position} {j1 : Nat} {sameLane : Bool} {v : Nat}
    (hi : pos.index < 2 ^ 32) (hl : inst.laneLength < 2 ^ 32)
    (h : indexAlpha inst pos j1 sameLane = .ok v) :
    indexAlphaW inst pos j1 sameLane = .ok v :=
  Proofs.Argon2Wrap.indexAlphaW_eq_of_ok hi hl h

/-- the hypotheses of `index_alpha_wrapping_eq_checked` are satisfiable (`m = 13`, `p = 1`) -/
example : (2 : Nat) < 2 ^ 32 ∧ (mkInstance 2 3 13 1).laneLength < 2 ^ 32
    ∧ indexAlpha (mkInstance 2 3 13 1) { pass := 1, lane := 0, slice := 2, index := 2 } 0 true = .ok 6
    ∧ indexAlphaW (mkInstance 2 3 13 1) { pass := 1, lane := 0, slice := 2, index := 2 } 0 true = .ok 6 := by
  decide

/-- the hypotheses of `index_alpha_no_panic` are satisfiable (`m = 13`, `p = 1`) -/
example : PosInv (mkInstance 2 3 13 1) { pass := 0, lane := 0, slice := 0, index := 2 } := by
  constructor <;> decide
example : indexAlpha (mkInstance 2 3 13 1) { pass := 0, lane := 0, slice := 0, index := 2 } 12345 true
    = .ok 0 := by decide
example : indexAlpha (mkInstance 2 3 13 1) { pass := 1, lane := 0, slice := 2, index := 2 } 0 true
    = .ok 6 := by decide

/-! ### 4. The offsets of `fill_segment` -/

/-- **`offsets_in_range`.**  On a well-formed instance, for a segment `(lane < lanes, slice < 4)`:
* the initial `curr_offset` / `prev_offset` are computed without `u32` overflow or underflow and
  satisfy the loop invariant `OffInv` (`curr_offset = lane·lane_length + slice·segment_length + i`;
  `prev_offset` is the cyclic predecessor except — transiently — at the second block of a lane);
* at every iteration `i ∈ [starting_index, segment_length)` whose state satisfies the invariant:
  the fix-up (`curr_offset − 1` when `curr_offset % lane_length = 1`) does not underflow and
  yields `prevAt i`, the block before `currAt i` in the same lane, cyclically;
  `currAt i < memory_blocks` and `prevAt i < memory_blocks`; the increments `+= 1` do not
  overflow and re-establish the invariant. -/
theorem offsets_in_range {inst : Instance} {pos : Position} (hI : InstInv inst)
    (hl : pos.lane < inst.lanes) (hs : pos.slice < 4) :
    (∃ curr prev, initialOffsets inst pos = .ok (curr, prev)
        ∧ OffInv inst pos (startingIndex pos) curr prev)
    ∧ ∀ i curr prev, i < inst.segmentLength → OffInv inst pos i curr prev →
        curr = currAt inst pos i
        ∧ fixPrevOffset inst curr prev = .ok (prevAt inst pos i)
        ∧ currAt inst pos i < inst.memoryBlocks ∧ prevAt inst pos i < inst.memoryBlocks
        ∧ prevAt inst pos i = pos.lane * inst.laneLength
            + (pos.slice * inst.segmentLength + i + inst.laneLength - 1) % inst.laneLength
        ∧ currAt inst pos i % inst.laneLength = pos.slice * inst.segmentLength + i
        ∧ addU32 (currAt inst pos i) 1 = .ok (currAt inst pos i + 1)
        ∧ addU32 (prevAt inst pos i) 1 = .ok (prevAt inst pos i + 1)
        ∧ OffInv inst pos (i + 1) (currAt inst pos i + 1) (prevAt inst pos i + 1) := by
  refine ⟨Proofs.Argon2.initialOffsets_ok hI hl hs, ?_⟩
  intro i curr prev hi hinv
  obtain ⟨h1, h2, h3⟩ := Proofs.Argon2.offInv_step hI hl hs hi
  have hlt : pos.slice * inst.segmentLength + i < inst.laneLength := by
    have := (Proofs.Argon2.segFacts hI hl hs).slice_le; omega
  exact ⟨hinv.1, Proofs.Argon2.fixPrevOffset_ok hI hl hs hi hinv,
    Proofs.Argon2.currAt_lt hI hl hs hi, Proofs.Argon2.prevAt_lt hI hl hs hi,
    Proofs.Argon2.prevAt_cyclic hlt, Proofs.Argon2.currAt_mod hlt,
    Proofs.Argon2.addU32_ok h1, Proofs.Argon2.addU32_ok h2, h3⟩

/-- One whole iteration of the loop of `fill_segment` succeeds: every memory index
(`prev_offset`, `curr_offset`, `lane_length·ref_lane + ref_index`, `pseudo_rands[i]`) is in
bounds, no arithmetic panics, and the memory is updated at `currAt i` only. -/
theorem fill_segment_iteration {inst : Instance} {pos : Position} {dia : Bool} {pr : Array UInt64}
    {i curr prev : Nat} {mem : Array Block}
    (hI : InstInv inst) (h7 : 7 * inst.segmentLength < 2 ^ 32 + 3)
    (hl : pos.lane < inst.lanes) (hs : pos.slice < 4)
    (hi0 : startingIndex pos ≤ i) (hi : i < inst.segmentLength)
    (hmem : mem.size = inst.memoryBlocks) (hpr : dia = true → pr.size = inst.segmentLength)
    (hinv : OffInv inst pos i curr prev) :
    fillSegmentStep inst pos dia pr i (curr, prev, mem)
      = .ok (currAt inst pos i + 1, prevAt inst pos i + 1, stepMem inst pos dia pr i mem) :=
  Proofs.Argon2.fillSegmentStep_ok hI h7 hl hs hi0 hi hmem hpr hinv

/-! ### 5. Addressing mode -/

/-- `data_independent_addressing ↔ Argon2i ∨ (Argon2id ∧ pass = 0 ∧ slice < 2)` -/
theorem addressing_mode (inst : Instance) (pos : Position)
    (hty : inst.ty = Argon2i ∨ inst.ty = Argon2id) :
    dataIndependentAddressing inst pos = true ↔
      inst.ty = Argon2i ∨ (inst.ty = Argon2id ∧ pos.pass = 0 ∧ pos.slice < 2) :=
  Proofs.Argon2.addressing_mode inst pos hty

/-! ### 6. `longhash` (H′) -/

/-- For every `outlen > 64`, in `longhash`'s `usize` arithmetic (`outlen' = outlen − 32`):
neither `outlen'/32 − 2` (when `32 ∣ outlen'`) nor `outlen'/32 − 1` underflows;
`chunk_count + 1 = ⌈outlen/32⌉ − 2 = r` of RFC 9106 §3.3 (the first 32-byte piece is written
before the loop, so the loop runs `r − 1` times); `split_at_mut(chunk_count·32)` is in range;
and the last piece has `outlen − 32·r ∈ (32, 64]` bytes, a legal BLAKE2b output length. -/
theorem hprime_structure (outlen : Nat) (h : 64 < outlen) :
    let outlen' := outlen - 32
    let chunkCount := if outlen' % 32 = 0 then outlen' / 32 - 2 else outlen' / 32 - 1
    let r := (outlen + 31) / 32 - 2
    32 ≤ outlen ∧ (outlen' % 32 = 0 → 2 ≤ outlen' / 32) ∧ (outlen' % 32 ≠ 0 → 1 ≤ outlen' / 32)
      ∧ chunkCount + 1 = r ∧ chunkCount * 32 ≤ outlen'
      ∧ outlen' - chunkCount * 32 = outlen - 32 * r
      ∧ 32 < outlen - 32 * r ∧ outlen - 32 * r ≤ 64 :=
  Proofs.Argon2.longhash_arith outlen h

/-- `longhash` is the RFC's `H'` whenever its two `assert!`s hold, and panics otherwise. -/
theorem longhash_eq_hprime {outlen : Nat} (inp : Bytes) (h4 : 4 < outlen) (hmax : outlen < 0xFFFFFFFF) :
    longhash outlen inp = .ok (Spec.Argon2.hprime outlen inp) :=
  Proofs.Argon2.longhash_eq_hprime inp h4 hmax

/-- **Finding (theoretical).**  `Argon2Context::new` accepts `outlen = 0xFFFFFFFF`
(`ARGON2_MAX_OUTLEN`), but `longhash` asserts `output.len() < u32::MAX`: the whole memory is
filled and then `argon2_finalize` panics (needs a 4 GiB output buffer). -/
theorem longhash_panics_at_max_outlen (inp : Bytes) : longhash 0xFFFFFFFF inp = .panic :=
  Proofs.Argon2.longhash_panic inp (.inr (Nat.le_refl _))

/-! ### No panic on the whole path -/

/-- **`argon2_hash` never panics and never errs on accepted parameters** (any `lanes`,
including `8 ≤ m < 8·lanes`), provided `outlen ≠ u32::MAX` and `7·segment_length − 3 < 2^32`
(`m ≲ 2.45·10^9` KiB for one lane): every checked operation, slice index and `assert!` of
`argon2_hash`, `Argon2Instance::new`, `argon2_fill_first_blocks`, `generate_addresses`,
`fill_segment`, `index_alpha`, `argon2_finalize` and `longhash` succeeds. -/
theorem argon2Hash_no_panic {ty t m p : Nat} {pwd salt : Bytes} {secret ad : Option Bytes} {outlen : Nat}
    (hv : Valid outlen pwd.length salt.length (secret.map List.length) (ad.map List.length) t m p)
    (hout : outlen < 0xFFFFFFFF)
    (h7 : 7 * (max m (8 * p) / (4 * p)) < 2 ^ 32 + 3) :
    argon2Hash ty t m p pwd salt secret ad outlen
      = .ok (argon2HashN ty t m p pwd salt secret ad outlen) :=
  Proofs.Argon2.argon2Hash_ok hv hout h7

/-- `crypto_pwhash` with valid arguments (`memlimit` below ≈ 2.28 TiB, `outlen ≠ u32::MAX`)
returns `Ok` -/
theorem cryptoPwhash_no_panic {outlen : Nat} {pwd salt : Bytes} {opslimit memlimit alg : Nat}
    (halg : alg = 1 ∨ alg = 2)
    (hv : PwhashValid outlen pwd.length salt.length opslimit memlimit)
    (hout : outlen < 0xFFFFFFFF) (h7 : 7 * (memlimit / 1024 / 4) < 2 ^ 32 + 3) :
    cryptoPwhash outlen pwd salt opslimit memlimit alg
      = .ok (argon2HashN alg opslimit (memlimit / 1024) 1 pwd salt none none outlen) :=
  Proofs.Argon2.cryptoPwhash_ok halg hv hout h7

/-- the side condition covers every libsodium preset (`MEMLIMIT_SENSITIVE = 1 GiB`) and
everything up to 2 TiB -/
example : 7 * (2199023255552 / 1024 / 4) < 2 ^ 32 + 3 := by decide

/-! ### 7. The model is RFC 9106 -/

/-- **`fill_memory_model_eq_spec` (all lanes, not only `p = 1`).**  For Argon2i and Argon2id, every
accepted parameter set with `m ≥ 8p` (the RFC's domain), `outlen ≠ u32::MAX` and
`7·⌊m/4p⌋ − 3 < 2^32`: `argon2_hash` returns `Ok`, and the tag is the one computed by the
RFC-9106-structured executable specification `Spec.Argon2.argon2` (that this specification reproduces the final
tags of RFC 9106 §5.1–§5.3 is checked by RUNNING it — `Test/SpecVectorsA.lean` and the driver —, not in Lean's
kernel: one 32 KiB tag takes the kernel more than 8 minutes, even the smallest instance `m = 8, t = 1` about five
minutes; the one RFC value that is evaluated in the kernel is the §5.3 pre-hashing digest, `rfc9106_prehash_vector`
in §10) —
`H0`, the first blocks, `generate_addresses`, `index_alpha`, `fill_block` (= `G`, resp. `G ⊕ old`),
the `curr_offset`/`prev_offset` bookkeeping, the final XOR and `H'` included. -/
theorem fill_memory_model_eq_spec {ty t m p : Nat} {pwd salt : Bytes} {secret ad : Option Bytes}
    {outlen : Nat} (hty : ty = 1 ∨ ty = 2)
    (hv : Valid outlen pwd.length salt.length (secret.map List.length) (ad.map List.length) t m p)
    (hm8 : 8 * p ≤ m) (hout : outlen < 0xFFFFFFFF) (h7 : 7 * (m / (4 * p)) < 2 ^ 32 + 3) :
    argon2Hash ty t m p pwd salt secret ad outlen
      = .ok (Spec.Argon2.argon2 ty pwd salt (secret.getD []) (ad.getD []) t m p outlen) := by
  have hmax : max m (8 * p) = m := by omega
  rw [Proofs.Argon2.argon2Hash_ok hv hout (by rw [hmax]; exact h7),
    Proofs.Argon2.argon2HashN_eq_spec pwd salt secret ad outlen hty hv.lanes_ge
      (by have := hv.lanes_le; omega) hm8 (by have := hv.m_le; omega)]

/-- non-vacuity witness: the hypotheses of `fill_memory_model_eq_spec` hold JOINTLY — here for the
smallest one-lane instance (`p = 1`, `m = 8`; note that `Valid 32 0 8 none none 1 8 4` above is
*not* such an instance: it violates `hm8`) … -/
example : (2 = 1 ∨ 2 = 2) ∧ Valid 32 0 8 none none 1 8 1 ∧ 8 * 1 ≤ 8 ∧ 32 < 0xFFFFFFFF
    ∧ 7 * (8 / (4 * 1)) < 2 ^ 32 + 3 :=
  ⟨.inr rfl, by constructor <;> simp, by decide, by decide, by decide⟩

/-- … and the theorem instantiated on a non-trivial one: Argon2id, 3 passes, 16 KiB, 2 lanes,
4-byte password, 8-byte salt, a secret and associated data, 32-byte tag -/
example :
    argon2Hash 2 3 16 2 [1, 2, 3, 4] [0, 1, 2, 3, 4, 5, 6, 7] (some [9]) (some [7, 7]) 32
      = .ok (Spec.Argon2.argon2 2 [1, 2, 3, 4] [0, 1, 2, 3, 4, 5, 6, 7] [9] [7, 7] 3 16 2 32) :=
  fill_memory_model_eq_spec (.inr rfl) (by constructor <;> simp) (by decide) (by decide) (by decide)

/-- `crypto_pwhash` computes RFC 9106 Argon2i / Argon2id with `t = opslimit`,
`m = memlimit / 1024` KiB, one lane, no secret, no associated data. -/
theorem cryptoPwhash_eq_spec {outlen : Nat} {pwd salt : Bytes} {opslimit memlimit alg : Nat}
    (halg : alg = 1 ∨ alg = 2)
    (hv : PwhashValid outlen pwd.length salt.length opslimit memlimit)
    (hout : outlen < 0xFFFFFFFF) (h7 : 7 * (memlimit / 1024 / 4) < 2 ^ 32 + 3) :
    cryptoPwhash outlen pwd salt opslimit memlimit alg
      = .ok (Spec.Argon2.argon2 alg pwd salt [] [] opslimit (memlimit / 1024) 1 outlen) := by
  rw [Proofs.Argon2.cryptoPwhash_ok halg hv hout h7,
    Proofs.Argon2.argon2HashN_eq_spec pwd salt none none outlen halg (by decide) (by decide)
      (by have := hv.mem_ge; omega) (by have := hv.mem_le; omega)]
  rfl

/-- non-vacuity witness for `PwhashValid` and for all hypotheses of `cryptoPwhash_eq_spec` /
`cryptoPwhash_no_panic` jointly (`OPSLIMIT_MIN`, `MEMLIMIT_MIN`, 4-byte password, 16-byte salt) -/
example : PwhashValid 32 4 16 1 8192 := by constructor <;> decide

example :
    cryptoPwhash 32 [1, 2, 3, 4] [0, 1, 2, 3, 4, 5, 6, 7, 8, 9, 10, 11, 12, 13, 14, 15] 1 8192 2
      = .ok (Spec.Argon2.argon2 2 [1, 2, 3, 4] [0, 1, 2, 3, 4, 5, 6, 7, 8, 9, 10, 11, 12, 13, 14, 15]
          [] [] 1 (8192 / 1024) 1 32) :=
  cryptoPwhash_eq_spec (.inr rfl) (by constructor <;> decide) (by decide) (by decide)

/-! ### 8. `crypto_pwhash` is total on the documented domain -/

/-- **`crypto_pwhash` never panics** for an algorithm in {Argon2i13, Argon2id13}, an output buffer
shorter than `u32::MAX` and `memlimit` below ≈ 2.28 TiB (`h7`) — whatever the password, salt and
limits are: this combines `cryptoPwhash_validate_iff` (rejections are `Err`) with
`argon2Hash_no_panic` (accepted calls run to `Ok`).  The two bounds are necessary
(`longhash_panics_at_max_outlen`, `index_alpha_overflow_witness`), and so is the algorithm
(`cryptoPwhash_panics_on_unknown_alg`).
About the model: memory allocation is assumed to succeed (Vec::resize aborts the process otherwise; libsodium
returns ENOMEM); the property text bounds the cost parameters. -/
theorem cryptoPwhash_never_panics {outlen : Nat} {pwd salt : Bytes} {opslimit memlimit alg : Nat}
    (halg : alg = 1 ∨ alg = 2) (hout : outlen < 0xFFFFFFFF)
    (h7 : 7 * (memlimit / 1024 / 4) < 2 ^ 32 + 3) :
    cryptoPwhash outlen pwd salt opslimit memlimit alg ≠ .panic :=
  Proofs.PwhashExtra.cryptoPwhash_ne_panic halg hout h7

/-- … in full: on that domain `crypto_pwhash` is the total function "RFC 9106 tag on
`PwhashValid`, `Err` off it".
About the model: memory allocation is assumed to succeed (Vec::resize aborts the process otherwise; libsodium
returns ENOMEM); the property text bounds the cost parameters. -/
theorem cryptoPwhash_total {outlen : Nat} {pwd salt : Bytes} {opslimit memlimit alg : Nat}
    (halg : alg = 1 ∨ alg = 2) (hout : outlen < 0xFFFFFFFF)
    (h7 : 7 * (memlimit / 1024 / 4) < 2 ^ 32 + 3) :
    (PwhashValid outlen pwd.length salt.length opslimit memlimit ∧
      cryptoPwhash outlen pwd salt opslimit memlimit alg
        = .ok (Spec.Argon2.argon2 alg pwd salt [] [] opslimit (memlimit / 1024) 1 outlen)) ∨
    (¬ PwhashValid outlen pwd.length salt.length opslimit memlimit ∧
      cryptoPwhash outlen pwd salt opslimit memlimit alg = .err) :=
  Proofs.PwhashExtra.cryptoPwhash_total halg hout h7

/-- non-vacuity witness: the domain of the two theorems above contains both valid and invalid
calls (the side conditions do not mention `opslimit`, the password or the salt) -/
example : (2 = 1 ∨ 2 = 2) ∧ 32 < 0xFFFFFFFF ∧ 7 * (8192 / 1024 / 4) < 2 ^ 32 + 3
    ∧ PwhashValid 32 4 16 1 8192 ∧ ¬ PwhashValid 32 4 16 0 8192 :=
  ⟨.inr rfl, by decide, by decide, by constructor <;> decide, fun h => absurd h.ops_ge (by decide)⟩

/-- converse witness for `halg`: `PasswordHashAlgorithm::from(u32)` panics on anything but 1 and 2
(before any check) -/
theorem cryptoPwhash_panics_on_unknown_alg (outlen : Nat) (pwd salt : Bytes) (opslimit memlimit alg : Nat)
    (halg : alg ≠ 1 ∧ alg ≠ 2) : cryptoPwhash outlen pwd salt opslimit memlimit alg = .panic :=
  Proofs.Argon2.cryptoPwhash_alg_panic outlen pwd salt opslimit memlimit alg halg

/-- whenever `argon2_hash` returns `Ok` — no side condition — the parameters had passed
`Argon2Context::new` and exactly `outlen` bytes were produced -/
theorem argon2Hash_ok_inv {ty t m p : Nat} {pwd salt : Bytes} {secret ad : Option Bytes} {outlen : Nat}
    {h : Bytes} (e : argon2Hash ty t m p pwd salt secret ad outlen = .ok h) :
    Valid outlen pwd.length salt.length (secret.map List.length) (ad.map List.length) t m p
      ∧ h.length = outlen :=
  Proofs.PwhashExtra.argon2Hash_ok_inv e

/-- the RFC function returns exactly `outlen` bytes -/
theorem spec_argon2_length (ty : Nat) (pwd salt secret ad : Bytes) (t m p outlen : Nat) :
    (Spec.Argon2.argon2 ty pwd salt secret ad t m p outlen).length = outlen :=
  Proofs.PwhashExtra.spec_argon2_length ty pwd salt secret ad t m p outlen

/-! ### 9. The object API: `PwHash::verify` (`src/pwhash.rs`)

`objVerify hash salt hashLength opslimit memlimit alg pwd` models `self.verify(pwd)` for
`self = PwHash { hash, salt, config: Config { hash_length, opslimit, memlimit, algorithm, .. } }`:
`hash_with_salt` recomputes `crypto_pwhash` into a buffer of `config.hash_length` bytes with the
stored salt and the config's limits, then the two hashes are compared with `ct_eq`.
(The buffer length is `config.hash_length`, which equals `hash.len()` for every `PwHash` made by
`hash`, `hash_with_salt` or `from_string`; `from_parts` can make them differ, see
`objVerify_len_mismatch`.) -/

/-- **`verify` says `Ok` exactly when `crypto_pwhash` on the candidate reproduces the stored hash**
— no hypotheses ON THE TYPED MODEL `objVerify`, which starts at the call of `crypto_pwhash`.  The Rust first runs
`hash.resize(config.hash_length, 0)`, a capacity-overflow panic for `hash_length > isize::MAX = 2^63 − 1`: the
statement holds for the code (`objVerifyRaw`) under `hashLength ≤ 2^63 − 1` (`objVerifyRaw_eq_objVerify`); the
unconditional statement about the code is `objVerifyRaw_iff`.  [docstring restated; statement unchanged] -/
theorem objVerify_iff (hash salt : Bytes) (hashLength opslimit memlimit alg : Nat) (pwd' : Bytes) :
    objVerify hash salt hashLength opslimit memlimit alg pwd' = .ok () ↔
      cryptoPwhash hashLength pwd' salt opslimit memlimit alg = .ok hash :=
  Proofs.PwhashExtra.objVerify_iff hash salt hashLength opslimit memlimit alg pwd'

/-- the form with the stored hash's length, as for every `PwHash` not made by `from_parts` -/
theorem objVerify_iff_len (hash salt : Bytes) (opslimit memlimit alg : Nat) (pwd' : Bytes) :
    objVerify hash salt hash.length opslimit memlimit alg pwd' = .ok () ↔
      cryptoPwhash hash.length pwd' salt opslimit memlimit alg = .ok hash :=
  Proofs.PwhashExtra.objVerify_iff hash salt hash.length opslimit memlimit alg pwd'

/-- `verify` errs exactly when `crypto_pwhash` errs or returns something else, and panics exactly
when `crypto_pwhash` panics — statements about the TYPED model `objVerify`; they hold for the code (`objVerifyRaw`)
under `hashLength ≤ 2^63 − 1` (`objVerifyRaw_eq_objVerify`).  Above that bound the typed model says `Err` and the
code panics in `Vec::resize` (`objVerify_typed_err_code_panics`).  [docstring restated; statement unchanged] -/
theorem objVerify_err_iff (hash salt : Bytes) (hashLength opslimit memlimit alg : Nat) (pwd' : Bytes) :
    objVerify hash salt hashLength opslimit memlimit alg pwd' = .err ↔
      cryptoPwhash hashLength pwd' salt opslimit memlimit alg = .err ∨
      ∃ c, cryptoPwhash hashLength pwd' salt opslimit memlimit alg = .ok c ∧ c ≠ hash :=
  Proofs.PwhashExtra.objVerify_err_iff hash salt hashLength opslimit memlimit alg pwd'

/-- panic side of the TYPED model (see `objVerify_err_iff`); for the code: `objVerifyRaw_panic_iff`, which has the
additional disjunct `2^63 − 1 < hashLength`.  [docstring added; statement unchanged] -/
theorem objVerify_panic_iff (hash salt : Bytes) (hashLength opslimit memlimit alg : Nat) (pwd' : Bytes) :
    objVerify hash salt hashLength opslimit memlimit alg pwd' = .panic ↔
      cryptoPwhash hashLength pwd' salt opslimit memlimit alg = .panic :=
  Proofs.PwhashExtra.objVerify_panic_iff hash salt hashLength opslimit memlimit alg pwd'

/-! #### the code-shaped `verify` / `hash_with_salt` / `hash`: `Vec::resize` in front of `crypto_pwhash`

`objHashWithSaltRaw`, `objVerifyRaw`, `objHashRaw` (`Model/PwhashApi.lean`) start at the FIRST statement of the Rust
functions: `hash.resize(config.hash_length, 0)` (and `salt.resize(config.salt_length, 0)` in `PwHash::hash`), which
for `Vec<u8>` panics with "capacity overflow" above `isize::MAX = 2^63 − 1` — before `crypto_pwhash` validates
anything.  These are the definitions the driver EXECUTES for the `pwhash_obj` request (`Driver/Pwhash.lean`:
`objHashWithSaltRaw`, `objVerifyRaw`, `objToString`, `reencodeRaw`, `strVerifyRaw`, compared field by field with the
crate's answer), and `pwhash_keypair` runs `Model.KeyForms.deriveKeypair` over `cryptoPwhash`. -/

/-- the code-shaped `hash_with_salt` is the typed one for every `hash_length ≤ isize::MAX` … -/
theorem objHashWithSaltRaw_eq {hashLength : Nat} (salt : Bytes) (opslimit memlimit alg : Nat) (pwd : Bytes)
    (h : hashLength ≤ 2 ^ 63 - 1) :
    objHashWithSaltRaw hashLength salt opslimit memlimit alg pwd
      = objHashWithSalt hashLength salt opslimit memlimit alg pwd :=
  Proofs.PwhashRaw.objHashWithSaltRaw_eq salt opslimit memlimit alg pwd h

/-- … and so is the code-shaped `verify` -/
theorem objVerifyRaw_eq_objVerify (hash salt : Bytes) {hashLength : Nat} (opslimit memlimit alg : Nat) (pwd' : Bytes)
    (h : hashLength ≤ 2 ^ 63 - 1) :
    objVerifyRaw hash salt hashLength opslimit memlimit alg pwd'
      = objVerify hash salt hashLength opslimit memlimit alg pwd' :=
  Proofs.PwhashRaw.objVerifyRaw_eq_objVerify hash salt opslimit memlimit alg pwd' h

/-- the hypothesis is satisfiable (every length the property quantifies over: 16 ..= 128) -/
example : (128 : Nat) ≤ 2 ^ 63 - 1 := by decide

/-- **the code-shaped `verify` panics exactly when `hash_length > isize::MAX` (in `Vec::resize`) or `crypto_pwhash`
panics** — no hypotheses -/
theorem objVerifyRaw_panic_iff (hash salt : Bytes) (hashLength opslimit memlimit alg : Nat) (pwd' : Bytes) :
    objVerifyRaw hash salt hashLength opslimit memlimit alg pwd' = .panic ↔
      2 ^ 63 - 1 < hashLength ∨ cryptoPwhash hashLength pwd' salt opslimit memlimit alg = .panic :=
  Proofs.PwhashRaw.objVerifyRaw_panic_iff hash salt hashLength opslimit memlimit alg pwd'

/-- **the code-shaped `verify` says `Ok` exactly when `hash_length ≤ isize::MAX` and `crypto_pwhash` reproduces the
stored hash** — no hypotheses (the counterpart of `objVerify_iff` for the code) -/
theorem objVerifyRaw_iff (hash salt : Bytes) (hashLength opslimit memlimit alg : Nat) (pwd' : Bytes) :
    objVerifyRaw hash salt hashLength opslimit memlimit alg pwd' = .ok () ↔
      hashLength ≤ 2 ^ 63 - 1 ∧ cryptoPwhash hashLength pwd' salt opslimit memlimit alg = .ok hash :=
  Proofs.PwhashRaw.objVerifyRaw_iff hash salt hashLength opslimit memlimit alg pwd'

/-- **where the typed model and the code differ**: for a `Config` with `hash_length > isize::MAX` (constructible:
`with_hash_length` takes any `usize`) the typed model answers `Err` (`crypto_pwhash` would reject the length) while
the code panics before getting there -/
theorem objVerify_typed_err_code_panics (hash salt : Bytes) {hashLength : Nat} (opslimit memlimit : Nat) {alg : Nat}
    (pwd' : Bytes) (halg : alg = 1 ∨ alg = 2) (h : 2 ^ 63 - 1 < hashLength) :
    objVerify hash salt hashLength opslimit memlimit alg pwd' = .err
      ∧ objVerifyRaw hash salt hashLength opslimit memlimit alg pwd' = .panic :=
  Proofs.PwhashRaw.objVerify_err_of_big hash salt opslimit memlimit pwd' halg h

/-- the hypotheses are satisfiable (`hash_length = 2^63`, a `usize`) -/
example : (2 = 1 ∨ 2 = 2) ∧ 2 ^ 63 - 1 < 2 ^ 63 ∧ 2 ^ 63 < 2 ^ 64 := by decide

/-- `PwHash::hash` (random salt, `salt` = the `config.salt_length` bytes drawn): the two `resize`s panic above
`isize::MAX`, otherwise it panics exactly when `crypto_pwhash` does -/
theorem objHashRaw_panic_iff (hashLength : Nat) (salt : Bytes) (opslimit memlimit alg : Nat) (pwd : Bytes) :
    objHashRaw hashLength salt opslimit memlimit alg pwd = .panic ↔
      2 ^ 63 - 1 < hashLength ∨ 2 ^ 63 - 1 < salt.length
        ∨ cryptoPwhash hashLength pwd salt opslimit memlimit alg = .panic :=
  Proofs.PwhashRaw.objHashRaw_panic_iff hashLength salt opslimit memlimit alg pwd

/-- below the bound `PwHash::hash` is `hash_with_salt` on the drawn salt, which it returns alongside the hash -/
theorem objHashRaw_eq {hashLength : Nat} {salt : Bytes} (opslimit memlimit alg : Nat) (pwd : Bytes)
    (h : hashLength ≤ 2 ^ 63 - 1) (hs : salt.length ≤ 2 ^ 63 - 1) :
    objHashRaw hashLength salt opslimit memlimit alg pwd =
      match objHashWithSalt hashLength salt opslimit memlimit alg pwd with
      | .ok hash => .ok (hash, salt)
      | .err => .err
      | .panic => .panic :=
  Proofs.PwhashRaw.objHashRaw_eq opslimit memlimit alg pwd h hs

example : (32 : Nat) ≤ 2 ^ 63 - 1 ∧ ([0, 1, 2, 3, 4, 5, 6, 7, 8, 9, 10, 11, 12, 13, 14, 15] : Bytes).length ≤ 2 ^ 63 - 1 := by
  decide

/-- **In RFC terms** (composition with `cryptoPwhash_eq_spec`): on the documented domain `verify`
says `Ok` iff the candidate passes `crypto_pwhash`'s validation and its Argon2 tag IS the stored
hash.  So "accepts the password that produced the hash and rejects every other value" holds
exactly up to Argon2 collisions — nothing else is accepted, nothing that matches is rejected. -/
theorem objVerify_iff_spec {hash salt : Bytes} {hashLength opslimit memlimit alg : Nat} {pwd' : Bytes}
    (halg : alg = 1 ∨ alg = 2) (hout : hashLength < 0xFFFFFFFF)
    (h7 : 7 * (memlimit / 1024 / 4) < 2 ^ 32 + 3) :
    objVerify hash salt hashLength opslimit memlimit alg pwd' = .ok () ↔
      PwhashValid hashLength pwd'.length salt.length opslimit memlimit ∧
      Spec.Argon2.argon2 alg pwd' salt [] [] opslimit (memlimit / 1024) 1 hashLength = hash :=
  Proofs.PwhashExtra.objVerify_iff_spec halg hout h7

/-- … and `Err` otherwise: on that domain `verify` never panics.
This is about the typed model `objVerify` (it starts at the call of `crypto_pwhash`); `hout` implies
`hashLength ≤ isize::MAX`, so by `objVerifyRaw_eq_objVerify` it holds verbatim for the code-shaped `objVerifyRaw`.
Memory allocation is assumed to succeed (Vec::resize aborts the process otherwise; libsodium returns ENOMEM); the
property text bounds the cost parameters. -/
theorem objVerify_total {hash salt : Bytes} {hashLength opslimit memlimit alg : Nat} {pwd' : Bytes}
    (halg : alg = 1 ∨ alg = 2) (hout : hashLength < 0xFFFFFFFF)
    (h7 : 7 * (memlimit / 1024 / 4) < 2 ^ 32 + 3) :
    ((PwhashValid hashLength pwd'.length salt.length opslimit memlimit ∧
        Spec.Argon2.argon2 alg pwd' salt [] [] opslimit (memlimit / 1024) 1 hashLength = hash) ∧
      objVerify hash salt hashLength opslimit memlimit alg pwd' = .ok ()) ∨
    (¬ (PwhashValid hashLength pwd'.length salt.length opslimit memlimit ∧
        Spec.Argon2.argon2 alg pwd' salt [] [] opslimit (memlimit / 1024) 1 hashLength = hash) ∧
      objVerify hash salt hashLength opslimit memlimit alg pwd' = .err) :=
  Proofs.PwhashExtra.objVerify_total halg hout h7

/-- **hash-then-verify.**  For a `PwHash` made by `hash_with_salt(pwd, salt, config)` (hence also
by `hash`, whose salt is random): `verify(pwd')` says `Ok` iff `pwd'` is within Argon2's length
limit and has the same Argon2 tag as `pwd` — in particular `verify(pwd)` is `Ok`, and a `pwd'`
that is accepted without being `pwd` is an Argon2 collision. -/
theorem objVerify_of_hashed {hash salt : Bytes} {hashLength opslimit memlimit alg : Nat} {pwd : Bytes}
    (halg : alg = 1 ∨ alg = 2) (hout : hashLength < 0xFFFFFFFF)
    (h7 : 7 * (memlimit / 1024 / 4) < 2 ^ 32 + 3)
    (hmade : objHashWithSalt hashLength salt opslimit memlimit alg pwd = .ok hash) (pwd' : Bytes) :
    objVerify hash salt hashLength opslimit memlimit alg pwd' = .ok () ↔
      pwd'.length ≤ 0xFFFFFFFF ∧
      Spec.Argon2.argon2 alg pwd' salt [] [] opslimit (memlimit / 1024) 1 hashLength
        = Spec.Argon2.argon2 alg pwd salt [] [] opslimit (memlimit / 1024) 1 hashLength :=
  Proofs.PwhashExtra.objVerify_of_hashed halg hout h7 hmade pwd'

/-- the password that was hashed verifies — with no side condition at all -/
theorem objVerify_accepts_own {hash salt : Bytes} {hashLength opslimit memlimit alg : Nat} {pwd : Bytes}
    (hmade : objHashWithSalt hashLength salt opslimit memlimit alg pwd = .ok hash) :
    objVerify hash salt hashLength opslimit memlimit alg pwd = .ok () :=
  (Proofs.PwhashExtra.objVerify_iff ..).2 hmade

/-- **Observation.**  `verify` recomputes `config.hash_length` bytes, not `hash.len()`: a `PwHash`
assembled with `from_parts` from a hash of another length verifies no password at all. -/
theorem objVerify_len_mismatch {hash salt : Bytes} {hashLength opslimit memlimit alg : Nat} {pwd' : Bytes}
    (halg : alg = 1 ∨ alg = 2) (hout : hashLength < 0xFFFFFFFF)
    (h7 : 7 * (memlimit / 1024 / 4) < 2 ^ 32 + 3) (hne : hashLength ≠ hash.length) :
    objVerify hash salt hashLength opslimit memlimit alg pwd' = .err :=
  Proofs.PwhashExtra.objVerify_len_mismatch halg hout h7 hne

/-- non-vacuity witness for `objVerify_of_hashed` / `objVerify_accepts_own`: `hmade` is satisfiable
on the documented domain (`cryptoPwhash_eq_spec` produces the hash), e.g. at `OPSLIMIT_MIN`,
`MEMLIMIT_MIN`, a 16-byte salt and a 64-byte hash -/
example : ∃ hash, objHashWithSalt 64 [0, 1, 2, 3, 4, 5, 6, 7, 8, 9, 10, 11, 12, 13, 14, 15] 1 8192 2
    [1, 2, 3, 4] = .ok hash ∧ hash.length = 64 :=
  ⟨_, cryptoPwhash_eq_spec (.inr rfl) (by constructor <;> decide) (by decide) (by decide),
    Proofs.PwhashExtra.spec_argon2_length ..⟩

/-- the first blocks, one pass, and the final block separately (components of the theorem above) -/
theorem fill_block_eq_G (prev ref next : Block) (withXor : Bool) :
    fillBlock prev ref next withXor =
      if withXor then Spec.Argon2.xorBlock (Spec.Argon2.G prev ref) next else Spec.Argon2.G prev ref :=
  Proofs.Argon2.fillBlock_eq prev ref next withXor

/-! ### 10. The BLAKE2b calls: the stand-ins of `Model/Argon2.lean` versus the models of dryoc's BLAKE2b code

Everything above is about `Model.Argon2.argon2Hash`, whose H0 is ONE `Spec.Blake2b.hash 64 []` over the concatenated
input and whose H′ (`Model.Argon2.longhash`) is a re-implementation over `Spec.Blake2b.hash`.  The Rust calls
`blake2b::State::init / update / finalize` and `blake2b::longhash`; their statement-by-statement models are
`Model.Blake2b.init / update / finalize` (`hashChunks` = `init`, `foldl update`, `finalize`) and
`Model.Blake2b.longhash`.  The theorems of this section connect the two. -/

/-- **H′ bridge.**  The model of the code's `blake2b::longhash` (chained `State::init`/`update`/`finalize`/`hash`
calls of blake2b_soft.rs) returns what the stand-in `Model.Argon2.longhash` returns, for every output length allowed
by the two `assert!`s and every input shorter than 2^64 − 132 bytes (so that BLAKE2b's byte counter stays in its low
word; Argon2 passes 72 and 1024 bytes). -/
theorem longhash_code_eq {n : Nat} (inp : Bytes) (h4 : 4 < n) (hmax : n < 0xFFFFFFFF)
    (hin : inp.length + 132 < 2 ^ 64) :
    Model.Blake2b.longhash n inp = Model.Argon2.longhash n inp :=
  Proofs.Argon2Code.longhash_code_eq inp h4 hmax hin

/-- outside the `assert!`s both panic, whatever the input -/
theorem longhash_code_panic {n : Nat} (inp : Bytes) (h : n ≤ 4 ∨ 0xFFFFFFFF ≤ n) :
    Model.Blake2b.longhash n inp = .panic ∧ Model.Argon2.longhash n inp = .panic :=
  Proofs.Argon2Code.longhash_code_panic inp h

/-- non-vacuity witness: the two calls Argon2 makes (1024 bytes out of 72, `outlen` bytes out of 1024) -/
example : Model.Blake2b.longhash 1024 (zeros 72) = Model.Argon2.longhash 1024 (zeros 72)
    ∧ Model.Blake2b.longhash 32 (zeros 1024) = Model.Argon2.longhash 32 (zeros 1024) :=
  ⟨longhash_code_eq _ (by decide) (by decide) (by rw [Proofs.Blake2bBackend.zeros_length]; decide),
   longhash_code_eq _ (by decide) (by decide) (by rw [Proofs.Blake2bBackend.zeros_length]; decide)⟩

/-- the `update` calls of `argon2_initial_hash` (`Model.Argon2.initialHashChunks`), spelled out: with a non-empty
password and salt, `Some(secret)` non-empty and `ad = None` the Rust issues these thirteen `update`s … -/
example (p outlen m t ty : Nat) (pwd salt s : Bytes) (hp : pwd ≠ []) (hs : salt ≠ []) (hx : s ≠ []) :
    initialHashChunks p outlen m t ty pwd salt (some s) none =
      [store32 p, store32 outlen, store32 m, store32 t, store32 0x13, store32 ty,
       store32 pwd.length, pwd, store32 salt.length, salt, store32 s.length, s, store32 0] := by
  simp [initialHashChunks, optUpdate, hp, hs, hx, ARGON2_VERSION_NUMBER]

/-- … and with an EMPTY password, `secret = Some(&[])` and `ad = None` the `update(password)` and `update(secret)`
calls are skipped (`if !x.is_empty()`), the length words are not -/
example (p outlen m t ty : Nat) (salt : Bytes) (hs : salt ≠ []) :
    initialHashChunks p outlen m t ty [] salt (some []) none =
      [store32 p, store32 outlen, store32 m, store32 t, store32 0x13, store32 ty,
       store32 0, store32 salt.length, salt, store32 0, store32 0] := by
  simp [initialHashChunks, optUpdate, hs, ARGON2_VERSION_NUMBER]

/-- **H0 bridge.**  `State::init(64, None, None, None)`, then the `update`s of `argon2_initial_hash` in the order —
and with the skips — of the Rust, then `finalize`, all through the model of blake2b_soft.rs, produce the 64-byte
digest `Model/Argon2.lean` computes in one go over the concatenation; and `argon2_initial_hash` as a whole
(`initialHashCode`: digest into the first 64 of 72 zeroed bytes) is the model's `initialHash`.  The hypothesis (total
input below BLAKE2b's 2^128-byte limit) holds whenever `Argon2Context::new` accepted the lengths (`u32` each). -/
theorem initialHash_code_eq (p outlen m t ty : Nat) (pwd salt : Bytes) (secret ad : Option Bytes)
    (hlen : (initialHashInput p outlen m t ty pwd salt secret ad).length + 128 < 2 ^ 128) :
    Model.Blake2b.hashChunks 64 none (initialHashChunks p outlen m t ty pwd salt secret ad)
        = .ok (Spec.Blake2b.hash 64 [] (initialHashInput p outlen m t ty pwd salt secret ad))
      ∧ initialHashCode Model.Blake2b.compress p outlen m t ty pwd salt secret ad
        = .ok (initialHash p outlen m t ty pwd salt secret ad) :=
  ⟨Proofs.Argon2Code.initialHash_chunks_eq p outlen m t ty pwd salt secret ad hlen,
   Proofs.Argon2Code.initialHashCode_eq p outlen m t ty pwd salt secret ad hlen⟩

/-- the hypothesis of `initialHash_code_eq` follows from `Valid` (every accepted call) -/
theorem initialHash_input_small {outlen t m p : Nat} {pwd salt : Bytes} {secret ad : Option Bytes} (ty : Nat)
    (hv : Valid outlen pwd.length salt.length (secret.map List.length) (ad.map List.length) t m p) :
    (initialHashInput p outlen m t ty pwd salt secret ad).length + 128 < 2 ^ 128 := by
  have := Proofs.Argon2Code.initialHashInput_length_lt (p := p) (outlen := outlen) (m := m) (t := t) (ty := ty)
    hv.pwd_le hv.salt_le hv.secret_le hv.ad_le
  omega

set_option maxRecDepth 100000 in
/-- TEST (a closed term evaluated by the kernel, not a theorem about all inputs): the **RFC 9106 §5.3 "Pre-hashing
digest"** of the Argon2id test vector (32 × 0x01 password, 16 × 0x02 salt, 8 × 0x03 secret, 12 × 0x04 associated
data, t = 3, m = 32, p = 4, 32-byte tag), computed THROUGH THE CODE PATH: the model of dryoc's `State::init`, the
fourteen `update`s of `argon2_initial_hash`, `finalize`.  (This is the non-vacuity witness of `initialHash_code_eq`,
too.) -/
theorem rfc9106_prehash_vector :
    Model.Blake2b.hashChunks 64 none
      (initialHashChunks 4 32 32 3 2 (List.replicate 32 1) (List.replicate 16 2)
        (some (List.replicate 8 3)) (some (List.replicate 12 4))) = .ok
      [0x28,0x89,0xde,0x48,0x7e,0xb4,0x2a,0xe5,0x00,0xc0,0x00,0x7e,0xd9,0x25,0x2f,0x10,
       0x69,0xea,0xde,0xc4,0x0d,0x57,0x65,0xb4,0x85,0xde,0x6d,0xc2,0x43,0x7a,0x67,0xb8,
       0x54,0x6a,0x2f,0x0a,0xcc,0x1a,0x08,0x82,0xdb,0x8f,0xcf,0x74,0x71,0x4b,0x47,0x2e,
       0x94,0xdf,0x42,0x1a,0x5d,0xa1,0x11,0x2f,0xfa,0x11,0x43,0x43,0x70,0xa1,0xe9,0x97] := by
  decide +kernel

/-- **code path = model.**  `argon2HashCode` (`Model/Argon2Code.lean`: `argon2_hash` with `argon2_initial_hash`,
`argon2_fill_first_blocks` and `argon2_finalize` calling the model of dryoc's BLAKE2b — software backend; the SIMD
backend is C18's `simd_argon2_eq`) returns exactly what `argon2Hash` returns — same bytes, same `Err`, same panic —
for ALL arguments satisfying the two side conditions of `argon2Hash_no_panic` (accepted or not).  So every
theorem of §1–§9 about `argon2Hash` on that domain is a theorem about the code path. -/
theorem argon2_code_path_eq_model {ty t m p : Nat} {pwd salt : Bytes} {secret ad : Option Bytes} {outlen : Nat}
    (hout : outlen < 0xFFFFFFFF) (h7 : 7 * (max m (8 * p) / (4 * p)) < 2 ^ 32 + 3) :
    argon2HashCode Model.Blake2b.compress ty t m p pwd salt secret ad outlen
      = argon2Hash ty t m p pwd salt secret ad outlen :=
  Proofs.Argon2Code.argon2HashCode_eq_model hout h7

/-- **HEADLINE, restated for the code path.**  For Argon2i and Argon2id, every accepted parameter set with
`m ≥ 8p`, `outlen ≠ u32::MAX` and `7·⌊m/4p⌋ − 3 < 2^32`: the model of `argon2_hash` in which H0 and H′ are computed
by (the models of) dryoc's own `blake2b::State` and `blake2b::longhash` returns `Ok` with the RFC 9106 tag.
(`fill_memory_model_eq_spec` ∘ `argon2_code_path_eq_model`.) -/
theorem argon2_code_path_eq_spec {ty t m p : Nat} {pwd salt : Bytes} {secret ad : Option Bytes}
    {outlen : Nat} (hty : ty = 1 ∨ ty = 2)
    (hv : Valid outlen pwd.length salt.length (secret.map List.length) (ad.map List.length) t m p)
    (hm8 : 8 * p ≤ m) (hout : outlen < 0xFFFFFFFF) (h7 : 7 * (m / (4 * p)) < 2 ^ 32 + 3) :
    argon2HashCode Model.Blake2b.compress ty t m p pwd salt secret ad outlen
      = .ok (Spec.Argon2.argon2 ty pwd salt (secret.getD []) (ad.getD []) t m p outlen) := by
  have hmax : max m (8 * p) = m := by omega
  rw [argon2_code_path_eq_model hout (by rw [hmax]; exact h7)]
  exact fill_memory_model_eq_spec hty hv hm8 hout h7

/-- non-vacuity witness: the hypotheses hold jointly, and the theorem instantiated — Argon2id, 3 passes, 16 KiB,
2 lanes, a secret and associated data (the instance of the witness of `fill_memory_model_eq_spec`) -/
example :
    argon2HashCode Model.Blake2b.compress 2 3 16 2 [1, 2, 3, 4] [0, 1, 2, 3, 4, 5, 6, 7] (some [9]) (some [7, 7]) 32
      = .ok (Spec.Argon2.argon2 2 [1, 2, 3, 4] [0, 1, 2, 3, 4, 5, 6, 7] [9] [7, 7] 3 16 2 32) :=
  argon2_code_path_eq_spec (.inr rfl) (by constructor <;> simp) (by decide) (by decide) (by decide)

/-- `crypto_pwhash` over the code path = over the model, for all arguments on the documented domain … -/
theorem cryptoPwhash_code_path_eq_model {outlen : Nat} {pwd salt : Bytes} {opslimit memlimit alg : Nat}
    (hout : outlen < 0xFFFFFFFF) (h7 : 7 * (memlimit / 1024 / 4) < 2 ^ 32 + 3) :
    cryptoPwhashCode Model.Blake2b.compress outlen pwd salt opslimit memlimit alg
      = cryptoPwhash outlen pwd salt opslimit memlimit alg :=
  Proofs.Argon2Code.cryptoPwhashCode_eq_model hout h7

/-- … hence it is RFC 9106 Argon2i / Argon2id there (`cryptoPwhash_eq_spec` for the code path) -/
theorem cryptoPwhash_code_path_eq_spec {outlen : Nat} {pwd salt : Bytes} {opslimit memlimit alg : Nat}
    (halg : alg = 1 ∨ alg = 2)
    (hv : PwhashValid outlen pwd.length salt.length opslimit memlimit)
    (hout : outlen < 0xFFFFFFFF) (h7 : 7 * (memlimit / 1024 / 4) < 2 ^ 32 + 3) :
    cryptoPwhashCode Model.Blake2b.compress outlen pwd salt opslimit memlimit alg
      = .ok (Spec.Argon2.argon2 alg pwd salt [] [] opslimit (memlimit / 1024) 1 outlen) := by
  rw [cryptoPwhash_code_path_eq_model hout h7]
  exact cryptoPwhash_eq_spec halg hv hout h7

/-- non-vacuity witness (`OPSLIMIT_MIN`, `MEMLIMIT_MIN`, 4-byte password, 16-byte salt) -/
example :
    cryptoPwhashCode Model.Blake2b.compress 32 [1, 2, 3, 4] [0, 1, 2, 3, 4, 5, 6, 7, 8, 9, 10, 11, 12, 13, 14, 15]
        1 8192 2
      = .ok (Spec.Argon2.argon2 2 [1, 2, 3, 4] [0, 1, 2, 3, 4, 5, 6, 7, 8, 9, 10, 11, 12, 13, 14, 15]
          [] [] 1 (8192 / 1024) 1 32) :=
  cryptoPwhash_code_path_eq_spec (.inr rfl) (by constructor <;> decide) (by decide) (by decide)

/-! ### Tie to the source: the machine-translated kernels of `argon2.rs` (`DryocVerif/Gen/Argon2.lean`, regenerated by
`tools/rs2lean.py` on every run) equal the hand-written model. -/

/-- `fblamka` as translated = the model's fBlaMka on every pair of words -/
theorem translated_fblamka (x y : UInt64) :
    Gen.Argon2.fblamka x.toNat y.toNat = (Model.Argon2.fblamka x y).toNat :=
  Proofs.GenArgon2.fblamka_eq_model x y

/-- `blake2_round_nomsg` (translated once, at the identity index tuple) is what the model's round does at ANY sixteen
pairwise distinct in-range indices: those words become `round16` of the gathered words, all others are unchanged -/
theorem translated_round_generic (b : Block) (i0 i1 i2 i3 i4 i5 i6 i7 i8 i9 i10 i11 i12 i13 i14 i15 : Nat)
    (hnd : [i0, i1, i2, i3, i4, i5, i6, i7, i8, i9, i10, i11, i12, i13, i14, i15].Nodup)
    (hlt : ∀ i ∈ [i0, i1, i2, i3, i4, i5, i6, i7, i8, i9, i10, i11, i12, i13, i14, i15], i < b.size) :
    let b' := blake2RoundNomsg b i0 i1 i2 i3 i4 i5 i6 i7 i8 i9 i10 i11 i12 i13 i14 i15
    b'.size = b.size
    ∧ Proofs.GenArgon2.toNat16 (Proofs.GenArgon2.reads16 b' i0 i1 i2 i3 i4 i5 i6 i7 i8 i9 i10 i11 i12 i13 i14 i15)
        = Gen.Argon2.round16 b[i0]!.toNat b[i1]!.toNat b[i2]!.toNat b[i3]!.toNat b[i4]!.toNat
            b[i5]!.toNat b[i6]!.toNat b[i7]!.toNat b[i8]!.toNat b[i9]!.toNat b[i10]!.toNat
            b[i11]!.toNat b[i12]!.toNat b[i13]!.toNat b[i14]!.toNat b[i15]!.toNat
    ∧ ∀ j, j ∉ [i0, i1, i2, i3, i4, i5, i6, i7, i8, i9, i10, i11, i12, i13, i14, i15] → b'[j]! = b[j]! :=
  Proofs.GenArgon2.round_generic b i0 i1 i2 i3 i4 i5 i6 i7 i8 i9 i10 i11 i12 i13 i14 i15 hnd hlt

/-- the index tuples `fill_block` passes to the round (extracted from the source: 8 rows, then 8 columns) are the ones
the model uses, and they are sixteen distinct indices below 128 each -/
theorem translated_fill_tables (prevBlock refBlock nextBlock : Block) (withXor : Bool) :
    fillBlock prevBlock refBlock nextBlock withXor =
      xorBlock (if withXor then xorBlock (xorBlock refBlock prevBlock) nextBlock else xorBlock refBlock prevBlock)
        (Gen.Argon2.FILL_COLS.foldl Proofs.GenArgon2.applyRound
          (Gen.Argon2.FILL_ROWS.foldl Proofs.GenArgon2.applyRound (xorBlock refBlock prevBlock))) :=
  Proofs.GenArgon2.fill_tables_eq_model prevBlock refBlock nextBlock withXor

theorem translated_fill_tables_wf :
    ∀ t ∈ Gen.Argon2.FILL_ROWS ++ Gen.Argon2.FILL_COLS, t.length = 16 ∧ t.Nodup ∧ ∀ i ∈ t, i < 128 :=
  Proofs.GenArgon2.fill_tables_wf

/-- `index_alpha` as translated (plain ℕ arithmetic) returns the model's value whenever no checked operation of the model
panics …
NB the generated function uses unbounded ℕ (no `u32` wrap, no overflow check; subtraction truncates at 0) and is
compared with the hand model only where the model's checked arithmetic returns `.ok` — the dev / overflow-checks
profile.  The release profile wraps instead of panicking: it is `indexAlphaW`, which agrees with both wherever the
checked model is `.ok` (`index_alpha_wrapping_eq_checked`) and differs beyond (`index_alpha_wrapping_ne_rfc`). -/
theorem translated_index_alpha (inst : Instance) (pos : Position) (pseudoRand : Nat) (sameLane : Bool)
    (v : Nat) (h : Model.Argon2.indexAlpha inst pos pseudoRand sameLane = .ok v) :
    Gen.Argon2.index_alpha inst.passes inst.memoryBlocks inst.segmentLength inst.laneLength inst.lanes
      pos.pass pos.lane pos.slice pos.index pseudoRand sameLane = v :=
  Proofs.GenArgon2.index_alpha_eq_model inst pos pseudoRand sameLane v h

/-- … which is the case on every reachable instance/position, where it is RFC 9106's reference index -/
theorem translated_index_alpha_eq_rfc {inst : Instance} {pos : Position} {j1 : Nat} (sameLane : Bool)
    (hsl : 2 ≤ inst.segmentLength) (hll : inst.laneLength = 4 * inst.segmentLength)
    (h7 : 7 * inst.segmentLength < 2 ^ 32 + 3) (hp : PosInv inst pos) (hj : j1 < 2 ^ 32) :
    Gen.Argon2.index_alpha inst.passes inst.memoryBlocks inst.segmentLength inst.laneLength inst.lanes
      pos.pass pos.lane pos.slice pos.index j1 sameLane = Proofs.Argon2.refIndexN inst pos j1 sameLane :=
  Proofs.GenArgon2.index_alpha_eq_refIndexN sameLane hsl hll h7 hp hj

/-- tie to the source: `convert_costs` as translated = the model's conversion (divide, THEN truncate to 32 bits) -/
theorem translated_convert_costs (opslimit memlimit : Nat) :
    Gen.Pwhash.convert_costs opslimit memlimit = convertCosts opslimit memlimit :=
  Proofs.GenPwhash.convert_costs_eq_model opslimit memlimit

/-- tie to the source: `crypto_pwhash` and `crypto_pwhash_str` range-check the caller's 64-bit opslimit and memlimit with the
model's bounds, and do so BEFORE converting them to 32 bits -/
theorem translated_pwhash_guards :
    Gen.Pwhash.crypto_pwhash_guards =
      [(CRYPTO_PWHASH_OPSLIMIT_MIN, CRYPTO_PWHASH_OPSLIMIT_MAX, "opslimit"),
       (CRYPTO_PWHASH_MEMLIMIT_MIN, CRYPTO_PWHASH_MEMLIMIT_MAX, "memlimit")]
    ∧ Gen.Pwhash.crypto_pwhash_validates_before_convert = true
    ∧ Gen.Pwhash.crypto_pwhash_str_guards = Gen.Pwhash.crypto_pwhash_guards
    ∧ Gen.Pwhash.crypto_pwhash_str_validates_before_convert = true :=
  ⟨Proofs.GenPwhash.crypto_pwhash_guards_eq_model.1, Proofs.GenPwhash.crypto_pwhash_guards_eq_model.2,
   Proofs.GenPwhash.crypto_pwhash_str_guards_eq_model.1, Proofs.GenPwhash.crypto_pwhash_str_guards_eq_model.2⟩

/-- tie to the source: the memory geometry of `argon2_hash` (m′ = 4p·⌊max(m, 8p)/4p⌋ and the segment length) as translated is the
model's whenever the model's checked arithmetic does not panic.
NB the generated function uses unbounded ℕ and is compared with the hand model only where the model's checked `u32`
arithmetic returns `.ok` (dev / overflow-checks profile); the release profile wraps where the model panics
(`8 * parallelism` for `parallelism ≥ 2^29`, `memoryGeometry_panic_iff` — unreachable through `crypto_pwhash`, which
passes `parallelism = 1`). -/
theorem translated_memory_geometry (mCost parallelism mb sl : Nat)
    (h : memoryGeometry mCost parallelism = .ok (mb, sl)) :
    Gen.Pwhash.memory_geometry mCost parallelism = (mb, sl) :=
  Proofs.GenPwhash.memory_geometry_eq_model mCost parallelism mb sl h

/-- tie to the source: the ranges `Argon2Context::new` validates (output, password, salt, secret, associated data, lanes, memory,
passes), with every constant of `src/argon2.rs` evaluated for a 64-bit target, are the model's — in particular the memory
ceiling is 2³²−1 blocks (4 TiB), not a 32-bit quantity of bytes -/
theorem translated_argon2_validate_guards :
    Gen.Pwhash.argon2_validate_guards =
      [(ARGON2_MIN_OUTLEN, ARGON2_MAX_OUTLEN, "output"), (ARGON2_MIN_PWD_LENGTH, ARGON2_MAX_PWD_LENGTH, "password"),
       (ARGON2_MIN_SALT_LENGTH, ARGON2_MAX_SALT_LENGTH, "salt"), (ARGON2_MIN_SECRET, ARGON2_MAX_SECRET, "secret"),
       (ARGON2_MIN_AD_LENGTH, ARGON2_MAX_AD_LENGTH, "ad"), (ARGON2_MIN_LANES, ARGON2_MAX_LANES, "parallelism"),
       (ARGON2_MIN_MEMORY, ARGON2_MAX_MEMORY, "m_cost"), (ARGON2_MIN_TIME, ARGON2_MAX_TIME, "t_cost")] :=
  Proofs.GenPwhash.argon2_validate_guards_eq

end DryocVerif.Properties.C09
