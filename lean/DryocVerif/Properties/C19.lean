import DryocVerif.Bytes
namespace DryocVerif.Properties.C19
open DryocVerif

/-- page rounding used by the allocator: `size + (P - size % P)` is a multiple of `P` strictly above `size` -/
theorem pageRound_spec (size P : Nat) (hP : 0 < P) :
    (size + (P - size % P)) % P = 0 ∧ size < size + (P - size % P) ∧ size + (P - size % P) ≤ size + P := by
  have h := Nat.mod_lt size hP
  refine ⟨?_, by omega, by omega⟩
  have e : size + (P - size % P) = P * (size / P) + P := by
    have := Nat.div_add_mod size P
    omega
  rw [e, Nat.mul_add_mod_self_left, Nat.mod_self]

end DryocVerif.Properties.C19
