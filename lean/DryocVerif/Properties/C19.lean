import DryocVerif.Model.Protected
import DryocVerif.Proofs.ProtectedErr
/-
C19 — refusal of memory locking.  The lock oracle is arbitrary (`State.m.oracle : Nat → Bool`
answers the i-th request that reaches `mlock(2)`; `failfrom:K` installs a new one).

* Every token whose Rust entry point returns `Result` (lock, unlock, ro, rw, na, fsl, fsro,
  newlocked, genlocked, newrolocked, genrolocked) never answers `panic`.
* A refused `lock` answers `err`; the slots of all OTHER regions and every page of their
  allocations are untouched (`err_preserves_others` — this one holds for every `err`, whatever
  its cause and whatever the token); the consumed region is gone, its allocation was wiped
  before release, and every page of it is back to `rw`, unlocked (`err_cleans_up`).
* OUT OF SCOPE (stated, not hidden): the non-`Result` operations `Clone for Locked/LockedRO` and
  `ResizableBytes::resize for Locked` re-lock with `expect` and DO panic when the request is
  refused (`clone_may_panic`, `resize_may_panic`); the invariant C14 survives those panics
  (`C14.inv_step` has no hypothesis on the outcome) and nothing leaks (`panic_leaves_no_trace`).
-/
namespace DryocVerif.Properties.C19
open DryocVerif DryocVerif.Model.Protected DryocVerif.Proofs.Protected

/-- `Result`-returning tokens never panic, for every state and oracle -/
theorem result_ops_never_panic (c : Cfg) (s : State) (t : Tok) (h : isResultOp t.op = true) :
    (step c s t).1 ≠ .panic :=
  result_never_panics c (resetRel s) t h

/-- a refused lock request on a live, non-empty, unlocked region (Plain, UR, URO, UNA) yields `err` -/
theorem refused_lock_err (c : Cfg) (s : State) (i : Nat) (sl : Slot)
    (hi : s.slots[i]? = some sl) (hg : sl.gone = false) (hu : isUnlockedSt sl.o.st = true)
    (hl : 0 < sl.o.v.len) (hr : s.m.oracle (s.m.cnt + 1) = false) :
    step c s ⟨.lock, i⟩ =
      (.err, setSlot (resetRel s)
        (protDrop c (failedLock c (resetRel s).m s.m.k (ptr c sl.o.v) sl.o.v.len) sl.o.v .unlocked
          (pmOf sl.o.st))
        i { sl with gone := true }) := by
  show opLock c (resetRel s) i = _
  rw [opLock_eq (s := resetRel s) hi hg hu]
  unfold doLock
  rw [lockV_refused (m := (resetRel s).m) _ (by omega) hr]
  simp [resetRel]

/-- Every `err` (refusal, kernel failure, length mismatch …) leaves every other slot as it was,
and every page of every other live region — data, spare capacity and both guard pages — keeps its
permission and its lock flag. -/
theorem err_preserves_others (c : Cfg) (hP : 0 < c.P) (s : State) (h : Inv c s) (t : Tok)
    (he : (step c s t).1 = .err) (j : Nat) (sl : Slot) (hj : j ≠ t.idx) (hs : s.slots[j]? = some sl) :
    (step c s t).2.slots[j]? = some sl ∧
    (sl.gone = false → ∀ p, inBlock c.P sl.o.v p →
      (step c s t).2.m.k.perm p = s.m.k.perm p ∧ (step c s t).2.m.k.locked p = s.m.k.locked p) := by
  have hslot : (step c s t).2.slots[j]? = some sl := by
    rcases err_shape c (resetRel s) t he with h1 | ⟨_, sl', _, _, h1⟩
    · show (stepCore c (resetRel s) t).2.slots[j]? = _
      rw [h1]; exact hs
    · show (stepCore c (resetRel s) t).2.slots[j]? = _
      rw [h1, List.getElem?_set_ne (by omega)]; exact hs
  refine ⟨hslot, fun hg p hp => ?_⟩
  exact others_untouched h (inv_step hP h t) hs hslot hg hp

/-- an `err` of any token other than `lock` leaves ALL slots as they were -/
theorem err_create_preserves_all (c : Cfg) (s : State) (t : Tok) (hop : t.op ≠ .lock)
    (he : (step c s t).1 = .err) : (step c s t).2.slots = s.slots := by
  rcases err_shape c (resetRel s) t he with h1 | ⟨h1, _⟩
  · exact h1
  · exact absurd h1 hop

/-- After a refused `lock` the consumed region is gone, its allocation has been released exactly
once and wiped (`nonzero = 0`), and every page of it (guards included) is `rw` and unlocked. -/
theorem err_cleans_up (c : Cfg) (hP : 0 < c.P) (hw : c.wipe = true) (s : State) (h : Inv c s)
    (i : Nat) (sl : Slot) (hi : s.slots[i]? = some sl) (hg : sl.gone = false)
    (hu : isUnlockedSt sl.o.st = true) (hl : 0 < sl.o.v.len) (hr : s.m.oracle (s.m.cnt + 1) = false) :
    (step c s ⟨.lock, i⟩).1 = .err ∧
    (step c s ⟨.lock, i⟩).2.slots[i]? = some { sl with gone := true } ∧
    (step c s ⟨.lock, i⟩).2.m.rel = (if sl.o.v.cap = 0 then [] else [(sl.o.v.cap, 0)]) ∧
    (∀ p, inBlock c.P sl.o.v p →
      (step c s ⟨.lock, i⟩).2.m.k.perm p = .rw ∧ (step c s ⟨.lock, i⟩).2.m.k.locked p = false) := by
  have hinv := inv_step hP h ⟨.lock, i⟩
  have heq := refused_lock_err c s i sl hi hg hu hl hr
  have hlt : i < s.slots.length := by
    rcases Nat.lt_or_ge i s.slots.length with h1 | h1
    · exact h1
    · rw [List.getElem?_eq_none h1] at hi; simp at hi
  rw [heq] at hinv ⊢
  refine ⟨rfl, ?_, ?_, fun p hp => ⟨?_, ?_⟩⟩
  · simp [setSlot, resetRel, hlt]
  · simp only [setSlot]
    rw [protDrop_unlocked_rel c hw]; simp [resetRel]
  · apply C14_unowned hinv
    intro j sl' hj hg' hb
    simp only [setSlot, resetRel] at hj
    by_cases hji : j = i
    · subst hji
      rw [List.getElem?_set_self hlt] at hj
      simp at hj; rw [← hj] at hg'; simp at hg'
    · rw [List.getElem?_set_ne (by omega)] at hj
      exact Proofs.Protected.inv_disjoint h hi hj (by omega) hg hg' p ⟨hp, hb⟩
  · simp only [setSlot]
    rw [protDrop_unlocked_locked]
    have hb := inv_block h hi hg
    refine failedLock_locked_false (m := (resetRel s).m) ?_
    refine hb.all_unlocked ?_ hp
    simp only [blkOf]
    cases hst : sl.o.st with
    | plain => rfl
    | prot lm pm => cases lm <;> simp [hst, isUnlockedSt, stLocked] at hu ⊢
where
  C14_unowned {c : Cfg} {s : State} (h : Inv c s) {p : Nat}
      (hp : ∀ (i : Nat) (sl : Slot), s.slots[i]? = some sl → sl.gone = false → ¬ inBlock c.P sl.o.v p) :
      s.m.k.perm p = .rw := by
    apply h.outside p
    intro b hb
    obtain ⟨sl, hsl, rfl⟩ := List.mem_map.mp hb
    have hm := List.mem_filter.mp hsl
    obtain ⟨i, hi⟩ := List.getElem?_of_mem hm.1
    exact hp i sl hi (by simpa using hm.2)

/-! ### out of scope: non-`Result` operations panic on refusal -/

def cBytes16 : Cfg := { P := 4096, isArr := false, n := 16, wipe := true }

/-- `new; lock; failfrom:1; clone`: cloning a `Locked` region must lock the copy; the refusal
surfaces as a panic (`expect("unable to lock on resize")`), not as an error value. -/
theorem clone_may_panic :
    (run cBytes16 (State.init fun _ => true)
      [⟨.new, 0⟩, ⟨.lock, 0⟩, ⟨.failfrom 1, 0⟩, ⟨.clone, 0⟩]).map (·.1) = [.ok, .ok, .ok, .panic] := by
  decide

/-- the same for `resize` of a `Locked` region -/
theorem resize_may_panic :
    (run cBytes16 (State.init fun _ => true)
      [⟨.new, 0⟩, ⟨.lock, 0⟩, ⟨.failfrom 1, 0⟩, ⟨.resize 32, 0⟩]).map (·.1) = [.ok, .ok, .ok, .panic] := by
  decide

/-- … but even then the half-built copy is wiped and released and the source stays locked:
one clean release, exactly the source's page locked, slot 0 still `LR`. -/
theorem panic_leaves_no_trace :
    let s := runState cBytes16 (State.init fun _ => true)
      [⟨.new, 0⟩, ⟨.lock, 0⟩, ⟨.failfrom 1, 0⟩, ⟨.clone, 0⟩]
    s.m.rel = [(16, 0)] ∧ lockedPages s.m.k = 1 ∧ s.slots.map (fun sl => (sl.gone, sl.o.st)) =
      [(false, .prot .locked .rw)] := by
  decide

/-! ### non-vacuity -/

/-- `refused_lock_err` / `err_cleans_up` have instances: `new; failfrom:1; lock` -/
example :
    let s := runState cBytes16 (State.init fun _ => true) [⟨.new, 0⟩, ⟨.failfrom 1, 0⟩]
    (∃ sl, s.slots[0]? = some sl ∧ sl.gone = false ∧ isUnlockedSt sl.o.st = true ∧ 0 < sl.o.v.len) ∧
    s.m.oracle (s.m.cnt + 1) = false ∧
    (step cBytes16 s ⟨.lock, 0⟩).1 = .err ∧ (step cBytes16 s ⟨.lock, 0⟩).2.m.rel = [(16, 0)] ∧
    lockedPages (step cBytes16 s ⟨.lock, 0⟩).2.m.k = 0 := by
  refine ⟨⟨_, rfl, ?_⟩, ?_⟩ <;> decide

/-- with an arbitrary oracle: the second request refused, the first granted -/
example :
    (run cBytes16 (State.init fun i => i != 2)
      [⟨.new, 0⟩, ⟨.clone, 0⟩, ⟨.lock, 0⟩, ⟨.lock, 1⟩, ⟨.newlocked, 0⟩, ⟨.fsl 5, 0⟩]).map (·.1) =
      [.ok, .ok, .ok, .err, .ok, .ok] := by
  decide

end DryocVerif.Properties.C19
