import DryocVerif.Model.Protected
import DryocVerif.Proofs.ProtectedErr
import DryocVerif.Proofs.ProtectedErrExtra
import DryocVerif.Proofs.ProtectedPanic
import DryocVerif.Model.ProtectedTouch
import DryocVerif.Proofs.ProtectedTouch
import DryocVerif.Proofs.ProtectedUnrep
/-
C19 — refusal of memory locking.  The lock oracle is arbitrary (`State.m.oracle : Nat → LockAns` answers the i-th
request that reaches `mlock(2)`: `grant` (the call goes through, and can still fail on `PROT_NONE` pages), `refuse`
(clean refusal), `failFlagged` (Linux: the pages are flagged `VM_LOCKED`, then the population fails — the reason for
the `libc::munlock` on the error path of `dryoc_mlock`); `Bool` oracles coerce (`true ↦ grant`, `false ↦ refuse`);
`failfrom:K` installs a new `Bool` oracle).

* Every token whose Rust entry point returns `Result` (lock, unlock, ro, rw, na, fsl, fsro,
  newlocked, genlocked, newrolocked, genrolocked, stacklock, serde:json:n, serde:bincode:n) never answers `panic`.
* A refused `lock` answers `err`; the slots of all OTHER regions and every page of their
  allocations are untouched (`err_preserves_others` — this one holds for every `err`, whatever
  its cause and whatever the token); the consumed region is gone, its allocation was wiped
  before release, and every page of it is back to `rw`, unlocked (`err_cleans_up`).
* The same FROM THE OUTCOME, with no hypothesis on the oracle: whenever `lock` answers `err` (refusal, or
  `mlock(2)` failing on `PROT_NONE` pages) the consumed region is released, zeroed, its pages `rw` and
  unlocked (`lock_err_cleans_up`); a failed constructor leaves the whole kernel exactly as it was
  (`err_create_no_residue`) and does release the block it had sized (`err_fsl_releases_block`).
* "FAILURE PATH" in this file = a refused (or, on `PROT_NONE` pages, failed) `mlock` request, or the
  length mismatch of `from_slice_*` on an array.  Every other wrapper is infallible in the model
  (`opUnlock`, `opProtect`, `opNa` always answer `ok`; `alloc` assumes its three `.ok()`-swallowed
  `mprotect` calls took effect), whereas the Rust has `dryoc_munlock(..)?` / `dryoc_mprotect_*(..)?`
  inside `swap_some_or_err`: a failing `munlock(2)` / `mprotect(2)` is NOT REPRESENTABLE here, and
  none of `result_ops_never_panic`, `err_*`, `lock_err_*` says anything about it
  (see the header of `Model/Protected.lean`).
  NOT REPRESENTABLE: a failing `mprotect_readwrite` inside `Protected::zeroize` / `Drop` (the Rust prints the error and
  then writes); consequence if it happened: theorem `zeroize_mprotect_fails_segv` — the wipe hits a non-writable page,
  SIGSEGV inside `Drop` (the "abort").
  NOT REPRESENTABLE: a failing `munlock(2)` in the `munlock` transition (the Rust returns `Err`, drops `self` with the
  record still `Locked`, `Drop` retries and ignores the error); consequence if it happened: theorem
  `munlock_fails_leaks` — the pages go back to the allocator locked, `lockedPages > 0` after the last drop.
* THE ERROR PATHS DO NOT FAULT: whenever `lock` (or a constructor) answers `err`, every byte access of the clean-up —
  the wipe of the consumed / half-built region, after `mprotect_readwrite` where the record says so — lands on a
  writable page (`lock_err_path_no_segv`, `err_path_no_segv`; general form `C14.step_no_segv`).  Past seeded
  regressions crashed exactly there (`lock`'s error path scrubbing a read-only region).
* OUT OF SCOPE (stated, not hidden): the non-`Result` operations `Clone for Locked/LockedRO` and
  `ResizableBytes::resize for Locked` re-lock with `expect` and DO panic when the request is
  refused (`clone_may_panic`, `resize_may_panic`; likewise `clone_from` of a locked region); the invariant C14
  survives those panics (`C14.inv_step` has no hypothesis on the outcome) and nothing leaks: in general
  `panic_preserves_all` (any state, any token whose outcome is `panic`), concretely `panic_leaves_no_trace`.
-/
namespace DryocVerif.Properties.C19
open DryocVerif DryocVerif.Model.Protected DryocVerif.Proofs.Protected

/-- `Result`-returning tokens never panic, for every state and oracle.

SCOPE (read this before relying on it): the statement is true BY CONSTRUCTION of the model — the model
functions behind these tokens (`doLock`, `opUnlock`, `opProtect`, `opNa`, `doFromSlice`, `doNewLocked`)
contain no `.panic` branch, and the proof is a case inspection.  Its content is therefore the
MODELLING claim "these Rust entry points have no `expect`/`unwrap`/`resize`-of-a-locked-region on
their path", which is checked against the real crate by the differential runs with a refusing
`mlock` shim, not by this theorem.  The pre-repair shape of `from_slice_into_locked`, which DID
contain such a path, is kept as the counter-model `doFromSliceOld` (`from_slice_old_panics`). -/
theorem result_ops_never_panic (c : Cfg) (s : State) (t : Tok) (h : isResultOp t.op = true) :
    (step c s t).1 ≠ .panic :=
  result_never_panics c (resetRel s) t h

/-- the record `mlock()` starts from is `(Unlocked, pm)` with `pm` the type-level protect mode, as soon as the
record of the slot tracks its type (`C14.rec_tracks_type`: every reachable state) -/
theorem recOfLock_eq (sl : Slot) (hg : sl.gone = false) (hrc : SlotRec sl)
    (hu : isUnlockedSt sl.o.st = true) : recOfLock sl.o = (.unlocked, pmOf sl.o.st) := by
  unfold recOfLock pmOf
  cases hst : sl.o.st with
  | plain => rfl
  | prot lm pm =>
    cases lm
    · simp only []; exact hrc hg _ _ hst
    · simp [hst, isUnlockedSt] at hu

/-- a refused lock request on a live, non-empty, unlocked region (Plain, UR, URO, UNA) yields `err`.
STATEMENT CHANGED: the consumed region is dropped with its RUNTIME RECORD (`recOfLock sl.o`: `new_with`'s for a bare
container, the region's own `d.lm` / `d.pm` otherwise), which is `(Unlocked, pmOf sl.o.st)` whenever the record
tracks the type (`recOfLock_eq`); before, the model consulted the type state.
STATEMENT CHANGED AGAIN (`MADV_DONTDUMP` is modelled): the kernel handed to the failure path is the one AFTER the
`madvise(MADV_DONTDUMP)` of `dryoc_mlock` (`madviseK … true`), which runs before `mlock` is even tried; `= false`
on the oracle's answer (a `LockAns` now) means `= LockAns.refuse` (coercion `false ↦ refuse`). -/
theorem refused_lock_err (c : Cfg) (s : State) (i : Nat) (sl : Slot)
    (hi : s.slots[i]? = some sl) (hg : sl.gone = false) (hu : isUnlockedSt sl.o.st = true)
    (hl : 0 < sl.o.v.len) (hr : s.m.oracle (s.m.cnt + 1) = false) :
    step c s ⟨.lock, i⟩ =
      (.err, setSlot (resetRel s)
        (protDrop c (failedLock c (resetRel s).m (madviseK c.P s.m.k (ptr c sl.o.v) sl.o.v.len true)
          (ptr c sl.o.v) sl.o.v.len) sl.o.v (recOfLock sl.o).1 (recOfLock sl.o).2)
        i { sl with gone := true }) := by
  show opLock c (resetRel s) i = _
  rw [opLock_eq (s := resetRel s) hi hg hu]
  unfold doLock
  rw [lockV_refused (m := (resetRel s).m) _ (by omega) hr]
  simp [resetRel]

/-- Every `err` the model can produce (refused `mlock`, `mlock` failing in the kernel on `PROT_NONE`
pages, length mismatch of `from_slice_*`; NOT a failing `munlock` / `mprotect`, which the model
cannot represent) leaves every other slot as it was,
and every page of every other live region — data, spare capacity and both guard pages — keeps its
permission and its lock flag. -/
theorem err_preserves_others (c : Cfg) (hP : 0 < c.P) (s : State) (h : Inv c s) (t : Tok)
    (he : (step c s t).1 = .err) (j : Nat) (sl : Slot) (hj : j ≠ t.idx) (hs : s.slots[j]? = some sl) :
    (step c s t).2.slots[j]? = some sl ∧
    (sl.gone = false → ∀ p, inBlock c.P sl.o.v p →
      (step c s t).2.m.k.perm p = s.m.k.perm p ∧ (step c s t).2.m.k.locked p = s.m.k.locked p) := by
  have hslot : (step c s t).2.slots[j]? = some sl := by
    rcases err_shape c (resetRel s) t he with h1 | ⟨_, sl', _, _, h1⟩
    · show (stepCore c (resetRel s) t).2.slots[j]? = _
      rw [h1]; exact hs
    · show (stepCore c (resetRel s) t).2.slots[j]? = _
      rw [h1, List.getElem?_set_ne (by omega)]; exact hs
  refine ⟨hslot, fun hg p hp => ?_⟩
  exact others_untouched h (inv_step hP h t (fun hh => zeroize_not_err c s t he hh.1)) hs hslot hg hp

/-- an `err` of any token other than `lock` leaves ALL slots as they were -/
theorem err_create_preserves_all (c : Cfg) (s : State) (t : Tok) (hop : t.op ≠ .lock)
    (he : (step c s t).1 = .err) : (step c s t).2.slots = s.slots := by
  rcases err_shape c (resetRel s) t he with h1 | ⟨h1, _⟩
  · exact h1
  · exact absurd h1 hop

/-- After a refused `lock` the consumed region is gone, its allocation has been released exactly
once and wiped (`nonzero = 0`), and every page of it (guards included) is `rw` and unlocked.
(The clean-up itself — `mprotect_readwrite`, `munlock` inside `Drop` — cannot fail in the model;
in the Rust a failure there is printed and ignored.) -/
theorem err_cleans_up (c : Cfg) (hP : 0 < c.P) (hw : c.wipe = true) (s : State) (h : Inv c s)
    (i : Nat) (sl : Slot) (hi : s.slots[i]? = some sl) (hg : sl.gone = false)
    (hu : isUnlockedSt sl.o.st = true) (hl : 0 < sl.o.v.len) (hr : s.m.oracle (s.m.cnt + 1) = false) :
    (step c s ⟨.lock, i⟩).1 = .err ∧
    (step c s ⟨.lock, i⟩).2.slots[i]? = some { sl with gone := true } ∧
    (step c s ⟨.lock, i⟩).2.m.rel = (if sl.o.v.cap = 0 then [] else [(sl.o.v.cap, 0)]) ∧
    (∀ p, inBlock c.P sl.o.v p →
      (step c s ⟨.lock, i⟩).2.m.k.perm p = .rw ∧ (step c s ⟨.lock, i⟩).2.m.k.locked p = false) := by
  have hinv := inv_step hP h ⟨.lock, i⟩ (fun hh => by simpa using hh.1)
  have heq := refused_lock_err c s i sl hi hg hu hl hr
  rw [recOfLock_eq sl hg (h.rcd sl (List.mem_of_getElem? hi)) hu] at heq
  have hlt : i < s.slots.length := by
    rcases Nat.lt_or_ge i s.slots.length with h1 | h1
    · exact h1
    · rw [List.getElem?_eq_none h1] at hi; simp at hi
  rw [heq] at hinv ⊢
  refine ⟨rfl, ?_, ?_, fun p hp => ⟨?_, ?_⟩⟩
  · simp [setSlot, resetRel, hlt]
  · simp only [setSlot]
    rw [protDrop_unlocked_rel c hw]; simp [resetRel]
  · apply C14_unowned hinv
    intro j sl' hj hg' hb
    simp only [setSlot, resetRel] at hj
    by_cases hji : j = i
    · subst hji
      rw [List.getElem?_set_self hlt] at hj
      simp at hj; rw [← hj] at hg'; simp at hg'
    · rw [List.getElem?_set_ne (by omega)] at hj
      exact Proofs.Protected.inv_disjoint h hi hj (by omega) hg hg' p ⟨hp, hb⟩
  · simp only [setSlot]
    rw [protDrop_unlocked_locked]
    have hb := inv_block h hi hg
    refine failedLock_locked_false (m := (resetRel s).m) ?_
    refine hb.all_unlocked ?_ hp
    simp only [blkOf]
    cases hst : sl.o.st with
    | plain => rfl
    | prot lm pm => cases lm <;> simp [hst, isUnlockedSt, stLocked] at hu ⊢
where
  C14_unowned {c : Cfg} {s : State} (h : Inv c s) {p : Nat}
      (hp : ∀ (i : Nat) (sl : Slot), s.slots[i]? = some sl → sl.gone = false → ¬ inBlock c.P sl.o.v p) :
      s.m.k.perm p = .rw := by
    apply h.outside p
    intro b hb
    obtain ⟨sl, hsl, rfl⟩ := List.mem_map.mp hb
    have hm := List.mem_filter.mp hsl
    obtain ⟨i, hi⟩ := List.getElem?_of_mem hm.1
    exact hp i sl hi (by simpa using hm.2)

def cBytes16 : Cfg := { P := 4096, isArr := false, n := 16, wipe := true }

/-! ### the error paths touch only pages that allow the access -/

/-- **the error path of `lock` does not fault**: in every state satisfying `Inv`, whatever the oracle answers
(`refuse`, `failFlagged`, or `grant` on `PROT_NONE` pages) and whatever the type state of the slot — read-only and
no-access regions included —, every byte access of the token `lock` lands on a page that allows it: on failure the
consumed region is dropped, and its `Drop` makes the pages writable BEFORE it wipes them (the record it consults
tracks the type). -/
theorem lock_err_path_no_segv (c : Cfg) (hP : 0 < c.P) (s : State) (h : Inv c s) (i : Nat) :
    stepTouchesOk c s ⟨.lock, i⟩ = true :=
  touches_step hP h _ rfl

/-- … and so does every token that answers `err` or `panic` (failed constructors, refused re-locks of `clone` /
`resize` / `clonefrom`): no probe token answers `err` / `panic` -/
theorem err_path_no_segv (c : Cfg) (hP : 0 < c.P) (s : State) (h : Inv c s) (t : Tok)
    (he : (step c s t).1 = .err ∨ (step c s t).1 = .panic) : stepTouchesOk c s t = true := by
  refine touches_step hP h t ?_
  cases hp : isProbe t.op with
  | false => rfl
  | true =>
    have := probe_res c s t hp
    rcases he with he | he
    · exact absurd he this.1
    · exact absurd he this.2

/-- non-vacuity witness (`lock_err_path_no_segv`), conclusion CHECKED: a refused `lock` of an `Unlocked` READ-ONLY
region and a failing `lock` of a `NoAccess` region answer `err`, and the wipe of the consumed region touches only
writable pages -/
example :
    let s := runState cBytes16 (State.init fun _ => true)
      [⟨.new, 0⟩, ⟨.lock, 0⟩, ⟨.unlock, 0⟩, ⟨.ro, 0⟩, ⟨.new, 0⟩, ⟨.lock, 1⟩, ⟨.unlock, 1⟩, ⟨.na, 1⟩, ⟨.failfrom 2, 0⟩]
    (s.slots.map fun sl => sl.o.st) = [.prot .unlocked .ro, .prot .unlocked .na] ∧
    (step cBytes16 s ⟨.lock, 1⟩).1 = .err ∧ stepTouchesOk cBytes16 s ⟨.lock, 1⟩ = true ∧
    (step cBytes16 (step cBytes16 s ⟨.lock, 1⟩).2 ⟨.lock, 0⟩).1 = .err ∧
    stepTouchesOk cBytes16 (step cBytes16 s ⟨.lock, 1⟩).2 ⟨.lock, 0⟩ = true := by
  decide

/-! ### what the model cannot represent (re-exported from `Proofs/ProtectedUnrep.lean`; see `C14` (k)) -/

/-- NOT REPRESENTABLE: a failing `mprotect_readwrite` inside `Protected::zeroize` (= `Drop`), whose result the Rust
ignores before it writes.  CONSEQUENCE IF IT HAPPENED: on a live, non-empty read-only / no-access region the wipe
touches a non-writable page — SIGSEGV, the "abort" — whereas the real body's wipe does not. -/
theorem zeroize_mprotect_fails_segv (c : Cfg) (hP : 0 < c.P) (s : State) (h : Inv c s) (i : Nat) (sl : Slot)
    (hi : s.slots[i]? = some sl) (hg : sl.gone = false) (lm : LM) (pm : PM) (hst : sl.o.st = .prot lm pm)
    (hpm : pm ≠ .rw) (hl : 0 < sl.o.v.len) :
    protZeroizeMprotectFailsOk c s.m sl.o.v = false ∧ protZeroizeOk c s.m sl.o.v sl.o.rcd.2 = true :=
  zeroize_mprotect_fails_faults hP h hi hg hst hpm hl

/-- NOT REPRESENTABLE: a failing `munlock(2)` in the `munlock` transition.  CONSEQUENCE IF IT HAPPENED
(`opUnlockMunlockFails`): `err`, the region is consumed, its data pages stay locked for ever; `lockedPages` is
positive after the last drop. -/
theorem munlock_fails_leaks (c : Cfg) (hP : 0 < c.P) (s : State) (h : Inv c s) (i : Nat) (sl : Slot)
    (hi : s.slots[i]? = some sl) (hg : sl.gone = false) (pm : PM) (hst : sl.o.st = .prot .locked pm)
    (hl : 0 < sl.o.v.len) :
    (opUnlockMunlockFails c s i).1 = .err ∧
    0 < lockedPages (finish c (opUnlockMunlockFails c s i).2).m.k :=
  ⟨(Proofs.Protected.munlock_fails_leaks hP h hi hg hst hl).1,
   (Proofs.Protected.munlock_fails_leaks hP h hi hg hst hl).2.2.2⟩

/-! ### from the OUTCOME instead of the oracle -/

/-- the lock oracle installed by `failfrom:K` refuses request `i` iff `1 ≤ K ≤ i` (so `K ≤ 0`
never refuses, `K = 1` refuses everything from the next request on) -/
theorem failOracle_spec (K : Int) (i : Nat) : failOracle K i = false ↔ 1 ≤ K ∧ K ≤ (i : Int) :=
  failOracle_iff K i

/-- **`err_cleans_up` from the outcome.**  If `lock` on a live slot ANSWERS `err` — because the
request was refused, or because `mlock(2)` itself failed on the `PROT_NONE` pages of a no-access
region — then (repaired `dryoc_mlock`, `c.undo`): the slot had an unlocked type state, it is gone,
its block was released exactly once and zeroed, and every page of the block (guards included) is
`rw` and unlocked.  No hypothesis on the oracle. -/
theorem lock_err_cleans_up (c : Cfg) (hP : 0 < c.P) (hw : c.wipe = true) (hu : c.undo = true)
    (s : State) (h : Inv c s) (i : Nat) (sl : Slot) (hi : s.slots[i]? = some sl) (hg : sl.gone = false)
    (he : (step c s ⟨.lock, i⟩).1 = .err) :
    isUnlockedSt sl.o.st = true ∧
    (step c s ⟨.lock, i⟩).2.slots[i]? = some { sl with gone := true } ∧
    (step c s ⟨.lock, i⟩).2.m.rel = (if sl.o.v.cap = 0 then [] else [(sl.o.v.cap, 0)]) ∧
    (∀ p, inBlock c.P sl.o.v p →
      (step c s ⟨.lock, i⟩).2.m.k.perm p = .rw ∧ (step c s ⟨.lock, i⟩).2.m.k.locked p = false) :=
  ⟨(lock_err_eq hi hg he).1, lock_err_cleans hP hw h hi hg he (Or.inl hu)⟩

/-- the same before the repair of `dryoc_mlock` (`c.undo = false`), for every region that is not
`NoAccess`, when the kernel did not flag the pages before failing (`hff`: the oracle's answer to this request is not
`failFlagged`): there an `err` can only be a clean refusal, which never reaches the kernel's lock flags.  (For a
non-empty `NoAccess` region the conclusion is FALSE in that variant: `C14.lock_noaccess_leaks`; for a `failFlagged`
answer on accessible pages as well: `lock_err_failFlagged_leaky`.)
STATEMENT CHANGED (the oracle is `Nat → LockAns` now): new hypothesis `hff`. -/
theorem lock_err_cleans_up_leaky (c : Cfg) (hP : 0 < c.P) (hw : c.wipe = true)
    (s : State) (h : Inv c s) (i : Nat) (sl : Slot) (hi : s.slots[i]? = some sl) (hg : sl.gone = false)
    (he : (step c s ⟨.lock, i⟩).1 = .err) (hna : pmOf sl.o.st ≠ .na)
    (hff : s.m.oracle (s.m.cnt + 1) ≠ .failFlagged) :
    (step c s ⟨.lock, i⟩).2.slots[i]? = some { sl with gone := true } ∧
    (step c s ⟨.lock, i⟩).2.m.rel = (if sl.o.v.cap = 0 then [] else [(sl.o.v.cap, 0)]) ∧
    (∀ p, inBlock c.P sl.o.v p →
      (step c s ⟨.lock, i⟩).2.m.k.perm p = .rw ∧ (step c s ⟨.lock, i⟩).2.m.k.locked p = false) :=
  lock_err_cleans hP hw h hi hg he
    (Or.inr (Or.inl ⟨by cases hpm : pmOf sl.o.st <;> simp_all [PM.perm], hff⟩))

/-- non-vacuity witness (`lock_err_cleans_up_leaky`): a refused `lock` of a read-only region on the leaky variant —
the answer to the request is `refuse`, not `failFlagged` -/
example :
    let cL : Cfg := { cBytes16 with undo := false }
    let s := runState cL (State.init fun _ => true) [⟨.new, 0⟩, ⟨.lock, 0⟩, ⟨.unlock, 0⟩, ⟨.ro, 0⟩, ⟨.failfrom 1, 0⟩]
    (∃ sl, s.slots[0]? = some sl ∧ sl.gone = false ∧ pmOf sl.o.st ≠ .na) ∧
    (step cL s ⟨.lock, 0⟩).1 = .err ∧ s.m.oracle (s.m.cnt + 1) ≠ .failFlagged ∧
    lockedPages (step cL s ⟨.lock, 0⟩).2.m.k = 0 := by
  refine ⟨⟨_, rfl, ?_⟩, ?_⟩ <;> decide

/-- **what is true WITHOUT the undo** (`c.undo = false`, the tree before the repair) when `mlock(2)` fails AFTER
flagging the pages (`failFlagged`: `EAGAIN` / `ENOMEM` while populating ACCESSIBLE pages): `lock` answers `err`, the
region is consumed and released — and every one of its data pages STAYS FLAGGED `VM_LOCKED`, with no handle left
to unlock it.  This is finding E15's shape on accessible pages, and the reason for the bare `libc::munlock` on the
error path of `dryoc_mlock`; with the undo nothing stays flagged (`lock_err_cleans_up`, whatever the answer). -/
theorem lock_err_failFlagged_leaky (c : Cfg) (hP : 0 < c.P) (hu : c.undo = false) (s : State) (hrec : RecOK s)
    (i : Nat) (sl : Slot) (hi : s.slots[i]? = some sl) (hg : sl.gone = false)
    (hus : isUnlockedSt sl.o.st = true) (hl : 0 < sl.o.v.len)
    (hor : s.m.oracle (s.m.cnt + 1) = .failFlagged) :
    (step c s ⟨.lock, i⟩).1 = .err ∧
    (step c s ⟨.lock, i⟩).2.slots[i]? = some { sl with gone := true } ∧
    ∀ p, sl.o.v.base + 1 ≤ p → p < sl.o.v.base + 1 + pagesOf c.P sl.o.v.len →
      (step c s ⟨.lock, i⟩).2.m.k.locked p = true :=
  lock_failFlagged_leaks hP hu hrec hi hg hus hl hor

/-- non-vacuity witness (`lock_err_failFlagged_leaky` against `lock_err_cleans_up`): the oracle answers
`failFlagged` to the first request; `new; lock` on the leaky variant leaves one page locked for ever (also after the
teardown), on the repaired model none -/
example :
    let o : Nat → LockAns := fun _ => .failFlagged
    let cL : Cfg := { cBytes16 with undo := false }
    (run cL (State.init o) [⟨.new, 0⟩, ⟨.lock, 0⟩]).map (fun r => (r.1, lockedPages r.2.m.k)) = [(.ok, 0), (.err, 1)] ∧
    lockedPages (finish cL (runState cL (State.init o) [⟨.new, 0⟩, ⟨.lock, 0⟩])).m.k = 1 ∧
    (run cBytes16 (State.init o) [⟨.new, 0⟩, ⟨.lock, 0⟩]).map (fun r => (r.1, lockedPages r.2.m.k)) =
      [(.ok, 0), (.err, 0)] := by
  decide

/-- non-vacuity witness (`lock_err_cleans_up`): an `err` that is NOT a refusal — the oracle grants
everything, `mlock(2)` fails on the `PROT_NONE` pages (`new; lock; unlock; na; lock`) — and one that
is (`new; failfrom:1; lock`); in both the conclusion, computed on the model, holds -/
example :
    let s := runState cBytes16 (State.init fun _ => true) [⟨.new, 0⟩, ⟨.lock, 0⟩, ⟨.unlock, 0⟩, ⟨.na, 0⟩]
    let s' := runState cBytes16 (State.init fun _ => true) [⟨.new, 0⟩, ⟨.failfrom 1, 0⟩]
    (s.m.oracle (s.m.cnt + 1) = true ∧ (step cBytes16 s ⟨.lock, 0⟩).1 = .err ∧
      (step cBytes16 s ⟨.lock, 0⟩).2.m.rel = [(16, 0)] ∧
      [1, 2, 3].map (step cBytes16 s ⟨.lock, 0⟩).2.m.k.perm = [.rw, .rw, .rw] ∧
      [1, 2, 3].map (step cBytes16 s ⟨.lock, 0⟩).2.m.k.locked = [false, false, false]) ∧
    (s'.m.oracle (s'.m.cnt + 1) = false ∧ (step cBytes16 s' ⟨.lock, 0⟩).1 = .err ∧
      (step cBytes16 s' ⟨.lock, 0⟩).2.m.rel = [(16, 0)]) := by
  decide

/-- `err_preserves_others` along arbitrary histories: whatever happened before, an `err` leaves
every other slot and every page of every other live region as it was.
STATEMENT CHANGED: hypothesis `hz` (no `zeroize` of a non-empty `Protected` region other than `Unlocked`
read-write in the history; `C14.inv_reachable`). -/
theorem err_preserves_others_reachable (c : Cfg) (hP : 0 < c.P) (oracle : Nat → LockAns) (toks : List Tok)
    (hz : NoProtZeroize c (State.init oracle) toks) (t : Tok) (he : (step c (runState c (State.init oracle) toks) t).1 = .err) (j : Nat) (sl : Slot)
    (hj : j ≠ t.idx) (hs : (runState c (State.init oracle) toks).slots[j]? = some sl) :
    (step c (runState c (State.init oracle) toks) t).2.slots[j]? = some sl ∧
    (sl.gone = false → ∀ p, inBlock c.P sl.o.v p →
      (step c (runState c (State.init oracle) toks) t).2.m.k.perm p =
        (runState c (State.init oracle) toks).m.k.perm p ∧
      (step c (runState c (State.init oracle) toks) t).2.m.k.locked p =
        (runState c (State.init oracle) toks).m.k.locked p) :=
  err_preserves_others c hP _ (inv_runState hP toks (inv_init c oracle) hz) t he j sl hj hs

instance (P : Nat) (v : PVec) (p : Nat) : Decidable (inBlock P v p) := by
  unfold inBlock; infer_instance

/-- non-vacuity witness (`err_preserves_others`), conclusion CHECKED: slot 0 is a live `LockedRO`
region (block = pages 1–3, data page 2 locked, read-only), slot 1 a plain clone (pages 4–6); a refused
`lock` of slot 1 answers `err`, consumes slot 1, and slot 0 with all its pages is as before -/
example :
    let s := runState cBytes16 (State.init fun _ => true)
      [⟨.new, 0⟩, ⟨.clone, 0⟩, ⟨.lock, 0⟩, ⟨.ro, 0⟩, ⟨.failfrom 1, 0⟩]
    let r := step cBytes16 s ⟨.lock, 1⟩
    r.1 = .err ∧
    s.slots.map (fun sl => (sl.gone, sl.o.st, (List.range 10).filter fun p => decide (inBlock 4096 sl.o.v p))) =
      [(false, .prot .locked .ro, [1, 2, 3]), (false, .plain, [4, 5, 6])] ∧
    r.2.slots.map (fun sl => (sl.gone, sl.o.st, sl.o.v.base, sl.o.v.cap, sl.o.v.len)) =
      [(false, .prot .locked .ro, 1, 16, 16), (true, .plain, 4, 16, 16)] ∧
    (r.2.slots[0]?.map fun sl => sl.o.v.buf) = (s.slots[0]?.map fun sl => sl.o.v.buf) ∧
    [1, 2, 3].map r.2.m.k.perm = [.none, .r, .none] ∧ [1, 2, 3].map s.m.k.perm = [.none, .r, .none] ∧
    [1, 2, 3].map r.2.m.k.locked = [false, true, false] ∧ [1, 2, 3].map s.m.k.locked = [false, true, false] := by
  decide

/-- **A failed constructor leaves no residue.**  If a token other than `lock` answers `err` (these
are the constructors `fsl`, `fsro`, `newlocked`, `genlocked`, `newrolocked`, `genrolocked`, `stacklock`,
`serde:json:n`, `serde:bincode:n` — for a fixed-length array `serde:json:n` with the wrong `n` even locks the
region before it answers `err`; nothing else can) in a state without stray locks (`Tight`, true of every reachable state of the repaired
model: `C14.tight_reachable`), then all slots are as before, EVERY page of the kernel has the
permission and the lock flag it had before — so the block allocated for the half-built region has
been unlocked, made `rw` and given back —, the number of locked pages is unchanged, and every block
released on the way was zeroed.  (The `err` here is a refused / failed `mlock` or a length
mismatch; the unlocking and re-protecting done by the clean-up cannot fail in the model.)
STATEMENT CHANGED (the oracle is `Nat → LockAns` now): new hypothesis `hl` — the repaired `dryoc_mlock`
(`c.undo = true`), or an oracle that never answers `failFlagged` (`NoFF`, e.g. any `Bool` oracle).  Without it a
`failFlagged` answer leaves the pages of the released block flagged locked (`lock_err_failFlagged_leaky`). -/
theorem err_create_no_residue (c : Cfg) (hP : 0 < c.P) (hw : c.wipe = true) (s : State) (h : Inv c s)
    (ht : Tight c s) (hl : c.undo = true ∨ NoFF s.m) (t : Tok) (hop : t.op ≠ .lock) (he : (step c s t).1 = .err) :
    (step c s t).2.slots = s.slots ∧
    (∀ p, (step c s t).2.m.k.perm p = s.m.k.perm p ∧ (step c s t).2.m.k.locked p = s.m.k.locked p) ∧
    lockedPages (step c s t).2.m.k = lockedPages s.m.k ∧
    (∀ e ∈ (step c s t).2.m.rel, e.2 = 0) :=
  ⟨(err_create_kernel hP h ht hl t hop he).1, (err_create_kernel hP h ht hl t hop he).2.1,
   (err_create_kernel hP h ht hl t hop he).2.2, relz_step hw s t⟩

/-- **the same over reachable states, hypothesis-free**: in every state the repaired model can
reach (any oracle, any history), a constructor that answers `err` leaves all slots, every page's
permission and lock flag, and the number of locked pages exactly as they were, and every block it
released was zeroed (`inv_reachable` + `tight_reachable` discharge `Inv` and `Tight`).
STATEMENT CHANGED: hypothesis `hz` (see `C14.inv_reachable`). -/
theorem err_create_no_residue_reachable (c : Cfg) (hP : 0 < c.P) (hw : c.wipe = true)
    (hu : c.undo = true) (oracle : Nat → LockAns) (toks : List Tok)
    (hz : NoProtZeroize c (State.init oracle) toks) (t : Tok) (hop : t.op ≠ .lock)
    (he : (step c (runState c (State.init oracle) toks) t).1 = .err) :
    let s := runState c (State.init oracle) toks
    (step c s t).2.slots = s.slots ∧
    (∀ p, (step c s t).2.m.k.perm p = s.m.k.perm p ∧ (step c s t).2.m.k.locked p = s.m.k.locked p) ∧
    lockedPages (step c s t).2.m.k = lockedPages s.m.k ∧
    (∀ e ∈ (step c s t).2.m.rel, e.2 = 0) :=
  err_create_no_residue c hP hw _ (inv_runState hP toks (inv_init c oracle) hz)
    (tight_runState hP toks (inv_init c oracle) (tight_init c oracle) hz (Or.inl hu)) (Or.inl hu) t hop he

/-- non-vacuity witness (`err_create_no_residue_reachable`): a reachable state and a constructor
that answers `err` in it -/
example :
    (step cBytes16 (runState cBytes16 (State.init fun _ => true)
      [⟨.new, 0⟩, ⟨.lock, 0⟩, ⟨.failfrom 1, 0⟩]) ⟨.fsl 9, 0⟩).1 = .err ∧
    (⟨.fsl 9, 0⟩ : Tok).op ≠ .lock ∧ cBytes16.wipe = true ∧ cBytes16.undo = true := by decide

/-- … and the release is not vacuous: a failed `from_slice_into_locked` / `…_readonly_locked` of
`n` bytes into a resizable container releases exactly the block it had sized (`growCap 0 n` bytes) -/
theorem err_fsl_releases_block (c : Cfg) (hw : c.wipe = true) (ha : c.isArr = false) (s : State)
    (n : Nat) (ro : Bool) (he : (step c s ⟨if ro then .fsro n else .fsl n, 0⟩).1 = .err) :
    (step c s ⟨if ro then .fsro n else .fsl n, 0⟩).2.m.rel =
      if n = 0 then [] else [(growCap 0 n, 0)] := by
  have key : (doFromSlice c (resetRel s) n ro).1 = .err →
      (doFromSlice c (resetRel s) n ro).2.m.rel = if n = 0 then [] else [(growCap 0 n, 0)] := by
    intro he
    rw [fsl_err_rel c hw ha (resetRel s) n ro rfl he]
    by_cases h0 : n = 0
    · simp [h0, relOf]
    · simp [h0, relOf_pos (growCap_ge 0 n).2]
  cases ro
  · exact key he
  · exact key he

/-- non-vacuity witness (`err_create_no_residue`, `err_fsl_releases_block`): with another region
alive and locked, a refused `fsl:9` answers `err`, releases the 9-byte request's block and leaves
one page locked, as before -/
example :
    let s := runState cBytes16 (State.init fun _ => true) [⟨.new, 0⟩, ⟨.lock, 0⟩, ⟨.failfrom 1, 0⟩]
    (step cBytes16 s ⟨.fsl 9, 0⟩).1 = .err ∧ (step cBytes16 s ⟨.fsl 9, 0⟩).2.m.rel = [(growCap 0 9, 0)] ∧
    lockedPages s.m.k = 1 ∧ lockedPages (step cBytes16 s ⟨.fsl 9, 0⟩).2.m.k = 1 ∧
    (step cBytes16 s ⟨.newrolocked, 0⟩).1 = .ok := by
  decide

/-! ### counter-model of the repaired defect E14: `from_slice_into_locked` before the repair -/

/-- the generic `from_slice_into_locked` BEFORE the repair: `Self::new_bytes().mlock()?` on the still
EMPTY container (a lock of zero bytes never reaches the kernel, so `?` never fires), then
`res.resize(src.len(), 0)` on the now LOCKED region — resize-by-copy, which re-locks with
`expect("unable to lock on resize")` —, then the copy. -/
def doFromSliceOld (c : Cfg) (s : State) (n : Nat) (ro : Bool) : Res × State :=
  let r0 := lockV c s.m PVec.empty recNew
  if r0.2 then
    let r := lockedResize c r0.1 PVec.empty (.locked, .rw) n
    match r.2 with
    | none => (.panic, ⟨r.1, s.slots⟩)
    | some nv =>
      let v1 := writeV nv (List.replicate n 0x5a)
      let m1 := if ro then dryocMprotect c r.1 (ptr c v1) v1.len .r else r.1
      (.ok, push s m1 (.prot .locked (if ro then .ro else .rw)) v1 false (.locked, if ro then .ro else .rw))
  else (.err, ⟨r0.1, s.slots⟩)

/-- E14: with a refusing `mlock` the old shape PANICS inside a function returning `Result`; the
repaired shape (`doFromSlice`: size first, then `mlock()?`) answers `err`.  When the lock is granted
the two agree. -/
theorem from_slice_old_panics :
    let s := runState cBytes16 (State.init fun _ => true) [⟨.failfrom 1, 0⟩]
    let s0 := State.init fun _ => true
    (doFromSliceOld cBytes16 s 9 false).1 = .panic ∧ (doFromSlice cBytes16 s 9 false).1 = .err ∧
    (doFromSliceOld cBytes16 s0 9 false).1 = .ok ∧ (doFromSlice cBytes16 s0 9 false).1 = .ok ∧
    (doFromSliceOld cBytes16 s0 9 false).2.slots.map (fun sl => (sl.o.st, sl.o.v.data)) =
      (doFromSlice cBytes16 s0 9 false).2.slots.map (fun sl => (sl.o.st, sl.o.v.data)) := by
  decide

example : (doFromSliceOld cBytes16 (runState cBytes16 (State.init fun _ => true) [⟨.failfrom 1, 0⟩]) 9 false).1
    = .panic := by decide

/-! ### out of scope: non-`Result` operations panic on refusal -/

/-- `new; lock; failfrom:1; clone`: cloning a `Locked` region must lock the copy; the refusal
surfaces as a panic (`expect("unable to lock on resize")`), not as an error value. -/
theorem clone_may_panic :
    (run cBytes16 (State.init fun _ => true)
      [⟨.new, 0⟩, ⟨.lock, 0⟩, ⟨.failfrom 1, 0⟩, ⟨.clone, 0⟩]).map (·.1) = [.ok, .ok, .ok, .panic] := by
  decide

/-- the same for `resize` of a `Locked` region -/
theorem resize_may_panic :
    (run cBytes16 (State.init fun _ => true)
      [⟨.new, 0⟩, ⟨.lock, 0⟩, ⟨.failfrom 1, 0⟩, ⟨.resize 32, 0⟩]).map (·.1) = [.ok, .ok, .ok, .panic] := by
  decide

/-- … but even then the half-built copy is wiped and released and the source stays locked:
one clean release, exactly the source's page locked, slot 0 still `LR`. -/
theorem panic_leaves_no_trace :
    let s := runState cBytes16 (State.init fun _ => true)
      [⟨.new, 0⟩, ⟨.lock, 0⟩, ⟨.failfrom 1, 0⟩, ⟨.clone, 0⟩]
    s.m.rel = [(16, 0)] ∧ lockedPages s.m.k = 1 ∧ s.slots.map (fun sl => (sl.gone, sl.o.st)) =
      [(false, .prot .locked .rw)] := by
  decide

/-- **`panic_preserves_all`** (general form of `panic_leaves_no_trace`): in ANY state satisfying `Inv` and `Tight`
(every reachable state of the repaired model), for ANY token whose outcome is `panic` — `clone`, `resize`,
`clonefrom` of a locked region whose re-lock is refused; nothing else can panic — all slots are as before, EVERY page
of the kernel has the permission and the lock flag it had before, the number of locked pages is unchanged, and
every block released on the way (the half-built copy, the harness' probe clone) was zeroed.
STATEMENT CHANGED (the oracle is `Nat → LockAns` now): new hypothesis `hl` (repaired `dryoc_mlock`, or an oracle that
never answers `failFlagged`), as in `err_create_no_residue`. -/
theorem panic_preserves_all (c : Cfg) (hP : 0 < c.P) (hw : c.wipe = true) (s : State) (h : Inv c s)
    (ht : Tight c s) (hl : c.undo = true ∨ NoFF s.m) (t : Tok) (hp : (step c s t).1 = .panic) :
    (step c s t).2.slots = s.slots ∧
    (∀ p, (step c s t).2.m.k.perm p = s.m.k.perm p ∧ (step c s t).2.m.k.locked p = s.m.k.locked p) ∧
    lockedPages (step c s t).2.m.k = lockedPages s.m.k ∧
    (∀ e ∈ (step c s t).2.m.rel, e.2 = 0) :=
  ⟨(panic_kernel hP h ht hl t hp).1, (panic_kernel hP h ht hl t hp).2.1, (panic_kernel hP h ht hl t hp).2.2,
   relz_step hw s t⟩

/-- a `panic` can only come from `clone`, `resize` or `clonefrom` (in particular never from a `Result` token, from
`lock` or from `zeroize`) -/
theorem panic_only_clone_resize (c : Cfg) (s : State) (t : Tok) (hp : (step c s t).1 = .panic) :
    t.op = .clone ∨ (∃ n b, t.op = .resize n b) ∨ (∃ j, t.op = .clonefrom j) :=
  panic_only c s t hp

/-- non-vacuity witness (`panic_preserves_all`): a refused `clonefrom` between two `Locked` regions (second lock
request refused: the probe clone succeeded, the real one panics — two blocks released, both zeroed) in a reachable
state; slots and locked pages as before -/
example :
    let s := runState cBytes16 (State.init fun _ => true)
      [⟨.new, 0⟩, ⟨.new, 0⟩, ⟨.lock, 0⟩, ⟨.lock, 1⟩, ⟨.failfrom 2, 0⟩]
    (step cBytes16 s ⟨.clonefrom 1, 0⟩).1 = .panic ∧
    (step cBytes16 s ⟨.clonefrom 1, 0⟩).2.m.rel = [(16, 0), (16, 0)] ∧
    lockedPages s.m.k = 2 ∧ lockedPages (step cBytes16 s ⟨.clonefrom 1, 0⟩).2.m.k = 2 ∧
    (step cBytes16 s ⟨.clonefrom 1, 0⟩).2.slots.map (fun sl => (sl.gone, sl.o.st, sl.o.v.base)) =
      s.slots.map (fun sl => (sl.gone, sl.o.st, sl.o.v.base)) := by
  decide

/-! ### non-vacuity -/

/-- `refused_lock_err` / `err_cleans_up` have instances: `new; failfrom:1; lock` -/
example :
    let s := runState cBytes16 (State.init fun _ => true) [⟨.new, 0⟩, ⟨.failfrom 1, 0⟩]
    (∃ sl, s.slots[0]? = some sl ∧ sl.gone = false ∧ isUnlockedSt sl.o.st = true ∧ 0 < sl.o.v.len) ∧
    s.m.oracle (s.m.cnt + 1) = false ∧
    (step cBytes16 s ⟨.lock, 0⟩).1 = .err ∧ (step cBytes16 s ⟨.lock, 0⟩).2.m.rel = [(16, 0)] ∧
    lockedPages (step cBytes16 s ⟨.lock, 0⟩).2.m.k = 0 := by
  refine ⟨⟨_, rfl, ?_⟩, ?_⟩ <;> decide

/-- with an arbitrary oracle: the second request refused, the first granted -/
example :
    (run cBytes16 (State.init fun i => i != 2)
      [⟨.new, 0⟩, ⟨.clone, 0⟩, ⟨.lock, 0⟩, ⟨.lock, 1⟩, ⟨.newlocked, 0⟩, ⟨.fsl 5, 0⟩]).map (·.1) =
      [.ok, .ok, .ok, .err, .ok, .ok] := by
  decide

end DryocVerif.Properties.C19
