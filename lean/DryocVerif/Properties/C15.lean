import DryocVerif.Model.Protected
import DryocVerif.Proofs.ProtectedRel
import DryocVerif.Proofs.GenProtected
/-
C15 — the page-aligned allocator never hands back memory that still holds data: every release
event `(size, nonzero)` observed by the harness has `nonzero = 0`, for every token history, every
start state and every lock oracle.  The proof only uses that `deallocate` wipes `layout.size()`
bytes before it frees (`c.wipe = true`); it never looks at the growth policy of `Vec`
(`growCap` is not unfolded anywhere), at the page size, or at who called `deallocate`
(`Vec` reallocation, shrink + drop, `Protected::drop`, error and panic paths).
The counter-model (`c.wipe = false`, the tree before the repair) shows the defect.
-/
namespace DryocVerif.Properties.C15
open DryocVerif DryocVerif.Model.Protected DryocVerif.Proofs.Protected

/-- the block that goes back to the system allocator has its first `cap` bytes zero -/
theorem dealloc_wipes (c : Cfg) (hw : c.wipe = true) (m : Mach) (v : PVec) :
    (dealloc c m v).rel = m.rel ++ [(v.cap, 0)] := by
  rw [dealloc_rel]; simp only [hw, if_true, nonzero_wipe]

/-- one token: all releases are clean -/
theorem release_zeroed_step (c : Cfg) (hw : c.wipe = true) (s : State) (t : Tok) :
    ∀ e ∈ (step c s t).2.m.rel, e.2 = 0 :=
  relz_step hw s t

/-- `release_zeroed`: for every token sequence (from any state), every release event of every
token and of the final teardown has `nonzero = 0`. -/
theorem release_zeroed (c : Cfg) (hw : c.wipe = true) (s : State) (toks : List Tok) :
    (∀ r ∈ run c s toks, ∀ e ∈ r.2.m.rel, e.2 = 0) ∧
    (∀ e ∈ (finish c (runState c s toks)).m.rel, e.2 = 0) := by
  refine ⟨?_, relz_finish hw _⟩
  induction toks generalizing s with
  | nil => intro r hr; simp [run] at hr
  | cons t ts ih =>
    intro r hr
    simp only [run, List.mem_cons] at hr
    rcases hr with rfl | hr
    · exact relz_step hw s t
    · exact ih _ r hr

/-! ### counter-model: a `deallocate` that does not wipe -/

/-- without the wipe the release event reports whatever the block still holds -/
theorem nowipe_release (c : Cfg) (hw : c.wipe = false) (m : Mach) (v : PVec) :
    (dealloc c m v).rel = m.rel ++ [(v.cap, nonzero (v.buf.take v.cap))] := by
  rw [dealloc_rel]; simp [hw]

def cNoWipe : Cfg := { P := 4096, isArr := false, n := 8, wipe := false }
def toksGrow : List Tok := [⟨.new, 0⟩, ⟨.fill 0xa5, 0⟩, ⟨.resize 9, 0⟩]

/-- the repaired defect: `new; fill:a5; resize:bigger` reallocates and releases the old 8-byte
block with all 8 bytes still in place -/
theorem nowipe_leaks :
    (runState cNoWipe (State.init fun _ => true) toksGrow).m.rel = [(8, 8)] := by decide

/-- the same history on the repaired model (non-vacuity of `release_zeroed`: there IS a release) -/
example : (runState { cNoWipe with wipe := true } (State.init fun _ => true) toksGrow).m.rel = [(8, 0)] := by
  decide

/-- shrinking keeps the allocation; the spare capacity still holds the old bytes and is wiped
only by `deallocate` (here: 20 bytes `a5`, shrink to 4, drop — the 16 stale bytes survive
`zeroize`, none survive `deallocate`) -/
example :
    (runState { cNoWipe with n := 20 } (State.init fun _ => true)
      [⟨.new, 0⟩, ⟨.fill 0xa5, 0⟩, ⟨.resize 4, 0⟩, ⟨.drop, 0⟩]).m.rel = [(20, 16)] ∧
    (runState { cNoWipe with n := 20, wipe := true } (State.init fun _ => true)
      [⟨.new, 0⟩, ⟨.fill 0xa5, 0⟩, ⟨.resize 4, 0⟩, ⟨.drop, 0⟩]).m.rel = [(20, 0)] := by
  decide

/-- tie to the source: `PageAlignedAllocator::deallocate` as translated wipes `layout.size()` bytes starting at the
allocation's pointer, before the block is handed to `free` -/
theorem translated_deallocate_wipe (cap : Nat) :
    Gen.Protected.deallocate_wipe_len cap = cap ∧ Gen.Protected.deallocate_wipes_before_free = true :=
  Proofs.GenProtected.deallocate_wipe cap

end DryocVerif.Properties.C15
