import DryocVerif.Model.Protected
import DryocVerif.Proofs.ProtectedRel
import DryocVerif.Proofs.ProtectedRelExtra
import DryocVerif.Proofs.GenProtected
import DryocVerif.Proofs.ProtectedBalance
import DryocVerif.Proofs.ProtectedLedger
/-
C15 — the page-aligned allocator never hands back memory that still holds data: every release
event `(size, nonzero)` observed by the harness has `nonzero = 0`, for every token history, every
start state and every lock oracle.  The proof only uses that `deallocate` wipes `layout.size()`
bytes before it frees (`c.wipe = true`); it never looks at the growth policy of `Vec`
(`growCap` is not unfolded anywhere), at the page size, or at who called `deallocate`
(`Vec` reallocation, shrink + drop, `Protected::drop`, error and panic paths).
The counter-model (`c.wipe = false`, the tree before the repair) shows the defect.

`release_zeroed` alone would also hold of a model that never released anything.  The second half of
this file therefore proves that the trace is COMPLETE: every operation that hands a block back logs
exactly that block (`objDrop_releases`, `grow_releases_old`, `locked_resize_releases_old`,
`locked_resize_panic_releases_new`, `clone_drop_releases`, `drop_token_releases`) and the final
teardown logs exactly the blocks of the slots that were still live (`finish_releases_all`); and the
zeroing write of `deallocate` goes to writable pages (`wipe_on_writable_pages`).

The third part is the BALANCE over a whole run plus teardown, in two forms.
(1) `alloc_release_balance` — SIZES ONLY: the multiset of released sizes (from the release log the harness sees)
equals the multiset of sizes passed to `alloc` (a ghost log mirroring the branches that reach `alloc`: `stepAllocs`,
`runAllocs` in `Proofs/ProtectedBalance.lean`, tied to the model through the bump pointer,
`alloc_log_accounts_for_brk`).  No hypothesis at all, but it cannot tell two blocks of the same size apart.
(2) `alloc_release_balance_pairs` — BLOCKS: `alloc` and `dealloc` themselves append `(base page, size)` to two ghost
lists of the kernel (`Kernel.al`, `Kernel.fr`); after the teardown the freed list is a permutation of the allocated
list and the allocated bases are pairwise different — every block handed out is given back exactly once, no block is
freed twice, nothing is freed that was not allocated (`ledger_reachable` for the states on the way).  The ledger is
part of the invariant of C14, so this form carries its hypotheses (`0 < c.P`, `NoProtZeroize`).

As everywhere in the protected-memory model, the only system call that can fail is `mlock`
(header of `Model/Protected.lean`); `deallocate`'s own `mprotect` calls cannot fail here.
-/
namespace DryocVerif.Properties.C15
open DryocVerif DryocVerif.Model.Protected DryocVerif.Proofs.Protected

/-- the block that goes back to the system allocator has its first `cap` bytes zero -/
theorem dealloc_wipes (c : Cfg) (hw : c.wipe = true) (m : Mach) (v : PVec) :
    (dealloc c m v).rel = m.rel ++ [(v.cap, 0)] := by
  rw [dealloc_rel]; simp only [hw, if_true, nonzero_wipe]

/-- one token: all releases are clean -/
theorem release_zeroed_step (c : Cfg) (hw : c.wipe = true) (s : State) (t : Tok) :
    ∀ e ∈ (step c s t).2.m.rel, e.2 = 0 :=
  relz_step hw s t

/-- `release_zeroed`: for every token sequence (from any state), every release event of every
token and of the final teardown has `nonzero = 0`. -/
theorem release_zeroed (c : Cfg) (hw : c.wipe = true) (s : State) (toks : List Tok) :
    (∀ r ∈ run c s toks, ∀ e ∈ r.2.m.rel, e.2 = 0) ∧
    (∀ e ∈ (finish c (runState c s toks)).m.rel, e.2 = 0) := by
  refine ⟨?_, relz_finish hw _⟩
  induction toks generalizing s with
  | nil => intro r hr; simp [run] at hr
  | cons t ts ih =>
    intro r hr
    simp only [run, List.mem_cons] at hr
    rcases hr with rfl | hr
    · exact relz_step hw s t
    · exact ih _ r hr

/-! ### counter-model: a `deallocate` that does not wipe -/

/-- without the wipe the release event reports whatever the block still holds -/
theorem nowipe_release (c : Cfg) (hw : c.wipe = false) (m : Mach) (v : PVec) :
    (dealloc c m v).rel = m.rel ++ [(v.cap, nonzero (v.buf.take v.cap))] := by
  rw [dealloc_rel]; simp [hw]

def cNoWipe : Cfg := { P := 4096, isArr := false, n := 8, wipe := false }
def toksGrow : List Tok := [⟨.new, 0⟩, ⟨.fill 0xa5, 0⟩, ⟨.resize 9, 0⟩]

/-- the repaired defect: `new; fill:a5; resize:bigger` reallocates and releases the old 8-byte
block with all 8 bytes still in place -/
theorem nowipe_leaks :
    (runState cNoWipe (State.init fun _ => true) toksGrow).m.rel = [(8, 8)] := by decide

/-- the same history on the repaired model (non-vacuity of `release_zeroed`: there IS a release) -/
example : (runState { cNoWipe with wipe := true } (State.init fun _ => true) toksGrow).m.rel = [(8, 0)] := by
  decide

/-- shrinking keeps the allocation; the spare capacity still holds the old bytes and is wiped
only by `deallocate` (here: 20 bytes `a5`, shrink to 4, drop — the 16 stale bytes survive
`zeroize`, none survive `deallocate`) -/
example :
    (runState { cNoWipe with n := 20 } (State.init fun _ => true)
      [⟨.new, 0⟩, ⟨.fill 0xa5, 0⟩, ⟨.resize 4, 0⟩, ⟨.drop, 0⟩]).m.rel = [(20, 16)] ∧
    (runState { cNoWipe with n := 20, wipe := true } (State.init fun _ => true)
      [⟨.new, 0⟩, ⟨.fill 0xa5, 0⟩, ⟨.resize 4, 0⟩, ⟨.drop, 0⟩]).m.rel = [(20, 0)] := by
  decide

/-! ### completeness of the release trace -/

/-- Dropping any object that owns a block (a bare container or a `Protected` region in ANY type
state, locked or not, whatever its page rights) reaches `deallocate` exactly once, with the full
capacity, and the block is zero when it is released. -/
theorem objDrop_releases (c : Cfg) (hw : c.wipe = true) (m : Mach) (o : Obj) (h : 0 < o.v.cap) :
    (objDrop c m o).rel = m.rel ++ [(o.v.cap, 0)] := by
  rw [objDrop_rel c hw, relOf_pos h]

/-- … and an object without a block (an empty `Vec`: `cap = 0`) releases nothing -/
theorem objDrop_empty_silent (c : Cfg) (hw : c.wipe = true) (m : Mach) (o : Obj) (h : o.v.cap = 0) :
    (objDrop c m o).rel = m.rel := by
  rw [objDrop_rel c hw]; simp [relOf, h]

/-- `Vec::resize` beyond the capacity reallocates: exactly the OLD block (old capacity) is released,
zeroed; a resize within the capacity releases nothing. -/
theorem grow_releases_old (c : Cfg) (hw : c.wipe = true) (m : Mach) (v : PVec) (n : Nat)
    (hl : v.len ≤ v.cap) (b : UInt8 := 0) :
    (v.cap < n → 0 < v.cap → (vecResize c m v n b).1.rel = m.rel ++ [(v.cap, 0)]) ∧
    (n ≤ v.cap → (vecResize c m v n b).1.rel = m.rel) := by
  rw [vecResize_rel c hw m v n hl b]
  refine ⟨fun h1 h2 => ?_, fun h1 => ?_⟩
  · rw [if_neg (by omega), relOf_pos h2]
  · rw [if_pos h1]; simp

/-- resize of a `Locked` region is resize-by-copy (new block, lock, copy, drop the old region): when
it succeeds exactly the old block is released, zeroed -/
theorem locked_resize_releases_old (c : Cfg) (hw : c.wipe = true) (m : Mach) (v nv : PVec) (rc : LM × PM)
    (n : Nat) (b : UInt8) (h : (lockedResize c m v rc n b).2 = some nv) (hc : 0 < v.cap) :
    (lockedResize c m v rc n b).1.rel = m.rel ++ [(v.cap, 0)] := by
  rw [lockedResize_rel c hw m v rc n b, h]; simp [relOf_pos hc]

/-- … and when the new block cannot be locked (the `expect` panics) exactly the half-built NEW block
is released, zeroed; the old region is untouched -/
theorem locked_resize_panic_releases_new (c : Cfg) (hw : c.wipe = true) (m : Mach) (v : PVec) (rc : LM × PM)
    (n : Nat) (b : UInt8) (h : (lockedResize c m v rc n b).2 = none) :
    0 < n ∧ (lockedResize c m v rc n b).1.rel = m.rel ++ [(growCap 0 n, 0)] := by
  have hn : n ≠ 0 := by
    intro h0
    subst h0
    have hlen := vecResize_len c m PVec.empty 0 b
    unfold lockedResize lockV dryocMlock at h
    simp [hlen] at h
  refine ⟨by omega, ?_⟩
  rw [lockedResize_rel c hw m v rc n b, h, vecResize_empty_cap c m n b]
  simp [hn, relOf_pos (growCap_ge 0 n).2]

/-- the block of a clone has capacity `len`; dropping the clone releases exactly it -/
theorem clone_drop_releases (c : Cfg) (hw : c.wipe = true) (m : Mach) (v : PVec) (st : St) (rc : LM × PM)
    (h : 0 < v.len) :
    (objDrop c (vecClone c m v).1 ⟨st, (vecClone c m v).2, rc⟩).rel = m.rel ++ [(v.len, 0)] := by
  rw [objDrop_rel c hw, vecClone_rel]
  simp only [vecClone_cap]
  rw [relOf_pos h]

/-- the `drop` token on a live slot logs exactly the slot's block -/
theorem drop_token_releases (c : Cfg) (hw : c.wipe = true) (s : State) (i : Nat) (sl : Slot)
    (hi : s.slots[i]? = some sl) (hg : sl.gone = false) :
    (step c s ⟨.drop, i⟩).2.m.rel = if sl.o.v.cap = 0 then [] else [(sl.o.v.cap, 0)] :=
  step_drop_rel c hw s hi hg

/-- **the teardown forgets nothing**: after `finish` (the harness' `slots.clear()`) the release log
is, in slot order, exactly one event `(cap, 0)` for every slot that was still live and owned a block
— no block of a live slot is missing, nothing else is released, everything is zeroed. -/
theorem finish_releases_all (c : Cfg) (hw : c.wipe = true) (s : State) :
    (finish c s).m.rel =
      (s.slots.filter fun sl => !sl.gone && decide (0 < sl.o.v.cap)).map fun sl => (sl.o.v.cap, 0) :=
  finish_rel c hw s

/-- non-vacuity witness (`finish_releases_all`, `objDrop_releases`, `grow_releases_old`): three
regions of capacities 16, 16 and 40 (the second one grown from 16, which releases its old block at
once), the first dropped early; the teardown releases the other two -/
example :
    let c : Cfg := { cNoWipe with n := 16, wipe := true }
    let r := run c (State.init fun _ => true)
      [⟨.new, 0⟩, ⟨.clone, 0⟩, ⟨.fill 0xa5, 1⟩, ⟨.resize 40, 1⟩, ⟨.newlocked, 0⟩, ⟨.new, 0⟩, ⟨.drop, 0⟩]
    let s := runState c (State.init fun _ => true)
      [⟨.new, 0⟩, ⟨.clone, 0⟩, ⟨.fill 0xa5, 1⟩, ⟨.resize 40, 1⟩, ⟨.newlocked, 0⟩, ⟨.new, 0⟩, ⟨.drop, 0⟩]
    r.map (fun x => x.2.m.rel) = [[], [], [], [(16, 0)], [], [], [(16, 0)]] ∧
    s.slots.map (fun sl => (sl.gone, sl.o.v.cap)) = [(true, 16), (false, 40), (false, 0), (false, 16)] ∧
    (finish c s).m.rel = [(40, 0), (16, 0)] := by
  decide

/-- non-vacuity witness (`locked_resize_releases_old`, `locked_resize_panic_releases_new`): a locked
8-byte region resized to 9 bytes, first granted then refused -/
example :
    let c : Cfg := { cNoWipe with wipe := true }
    let s := runState c (State.init fun _ => true) [⟨.new, 0⟩, ⟨.lock, 0⟩]
    let s' := runState c (State.init fun _ => true) [⟨.new, 0⟩, ⟨.lock, 0⟩, ⟨.failfrom 1, 0⟩]
    (step c s ⟨.resize 9, 0⟩).1 = .ok ∧ (step c s ⟨.resize 9, 0⟩).2.m.rel = [(8, 0)] ∧
    (step c s' ⟨.resize 9, 0⟩).1 = .panic ∧ (step c s' ⟨.resize 9, 0⟩).2.m.rel = [(growCap 0 9, 0)] := by
  decide

/-! ### balance: every block allocated is released exactly once -/

/-- one token conserves blocks, size by size: (blocks of size `z` owned by the live slots after the
token) + (released by the token) = (owned before) + (allocated by the token).  `capsOf` lists the
capacities of the live slots that own a block, `sz` the sizes in the token's release log,
`stepAllocs` the sizes the token passes to `alloc` (ghost).  No hypothesis: any state, any oracle,
`ok` / `err` / `panic` outcomes alike. -/
theorem step_balance (z : Nat) (c : Cfg) (s : State) (t : Tok) :
    (capsOf (step c s t).2.slots).count z + (sz (step c s t).2.m).count z =
      (capsOf s.slots).count z + (stepAllocs c s t).count z :=
  step_bal z c s t

/-- the teardown releases exactly the blocks still owned by live slots, in slot order -/
theorem finish_balance (c : Cfg) (s : State) : sz (finish c s).m = capsOf s.slots :=
  sz_finish c s

/-- **`alloc_release_balance`** (balance of SIZES): over a whole run from the initial state plus the final teardown —
any token list, any lock oracle, refusals and panics included — the list of ALL released sizes
(`runReleases`: the release log of every token, then of `finish`) is a permutation of the list of
ALL sizes passed to `alloc` (`runAllocs`).
DOCSTRING CORRECTED: this is a statement about SIZES only — for every size, as many blocks of that size are released
as are allocated.  It does NOT by itself say that each individual block goes back exactly once (a double free of one
16-byte block together with a leak of another would balance).  That statement, on `(base, size)` pairs with pairwise
different bases, is `alloc_release_balance_pairs` below.

The allocation log is a GHOST (the model's `alloc` does not log): `stepAllocs c s t` mirrors the two
places that call `alloc` — `vecResize` when it reallocates (`growCap cap n`) and `vecClone` of a
non-empty vector (`len`) — along the branches of each token.  Its tie to the model is
`alloc_log_accounts_for_brk`.  No hypothesis on `c` (page size, `wipe`, `undo` are irrelevant to the
balance). -/
theorem alloc_release_balance (c : Cfg) (oracle : Nat → LockAns) (toks : List Tok) :
    (runReleases c (State.init oracle) toks).Perm (runAllocs c (State.init oracle) toks) :=
  Proofs.Protected.alloc_release_balance c oracle toks

/-- **`alloc_release_balance_pairs`** (balance of BLOCKS): `alloc` appends `(base page, size)` to the ghost list
`Kernel.al`, `dealloc` appends `(base page, capacity)` to `Kernel.fr`.  After a whole run from the initial state plus
the teardown — any oracle, refusals and panics included — the freed list is a PERMUTATION of the allocated list,
the allocated bases are pairwise different (so the pairs identify blocks), and consequently no pair occurs twice in
the freed list: every block handed out by the allocator is given back exactly once. -/
theorem alloc_release_balance_pairs (c : Cfg) (hP : 0 < c.P) (oracle : Nat → LockAns) (toks : List Tok)
    (hz : NoProtZeroize c (State.init oracle) toks) :
    let e := finish c (runState c (State.init oracle) toks)
    e.m.k.fr.Perm e.m.k.al ∧ (e.m.k.al.map Prod.fst).Nodup ∧ e.m.k.fr.Nodup :=
  ledger_finish hP (inv_runState hP toks (inv_init c oracle) hz)

/-- … and on the way: in every reachable state the allocated blocks are the freed ones plus those of the live
slots, with pairwise different bases below the bump pointer -/
theorem ledger_reachable (c : Cfg) (hP : 0 < c.P) (oracle : Nat → LockAns) (toks : List Tok)
    (hz : NoProtZeroize c (State.init oracle) toks) :
    let s := runState c (State.init oracle) toks
    s.m.k.al.Perm (s.m.k.fr ++ ownedSlots s.slots) ∧ (s.m.k.al.map Prod.fst).Nodup ∧
    ∀ b ∈ s.m.k.al.map Prod.fst, b < s.m.k.brk :=
  ledger_of_inv (inv_runState hP toks (inv_init c oracle) hz)

/-- non-vacuity witness (`alloc_release_balance_pairs`, `ledger_reachable`): the run of the witness below — two
blocks of the SAME size 16 among the five, told apart by their bases 1 and 4 -/
example :
    let c : Cfg := { cNoWipe with n := 16, wipe := true }
    let toks : List Tok := [⟨.new, 0⟩, ⟨.clone, 0⟩, ⟨.resize 40, 1⟩, ⟨.lock, 0⟩, ⟨.failfrom 1, 0⟩,
      ⟨.resize 64, 0⟩, ⟨.fsl 9, 0⟩, ⟨.drop, 1⟩]
    let s := runState c (State.init fun _ => true) toks
    s.m.k.al = [(1, 16), (4, 16), (7, 40), (10, 64), (13, 9)] ∧ s.m.k.fr = [(4, 16), (10, 64), (13, 9), (7, 40)] ∧
    ownedSlots s.slots = [(1, 16)] ∧ (finish c s).m.k.fr = [(4, 16), (10, 64), (13, 9), (7, 40), (1, 16)] ∧
    NoProtZeroize c (State.init fun _ => true) toks := by
  decide

/-- the same from an arbitrary state: what is released = what the live slots owned + what was
allocated on the way -/
theorem alloc_release_balance_from (c : Cfg) (s : State) (toks : List Tok) :
    (runReleases c s toks).Perm (capsOf s.slots ++ runAllocs c s toks) :=
  run_balance_perm c s toks

/-- **the ghost log is the model's**: `alloc` is the only function that moves the bump pointer
`brk`, by `size / P + 3` pages per call (data pages + two guard pages; `Proofs.Protected.alloc_brk`).
In every step, and over every run, `brk` advances by exactly the pages of the sizes listed in the
ghost log — so the log misses no call of `alloc` and invents none (up to sizes with the same page
count). -/
theorem alloc_log_accounts_for_brk (c : Cfg) (hP : 0 < c.P) (s : State) (toks : List Tok) (t : Tok) :
    (step c s t).2.m.k.brk = s.m.k.brk + pagesA c.P (stepAllocs c s t) ∧
    (runState c s toks).m.k.brk = s.m.k.brk + pagesA c.P (runAllocs c s toks) :=
  ⟨step_brk c hP s t, runState_brk c hP toks s⟩

/-- non-vacuity witness (`alloc_release_balance`): a run with a clone, a growing resize, a locked
resize-by-copy that PANICS (refused lock), a refused constructor, an early drop — five allocations,
five releases, the same sizes; and the bump pointer moved by the 5 · 3 pages of the five blocks -/
example :
    let c : Cfg := { cNoWipe with n := 16, wipe := true }
    let toks : List Tok := [⟨.new, 0⟩, ⟨.clone, 0⟩, ⟨.resize 40, 1⟩, ⟨.lock, 0⟩, ⟨.failfrom 1, 0⟩,
      ⟨.resize 64, 0⟩, ⟨.fsl 9, 0⟩, ⟨.drop, 1⟩]
    runAllocs c (State.init fun _ => true) toks = [16, 16, 40, 64, 9] ∧
    runReleases c (State.init fun _ => true) toks = [16, 64, 9, 40, 16] ∧
    (run c (State.init fun _ => true) toks).map (·.1) = [.ok, .ok, .ok, .ok, .ok, .panic, .err, .ok] ∧
    (runState c (State.init fun _ => true) toks).m.k.brk = startPage + 5 * 3 := by
  decide

/-! ### the wipe cannot fault -/

/-- `deallocate` first makes the whole region `[ptr, ptr+cap)` read-write, then wipes it, then
restores the guards: the kernel after `deallocate` is the result of exactly these three `mprotect`
calls in this order, and right after the first one every byte `ptr + off`, `off < cap`, lies on a
`rw` page — whatever the rights were before (read-only, no-access) — so the zeroing write is to
writable memory.  STATEMENT CHANGED: the kernel after `deallocate` additionally carries the entry `(base, cap)` in
the ghost free log `Kernel.fr` (`alloc_release_balance_pairs`); permissions, lock flags and `brk` are those of the
three calls. -/
theorem wipe_on_writable_pages (c : Cfg) (hP : 0 < c.P) (m : Mach) (v : PVec) :
    (let k3 := mprotect c.P (mprotect c.P (mprotect c.P m.k (ptr c v) v.cap .rw) (ptr c v - c.P) c.P .rw)
        (ptr c v - c.P + (c.P + pageRound c.P v.cap)) c.P .rw
     (dealloc c m v).k = { k3 with fr := k3.fr ++ [(v.base, v.cap)] }) ∧
    ∀ off, off < v.cap → (mprotect c.P m.k (ptr c v) v.cap .rw).perm ((ptr c v + off) / c.P) = .rw :=
  ⟨dealloc_kernel c m v, fun _ hoff => dealloc_first_rw hP m.k v hoff⟩

/-- tie to the source: `PageAlignedAllocator::deallocate` as translated wipes `layout.size()` bytes starting at the
allocation's pointer, before the block is handed to `free` -/
theorem translated_deallocate_wipe (cap : Nat) :
    Gen.Protected.deallocate_wipe_len cap = cap ∧ Gen.Protected.deallocate_wipes_before_free = true :=
  Proofs.GenProtected.deallocate_wipe cap

end DryocVerif.Properties.C15
