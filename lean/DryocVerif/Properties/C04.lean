import DryocVerif.Model.SecretStream
import DryocVerif.Model.SecretBox
import DryocVerif.Proofs.SecretStream
import DryocVerif.Properties.C02
import DryocVerif.Properties.C06
import DryocVerif.Properties.C10
import DryocVerif.Properties.C16
import DryocVerif.Properties.C09
import DryocVerif.Proofs.RawExtra
import DryocVerif.Proofs.OpenRawExtra
import DryocVerif.Proofs.SignVectors
/-
C04 — no attacker-facing function panics.

Every function that consumes bytes an attacker controls (ciphertexts, sealed boxes, signed messages,
password-hash strings, serialised containers), for ALL inputs and every instantiation of the
primitives, returns `Ok` or `Err`; where a classic (caller-buffer) form CAN panic, the exact
condition is stated (`*_panic_iff`) and it is a condition on the CALLER's buffer only — checked before
any attacker byte is looked at.

* secretstream `pull` / `push` / `DryocStream`: proved here;
* secretbox / box / sealed box / object layer: re-exported from C02 (statements written out);
* signatures: re-exported from C06; password-hash strings: from C10; serde: from C16.

The models named above (`pull`, `fromBytes`, `signOpen`, `parse`, …) are TOTAL functions on lists (truncated
`ℕ` subtraction, `take`/`drop` behind a copied guard): several of their `…_never_panics` theorems hold by
construction.  The second half of this file ("CODE-SHAPED models") therefore states the property for
`…Raw` models in which every Rust operation that can panic — `a - b`, `a + b`, `x[i]`, `&x[a..b]`,
`split_at`, `copy_from_slice`, `unwrap`/`expect`, `apply_keystream` — is an explicit `Outcome.panic` branch
(`Model/RawOps.lean`, `Model/SecretStreamRaw.lean`, `Model/OpenRaw.lean`), proves `…Raw = total model`
(so no panic branch is reachable, and every theorem about the total model is a theorem about the
code-shaped one), and proves that the same code with a guard deleted DOES panic (`…Old`, `…NoGuard`).
-/
namespace DryocVerif.Properties.C04
open DryocVerif

/-! ## secretstream -/

/-- the classic stream pull never panics, whatever the ciphertext, associated data, buffer and state -/
theorem pull_never_panics (P : Model.SecretStream.Prims) (s : Model.SecretStream.State) (m : Bytes) (tagv : UInt8) (ct ad : Bytes) :
    (Model.SecretStream.pull P s m tagv ct ad).res ≠ .panic := by
  unfold Model.SecretStream.pull
  split <;> try simp
  split <;> try simp
  split <;> simp


/-- `pull` is total with exactly two kinds of result: an error that changes nothing, or `Ok` with the
message length `ct.len() - 17` -/
theorem pull_err_or_ok (P : Model.SecretStream.Prims) (s : Model.SecretStream.State) (m : Bytes) (tagv : UInt8) (ct ad : Bytes) :
    Model.SecretStream.pull P s m tagv ct ad = ⟨.err, m, tagv, s⟩ ∨
    (17 ≤ ct.length ∧ ct.length - 17 ≤ m.length ∧
      (Model.SecretStream.pull P s m tagv ct ad).res = .ok (ct.length - 17)) := by
  rw [Proofs.SecretStream.pull_eq]
  split; · exact Or.inl rfl
  split; · exact Or.inl rfl
  split; · exact Or.inl rfl
  exact Or.inr ⟨by omega, by omega, rfl⟩

/-- the classic stream push never panics: wrong buffer size is an error, everything else succeeds -/
theorem push_never_panics (P : Model.SecretStream.Prims) (s : Model.SecretStream.State) (ctLen : Nat) (m ad : Bytes) (tag : UInt8) :
    Model.SecretStream.push P s ctLen m ad tag ≠ .panic ∧
    (Model.SecretStream.push P s ctLen m ad tag = .err ↔ ctLen ≠ m.length + 17) := by
  unfold Model.SecretStream.push Model.SecretStream.ABYTES
  split <;> simp_all

/-- `DryocStream::push` always succeeds -/
theorem objPush_ok (P : Model.SecretStream.Prims) (s : Model.SecretStream.State) (m ad : Bytes) (tag : UInt8) :
    ∃ c s', Model.SecretStream.objPush P s m ad tag = .ok (c, s') :=
  ⟨_, _, Proofs.SecretStream.push_eq P s m ad tag⟩

/-- `DryocStream::pull` never panics, for every ciphertext (any length, 0 included), AD and state -/
theorem objPull_total (P : Model.SecretStream.Prims) (s : Model.SecretStream.State) (ct ad : Bytes) :
    (Model.SecretStream.objPull P s ct ad).1 ≠ .panic := by
  rcases Proofs.SecretStream.objPull_cases P s ct ad with h | ⟨r, _, _, h⟩ <;> rw [h] <;> simp

/-- … more precisely: it is either `Err` with the state untouched, or `Ok` of exactly what the classic
`pull` wrote into a fresh `ct.len() - 17`-byte buffer, with the classic `pull`'s state -/
theorem objPull_never_panics (P : Model.SecretStream.Prims) (s : Model.SecretStream.State) (ct ad : Bytes) :
    Model.SecretStream.objPull P s ct ad = (.err, s) ∨
    ∃ r, r = Model.SecretStream.pull P s (zeros (ct.length - 17)) 0 ct ad ∧ r.res = .ok (ct.length - 17) ∧
      Model.SecretStream.objPull P s ct ad = (.ok (r.buf, r.tag), r.st) :=
  Proofs.SecretStream.objPull_cases P s ct ad

/-! ## secretbox / box / sealed box: classic forms (re-exported from C02)

The four forms that take a separate message buffer panic (slice bounds) exactly when THAT buffer is
too small for the ciphertext's payload; this is decided before the authenticator is looked at and does
not depend on any ciphertext byte, only on its length.  In-place and sealed forms cannot panic. -/

section Box
open DryocVerif.Model.SecretBox

theorem openDetachedInplace_never_panics (P : Prims) (data mac n k : Bytes) :
    (openDetachedInplace P data mac n k).res ≠ .panic :=
  C02.openDetachedInplace_never_panics P data mac n k

/-- caller contract of `crypto_secretbox_open_detached`: the message buffer holds the ciphertext -/
theorem openDetached_panic_iff (P : Prims) (buf mac c n k : Bytes) :
    (openDetached P buf mac c n k).res = .panic ↔ buf.length < c.length :=
  C02.openDetached_panic_iff P buf mac c n k

/-- caller contract of `crypto_secretbox_open_easy`: the message buffer holds `ct.len() - 16` bytes
(a ciphertext shorter than 16 bytes is an `Err`, never a panic) -/
theorem openEasy_panic_iff (P : Prims) (buf ct n k : Bytes) :
    (openEasy P buf ct n k).res = .panic ↔ 16 ≤ ct.length ∧ buf.length < ct.length - 16 :=
  C02.openEasy_panic_iff P buf ct n k

/-- … so with a buffer sized as documented no ciphertext makes it panic -/
theorem openEasy_never_panics_sized (P : Prims) (buf ct n k : Bytes) (hbuf : ct.length - 16 ≤ buf.length) :
    (openEasy P buf ct n k).res ≠ .panic := by
  intro h
  have := (C02.openEasy_panic_iff P buf ct n k).mp h
  omega

theorem openDetached_never_panics_sized (P : Prims) (buf mac c n k : Bytes) (hbuf : c.length ≤ buf.length) :
    (openDetached P buf mac c n k).res ≠ .panic := by
  intro h
  have := (C02.openDetached_panic_iff P buf mac c n k).mp h
  omega

theorem openEasyInplace_never_panics (P : Prims) (ct n k : Bytes) :
    (openEasyInplace P ct n k).res ≠ .panic :=
  C02.openEasyInplace_never_panics P ct n k

theorem boxOpenDetachedInplace_never_panics (P : Prims) (data mac n pk sk : Bytes) :
    (boxOpenDetachedInplace P data mac n pk sk).res ≠ .panic :=
  C02.boxOpenDetachedInplace_never_panics P data mac n pk sk

theorem boxOpenDetached_panic_iff (P : Prims) (buf mac c n pk sk : Bytes) :
    (boxOpenDetached P buf mac c n pk sk).res = .panic ↔ buf.length < c.length :=
  C02.boxOpenDetached_panic_iff P buf mac c n pk sk

theorem boxOpenEasy_panic_iff (P : Prims) (buf ct n pk sk : Bytes) :
    (boxOpenEasy P buf ct n pk sk).res = .panic ↔ 16 ≤ ct.length ∧ buf.length < ct.length - 16 :=
  C02.boxOpenEasy_panic_iff P buf ct n pk sk

theorem boxOpenEasy_never_panics_sized (P : Prims) (buf ct n pk sk : Bytes)
    (hbuf : ct.length - 16 ≤ buf.length) : (boxOpenEasy P buf ct n pk sk).res ≠ .panic := by
  intro h
  have := (C02.boxOpenEasy_panic_iff P buf ct n pk sk).mp h
  omega

theorem boxOpenEasyInplace_never_panics (P : Prims) (ct n pk sk : Bytes) :
    (boxOpenEasyInplace P ct n pk sk).res ≠ .panic :=
  C02.boxOpenEasyInplace_never_panics P ct n pk sk

/-- `crypto_box_seal_open`: a message buffer of the wrong size is an `Err`; no panic is possible -/
theorem sealOpen_never_panics (P : Prims) (buf ct rpk rsk : Bytes) :
    (sealOpen P buf ct rpk rsk).res ≠ .panic :=
  C02.sealOpen_never_panics P buf ct rpk rsk

/-! ## object layer: parsing and decrypting attacker bytes never panics -/

/-- `DryocSecretBox::from_bytes` -/
theorem fromBytes_never_panics (bs : Bytes) : fromBytes bs ≠ .panic := by
  unfold fromBytes; split <;> simp

/-- `DryocBox::from_sealed_bytes` -/
theorem fromSealedBytes_never_panics (bs : Bytes) : fromSealedBytes bs ≠ .panic := by
  unfold fromSealedBytes; split <;> simp

/-- … and both reject what is shorter than the overhead -/
theorem fromBytes_short (bs : Bytes) (h : bs.length < 16) : fromBytes bs = .err :=
  C02.short_rejected_fromBytes bs h

theorem fromSealedBytes_short (bs : Bytes) (h : bs.length < 48) : fromSealedBytes bs = .err :=
  C02.short_rejected_fromSealedBytes bs h

/-- `DryocSecretBox::decrypt`, for every box (any tag length, any data) -/
theorem objDecrypt_never_panics (P : Prims) (b : Box) (n k : Bytes) : objDecrypt P b n k ≠ .panic :=
  C02.objDecrypt_never_panics P b n k

/-- `DryocBox::decrypt` -/
theorem objBoxDecrypt_never_panics (P : Prims) (b : Box) (n pk sk : Bytes) :
    objBoxDecrypt P b n pk sk ≠ .panic :=
  C02.objDecrypt_never_panics P b n _

/-- `DryocBox::unseal` -/
theorem objUnseal_never_panics (P : Prims) (b : Box) (rpk rsk : Bytes) : objUnseal P b rpk rsk ≠ .panic :=
  C02.objUnseal_never_panics P b rpk rsk

/-- the whole attacker-facing pipeline of the object layer, bytes in, message or `Err` out -/
theorem fromBytes_then_decrypt_never_panics (P : Prims) (bs n k : Bytes) :
    (match fromBytes bs with
     | .ok b => objDecrypt P b n k
     | .err => .err
     | .panic => .panic) ≠ .panic := by
  cases h : fromBytes bs with
  | ok b => exact C02.objDecrypt_never_panics P b n k
  | err => simp
  | panic => exact absurd h (fromBytes_never_panics bs)

theorem fromSealedBytes_then_unseal_never_panics (P : Prims) (bs rpk rsk : Bytes) :
    (match fromSealedBytes bs with
     | .ok b => objUnseal P b rpk rsk
     | .err => .err
     | .panic => .panic) ≠ .panic := by
  cases h : fromSealedBytes bs with
  | ok b => exact C02.objUnseal_never_panics P b rpk rsk
  | err => simp
  | panic => exact absurd h (fromSealedBytes_never_panics bs)

end Box

/-! ## signatures (re-exported from C06)

`verifyDetached` is a `Bool`-valued function of the model (total by construction: `Ok`/`Err` only);
the forms with a caller buffer and the byte parser are: -/

section Sign
open DryocVerif.Model.Sign

/-- `crypto_sign_open` (`n` = length of the caller's message buffer): a wrong buffer size, a short
input or a bad signature is an `Err` -/
theorem signOpen_never_panics (H : Bytes → Bytes) (n : Nat) (sm pk : Bytes) :
    signOpen H n sm pk ≠ .panic :=
  C06.signOpen_never_panics H n sm pk

/-- `SignedMessage::from_bytes` -/
theorem signedFromBytes_never_panics (bs : Bytes) : Model.Sign.fromBytes bs ≠ .panic := by
  unfold Model.Sign.fromBytes; split <;> simp

theorem signedFromBytes_short (bs : Bytes) (h : bs.length < 64) : Model.Sign.fromBytes bs = .err :=
  C06.fromBytes_short bs h

/-- `from_bytes` then `verify`: bytes in, `Bool` out -/
theorem signedFromBytes_then_verify_total (H : Bytes → Bytes) (bs pk : Bytes) :
    (match Model.Sign.fromBytes bs with
     | .ok (sig, m) => Outcome.ok (verifyDetached H sig m pk false)
     | .err => .err
     | .panic => .panic) ≠ .panic := by
  cases h : Model.Sign.fromBytes bs with
  | ok r => simp
  | err => simp
  | panic => exact absurd h (signedFromBytes_never_panics bs)

/-- (the signing side, for completeness) -/
theorem signCombined_never_panics (H : Bytes → Bytes) (n : Nat) (msg sk : Bytes) :
    signCombined H n msg sk ≠ .panic :=
  C06.signCombined_never_panics H n msg sk

end Sign

/-! ## password-hash strings (re-exported from C10): any `&str` -/

section PwhashStr
open DryocVerif.Model.PwhashStr

/-- `Pwhash::parse_encoded_pwhash` -/
theorem parse_never_panics (s : Str) : parse s ≠ .panic := C10.parse_never_panics s

/-- `crypto_pwhash_str_needs_rehash` -/
theorem needsRehash_never_panics (s : Str) (o l : Nat) : needsRehash s o l ≠ .panic :=
  C10.needsRehash_never_panics s o l

/-- `crypto_pwhash_str_verify`, for every Argon2 that does not itself panic -/
theorem strVerify_never_panics
    (argon2 : Nat → Nat → Nat → Nat → Bytes → Bytes → Nat → Outcome Bytes)
    (hA : ∀ ty t m p pwd salt n, argon2 ty t m p pwd salt n ≠ .panic)
    (s : Str) (pwd : Bytes) : strVerify argon2 s pwd ≠ .panic :=
  C10.strVerify_never_panics argon2 hA s pwd

/-- `PwHash::from_string(s).to_string()` -/
theorem reencode_never_panics (s : Str) : reencode s ≠ .panic := C10.reencode_never_panics s

/-- allocation bound: the only heap values the parser produces from attacker text are the two
base64-decoded byte strings, and each holds at most 3/4 of the input string's length (every
`$`-segment is a sub-slice of the input, `splitOn_length`; the costs are `u32`s, `C10.parse_ok_range`) -/
theorem parse_alloc_bound (s : Str) (r : Parsed) (h : parse s = .ok r) :
    (∀ salt, r.salt = some salt → 4 * salt.length ≤ 3 * s.length) ∧
    (∀ hash, r.pwhash = some hash → 4 * hash.length ≤ 3 * s.length) :=
  Model.PwhashStr.parse_ok_alloc h

/-- the segments the parser iterates over are never longer than the input -/
theorem parse_segments_bound (s : Str) : ∀ seg ∈ splitOn '$' s, seg.length ≤ s.length :=
  Model.PwhashStr.splitOn_length '$' s

end PwhashStr

/-! ## serde (re-exported from C16): any sequence or byte-string encoding, any expected length -/

theorem deFixed_never_panics (n : Nat) (enc : Model.Encoding.Enc) : Model.Encoding.deFixed n enc ≠ .panic :=
  C16.deFixed_never_panics n enc

/-- resizable containers: always `Ok` of the payload -/
theorem deHeap_never_panics (enc : Model.Encoding.Enc) : Model.Encoding.deHeap enc ≠ .panic := by
  rw [C16.deHeap_spec]; simp


/-! # CODE-SHAPED models: every panicking Rust operation is an explicit `.panic` branch

Nothing below is true by construction: each `…Raw` function can return `.panic` at every subtraction,
addition, index, slice, `split_at`, `copy_from_slice`, `unwrap` and key-stream request of the Rust source,
and the theorems say that the guards in front of those operations exclude it for ALL inputs. -/

section StreamRaw
open DryocVerif.Model.SecretStream

/-- **`crypto_secretstream_xchacha20poly1305_pull`, statement by statement, equals the total model** for
every state, message buffer, tag variable, ciphertext and associated data: after the two length guards
none of `ciphertext.len() - ABYTES`, `ciphertext[0]`, `1 + mlen`, `&ciphertext[1..1 + mlen]`,
`&ciphertext[1 + mlen..]`, `&_pad0[..n]`, the `size_data` copies, `message[..mlen].copy_from_slice(..)`,
the `i64` padding arithmetic or the three `apply_keystream` calls can fail.  The only hypothesis is
`ciphertext.len() ≤ MESSAGEBYTES_MAX_RAW` (≈ 256 GiB), beyond which the Rust returns `Err`
(`pullRaw_too_long`) and the total model has no branch; no hypothesis on the message buffer is needed,
a too small buffer is an `Err` of the function itself. -/
theorem pullRaw_eq_pull (P : Prims) (s : State) (m : Bytes) (tagv : UInt8) (ct ad : Bytes)
    (h : ct.length ≤ MESSAGEBYTES_MAX_RAW) : pullRaw P s m tagv ct ad = pull P s m tagv ct ad :=
  Proofs.SecretStream.pullRaw_eq_pull P s m tagv ct ad h

/-- the `MESSAGEBYTES_MAX_RAW` guard: an over-long ciphertext is an `Err` that changes nothing.  (It is this guard
that keeps `cipher.seek(128); cipher.apply_keystream(&mut message[..mlen])` inside the 2^32-block key stream.) -/
theorem pullRaw_too_long (P : Prims) (s : State) (m : Bytes) (tagv : UInt8) (ct ad : Bytes)
    (h : MESSAGEBYTES_MAX_RAW < ct.length) : pullRaw P s m tagv ct ad = ⟨.err, m, tagv, s⟩ :=
  Proofs.SecretStream.pullRaw_too_long P s m tagv ct ad h

/-- **the classic `pull` as written never panics** — no hypothesis: any primitives, state, buffer (any size,
empty included), ciphertext (any length, empty included), associated data -/
theorem pullRaw_never_panics (P : Prims) (s : State) (m : Bytes) (tagv : UInt8) (ct ad : Bytes) :
    (pullRaw P s m tagv ct ad).res ≠ .panic :=
  Proofs.SecretStream.pullRaw_never_panics P s m tagv ct ad

/-- **counter-model (fix E5 is load-bearing)**: the same statements without the
`ciphertext.len() < ABYTES` guard panic in `ciphertext.len() - ABYTES` for EVERY ciphertext shorter than
17 bytes, with nothing written; for longer ciphertexts the old code is the current code -/
theorem pullRawOld_short_panics (P : Prims) (s : State) (m : Bytes) (tagv : UInt8) (ct ad : Bytes)
    (h : ct.length < 17) : pullRawOld P s m tagv ct ad = ⟨.panic, m, tagv, s⟩ :=
  Proofs.SecretStream.pullRawOld_short_panics P s m tagv ct ad h

theorem pullRawOld_eq_of_long (P : Prims) (s : State) (m : Bytes) (tagv : UInt8) (ct ad : Bytes)
    (h : 17 ≤ ct.length) : pullRawOld P s m tagv ct ad = pullRaw P s m tagv ct ad :=
  Proofs.SecretStream.pullRawOld_eq_of_long P s m tagv ct ad h

/-- **`DryocStream::pull` as written equals the total model** (guard, `len - ABYTES`, `resize`, classic
pull, `Tag::from_bits_retain`), for ciphertexts up to `MESSAGEBYTES_MAX_RAW`; beyond: `Err` -/
theorem objPullCode_eq_objPull (P : Prims) (s : State) (ct ad : Bytes) (h : ct.length ≤ MESSAGEBYTES_MAX_RAW) :
    objPullCode P s ct ad = objPull P s ct ad :=
  Proofs.SecretStream.objPullCode_eq_objPull P s ct ad h

theorem objPullCode_too_long (P : Prims) (s : State) (ct ad : Bytes) (h : MESSAGEBYTES_MAX_RAW < ct.length) :
    objPullCode P s ct ad = (.err, s) :=
  Proofs.SecretStream.objPullCode_too_long P s ct ad h

/-- **`DryocStream::pull` as written never panics** — no hypothesis -/
theorem objPullCode_never_panics (P : Prims) (s : State) (ct ad : Bytes) :
    (objPullCode P s ct ad).1 ≠ .panic :=
  Proofs.SecretStream.objPullCode_never_panics P s ct ad

/-- **counter-model (`Tag::from_bits(tag).expect(..)`, before the `from_bits_retain` fix)**: it panics
exactly on the messages the current code ACCEPTS (authenticator verified) whose tag byte has a bit outside
`MESSAGE | PUSH | REKEY | FINAL = 0b11` — and the stream state has advanced by then -/
theorem objPullOld_panics_iff (P : Prims) (s : State) (ct ad : Bytes) :
    (objPullOld P s ct ad).1 = .panic ↔
      ∃ msg t st, objPullCode P s ct ad = (.ok (msg, t), st) ∧ t &&& 0xFC ≠ 0 := by
  rw [Proofs.SecretStream.objPullOld_eq]
  have hnp := Proofs.SecretStream.objPullCode_never_panics P s ct ad
  rcases hr : objPullCode P s ct ad with ⟨res, st⟩
  rw [hr] at hnp
  cases res with
  | ok v =>
    rcases v with ⟨msg, t⟩
    by_cases ht : t &&& 0xFC = 0
    · simp [ht]
    · simp [ht]
  | err => simp
  | panic => exact absurd rfl hnp

/-- counter-model: `DryocStream::pull` without the length guards panics on every short ciphertext -/
theorem objPullNoGuard_short_panics (P : Prims) (s : State) (ct ad : Bytes) (h : ct.length < 17) :
    objPullNoGuard P s ct ad = (.panic, s) :=
  Proofs.SecretStream.objPullNoGuard_short_panics P s ct ad h

end StreamRaw

section BoxRaw
open DryocVerif.Model.SecretBox

/-- **`DryocSecretBox::from_bytes` / `DryocBox::from_bytes` as written** (guard, `split_at(16)`, `try_from`)
equal the total model on every byte string: `split_at` is in range, `try_from` gets 16 bytes -/
theorem fromBytesRaw_eq (bs : Bytes) : fromBytesRaw bs = fromBytes bs :=
  Proofs.SecretBox.fromBytesRaw_eq bs

theorem fromBytesRaw_never_panics (bs : Bytes) : fromBytesRaw bs ≠ .panic := by
  rw [fromBytesRaw_eq]; exact fromBytes_never_panics bs

/-- counter-model: without `if bytes.len() < MACBYTES` the `split_at` panics on every short input -/
theorem fromBytesNoGuard_short_panics (bs : Bytes) (h : bs.length < 16) : fromBytesNoGuard bs = .panic :=
  Proofs.SecretBox.fromBytesNoGuard_short bs h

/-- **`DryocBox::from_sealed_bytes` as written** (guard, `split_at(48)`, `split_at(32)`, two `try_from`) -/
theorem fromSealedBytesRaw_eq (bs : Bytes) : fromSealedBytesRaw bs = fromSealedBytes bs :=
  Proofs.SecretBox.fromSealedBytesRaw_eq bs

theorem fromSealedBytesRaw_never_panics (bs : Bytes) : fromSealedBytesRaw bs ≠ .panic := by
  rw [fromSealedBytesRaw_eq]; exact fromSealedBytes_never_panics bs

theorem fromSealedBytesNoGuard_short_panics (bs : Bytes) (h : bs.length < 48) :
    fromSealedBytesNoGuard bs = .panic :=
  Proofs.SecretBox.fromSealedBytesNoGuard_short bs h

end BoxRaw

section SignRaw
open DryocVerif.Model.Sign

/-- **`SignedMessage::from_bytes` as written** (guard, `split_at(64)`, `try_from`) -/
theorem signedFromBytesRaw_eq (bs : Bytes) : Model.Sign.fromBytesRaw bs = Model.Sign.fromBytes bs :=
  Proofs.SignRaw.fromBytesRaw_eq bs

theorem signedFromBytesRaw_never_panics (bs : Bytes) : Model.Sign.fromBytesRaw bs ≠ .panic := by
  rw [signedFromBytesRaw_eq]; exact signedFromBytes_never_panics bs

theorem signedFromBytesNoGuard_short_panics (bs : Bytes) (h : bs.length < 64) :
    Model.Sign.fromBytesNoGuard bs = .panic :=
  Proofs.SignRaw.fromBytesNoGuard_short bs h

/-- **`crypto_sign_open` → `crypto_sign_ed25519_open` as written**, with the caller's message buffer `m`:
both pairs of length checks, `split_at(64)`, `try_from(sig).unwrap()`, verification,
`message.copy_from_slice(sm)` — equal to the total model for every buffer, signed message and key.  No caller
fact is needed: a buffer of the wrong length is an `Err` of the function. -/
theorem signOpenRaw_eq (H : Bytes → Bytes) (m sm pk : Bytes) :
    signOpenRaw H m sm pk = signOpen H m.length sm pk :=
  Proofs.SignRaw.signOpenRaw_eq H m sm pk

theorem signOpenRaw_never_panics (H : Bytes → Bytes) (m sm pk : Bytes) : signOpenRaw H m sm pk ≠ .panic := by
  rw [signOpenRaw_eq]; exact C06.signOpen_never_panics H m.length sm pk

/-- counter-models: without the length checks, `split_at(64)` panics on every short input … -/
theorem signOpenNoGuard_short_panics (H : Bytes → Bytes) (m sm pk : Bytes) (h : sm.length < 64) :
    signOpenNoGuard H m sm pk = .panic :=
  Proofs.SignRaw.signOpenNoGuard_short H m sm pk h

/-- … and `copy_from_slice` panics on every VALID signed message if the buffer length is not the message length -/
theorem signOpenNoGuard_wrong_buffer_panics (H : Bytes → Bytes) (m sm pk : Bytes) (h : 64 ≤ sm.length)
    (hv : verifyDetached H (sm.take 64) (sm.drop 64) pk false = true) (hm : m.length ≠ sm.length - 64) :
    signOpenNoGuard H m sm pk = .panic :=
  Proofs.SignRaw.signOpenNoGuard_wrong_buffer H m sm pk h hv hm

end SignRaw

section MacVerify

/-- **`crypto_auth_verify` (HMAC-SHA-512-256) never panics**, for every hash function with 64-byte output,
every received MAC, message and 32-byte key (the API's `[u8; 32]`): the two bounds-checked key loops of
`init` stay in range and the result is `Ok`/`Err` of a comparison with a 32-byte value.  (For a key longer
than 128 bytes — not expressible through the API — the code DOES panic: `hmacVerify_long_key_panics`.) -/
theorem hmacVerify_never_panics (H : Bytes → Bytes) (hH : ∀ x, (H x).length = 64) (mac msg key : Bytes)
    (hk : key.length = 32) :
    Model.Core.hmacVerify H mac msg key ≠ .panic ∧
    ∃ c, c.length = 32 ∧ Model.Core.hmacVerify H mac msg key = if mac = c then .ok () else .err := by
  refine ⟨Proofs.Core.hmacVerify_ne_panic H mac msg key (by omega), ?_⟩
  obtain ⟨c, _, hc, hv⟩ := Proofs.Core.hmac_ok_length H hH key msg (by omega)
  exact ⟨c, hc, hv mac⟩

/-- non-vacuity witness: SHA-512 has 64-byte output is the intended instance; here a toy 64-byte "hash" -/
example : Model.Core.hmacVerify (fun _ => zeros 64) (zeros 32) [1, 2, 3] (zeros 32) = .ok () := by decide
example : Model.Core.hmacVerify (fun _ => zeros 64) (zeros 31) [1, 2, 3] (zeros 32) = .err := by decide

theorem hmacVerify_long_key_panics (H : Bytes → Bytes) (mac msg key : Bytes) (hk : key.length > 128)
    (hH : (H key).length = 64) : Model.Core.hmacVerify H mac msg key = .panic :=
  Proofs.Core.hmacVerify_long_key_panics H mac msg key hk hH

/-- **`crypto_onetimeauth_verify`** returns `Ok(())` exactly for the RFC 8439 Poly1305 tag of the message
(32-byte key), `Err` otherwise, and nothing else -/
theorem onetimeauthVerify_ok_iff (key msg tag : Bytes) (hk : key.length = 32) :
    Model.Poly1305.onetimeauthVerify key msg tag = .ok () ↔ tag = Spec.Poly1305.mac key msg :=
  Proofs.Poly1305.onetimeauthVerify_ok_iff key msg tag hk

theorem onetimeauthVerify_err_iff (key msg tag : Bytes) (hk : key.length = 32) :
    Model.Poly1305.onetimeauthVerify key msg tag = .err ↔ tag ≠ Spec.Poly1305.mac key msg :=
  Proofs.Poly1305.onetimeauthVerify_err_iff key msg tag hk

theorem onetimeauthVerify_never_panics (key msg tag : Bytes) :
    Model.Poly1305.onetimeauthVerify key msg tag ≠ .panic :=
  Proofs.Poly1305.onetimeauthVerify_ne_panic key msg tag

end MacVerify

section PwhashRaw
open DryocVerif.Model.PwhashStr

/-- **`Pwhash::parse_encoded_pwhash` as written**: the four `unwrap()`s of the final checks are explicit
panic branches; each is protected by the `is_none() ||` in front of it -/
theorem parseRaw_eq (s : Str) : parseRaw s = parse s := Proofs.PwhashRaw.parseRaw_eq s

theorem parseRaw_never_panics (s : Str) : parseRaw s ≠ .panic := by
  rw [parseRaw_eq]; exact C10.parse_never_panics s

/-- **`crypto_pwhash_str_needs_rehash` as written** (`t_cost.unwrap()`, `m_cost.unwrap()`) -/
theorem needsRehashRaw_eq (s : Str) (o l : Nat) : needsRehashRaw s o l = needsRehash s o l :=
  Proofs.PwhashRaw.needsRehashRaw_eq s o l

theorem needsRehashRaw_never_panics (s : Str) (o l : Nat) : needsRehashRaw s o l ≠ .panic := by
  rw [needsRehashRaw_eq]; exact C10.needsRehash_never_panics s o l

/-- **`crypto_pwhash_str_verify` as written** (six `unwrap()`s), for any Argon2 -/
theorem strVerifyCode_eq (argon2 : Nat → Nat → Nat → Nat → Bytes → Bytes → Nat → Outcome Bytes)
    (s : Str) (pwd : Bytes) : strVerifyCode argon2 s pwd = strVerify argon2 s pwd :=
  Proofs.PwhashRaw.strVerifyCode_eq argon2 s pwd

/-- **`crypto_pwhash_str_verify` with the project's own Argon2 model plugged in never panics**, for every
string and password, provided the memory cost recorded in the string (if it parses at all) satisfies
`7·(max m 8 / 4) < 2^32 + 3`, i.e. `m ≲ 2.45·10^9` KiB ≈ 2.28 TiB — the documented limit of the `u32` index
arithmetic of `index_alpha` ("bounded cost parameters"; beyond it `C09.index_alpha_overflow_witness` shows an
overflow).  This replaces the uninstantiated hypothesis `hA` of `strVerify_never_panics`, which the Argon2
model does not satisfy for all parameters.  Everything else an attacker can put into the string — `t = 0`,
`m < 8`, a salt shorter than 8 bytes, a hash of any length — is an `Err` of `Argon2Context::new`, not a panic. -/
theorem strVerify_argon2_never_panics (s : Str) (pwd : Bytes)
    (hm : ∀ r m, parse s = .ok r → r.m = some m → 7 * (max m 8 / 4) < 2 ^ 32 + 3) :
    strVerify (fun ty t m p pw sa n => Model.Argon2.argon2Hash ty t m p pw sa none none n) s pwd ≠ .panic :=
  Proofs.PwhashRaw.strVerify_argon2_ne_panic s pwd hm

/-- … the same for the code-shaped verify -/
theorem strVerifyCode_argon2_never_panics (s : Str) (pwd : Bytes)
    (hm : ∀ r m, parse s = .ok r → r.m = some m → 7 * (max m 8 / 4) < 2 ^ 32 + 3) :
    strVerifyCode (fun ty t m p pw sa n => Model.Argon2.argon2Hash ty t m p pw sa none none n) s pwd ≠ .panic := by
  rw [strVerifyCode_eq]; exact strVerify_argon2_never_panics s pwd hm

/-- a sufficient condition that needs no parsing: a string that parses has `m < 2^32` anyway, so it is enough
that `m`, whatever it is, is at most 2^31 (2 TiB) -/
theorem strVerify_argon2_never_panics_of_le (s : Str) (pwd : Bytes)
    (hm : ∀ r m, parse s = .ok r → r.m = some m → m ≤ 2 ^ 31) :
    strVerify (fun ty t m p pw sa n => Model.Argon2.argon2Hash ty t m p pw sa none none n) s pwd ≠ .panic := by
  apply strVerify_argon2_never_panics
  intro r m hp hr
  have := hm r m hp hr
  omega

/-- non-vacuity witness for `hm`: the libsodium INTERACTIVE string shape (`m = 65536`, `t = 2`) -/
example : ∀ r m, parse (encode .argon2id 2 65536 (zeros 16) (zeros 32)) = .ok r → r.m = some m →
    7 * (max m 8 / 4) < 2 ^ 32 + 3 := by
  intro r m hp hr
  rw [C10.parse_encode .argon2id 2 65536 (zeros 16) (zeros 32) (by decide) (by decide) (by decide) (by decide)] at hp
  cases hp
  cases hr
  decide

/-- … and for strings that do not parse `hm` holds trivially and the result is `Err` -/
example : strVerify (fun ty t m p pw sa n => Model.Argon2.argon2Hash ty t m p pw sa none none n)
    "$argon2x$v=19$m=1,t=1,p=1$AA$AA".toList [1, 2, 3] = .err := by decide

end PwhashRaw

section SerdeRaw
open DryocVerif.Model.Encoding

/-- **the fixed-length serde visitors as written** (`StackByteArray<N>`, `Locked<HeapByteArray<N>>`):
`arr[idx] = elem` and `idx += 1` are checked operations, `visit_bytes` ends in `copy_from_slice`; equal to the
total model for every encoding.  `N < 2^64` is a fact about the type (`const LENGTH: usize`). -/
theorem deFixedRaw_eq (n : Nat) (hn : n < 2 ^ 64) (enc : Enc) : deFixedRaw n enc = deFixed n enc :=
  Proofs.EncodingRaw.deFixedRaw_eq n hn enc

theorem deFixedRaw_never_panics (n : Nat) (hn : n < 2 ^ 64) (enc : Enc) : deFixedRaw n enc ≠ .panic := by
  rw [deFixedRaw_eq n hn]; exact C16.deFixed_never_panics n enc

/-- **the resizable serde visitors as written** (`HeapBytes`, `LockedBytes`): `resize(idx + 1, 0); arr[idx] = elem`,
for every encoding with fewer than 2^64 elements (more do not fit a `Vec`) -/
theorem deHeapRaw_eq (enc : Enc) (h : enc.payload.length < 2 ^ 64) : deHeapRaw enc = deHeap enc :=
  Proofs.EncodingRaw.deHeapRaw_eq enc h

theorem deHeapRaw_never_panics (enc : Enc) (h : enc.payload.length < 2 ^ 64) : deHeapRaw enc ≠ .panic := by
  rw [deHeapRaw_eq enc h]; exact deHeap_never_panics enc

/-- non-vacuity witnesses, and the counter-models: a 3-element sequence into a 2-byte array is an `Err`; without
the `idx >= LENGTH` check `arr[2] = elem` panics; the heap visitor before its fix indexed past the end on the
second element of a JSON array (no size hint) -/
example : deFixedRaw 2 (.seq [1, 2]) = .ok [1, 2] ∧ deFixedRaw 2 (.seq [1, 2, 3]) = .err ∧
    deFixedNoGuard 2 (.seq [1, 2, 3]) = .panic ∧ deFixedNoGuard 2 (.bytes [1, 2, 3]) = .panic := by decide
example : deHeapRaw (.seq [1, 2, 3]) = .ok [1, 2, 3] ∧ deHeapOld none (.seq [1, 2, 3]) = .panic ∧
    deHeapOld none (.seq []) = .ok [0] := by decide

end SerdeRaw

/-! ## witnesses: one per family (all by kernel evaluation) -/

section Witnesses
open DryocVerif.Model.SecretStream DryocVerif.Proofs.SecretStream

/-- a 3-byte "ciphertext": the current code rejects it, the code before fix E5 panics -/
example : pullRaw toyPrims toyState (zeros 8) 7 [1, 2, 3] [] = ⟨.err, zeros 8, 7, toyState⟩ := by decide
example : pullRawOld toyPrims toyState (zeros 8) 7 [1, 2, 3] [] = ⟨.panic, zeros 8, 7, toyState⟩ := by decide
example : objPullCode toyPrims toyState [] [] = (.err, toyState) := by decide
example : objPullNoGuard toyPrims toyState [] [] = (.panic, toyState) := by decide

/-- an AUTHENTIC message (produced by `DryocStream::push`) with tag byte 0xff: the current `pull`, code-shaped
and total, returns it with the tag retained; the `from_bits(..).expect` version panics after advancing the state -/
example : (toyPushed 0xff).1 = [164, 29, 30, 31, 32, 26, 0, 0, 0, 0, 0, 0, 0, 0, 0, 0, 0, 0, 0, 0] := by decide
example : objPullCode toyPrims toyState (toyPushed 0xff).1 [] = (.ok ([0x41, 0x42, 0x43], 0xff), (toyPushed 0xff).2) := by
  decide
example : objPull toyPrims toyState (toyPushed 0xff).1 [] = (.ok ([0x41, 0x42, 0x43], 0xff), (toyPushed 0xff).2) := by
  decide
example : objPullOld toyPrims toyState (toyPushed 0xff).1 [] = (.panic, (toyPushed 0xff).2) := by decide
example : (toyPushed 0xff).2 ≠ toyState := by decide
/-- with a named tag (`FINAL = 3`) the old code agreed with the current one -/
example : objPullOld toyPrims toyState (toyPushed 3).1 [] = (.ok ([0x41, 0x42, 0x43], 3), (toyPushed 3).2) := by decide
/-- a tampered ciphertext byte, and a too small message buffer in the classic form: `Err`, nothing changes -/
example : objPullCode toyPrims toyState ((toyPushed 0xff).1.set 2 0) [] = (.err, toyState) := by decide
example : pullRaw toyPrims toyState [0, 0] 7 (toyPushed 0xff).1 [] = ⟨.err, [0, 0], 7, toyState⟩ := by decide

open DryocVerif.Model.SecretBox in
example : fromBytesRaw (zeros 15) = .err ∧ fromBytesNoGuard (zeros 15) = .panic ∧
    fromBytesRaw (zeros 16 ++ [7]) = .ok ⟨none, zeros 16, [7]⟩ := by decide
open DryocVerif.Model.SecretBox in
example : fromSealedBytesRaw (zeros 47) = .err ∧ fromSealedBytesNoGuard (zeros 47) = .panic ∧
    fromSealedBytesRaw (zeros 32 ++ List.replicate 16 1 ++ [7]) = .ok ⟨some (zeros 32), List.replicate 16 1, [7]⟩ := by
  decide
example : Model.Sign.fromBytesRaw (zeros 63) = .err ∧ Model.Sign.fromBytesNoGuard (zeros 63) = .panic := by decide

open DryocVerif.Model.Sign DryocVerif.Proofs.SignVectors in
/-- RFC 8032 TEST 1 (empty message): accepted into an empty buffer; with a 1-byte buffer the current code
answers `Err`, the code without length checks panics in `copy_from_slice` -/
example : signOpenRaw Spec.Sha512.sha512 [] tvSig tvPk = .ok [] ∧
    signOpenRaw Spec.Sha512.sha512 [0] tvSig tvPk = .err ∧
    signOpenNoGuard Spec.Sha512.sha512 [0] tvSig tvPk = .panic := by
  have e1 : tvSig.take 64 = tvSig := by decide
  have e2 : tvSig.drop 64 = [] := by decide
  refine ⟨?_, ?_, ?_⟩
  · rw [Proofs.SignRaw.signOpenRaw_eq]
    unfold signOpen
    rw [if_neg (by decide), if_neg (by decide), e1, e2, tv_verify]
    rfl
  · rw [Proofs.SignRaw.signOpenRaw_eq]
    exact C06.signOpen_wrong_buffer _ _ _ _ (by decide)
  · exact Proofs.SignRaw.signOpenNoGuard_wrong_buffer _ _ _ _ (by decide) (by rw [e1, e2]; exact tv_verify) (by decide)
open DryocVerif.Model.Sign in
example : signOpenRaw (fun _ => []) [] (zeros 10) (zeros 32) = .err ∧
    signOpenNoGuard (fun _ => []) [] (zeros 10) (zeros 32) = .panic := by decide

open DryocVerif.Model.PwhashStr in
/-- malformed password-hash strings: `Err` from the code-shaped parser; with the `is_none()` guards deleted the
first `unwrap()` panics -/
example : parseRaw [] = .err ∧ parseNoGuard [] = .panic := by decide
open DryocVerif.Model.PwhashStr in
example : parseRaw "$argon2id$v=19$m=65536,t=2$AAAAAAAAAAA$AAAA".toList = .err ∧
    parseNoGuard "$argon2id$v=19$m=65536,t=2$AAAAAAAAAAA$AAAA".toList = .panic := by decide
open DryocVerif.Model.PwhashStr in
example : needsRehashRaw "$$$".toList 2 67108864 = .err := by decide

end Witnesses

end DryocVerif.Properties.C04
