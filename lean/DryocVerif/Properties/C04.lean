import DryocVerif.Model.SecretStream
import DryocVerif.Model.SecretBox
import DryocVerif.Proofs.SecretStream
import DryocVerif.Properties.C02
import DryocVerif.Properties.C06
import DryocVerif.Properties.C10
import DryocVerif.Properties.C16
import DryocVerif.Properties.C09
import DryocVerif.Proofs.RawExtra
import DryocVerif.Proofs.StreamPushRawExtra
import DryocVerif.Gen.Stream
import DryocVerif.Proofs.GenStream
import DryocVerif.Proofs.OpenRawExtra
import DryocVerif.Proofs.BoxOpenRawExtra
import DryocVerif.Proofs.PwhashVerifyExtra
import DryocVerif.Proofs.SignVectors
import DryocVerif.Proofs.ObjectViewExtra
import DryocVerif.Proofs.ObjectViewStreamExtra
/-
C04 — no attacker-facing function panics.

Every function that consumes bytes an attacker controls (ciphertexts, sealed boxes, signed messages,
password-hash strings, serialised containers), for ALL inputs and every instantiation of the
primitives, returns `Ok` or `Err`; where a classic (caller-buffer) form CAN panic, the exact
condition is stated (`*_panic_iff`).  That condition is decided before any attacker BYTE is looked at, but it is NOT a
condition on the caller's buffer alone: it is JOINT in the caller's buffer length and the attacker-chosen ciphertext
LENGTH (`openEasy_panic_iff`: `16 ≤ ct.len() ∧ buf.len() < ct.len() − 16`).  A receiver that keeps a FIXED-size message
buffer and passes whatever arrives to `crypto_secretbox_open_easy` / `_open_detached` / `crypto_box_open_easy` /
`_open_detached` / `_open_detached_afternm` can be made to panic by anyone who can send a longer ciphertext
(`*_fixed_buffer_attackable`, corrected after the third review: the sentence used to read "a condition on the CALLER's
buffer only"); such a receiver must compare the lengths itself.  `crypto_box_seal_open` and the stream `pull` return
`Err` in the same situation (`C02.wrong_size_rejected_sealOpen`, `C03.small_buffer_rejected`), and the in-place and
object forms have no separate buffer.

* secretstream `pull` / `push` / `DryocStream`: proved here;
* secretbox / box / sealed box / object layer: re-exported from C02 (statements written out);
* signatures: re-exported from C06; password-hash strings: from C10; serde: from C16.

The models named above (`pull`, `fromBytes`, `signOpen`, `parse`, …) are TOTAL functions on lists (truncated
`ℕ` subtraction, `take`/`drop` behind a copied guard): several of their `…_never_panics` theorems hold by
construction.  The second half of this file ("CODE-SHAPED models") therefore states the property for
`…Raw` models in which every Rust operation that can panic — `a - b`, `a + b`, `x[i]`, `&x[a..b]`,
`split_at`, `copy_from_slice`, `unwrap`/`expect`, `apply_keystream` — is an explicit `Outcome.panic` branch
(`Model/RawOps.lean`, `Model/SecretStreamRaw.lean`, `Model/OpenRaw.lean`), proves `…Raw = total model`
(so no panic branch is reachable, and every theorem about the total model is a theorem about the
code-shaped one), and proves that the same code with a guard deleted DOES panic (`…Old`, `…NoGuard`).

E16, fixed (was: "KNOWN EXCEPTION, latent defect", second review round): the secretstream functions DID panic on
inputs of ≈ 256 GiB.  The old dryoc guard `len > MESSAGEBYTES_MAX = 64·(2^32 − 2)` was 64 bytes more forgiving than the
`chacha20` 0.9.1 / `cipher` 0.4.4 crates, whose `remaining_blocks()` is `u32::MAX − block_pos`: after
`seek(128)` only `64·(2^32 − 3)` key-stream bytes are handed out and `apply_keystream` unwraps the error.
This was demonstrated on the real code with aliased 256 GiB buffers (harness op `stream_huge`: a push of
274877906753 bytes panics), and the source was fixed: both functions now compare the MESSAGE length
(`message.len()`, `ciphertext.len() − ABYTES`) with `KEYSTREAM_MESSAGEBYTES_MAX = MESSAGEBYTES_MAX − 64 =
64·(2^32 − 3)`.  `pullRaw_never_panics`, `objPullCode_never_panics` now hold for ALL inputs, `pushRaw_never_panics` /
`objPushRaw_never_panics` for every message a slice can hold; `pushRaw_err_near_max` / `pullRaw_err_near_max` say what
happens above the limit (`Err`, nothing written).  The Old16 counter-models (`pushRawOld16`, `pullRawOld16`,
`objPushRawOld16`, `objPullCodeOld16`) keep the pre-fix behaviour: `pullRaw_panics_near_max` (47 ciphertext lengths,
authenticator must verify), `pushRaw_panics_near_max` (64 message lengths), `pullRaw_panic_iff` etc. are now statements
about THEM (names kept).  The translated guards of the source (`Gen/Stream.lean`, regenerated on every run) are tied to the
model by `translated_stream_push_guards` / `…_pull_guards` / `…_constants` / `…_push_err_iff` / `…_pull_guard_err`.

NOT COVERED by the never-panic theorems — see the section "OBSERVATION" at the end: the OBJECT API takes its
fixed-length arguments (authenticator, signature, key, nonce) as any `ByteArray<N>`, and `Vec<u8>` / `&[u8]` are
`ByteArray<N>` for every `N` with an `as_array` that ASSERTS `len >= N`.  With such a container a too short
authenticator / signature / key is a PANIC (and a too long one is silently truncated).  The models the theorems
above speak about (`objDecrypt`, `verifyDetached`, `hmacVerify`, `onetimeauthVerify`, …) take the arguments at
their exact length, which is what every container whose TYPE carries the length guarantees.
The same holds for STREAMS (third review): `DryocStream::init_pull(key, header)` / `init_push(key)` take the key and the
header through `as_array` — with a `Vec<u8>` / `&[u8]` a header shorter than 24 or a key shorter than 32 bytes is a PANIC,
longer ones are silently truncated (`objInitPullView_panic_iff`, `objInitPullView_ignores_tail`, `…_exact`;
`Model/ObjectViewStream.lean`); `initState`, the model of the theorems of C03, takes them at their exact length.
A header arrives from the peer, so with a `Vec<u8>` header type this panic is reachable from attacker-controlled bytes
unless the application checks `header.len() == 24` first.
SECOND OBSERVATION (third review): `impl From<u8> for Tag` is `Tag::from_bits(b).expect(..)` and panics for every byte
`b ≥ 4` (`tagFromU8_panic_iff`).  Fix E6 removed that expression from `DryocStream::pull` only.  The CLASSIC `pull`
hands its caller the raw tag byte; an AUTHENTIC message whose sender set a bit outside the four defined tags makes a
caller that converts it with `Tag::from(tag)` panic (`classic_pull_then_tagFrom_panics`).  The conversion is the
caller's act, not an opening function, so no never-panic theorem of this file is contradicted; it is stated so that
they are not read as covering it.
-/
namespace DryocVerif.Properties.C04
open DryocVerif

/-! ## secretstream -/

/-- the classic stream pull never panics, whatever the ciphertext, associated data, buffer and state -/
theorem pull_never_panics (P : Model.SecretStream.Prims) (s : Model.SecretStream.State) (m : Bytes) (tagv : UInt8) (ct ad : Bytes) :
    (Model.SecretStream.pull P s m tagv ct ad).res ≠ .panic := by
  unfold Model.SecretStream.pull
  split <;> try simp
  split <;> try simp
  split <;> simp


/-- `pull` is total with exactly two kinds of result: an error that changes nothing, or `Ok` with the
message length `ct.len() - 17` -/
theorem pull_err_or_ok (P : Model.SecretStream.Prims) (s : Model.SecretStream.State) (m : Bytes) (tagv : UInt8) (ct ad : Bytes) :
    Model.SecretStream.pull P s m tagv ct ad = ⟨.err, m, tagv, s⟩ ∨
    (17 ≤ ct.length ∧ ct.length - 17 ≤ m.length ∧
      (Model.SecretStream.pull P s m tagv ct ad).res = .ok (ct.length - 17)) := by
  rw [Proofs.SecretStream.pull_eq]
  split; · exact Or.inl rfl
  split; · exact Or.inl rfl
  split; · exact Or.inl rfl
  exact Or.inr ⟨by omega, by omega, rfl⟩

/-- the TOTAL MODEL of the classic stream push never panics: wrong buffer size is an error, everything else
succeeds.  True by totalisation (the model has no length limit); for the code as written see
`pushRaw_never_panics` (any message a slice can hold) and `pushRaw_err_near_max` (above `64·(2^32 − 3)` bytes: `Err`). -/
theorem push_never_panics (P : Model.SecretStream.Prims) (s : Model.SecretStream.State) (ctLen : Nat) (m ad : Bytes) (tag : UInt8) :
    Model.SecretStream.push P s ctLen m ad tag ≠ .panic ∧
    (Model.SecretStream.push P s ctLen m ad tag = .err ↔ ctLen ≠ m.length + 17) := by
  unfold Model.SecretStream.push Model.SecretStream.ABYTES
  split <;> simp_all

/-- the TOTAL MODEL of `DryocStream::push` always succeeds (by totalisation; for the code as written see
`objPushRaw_eq_objPush`, which needs `message.len() ≤ 64·(2^32 − 3)`, `objPushRaw_err_near_max` above that, and
`objPushRaw_never_panics`) -/
theorem objPush_ok (P : Model.SecretStream.Prims) (s : Model.SecretStream.State) (m ad : Bytes) (tag : UInt8) :
    ∃ c s', Model.SecretStream.objPush P s m ad tag = .ok (c, s') :=
  ⟨_, _, Proofs.SecretStream.push_eq P s m ad tag⟩

/-- `DryocStream::pull` never panics, for every ciphertext (any length, 0 included), AD and state -/
theorem objPull_total (P : Model.SecretStream.Prims) (s : Model.SecretStream.State) (ct ad : Bytes) :
    (Model.SecretStream.objPull P s ct ad).1 ≠ .panic := by
  rcases Proofs.SecretStream.objPull_cases P s ct ad with h | ⟨r, _, _, h⟩ <;> rw [h] <;> simp

/-- … more precisely: it is either `Err` with the state untouched, or `Ok` of exactly what the classic
`pull` wrote into a fresh `ct.len() - 17`-byte buffer, with the classic `pull`'s state -/
theorem objPull_never_panics (P : Model.SecretStream.Prims) (s : Model.SecretStream.State) (ct ad : Bytes) :
    Model.SecretStream.objPull P s ct ad = (.err, s) ∨
    ∃ r, r = Model.SecretStream.pull P s (zeros (ct.length - 17)) 0 ct ad ∧ r.res = .ok (ct.length - 17) ∧
      Model.SecretStream.objPull P s ct ad = (.ok (r.buf, r.tag), r.st) :=
  Proofs.SecretStream.objPull_cases P s ct ad

/-! ## secretbox / box / sealed box: classic forms (re-exported from C02)

The four forms that take a separate message buffer panic (slice bounds) exactly when THAT buffer is
too small for the ciphertext's payload; this is decided before the authenticator is looked at and does
not depend on any ciphertext byte, only on its LENGTH — which the sender chooses: for a fixed buffer there always is
a ciphertext length that panics (`*_fixed_buffer_attackable` below).  In-place and sealed forms cannot panic. -/

section Box
open DryocVerif.Model.SecretBox

theorem openDetachedInplace_never_panics (P : Prims) (data mac n k : Bytes) :
    (openDetachedInplace P data mac n k).res ≠ .panic :=
  C02.openDetachedInplace_never_panics P data mac n k

/-- caller contract of `crypto_secretbox_open_detached`: the message buffer holds the ciphertext -/
theorem openDetached_panic_iff (P : Prims) (buf mac c n k : Bytes) :
    (openDetached P buf mac c n k).res = .panic ↔ buf.length < c.length :=
  C02.openDetached_panic_iff P buf mac c n k

/-- caller contract of `crypto_secretbox_open_easy`: the message buffer holds `ct.len() - 16` bytes
(a ciphertext shorter than 16 bytes is an `Err`, never a panic) -/
theorem openEasy_panic_iff (P : Prims) (buf ct n k : Bytes) :
    (openEasy P buf ct n k).res = .panic ↔ 16 ≤ ct.length ∧ buf.length < ct.length - 16 :=
  C02.openEasy_panic_iff P buf ct n k

/-- … so with a buffer sized as documented no ciphertext makes it panic -/
theorem openEasy_never_panics_sized (P : Prims) (buf ct n k : Bytes) (hbuf : ct.length - 16 ≤ buf.length) :
    (openEasy P buf ct n k).res ≠ .panic := by
  intro h
  have := (C02.openEasy_panic_iff P buf ct n k).mp h
  omega

theorem openDetached_never_panics_sized (P : Prims) (buf mac c n k : Bytes) (hbuf : c.length ≤ buf.length) :
    (openDetached P buf mac c n k).res ≠ .panic := by
  intro h
  have := (C02.openDetached_panic_iff P buf mac c n k).mp h
  omega

theorem openEasyInplace_never_panics (P : Prims) (ct n k : Bytes) :
    (openEasyInplace P ct n k).res ≠ .panic :=
  C02.openEasyInplace_never_panics P ct n k

theorem boxOpenDetachedInplace_never_panics (P : Prims) (data mac n pk sk : Bytes) :
    (boxOpenDetachedInplace P data mac n pk sk).res ≠ .panic :=
  C02.boxOpenDetachedInplace_never_panics P data mac n pk sk

theorem boxOpenDetached_panic_iff (P : Prims) (buf mac c n pk sk : Bytes) :
    (boxOpenDetached P buf mac c n pk sk).res = .panic ↔ buf.length < c.length :=
  C02.boxOpenDetached_panic_iff P buf mac c n pk sk

theorem boxOpenEasy_panic_iff (P : Prims) (buf ct n pk sk : Bytes) :
    (boxOpenEasy P buf ct n pk sk).res = .panic ↔ 16 ≤ ct.length ∧ buf.length < ct.length - 16 :=
  C02.boxOpenEasy_panic_iff P buf ct n pk sk

theorem boxOpenEasy_never_panics_sized (P : Prims) (buf ct n pk sk : Bytes)
    (hbuf : ct.length - 16 ≤ buf.length) : (boxOpenEasy P buf ct n pk sk).res ≠ .panic := by
  intro h
  have := (C02.boxOpenEasy_panic_iff P buf ct n pk sk).mp h
  omega

theorem boxOpenEasyInplace_never_panics (P : Prims) (ct n pk sk : Bytes) :
    (boxOpenEasyInplace P ct n pk sk).res ≠ .panic :=
  C02.boxOpenEasyInplace_never_panics P ct n pk sk

/-- `crypto_box_seal_open`: a message buffer of the wrong size is an `Err`; no panic is possible -/
theorem sealOpen_never_panics (P : Prims) (buf ct rpk rsk : Bytes) :
    (sealOpen P buf ct rpk rsk).res ≠ .panic :=
  C02.sealOpen_never_panics P buf ct rpk rsk

/-! ### a fixed-size message buffer is attackable (third review)

The panic condition of the open forms with a separate buffer is joint in the buffer length and the CIPHERTEXT length.
For every buffer — in particular a receiver's fixed-size one — whoever controls the wire can choose a ciphertext that is
one byte too long for it; the function panics before looking at a single byte of it.  No key is needed. -/

/-- `crypto_secretbox_open_easy`: for EVERY message buffer, nonce and key there is a ciphertext — 17 bytes longer than
the buffer, content irrelevant — on which the function panics -/
theorem openEasy_fixed_buffer_attackable (P : Prims) (buf n k : Bytes) :
    ∃ ct : Bytes, ct.length = buf.length + 17 ∧ (openEasy P buf ct n k).res = .panic :=
  ⟨zeros (buf.length + 17), by simp [zeros],
    (C02.openEasy_panic_iff P buf _ n k).mpr (by simp only [zeros, List.length_replicate]; omega)⟩

/-- … every ciphertext of that length does it (the content is never looked at) -/
theorem openEasy_fixed_buffer_attackable_all (P : Prims) (buf ct n k : Bytes) (h : buf.length + 17 ≤ ct.length) :
    (openEasy P buf ct n k).res = .panic :=
  (C02.openEasy_panic_iff P buf ct n k).mpr (by omega)

/-- `crypto_secretbox_open_detached` (any authenticator): a ciphertext one byte longer than the buffer -/
theorem openDetached_fixed_buffer_attackable (P : Prims) (buf mac n k : Bytes) :
    ∃ c : Bytes, c.length = buf.length + 1 ∧ (openDetached P buf mac c n k).res = .panic :=
  ⟨zeros (buf.length + 1), by simp [zeros],
    (C02.openDetached_panic_iff P buf mac _ n k).mpr (by simp only [zeros, List.length_replicate]; omega)⟩

/-- `crypto_box_open_easy` -/
theorem boxOpenEasy_fixed_buffer_attackable (P : Prims) (buf n pk sk : Bytes) :
    ∃ ct : Bytes, ct.length = buf.length + 17 ∧ (boxOpenEasy P buf ct n pk sk).res = .panic :=
  ⟨zeros (buf.length + 17), by simp [zeros],
    (C02.boxOpenEasy_panic_iff P buf _ n pk sk).mpr (by simp only [zeros, List.length_replicate]; omega)⟩

/-- `crypto_box_open_detached` -/
theorem boxOpenDetached_fixed_buffer_attackable (P : Prims) (buf mac n pk sk : Bytes) :
    ∃ c : Bytes, c.length = buf.length + 1 ∧ (boxOpenDetached P buf mac c n pk sk).res = .panic :=
  ⟨zeros (buf.length + 1), by simp [zeros],
    (C02.boxOpenDetached_panic_iff P buf mac _ n pk sk).mpr (by simp only [zeros, List.length_replicate]; omega)⟩

/-- `crypto_box_open_detached_afternm` (precomputed key) -/
theorem boxOpenDetachedAfternm_fixed_buffer_attackable (P : Prims) (buf mac n k : Bytes) :
    ∃ c : Bytes, c.length = buf.length + 1 ∧ (boxOpenDetachedAfternm P buf mac c n k).res = .panic :=
  ⟨zeros (buf.length + 1), by simp [zeros],
    (C02.boxOpenDetachedAfternm_panic_iff P buf mac _ n k).mpr (by simp only [zeros, List.length_replicate]; omega)⟩

/-- … whereas `crypto_box_seal_open` and the stream `pull` answer the same situation (attacker-chosen length, fixed
buffer) with `Err`: the sealed-box open demands the EXACT buffer size, the stream pull a sufficient one -/
theorem sealOpen_and_pull_fixed_buffer_err (P : Prims) (buf ct rpk rsk : Bytes) (h : buf.length + 48 < ct.length)
    (Q : Model.SecretStream.Prims) (s : Model.SecretStream.State) (tagv : UInt8) (ct' ad : Bytes)
    (h' : buf.length + 17 < ct'.length) :
    sealOpen P buf ct rpk rsk = ⟨.err, buf⟩ ∧ (Model.SecretStream.pull Q s buf tagv ct' ad).res = .err :=
  ⟨C02.wrong_size_rejected_sealOpen P buf ct rpk rsk (by omega),
   C03.small_buffer_rejected Q s buf tagv ct' ad (by omega)⟩

/-- non-vacuity of `sealOpen_and_pull_fixed_buffer_err`: a 3-byte buffer, a 52-byte sealed box, a 21-byte stream
ciphertext -/
example : ([4, 4, 4] : Bytes).length + 48 < (zeros 52).length ∧ ([4, 4, 4] : Bytes).length + 17 < (zeros 21).length := by
  decide

/-- witness (evaluated): a 3-byte buffer and 20 arbitrary bytes -/
example : (openEasy Proofs.SecretBox.toyPrims [4, 4, 4] (List.replicate 20 1) Proofs.SecretBox.toyNonce
    Proofs.SecretBox.toyKey).res = .panic := by decide

/-! ## object layer: parsing and decrypting attacker bytes never panics -/

/-- `DryocSecretBox::from_bytes` -/
theorem fromBytes_never_panics (bs : Bytes) : fromBytes bs ≠ .panic := by
  unfold fromBytes; split <;> simp

/-- `DryocBox::from_sealed_bytes` -/
theorem fromSealedBytes_never_panics (bs : Bytes) : fromSealedBytes bs ≠ .panic := by
  unfold fromSealedBytes; split <;> simp

/-- … and both reject what is shorter than the overhead -/
theorem fromBytes_short (bs : Bytes) (h : bs.length < 16) : fromBytes bs = .err :=
  C02.short_rejected_fromBytes bs h

theorem fromSealedBytes_short (bs : Bytes) (h : bs.length < 48) : fromSealedBytes bs = .err :=
  C02.short_rejected_fromSealedBytes bs h

/-- `DryocSecretBox::decrypt`, for every box (any tag length, any data) -/
theorem objDecrypt_never_panics (P : Prims) (b : Box) (n k : Bytes) : objDecrypt P b n k ≠ .panic :=
  C02.objDecrypt_never_panics P b n k

/-- `DryocBox::decrypt` -/
theorem objBoxDecrypt_never_panics (P : Prims) (b : Box) (n pk sk : Bytes) :
    objBoxDecrypt P b n pk sk ≠ .panic :=
  C02.objDecrypt_never_panics P b n _

/-- `DryocBox::unseal` -/
theorem objUnseal_never_panics (P : Prims) (b : Box) (rpk rsk : Bytes) : objUnseal P b rpk rsk ≠ .panic :=
  C02.objUnseal_never_panics P b rpk rsk

/-- the whole attacker-facing pipeline of the object layer, bytes in, message or `Err` out -/
theorem fromBytes_then_decrypt_never_panics (P : Prims) (bs n k : Bytes) :
    (match fromBytes bs with
     | .ok b => objDecrypt P b n k
     | .err => .err
     | .panic => .panic) ≠ .panic := by
  cases h : fromBytes bs with
  | ok b => exact C02.objDecrypt_never_panics P b n k
  | err => simp
  | panic => exact absurd h (fromBytes_never_panics bs)

theorem fromSealedBytes_then_unseal_never_panics (P : Prims) (bs rpk rsk : Bytes) :
    (match fromSealedBytes bs with
     | .ok b => objUnseal P b rpk rsk
     | .err => .err
     | .panic => .panic) ≠ .panic := by
  cases h : fromSealedBytes bs with
  | ok b => exact C02.objUnseal_never_panics P b rpk rsk
  | err => simp
  | panic => exact absurd h (fromSealedBytes_never_panics bs)

end Box

/-! ## signatures (re-exported from C06)

`verifyDetached` is a `Bool`-valued function of the model (total by construction: `Ok`/`Err` only);
the forms with a caller buffer and the byte parser are: -/

section Sign
open DryocVerif.Model.Sign

/-- `crypto_sign_open` (`n` = length of the caller's message buffer): a wrong buffer size, a short
input or a bad signature is an `Err` -/
theorem signOpen_never_panics (H : Bytes → Bytes) (n : Nat) (sm pk : Bytes) :
    signOpen H n sm pk ≠ .panic :=
  C06.signOpen_never_panics H n sm pk

/-- `SignedMessage::from_bytes` -/
theorem signedFromBytes_never_panics (bs : Bytes) : Model.Sign.fromBytes bs ≠ .panic := by
  unfold Model.Sign.fromBytes; split <;> simp

theorem signedFromBytes_short (bs : Bytes) (h : bs.length < 64) : Model.Sign.fromBytes bs = .err :=
  C06.fromBytes_short bs h

/-- `from_bytes` then `verify`: bytes in, `Bool` out -/
theorem signedFromBytes_then_verify_total (H : Bytes → Bytes) (bs pk : Bytes) :
    (match Model.Sign.fromBytes bs with
     | .ok (sig, m) => Outcome.ok (verifyDetached H sig m pk false)
     | .err => .err
     | .panic => .panic) ≠ .panic := by
  cases h : Model.Sign.fromBytes bs with
  | ok r => simp
  | err => simp
  | panic => exact absurd h (signedFromBytes_never_panics bs)

/-- (the signing side, for completeness) -/
theorem signCombined_never_panics (H : Bytes → Bytes) (n : Nat) (msg sk : Bytes) :
    signCombined H n msg sk ≠ .panic :=
  C06.signCombined_never_panics H n msg sk

end Sign

/-! ## password-hash strings (re-exported from C10): any `&str` -/

section PwhashStr
open DryocVerif.Model.PwhashStr

/-- `Pwhash::parse_encoded_pwhash` -/
theorem parse_never_panics (s : Str) : parse s ≠ .panic := C10.parse_never_panics s

/-- `crypto_pwhash_str_needs_rehash` -/
theorem needsRehash_never_panics (s : Str) (o l : Nat) : needsRehash s o l ≠ .panic :=
  C10.needsRehash_never_panics s o l

/-- `crypto_pwhash_str_verify`, for every Argon2 that does not itself panic -/
theorem strVerify_never_panics
    (argon2 : Nat → Nat → Nat → Nat → Bytes → Bytes → Nat → Outcome Bytes)
    (hA : ∀ ty t m p pwd salt n, argon2 ty t m p pwd salt n ≠ .panic)
    (s : Str) (pwd : Bytes) : strVerify argon2 s pwd ≠ .panic :=
  C10.strVerify_never_panics argon2 hA s pwd

/-- `PwHash::from_string(s).to_string()` -/
theorem reencode_never_panics (s : Str) : reencode s ≠ .panic := C10.reencode_never_panics s

/-- allocation bound: the only heap values the parser produces from attacker text are the two
base64-decoded byte strings, and each holds at most 3/4 of the input string's length (every
`$`-segment is a sub-slice of the input, `splitOn_length`; the costs are `u32`s, `C10.parse_ok_range`) -/
theorem parse_alloc_bound (s : Str) (r : Parsed) (h : parse s = .ok r) :
    (∀ salt, r.salt = some salt → 4 * salt.length ≤ 3 * s.length) ∧
    (∀ hash, r.pwhash = some hash → 4 * hash.length ≤ 3 * s.length) :=
  Model.PwhashStr.parse_ok_alloc h

/-- the segments the parser iterates over are never longer than the input -/
theorem parse_segments_bound (s : Str) : ∀ seg ∈ splitOn '$' s, seg.length ≤ s.length :=
  Model.PwhashStr.splitOn_length '$' s

end PwhashStr

/-! ## serde (re-exported from C16): any sequence or byte-string encoding, any expected length -/

theorem deFixed_never_panics (n : Nat) (enc : Model.Encoding.Enc) : Model.Encoding.deFixed n enc ≠ .panic :=
  C16.deFixed_never_panics n enc

/-- resizable containers: always `Ok` of the payload -/
theorem deHeap_never_panics (enc : Model.Encoding.Enc) : Model.Encoding.deHeap enc ≠ .panic := by
  rw [C16.deHeap_spec]; simp


/-! # CODE-SHAPED models: every panicking Rust operation is an explicit `.panic` branch

Nothing below is true by construction: each `…Raw` function can return `.panic` at every subtraction,
addition, index, slice, `split_at`, `copy_from_slice`, `unwrap` and key-stream request of the Rust source,
and the theorems say that the guards in front of those operations exclude it for ALL inputs. -/

section StreamRaw
open DryocVerif.Model.SecretStream

/-- `STREAM_BODY_MAX = 64·(2^32 − 3)`: the key-stream bytes ChaCha20 0.9.1 hands out after `seek(128)`, and (since
fix E16) the value of `KEYSTREAM_MESSAGEBYTES_MAX`, the bound the dryoc source checks;
`MESSAGEBYTES_MAX_RAW = 64·(2^32 − 2)`: the public constant, the bound the source checked before.  They differ by
one block. -/
theorem stream_bounds : STREAM_BODY_MAX = 274877906752 ∧ MESSAGEBYTES_MAX_RAW = 274877906816 ∧
    MESSAGEBYTES_MAX_RAW = STREAM_BODY_MAX + 64 := by decide

/-- the constant of the fixed source is the crate's limit -/
theorem keystream_messagebytes_max : KEYSTREAM_MESSAGEBYTES_MAX = STREAM_BODY_MAX ∧
    KEYSTREAM_MESSAGEBYTES_MAX = MESSAGEBYTES_MAX - 64 := by decide

/-- the crate's rule, as modelled: `seek(pos); apply_keystream(buf)` at a block boundary panics iff
`buf.len() > 64 · (u32::MAX − pos / 64)` (`check_remaining` counts `ceil(len / 64)` blocks against
`remaining_blocks() = u32::MAX − block_pos`; `apply_keystream` unwraps) -/
theorem keystream_rule (P : Prims) (s : State) (pos len : Nat) :
    keystream P s pos len =
      if 64 * (2 ^ 32 - 1 - pos / 64) < len then .panic else .ok (P.chacha s.k s.nonce (pos / 64) len) :=
  Proofs.SecretStream.keystream_eq P s pos len

/-- **`crypto_secretstream_xchacha20poly1305_pull`, statement by statement, equals the guarded total model, for
EVERY input** — every state, message buffer, tag variable, ciphertext (any length) and associated data: after the
three length guards none of `ciphertext.len() - ABYTES`, `ciphertext[0]`, `1 + mlen`, `&ciphertext[1..1 + mlen]`,
`&ciphertext[1 + mlen..]`, `&_pad0[..n]`, the `size_data` copies, `message[..mlen].copy_from_slice(..)`,
the `i64` padding arithmetic or the three `apply_keystream` calls can fail.  No hypothesis (since fix E16). -/
theorem pullRaw_eq_pullChecked (P : Prims) (s : State) (m : Bytes) (tagv : UInt8) (ct ad : Bytes) :
    pullRaw P s m tagv ct ad = pullChecked P s m tagv ct ad :=
  Proofs.SecretStream.pullRaw_eq_pullChecked P s m tagv ct ad

/-- … and equals the guard-FREE total model `pull` for every ciphertext the third guard lets through
(`ciphertext.len() ≤ 64·(2^32 − 3) + 17`).  The hypothesis is still there only because `pull` has no length guard:
beyond the bound `pullRaw` is an `Err` (`pullRaw_err_near_max`) while `pull` computes.  No hypothesis on the message
buffer is needed, a too small buffer is an `Err` of the function itself.

What this does NOT see (reviewer's note): `pullRawWith` maps every `.err` of the body to the untouched buffers
by construction — the model is written in source order and every `return Err` precedes the first write — so a
mutation moving `*tag = decrypted_tag` in front of the MAC comparison is caught by the differential run of
C17 only, not by this theorem. -/
theorem pullRaw_eq_pull (P : Prims) (s : State) (m : Bytes) (tagv : UInt8) (ct ad : Bytes)
    (h : ct.length ≤ STREAM_BODY_MAX + 17) : pullRaw P s m tagv ct ad = pull P s m tagv ct ad :=
  Proofs.SecretStream.pullRaw_eq_pull P s m tagv ct ad h

/-- **fixed code (E16): the third guard `ciphertext.len() − ABYTES > KEYSTREAM_MESSAGEBYTES_MAX`.**  An over-long
ciphertext — the 47 lengths on which the code before the fix panicked included — is an `Err` that changes nothing
(state, message buffer, tag variable), whatever the buffer size and the authenticator.  It keeps
`cipher.seek(128); cipher.apply_keystream(&mut message[..mlen])` inside the key stream the crate hands out. -/
theorem pullRaw_err_near_max (P : Prims) (s : State) (m : Bytes) (tagv : UInt8) (ct ad : Bytes)
    (h : STREAM_BODY_MAX + 17 < ct.length) : pullRaw P s m tagv ct ad = ⟨.err, m, tagv, s⟩ :=
  Proofs.SecretStream.pullRaw_err_near_max P s m tagv ct ad h

/-- the same under its old name (the hypothesis was `MESSAGEBYTES_MAX_RAW < ct.length`; it is weaker now) -/
theorem pullRaw_too_long (P : Prims) (s : State) (m : Bytes) (tagv : UInt8) (ct ad : Bytes)
    (h : STREAM_BODY_MAX + 17 < ct.length) : pullRaw P s m tagv ct ad = ⟨.err, m, tagv, s⟩ :=
  Proofs.SecretStream.pullRaw_too_long P s m tagv ct ad h

/-- non-vacuity (lengths only): a ciphertext one byte above the limit -/
example : ∃ ct : Bytes, STREAM_BODY_MAX + 17 < ct.length :=
  ⟨List.replicate (STREAM_BODY_MAX + 18) 0, by rw [List.length_replicate]; omega⟩

/-- **the classic `pull` as written never panics**: any primitives, state, buffer (any size, empty included),
ciphertext (ANY length), associated data.  No hypothesis (since fix E16). -/
theorem pullRaw_never_panics (P : Prims) (s : State) (m : Bytes) (tagv : UInt8) (ct ad : Bytes) :
    (pullRaw P s m tagv ct ad).res ≠ .panic :=
  Proofs.SecretStream.pullRaw_never_panics P s m tagv ct ad

/-- kept under its old name: there is no window of lengths to stay out of any more (for the code before the fix:
`pullRawOld16_never_panics_outside_window`) -/
theorem pullRaw_never_panics_outside_window (P : Prims) (s : State) (m : Bytes) (tagv : UInt8) (ct ad : Bytes) :
    (pullRaw P s m tagv ct ad).res ≠ .panic :=
  Proofs.SecretStream.pullRaw_never_panics_outside_window P s m tagv ct ad

/-- pre-fix code (E16): no panic outside the 47-length window.  This was the weakest hypothesis on the length alone. -/
theorem pullRawOld16_never_panics_outside_window (P : Prims) (s : State) (m : Bytes) (tagv : UInt8) (ct ad : Bytes)
    (h : ct.length ≤ STREAM_BODY_MAX + 17 ∨ MESSAGEBYTES_MAX_RAW < ct.length) :
    (pullRawOld16 P s m tagv ct ad).res ≠ .panic :=
  Proofs.SecretStream.pullRawOld16_never_panics_outside_window P s m tagv ct ad h

/-- **pre-fix code (E16) — the defect, about the counter-model `pullRawOld16`** (name kept).  A ciphertext whose
length lies strictly between `64·(2^32 − 3) + 17` and `MESSAGEBYTES_MAX = 64·(2^32 − 2)` (47 lengths), whose
authenticator verifies, pulled into a buffer that is large enough, passed all three guards of the OLD source and
then PANICKED in `cipher.apply_keystream(&mut message[..mlen])` (the `unwrap()` of `StreamCipherError`): ChaCha20
0.9.1 hands out `u32::MAX − 2` blocks after `seek(128)`, the message needs one more.  At that moment `*tag` and a
copy of the (still encrypted) body had been written, the state had not.  Proved from lengths alone — no 256 GiB
list is constructed; the sending-side twin was demonstrated on the real code (harness op `stream_huge`).  The
current code returns `Err` on these inputs: `pullRaw_err_near_max`. -/
theorem pullRaw_panics_near_max (P : Prims) (s : State) (m : Bytes) (tagv : UInt8) (ct ad : Bytes)
    (h1 : STREAM_BODY_MAX + 17 < ct.length) (h2 : ct.length ≤ MESSAGEBYTES_MAX_RAW)
    (hm : ct.length - 17 ≤ m.length)
    (hauth : ct.drop (1 + (ct.length - 17)) = Proofs.SecretStream.pullMac P s ct ad) :
    (pullRawOld16 P s m tagv ct ad).res = .panic ∧ pullRaw P s m tagv ct ad = ⟨.err, m, tagv, s⟩ := by
  rw [Proofs.SecretStream.pullRawOld16_panics_near_max P s m tagv ct ad h1 h2 hm hauth]
  exact ⟨rfl, Proofs.SecretStream.pullRaw_err_near_max P s m tagv ct ad h1⟩

/-- **pre-fix code (E16): exactly when the classic `pull` before the fix panicked** (about `pullRawOld16`; name
kept).  For the current code the left-hand side is never true: `pullRaw_never_panics`. -/
theorem pullRaw_panic_iff (P : Prims) (s : State) (m : Bytes) (tagv : UInt8) (ct ad : Bytes) :
    (pullRawOld16 P s m tagv ct ad).res = .panic ↔
      STREAM_BODY_MAX + 17 < ct.length ∧ ct.length ≤ MESSAGEBYTES_MAX_RAW ∧ ct.length - 17 ≤ m.length ∧
        ct.drop (1 + (ct.length - 17)) = Proofs.SecretStream.pullMac P s ct ad :=
  Proofs.SecretStream.pullRawOld16_panic_iff P s m tagv ct ad

/-- non-vacuity witness for `pullRaw_panics_near_max`, symbolically (lengths only, nothing is evaluated): with
a constant 16-byte "authenticator" the all-zero ciphertext of `MESSAGEBYTES_MAX_RAW` bytes meets every
hypothesis -/
example : ∃ (P : Prims) (s : State) (m ct ad : Bytes),
    STREAM_BODY_MAX + 17 < ct.length ∧ ct.length ≤ MESSAGEBYTES_MAX_RAW ∧ ct.length - 17 ≤ m.length ∧
      ct.drop (1 + (ct.length - 17)) = Proofs.SecretStream.pullMac P s ct ad := by
  refine ⟨⟨fun _ _ _ l => zeros l, fun k _ => k, fun _ _ => zeros 16⟩, ⟨[], []⟩,
    List.replicate MESSAGEBYTES_MAX_RAW 0, List.replicate MESSAGEBYTES_MAX_RAW 0, [], ?_, ?_, ?_, ?_⟩
  · rw [List.length_replicate]; decide
  · rw [List.length_replicate]
  · rw [List.length_replicate]; exact Nat.sub_le _ _
  · rw [List.length_replicate, List.drop_replicate]
    show List.replicate _ 0 = zeros 16
    unfold zeros
    congr 1

/-- what fix E16 changed on the receiving side, exactly: outside the 47-length window the code before the fix is the
current code -/
theorem pullRawOld16_eq_pullRaw (P : Prims) (s : State) (m : Bytes) (tagv : UInt8) (ct ad : Bytes)
    (h : ct.length ≤ STREAM_BODY_MAX + 17 ∨ MESSAGEBYTES_MAX_RAW < ct.length) :
    pullRawOld16 P s m tagv ct ad = pullRaw P s m tagv ct ad :=
  Proofs.SecretStream.pullRawOld16_eq_pullRaw P s m tagv ct ad h

example : ∃ ct : Bytes, ct.length ≤ STREAM_BODY_MAX + 17 ∨ MESSAGEBYTES_MAX_RAW < ct.length := ⟨[], Or.inl (by simp)⟩

/-- **counter-model (fix E5 is load-bearing)**: the same statements without the
`ciphertext.len() < ABYTES` guard panic in `ciphertext.len() - ABYTES` for EVERY ciphertext shorter than
17 bytes, with nothing written; for longer ciphertexts the old code is the current code -/
theorem pullRawOld_short_panics (P : Prims) (s : State) (m : Bytes) (tagv : UInt8) (ct ad : Bytes)
    (h : ct.length < 17) : pullRawOld P s m tagv ct ad = ⟨.panic, m, tagv, s⟩ :=
  Proofs.SecretStream.pullRawOld_short_panics P s m tagv ct ad h

theorem pullRawOld_eq_of_long (P : Prims) (s : State) (m : Bytes) (tagv : UInt8) (ct ad : Bytes)
    (h : 17 ≤ ct.length) : pullRawOld P s m tagv ct ad = pullRaw P s m tagv ct ad :=
  Proofs.SecretStream.pullRawOld_eq_of_long P s m tagv ct ad h

/-- **`crypto_secretstream_xchacha20poly1305_push`, statement by statement, equals the guarded total model** for every
message a slice can hold (`message.len() + 17 < 2^64`; a Rust slice has at most `isize::MAX` bytes), every ciphertext
buffer (content and size; a wrong size is the `Err` of both), AD, tag byte and state: `message.len() + ABYTES`,
`ciphertext[0] = block[0]`, `ciphertext[1..1 + mlen].copy_from_slice(message)`, the three `apply_keystream` calls, the
`size_data` copies, the `i64` padding arithmetic, `&_pad0[0..n]` and the two slice writes of
`mac.finalize(&mut ciphertext[1 + mlen..])` all succeed.  `WF P`: the key stream has the requested length and the
authenticator has 16 bytes.  No bound on the message length (since fix E16). -/
theorem pushRaw_eq_pushChecked (P : Prims) (hP : Proofs.SecretStream.WF P) (s : State) (ct msg ad : Bytes) (tag : UInt8)
    (hm : msg.length + 17 < 2 ^ 64) :
    pushRaw P s ct msg ad tag = pushChecked P s ct.length msg ad tag :=
  Proofs.SecretStream.pushRaw_eq_pushChecked P hP s ct msg ad tag hm

/-- … and equals the guard-FREE total model `push` for every message the length guard lets through (at most
`64·(2^32 − 3)` bytes); the hypothesis is there only because `push` has no length guard -/
theorem pushRaw_eq_push (P : Prims) (hP : Proofs.SecretStream.WF P) (s : State) (ct msg ad : Bytes) (tag : UInt8)
    (h : msg.length ≤ STREAM_BODY_MAX) :
    pushRaw P s ct msg ad tag = push P s ct.length msg ad tag :=
  Proofs.SecretStream.pushRaw_eq_push P hP s ct msg ad tag h

/-- **the classic `push` as written never panics** on any message a slice can hold — no bound on the length other than
`usize` arithmetic (since fix E16; before: `message.len() ≤ 64·(2^32 − 3)`) -/
theorem pushRaw_never_panics (P : Prims) (hP : Proofs.SecretStream.WF P) (s : State) (ct msg ad : Bytes)
    (tag : UInt8) (hm : msg.length + 17 < 2 ^ 64) : pushRaw P s ct msg ad tag ≠ .panic :=
  Proofs.SecretStream.pushRaw_never_panics P hP s ct msg ad tag hm

/-- … and the slice hypothesis is exactly what is needed: the only panic branch of the model that remains reachable
(for LISTS; no Rust slice is that long) is the `usize` overflow of `message.len() + ABYTES`.  For a REAL slice this
branch cannot occur: a Rust slice has `len() ≤ isize::MAX = 2^63 − 1` bytes, so `message.len() + 17 < 2^64` always and
`checkedAdd msg.length ABYTES` never takes its panic branch — the right-hand side describes lists the model allows and
the language does not. -/
theorem pushRaw_panic_iff (P : Prims) (hP : Proofs.SecretStream.WF P) (s : State) (ct msg ad : Bytes) (tag : UInt8) :
    pushRaw P s ct msg ad tag = .panic ↔ 2 ^ 64 ≤ msg.length + 17 :=
  Proofs.SecretStream.pushRaw_panic_iff P hP s ct msg ad tag

example : ∃ msg : Bytes, msg.length + 17 < 2 ^ 64 := ⟨[], by decide⟩
example : ∃ msg : Bytes, 2 ^ 64 ≤ msg.length + 17 := ⟨List.replicate (2 ^ 64) 0, by rw [List.length_replicate]; omega⟩

/-- **fixed code (E16): the length guard `message.len() > KEYSTREAM_MESSAGEBYTES_MAX` of `push`** — a message of more
than `64·(2^32 − 3)` bytes, the 64 lengths on which the code before the fix panicked included, is an `Err`; nothing has
been written (`msg.len() + 17 < 2^64`: a fact about slices) -/
theorem pushRaw_err_near_max (P : Prims) (s : State) (ct msg ad : Bytes) (tag : UInt8)
    (hm : msg.length + 17 < 2 ^ 64) (h : STREAM_BODY_MAX < msg.length) :
    pushRaw P s ct msg ad tag = .err :=
  Proofs.SecretStream.pushRaw_err_near_max P s ct msg ad tag hm h

/-- the same under its old name (the hypothesis was `MESSAGEBYTES_MAX_RAW < msg.length`; it is weaker now) -/
theorem pushRaw_too_long (P : Prims) (s : State) (ct msg ad : Bytes) (tag : UInt8)
    (hm : msg.length + 17 < 2 ^ 64) (h : STREAM_BODY_MAX < msg.length) :
    pushRaw P s ct msg ad tag = .err :=
  Proofs.SecretStream.pushRaw_too_long P s ct msg ad tag hm h

example : ∃ msg : Bytes, msg.length + 17 < 2 ^ 64 ∧ STREAM_BODY_MAX < msg.length :=
  ⟨List.replicate (STREAM_BODY_MAX + 1) 0, by rw [List.length_replicate]; decide, by rw [List.length_replicate]; omega⟩

/-- **pre-fix code (E16) — the defect on the sending side, about the counter-model `pushRawOld16`** (name kept).  For
the 64 message lengths `64·(2^32 − 3) < len ≤ 64·(2^32 − 2)` the classic `push` before the fix, on a buffer of the right
size, passed both guards and PANICKED in `cipher.apply_keystream(&mut ciphertext[1..1 + mlen])` — for every state, AD,
tag byte and message content (no `WF P` needed).  Demonstrated on the real code with aliased 256 GiB buffers (harness
op `stream_huge`: a push of 274877906753 bytes panics).  The current code returns `Err`: second conjunct. -/
theorem pushRaw_panics_near_max (P : Prims) (s : State) (ct msg ad : Bytes) (tag : UInt8)
    (hl : ct.length = msg.length + 17)
    (h1 : STREAM_BODY_MAX < msg.length) (h2 : msg.length ≤ MESSAGEBYTES_MAX_RAW) :
    pushRawOld16 P s ct msg ad tag = .panic ∧ pushRaw P s ct msg ad tag = .err := by
  have hM := Proofs.SecretStream.MESSAGEBYTES_MAX_RAW_eq
  exact ⟨Proofs.SecretStream.pushRawOld16_panics_near_max P s ct msg ad tag hl h1 h2,
    Proofs.SecretStream.pushRaw_err_near_max P s ct msg ad tag (by omega) h1⟩

/-- non-vacuity witness (lengths only) -/
example : ∃ ct msg : Bytes, ct.length = msg.length + 17 ∧ STREAM_BODY_MAX < msg.length ∧
    msg.length ≤ MESSAGEBYTES_MAX_RAW :=
  ⟨List.replicate (MESSAGEBYTES_MAX_RAW + 17) 0, List.replicate MESSAGEBYTES_MAX_RAW 0,
    by simp, by rw [List.length_replicate]; decide, by simp⟩

/-- what fix E16 changed on the sending side, exactly: outside the 64-length window the code before the fix is the
current code -/
theorem pushRawOld16_eq_pushRaw (P : Prims) (hP : Proofs.SecretStream.WF P) (s : State) (ct msg ad : Bytes) (tag : UInt8)
    (h : msg.length ≤ STREAM_BODY_MAX ∨ MESSAGEBYTES_MAX_RAW < msg.length) :
    pushRawOld16 P s ct msg ad tag = pushRaw P s ct msg ad tag :=
  Proofs.SecretStream.pushRawOld16_eq_pushRaw P hP s ct msg ad tag h

/-- **fixed code (E16): `push` and `pull` have the same limit.**  On a buffer of the right size `push` as written returns
`Ok` iff the message has at most `STREAM_BODY_MAX` bytes, and the ciphertext of an accepted push is never rejected by a
LENGTH guard of `pull` as written — `pull` returns the message, the tag byte and the state `push` ended in. -/
theorem push_pull_same_limit (P : Prims) (hP : Proofs.SecretStream.WF P) (s : State) (buf msg ad : Bytes) (tag : UInt8)
    (hb : buf.length = msg.length + 17) :
    ((∃ c s', pushRaw P s buf msg ad tag = .ok (c, s')) ↔ msg.length ≤ STREAM_BODY_MAX) ∧
    (∀ c s', pushRaw P s buf msg ad tag = .ok (c, s') →
      ¬ c.length < 17 ∧ ¬ c.length - 17 > STREAM_BODY_MAX ∧
      ∀ (m : Bytes) (tagv : UInt8), ¬ m.length < c.length - 17 →
        pullRaw P s m tagv c ad = ⟨.ok msg.length, msg ++ m.drop msg.length, tag, s'⟩) :=
  Proofs.SecretStream.push_pull_same_limit P hP s buf msg ad tag hb

/-- **`DryocStream::push` as written** (`resize(len + ABYTES)`, classic push, `?`) equals the guarded total model for every
message a slice can hold, the guard-free one up to the limit, never panics, and is an `Err` above the limit -/
theorem objPushRaw_eq_objPushChecked (P : Prims) (hP : Proofs.SecretStream.WF P) (s : State) (msg ad : Bytes)
    (tag : UInt8) (hm : msg.length + 17 < 2 ^ 64) :
    objPushRaw P s msg ad tag = objPushChecked P s msg ad tag :=
  Proofs.SecretStream.objPushRaw_eq_objPushChecked P hP s msg ad tag hm

theorem objPushRaw_eq_objPush (P : Prims) (hP : Proofs.SecretStream.WF P) (s : State) (msg ad : Bytes) (tag : UInt8)
    (h : msg.length ≤ STREAM_BODY_MAX) : objPushRaw P s msg ad tag = objPush P s msg ad tag :=
  Proofs.SecretStream.objPushRaw_eq_objPush P hP s msg ad tag h

theorem objPushRaw_never_panics (P : Prims) (hP : Proofs.SecretStream.WF P) (s : State) (msg ad : Bytes) (tag : UInt8)
    (hm : msg.length + 17 < 2 ^ 64) : objPushRaw P s msg ad tag ≠ .panic :=
  Proofs.SecretStream.objPushRaw_never_panics P hP s msg ad tag hm

theorem objPushRaw_err_near_max (P : Prims) (s : State) (msg ad : Bytes) (tag : UInt8)
    (hm : msg.length + 17 < 2 ^ 64) (h : STREAM_BODY_MAX < msg.length) :
    objPushRaw P s msg ad tag = .err :=
  Proofs.SecretStream.objPushRaw_err_near_max P s msg ad tag hm h

/-- pre-fix code (E16), about the counter-model `objPushRawOld16` (name kept): `DryocStream::push` panicked in the
64-length window; the current code returns `Err` there -/
theorem objPushRaw_panics_near_max (P : Prims) (s : State) (msg ad : Bytes) (tag : UInt8)
    (h1 : STREAM_BODY_MAX < msg.length) (h2 : msg.length ≤ MESSAGEBYTES_MAX_RAW) :
    objPushRawOld16 P s msg ad tag = .panic ∧ objPushRaw P s msg ad tag = .err := by
  have hM := Proofs.SecretStream.MESSAGEBYTES_MAX_RAW_eq
  exact ⟨Proofs.SecretStream.objPushRawOld16_panics_near_max P s msg ad tag h1 h2,
    Proofs.SecretStream.objPushRaw_err_near_max P s msg ad tag (by omega) h1⟩

/-- **`DryocStream::pull` as written equals the guarded total model, for every ciphertext** (guard, `len - ABYTES`,
`resize`, classic pull on `&mut self.state`, `?`, `Tag::from_bits_retain`).  No hypothesis (since fix E16). -/
theorem objPullCode_eq_objPullChecked (P : Prims) (s : State) (ct ad : Bytes) :
    objPullCode P s ct ad = objPullChecked P s ct ad :=
  Proofs.SecretStream.objPullCode_eq_objPullChecked P s ct ad

/-- … and the guard-FREE total model for ciphertexts up to `64·(2^32 − 3) + 17` bytes (the hypothesis is there only
because `objPull` has no length guard); beyond: `Err` (`objPullCode_too_long`) -/
theorem objPullCode_eq_objPull (P : Prims) (s : State) (ct ad : Bytes) (h : ct.length ≤ STREAM_BODY_MAX + 17) :
    objPullCode P s ct ad = objPull P s ct ad :=
  Proofs.SecretStream.objPullCode_eq_objPull P s ct ad h

/-- … and equals `objPullRaw`, the model function that threads the state through the `?` as the Rust does -/
theorem objPullCode_eq_objPullRaw (P : Prims) (s : State) (ct ad : Bytes) (h : ct.length ≤ STREAM_BODY_MAX + 17) :
    objPullCode P s ct ad = objPullRaw P s ct ad :=
  Proofs.SecretStream.objPullCode_eq_objPullRaw P s ct ad h

/-- fixed code (E16): beyond the limit an `Err`, state untouched (the hypothesis was `MESSAGEBYTES_MAX_RAW < ct.length`;
it is weaker now) -/
theorem objPullCode_too_long (P : Prims) (s : State) (ct ad : Bytes) (h : STREAM_BODY_MAX + 17 < ct.length) :
    objPullCode P s ct ad = (.err, s) :=
  Proofs.SecretStream.objPullCode_too_long P s ct ad h

/-- **`DryocStream::pull` as written never panics** — every ciphertext (any length), AD and state.  No hypothesis
(since fix E16). -/
theorem objPullCode_never_panics (P : Prims) (s : State) (ct ad : Bytes) :
    (objPullCode P s ct ad).1 ≠ .panic :=
  Proofs.SecretStream.objPullCode_never_panics P s ct ad

/-- pre-fix code (E16), about the counter-model `objPullCodeOld16` (name kept): inside the window the object layer
panicked on every ciphertext whose authenticator verifies (state untouched); the current code returns `Err` -/
theorem objPullCode_panics_near_max (P : Prims) (s : State) (ct ad : Bytes)
    (h1 : STREAM_BODY_MAX + 17 < ct.length) (h2 : ct.length ≤ MESSAGEBYTES_MAX_RAW)
    (hauth : ct.drop (1 + (ct.length - 17)) = Proofs.SecretStream.pullMac P s ct ad) :
    objPullCodeOld16 P s ct ad = (.panic, s) ∧ objPullCode P s ct ad = (.err, s) :=
  ⟨Proofs.SecretStream.objPullCodeOld16_panics_near_max P s ct ad h1 h2 hauth,
    Proofs.SecretStream.objPullCode_too_long P s ct ad h1⟩

/-- **counter-model (`Tag::from_bits(tag).expect(..)`, before the `from_bits_retain` fix)**: it panics exactly on the
messages the current code ACCEPTS (authenticator verified) whose tag byte has a bit outside
`MESSAGE | PUSH | REKEY | FINAL = 0b11` — and the stream state has advanced by then.  No length hypothesis (since
fix E16). -/
theorem objPullOld_panics_iff (P : Prims) (s : State) (ct ad : Bytes) :
    (objPullOld P s ct ad).1 = .panic ↔
      ∃ msg t st, objPullCode P s ct ad = (.ok (msg, t), st) ∧ t &&& 0xFC ≠ 0 := by
  rw [Proofs.SecretStream.objPullOld_eq]
  have hnp := Proofs.SecretStream.objPullCode_never_panics P s ct ad
  rcases hr : objPullCode P s ct ad with ⟨res, st⟩
  rw [hr] at hnp
  cases res with
  | ok v =>
    rcases v with ⟨msg, t⟩
    by_cases ht : t &&& 0xFC = 0
    · simp [ht]
    · simp [ht]
  | err => simp
  | panic => exact absurd rfl hnp

/-- counter-model: `DryocStream::pull` without the length guards panics on every short ciphertext -/
theorem objPullNoGuard_short_panics (P : Prims) (s : State) (ct ad : Bytes) (h : ct.length < 17) :
    objPullNoGuard P s ct ad = (.panic, s) :=
  Proofs.SecretStream.objPullNoGuard_short_panics P s ct ad h

/-! ### tie to the source: the guards and constants as translated on every run (`Gen/Stream.lean`) -/

/-- the two guards of `crypto_secretstream_xchacha20poly1305_push` as translated from the source, in source order, are
the ones of `pushRaw`: buffer size, then `message.len() > KEYSTREAM_MESSAGEBYTES_MAX` (= `STREAM_BODY_MAX`) -/
theorem translated_stream_push_guards (ml cl : Nat) :
    Gen.Stream.push_guards ml cl = [decide (cl ≠ ml + 17), decide (ml > STREAM_BODY_MAX)] :=
  Proofs.GenStream.push_guards_eq ml cl

/-- the three guards of `…_pull` as translated, in source order, are the ones of `pullRaw` -/
theorem translated_stream_pull_guards (ml cl : Nat) :
    Gen.Stream.pull_guards ml cl =
      [decide (cl < 17), decide (ml < cl - 17), decide (cl - 17 > STREAM_BODY_MAX)] :=
  Proofs.GenStream.pull_guards_eq ml cl

/-- the constants as translated: `KEYSTREAM_MESSAGEBYTES_MAX` evaluates to the crate's limit, the public
`…_MESSAGEBYTES_MAX` to libsodium's value, 64 more -/
theorem translated_stream_constants :
    Gen.Stream.constants.lookup "KEYSTREAM_MESSAGEBYTES_MAX" = some STREAM_BODY_MAX ∧
    Gen.Stream.constants.lookup "CRYPTO_SECRETSTREAM_XCHACHA20POLY1305_MESSAGEBYTES_MAX" = some MESSAGEBYTES_MAX_RAW :=
  ⟨Proofs.GenStream.constants_eq.1, Proofs.GenStream.constants_eq.2.1⟩

/-- `pushRaw` returns `Err` iff one of the translated guards is true (any message a slice can hold) -/
theorem translated_stream_push_err_iff (P : Prims) (hP : Proofs.SecretStream.WF P) (s : State) (ct msg ad : Bytes)
    (tag : UInt8) (hm : msg.length + 17 < 2 ^ 64) :
    pushRaw P s ct msg ad tag = .err ↔ (Gen.Stream.push_guards msg.length ct.length).any id = true :=
  Proofs.GenStream.pushRaw_err_iff_guard P hP s ct msg ad tag hm

/-- `pullRaw`: a true translated guard is an `Err` with nothing else changed; no true guard: the body (`pull`, where
only the authenticator decides).  Every input. -/
theorem translated_stream_pull_guard_err (P : Prims) (s : State) (m : Bytes) (tagv : UInt8) (ct ad : Bytes) :
    pullRaw P s m tagv ct ad =
      if (Gen.Stream.pull_guards m.length ct.length).any id = true then ⟨.err, m, tagv, s⟩
      else pull P s m tagv ct ad :=
  Proofs.GenStream.pullRaw_length_err_iff_guard P s m tagv ct ad

/-- non-vacuity of the two bridges: no guard true / each guard alone true are all inhabited — small sizes by evaluation, the
limit guards symbolically (lengths only, no list is evaluated) -/
example : (Gen.Stream.push_guards 3 20).any id = false ∧ Gen.Stream.push_guards 3 19 = [true, false] := by decide
example : ∃ msg ct : Bytes, msg.length + 17 < 2 ^ 64 ∧ Gen.Stream.push_guards msg.length ct.length = [false, true] :=
  ⟨List.replicate (STREAM_BODY_MAX + 1) 0, List.replicate (STREAM_BODY_MAX + 1 + 17) 0, by
    rw [List.length_replicate]; decide, by
    rw [List.length_replicate, List.length_replicate]; decide⟩
example : Gen.Stream.pull_guards 8 3 = [true, false, false] ∧ Gen.Stream.pull_guards 2 20 = [false, true, false] ∧
    Gen.Stream.pull_guards 3 20 = [false, false, false] := by decide
example : ∃ m ct : Bytes, Gen.Stream.pull_guards m.length ct.length = [false, false, true] :=
  ⟨List.replicate (STREAM_BODY_MAX + 1) 0, List.replicate (STREAM_BODY_MAX + 1 + 17) 0, by
    rw [List.length_replicate, List.length_replicate]; decide⟩
/-- `pullRaw_eq_pull`, `objPullCode_eq_objPull`, `objPullCode_eq_objPullRaw`, `pushRaw_eq_push`, `objPushRaw_eq_objPush`: the
bound is satisfiable (and so is its negation: the examples after `pullRaw_err_near_max` / `pushRaw_err_near_max`) -/
example : ∃ ct : Bytes, ct.length ≤ STREAM_BODY_MAX + 17 := ⟨[], by simp⟩
example : ∃ msg : Bytes, msg.length ≤ STREAM_BODY_MAX := ⟨[], by simp⟩

end StreamRaw

section BoxRaw
open DryocVerif.Model.SecretBox

/-- **`DryocSecretBox::from_bytes` / `DryocBox::from_bytes` as written** (guard, `split_at(16)`, `try_from`)
equal the total model on every byte string: `split_at` is in range, `try_from` gets 16 bytes -/
theorem fromBytesRaw_eq (bs : Bytes) : fromBytesRaw bs = fromBytes bs :=
  Proofs.SecretBox.fromBytesRaw_eq bs

theorem fromBytesRaw_never_panics (bs : Bytes) : fromBytesRaw bs ≠ .panic := by
  rw [fromBytesRaw_eq]; exact fromBytes_never_panics bs

/-- counter-model: without `if bytes.len() < MACBYTES` the `split_at` panics on every short input -/
theorem fromBytesNoGuard_short_panics (bs : Bytes) (h : bs.length < 16) : fromBytesNoGuard bs = .panic :=
  Proofs.SecretBox.fromBytesNoGuard_short bs h

/-- **`DryocBox::from_sealed_bytes` as written** (guard, `split_at(48)`, `split_at(32)`, two `try_from`) -/
theorem fromSealedBytesRaw_eq (bs : Bytes) : fromSealedBytesRaw bs = fromSealedBytes bs :=
  Proofs.SecretBox.fromSealedBytesRaw_eq bs

theorem fromSealedBytesRaw_never_panics (bs : Bytes) : fromSealedBytesRaw bs ≠ .panic := by
  rw [fromSealedBytesRaw_eq]; exact fromSealedBytes_never_panics bs

theorem fromSealedBytesNoGuard_short_panics (bs : Bytes) (h : bs.length < 48) :
    fromSealedBytesNoGuard bs = .panic :=
  Proofs.SecretBox.fromSealedBytesNoGuard_short bs h

/-! ### the classic opens, statement by statement

`openEasy`, `openEasyInplace`, `boxOpenEasy`, `boxOpenEasyInplace`, `sealOpen` of `Model/SecretBox.lean` (the
functions the theorems of the first half and of C02 / C17 are about) place their `panic` branches by hand.
`openEasyRaw` … `sealOpenRaw` (`Model/OpenRaw.lean`) are built from the checked operations only — `errIf`,
`split_at`, `ByteArray::as_array` (an `assert!`), `&mut message[..ciphertext.len()]`, `copy_from_slice`, the two
XSalsa20 `apply_keystream` calls with the crate's `check_remaining`, `rotate_left`, `len - SEALBYTES`,
`&ciphertext[..32]`, `&ciphertext[32..]` — following the Rust statement by statement through
`crypto_secretbox_open_detached(_inplace)`, `crypto_secretbox_open_verify` and the `crypto_box_open_detached*`
wrappers.  They equal the hand models for every input; the only hypothesis, `ciphertext.len() < 2^64`, is a
fact about slices (it keeps the 2^64-block XSalsa20 key stream from running out). -/

/-- **`crypto_secretbox_open_easy` as written equals the hand model** -/
theorem openEasyRaw_eq (P : Prims) (buf ct n k : Bytes) (hl : ct.length < 2 ^ 64) :
    openEasyRaw P buf ct n k = openEasy P buf ct n k :=
  Proofs.SecretBox.openEasyRaw_eq P buf ct n k hl

/-- … so the one panic of the code as written is the caller's: a message buffer shorter than `ct.len() - 16`
(`&mut message[..ciphertext.len()]`), decided before any ciphertext byte is looked at -/
theorem openEasyRaw_panic_iff (P : Prims) (buf ct n k : Bytes) (hl : ct.length < 2 ^ 64) :
    (openEasyRaw P buf ct n k).res = .panic ↔ 16 ≤ ct.length ∧ buf.length < ct.length - 16 := by
  rw [openEasyRaw_eq P buf ct n k hl]; exact openEasy_panic_iff P buf ct n k

/-- **`crypto_secretbox_open_easy_inplace` as written equals the hand model** and never panics -/
theorem openEasyInplaceRaw_eq (P : Prims) (ct n k : Bytes) (hl : ct.length < 2 ^ 64) :
    openEasyInplaceRaw P ct n k = openEasyInplace P ct n k :=
  Proofs.SecretBox.openEasyInplaceRaw_eq P ct n k hl

theorem openEasyInplaceRaw_never_panics (P : Prims) (ct n k : Bytes) (hl : ct.length < 2 ^ 64) :
    (openEasyInplaceRaw P ct n k).res ≠ .panic := by
  rw [openEasyInplaceRaw_eq P ct n k hl]; exact openEasyInplace_never_panics P ct n k

/-- **`crypto_box_open_easy` as written equals the hand model** -/
theorem boxOpenEasyRaw_eq (P : Prims) (buf ct n pk sk : Bytes) (hl : ct.length < 2 ^ 64) :
    boxOpenEasyRaw P buf ct n pk sk = boxOpenEasy P buf ct n pk sk :=
  Proofs.SecretBox.boxOpenEasyRaw_eq P buf ct n pk sk hl

theorem boxOpenEasyRaw_panic_iff (P : Prims) (buf ct n pk sk : Bytes) (hl : ct.length < 2 ^ 64) :
    (boxOpenEasyRaw P buf ct n pk sk).res = .panic ↔ 16 ≤ ct.length ∧ buf.length < ct.length - 16 := by
  rw [boxOpenEasyRaw_eq P buf ct n pk sk hl]; exact boxOpenEasy_panic_iff P buf ct n pk sk

/-- **`crypto_box_open_easy_inplace` as written equals the hand model** and never panics -/
theorem boxOpenEasyInplaceRaw_eq (P : Prims) (ct n pk sk : Bytes) (hl : ct.length < 2 ^ 64) :
    boxOpenEasyInplaceRaw P ct n pk sk = boxOpenEasyInplace P ct n pk sk :=
  Proofs.SecretBox.boxOpenEasyInplaceRaw_eq P ct n pk sk hl

theorem boxOpenEasyInplaceRaw_never_panics (P : Prims) (ct n pk sk : Bytes) (hl : ct.length < 2 ^ 64) :
    (boxOpenEasyInplaceRaw P ct n pk sk).res ≠ .panic := by
  rw [boxOpenEasyInplaceRaw_eq P ct n pk sk hl]; exact boxOpenEasyInplace_never_panics P ct n pk sk

/-- **`crypto_box_seal_open` as written equals the hand model** and never panics: after the two length checks
`message.len() = ciphertext.len() - 48`, so the buffer slice inside `crypto_secretbox_open_detached` fits -/
theorem sealOpenRaw_eq (P : Prims) (buf ct rpk rsk : Bytes) (hl : ct.length < 2 ^ 64) :
    sealOpenRaw P buf ct rpk rsk = sealOpen P buf ct rpk rsk :=
  Proofs.SecretBox.sealOpenRaw_eq P buf ct rpk rsk hl

theorem sealOpenRaw_never_panics (P : Prims) (buf ct rpk rsk : Bytes) (hl : ct.length < 2 ^ 64) :
    (sealOpenRaw P buf ct rpk rsk).res ≠ .panic := by
  rw [sealOpenRaw_eq P buf ct rpk rsk hl]; exact sealOpen_never_panics P buf ct rpk rsk

/-- the functions the opens go through, as written: `crypto_secretbox_open_detached(_inplace)` -/
theorem openDetachedRaw_eq (P : Prims) (buf mac c n k : Bytes) (hl : c.length < 2 ^ 64) :
    openDetachedRaw P buf mac c n k = openDetached P buf mac c n k :=
  Proofs.SecretBox.openDetachedRaw_eq P buf mac c n k hl

theorem openDetachedInplaceRaw_eq (P : Prims) (data mac n k : Bytes) (hl : data.length < 2 ^ 64) :
    openDetachedInplaceRaw P data mac n k = openDetachedInplace P data mac n k :=
  Proofs.SecretBox.openDetachedInplaceRaw_eq P data mac n k hl

/-- **counter-models (`NoGuard`)**: the same statements with the `ciphertext.len() < MACBYTES` (resp.
`< SEALBYTES`) check deleted panic on EVERY short input — in `split_at(16)`, resp. in
`ciphertext.len() - SEALBYTES` — for every instantiation of the primitives, with nothing written -/
theorem openEasyNoGuard_short_panics (P : Prims) (buf ct n k : Bytes) (h : ct.length < 16) :
    openEasyNoGuard P buf ct n k = ⟨.panic, buf⟩ :=
  Proofs.SecretBox.openEasyNoGuard_short P buf ct n k h

theorem openEasyInplaceNoGuard_short_panics (P : Prims) (ct n k : Bytes) (h : ct.length < 16) :
    openEasyInplaceNoGuard P ct n k = ⟨.panic, ct⟩ :=
  Proofs.SecretBox.openEasyInplaceNoGuard_short P ct n k h

theorem boxOpenEasyNoGuard_short_panics (P : Prims) (buf ct n pk sk : Bytes) (h : ct.length < 16) :
    boxOpenEasyNoGuard P buf ct n pk sk = ⟨.panic, buf⟩ :=
  Proofs.SecretBox.boxOpenEasyNoGuard_short P buf ct n pk sk h

theorem boxOpenEasyInplaceNoGuard_short_panics (P : Prims) (ct n pk sk : Bytes) (h : ct.length < 16) :
    boxOpenEasyInplaceNoGuard P ct n pk sk = ⟨.panic, ct⟩ :=
  Proofs.SecretBox.boxOpenEasyInplaceNoGuard_short P ct n pk sk h

theorem sealOpenNoGuard_short_panics (P : Prims) (buf ct rpk rsk : Bytes) (h : ct.length < 48) :
    sealOpenNoGuard P buf ct rpk rsk = ⟨.panic, buf⟩ :=
  Proofs.SecretBox.sealOpenNoGuard_short P buf ct rpk rsk h

/-- for inputs of at least 16 bytes the guard-free `open_easy` is the current one -/
theorem openEasyNoGuard_eq_of_long (P : Prims) (buf ct n k : Bytes) (h : 16 ≤ ct.length) :
    openEasyNoGuard P buf ct n k = openEasyRaw P buf ct n k :=
  Proofs.SecretBox.openEasyNoGuard_long P buf ct n k h

end BoxRaw

section SignRaw
open DryocVerif.Model.Sign

/-- **`SignedMessage::from_bytes` as written** (guard, `split_at(64)`, `try_from`) -/
theorem signedFromBytesRaw_eq (bs : Bytes) : Model.Sign.fromBytesRaw bs = Model.Sign.fromBytes bs :=
  Proofs.SignRaw.fromBytesRaw_eq bs

theorem signedFromBytesRaw_never_panics (bs : Bytes) : Model.Sign.fromBytesRaw bs ≠ .panic := by
  rw [signedFromBytesRaw_eq]; exact signedFromBytes_never_panics bs

theorem signedFromBytesNoGuard_short_panics (bs : Bytes) (h : bs.length < 64) :
    Model.Sign.fromBytesNoGuard bs = .panic :=
  Proofs.SignRaw.fromBytesNoGuard_short bs h

/-- **`crypto_sign_open` → `crypto_sign_ed25519_open` as written**, with the caller's message buffer `m`:
both pairs of length checks, `split_at(64)`, `try_from(sig).unwrap()`, verification,
`message.copy_from_slice(sm)` — equal to the total model for every buffer, signed message and key.  No caller
fact is needed: a buffer of the wrong length is an `Err` of the function. -/
theorem signOpenRaw_eq (H : Bytes → Bytes) (m sm pk : Bytes) :
    signOpenRaw H m sm pk = signOpen H m.length sm pk :=
  Proofs.SignRaw.signOpenRaw_eq H m sm pk

theorem signOpenRaw_never_panics (H : Bytes → Bytes) (m sm pk : Bytes) : signOpenRaw H m sm pk ≠ .panic := by
  rw [signOpenRaw_eq]; exact C06.signOpen_never_panics H m.length sm pk

/-- counter-models: without the length checks, `split_at(64)` panics on every short input … -/
theorem signOpenNoGuard_short_panics (H : Bytes → Bytes) (m sm pk : Bytes) (h : sm.length < 64) :
    signOpenNoGuard H m sm pk = .panic :=
  Proofs.SignRaw.signOpenNoGuard_short H m sm pk h

/-- … and `copy_from_slice` panics on every VALID signed message if the buffer length is not the message length -/
theorem signOpenNoGuard_wrong_buffer_panics (H : Bytes → Bytes) (m sm pk : Bytes) (h : 64 ≤ sm.length)
    (hv : verifyDetached H (sm.take 64) (sm.drop 64) pk false = true) (hm : m.length ≠ sm.length - 64) :
    signOpenNoGuard H m sm pk = .panic :=
  Proofs.SignRaw.signOpenNoGuard_wrong_buffer H m sm pk h hv hm

end SignRaw

section MacVerify

/-- **`crypto_auth_verify` (HMAC-SHA-512-256) never panics**, for every hash function with 64-byte output,
every received MAC, message and 32-byte key (the API's `[u8; 32]`): the two bounds-checked key loops of
`init` stay in range and the result is `Ok`/`Err` of a comparison with a 32-byte value.  (For a key longer
than 128 bytes — not expressible through the API — the code DOES panic: `hmacVerify_long_key_panics`.) -/
theorem hmacVerify_never_panics (H : Bytes → Bytes) (hH : ∀ x, (H x).length = 64) (mac msg key : Bytes)
    (hk : key.length = 32) :
    Model.Core.hmacVerify H mac msg key ≠ .panic ∧
    ∃ c, c.length = 32 ∧ Model.Core.hmacVerify H mac msg key = if mac = c then .ok () else .err := by
  refine ⟨Proofs.Core.hmacVerify_ne_panic H mac msg key (by omega), ?_⟩
  obtain ⟨c, _, hc, hv⟩ := Proofs.Core.hmac_ok_length H hH key msg (by omega)
  exact ⟨c, hc, hv mac⟩

/-- non-vacuity witness: SHA-512 has 64-byte output is the intended instance; here a toy 64-byte "hash" -/
example : Model.Core.hmacVerify (fun _ => zeros 64) (zeros 32) [1, 2, 3] (zeros 32) = .ok () := by decide
example : Model.Core.hmacVerify (fun _ => zeros 64) (zeros 31) [1, 2, 3] (zeros 32) = .err := by decide

theorem hmacVerify_long_key_panics (H : Bytes → Bytes) (mac msg key : Bytes) (hk : key.length > 128)
    (hH : (H key).length = 64) : Model.Core.hmacVerify H mac msg key = .panic :=
  Proofs.Core.hmacVerify_long_key_panics H mac msg key hk hH

/-- **`crypto_onetimeauth_verify`** returns `Ok(())` exactly for the RFC 8439 Poly1305 tag of the message
(32-byte key), `Err` otherwise, and nothing else -/
theorem onetimeauthVerify_ok_iff (key msg tag : Bytes) (hk : key.length = 32) :
    Model.Poly1305.onetimeauthVerify key msg tag = .ok () ↔ tag = Spec.Poly1305.mac key msg :=
  Proofs.Poly1305.onetimeauthVerify_ok_iff key msg tag hk

theorem onetimeauthVerify_err_iff (key msg tag : Bytes) (hk : key.length = 32) :
    Model.Poly1305.onetimeauthVerify key msg tag = .err ↔ tag ≠ Spec.Poly1305.mac key msg :=
  Proofs.Poly1305.onetimeauthVerify_err_iff key msg tag hk

theorem onetimeauthVerify_never_panics (key msg tag : Bytes) :
    Model.Poly1305.onetimeauthVerify key msg tag ≠ .panic :=
  Proofs.Poly1305.onetimeauthVerify_ne_panic key msg tag

end MacVerify

section PwhashRaw
open DryocVerif.Model.PwhashStr

/-- **`Pwhash::parse_encoded_pwhash` as written**: the four `unwrap()`s of the final checks are explicit
panic branches; each is protected by the `is_none() ||` in front of it -/
theorem parseRaw_eq (s : Str) : parseRaw s = parse s := Proofs.PwhashRaw.parseRaw_eq s

theorem parseRaw_never_panics (s : Str) : parseRaw s ≠ .panic := by
  rw [parseRaw_eq]; exact C10.parse_never_panics s

/-- **`crypto_pwhash_str_needs_rehash` as written** (`t_cost.unwrap()`, `m_cost.unwrap()`) -/
theorem needsRehashRaw_eq (s : Str) (o l : Nat) : needsRehashRaw s o l = needsRehash s o l :=
  Proofs.PwhashRaw.needsRehashRaw_eq s o l

theorem needsRehashRaw_never_panics (s : Str) (o l : Nat) : needsRehashRaw s o l ≠ .panic := by
  rw [needsRehashRaw_eq]; exact C10.needsRehash_never_panics s o l

/-- **`crypto_pwhash_str_verify` as written** (six `unwrap()`s), for any Argon2 -/
theorem strVerifyCode_eq (argon2 : Nat → Nat → Nat → Nat → Bytes → Bytes → Nat → Outcome Bytes)
    (s : Str) (pwd : Bytes) : strVerifyCode argon2 s pwd = strVerify argon2 s pwd :=
  Proofs.PwhashRaw.strVerifyCode_eq argon2 s pwd

/-- **`crypto_pwhash_str_verify` with the project's own Argon2 model plugged in never panics**, for every
string and password, provided the memory cost recorded in the string (if it parses at all) satisfies
`7·(max m 8 / 4) < 2^32 + 3`, i.e. `m ≲ 2.45·10^9` KiB ≈ 2.28 TiB — the documented limit of the `u32` index
arithmetic of `index_alpha` ("bounded cost parameters"; beyond it `C09.index_alpha_overflow_witness` shows an
overflow).  This replaces the uninstantiated hypothesis `hA` of `strVerify_never_panics`, which the Argon2
model does not satisfy for all parameters.  Everything else an attacker can put into the string — `t = 0`,
`m < 8`, a salt shorter than 8 bytes, a hash of any length — is an `Err` of `Argon2Context::new`, not a panic. -/
theorem strVerify_argon2_never_panics (s : Str) (pwd : Bytes)
    (hm : ∀ r m, parse s = .ok r → r.m = some m → 7 * (max m 8 / 4) < 2 ^ 32 + 3) :
    strVerify (fun ty t m p pw sa n => Model.Argon2.argon2Hash ty t m p pw sa none none n) s pwd ≠ .panic :=
  Proofs.PwhashRaw.strVerify_argon2_ne_panic s pwd hm

/-- … the same for the code-shaped verify -/
theorem strVerifyCode_argon2_never_panics (s : Str) (pwd : Bytes)
    (hm : ∀ r m, parse s = .ok r → r.m = some m → 7 * (max m 8 / 4) < 2 ^ 32 + 3) :
    strVerifyCode (fun ty t m p pw sa n => Model.Argon2.argon2Hash ty t m p pw sa none none n) s pwd ≠ .panic := by
  rw [strVerifyCode_eq]; exact strVerify_argon2_never_panics s pwd hm

/-- a sufficient condition that needs no parsing: a string that parses has `m < 2^32` anyway, so it is enough
that `m`, whatever it is, is at most 2^31 (2 TiB) -/
theorem strVerify_argon2_never_panics_of_le (s : Str) (pwd : Bytes)
    (hm : ∀ r m, parse s = .ok r → r.m = some m → m ≤ 2 ^ 31) :
    strVerify (fun ty t m p pw sa n => Model.Argon2.argon2Hash ty t m p pw sa none none n) s pwd ≠ .panic := by
  apply strVerify_argon2_never_panics
  intro r m hp hr
  have := hm r m hp hr
  omega

/-- **`PwHash::from_string(s)?.verify(pwd)` as written (`strVerifyRaw`: parse, five `unwrap()`s, the checked
`1024 * m_cost`, then `crypto_pwhash` with its range checks and `convert_costs`, `hash_length = hash.len()`)
never panics**, for every string and password, under the memory bound of `strVerify_argon2_never_panics` and —
this route only — a decoded hash field shorter than `u32::MAX` bytes.  The reviewer asked for the memory bound
alone; that is FALSE: see `strVerifyRaw_panics_at_max_hash`. -/
theorem strVerifyRaw_never_panics (s : Str) (pwd : Bytes)
    (hm : ∀ r m, parse s = .ok r → r.m = some m → 7 * (max m 8 / 4) < 2 ^ 32 + 3)
    (hh : ∀ r h, parse s = .ok r → r.pwhash = some h → h.length < 0xFFFFFFFF) :
    strVerifyRaw s pwd ≠ .panic :=
  Proofs.PwhashExtra.strVerifyRaw_ne_panic s pwd hm hh

/-- … in particular for every string of at most 2^32 characters (the hash field decodes to at most 3/4 of them) -/
theorem strVerifyRaw_never_panics_of_short (s : Str) (pwd : Bytes)
    (hm : ∀ r m, parse s = .ok r → r.m = some m → 7 * (max m 8 / 4) < 2 ^ 32 + 3)
    (hs : s.length ≤ 2 ^ 32) : strVerifyRaw s pwd ≠ .panic :=
  Proofs.PwhashExtra.strVerifyRaw_ne_panic_of_short s pwd hm hs

/-- **the hash-length bound is necessary (latent defect, theoretical)**: a well-formed string whose hash field
decodes to exactly `u32::MAX` bytes makes `PwHash::from_string(s)?.verify(pwd)` panic in `longhash`
(`assert!(output.len() < u32::MAX)`) after Argon2 has filled the whole memory — `Argon2Context::new` accepts
`outlen = 0xFFFFFFFF`.  Proved symbolically (the string has ≈ 5.7·10^9 characters); `crypto_pwhash_str_verify`
is not affected (fixed 32-byte output). -/
theorem strVerifyRaw_panics_at_max_hash {alg : Alg} {t m : Nat} {pwd salt hash : Bytes}
    (ht : 1 ≤ t) (ht' : t < 2 ^ 32) (hm8 : 8 ≤ m) (hm : m < 2 ^ 32)
    (h7 : 7 * (max m 8 / 4) < 2 ^ 32 + 3)
    (hs : 8 ≤ salt.length) (hs' : salt.length ≤ 0xFFFFFFFF) (hpw : pwd.length ≤ 0xFFFFFFFF)
    (hh : hash.length = 0xFFFFFFFF) :
    strVerifyRaw (encode alg t m salt hash) pwd = .panic :=
  Proofs.PwhashExtra.strVerifyRaw_panics_at_max_hash ht ht' hm8 hm h7 hs hs' hpw hh

/-- non-vacuity witnesses: the hypotheses of `strVerifyRaw_never_panics_of_short` on the INTERACTIVE shape, a
malformed string (trivially, result `Err`), and the hypotheses of `strVerifyRaw_panics_at_max_hash` (lengths
only: a list of `u32::MAX` zero bytes exists as a term, nothing is evaluated) -/
example : (encode .argon2id 2 65536 (zeros 16) (zeros 32)).length ≤ 2 ^ 32 := by decide
example : strVerifyRaw "$argon2x$v=19$m=1,t=1,p=1$AA$AA".toList [1, 2, 3] = .err := by decide
example : ∃ (t m : Nat) (pwd salt hash : Bytes), 1 ≤ t ∧ t < 2 ^ 32 ∧ 8 ≤ m ∧ m < 2 ^ 32 ∧
    7 * (max m 8 / 4) < 2 ^ 32 + 3 ∧ 8 ≤ salt.length ∧ salt.length ≤ 0xFFFFFFFF ∧ pwd.length ≤ 0xFFFFFFFF ∧
    hash.length = 0xFFFFFFFF :=
  ⟨1, 8, [], zeros 16, List.replicate 0xFFFFFFFF 0, by decide, by decide, by decide, by decide, by decide,
    by decide, by decide, by decide, List.length_replicate ..⟩

/-- non-vacuity witness for `hm`: the libsodium INTERACTIVE string shape (`m = 65536`, `t = 2`) -/
example : ∀ r m, parse (encode .argon2id 2 65536 (zeros 16) (zeros 32)) = .ok r → r.m = some m →
    7 * (max m 8 / 4) < 2 ^ 32 + 3 := by
  intro r m hp hr
  rw [C10.parse_encode .argon2id 2 65536 (zeros 16) (zeros 32) (by decide) (by decide) (by decide) (by decide)] at hp
  cases hp
  cases hr
  decide

/-- … and for strings that do not parse `hm` holds trivially and the result is `Err` -/
example : strVerify (fun ty t m p pw sa n => Model.Argon2.argon2Hash ty t m p pw sa none none n)
    "$argon2x$v=19$m=1,t=1,p=1$AA$AA".toList [1, 2, 3] = .err := by decide

end PwhashRaw

section SerdeRaw
open DryocVerif.Model.Encoding

/-- **the fixed-length serde visitors as written** (`StackByteArray<N>`, `Locked<HeapByteArray<N>>`):
`arr[idx] = elem` and `idx += 1` are checked operations, `visit_bytes` ends in `copy_from_slice`; equal to the
total model for every encoding.  `N < 2^64` is a fact about the type (`const LENGTH: usize`). -/
theorem deFixedRaw_eq (n : Nat) (hn : n < 2 ^ 64) (enc : Enc) : deFixedRaw n enc = deFixed n enc :=
  Proofs.EncodingRaw.deFixedRaw_eq n hn enc

theorem deFixedRaw_never_panics (n : Nat) (hn : n < 2 ^ 64) (enc : Enc) : deFixedRaw n enc ≠ .panic := by
  rw [deFixedRaw_eq n hn]; exact C16.deFixed_never_panics n enc

/-- **the resizable serde visitors as written** (`HeapBytes`, `LockedBytes`): `resize(idx + 1, 0); arr[idx] = elem`,
for every encoding with fewer than 2^64 elements (more do not fit a `Vec`) -/
theorem deHeapRaw_eq (enc : Enc) (h : enc.payload.length < 2 ^ 64) : deHeapRaw enc = deHeap enc :=
  Proofs.EncodingRaw.deHeapRaw_eq enc h

theorem deHeapRaw_never_panics (enc : Enc) (h : enc.payload.length < 2 ^ 64) : deHeapRaw enc ≠ .panic := by
  rw [deHeapRaw_eq enc h]; exact deHeap_never_panics enc

/-- non-vacuity witnesses, and the counter-models: a 3-element sequence into a 2-byte array is an `Err`; without
the `idx >= LENGTH` check `arr[2] = elem` panics; the heap visitor before its fix indexed past the end on the
second element of a JSON array (no size hint) -/
example : deFixedRaw 2 (.seq [1, 2]) = .ok [1, 2] ∧ deFixedRaw 2 (.seq [1, 2, 3]) = .err ∧
    deFixedNoGuard 2 (.seq [1, 2, 3]) = .panic ∧ deFixedNoGuard 2 (.bytes [1, 2, 3]) = .panic := by decide
example : deHeapRaw (.seq [1, 2, 3]) = .ok [1, 2, 3] ∧ deHeapOld none (.seq [1, 2, 3]) = .panic ∧
    deHeapOld none (.seq []) = .ok [0] := by decide

end SerdeRaw

/-! ## witnesses: one per family (all by kernel evaluation) -/

section Witnesses
open DryocVerif.Model.SecretStream DryocVerif.Proofs.SecretStream

/-- a 3-byte "ciphertext": the current code rejects it, the code before fix E5 panics -/
example : pullRaw toyPrims toyState (zeros 8) 7 [1, 2, 3] [] = ⟨.err, zeros 8, 7, toyState⟩ := by decide
example : pullRawOld toyPrims toyState (zeros 8) 7 [1, 2, 3] [] = ⟨.panic, zeros 8, 7, toyState⟩ := by decide
example : objPullCode toyPrims toyState [] [] = (.err, toyState) := by decide
example : objPullNoGuard toyPrims toyState [] [] = (.panic, toyState) := by decide

/-- an AUTHENTIC message (produced by `DryocStream::push`) with tag byte 0xff: the current `pull`, code-shaped
and total, returns it with the tag retained; the `from_bits(..).expect` version panics after advancing the state -/
example : (toyPushed 0xff).1 = [164, 29, 30, 31, 32, 26, 0, 0, 0, 0, 0, 0, 0, 0, 0, 0, 0, 0, 0, 0] := by decide
example : objPullCode toyPrims toyState (toyPushed 0xff).1 [] = (.ok ([0x41, 0x42, 0x43], 0xff), (toyPushed 0xff).2) := by
  decide
example : objPull toyPrims toyState (toyPushed 0xff).1 [] = (.ok ([0x41, 0x42, 0x43], 0xff), (toyPushed 0xff).2) := by
  decide
example : objPullOld toyPrims toyState (toyPushed 0xff).1 [] = (.panic, (toyPushed 0xff).2) := by decide
example : (toyPushed 0xff).2 ≠ toyState := by decide
/-- the code-shaped `push` on the same toy instance: the classic form into a 20-byte buffer of garbage and the
object form give the ciphertext and state of the total model; a buffer of the wrong size is an `Err` -/
example : pushRaw toyPrims toyState (List.replicate 20 0xee) [0x41, 0x42, 0x43] [] 0xff = .ok (toyPushed 0xff) := by
  decide
example : objPushRaw toyPrims toyState [0x41, 0x42, 0x43] [] 0xff = .ok (toyPushed 0xff) := by decide
example : pushRaw toyPrims toyState (zeros 19) [0x41, 0x42, 0x43] [] 0xff = .err := by decide
/-- with a named tag (`FINAL = 3`) the old code agreed with the current one -/
example : objPullOld toyPrims toyState (toyPushed 3).1 [] = (.ok ([0x41, 0x42, 0x43], 3), (toyPushed 3).2) := by decide
/-- a tampered ciphertext byte, and a too small message buffer in the classic form: `Err`, nothing changes -/
example : objPullCode toyPrims toyState ((toyPushed 0xff).1.set 2 0) [] = (.err, toyState) := by decide
example : pullRaw toyPrims toyState [0, 0] 7 (toyPushed 0xff).1 [] = ⟨.err, [0, 0], 7, toyState⟩ := by decide

open DryocVerif.Model.SecretBox in
example : fromBytesRaw (zeros 15) = .err ∧ fromBytesNoGuard (zeros 15) = .panic ∧
    fromBytesRaw (zeros 16 ++ [7]) = .ok ⟨none, zeros 16, [7]⟩ := by decide
open DryocVerif.Model.SecretBox DryocVerif.Proofs.SecretBox in
/-- the classic opens on the toy instance of `Proofs/SecretBox.lean` (kernel evaluation): a 15-byte "ciphertext"
is an `Err` of the code as written and a panic without the guard; a sealed toy message opens; a forged one is
an `Err` that leaves the buffer; a too small message buffer is the caller's panic -/
example : openEasyRaw toyPrims [4, 4, 4] (zeros 15) toyNonce toyKey = ⟨.err, [4, 4, 4]⟩ ∧
    openEasyNoGuard toyPrims [4, 4, 4] (zeros 15) toyNonce toyKey = ⟨.panic, [4, 4, 4]⟩ ∧
    openEasyInplaceRaw toyPrims (zeros 15) toyNonce toyKey = ⟨.err, zeros 15⟩ ∧
    openEasyInplaceNoGuard toyPrims (zeros 15) toyNonce toyKey = ⟨.panic, zeros 15⟩ ∧
    boxOpenEasyRaw toyPrims [4] (zeros 15) toyNonce toySpk toyRsk = ⟨.err, [4]⟩ ∧
    boxOpenEasyNoGuard toyPrims [4] (zeros 15) toyNonce toySpk toyRsk = ⟨.panic, [4]⟩ ∧
    boxOpenEasyInplaceNoGuard toyPrims (zeros 15) toyNonce toySpk toyRsk = ⟨.panic, zeros 15⟩ ∧
    sealOpenRaw toyPrims [] (zeros 47) toyRpk toyRsk = ⟨.err, []⟩ ∧
    sealOpenNoGuard toyPrims [] (zeros 47) toyRpk toyRsk = ⟨.panic, []⟩ := by decide

open DryocVerif.Model.SecretBox DryocVerif.Proofs.SecretBox in
example : ∃ c, easy toyPrims (zeros 19) toyMsg toyNonce toyKey = .ok c ∧
    openEasyRaw toyPrims [4, 4, 4] c toyNonce toyKey = ⟨.ok (), toyMsg⟩ ∧
    openEasyInplaceRaw toyPrims c toyNonce toyKey = ⟨.ok (), toyMsg ++ c.take 16⟩ ∧
    openEasyRaw toyPrims [4, 4, 4] (c.set 17 0) toyNonce toyKey = ⟨.err, [4, 4, 4]⟩ ∧
    openEasyRaw toyPrims [4, 4] c toyNonce toyKey = ⟨.panic, [4, 4]⟩ :=
  ⟨_, rfl, by decide, by decide, by decide, by decide⟩

open DryocVerif.Model.SecretBox DryocVerif.Proofs.SecretBox in
example : ∃ c, boxSeal toyPrims (zeros 51) toyMsg toyRpk toyEsk = .ok c ∧
    sealOpenRaw toyPrims [4, 4, 4] c toyRpk toyRsk = ⟨.ok (), toyMsg⟩ ∧
    sealOpenRaw toyPrims [4, 4] c toyRpk toyRsk = ⟨.err, [4, 4]⟩ :=
  ⟨_, rfl, by decide, by decide⟩

open DryocVerif.Model.SecretBox in
example : fromSealedBytesRaw (zeros 47) = .err ∧ fromSealedBytesNoGuard (zeros 47) = .panic ∧
    fromSealedBytesRaw (zeros 32 ++ List.replicate 16 1 ++ [7]) = .ok ⟨some (zeros 32), List.replicate 16 1, [7]⟩ := by
  decide
example : Model.Sign.fromBytesRaw (zeros 63) = .err ∧ Model.Sign.fromBytesNoGuard (zeros 63) = .panic := by decide

open DryocVerif.Model.Sign DryocVerif.Proofs.SignVectors in
/-- RFC 8032 TEST 1 (empty message): accepted into an empty buffer; with a 1-byte buffer the current code
answers `Err`, the code without length checks panics in `copy_from_slice` -/
example : signOpenRaw Spec.Sha512.sha512 [] tvSig tvPk = .ok [] ∧
    signOpenRaw Spec.Sha512.sha512 [0] tvSig tvPk = .err ∧
    signOpenNoGuard Spec.Sha512.sha512 [0] tvSig tvPk = .panic := by
  have e1 : tvSig.take 64 = tvSig := by decide
  have e2 : tvSig.drop 64 = [] := by decide
  refine ⟨?_, ?_, ?_⟩
  · rw [Proofs.SignRaw.signOpenRaw_eq]
    unfold signOpen
    rw [if_neg (by decide), if_neg (by decide), e1, e2, tv_verify]
    rfl
  · rw [Proofs.SignRaw.signOpenRaw_eq]
    exact C06.signOpen_wrong_buffer _ _ _ _ (by decide)
  · exact Proofs.SignRaw.signOpenNoGuard_wrong_buffer _ _ _ _ (by decide) (by rw [e1, e2]; exact tv_verify) (by decide)
open DryocVerif.Model.Sign in
example : signOpenRaw (fun _ => []) [] (zeros 10) (zeros 32) = .err ∧
    signOpenNoGuard (fun _ => []) [] (zeros 10) (zeros 32) = .panic := by decide

open DryocVerif.Model.PwhashStr in
/-- malformed password-hash strings: `Err` from the code-shaped parser; with the `is_none()` guards deleted the
first `unwrap()` panics -/
example : parseRaw [] = .err ∧ parseNoGuard [] = .panic := by decide
open DryocVerif.Model.PwhashStr in
example : parseRaw "$argon2id$v=19$m=65536,t=2$AAAAAAAAAAA$AAAA".toList = .err ∧
    parseNoGuard "$argon2id$v=19$m=65536,t=2$AAAAAAAAAAA$AAAA".toList = .panic := by decide
open DryocVerif.Model.PwhashStr in
example : needsRehashRaw "$$$".toList 2 67108864 = .err := by decide

end Witnesses

/-! # OBSERVATION: the object API with a variable-length container in a fixed-length position

This section is an OBSERVATION about the code, stated with exact `iff`s so that the `…_never_panics` theorems above
cannot be read as covering it.  It is not a never-panic theorem and it is not a defect claim.

`impl ByteArray<N> for Vec<u8>` (/repo/src/types.rs:151; the same for `&[u8]` :337 and `[u8]` :351):

    fn as_array(&self) -> &[u8; N] { assert!(self.len() >= N, …); &*(self.as_ptr() as *const [u8; N]) }

Every object-API entry point takes its fixed-length arguments through `as_array` (`Model.ArrayView.asArray`,
`Model/ObjectView.lean`).  Hence, when the caller instantiates the type parameter with `Vec<u8>` / `&[u8]`:
the object API PANICS on a too-short authenticator, signature, tag, nonce or key, and looks only at the first `N`
bytes of a too-long one.  This is a documented caller contract of `ByteArray<N> for Vec<u8>` ("Panics if …"), not
an attacker-reachable path when the container type carries the length (`[u8; N]`, `StackByteArray<N>`,
`HeapByteArray<N>`, `Locked<…>`: there `as_array` is the identity and the models of the sections above apply
unchanged, `objectView_exact`).  It DOES become reachable from attacker-controlled bytes when an application
deserialises or `from_parts`-builds a `DryocSecretBox<Vec<u8>, _>` / `SignedMessage<Vec<u8>, _>` (serde's `Vec<u8>`
visitor has no length check: C16 `vecTag_short_decodes_then_decrypt_panics`) or passes a received MAC as `&Vec<u8>`
to `Auth::verify` / `OnetimeAuth::verify` without checking its length first. -/

section ObjectViewObservation
open DryocVerif.Model.ObjectView DryocVerif.Model.SecretBox

/-- **`SignedMessage::verify` (sign.rs) with variable-length containers.**  It panics IFF the signature container
holds fewer than 64 bytes or the public-key container fewer than 32; it returns `Ok(())` IFF both are long enough
and the FIRST 64 / 32 bytes are accepted by `crypto_sign_verify_detached`; `Err` in the remaining case. -/
theorem objVerifyMessage_cases (H : Bytes → Bytes) (sig msg pk : Bytes) :
    (objVerifyMessage H sig msg pk = .panic ↔ sig.length < 64 ∨ pk.length < 32) ∧
    (objVerifyMessage H sig msg pk = .ok () ↔
      64 ≤ sig.length ∧ 32 ≤ pk.length ∧
        Model.Sign.verifyDetached H (sig.take 64) msg (pk.take 32) false = true) ∧
    (objVerifyMessage H sig msg pk = .err ↔
      64 ≤ sig.length ∧ 32 ≤ pk.length ∧
        Model.Sign.verifyDetached H (sig.take 64) msg (pk.take 32) false = false) :=
  Proofs.ObjectViewExtra.objVerifyMessage_cases H sig msg pk

/-- `IncrementalSigner::verify(signature, public_key)` likewise (Ed25519ph over the hashed chunks) -/
theorem objVerifyIncremental_cases (H : Bytes → Bytes) (cs : List Bytes) (sig pk : Bytes) :
    (objVerifyIncremental H cs sig pk = .panic ↔ sig.length < 64 ∨ pk.length < 32) ∧
    (objVerifyIncremental H cs sig pk = .ok () ↔
      64 ≤ sig.length ∧ 32 ≤ pk.length ∧
        Model.Sign.verifyDetached H (sig.take 64) (H cs.flatten) (pk.take 32) true = true) :=
  Proofs.ObjectViewExtra.objVerifyIncremental_cases H cs sig pk

/-- relation to the total model used in C06 / C16: with exact lengths the code-shaped function is
`Model.Sign.verifyMessage`; in general `verifyMessage` is MORE FORGIVING than the code — whenever it says `true`
the code says `Ok`, but on a wrong length it says `false` where the code panics or inspects a prefix -/
theorem objVerifyMessage_vs_verifyMessage (H : Bytes → Bytes) (sig msg pk : Bytes) :
    (sig.length = 64 → pk.length = 32 →
      objVerifyMessage H sig msg pk = if Model.Sign.verifyMessage H (sig, msg) pk = true then .ok () else .err) ∧
    (Model.Sign.verifyMessage H (sig, msg) pk = true → objVerifyMessage H sig msg pk = .ok ()) :=
  ⟨Proofs.ObjectViewExtra.objVerifyMessage_exact H sig msg pk,
    Proofs.ObjectViewExtra.verifyMessage_true_imp_obj H sig msg pk⟩

/-- the difference is real (RFC 8032 TEST 1): a 65-byte `Vec` starting with the valid signature is `Ok` for the
code and `false` for the total model; a 63-byte one is a panic for the code and `false` for the total model -/
example : objVerifyMessage Spec.Sha512.sha512 (Proofs.SignVectors.tvSig ++ [0]) [] Proofs.SignVectors.tvPk = .ok () ∧
    Model.Sign.verifyMessage Spec.Sha512.sha512 (Proofs.SignVectors.tvSig ++ [0], []) Proofs.SignVectors.tvPk = false ∧
    objVerifyMessage Spec.Sha512.sha512 (Proofs.SignVectors.tvSig.take 63) [] Proofs.SignVectors.tvPk = .panic ∧
    Model.Sign.verifyMessage Spec.Sha512.sha512 (Proofs.SignVectors.tvSig.take 63, []) Proofs.SignVectors.tvPk = false := by
  refine ⟨?_, ?_, ?_, ?_⟩
  · rw [(objVerifyMessage_cases _ _ _ _).2.1]
    have e1 : (Proofs.SignVectors.tvSig ++ [0]).take 64 = Proofs.SignVectors.tvSig := by decide
    have e2 : Proofs.SignVectors.tvPk.take 32 = Proofs.SignVectors.tvPk := by decide
    rw [e1, e2]
    exact ⟨by decide, by decide, Proofs.SignVectors.tv_verify⟩
  · exact C06.wrong_length_rejected _ _ _ _ _ (Or.inl (by decide))
  · exact (objVerifyMessage_cases _ _ _ _).1.2 (Or.inl (by decide))
  · exact C06.wrong_length_rejected _ _ _ _ _ (Or.inl (by decide))

/-- **`Auth::new(key)`, `update`…, `verify(tag)` (auth.rs).**  The KEY goes through `as_array` in `new`, the TAG in
`verify`: a panic IFF the key container holds fewer than 32 bytes or the tag container fewer than 32; `Ok(())` IFF
both are long enough and the first 32 bytes of the tag are HMAC-SHA-512-256 of the chunks under the first 32 bytes
of the key. -/
theorem authObjectVerify_cases (key : Bytes) (cs : List Bytes) (tag : Bytes) :
    (authObjectVerify Spec.Sha512.sha512 key cs tag = .panic ↔ key.length < 32 ∨ tag.length < 32) ∧
    (authObjectVerify Spec.Sha512.sha512 key cs tag = .ok () ↔
      32 ≤ key.length ∧ 32 ≤ tag.length ∧
        tag.take 32 = Spec.Hmac.hmacSha512256 (key.take 32) cs.flatten) :=
  Proofs.ObjectViewExtra.authObjectVerify_cases key cs tag

/-- `Auth::compute_and_verify(other_mac, key, input)` -/
theorem authComputeAndVerify_cases (tag key msg : Bytes) :
    (authComputeAndVerify Spec.Sha512.sha512 tag key msg = .panic ↔ tag.length < 32 ∨ key.length < 32) ∧
    (authComputeAndVerify Spec.Sha512.sha512 tag key msg = .ok () ↔
      32 ≤ tag.length ∧ 32 ≤ key.length ∧ tag.take 32 = Spec.Hmac.hmacSha512256 (key.take 32) msg) :=
  Proofs.ObjectViewExtra.authComputeAndVerify_cases tag key msg

/-- **`OnetimeAuth::new(key)`, `update`…, `verify(tag)` (onetimeauth.rs)**, key (32) and tag (16) both viewed -/
theorem onetimeObjectVerify_cases (key : Bytes) (cs : List Bytes) (tag : Bytes) :
    (onetimeObjectVerify key cs tag = .panic ↔ key.length < 32 ∨ tag.length < 16) ∧
    (onetimeObjectVerify key cs tag = .ok () ↔
      32 ≤ key.length ∧ 16 ≤ tag.length ∧ tag.take 16 = Spec.Poly1305.mac (key.take 32) cs.flatten) :=
  Proofs.ObjectViewExtra.onetimeObjectVerify_cases key cs tag

/-- `OnetimeAuth::compute_and_verify(other_mac, key, input)` -/
theorem onetimeComputeAndVerify_cases (tag key msg : Bytes) :
    (onetimeComputeAndVerify tag key msg = .panic ↔ tag.length < 16 ∨ key.length < 32) ∧
    (onetimeComputeAndVerify tag key msg = .ok () ↔
      16 ≤ tag.length ∧ 32 ≤ key.length ∧ tag.take 16 = Spec.Poly1305.mac (key.take 32) msg) :=
  Proofs.ObjectViewExtra.onetimeComputeAndVerify_cases tag key msg

/-- **`DryocSecretBox::decrypt` (dryocsecretbox.rs)** with a tag / nonce / key container of another length (the tag
of a `DryocSecretBox<Vec<u8>, _>` comes from serde or `from_parts`): a panic IFF one of them is too short; otherwise
the call IS `objDecrypt` (which never panics, `objDecrypt_never_panics`) on the 16 / 24 / 32-byte prefixes. -/
theorem objDecryptView_cases (P : Prims) (b : Box) (nonce key : Bytes) :
    (objDecryptView P b nonce key = .panic ↔ b.tag.length < 16 ∨ nonce.length < 24 ∨ key.length < 32) ∧
    (¬ (b.tag.length < 16 ∨ nonce.length < 24 ∨ key.length < 32) →
      objDecryptView P b nonce key
        = objDecrypt P { b with tag := b.tag.take 16 } (nonce.take 24) (key.take 32)) :=
  Proofs.ObjectViewExtra.objDecryptView_cases P b nonce key

/-- **`DryocBox::decrypt` (dryocbox.rs)** -/
theorem objBoxDecryptView_cases (P : Prims) (b : Box) (nonce pk sk : Bytes) :
    (objBoxDecryptView P b nonce pk sk = .panic ↔
      b.tag.length < 16 ∨ nonce.length < 24 ∨ pk.length < 32 ∨ sk.length < 32) ∧
    (¬ (b.tag.length < 16 ∨ nonce.length < 24 ∨ pk.length < 32 ∨ sk.length < 32) →
      objBoxDecryptView P b nonce pk sk
        = objBoxDecrypt P { b with tag := b.tag.take 16 } (nonce.take 24) (pk.take 32) (sk.take 32)) :=
  Proofs.ObjectViewExtra.objBoxDecryptView_cases P b nonce pk sk

/-- **`DryocBox::unseal`**: `Err` without an ephemeral key (no view is evaluated); otherwise a panic IFF the
ephemeral key, the recipient's public key, the tag or the recipient's secret key container is too short -/
theorem objUnsealView_cases (P : Prims) (b : Box) (rpk rsk : Bytes) :
    (objUnsealView P b rpk rsk = .panic ↔
      ∃ e, b.epk = some e ∧ (e.length < 32 ∨ rpk.length < 32 ∨ b.tag.length < 16 ∨ rsk.length < 32)) ∧
    (b.epk = none → objUnsealView P b rpk rsk = .err) ∧
    (∀ e, b.epk = some e → ¬ (e.length < 32 ∨ rpk.length < 32 ∨ b.tag.length < 16 ∨ rsk.length < 32) →
      objUnsealView P b rpk rsk
        = objUnseal P { b with epk := some (e.take 32), tag := b.tag.take 16 } (rpk.take 32) (rsk.take 32)) :=
  Proofs.ObjectViewExtra.objUnsealView_cases P b rpk rsk

/-- **with exact lengths nothing of this section applies**: every view is the identity and the code-shaped functions
ARE the models of the never-panic theorems above (so those theorems are about the code whenever the container TYPE
carries the length) -/
theorem objectView_exact (P : Prims) (b : Box) (nonce key : Bytes) (cs : List Bytes) (otag : Bytes)
    (ht : b.tag.length = 16) (hn : nonce.length = 24) (hk : key.length = 32) :
    objDecryptView P b nonce key = objDecrypt P b nonce key ∧
    objDecryptView P b nonce key ≠ .panic ∧
    onetimeObjectVerify key cs otag = Model.OnetimeAuth.objectVerifyChunks key cs otag := by
  have h := Proofs.ObjectViewExtra.objDecryptView_exact P b nonce key ht hn hk
  exact ⟨h, by rw [h]; exact Proofs.ObjectViewExtra.objDecrypt_ne_panic P b nonce key,
    Proofs.ObjectViewExtra.onetimeObjectVerify_exact key hk cs otag⟩

/-- witnesses (evaluated, toy primitives): a 15-byte tag panics in `decrypt`, whatever the rest; a 17-byte tag is
used through its first 16 bytes; the same box with a 16-byte tag does what the total model says -/
example :
    let P : Prims := ⟨fun _ _ n => List.replicate n 3, fun _ m => List.replicate 16 (UInt8.ofNat m.length),
      fun _ _ => zeros 32, fun _ => zeros 32, fun _ _ => zeros 32, fun _ => zeros 24⟩
    objDecryptView P ⟨none, List.replicate 15 2, [1, 2]⟩ (zeros 24) (zeros 32) = .panic ∧
    objDecryptView P ⟨none, List.replicate 16 2 ++ [99], [1, 2]⟩ (zeros 24) (zeros 32) = .ok [2, 1] ∧
    objDecryptView P ⟨none, List.replicate 16 2, [1, 2]⟩ (zeros 24) (zeros 32) = .ok [2, 1] ∧
    objDecrypt P ⟨none, List.replicate 16 2, [1, 2]⟩ (zeros 24) (zeros 32) = .ok [2, 1] ∧
    objDecryptView P ⟨none, List.replicate 16 7, [1, 2]⟩ (zeros 24) (zeros 32) = .err ∧
    objDecryptView P ⟨none, List.replicate 16 2, [1, 2]⟩ (zeros 23) (zeros 32) = .panic := by
  decide

/-! ### streams: `init_pull` / `init_push` with a `Vec<u8>` / `&[u8]` key or header; `Tag::from(u8)` (third review) -/

section StreamView
open DryocVerif.Model.ObjectViewStream DryocVerif.Model.SecretStream

/-- **`DryocStream::init_pull(key, header)` with variable-length containers** panics IFF the header holds fewer than 24
bytes or the key fewer than 32 (the two `as_array` assertions); it never returns an error (the function has no
`Result`) -/
theorem objInitPullView_panic_iff (P : Model.SecretStream.Prims) (key header : Bytes) :
    objInitPullView P key header = .panic ↔ header.length < 24 ∨ key.length < 32 :=
  Proofs.ObjectViewStream.objInitPullView_panic_iff P key header

theorem objInitPullView_ne_err (P : Model.SecretStream.Prims) (key header : Bytes) :
    objInitPullView P key header ≠ .err :=
  Proofs.ObjectViewStream.objInitPullView_ne_err P key header

/-- the model's `if` is the two `as_array` views of `Model/ArrayView.lean`, header first -/
theorem objInitPullView_eq_view (P : Model.SecretStream.Prims) (key header : Bytes) :
    objInitPullView P key header = objInitPullViewCode P key header :=
  Proofs.ObjectViewStream.objInitPullView_eq_view P key header

/-- over-long containers are silently truncated: whatever follows the 24th header byte and the 32nd key byte is
ignored (two different over-long keys with the same 32-byte prefix open the same stream) -/
theorem objInitPullView_ignores_tail (P : Model.SecretStream.Prims) (key header kt ht : Bytes)
    (hh : header.length = 24) (hk : key.length = 32) :
    objInitPullView P (key ++ kt) (header ++ ht) = .ok (initState P header key) :=
  Proofs.ObjectViewStream.objInitPullView_ignores_tail P key header kt ht hh hk

/-- **with exact lengths the view is the identity** and `init_pull` is the `initState` of C03's theorems (so those are
about the code whenever the container TYPE carries the length) -/
theorem objInitPullView_exact (P : Model.SecretStream.Prims) (key header : Bytes)
    (hh : header.length = 24) (hk : key.length = 32) :
    objInitPullView P key header = .ok (initState P header key) :=
  Proofs.ObjectViewStream.objInitPullView_exact P key header hh hk

/-- `DryocStream::init_push(key)`: the key view alone (the header is created by the function) -/
theorem objInitPushView_panic_iff (P : Model.SecretStream.Prims) (key hdr : Bytes) :
    objInitPushView P key hdr = .panic ↔ key.length < 32 :=
  Proofs.ObjectViewStream.objInitPushView_panic_iff P key hdr

theorem objInitPushView_ignores_tail (P : Model.SecretStream.Prims) (key hdr kt : Bytes) (hk : key.length = 32) :
    objInitPushView P (key ++ kt) hdr = .ok (initState P hdr key, hdr) :=
  Proofs.ObjectViewStream.objInitPushView_ignores_tail P key hdr kt hk

theorem objInitPushView_exact (P : Model.SecretStream.Prims) (key hdr : Bytes) (hk : key.length = 32) :
    objInitPushView P key hdr = .ok (initState P hdr key, hdr) :=
  Proofs.ObjectViewStream.objInitPushView_exact P key hdr hk

/-- non-vacuity / witnesses (evaluated): a 23-byte header panics, a 31-byte key panics, a 25-byte header and a
33-byte key give the state of their prefixes -/
example :
    let P : Model.SecretStream.Prims := ⟨fun _ _ _ l => zeros l, fun k _ => k, fun _ _ => zeros 16⟩
    objInitPullView P (zeros 32) (zeros 23) = .panic ∧
    objInitPullView P (zeros 31) (zeros 24) = .panic ∧
    objInitPullView P (zeros 32 ++ [7]) (zeros 24 ++ [9]) = .ok (initState P (zeros 24) (zeros 32)) ∧
    objInitPullView P (zeros 32) (zeros 24) = .ok (initState P (zeros 24) (zeros 32)) := by
  decide

/-- **`impl From<u8> for Tag`** (`Self::from_bits(other).expect("Unable to parse tag")`) panics IFF the byte has a bit
outside `MESSAGE | PUSH | REKEY | FINAL` -/
theorem tagFromU8_panic_iff (b : UInt8) : tagFromU8 b = .panic ↔ b &&& 0xFC ≠ 0 :=
  Proofs.ObjectViewStream.tagFromU8_panic_iff b

/-- … i.e. for every byte `≥ 4`; the four defined tags convert to themselves -/
theorem tagFromU8_panic_iff_ge (b : UInt8) : tagFromU8 b = .panic ↔ 4 ≤ b.toNat :=
  Proofs.ObjectViewStream.tagFromU8_panic_iff_ge b

theorem tagFromU8_ok_iff (b : UInt8) : tagFromU8 b = .ok b ↔ b &&& 0xFC = 0 :=
  Proofs.ObjectViewStream.tagFromU8_ok_iff b

/-- **OBSERVATION, composed.**  An AUTHENTIC message pushed with a tag byte that has an undefined bit (the classic
`push` accepts any `u8`) is accepted by the classic `pull` as written, which hands the caller that raw byte; the
caller's `Tag::from(tag)` then panics.  The conversion is the caller's act — `pullRaw_never_panics` stands — and
`DryocStream::pull` (`from_bits_retain`, fix E6) returns the byte retained (`objPullOld_panics_iff` is the pre-fix
behaviour). -/
theorem classic_pull_then_tagFrom_panics (P : Model.SecretStream.Prims) (hP : Proofs.SecretStream.WF P)
    (s : State) (m ad : Bytes) (tag : UInt8) (c : Bytes) (s' : State)
    (h : push P s (m.length + 17) m ad tag = .ok (c, s'))
    (hm : m.length ≤ STREAM_BODY_MAX) (htag : tag &&& 0xFC ≠ 0)
    (buf : Bytes) (tagv : UInt8) (hb : m.length ≤ buf.length) :
    (pullRaw P s buf tagv c ad).res = .ok m.length ∧ (pullRaw P s buf tagv c ad).tag = tag ∧
    tagFromU8 (pullRaw P s buf tagv c ad).tag = .panic :=
  Proofs.ObjectViewStream.classic_pull_then_tagFrom_panics P hP s m ad tag c s' h hm htag buf tagv hb

/-- the witness, evaluated (toy primitives, tag byte 4): push → classic `pull` `Ok` with tag 4 → `Tag::from(4)`
panics; `DryocStream::pull` on the same ciphertext returns `(message, 4)` -/
theorem classic_pull_tag4_example :
    ∃ c s', push Proofs.SecretStream.toyPrims Proofs.SecretStream.toyState 20 [0x41, 0x42, 0x43] [] 4 = .ok (c, s') ∧
      (pullRaw Proofs.SecretStream.toyPrims Proofs.SecretStream.toyState (zeros 3) 0 c []).res = .ok 3 ∧
      (pullRaw Proofs.SecretStream.toyPrims Proofs.SecretStream.toyState (zeros 3) 0 c []).tag = 4 ∧
      tagFromU8 (pullRaw Proofs.SecretStream.toyPrims Proofs.SecretStream.toyState (zeros 3) 0 c []).tag = .panic ∧
      (objPullCode Proofs.SecretStream.toyPrims Proofs.SecretStream.toyState c []).1
        = .ok ([0x41, 0x42, 0x43], 4) :=
  Proofs.ObjectViewStream.classic_pull_tag4_example

example : (4 : UInt8) &&& 0xFC ≠ 0 := by decide

/-- non-vacuity of `classic_pull_then_tagFrom_panics`: every hypothesis on C03's toy instance (which meets `WF`),
tag byte 4 at the wrapping counter — and the theorem applied -/
example : ∃ c s', push C03.toyP C03.toyS 18 [0x41] [0x42] 4 = .ok (c, s') ∧
    tagFromU8 (pullRaw C03.toyP C03.toyS [9, 9, 9] 7 c [0x42]).tag = .panic :=
  ⟨_, _, rfl, (classic_pull_then_tagFrom_panics C03.toyP C03.toyP_wf C03.toyS [0x41] [0x42] 4 _ _ rfl
    (by decide) (by decide) [9, 9, 9] 7 (by decide)).2.2⟩

end StreamView

end ObjectViewObservation

end DryocVerif.Properties.C04

section AxiomCheck
open DryocVerif.Properties.C04
#print axioms objVerifyMessage_cases
#print axioms objVerifyIncremental_cases
#print axioms objVerifyMessage_vs_verifyMessage
#print axioms authObjectVerify_cases
#print axioms authComputeAndVerify_cases
#print axioms onetimeObjectVerify_cases
#print axioms onetimeComputeAndVerify_cases
#print axioms objDecryptView_cases
#print axioms objBoxDecryptView_cases
#print axioms objUnsealView_cases
#print axioms objectView_exact
#print axioms openEasy_fixed_buffer_attackable
#print axioms openEasy_fixed_buffer_attackable_all
#print axioms openDetached_fixed_buffer_attackable
#print axioms boxOpenEasy_fixed_buffer_attackable
#print axioms boxOpenDetached_fixed_buffer_attackable
#print axioms boxOpenDetachedAfternm_fixed_buffer_attackable
#print axioms sealOpen_and_pull_fixed_buffer_err
#print axioms objInitPullView_panic_iff
#print axioms objInitPullView_ne_err
#print axioms objInitPullView_eq_view
#print axioms objInitPullView_ignores_tail
#print axioms objInitPullView_exact
#print axioms objInitPushView_panic_iff
#print axioms objInitPushView_ignores_tail
#print axioms objInitPushView_exact
#print axioms tagFromU8_panic_iff
#print axioms tagFromU8_panic_iff_ge
#print axioms tagFromU8_ok_iff
#print axioms classic_pull_then_tagFrom_panics
#print axioms classic_pull_tag4_example
#print axioms pullRaw_eq_pullChecked
#print axioms pullRaw_eq_pull
#print axioms pullRaw_err_near_max
#print axioms pullRaw_too_long
#print axioms pullRaw_never_panics
#print axioms pullRaw_never_panics_outside_window
#print axioms pullRawOld16_never_panics_outside_window
#print axioms pullRaw_panics_near_max
#print axioms pullRaw_panic_iff
#print axioms pullRawOld16_eq_pullRaw
#print axioms pushRaw_eq_pushChecked
#print axioms pushRaw_eq_push
#print axioms pushRaw_never_panics
#print axioms pushRaw_panic_iff
#print axioms pushRaw_err_near_max
#print axioms pushRaw_too_long
#print axioms pushRaw_panics_near_max
#print axioms pushRawOld16_eq_pushRaw
#print axioms push_pull_same_limit
#print axioms objPushRaw_eq_objPushChecked
#print axioms objPushRaw_eq_objPush
#print axioms objPushRaw_never_panics
#print axioms objPushRaw_err_near_max
#print axioms objPushRaw_panics_near_max
#print axioms objPullCode_eq_objPullChecked
#print axioms objPullCode_eq_objPull
#print axioms objPullCode_eq_objPullRaw
#print axioms objPullCode_too_long
#print axioms objPullCode_never_panics
#print axioms objPullCode_panics_near_max
#print axioms objPullOld_panics_iff
#print axioms translated_stream_push_guards
#print axioms translated_stream_pull_guards
#print axioms translated_stream_constants
#print axioms translated_stream_push_err_iff
#print axioms translated_stream_pull_guard_err
end AxiomCheck
