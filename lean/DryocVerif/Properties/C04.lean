import DryocVerif.Model.SecretStream
import DryocVerif.Model.SecretBox
import DryocVerif.Proofs.SecretStream
import DryocVerif.Properties.C02
import DryocVerif.Properties.C06
import DryocVerif.Properties.C10
import DryocVerif.Properties.C16
/-
C04 — no attacker-facing function panics.

Every function that consumes bytes an attacker controls (ciphertexts, sealed boxes, signed messages,
password-hash strings, serialised containers), for ALL inputs and every instantiation of the
primitives, returns `Ok` or `Err`; where a classic (caller-buffer) form CAN panic, the exact
condition is stated (`*_panic_iff`) and it is a condition on the CALLER's buffer only — checked before
any attacker byte is looked at.

* secretstream `pull` / `push` / `DryocStream`: proved here;
* secretbox / box / sealed box / object layer: re-exported from C02 (statements written out);
* signatures: re-exported from C06; password-hash strings: from C10; serde: from C16.
-/
namespace DryocVerif.Properties.C04
open DryocVerif

/-! ## secretstream -/

/-- the classic stream pull never panics, whatever the ciphertext, associated data, buffer and state -/
theorem pull_never_panics (P : Model.SecretStream.Prims) (s : Model.SecretStream.State) (m : Bytes) (tagv : UInt8) (ct ad : Bytes) :
    (Model.SecretStream.pull P s m tagv ct ad).res ≠ .panic := by
  unfold Model.SecretStream.pull
  split <;> try simp
  split <;> try simp
  split <;> simp


/-- `pull` is total with exactly two kinds of result: an error that changes nothing, or `Ok` with the
message length `ct.len() - 17` -/
theorem pull_err_or_ok (P : Model.SecretStream.Prims) (s : Model.SecretStream.State) (m : Bytes) (tagv : UInt8) (ct ad : Bytes) :
    Model.SecretStream.pull P s m tagv ct ad = ⟨.err, m, tagv, s⟩ ∨
    (17 ≤ ct.length ∧ ct.length - 17 ≤ m.length ∧
      (Model.SecretStream.pull P s m tagv ct ad).res = .ok (ct.length - 17)) := by
  rw [Proofs.SecretStream.pull_eq]
  split; · exact Or.inl rfl
  split; · exact Or.inl rfl
  split; · exact Or.inl rfl
  exact Or.inr ⟨by omega, by omega, rfl⟩

/-- the classic stream push never panics: wrong buffer size is an error, everything else succeeds -/
theorem push_never_panics (P : Model.SecretStream.Prims) (s : Model.SecretStream.State) (ctLen : Nat) (m ad : Bytes) (tag : UInt8) :
    Model.SecretStream.push P s ctLen m ad tag ≠ .panic ∧
    (Model.SecretStream.push P s ctLen m ad tag = .err ↔ ctLen ≠ m.length + 17) := by
  unfold Model.SecretStream.push Model.SecretStream.ABYTES
  split <;> simp_all

/-- `DryocStream::push` always succeeds -/
theorem objPush_ok (P : Model.SecretStream.Prims) (s : Model.SecretStream.State) (m ad : Bytes) (tag : UInt8) :
    ∃ c s', Model.SecretStream.objPush P s m ad tag = .ok (c, s') :=
  ⟨_, _, Proofs.SecretStream.push_eq P s m ad tag⟩

/-- `DryocStream::pull` never panics, for every ciphertext (any length, 0 included), AD and state -/
theorem objPull_total (P : Model.SecretStream.Prims) (s : Model.SecretStream.State) (ct ad : Bytes) :
    (Model.SecretStream.objPull P s ct ad).1 ≠ .panic := by
  rcases Proofs.SecretStream.objPull_cases P s ct ad with h | ⟨r, _, _, h⟩ <;> rw [h] <;> simp

/-- … more precisely: it is either `Err` with the state untouched, or `Ok` of exactly what the classic
`pull` wrote into a fresh `ct.len() - 17`-byte buffer, with the classic `pull`'s state -/
theorem objPull_never_panics (P : Model.SecretStream.Prims) (s : Model.SecretStream.State) (ct ad : Bytes) :
    Model.SecretStream.objPull P s ct ad = (.err, s) ∨
    ∃ r, r = Model.SecretStream.pull P s (zeros (ct.length - 17)) 0 ct ad ∧ r.res = .ok (ct.length - 17) ∧
      Model.SecretStream.objPull P s ct ad = (.ok (r.buf, r.tag), r.st) :=
  Proofs.SecretStream.objPull_cases P s ct ad

/-! ## secretbox / box / sealed box: classic forms (re-exported from C02)

The four forms that take a separate message buffer panic (slice bounds) exactly when THAT buffer is
too small for the ciphertext's payload; this is decided before the authenticator is looked at and does
not depend on any ciphertext byte, only on its length.  In-place and sealed forms cannot panic. -/

section Box
open DryocVerif.Model.SecretBox

theorem openDetachedInplace_never_panics (P : Prims) (data mac n k : Bytes) :
    (openDetachedInplace P data mac n k).res ≠ .panic :=
  C02.openDetachedInplace_never_panics P data mac n k

/-- caller contract of `crypto_secretbox_open_detached`: the message buffer holds the ciphertext -/
theorem openDetached_panic_iff (P : Prims) (buf mac c n k : Bytes) :
    (openDetached P buf mac c n k).res = .panic ↔ buf.length < c.length :=
  C02.openDetached_panic_iff P buf mac c n k

/-- caller contract of `crypto_secretbox_open_easy`: the message buffer holds `ct.len() - 16` bytes
(a ciphertext shorter than 16 bytes is an `Err`, never a panic) -/
theorem openEasy_panic_iff (P : Prims) (buf ct n k : Bytes) :
    (openEasy P buf ct n k).res = .panic ↔ 16 ≤ ct.length ∧ buf.length < ct.length - 16 :=
  C02.openEasy_panic_iff P buf ct n k

/-- … so with a buffer sized as documented no ciphertext makes it panic -/
theorem openEasy_never_panics_sized (P : Prims) (buf ct n k : Bytes) (hbuf : ct.length - 16 ≤ buf.length) :
    (openEasy P buf ct n k).res ≠ .panic := by
  intro h
  have := (C02.openEasy_panic_iff P buf ct n k).mp h
  omega

theorem openDetached_never_panics_sized (P : Prims) (buf mac c n k : Bytes) (hbuf : c.length ≤ buf.length) :
    (openDetached P buf mac c n k).res ≠ .panic := by
  intro h
  have := (C02.openDetached_panic_iff P buf mac c n k).mp h
  omega

theorem openEasyInplace_never_panics (P : Prims) (ct n k : Bytes) :
    (openEasyInplace P ct n k).res ≠ .panic :=
  C02.openEasyInplace_never_panics P ct n k

theorem boxOpenDetachedInplace_never_panics (P : Prims) (data mac n pk sk : Bytes) :
    (boxOpenDetachedInplace P data mac n pk sk).res ≠ .panic :=
  C02.boxOpenDetachedInplace_never_panics P data mac n pk sk

theorem boxOpenDetached_panic_iff (P : Prims) (buf mac c n pk sk : Bytes) :
    (boxOpenDetached P buf mac c n pk sk).res = .panic ↔ buf.length < c.length :=
  C02.boxOpenDetached_panic_iff P buf mac c n pk sk

theorem boxOpenEasy_panic_iff (P : Prims) (buf ct n pk sk : Bytes) :
    (boxOpenEasy P buf ct n pk sk).res = .panic ↔ 16 ≤ ct.length ∧ buf.length < ct.length - 16 :=
  C02.boxOpenEasy_panic_iff P buf ct n pk sk

theorem boxOpenEasy_never_panics_sized (P : Prims) (buf ct n pk sk : Bytes)
    (hbuf : ct.length - 16 ≤ buf.length) : (boxOpenEasy P buf ct n pk sk).res ≠ .panic := by
  intro h
  have := (C02.boxOpenEasy_panic_iff P buf ct n pk sk).mp h
  omega

theorem boxOpenEasyInplace_never_panics (P : Prims) (ct n pk sk : Bytes) :
    (boxOpenEasyInplace P ct n pk sk).res ≠ .panic :=
  C02.boxOpenEasyInplace_never_panics P ct n pk sk

/-- `crypto_box_seal_open`: a message buffer of the wrong size is an `Err`; no panic is possible -/
theorem sealOpen_never_panics (P : Prims) (buf ct rpk rsk : Bytes) :
    (sealOpen P buf ct rpk rsk).res ≠ .panic :=
  C02.sealOpen_never_panics P buf ct rpk rsk

/-! ## object layer: parsing and decrypting attacker bytes never panics -/

/-- `DryocSecretBox::from_bytes` -/
theorem fromBytes_never_panics (bs : Bytes) : fromBytes bs ≠ .panic := by
  unfold fromBytes; split <;> simp

/-- `DryocBox::from_sealed_bytes` -/
theorem fromSealedBytes_never_panics (bs : Bytes) : fromSealedBytes bs ≠ .panic := by
  unfold fromSealedBytes; split <;> simp

/-- … and both reject what is shorter than the overhead -/
theorem fromBytes_short (bs : Bytes) (h : bs.length < 16) : fromBytes bs = .err :=
  C02.short_rejected_fromBytes bs h

theorem fromSealedBytes_short (bs : Bytes) (h : bs.length < 48) : fromSealedBytes bs = .err :=
  C02.short_rejected_fromSealedBytes bs h

/-- `DryocSecretBox::decrypt`, for every box (any tag length, any data) -/
theorem objDecrypt_never_panics (P : Prims) (b : Box) (n k : Bytes) : objDecrypt P b n k ≠ .panic :=
  C02.objDecrypt_never_panics P b n k

/-- `DryocBox::decrypt` -/
theorem objBoxDecrypt_never_panics (P : Prims) (b : Box) (n pk sk : Bytes) :
    objBoxDecrypt P b n pk sk ≠ .panic :=
  C02.objDecrypt_never_panics P b n _

/-- `DryocBox::unseal` -/
theorem objUnseal_never_panics (P : Prims) (b : Box) (rpk rsk : Bytes) : objUnseal P b rpk rsk ≠ .panic :=
  C02.objUnseal_never_panics P b rpk rsk

/-- the whole attacker-facing pipeline of the object layer, bytes in, message or `Err` out -/
theorem fromBytes_then_decrypt_never_panics (P : Prims) (bs n k : Bytes) :
    (match fromBytes bs with
     | .ok b => objDecrypt P b n k
     | .err => .err
     | .panic => .panic) ≠ .panic := by
  cases h : fromBytes bs with
  | ok b => exact C02.objDecrypt_never_panics P b n k
  | err => simp
  | panic => exact absurd h (fromBytes_never_panics bs)

theorem fromSealedBytes_then_unseal_never_panics (P : Prims) (bs rpk rsk : Bytes) :
    (match fromSealedBytes bs with
     | .ok b => objUnseal P b rpk rsk
     | .err => .err
     | .panic => .panic) ≠ .panic := by
  cases h : fromSealedBytes bs with
  | ok b => exact C02.objUnseal_never_panics P b rpk rsk
  | err => simp
  | panic => exact absurd h (fromSealedBytes_never_panics bs)

end Box

/-! ## signatures (re-exported from C06)

`verifyDetached` is a `Bool`-valued function of the model (total by construction: `Ok`/`Err` only);
the forms with a caller buffer and the byte parser are: -/

section Sign
open DryocVerif.Model.Sign

/-- `crypto_sign_open` (`n` = length of the caller's message buffer): a wrong buffer size, a short
input or a bad signature is an `Err` -/
theorem signOpen_never_panics (H : Bytes → Bytes) (n : Nat) (sm pk : Bytes) :
    signOpen H n sm pk ≠ .panic :=
  C06.signOpen_never_panics H n sm pk

/-- `SignedMessage::from_bytes` -/
theorem signedFromBytes_never_panics (bs : Bytes) : Model.Sign.fromBytes bs ≠ .panic := by
  unfold Model.Sign.fromBytes; split <;> simp

theorem signedFromBytes_short (bs : Bytes) (h : bs.length < 64) : Model.Sign.fromBytes bs = .err :=
  C06.fromBytes_short bs h

/-- `from_bytes` then `verify`: bytes in, `Bool` out -/
theorem signedFromBytes_then_verify_total (H : Bytes → Bytes) (bs pk : Bytes) :
    (match Model.Sign.fromBytes bs with
     | .ok (sig, m) => Outcome.ok (verifyDetached H sig m pk false)
     | .err => .err
     | .panic => .panic) ≠ .panic := by
  cases h : Model.Sign.fromBytes bs with
  | ok r => simp
  | err => simp
  | panic => exact absurd h (signedFromBytes_never_panics bs)

/-- (the signing side, for completeness) -/
theorem signCombined_never_panics (H : Bytes → Bytes) (n : Nat) (msg sk : Bytes) :
    signCombined H n msg sk ≠ .panic :=
  C06.signCombined_never_panics H n msg sk

end Sign

/-! ## password-hash strings (re-exported from C10): any `&str` -/

section PwhashStr
open DryocVerif.Model.PwhashStr

/-- `Pwhash::parse_encoded_pwhash` -/
theorem parse_never_panics (s : Str) : parse s ≠ .panic := C10.parse_never_panics s

/-- `crypto_pwhash_str_needs_rehash` -/
theorem needsRehash_never_panics (s : Str) (o l : Nat) : needsRehash s o l ≠ .panic :=
  C10.needsRehash_never_panics s o l

/-- `crypto_pwhash_str_verify`, for every Argon2 that does not itself panic -/
theorem strVerify_never_panics
    (argon2 : Nat → Nat → Nat → Nat → Bytes → Bytes → Nat → Outcome Bytes)
    (hA : ∀ ty t m p pwd salt n, argon2 ty t m p pwd salt n ≠ .panic)
    (s : Str) (pwd : Bytes) : strVerify argon2 s pwd ≠ .panic :=
  C10.strVerify_never_panics argon2 hA s pwd

/-- `PwHash::from_string(s).to_string()` -/
theorem reencode_never_panics (s : Str) : reencode s ≠ .panic := C10.reencode_never_panics s

/-- allocation bound: the only heap values the parser produces from attacker text are the two
base64-decoded byte strings, and each holds at most 3/4 of the input string's length (every
`$`-segment is a sub-slice of the input, `splitOn_length`; the costs are `u32`s, `C10.parse_ok_range`) -/
theorem parse_alloc_bound (s : Str) (r : Parsed) (h : parse s = .ok r) :
    (∀ salt, r.salt = some salt → 4 * salt.length ≤ 3 * s.length) ∧
    (∀ hash, r.pwhash = some hash → 4 * hash.length ≤ 3 * s.length) :=
  Model.PwhashStr.parse_ok_alloc h

/-- the segments the parser iterates over are never longer than the input -/
theorem parse_segments_bound (s : Str) : ∀ seg ∈ splitOn '$' s, seg.length ≤ s.length :=
  Model.PwhashStr.splitOn_length '$' s

end PwhashStr

/-! ## serde (re-exported from C16): any sequence or byte-string encoding, any expected length -/

theorem deFixed_never_panics (n : Nat) (enc : Model.Encoding.Enc) : Model.Encoding.deFixed n enc ≠ .panic :=
  C16.deFixed_never_panics n enc

/-- resizable containers: always `Ok` of the payload -/
theorem deHeap_never_panics (enc : Model.Encoding.Enc) : Model.Encoding.deHeap enc ≠ .panic := by
  rw [C16.deHeap_spec]; simp

end DryocVerif.Properties.C04
