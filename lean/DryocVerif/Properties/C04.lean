import DryocVerif.Model.SecretStream
import DryocVerif.Model.SecretBox
import DryocVerif.Proofs.SecretStream
namespace DryocVerif.Properties.C04
open DryocVerif

/-- the classic stream pull never panics, whatever the ciphertext, associated data, buffer and state -/
theorem pull_never_panics (P : Model.SecretStream.Prims) (s : Model.SecretStream.State) (m : Bytes) (tagv : UInt8) (ct ad : Bytes) :
    (Model.SecretStream.pull P s m tagv ct ad).res ≠ .panic := by
  unfold Model.SecretStream.pull
  split <;> try simp
  split <;> try simp
  split <;> simp


/-- `pull` is total with exactly two kinds of result: an error that changes nothing, or `Ok` with the
message length `ct.len() - 17` -/
theorem pull_err_or_ok (P : Model.SecretStream.Prims) (s : Model.SecretStream.State) (m : Bytes) (tagv : UInt8) (ct ad : Bytes) :
    Model.SecretStream.pull P s m tagv ct ad = ⟨.err, m, tagv, s⟩ ∨
    (17 ≤ ct.length ∧ ct.length - 17 ≤ m.length ∧
      (Model.SecretStream.pull P s m tagv ct ad).res = .ok (ct.length - 17)) := by
  rw [Proofs.SecretStream.pull_eq]
  split; · exact Or.inl rfl
  split; · exact Or.inl rfl
  split; · exact Or.inl rfl
  exact Or.inr ⟨by omega, by omega, rfl⟩

/-- the classic stream push never panics: wrong buffer size is an error, everything else succeeds -/
theorem push_never_panics (P : Model.SecretStream.Prims) (s : Model.SecretStream.State) (ctLen : Nat) (m ad : Bytes) (tag : UInt8) :
    Model.SecretStream.push P s ctLen m ad tag ≠ .panic ∧
    (Model.SecretStream.push P s ctLen m ad tag = .err ↔ ctLen ≠ m.length + 17) := by
  unfold Model.SecretStream.push Model.SecretStream.ABYTES
  split <;> simp_all

/-- `DryocStream::push` always succeeds -/
theorem objPush_ok (P : Model.SecretStream.Prims) (s : Model.SecretStream.State) (m ad : Bytes) (tag : UInt8) :
    ∃ c s', Model.SecretStream.objPush P s m ad tag = .ok (c, s') :=
  ⟨_, _, Proofs.SecretStream.push_eq P s m ad tag⟩

/-- `DryocStream::pull` never panics, for every ciphertext (any length, 0 included), AD and state -/
theorem objPull_total (P : Model.SecretStream.Prims) (s : Model.SecretStream.State) (ct ad : Bytes) :
    (Model.SecretStream.objPull P s ct ad).1 ≠ .panic := by
  rcases Proofs.SecretStream.objPull_cases P s ct ad with h | ⟨r, _, _, h⟩ <;> rw [h] <;> simp

/-- … more precisely: it is either `Err` with the state untouched, or `Ok` of exactly what the classic
`pull` wrote into a fresh `ct.len() - 17`-byte buffer, with the classic `pull`'s state -/
theorem objPull_never_panics (P : Model.SecretStream.Prims) (s : Model.SecretStream.State) (ct ad : Bytes) :
    Model.SecretStream.objPull P s ct ad = (.err, s) ∨
    ∃ r, r = Model.SecretStream.pull P s (zeros (ct.length - 17)) 0 ct ad ∧ r.res = .ok (ct.length - 17) ∧
      Model.SecretStream.objPull P s ct ad = (.ok (r.buf, r.tag), r.st) :=
  Proofs.SecretStream.objPull_cases P s ct ad

end DryocVerif.Properties.C04
