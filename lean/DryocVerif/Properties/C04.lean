import DryocVerif.Model.SecretStream
import DryocVerif.Model.SecretBox
namespace DryocVerif.Properties.C04
open DryocVerif

/-- the classic stream pull never panics, whatever the ciphertext, associated data, buffer and state -/
theorem pull_never_panics (P : Model.SecretStream.Prims) (s : Model.SecretStream.State) (m : Bytes) (tagv : UInt8) (ct ad : Bytes) :
    (Model.SecretStream.pull P s m tagv ct ad).res ≠ .panic := by
  unfold Model.SecretStream.pull
  split <;> try simp
  split <;> try simp
  split <;> simp

end DryocVerif.Properties.C04
