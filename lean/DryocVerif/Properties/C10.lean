import DryocVerif.Model.PwhashStr
import DryocVerif.Proofs.Base64Lemmas
namespace DryocVerif.Properties.C10
open DryocVerif

/-- base64 (no padding) decoding inverts encoding for every byte string -/
theorem b64_roundtrip (bs : Bytes) : Spec.Base64.decodeChars (Spec.Base64.encodeChars bs) = some bs :=
  Spec.Base64.decode_encode bs

end DryocVerif.Properties.C10
