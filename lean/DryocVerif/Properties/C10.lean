import DryocVerif.Model.PwhashStr
import DryocVerif.Proofs.Base64Lemmas
import DryocVerif.Proofs.PwhashStr
/-
C10 — the password-hash STRING layer (`Model.PwhashStr`, mirroring
`pwhash_to_string`, `Pwhash::parse_encoded_pwhash`, `crypto_pwhash_str_verify`,
`crypto_pwhash_str_needs_rehash`, `PwHash::to_string/from_string`).

Helper lemmas live in `Proofs/PwhashStr.lean`.
-/
namespace DryocVerif.Properties.C10
open DryocVerif DryocVerif.Spec.Base64 DryocVerif.Model.PwhashStr

/-- base64 (no padding) decoding inverts encoding for every byte string -/
theorem b64_roundtrip (bs : Bytes) : Spec.Base64.decodeChars (Spec.Base64.encodeChars bs) = some bs :=
  Spec.Base64.decode_encode bs

/-! ## 1. decimal numbers -/

/-- `u32::to_string` then `str::parse::<u32>` is the identity on `u32` -/
theorem dec_roundtrip (n : Nat) (h : n < 2 ^ 32) : parseU32 (toDec n) = some n :=
  parseU32_toDec n h

/-- the fuel (40 digits) of `toDec` suffices far beyond `u32`: for every `n < 10^40` the printed
string parses back to `n` exactly when `n` fits a `u32`, and is rejected (overflow) otherwise -/
theorem dec_roundtrip_full (n : Nat) (h : n < 10 ^ 40) :
    parseU32 (toDec n) = if n < 2 ^ 32 then some n else none := by
  split
  · rename_i h32; exact parseU32_toDec n h32
  · rename_i h32; exact parseU32_toDec_overflow n h (by omega)

/-- printed numbers: non-empty, ASCII digits only; in particular no sign and no separator -/
theorem toDec_digits (n : Nat) :
    toDec n ≠ [] ∧ (∀ c ∈ toDec n, '0' ≤ c ∧ c ≤ '9') ∧
    '+' ∉ toDec n ∧ '$' ∉ toDec n ∧ ',' ∉ toDec n ∧ '=' ∉ toDec n :=
  ⟨toDec_ne_nil n, toDec_isDigit n, (toDec_not_mem n).2.2.2, (toDec_not_mem n).1,
   (toDec_not_mem n).2.1, (toDec_not_mem n).2.2.1⟩

theorem parseU32_rejects_empty : parseU32 [] = none := rfl
theorem parseU32_rejects_lone_plus : parseU32 ['+'] = none := by decide
theorem parseU32_rejects_overflow : parseU32 (toDec (2 ^ 32)) = none := by decide
theorem parseU32_accepts_max : parseU32 (toDec (2 ^ 32 - 1)) = some (2 ^ 32 - 1) := by decide
/-- whatever `parseU32` accepts is a `u32` -/
theorem parseU32_range (s : Str) (v : Nat) (h : parseU32 s = some v) : v < 2 ^ 32 :=
  parseU32_lt s v h

/-! ## 2. alphabet -/

/-- every character of a base64 field is in the standard alphabet (the decoder accepts it) -/
theorem b64_alphabet (bs : Bytes) : ∀ c ∈ encodeChars bs, (decodeSextet c).isSome = true :=
  encodeChars_isB64 bs

/-- … hence never a separator or '=' -/
theorem b64_no_separators (bs : Bytes) :
    '$' ∉ encodeChars bs ∧ ',' ∉ encodeChars bs ∧ '=' ∉ encodeChars bs :=
  encodeChars_not_mem bs

/-- a base64 field is never mistaken for a version field or a parameter list -/
theorem b64_not_param (bs : Bytes) :
    stripPrefix "v=".toList (encodeChars bs) = none ∧
    isInfix "m=".toList (encodeChars bs) = false ∧
    isInfix "t=".toList (encodeChars bs) = false ∧
    isInfix "p=".toList (encodeChars bs) = false :=
  have h := (encodeChars_not_mem bs).2.2
  ⟨stripPrefix_none_of_not_mem '=' (by decide) h,
   isInfix_false_of_not_mem '=' (by decide) h,
   isInfix_false_of_not_mem '=' (by decide) h,
   isInfix_false_of_not_mem '=' (by decide) h⟩

/-- `split('$')` of an encoded string yields exactly the six intended fields -/
theorem split_encode (alg : Alg) (t m : Nat) (salt hash : Bytes) :
    splitOn '$' (encode alg t m salt hash) =
      [[], alg.name, "v=".toList ++ toDec 19,
       "m=".toList ++ (toDec m ++ (',' :: ("t=".toList ++ (toDec t ++ (',' :: "p=1".toList))))),
       encodeChars salt, encodeChars hash] :=
  splitOn_encode alg t m salt hash

/-! ## 3. parse ∘ encode -/

/-- the parser recovers exactly what the encoder was given — for both algorithms, all `u32`
costs, and EVERY non-empty salt and hash (including ones whose base64 text begins with
"argon2": the algorithm-name branch is only taken while no algorithm has been seen) -/
theorem parse_encode (alg : Alg) (t m : Nat) (salt hash : Bytes)
    (ht : t < 2 ^ 32) (hm : m < 2 ^ 32) (hs : salt ≠ []) (hh : hash ≠ []) :
    parse (encode alg t m salt hash) =
      .ok { pwhash := some hash, salt := some salt, ty := some alg, t := some t, m := some m,
            p := some 1, version := some 19 } :=
  Model.PwhashStr.parse_encode alg t m salt hash ht hm hs hh

/-! ## 4. parse-then-print is the identity on the encoder's range -/

theorem reencode_encode (alg : Alg) (t m : Nat) (salt hash : Bytes)
    (ht : t < 2 ^ 32) (hm : m < 2 ^ 32) (hs : salt ≠ []) (hh : hash ≠ []) :
    reencode (encode alg t m salt hash) = .ok (encode alg t m salt hash) := by
  unfold reencode
  rw [parse_encode alg t m salt hash ht hm hs hh]

/-! ## 5. needs-rehash -/

/-- general form: for any accepted string the answer is "some cost differs" -/
theorem needs_rehash_of_parse (s : Str) (r : Parsed) (opslimit memlimit : Nat)
    (h : parse s = .ok r) :
    ∃ t m, r.t = some t ∧ r.m = some m ∧
      needsRehash s opslimit memlimit =
        .ok (decide (¬ (t = opslimit % 2 ^ 32 ∧ m = memlimit / 1024 % 2 ^ 32))) := by
  obtain ⟨ty, t, m, salt, hash, _, _, hr⟩ := parse_ok_fields h
  subst hr
  refine ⟨t, m, rfl, rfl, ?_⟩
  unfold needsRehash
  rw [h]
  simp only [Option.some.injEq, ne_eq]
  congr 1
  rw [decide_eq_decide]
  omega

theorem needs_rehash_encode (alg : Alg) (t m : Nat) (salt hash : Bytes) (opslimit memlimit : Nat)
    (ht : t < 2 ^ 32) (hm : m < 2 ^ 32) (hs : salt ≠ []) (hh : hash ≠ [])
    (ho : opslimit < 2 ^ 32) (hl : memlimit / 1024 < 2 ^ 32) :
    needsRehash (encode alg t m salt hash) opslimit memlimit =
      .ok (decide (¬ (t = opslimit ∧ m = memlimit / 1024))) := by
  obtain ⟨t', m', h1, h2, h3⟩ :=
    needs_rehash_of_parse _ _ opslimit memlimit (parse_encode alg t m salt hash ht hm hs hh)
  cases h1; cases h2
  rw [h3, Nat.mod_eq_of_lt ho, Nat.mod_eq_of_lt hl]

/-- no rehash needed exactly when both recorded costs equal the requested ones -/
theorem needs_rehash_iff (alg : Alg) (t m : Nat) (salt hash : Bytes) (opslimit memlimit : Nat)
    (ht : t < 2 ^ 32) (hm : m < 2 ^ 32) (hs : salt ≠ []) (hh : hash ≠ [])
    (ho : opslimit < 2 ^ 32) (hl : memlimit / 1024 < 2 ^ 32) :
    needsRehash (encode alg t m salt hash) opslimit memlimit = .ok false ↔
      (t = opslimit ∧ m = memlimit / 1024) := by
  rw [needs_rehash_encode alg t m salt hash opslimit memlimit ht hm hs hh ho hl]
  simp

/-- … and `Ok(true)` otherwise (never an error on the encoder's own output) -/
theorem needs_rehash_true_iff (alg : Alg) (t m : Nat) (salt hash : Bytes) (opslimit memlimit : Nat)
    (ht : t < 2 ^ 32) (hm : m < 2 ^ 32) (hs : salt ≠ []) (hh : hash ≠ [])
    (ho : opslimit < 2 ^ 32) (hl : memlimit / 1024 < 2 ^ 32) :
    needsRehash (encode alg t m salt hash) opslimit memlimit = .ok true ↔
      ¬ (t = opslimit ∧ m = memlimit / 1024) := by
  rw [needs_rehash_encode alg t m salt hash opslimit memlimit ht hm hs hh ho hl]
  simp only [Outcome.ok.injEq, decide_eq_true_eq]

/-! ## 6. the string is self-describing -/

theorem encode_records_inputs (a a' : Alg) (t t' m m' : Nat) (s s' h h' : Bytes)
    (ht : t < 2 ^ 32) (hm : m < 2 ^ 32) (hs : s ≠ []) (hh : h ≠ [])
    (ht' : t' < 2 ^ 32) (hm' : m' < 2 ^ 32) (hs' : s' ≠ []) (hh' : h' ≠ [])
    (e : encode a t m s h = encode a' t' m' s' h') :
    a = a' ∧ t = t' ∧ m = m' ∧ s = s' ∧ h = h' := by
  have h1 := parse_encode a t m s h ht hm hs hh
  have h2 := parse_encode a' t' m' s' h' ht' hm' hs' hh'
  rw [e, h2] at h1
  simp only [Outcome.ok.injEq, Parsed.mk.injEq, Option.some.injEq] at h1
  obtain ⟨e1, e2, e3, e4, e5, _⟩ := h1
  exact ⟨e3.symm, e4.symm, e5.symm, e2.symm, e1.symm⟩

/-! ## 7. verification -/

theorem strVerify_encode (argon2 : Nat → Nat → Nat → Nat → Bytes → Bytes → Nat → Outcome Bytes)
    (alg : Alg) (t m : Nat) (salt hash pwd : Bytes)
    (ht : t < 2 ^ 32) (hm : m < 2 ^ 32) (hs : salt ≠ []) (hh : hash ≠ []) :
    strVerify argon2 (encode alg t m salt hash) pwd =
      match argon2 alg.num t m 1 pwd salt 32 with
      | .ok computed => if computed = hash then .ok () else .err
      | .err => .err
      | .panic => .panic := by
  unfold strVerify
  rw [parse_encode alg t m salt hash ht hm hs hh]
  rfl

/-- verification succeeds exactly when recomputing Argon2 with the recorded algorithm, costs and
salt (32-byte output, one lane) reproduces the recorded hash -/
theorem strVerify_iff (argon2 : Nat → Nat → Nat → Nat → Bytes → Bytes → Nat → Outcome Bytes)
    (alg : Alg) (t m : Nat) (salt hash pwd : Bytes)
    (ht : t < 2 ^ 32) (hm : m < 2 ^ 32) (hs : salt ≠ []) (hh : hash ≠ []) :
    strVerify argon2 (encode alg t m salt hash) pwd = .ok () ↔
      argon2 alg.num t m 1 pwd salt 32 = .ok hash := by
  rw [strVerify_encode argon2 alg t m salt hash pwd ht hm hs hh]
  cases h : argon2 alg.num t m 1 pwd salt 32 with
  | ok c =>
    by_cases hc : c = hash
    · simp [hc]
    · simp [hc]
  | err => simp
  | panic => simp

/-! ## 8. totality -/

theorem parse_never_panics (s : Str) : parse s ≠ .panic := parse_ne_panic s

/-- the `unwrap()`s after a successful parse cannot fail: every field is present -/
theorem parse_ok_complete (s : Str) (r : Parsed) (h : parse s = .ok r) :
    ∃ ty t m salt hash, salt ≠ [] ∧ hash ≠ [] ∧
      r = { pwhash := some hash, salt := some salt, ty := some ty, t := some t, m := some m,
            p := some 1, version := some 19 } :=
  parse_ok_fields h

/-- every accepted cost is a `u32` -/
theorem parse_ok_range (s : Str) (r : Parsed) (h : parse s = .ok r) :
    (∀ t, r.t = some t → t < 2 ^ 32) ∧ (∀ m, r.m = some m → m < 2 ^ 32) :=
  Model.PwhashStr.parse_ok_range h

theorem reencode_never_panics (s : Str) : reencode s ≠ .panic := by
  unfold reencode
  cases h : parse s with
  | ok r =>
    obtain ⟨ty, t, m, salt, hash, _, _, hr⟩ := parse_ok_fields h
    subst hr; simp
  | err => simp
  | panic => exact absurd h (parse_ne_panic s)

theorem needsRehash_never_panics (s : Str) (o l : Nat) : needsRehash s o l ≠ .panic := by
  unfold needsRehash
  cases h : parse s with
  | ok r => simp
  | err => simp
  | panic => exact absurd h (parse_ne_panic s)

theorem strVerify_never_panics
    (argon2 : Nat → Nat → Nat → Nat → Bytes → Bytes → Nat → Outcome Bytes)
    (hA : ∀ ty t m p pwd salt n, argon2 ty t m p pwd salt n ≠ .panic)
    (s : Str) (pwd : Bytes) : strVerify argon2 s pwd ≠ .panic := by
  unfold strVerify
  cases h : parse s with
  | ok r =>
    obtain ⟨ty, t, m, salt, hash, _, _, hr⟩ := parse_ok_fields h
    subst hr
    simp only
    cases ha : argon2 ty.num t m 1 pwd salt 32 with
    | ok c => by_cases hc : c = hash <;> simp [hc]
    | err => simp
    | panic => exact absurd ha (hA _ _ _ _ _ _ _)
  | err => simp
  | panic => exact absurd h (parse_ne_panic s)

/-- every accepted string — not only the encoder's own output — is re-printed as a canonical
string that parses to the very same record … -/
theorem reencode_ok_parse (s s' : Str) (h : reencode s = .ok s') :
    ∃ r, parse s = .ok r ∧ parse s' = .ok r := by
  unfold reencode at h
  cases hp : parse s with
  | ok r =>
    obtain ⟨ty, t, m, salt, hash, hs, hh, hr⟩ := parse_ok_fields hp
    have hrange := Model.PwhashStr.parse_ok_range hp
    subst hr
    rw [hp] at h
    simp only [Outcome.ok.injEq] at h
    subst h
    exact ⟨_, rfl, parse_encode ty t m salt hash (hrange.1 t rfl) (hrange.2 m rfl) hs hh⟩
  | err => rw [hp] at h; cases h
  | panic => rw [hp] at h; cases h

/-- … hence `from_string ∘ to_string` is idempotent on all accepted inputs -/
theorem reencode_idempotent (s s' : Str) (h : reencode s = .ok s') : reencode s' = .ok s' := by
  obtain ⟨r, hp, hp'⟩ := reencode_ok_parse s s' h
  unfold reencode at h ⊢
  rw [hp] at h
  rw [hp']
  exact h

/-! ## non-vacuity -/

/-- a salt (and hash) whose base64 text is literally "argon2id" -/
def trickySalt : Bytes := [0x6A, 0xB8, 0x28, 0x9F, 0x68, 0x9D]

example : encodeChars trickySalt = "argon2id".toList := by decide

example : encode .argon2i 3 65536 trickySalt trickySalt =
    "$argon2i$v=19$m=65536,t=3,p=1$argon2id$argon2id".toList := by decide

example : parse "$argon2i$v=19$m=65536,t=3,p=1$argon2id$argon2id".toList =
    .ok { pwhash := some trickySalt, salt := some trickySalt, ty := some .argon2i, t := some 3,
          m := some 65536, p := some 1, version := some 19 } := by decide

example : reencode "$argon2id$v=19$m=4294967295,t=0,p=1$AA$/w".toList =
    .ok "$argon2id$v=19$m=4294967295,t=0,p=1$AA$/w".toList := by decide

example : needsRehash (encode .argon2id 2 65536 [1] [2]) 2 (65536 * 1024) = .ok false := by decide
example : needsRehash (encode .argon2id 2 65536 [1] [2]) 3 (65536 * 1024) = .ok true := by decide
-- memlimit is truncated to KiB before comparison
example : needsRehash (encode .argon2id 2 65536 [1] [2]) 2 (65536 * 1024 + 1023) = .ok false := by decide

-- rejected inputs (the error side is inhabited)
example : parse "$argon2x$v=19$m=1,t=1,p=1$AA$AA".toList = .err := by decide
example : parse "$argon2i$v=19$m=4294967296,t=1,p=1$AA$AA".toList = .err := by decide
example : parse "$argon2i$v=16$m=1,t=1,p=1$AA$AA".toList = .err := by decide
example : parse "$argon2i$v=19$m=1,t=1,p=2$AA$AA".toList = .err := by decide
example : parse [] = .err := by decide
-- hypotheses `salt ≠ []`, `hash ≠ []` are necessary: the parser rejects its encoder's output
example : parse (encode .argon2i 1 1 [] [1]) = .err := by decide
example : parse (encode .argon2i 1 1 [1] []) = .err := by decide

end DryocVerif.Properties.C10
